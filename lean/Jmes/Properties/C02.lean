/-
  C02 — builtins: error classes, optional-argument defaults, static arity.

    i. value errors        `intArg`, `padWith`, `splitCount`, `replaceCount`, `fromItems`
    j. defaults            `pad_left(s,w) = pad_left(s,w,' ')`, `find_first(s,p) = find_first(s,p,0,∞)`, `trim(s) = trim(s,'')`,
                           `replace(s,a,b) = replace(s,a,b,∞)`, `split(s,p) = split(s,p,∞)`
    h. type errors         per builtin of `applyFn`: invalid-type iff an argument's type is outside the signature
    k. static arity        the builtin table, and `unknownFunction` before any argument is parsed

  Deviations of the model (= the Go code) from the plain reading of the property are stated as `example`s named
  "discrepancy" in the comments.
-/
import Jmes.Proofs.Refine
import Jmes.Model.Api
namespace Jmes.C02
open Jmes

/-! ## i. value errors -/

theorem bind_eq_err_iff {α β} (x : Res α) (k : α → Res β) (cs : List Cat) :
    (x >>= k) = .err cs ↔ x = .err cs ∨ ∃ a, x = .ok a ∧ k a = .err cs := by
  cases x <;> simp

theorem bind_eq_ok_iff {α β} (x : Res α) (k : α → Res β) (b : β) :
    (x >>= k) = .ok b ↔ ∃ a, x = .ok a ∧ k a = .ok b := by
  cases x <;> simp

/-- `intArg`: invalid-value iff the argument is a number that is not an integer in the int64 range -/
theorem intArg_errValue_iff (v : Val) :
    intArg v = .err [Cat.invalidValue] ↔ (∃ d, toDecimal v = some d) ∧ toInt v = .notInt := by
  unfold intArg
  cases hi : toInt v <;> cases hd : toDecimal v <;> simp [errType, errValue]

/-- a value that `toInt` does not accept as a number is not a decimal either -/
theorem toInt_notNum (v : Val) (h : toInt v = .notNum) : toDecimal v = none := by
  cases v with
  | num n =>
    cases n with
    | jnum t =>
      simp only [toInt] at h
      simp only [toDecimal]
      cases hp : parseInt64 t with
      | some i => rw [hp] at h; cases h
      | none =>
        rw [hp] at h
        cases hd : Dec.parse t with
        | ok d =>
          rw [hd] at h
          simp only [decToInt] at h
          split at h
          · cases h
          · split at h
            · cases h
            · cases h
            · split at h <;> cases h
        | _ => rfl
    | dec d =>
      simp only [toInt, decToInt] at h
      split at h
      · cases h
      · split at h
        · cases h
        · cases h
        · split at h <;> cases h
    | f64 f => simp only [toInt] at h; split at h <;> cases h
    | f32 f => simp only [toInt] at h; split at h <;> cases h
    | int k i =>
      simp only [toInt] at h
      cases k <;> simp only at h <;> first | cases h | (split at h <;> cases h)
  | _ => rfl

/-- `intArg`: invalid-type iff the argument is not a number -/
theorem intArg_errType_iff (v : Val) :
    intArg v = .err [Cat.invalidType] ↔ toDecimal v = none ∧ (toInt v = .notNum ∨ toInt v = .notInt) := by
  unfold intArg
  cases hi : toInt v <;> cases hd : toDecimal v <;> simp [errType, errValue]
  exact absurd (toInt_notNum v hi) (by rw [hd]; intro h; cases h)

/-- anything that is not a Go number at all -/
theorem intArg_non_number (v : Val) (h : ∀ n, v ≠ .num n) : intArg v = .err [Cat.invalidType] := by
  cases v with
  | num n => exact absurd rfl (h n)
  | _ => rfl

/-- a number (`toDecimal` defined) never gives invalid-type; a non-number never gives invalid-value -/
theorem intArg_number_not_errType (v : Val) (d : Dec) (h : toDecimal v = some d) :
    intArg v ≠ .err [Cat.invalidType] := by
  intro he
  have := ((intArg_errType_iff v).mp he).1
  rw [h] at this
  cases this

/-- for everything but a `json.Number` (whose text may be anything): invalid-type iff not a number -/
theorem intArg_errType_iff_not_number (v : Val) (hj : ∀ t, v ≠ .num (.jnum t)) :
    intArg v = .err [Cat.invalidType] ↔ toDecimal v = none := by
  constructor
  · intro h; exact ((intArg_errType_iff v).mp h).1
  · intro h
    cases v with
    | num n =>
      cases n with
      | jnum t => exact absurd rfl (hj t)
      | _ => cases h
    | _ => rfl

/-- … and for a `json.Number` whose text is a decimal number (what a JSON decoder produces) likewise -/
theorem intArg_jnum_not_errType (t : Bytes) (d : Dec) (h : Dec.parse t = .ok d) :
    intArg (.num (.jnum t)) ≠ .err [Cat.invalidType] :=
  intArg_number_not_errType _ d (by simp only [toDecimal, h])

theorem intArg_err_cases (v : Val) (cs : List Cat) (h : intArg v = .err cs) :
    cs = [Cat.invalidType] ∨ cs = [Cat.invalidValue] := by
  unfold intArg at h
  cases hi : toInt v <;> rw [hi] at h <;> simp only [errType] at h
  · cases h
  · cases hd : toDecimal v <;> rw [hd] at h <;> simp only [errValue, Res.err.injEq] at h
    · exact Or.inl h.symm
    · exact Or.inr h.symm
  · simp only [Res.err.injEq] at h; exact Or.inl h.symm
  · cases h
  · cases h

/-- for every Go integer kind, float, decimal: exactly "integral and in range" decides -/
example : intArg (.num (.int .i64 (-3))) = .ok (-3) := rfl
example : intArg (.num (.int .u64 (2 ^ 63))) = .err [Cat.invalidValue] := rfl
example : intArg (.num (.dec (.fin false 15 (-1)))) = .err [Cat.invalidValue] := by rfl
example : intArg (.num (.dec (.fin false 15 0))) = .ok 15 := by rfl
example : intArg (.str [0x31]) = .err [Cat.invalidType] := rfl
example : intArg .null = .err [Cat.invalidType] := rfl
/-- a `json.Number` whose text is not a number is not a number -/
example : intArg (.num (.jnum [0x78])) = .err [Cat.invalidType] := by rfl

/-- `padWith`: exactly the two range conditions give invalid-value, and nothing else is an error -/
theorem padWith_err_iff (left : Bool) (s : Bytes) (w : Int) (p : Bytes) (orig : Val) (cs : List Cat) :
    padWith left s w p orig = .err cs ↔ cs = [Cat.invalidValue] ∧ (w < 0 ∨ runeCount p ≠ 1) := by
  unfold padWith
  by_cases hw : w < 0
  · rw [if_pos hw]
    simp only [errValue, Res.err.injEq, hw, true_or, and_true]
    exact eq_comm
  · rw [if_neg hw]
    by_cases hp : runeCount p ≠ 1
    · rw [if_pos hp]
      simp only [errValue, Res.err.injEq, hw, false_or]
      exact ⟨fun h => ⟨h.symm, hp⟩, fun h => h.1.symm⟩
    · rw [if_neg hp]
      constructor
      · intro h
        exfalso
        simp only [] at h
        by_cases h1 : w - (runeCount s : Int) ≤ 0
        · rw [if_pos h1] at h; cases h
        · rw [if_neg h1] at h
          by_cases h2 : (w - (runeCount s : Int)).toNat > padLimit
          · rw [if_pos h2] at h; cases h
          · rw [if_neg h2] at h; cases h
      · rintro ⟨_, h | h⟩
        · exact absurd h hw
        · exact absurd h hp

theorem padWith_negative (left : Bool) (s : Bytes) (w : Int) (p : Bytes) (orig : Val) (h : w < 0) :
    padWith left s w p orig = .err [Cat.invalidValue] :=
  (padWith_err_iff left s w p orig _).mpr ⟨rfl, Or.inl h⟩

theorem padWith_bad_pad (left : Bool) (s : Bytes) (w : Int) (p : Bytes) (orig : Val) (h : runeCount p ≠ 1) :
    padWith left s w p orig = .err [Cat.invalidValue] :=
  (padWith_err_iff left s w p orig _).mpr ⟨rfl, Or.inr h⟩

example : padWith true [0x61] (-1) [0x20] (.str [0x61]) = .err [Cat.invalidValue] := by rfl
example : padWith true [0x61] 3 [] (.str [0x61]) = .err [Cat.invalidValue] := by rfl
example : padWith true [0x61] 3 [0x2A, 0x2A] (.str [0x61]) = .err [Cat.invalidValue] := by rfl
/-- one code point, not one byte: `é` is a valid pad -/
example : padWith true [0x61] 2 [0xC3, 0xA9] (.str [0x61]) = .ok (.str [0xC3, 0xA9, 0x61]) := by rfl
example : padWith true [0x61] 3 [0x2A] (.str [0x61]) = .ok (.str [0x2A, 0x2A, 0x61]) := by rfl

/-- `pad_left` / `pad_right` with value and pad of the right type: invalid-value iff the width is a non-integral
    number, or negative, or the pad is not exactly one code point -/
theorem padLeft_errValue_iff (s p : Bytes) (width : Val) :
    padLeft (.str s) width (.str p) = .err [Cat.invalidValue] ↔
      intArg width = .err [Cat.invalidValue] ∨ ∃ w, intArg width = .ok w ∧ (w < 0 ∨ runeCount p ≠ 1) := by
  simp only [padLeft, strArg, Res.ok_bind, bind_eq_err_iff, padWith_err_iff, true_and]

theorem padRight_errValue_iff (s p : Bytes) (width : Val) :
    padRight (.str s) width (.str p) = .err [Cat.invalidValue] ↔
      intArg width = .err [Cat.invalidValue] ∨ ∃ w, intArg width = .ok w ∧ (w < 0 ∨ runeCount p ≠ 1) := by
  simp only [padRight, strArg, Res.ok_bind, bind_eq_err_iff, padWith_err_iff, true_and]

theorem runeCount_space : runeCount [0x20] = 1 := by decide

theorem padSpaceLeft_errValue_iff (s : Bytes) (width : Val) :
    padSpaceLeft (.str s) width = .err [Cat.invalidValue] ↔
      intArg width = .err [Cat.invalidValue] ∨ ∃ w, intArg width = .ok w ∧ w < 0 := by
  simp only [padSpaceLeft, strArg, Res.ok_bind, bind_eq_err_iff, padWith_err_iff, true_and, runeCount_space,
    ne_eq, not_true_eq_false, or_false]

theorem padSpaceRight_errValue_iff (s : Bytes) (width : Val) :
    padSpaceRight (.str s) width = .err [Cat.invalidValue] ↔
      intArg width = .err [Cat.invalidValue] ∨ ∃ w, intArg width = .ok w ∧ w < 0 := by
  simp only [padSpaceRight, strArg, Res.ok_bind, bind_eq_err_iff, padWith_err_iff, true_and, runeCount_space,
    ne_eq, not_true_eq_false, or_false]

example : padLeft (.str [0x61]) (.num (.int .i64 (-1))) (.str [0x2A]) = .err [Cat.invalidValue] := by rfl
example : padLeft (.str [0x61]) (.num (.dec (.fin false 15 (-1)))) (.str [0x2A]) = .err [Cat.invalidValue] := by rfl
example : padRight (.str [0x61]) (.num (.int .i64 2)) (.str []) = .err [Cat.invalidValue] := by rfl
example : padSpaceRight (.str [0x61]) (.num (.int .i64 2)) = .ok (.str [0x61, 0x20]) := by rfl

/-- `split(s, p, n)` and `replace(s, a, b, n)`: a negative (or non-integral) count is an invalid value, and nothing
    else is -/
theorem splitCount_errValue_iff (s p : Bytes) (count : Val) :
    splitCount (.str s) (.str p) count = .err [Cat.invalidValue] ↔
      intArg count = .err [Cat.invalidValue] ∨ ∃ n, intArg count = .ok n ∧ n < 0 := by
  simp only [splitCount, strArg, Res.ok_bind, bind_eq_err_iff]
  apply or_congr Iff.rfl
  apply exists_congr
  intro n
  apply and_congr Iff.rfl
  by_cases hn : n < 0
  · simp only [hn, if_true, errValue]
  · simp only [hn, if_false, iff_false]
    intro h
    split at h
    · cases h
    · split at h
      · cases h
      · split at h <;> cases h

theorem replaceCount_errValue_iff (s a b : Bytes) (count : Val) :
    replaceCount (.str s) (.str a) (.str b) count = .err [Cat.invalidValue] ↔
      intArg count = .err [Cat.invalidValue] ∨ ∃ n, intArg count = .ok n ∧ n < 0 := by
  simp only [replaceCount, strArg, Res.ok_bind, bind_eq_err_iff]
  apply or_congr Iff.rfl
  apply exists_congr
  intro n
  apply and_congr Iff.rfl
  by_cases hn : n < 0
  · simp only [hn, if_true, errValue]
  · simp only [hn, if_false, iff_false]
    intro h
    cases h

example : splitCount (.str [0x61]) (.str [0x2C]) (.num (.int .i64 (-1))) = .err [Cat.invalidValue] := by rfl
example : replaceCount (.str [0x61]) (.str [0x61]) (.str [0x62]) (.num (.int .i64 (-1))) = .err [Cat.invalidValue] := by
  rfl
example : replaceCount (.str [0x61]) (.str [0x61]) (.str [0x62]) (.num (.int .i64 1)) = .ok (.str [0x62]) := by rfl

/-! ### `from_items` -/

/-- what `from_items` makes of one element of its argument -/
inductive Item where
  | good (k : Bytes) (v : Val)   -- a two-element array whose first element is a string
  | notArray                     -- invalid-type
  | badPair                      -- an array of another length, or with a non-string key: invalid-value
  | mapOrdered                   -- a two-element array in Go map order: which element is the key is unspecified

def classify : Val → Item
  | .arr t ia =>
    (match ia with
     | [k, v] =>
       if t = .enum then .mapOrdered
       else (match k with
         | .str s => .good s v
         | _ => .badPair)
     | _ => .badPair)
  | _ => .notArray

theorem fromItemsLoop_cons (x : Val) (rest : List Val) (acc : List (Bytes × Val)) :
    fromItemsLoop (x :: rest) acc =
      (match classify x with
       | .good s v => fromItemsLoop rest (objInsert s v acc)
       | .notArray => .err [Cat.invalidType]
       | .badPair => .err [Cat.invalidValue]
       | .mapOrdered => .nondet) := by
  cases x with
  | arr t ia =>
    match ia with
    | [] => rfl
    | [_] => rfl
    | _ :: _ :: _ :: _ => rfl
    | [k, v] =>
      cases t <;> cases k <;> rfl
  | _ => rfl

theorem classify_notArray_iff (x : Val) : classify x = .notArray ↔ ∀ t ys, x ≠ .arr t ys := by
  cases x with
  | arr t ia =>
    constructor
    · intro h
      simp only [classify] at h
      split at h
      · split at h
        · cases h
        · split at h <;> cases h
      · cases h
    · intro h; exact absurd rfl (h t ia)
  | _ => exact ⟨fun _ t ys h => (by cases h), fun _ => rfl⟩

/-- a malformed pair: not of length two, or (for an array whose order is determined) with a non-string key -/
theorem classify_badPair_iff (x : Val) : classify x = .badPair ↔
    ∃ t ia, x = .arr t ia ∧ (ia.length ≠ 2 ∨ (t ≠ .enum ∧ ∃ k v, ia = [k, v] ∧ ∀ s, k ≠ .str s)) := by
  cases x with
  | arr t ia =>
    match ia with
    | [] => exact ⟨fun _ => ⟨t, [], rfl, Or.inl (by simp)⟩, fun _ => rfl⟩
    | [a] => exact ⟨fun _ => ⟨t, [a], rfl, Or.inl (by simp)⟩, fun _ => rfl⟩
    | a :: b :: c :: r => exact ⟨fun _ => ⟨t, _, rfl, Or.inl (by simp)⟩, fun _ => rfl⟩
    | [k, v] =>
      constructor
      · intro h
        refine ⟨t, [k, v], rfl, Or.inr ?_⟩
        cases t <;> cases k <;> first | (simp [classify] at h; done) | exact ⟨by decide, _, _, rfl, fun s hs => by cases hs⟩
      · rintro ⟨t', ia', hx, h | ⟨ht, k', v', hia, hk⟩⟩
        · cases hx; exact absurd rfl h
        · cases hx
          cases hia
          cases t <;> cases k <;> first | rfl | exact absurd rfl ht | exact absurd rfl (hk _)
  | _ =>
    constructor
    · intro h; cases h
    · rintro ⟨t, ia, hx, _⟩; cases hx

theorem classify_good_iff (x : Val) (s : Bytes) (v : Val) :
    classify x = .good s v ↔ ∃ t, x = .arr t [.str s, v] ∧ t ≠ .enum := by
  cases x with
  | arr t ia =>
    match ia with
    | [] => exact ⟨fun h => (by cases h), fun ⟨_, h, _⟩ => (by cases h)⟩
    | [a] => exact ⟨fun h => (by cases h), fun ⟨_, h, _⟩ => (by cases h)⟩
    | a :: b :: c :: r => exact ⟨fun h => (by cases h), fun ⟨_, h, _⟩ => (by cases h)⟩
    | [k, v'] =>
      constructor
      · intro h
        cases t <;> cases k <;> simp only [classify, if_true, reduceCtorEq, if_false, Item.good.injEq] at h
        · obtain ⟨rfl, rfl⟩ := h; exact ⟨_, rfl, by decide⟩
        · obtain ⟨rfl, rfl⟩ := h; exact ⟨_, rfl, by decide⟩
      · rintro ⟨t', hx, ht⟩
        cases hx
        cases t <;> first | rfl | exact absurd rfl ht
  | _ =>
    constructor
    · intro h; cases h
    · rintro ⟨t, hx, _⟩; cases hx

/-- **the loop of `from_items` fails exactly at the first element that is not a well-formed pair**: with
    invalid-type when that element is not an array, with invalid-value when it is a malformed pair -/
theorem fromItemsLoop_err_iff : ∀ (xs : List Val) (acc : List (Bytes × Val)) (cs : List Cat),
    fromItemsLoop xs acc = .err cs ↔
      ∃ pre x post, xs = pre ++ x :: post ∧ (∀ y ∈ pre, ∃ s v, classify y = .good s v) ∧
        ((classify x = .notArray ∧ cs = [Cat.invalidType]) ∨ (classify x = .badPair ∧ cs = [Cat.invalidValue]))
  | [], acc, cs => by
    simp only [fromItemsLoop]
    constructor
    · intro h; cases h
    · rintro ⟨pre, x, post, h, _⟩
      cases pre <;> cases h
  | x :: rest, acc, cs => by
    rw [fromItemsLoop_cons]
    cases hc : classify x with
    | good s v =>
      simp only []
      rw [fromItemsLoop_err_iff rest _ cs]
      constructor
      · rintro ⟨pre, y, post, h, hpre, hy⟩
        refine ⟨x :: pre, y, post, by rw [h]; rfl, ?_, hy⟩
        intro z hz
        rcases List.mem_cons.mp hz with rfl | hz
        · exact ⟨s, v, hc⟩
        · exact hpre z hz
      · rintro ⟨pre, y, post, h, hpre, hy⟩
        cases pre with
        | nil =>
          simp only [List.nil_append, List.cons.injEq] at h
          obtain ⟨rfl, _⟩ := h
          rw [hc] at hy
          rcases hy with ⟨h1, _⟩ | ⟨h1, _⟩ <;> cases h1
        | cons p pre =>
          simp only [List.cons_append, List.cons.injEq] at h
          obtain ⟨rfl, h⟩ := h
          exact ⟨pre, y, post, h, fun z hz => hpre z (List.mem_cons_of_mem _ hz), hy⟩
    | notArray =>
      simp only [Res.err.injEq]
      constructor
      · intro h
        exact ⟨[], x, rest, rfl, fun _ hz => (by cases hz), Or.inl ⟨hc, h.symm⟩⟩
      · rintro ⟨pre, y, post, h, hpre, hy⟩
        cases pre with
        | nil =>
          simp only [List.nil_append, List.cons.injEq] at h
          obtain ⟨rfl, _⟩ := h
          rw [hc] at hy
          rcases hy with ⟨_, h2⟩ | ⟨h1, _⟩
          · exact h2.symm
          · cases h1
        | cons p pre =>
          simp only [List.cons_append, List.cons.injEq] at h
          obtain ⟨rfl, _⟩ := h
          obtain ⟨s, v, hg⟩ := hpre _ (List.mem_cons_self ..)
          rw [hc] at hg
          cases hg
    | badPair =>
      simp only [Res.err.injEq]
      constructor
      · intro h
        exact ⟨[], x, rest, rfl, fun _ hz => (by cases hz), Or.inr ⟨hc, h.symm⟩⟩
      · rintro ⟨pre, y, post, h, hpre, hy⟩
        cases pre with
        | nil =>
          simp only [List.nil_append, List.cons.injEq] at h
          obtain ⟨rfl, _⟩ := h
          rw [hc] at hy
          rcases hy with ⟨h1, _⟩ | ⟨_, h2⟩
          · cases h1
          · exact h2.symm
        | cons p pre =>
          simp only [List.cons_append, List.cons.injEq] at h
          obtain ⟨rfl, _⟩ := h
          obtain ⟨s, v, hg⟩ := hpre _ (List.mem_cons_self ..)
          rw [hc] at hg
          cases hg
    | mapOrdered =>
      simp only []
      constructor
      · intro h; cases h
      · rintro ⟨pre, y, post, h, hpre, hy⟩
        cases pre with
        | nil =>
          simp only [List.nil_append, List.cons.injEq] at h
          obtain ⟨rfl, _⟩ := h
          rw [hc] at hy
          rcases hy with ⟨h1, _⟩ | ⟨h1, _⟩ <;> cases h1
        | cons p pre =>
          simp only [List.cons_append, List.cons.injEq] at h
          obtain ⟨rfl, _⟩ := h
          obtain ⟨s, v, hg⟩ := hpre _ (List.mem_cons_self ..)
          rw [hc] at hg
          cases hg

/-- `from_items` on a JSON array (element order determined) -/
theorem fromItems_plain_err_iff (xs : List Val) (cs : List Cat) :
    fromItems (.arr .plain xs) = .err cs ↔ fromItemsLoop xs [] = .err cs := by
  simp only [fromItems]
  cases h : fromItemsLoop xs [] with
  | ok kvs =>
    simp only [show enum2 .plain xs = false from rfl, Bool.false_and, Bool.false_eq_true, if_false]
    constructor <;> (intro h; cases h)
  | err c2 =>
    simp only [show enum2 .plain xs = false from rfl, Bool.false_eq_true, if_false, Res.err.injEq]
  | _ => constructor <;> (intro h; cases h)

/-- an argument that is not an array: invalid-type -/
theorem fromItems_non_array (v : Val) (h : ∀ t xs, v ≠ .arr t xs) : fromItems v = .err [Cat.invalidType] := by
  cases v with
  | arr t xs => exact absurd rfl (h t xs)
  | _ => rfl

/-- a non-array element first: invalid-type; a malformed pair first: invalid-value -/
theorem fromItems_errType_iff (xs : List Val) :
    fromItems (.arr .plain xs) = .err [Cat.invalidType] ↔
      ∃ pre x post, xs = pre ++ x :: post ∧ (∀ y ∈ pre, ∃ s v, classify y = .good s v) ∧ ∀ t ys, x ≠ .arr t ys := by
  rw [fromItems_plain_err_iff, fromItemsLoop_err_iff]
  apply exists_congr; intro pre
  apply exists_congr; intro x
  apply exists_congr; intro post
  apply and_congr Iff.rfl
  apply and_congr Iff.rfl
  rw [← classify_notArray_iff]
  constructor
  · rintro (⟨h, _⟩ | ⟨_, h⟩)
    · exact h
    · cases h
  · intro h; exact Or.inl ⟨h, rfl⟩

theorem fromItems_errValue_iff (xs : List Val) :
    fromItems (.arr .plain xs) = .err [Cat.invalidValue] ↔
      ∃ pre x post, xs = pre ++ x :: post ∧ (∀ y ∈ pre, ∃ s v, classify y = .good s v) ∧
        ∃ t ia, x = .arr t ia ∧ (ia.length ≠ 2 ∨ (t ≠ .enum ∧ ∃ k v, ia = [k, v] ∧ ∀ s, k ≠ .str s)) := by
  rw [fromItems_plain_err_iff, fromItemsLoop_err_iff]
  apply exists_congr; intro pre
  apply exists_congr; intro x
  apply exists_congr; intro post
  apply and_congr Iff.rfl
  apply and_congr Iff.rfl
  rw [← classify_badPair_iff]
  constructor
  · rintro (⟨_, h⟩ | ⟨h, _⟩)
    · cases h
    · exact h
  · intro h; exact Or.inr ⟨h, rfl⟩

/-- all elements well-formed pairs: a value -/
theorem fromItems_ok (xs : List Val) (h : ∀ y ∈ xs, ∃ s v, classify y = .good s v) :
    ∃ kvs, fromItems (.arr .plain xs) = .ok (.obj kvs) := by
  have : ∀ (xs : List Val) (acc : List (Bytes × Val)), (∀ y ∈ xs, ∃ s v, classify y = .good s v) →
      ∃ kvs, fromItemsLoop xs acc = .ok kvs := by
    intro xs
    induction xs with
    | nil => intro acc _; exact ⟨acc, rfl⟩
    | cons x rest ih =>
      intro acc h
      obtain ⟨s, v, hx⟩ := h x (List.mem_cons_self ..)
      rw [fromItemsLoop_cons, hx]
      exact ih _ (fun y hy => h y (List.mem_cons_of_mem _ hy))
  obtain ⟨kvs, hk⟩ := this xs [] h
  refine ⟨kvs, ?_⟩
  simp only [fromItems, hk, show enum2 .plain xs = false from rfl, Bool.false_and, Bool.false_eq_true, if_false]

example : fromItems (.arr .plain [.arr .plain [.str [0x61], .null], .bool true]) = .err [Cat.invalidType] := by rfl
example : fromItems (.arr .plain [.arr .plain [.str [0x61], .null], .arr .plain [.str [0x62]]])
    = .err [Cat.invalidValue] := by rfl
example : fromItems (.arr .plain [.arr .plain [.null, .null]]) = .err [Cat.invalidValue] := by rfl
example : fromItems (.arr .plain [.arr .plain [.str [0x61], .null, .null]]) = .err [Cat.invalidValue] := by rfl
/-- the first offender decides -/
example : fromItems (.arr .plain [.arr .plain [], .bool true]) = .err [Cat.invalidValue] := by rfl
example : fromItems (.arr .plain [.bool true, .arr .plain []]) = .err [Cat.invalidType] := by rfl
example : fromItems (.arr .plain [.arr .plain [.str [0x61], .bool true], .arr .plain [.str [0x61], .bool false]])
    = .ok (.obj [([0x61], .bool false)]) := by rfl
example : fromItems (.str []) = .err [Cat.invalidType] := by rfl

/-! ## j. optional-argument defaults -/

theorem strArg_str (s : Bytes) : strArg (.str s) = .ok s := rfl

theorem strArg_non_string (v : Val) (h : ∀ s, v ≠ .str s) : strArg v = .err [Cat.invalidType] := by
  cases v with
  | str s => exact absurd rfl (h s)
  | _ => rfl

theorem intArg_i64 (n : Int) : intArg (.num (.int .i64 n)) = .ok n := rfl

/-- `pad_left(s, w)` = `pad_left(s, w, ' ')`, for all arguments (also the ill-typed ones) -/
theorem padSpaceLeft_eq (v w : Val) : padSpaceLeft v w = padLeft v w (.str [0x20]) := by
  simp only [padSpaceLeft, padLeft, strArg_str, Res.ok_bind]

theorem padSpaceRight_eq (v w : Val) : padSpaceRight v w = padRight v w (.str [0x20]) := by
  simp only [padSpaceRight, padRight, strArg_str, Res.ok_bind]

example : padSpaceLeft (.str [0x61]) (.num (.int .i64 3)) = .ok (.str [0x20, 0x20, 0x61]) ∧
    padLeft (.str [0x61]) (.num (.int .i64 3)) (.str [0x20]) = .ok (.str [0x20, 0x20, 0x61]) := ⟨by rfl, by rfl⟩

/-- `trim(s)` = `trim(s, '')`, and the one-sided forms -/
theorem trimSpace_eq (v : Val) : trimSpace v = trim v (.str []) := by
  simp only [trimSpace, trim, strArg_str, Res.ok_bind, List.isEmpty_nil, if_true]

theorem trimSpaceLeft_eq (v : Val) : trimSpaceLeft v = trimLeft v (.str []) := by
  simp only [trimSpaceLeft, trimLeft, strArg_str, Res.ok_bind, List.isEmpty_nil, if_true]

theorem trimSpaceRight_eq (v : Val) : trimSpaceRight v = trimRight v (.str []) := by
  simp only [trimSpaceRight, trimRight, strArg_str, Res.ok_bind, List.isEmpty_nil, if_true]

example : trimSpace (.str [0x20, 0x61, 0x09]) = .ok (.str [0x61]) ∧
    trim (.str [0x20, 0x61, 0x09]) (.str []) = .ok (.str [0x61]) := ⟨by rfl, by rfl⟩

/-! ### `find_first(s, p)` = `find_first(s, p, 0, L)` for a non-empty pattern and any `L` beyond the length -/

theorem isPrefixOf_nil_right (p : Bytes) (hp : p ≠ []) : p.isPrefixOf ([] : Bytes) = false := by
  cases p with
  | nil => exact absurd rfl hp
  | cons a t => rfl

theorem findBetween_default (last : Bool) (s p : Bytes) (L : Int) (hL : (s.length : Int) < L) :
    findBetween last (.str s) (.str p) (.num (.int .i64 0)) (.num (.int .i64 L)) =
      (match (if last then lastIndexOf s p else indexOf s p) with
       | none => .ok .null
       | some r => .ok (runeIndexVal s r)) := by
  have h0 : startOffset s 0 = some 0 := by
    have : ¬ ((0 : Int) > s.length) := by omega
    simp only [startOffset, Int.lt_irrefl, if_false, this, Int.toNat_zero, runeOffset]
  have hf : finishOffset s L = some s.length := by
    have h1 : ¬ L < 0 := by omega
    have h2 : L > s.length := by omega
    simp only [finishOffset, h1, if_false, h2, if_true]
  have ht : toInt (.num (.int .i64 0)) = .int 0 := rfl
  simp only [findBetween, strArg_str, Res.ok_bind, ht, h0, intArg_i64, hf, Nat.not_lt_zero, gt_iff_lt, if_false,
    List.drop_zero, Nat.sub_zero, List.take_length, Nat.add_zero, Res.pure_eq]
  cases (if last = true then lastIndexOf s p else indexOf s p) <;> rfl

theorem findFirst_default (v : Val) (p : Bytes) (hp : p ≠ []) (L : Int)
    (hL : ∀ s, v = .str s → (s.length : Int) < L) :
    findFirst v (.str p) = findFirstBetween v (.str p) (.num (.int .i64 0)) (.num (.int .i64 L)) := by
  cases v with
  | str s =>
    rw [findFirstBetween, findBetween_default false s p L (hL s rfl)]
    have hpe : p.isEmpty = false := by cases p <;> first | rfl | exact absurd rfl hp
    simp only [findFirst, strArg_str, Res.ok_bind, hpe, Bool.or_false, Res.pure_eq, Bool.false_eq_true, if_false]
    cases s with
    | nil =>
      simp only [List.isEmpty_nil, if_true, indexOf, indexOfAux, isPrefixOf_nil_right p hp, Bool.false_eq_true,
        if_false]
    | cons a t =>
      simp only [List.isEmpty_cons, Bool.false_eq_true, if_false]
      cases indexOf (a :: t) p <;> rfl
  | _ => rfl

theorem findLast_default (v : Val) (p : Bytes) (hp : p ≠ []) (L : Int)
    (hL : ∀ s, v = .str s → (s.length : Int) < L) :
    findLast v (.str p) = findLastBetween v (.str p) (.num (.int .i64 0)) (.num (.int .i64 L)) := by
  cases v with
  | str s =>
    rw [findLastBetween, findBetween_default true s p L (hL s rfl)]
    have hpe : p.isEmpty = false := by cases p <;> first | rfl | exact absurd rfl hp
    simp only [findLast, strArg_str, Res.ok_bind, hpe, Bool.or_false, Res.pure_eq, if_true]
    cases s with
    | nil =>
      simp only [List.isEmpty_nil, if_true, lastIndexOf, lastIndexOfAux, isPrefixOf_nil_right p hp,
        Bool.false_eq_true, if_false]
    | cons a t =>
      simp only [List.isEmpty_cons, Bool.false_eq_true, if_false]
      cases lastIndexOf (a :: t) p <;> rfl
  | _ => rfl

/-- discrepancy: with an EMPTY pattern the two-argument form returns null, the four-argument form `0` (it does
    not check emptiness) -/
example : findFirst (.str [0x61, 0x62]) (.str []) = .ok .null ∧
    findFirstBetween (.str [0x61, 0x62]) (.str []) (.num (.int .i64 0)) (.num (.int .i64 9))
      = .ok (.num (.int .i64 0)) := ⟨by rfl, by rfl⟩
/-- the three-argument form likewise -/
example : findFirstFrom (.str [0x61, 0x62]) (.str []) (.num (.int .i64 0)) = .ok (.num (.int .i64 0)) := by rfl
example : findFirst (.str [0x61, 0x62, 0x61]) (.str [0x61]) = .ok (.num (.int .i64 0)) ∧
    findFirstBetween (.str [0x61, 0x62, 0x61]) (.str [0x61]) (.num (.int .i64 0)) (.num (.int .i64 9))
      = .ok (.num (.int .i64 0)) := ⟨by rfl, by rfl⟩
example : findLast (.str [0x61, 0x62, 0x61]) (.str [0x61]) = .ok (.num (.int .i64 2)) ∧
    findLastBetween (.str [0x61, 0x62, 0x61]) (.str [0x61]) (.num (.int .i64 0)) (.num (.int .i64 9))
      = .ok (.num (.int .i64 2)) := ⟨by rfl, by rfl⟩

/-! ### `replace(s, a, b)` = `replace(s, a, b, n)` for `n` ≥ the number of occurrences -/

/-- number of replacements `strings.Replace(s, old, new, -1)` performs, for non-empty `old` -/
def occAux : Nat → Bytes → Bytes → Nat
  | 0, _, _ => 0
  | fuel + 1, s, old =>
    match s with
    | [] => 0
    | _ :: t => if old.isPrefixOf s then 1 + occAux fuel (s.drop old.length) old else occAux fuel t old

/-- … and for empty `old`: before every code point and at the end -/
def occurrences (s old : Bytes) : Nat :=
  if old.isEmpty then (runePieces s).length + 1 else occAux (s.length + 1) s old

theorem replaceAux_no_occ (new old : Bytes) : ∀ (fuel : Nat) (s : Bytes), occAux fuel s old = 0 →
    replaceAux fuel s old new none = s
  | 0, s, _ => rfl
  | fuel + 1, [], _ => by simp [replaceAux]
  | fuel + 1, b :: t, h => by
    simp only [occAux] at h
    by_cases hpre : old.isPrefixOf (b :: t) = true
    · rw [if_pos hpre] at h; omega
    · rw [if_neg hpre] at h
      simp only [replaceAux, reduceCtorEq, if_false, hpre, Bool.false_eq_true]
      rw [replaceAux_no_occ new old fuel t h]

theorem replaceAux_enough (new old : Bytes) : ∀ (fuel : Nat) (s : Bytes) (n : Nat), occAux fuel s old ≤ n →
    replaceAux fuel s old new (some n) = replaceAux fuel s old new none
  | 0, s, n, _ => rfl
  | fuel + 1, [], n, _ => by
    simp only [replaceAux, reduceCtorEq, if_false]
    split <;> rfl
  | fuel + 1, b :: t, n, h => by
    cases n with
    | zero =>
      rw [replaceAux_no_occ new old (fuel + 1) (b :: t) (by omega)]
      simp only [replaceAux, if_true]
    | succ n =>
      simp only [occAux] at h
      have hne : (some (n + 1) = some 0) = False := by simp
      simp only [replaceAux, hne, if_false, reduceCtorEq, Option.map_some, Nat.add_sub_cancel, Option.map_none]
      by_cases hpre : old.isPrefixOf (b :: t) = true
      · rw [if_pos hpre] at h
        simp only [hpre, if_true]
        rw [replaceAux_enough new old fuel _ n (by omega)]
      · rw [if_neg hpre] at h
        simp only [hpre, Bool.false_eq_true, if_false]
        rw [replaceAux_enough new old fuel t (n + 1) h]

theorem replaceEmptyAux_enough (new : Bytes) : ∀ (ps : List Bytes) (n : Nat), ps.length + 1 ≤ n →
    replaceEmptyAux ps new (some n) = replaceEmptyAux ps new none
  | [], n, h => by
    have : (some n = some 0) = False := by simp; omega
    simp only [replaceEmptyAux, this, if_false, reduceCtorEq]
  | p :: ps, n, h => by
    have : (some n = some 0) = False := by simp; omega
    simp only [replaceEmptyAux, this, if_false, reduceCtorEq, Option.map_some, Option.map_none]
    simp only [List.length_cons] at h
    rw [replaceEmptyAux_enough new ps (n - 1) (by omega)]

theorem stringsReplace_enough (s old new : Bytes) (n : Nat) (h : occurrences s old ≤ n) :
    stringsReplace s old new (some n) = stringsReplace s old new none := by
  unfold occurrences at h
  unfold stringsReplace
  cases he : old.isEmpty
  · rw [he] at h
    simp only [Bool.false_eq_true, if_false] at h ⊢
    exact replaceAux_enough new old _ s n h
  · rw [he] at h
    simp only [if_true] at h ⊢
    exact replaceEmptyAux_enough new _ n h

/-- **`replace(s, a, b)` = `replace(s, a, b, n)`** whenever `n` is at least the number of occurrences; for all
    arguments (ill-typed `s`, `a`, `b` give the same invalid-type error on both sides) -/
theorem replace_default (v a b count : Val) (n : Int) (hc : intArg count = .ok n) (h0 : 0 ≤ n)
    (hn : ∀ s old, v = .str s → a = .str old → (occurrences s old : Int) ≤ n) :
    replaceCount v a b count = replace v a b := by
  cases v with
  | str s =>
    cases a with
    | str old =>
      simp only [replaceCount, replace, strArg_str, hc, Res.ok_bind, Res.pure_eq]
      apply Res.bind_congr; intro pn
      have hlt : ¬ n < 0 := by omega
      simp only [hlt, if_false]
      rw [stringsReplace_enough s old pn n.toNat (by have := hn s old rfl rfl; omega)]
    | _ => rfl
  | _ => rfl

/-- discrepancy with "∞": a count of 0 replaces nothing -/
example : replaceCount (.str [0x61, 0x61]) (.str [0x61]) (.str [0x62]) (.num (.int .i64 0)) = .ok (.str [0x61, 0x61]) ∧
    replace (.str [0x61, 0x61]) (.str [0x61]) (.str [0x62]) = .ok (.str [0x62, 0x62]) := ⟨by rfl, by rfl⟩
example : occurrences [0x61, 0x61] [0x61] = 2 := by rfl
example : replaceCount (.str [0x61, 0x61]) (.str [0x61]) (.str [0x62]) (.num (.int .i64 2)) = .ok (.str [0x62, 0x62]) := by
  rfl
/-- empty `old`: inserted before each code point and at the end -/
example : occurrences [0x61, 0x62] [] = 3 := by rfl
example : replace (.str [0x61, 0x62]) (.str []) (.str [0x2D]) = .ok (.str [0x2D, 0x61, 0x2D, 0x62, 0x2D]) ∧
    replaceCount (.str [0x61, 0x62]) (.str []) (.str [0x2D]) (.num (.int .i64 3))
      = .ok (.str [0x2D, 0x61, 0x2D, 0x62, 0x2D]) := ⟨by rfl, by rfl⟩

/-! ### `split(s, p)` = `split(s, p, n)` for `n` ≥ the byte length of `s` (and `n > 0`) -/

theorem splitAux_enough (p : Bytes) (hp : p ≠ []) : ∀ (fuel : Nat) (s : Bytes) (n : Nat) (cur : Bytes), s.length ≤ n →
    splitAux fuel s p (some n) cur = splitAux fuel s p none cur
  | 0, s, n, cur, _ => rfl
  | fuel + 1, [], n, cur, _ => by
    simp only [splitAux, reduceCtorEq, if_false, List.append_nil]
    split <;> rfl
  | fuel + 1, b :: t, n, cur, h => by
    cases n with
    | zero => simp at h
    | succ n =>
      have hne : (some (n + 1) = some 0) = False := by simp
      simp only [splitAux, hne, if_false, reduceCtorEq, Option.map_some, Nat.add_sub_cancel, Option.map_none]
      simp only [List.length_cons] at h
      by_cases hpre : p.isPrefixOf (b :: t) = true
      · simp only [hpre, if_true]
        have hpl : 1 ≤ p.length := by
          cases p with
          | nil => exact absurd rfl hp
          | cons _ _ => simp
        rw [splitAux_enough p hp fuel _ n [] (by simp only [List.length_drop, List.length_cons]; omega)]
      · simp only [hpre, Bool.false_eq_true, if_false]
        rw [splitAux_enough p hp fuel t (n + 1) _ (by omega)]

theorem runePiecesAux_length_le : ∀ (fuel : Nat) (s : Bytes), (runePiecesAux fuel s).length ≤ fuel
  | 0, _ => by simp [runePiecesAux]
  | fuel + 1, [] => by simp [runePiecesAux]
  | fuel + 1, b :: t => by
    simp only [runePiecesAux, List.length_cons]
    have := runePiecesAux_length_le fuel ((b :: t).drop (decodeRune (b :: t)).2)
    omega

theorem splitRunes_enough (s : Bytes) (n : Nat) (h : s.length ≤ n) : splitRunes s (some n) = splitRunes s none := by
  have hle : (runePieces s).length ≤ s.length := runePiecesAux_length_le s.length s
  simp only [splitRunes]
  rw [if_pos (by omega)]

/-- **`split(s, p)` = `split(s, p, n)`** for a positive `n` that is at least the byte length of `s` -/
theorem split_default (v p count : Val) (n : Int) (hc : intArg count = .ok n) (h0 : 0 < n)
    (hn : ∀ s, v = .str s → (s.length : Int) ≤ n) :
    splitCount v p count = split v p := by
  cases v with
  | str s =>
    cases p with
    | str sep =>
      have h1 : ¬ n < 0 := by omega
      have h2 : ¬ n = 0 := by omega
      have h3 : s.length ≤ n.toNat := by have := hn s rfl; omega
      simp only [splitCount, split, strArg_str, hc, Res.ok_bind, Res.pure_eq, h1, h2, if_false]
      cases hs : s.isEmpty
      · simp only [Bool.false_eq_true, if_false]
        cases hsep : sep.isEmpty
        · simp only [Bool.false_eq_true, if_false, splitOn]
          have hne : sep ≠ [] := by intro h; rw [h] at hsep; cases hsep
          rw [splitAux_enough sep hne _ s n.toNat [] h3]
        · simp only [if_true, splitRunes_enough s n.toNat h3]
      · simp only [if_true]
    | _ => rfl
  | _ => rfl

/-- discrepancy at `n = 0`: `split('', p, 0)` is `[""]`, `split('', p)` is `[]`; and a count of 0 never splits -/
example : splitCount (.str []) (.str [0x2C]) (.num (.int .i64 0)) = .ok (.arr .plain [.str []]) ∧
    split (.str []) (.str [0x2C]) = .ok (.arr .plain []) := ⟨by rfl, by rfl⟩
example : splitCount (.str [0x61, 0x2C, 0x62]) (.str [0x2C]) (.num (.int .i64 3))
      = .ok (.arr .plain [.str [0x61], .str [0x62]]) ∧
    split (.str [0x61, 0x2C, 0x62]) (.str [0x2C]) = .ok (.arr .plain [.str [0x61], .str [0x62]]) := ⟨by rfl, by rfl⟩
example : splitCount (.str [0x61, 0x2C, 0x62, 0x2C, 0x63]) (.str [0x2C]) (.num (.int .i64 1))
      = .ok (.arr .plain [.str [0x61], .str [0x62, 0x2C, 0x63]]) := by rfl

/-! ## h. type errors: invalid-type iff an argument's type is outside the signature -/

inductive JType where
  | null | boolean | number | string | array | object | other
  deriving DecidableEq, Repr

/-- the JSON type of a value (`other`: a Go value that is not JSON data) -/
def jsonType : Val → JType
  | .null => .null
  | .bool _ => .boolean
  | .num _ => .number
  | .str _ => .string
  | .arr _ _ => .array
  | .obj _ => .object
  | .foreign _ => .other

def JType.name : JType → String
  | .null => "null" | .boolean => "boolean" | .number => "number" | .string => "string"
  | .array => "array" | .object => "object" | .other => "?"

/-- `type(v)` names the JSON type; only a non-JSON Go value is a type error -/
theorem type_spec (v : Val) (h : jsonType v ≠ .other) : applyFn .type [v] = .ok (strVal (jsonType v).name) := by
  cases v <;> first | rfl | exact absurd rfl h

theorem type_errType_iff (v : Val) : applyFn .type [v] = .err [Cat.invalidType] ↔ jsonType v = .other := by
  cases v <;> simp [applyFn, typeName, jsonType, errType]

/-- a value the evaluator treats as a number is of JSON type number; the converse fails only for a `json.Number`
    whose text is not a number (which no JSON decoder produces) -/
theorem toDecimal_some_number (v : Val) (d : Dec) (h : toDecimal v = some d) : jsonType v = .number := by
  cases v <;> first | rfl | cases h

theorem number_toDecimal_none (v : Val) (h : jsonType v = .number) (hd : toDecimal v = none) :
    ∃ t, v = .num (.jnum t) ∧ ∀ d, Dec.parse t ≠ .ok d := by
  cases v with
  | num n =>
    cases n with
    | jnum t =>
      refine ⟨t, rfl, ?_⟩
      intro d hp
      simp only [toDecimal, hp] at hd
      cases hd
    | _ => cases hd
  | _ => cases h

example : toDecimal (.num (.jnum [0x78])) = none := by rfl

/-! ### numbers: `abs`, `ceil`, `floor`, `sum`, `avg` -/

theorem toFloat_some_toDecimal (v : Val) (f : F64) (h : toFloat v = some f) : toDecimal v ≠ none := by
  cases v with
  | num n => cases n <;> first | (intro h2; cases h2; done) | cases h
  | _ => cases h

theorem abs_errType_iff (v : Val) : applyFn .abs [v] = .err [Cat.invalidType] ↔ toDecimal v = none := by
  simp only [applyFn, numAbs]
  cases hf : toFloat v with
  | some f =>
    have := toFloat_some_toDecimal v f hf
    simp [this]
  | none => cases hd : toDecimal v <;> simp [errType]

theorem ceil_errType_iff (v : Val) : applyFn .ceil [v] = .err [Cat.invalidType] ↔ toDecimal v = none := by
  simp only [applyFn, numCeil]
  cases hf : toFloat v with
  | some f =>
    have := toFloat_some_toDecimal v f hf
    simp [this]
  | none => cases hd : toDecimal v <;> simp [errType]

theorem floor_errType_iff (v : Val) : applyFn .floor [v] = .err [Cat.invalidType] ↔ toDecimal v = none := by
  simp only [applyFn, numFloor]
  cases hf : toFloat v with
  | some f =>
    have := toFloat_some_toDecimal v f hf
    simp [this]
  | none => cases hd : toDecimal v <;> simp [errType]

/-- these three never fail otherwise -/
theorem abs_ok_of_number (v : Val) (d : Dec) (h : toDecimal v = some d) : ∃ r, applyFn .abs [v] = .ok r := by
  simp only [applyFn, numAbs]
  cases toFloat v with
  | some f => exact ⟨_, rfl⟩
  | none => rw [h]; exact ⟨_, rfl⟩

example : applyFn .abs [.str [0x31]] = .err [Cat.invalidType] := by rfl
example : applyFn .abs [.num (.int .i64 (-3))] = .ok (.num (.dec (.fin false 3 0))) := by rfl
example : applyFn .ceil [.null] = .err [Cat.invalidType] := by rfl

theorem sumDec_none_iff : ∀ (xs : List Val) (acc : Dec), sumDec xs acc = none ↔ ∃ x ∈ xs, toDecimal x = none
  | [], acc => by simp [sumDec]
  | x :: xs, acc => by
    simp only [sumDec, List.mem_cons, exists_eq_or_imp]
    cases hd : toDecimal x with
    | none => simp
    | some d => simp [sumDec_none_iff xs (acc.add d)]

theorem checkD_not_errType (r : Dec) : checkD r ≠ .err [Cat.invalidType] := by
  unfold checkD
  split
  · intro h; cases h
  · split <;> (intro h; cases h)

/-- `sum`: invalid-type iff the argument is not an array of numbers -/
theorem sum_errType_iff (v : Val) :
    applyFn .sum [v] = .err [Cat.invalidType] ↔
      jsonType v ≠ .array ∨ ∃ t xs, v = .arr t xs ∧ ∃ x ∈ xs, toDecimal x = none := by
  cases v with
  | arr t xs =>
    simp only [applyFn, numSum, jsonType, ne_eq, not_true_eq_false, false_or, Val.arr.injEq]
    cases hs : sumDec xs Dec.zero with
    | none =>
      simp only [errType, true_iff]
      exact ⟨t, xs, ⟨rfl, rfl⟩, (sumDec_none_iff xs _).mp hs⟩
    | some r =>
      have hno : ¬ ∃ x ∈ xs, toDecimal x = none := by
        intro h
        have := (sumDec_none_iff xs Dec.zero).mpr h
        rw [hs] at this; cases this
      constructor
      · intro h
        exfalso
        simp only [] at h
        split at h
        · exact checkD_not_errType _ h
        · cases h
      · rintro ⟨_, _, ⟨rfl, rfl⟩, h⟩
        exact absurd h hno
  | _ => simp [applyFn, numSum, jsonType, errType]

theorem avg_errType_iff (v : Val) :
    applyFn .avg [v] = .err [Cat.invalidType] ↔
      jsonType v ≠ .array ∨ ∃ t xs, v = .arr t xs ∧ ∃ x ∈ xs, toDecimal x = none := by
  cases v with
  | arr t xs =>
    simp only [applyFn, numAvg, jsonType, ne_eq, not_true_eq_false, false_or, Val.arr.injEq]
    cases xs with
    | nil => simp
    | cons x0 rest =>
      simp only [List.isEmpty_cons, Bool.false_eq_true, if_false]
      cases hs : sumDec (x0 :: rest) Dec.zero with
      | none =>
        simp only [errType, true_iff]
        exact ⟨t, _, ⟨rfl, rfl⟩, (sumDec_none_iff _ _).mp hs⟩
      | some r =>
        have hno : ¬ ∃ x ∈ x0 :: rest, toDecimal x = none := by
          intro h
          have := (sumDec_none_iff _ Dec.zero).mpr h
          rw [hs] at this; cases this
        constructor
        · intro h
          exfalso
          simp only [] at h
          split at h
          · exact checkD_not_errType _ h
          · cases h
        · rintro ⟨_, _, ⟨rfl, rfl⟩, h⟩
          exact absurd h hno
  | _ => simp [applyFn, numAvg, jsonType, errType]

example : applyFn .sum [.arr .plain [.num (.int .i64 1), .str []]] = .err [Cat.invalidType] := by rfl
example : applyFn .sum [.obj []] = .err [Cat.invalidType] := by rfl
example : applyFn .avg [.arr .plain []] = .ok .null := by rfl
example : applyFn .sum [.arr .plain [.num (.int .i64 1), .num (.int .i64 2)]] = .ok (.num (.dec (.fin false 3 0))) := by rfl

/-! ### one argument, accepted types read off the JSON type -/

theorem length_errType_iff (v : Val) :
    applyFn .length [v] = .err [Cat.invalidType] ↔
      jsonType v ≠ .string ∧ jsonType v ≠ .array ∧ jsonType v ≠ .object := by
  cases v <;> simp [applyFn, length, jsonType, errType]

theorem caseMap_not_err (f : Nat → Option Nat) (s : Bytes) (cs : List Cat) : caseMap f s ≠ .err cs := by
  unfold caseMap
  split
  · intro h; cases h
  · split <;> (intro h; cases h)

/-- `lower`/`upper`: a non-string is a type error; a string never is (outside the modelled alphabets the model
    declines, it does not report an error) -/
theorem lower_errType_iff (v : Val) : applyFn .lower [v] = .err [Cat.invalidType] ↔ jsonType v ≠ .string := by
  cases v <;> simp [applyFn, lower, jsonType, errType, caseMap_not_err]

theorem upper_errType_iff (v : Val) : applyFn .upper [v] = .err [Cat.invalidType] ↔ jsonType v ≠ .string := by
  cases v <;> simp [applyFn, upper, jsonType, errType, caseMap_not_err]

theorem reverse_errType_iff (v : Val) :
    applyFn .reverse [v] = .err [Cat.invalidType] ↔ jsonType v ≠ .string ∧ jsonType v ≠ .array := by
  cases v <;> simp [applyFn, reverse, jsonType, errType]

theorem keys_errType_iff (v : Val) : applyFn .keys [v] = .err [Cat.invalidType] ↔ jsonType v ≠ .object := by
  cases v <;> simp [applyFn, keys, jsonType, errType]

theorem values_errType_iff (v : Val) : applyFn .values [v] = .err [Cat.invalidType] ↔ jsonType v ≠ .object := by
  cases v <;> simp [applyFn, values, jsonType, errType]

theorem items_errType_iff (v : Val) : applyFn .items [v] = .err [Cat.invalidType] ↔ jsonType v ≠ .object := by
  cases v <;> simp [applyFn, items, jsonType, errType]

theorem trimSpace_errType_iff (v : Val) : applyFn .trimSpace [v] = .err [Cat.invalidType] ↔ jsonType v ≠ .string := by
  cases v <;> simp [applyFn, trimSpace, strArg, jsonType, errType]

theorem trimSpaceLeft_errType_iff (v : Val) :
    applyFn .trimSpaceLeft [v] = .err [Cat.invalidType] ↔ jsonType v ≠ .string := by
  cases v <;> simp [applyFn, trimSpaceLeft, strArg, jsonType, errType]

theorem trimSpaceRight_errType_iff (v : Val) :
    applyFn .trimSpaceRight [v] = .err [Cat.invalidType] ↔ jsonType v ≠ .string := by
  cases v <;> simp [applyFn, trimSpaceRight, strArg, jsonType, errType]

/-- `to_array`, `to_number` accept everything and never fail; `to_string` never reports a type error -/
theorem toArray_never_errors (v : Val) : applyFn .toArray [v] = .ok (toArray v) := rfl
theorem toNumber_never_errors (v : Val) : applyFn .toNumber [v] = .ok (toNumber v) := rfl

theorem toString_not_errType (v : Val) : applyFn .toString [v] ≠ .err [Cat.invalidType] := by
  have key : ∀ v : Val, (if v.hasEnum2 then (Res.nondet : Res Val) else
      match Json.encode v with
      | .ok b => .ok (.str b)
      | .fail => .err [Cat.evaluationFailed]
      | .unmodelled w => .unmodelled w) ≠ .err [Cat.invalidType] := by
    intro v
    split
    · intro h; cases h
    · split <;> (intro h; cases h)
  cases v with
  | str s => intro h; cases h
  | null => exact key .null
  | bool b => exact key (.bool b)
  | num n => exact key (.num n)
  | arr t xs => exact key (.arr t xs)
  | obj kvs => exact key (.obj kvs)
  | foreign t => exact key (.foreign t)

example : applyFn .length [.num (.int .i64 1)] = .err [Cat.invalidType] := by rfl
example : applyFn .length [.str [0xC3, 0xA9]] = .ok (.num (.int .i64 1)) := by rfl
example : applyFn .lower [.arr .plain []] = .err [Cat.invalidType] := by rfl
example : applyFn .upper [.str [0x61]] = .ok (.str [0x41]) := by rfl
example : applyFn .reverse [.obj []] = .err [Cat.invalidType] := by rfl
example : applyFn .keys [.arr .plain []] = .err [Cat.invalidType] := by rfl
example : applyFn .values [.str []] = .err [Cat.invalidType] := by rfl
example : applyFn .items [.null] = .err [Cat.invalidType] := by rfl
example : applyFn .toArray [.null] = .ok (.arr .plain [.null]) := by rfl
example : applyFn .toNumber [.obj []] = .ok .null := by rfl
example : applyFn .toString [.null] = .ok (.str [0x6E, 0x75, 0x6C, 0x6C]) := by rfl
example : applyFn .type [.foreign 0] = .err [Cat.invalidType] := by rfl
example : applyFn .type [.null] = .ok (strVal "null") := by rfl
example : applyFn .trimSpace [.bool true] = .err [Cat.invalidType] := by rfl

/-! ### `max`, `min`, `sort`: an array of numbers or an array of strings -/

theorem allStrings_cons_str (s : Bytes) (rest : List Val) :
    allStrings (.str s :: rest) = none ↔ allStrings rest = none := by
  simp only [allStrings]
  cases allStrings rest <;> simp

theorem allStrings_cons_nonstr (x : Val) (rest : List Val) (h : ∀ s, x ≠ .str s) : allStrings (x :: rest) = none := by
  cases x with
  | str s => exact absurd rfl (h s)
  | _ => rfl

theorem allDecimals_cons_str (s : Bytes) (rest : List Val) : allDecimals (.str s :: rest) = none := rfl

theorem allDecimals_ne_some_nil (x : Val) (rest : List Val) : allDecimals (x :: rest) ≠ some [] := by
  simp only [allDecimals]
  cases toDecimal x with
  | none => intro h; cases h
  | some d => cases allDecimals rest <;> (intro h; cases h)

/-- `max`: invalid-type iff the argument is not an array, or is a non-empty array that is neither all strings
    nor all numbers -/
theorem max_errType_iff (v : Val) :
    applyFn .max [v] = .err [Cat.invalidType] ↔
      jsonType v ≠ .array ∨ ∃ t xs, v = .arr t xs ∧ xs ≠ [] ∧ allStrings xs = none ∧ allDecimals xs = none := by
  cases v with
  | arr t xs =>
    simp only [applyFn, jsonType, ne_eq, not_true_eq_false, false_or, Val.arr.injEq]
    cases xs with
    | nil => simp [arrayMax]
    | cons x rest =>
      have hcanon : (∃ t' xs', (t = t' ∧ x :: rest = xs') ∧ ¬ xs' = [] ∧ allStrings xs' = none ∧ allDecimals xs' = none)
          ↔ (allStrings (x :: rest) = none ∧ allDecimals (x :: rest) = none) := by
        constructor
        · rintro ⟨_, _, ⟨rfl, rfl⟩, _, h⟩; exact h
        · intro h; exact ⟨t, _, ⟨rfl, rfl⟩, by simp, h⟩
      rw [hcanon]
      cases x with
      | str s =>
        simp only [arrayMax, allStrings_cons_str, allDecimals_cons_str, and_true]
        cases allStrings rest <;> simp [errType]
      | _ =>
        simp only [arrayMax]
        rw [allStrings_cons_nonstr _ rest (by intro s h; cases h)]
        simp only [true_and]
        generalize hd : allDecimals (_ :: rest) = o
        cases o with
        | none => simp [errType]
        | some ds =>
          cases ds with
          | nil => exact absurd hd (allDecimals_ne_some_nil _ _)
          | cons d ds =>
            simp only [reduceCtorEq, iff_false]
            split <;> (intro h; cases h)
  | _ => simp [applyFn, arrayMax, jsonType, errType]

theorem min_errType_iff (v : Val) :
    applyFn .min [v] = .err [Cat.invalidType] ↔
      jsonType v ≠ .array ∨ ∃ t xs, v = .arr t xs ∧ xs ≠ [] ∧ allStrings xs = none ∧ allDecimals xs = none := by
  cases v with
  | arr t xs =>
    simp only [applyFn, jsonType, ne_eq, not_true_eq_false, false_or, Val.arr.injEq]
    cases xs with
    | nil => simp [arrayMin]
    | cons x rest =>
      have hcanon : (∃ t' xs', (t = t' ∧ x :: rest = xs') ∧ ¬ xs' = [] ∧ allStrings xs' = none ∧ allDecimals xs' = none)
          ↔ (allStrings (x :: rest) = none ∧ allDecimals (x :: rest) = none) := by
        constructor
        · rintro ⟨_, _, ⟨rfl, rfl⟩, _, h⟩; exact h
        · intro h; exact ⟨t, _, ⟨rfl, rfl⟩, by simp, h⟩
      rw [hcanon]
      cases x with
      | str s =>
        simp only [arrayMin, allStrings_cons_str, allDecimals_cons_str, and_true]
        cases allStrings rest <;> simp [errType]
      | _ =>
        simp only [arrayMin]
        rw [allStrings_cons_nonstr _ rest (by intro s h; cases h)]
        simp only [true_and]
        generalize hd : allDecimals (_ :: rest) = o
        cases o with
        | none => simp [errType]
        | some ds =>
          cases ds with
          | nil => exact absurd hd (allDecimals_ne_some_nil _ _)
          | cons d ds =>
            simp only [reduceCtorEq, iff_false]
            split <;> (intro h; cases h)
  | _ => simp [applyFn, arrayMin, jsonType, errType]

theorem sort_errType_iff (v : Val) :
    applyFn .sort [v] = .err [Cat.invalidType] ↔
      jsonType v ≠ .array ∨ ∃ t xs, v = .arr t xs ∧ xs ≠ [] ∧ allStrings xs = none ∧ allDecimals xs = none := by
  cases v with
  | arr t xs =>
    simp only [applyFn, jsonType, ne_eq, not_true_eq_false, false_or, Val.arr.injEq]
    cases xs with
    | nil => simp [sortArray]
    | cons x rest =>
      have hcanon : (∃ t' xs', (t = t' ∧ x :: rest = xs') ∧ ¬ xs' = [] ∧ allStrings xs' = none ∧ allDecimals xs' = none)
          ↔ (allStrings (x :: rest) = none ∧ allDecimals (x :: rest) = none) := by
        constructor
        · rintro ⟨_, _, ⟨rfl, rfl⟩, _, h⟩; exact h
        · intro h; exact ⟨t, _, ⟨rfl, rfl⟩, by simp, h⟩
      rw [hcanon]
      cases x with
      | str s =>
        simp only [sortArray, allDecimals_cons_str, and_true]
        cases allStrings (.str s :: rest) <;> simp [errType]
      | _ =>
        simp only [sortArray]
        rw [allStrings_cons_nonstr _ rest (by intro s h; cases h)]
        simp only [true_and]
        generalize allDecimals (_ :: rest) = o
        cases o with
        | none => simp [errType]
        | some ds =>
          simp only [reduceCtorEq, iff_false]
          split <;> (intro h; cases h)
  | _ => simp [applyFn, sortArray, jsonType, errType]

example : applyFn .max [.arr .plain [.num (.int .i64 1), .str []]] = .err [Cat.invalidType] := by rfl
example : applyFn .max [.arr .plain [.bool true]] = .err [Cat.invalidType] := by rfl
example : applyFn .max [.arr .plain []] = .ok .null := by rfl
example : applyFn .min [.str []] = .err [Cat.invalidType] := by rfl
example : applyFn .max [.arr .plain [.str [0x61], .str [0x62]]] = .ok (.str [0x62]) := by rfl
example : applyFn .sort [.arr .plain [.str [0x61], .null]] = .err [Cat.invalidType] := by rfl
/-- (F13, fixed) a one-element array of a non-sortable type is a type error as well -/
example : applyFn .sort [.arr .plain [.null]] = .err [Cat.invalidType] := by rfl

/-! ### several arguments -/

theorem startsWith_errType_iff (v p : Val) :
    applyFn .startsWith [v, p] = .err [Cat.invalidType] ↔ jsonType v ≠ .string ∨ jsonType p ≠ .string := by
  cases v <;> cases p <;> simp [applyFn, startsWith, strArg, errType, jsonType]

theorem endsWith_errType_iff (v p : Val) :
    applyFn .endsWith [v, p] = .err [Cat.invalidType] ↔ jsonType v ≠ .string ∨ jsonType p ≠ .string := by
  cases v <;> cases p <;> simp [applyFn, endsWith, strArg, errType, jsonType]

/-- `contains`: the subject must be a string or an array; the searched value may be anything -/
theorem contains_errType_iff (v x : Val) :
    applyFn .contains [v, x] = .err [Cat.invalidType] ↔ jsonType v ≠ .string ∧ jsonType v ≠ .array := by
  cases v with
  | str s => cases x <;> simp [applyFn, contains, jsonType]
  | arr t xs =>
    simp only [applyFn, contains, jsonType, ne_eq, not_true_eq_false, and_false, iff_false]
    split <;> (intro h; cases h)
  | _ => simp [applyFn, contains, jsonType, errType]

/-- `join(sep, array)`: a string and an array of strings -/
theorem join_errType_iff (sep v : Val) :
    applyFn .join [sep, v] = .err [Cat.invalidType] ↔
      jsonType sep ≠ .string ∨ jsonType v ≠ .array ∨ ∃ t xs, v = .arr t xs ∧ allStrings xs = none := by
  cases v with
  | arr t xs =>
    cases sep with
    | str s =>
      simp only [applyFn, join, jsonType, ne_eq, not_true_eq_false, false_or, Val.arr.injEq]
      cases hs : allStrings xs with
      | none => simp only [errType, true_iff]; exact ⟨t, xs, ⟨rfl, rfl⟩, hs⟩
      | some ss =>
        constructor
        · intro h; exfalso; simp only [] at h; split at h <;> cases h
        · rintro ⟨_, _, ⟨rfl, rfl⟩, h⟩; rw [hs] at h; cases h
    | _ => simp [applyFn, join, jsonType, errType]
  | _ => cases sep <;> simp [applyFn, join, jsonType, errType]

theorem trim_errType_iff (v p : Val) :
    applyFn .trim [v, p] = .err [Cat.invalidType] ↔ jsonType v ≠ .string ∨ jsonType p ≠ .string := by
  cases v <;> cases p <;> simp [applyFn, trim, strArg, errType, jsonType]
  split <;> simp

theorem trimLeft_errType_iff (v p : Val) :
    applyFn .trimLeft [v, p] = .err [Cat.invalidType] ↔ jsonType v ≠ .string ∨ jsonType p ≠ .string := by
  cases v <;> cases p <;> simp [applyFn, trimLeft, strArg, errType, jsonType]
  split <;> simp

theorem trimRight_errType_iff (v p : Val) :
    applyFn .trimRight [v, p] = .err [Cat.invalidType] ↔ jsonType v ≠ .string ∨ jsonType p ≠ .string := by
  cases v <;> cases p <;> simp [applyFn, trimRight, strArg, errType, jsonType]
  split <;> simp

theorem split_errType_iff (v p : Val) :
    applyFn .split [v, p] = .err [Cat.invalidType] ↔ jsonType v ≠ .string ∨ jsonType p ≠ .string := by
  cases v <;> cases p <;> simp [applyFn, split, strArg, errType, jsonType]
  split
  · simp
  · split <;> simp

theorem splitCount_errType_iff (v p c : Val) :
    applyFn .splitCount [v, p, c] = .err [Cat.invalidType] ↔
      jsonType v ≠ .string ∨ jsonType p ≠ .string ∨ intArg c = .err [Cat.invalidType] := by
  cases v <;> cases p <;> simp [applyFn, splitCount, strArg, errType, jsonType, bind_eq_err_iff]
  intro n _ h
  exfalso
  split at h
  · cases h
  · split at h
    · cases h
    · split at h
      · cases h
      · split at h <;> cases h

theorem replace_errType_iff (v a b : Val) :
    applyFn .replace [v, a, b] = .err [Cat.invalidType] ↔
      jsonType v ≠ .string ∨ jsonType a ≠ .string ∨ jsonType b ≠ .string := by
  cases v <;> cases a <;> cases b <;> simp [applyFn, replace, strArg, errType, jsonType]

theorem replaceCount_errType_iff (v a b c : Val) :
    applyFn .replaceCount [v, a, b, c] = .err [Cat.invalidType] ↔
      jsonType v ≠ .string ∨ jsonType a ≠ .string ∨ jsonType b ≠ .string ∨ intArg c = .err [Cat.invalidType] := by
  cases v <;> cases a <;> cases b <;> simp [applyFn, replaceCount, strArg, errType, jsonType, bind_eq_err_iff]
  intro n _ h
  exfalso
  split at h <;> cases h

theorem padLeft_errType_iff (v w p : Val) :
    applyFn .padLeft [v, w, p] = .err [Cat.invalidType] ↔
      jsonType v ≠ .string ∨ jsonType p ≠ .string ∨ intArg w = .err [Cat.invalidType] := by
  cases v <;> cases p <;> simp [applyFn, padLeft, strArg, errType, jsonType, bind_eq_err_iff, padWith_err_iff]

theorem padRight_errType_iff (v w p : Val) :
    applyFn .padRight [v, w, p] = .err [Cat.invalidType] ↔
      jsonType v ≠ .string ∨ jsonType p ≠ .string ∨ intArg w = .err [Cat.invalidType] := by
  cases v <;> cases p <;> simp [applyFn, padRight, strArg, errType, jsonType, bind_eq_err_iff, padWith_err_iff]

theorem padSpaceLeft_errType_iff (v w : Val) :
    applyFn .padSpaceLeft [v, w] = .err [Cat.invalidType] ↔
      jsonType v ≠ .string ∨ intArg w = .err [Cat.invalidType] := by
  cases v <;> simp [applyFn, padSpaceLeft, strArg, errType, jsonType, bind_eq_err_iff, padWith_err_iff]

theorem padSpaceRight_errType_iff (v w : Val) :
    applyFn .padSpaceRight [v, w] = .err [Cat.invalidType] ↔
      jsonType v ≠ .string ∨ intArg w = .err [Cat.invalidType] := by
  cases v <;> simp [applyFn, padSpaceRight, strArg, errType, jsonType, bind_eq_err_iff, padWith_err_iff]

theorem findFirst_errType_iff (v p : Val) :
    applyFn .findFirst [v, p] = .err [Cat.invalidType] ↔ jsonType v ≠ .string ∨ jsonType p ≠ .string := by
  cases v <;> cases p <;> simp [applyFn, findFirst, strArg, errType, jsonType]
  split
  · simp
  · split <;> simp

theorem findLast_errType_iff (v p : Val) :
    applyFn .findLast [v, p] = .err [Cat.invalidType] ↔ jsonType v ≠ .string ∨ jsonType p ≠ .string := by
  cases v <;> cases p <;> simp [applyFn, findLast, strArg, errType, jsonType]
  split
  · simp
  · split <;> simp

theorem findFrom_errType_iff (last : Bool) (v p st : Val) :
    findFrom last v p st = .err [Cat.invalidType] ↔
      jsonType v ≠ .string ∨ jsonType p ≠ .string ∨ intArg st = .err [Cat.invalidType] := by
  cases v <;> cases p <;> simp [findFrom, strArg, errType, jsonType, bind_eq_err_iff]
  intro n _ h
  exfalso
  split at h
  · cases h
  · split at h <;> cases h

theorem findFirstFrom_errType_iff (v p st : Val) :
    applyFn .findFirstFrom [v, p, st] = .err [Cat.invalidType] ↔
      jsonType v ≠ .string ∨ jsonType p ≠ .string ∨ intArg st = .err [Cat.invalidType] :=
  findFrom_errType_iff false v p st

theorem findLastFrom_errType_iff (v p st : Val) :
    applyFn .findLastFrom [v, p, st] = .err [Cat.invalidType] ↔
      jsonType v ≠ .string ∨ jsonType p ≠ .string ∨ intArg st = .err [Cat.invalidType] :=
  findFrom_errType_iff true v p st

/-- the four-argument forms: value and pattern must be strings, `start` a number -/
theorem findBetween_errType_of_args (last : Bool) (v p st fin : Val)
    (h : jsonType v ≠ .string ∨ jsonType p ≠ .string) : findBetween last v p st fin = .err [Cat.invalidType] := by
  cases v <;> cases p <;> first | rfl | (simp [jsonType] at h)

theorem findBetween_errType_of_start (last : Bool) (s p : Bytes) (st fin : Val) (h : toInt st = .notNum) :
    findBetween last (.str s) (.str p) st fin = .err [Cat.invalidType] := by
  simp only [findBetween, strArg_str, Res.ok_bind, h, errType, Res.err_bind]

/-- `finish` is type-checked whatever `start` is (before the repair FX26 it was looked at only when `start` lay
    within the string) -/
theorem findBetween_errType_of_finish (last : Bool) (s p : Bytes) (st fin : Val) (i : Int)
    (hi : toInt st = .int i) (hf : intArg fin = .err [Cat.invalidType]) :
    findBetween last (.str s) (.str p) st fin = .err [Cat.invalidType] := by
  simp only [findBetween, strArg_str, Res.ok_bind, hi, hf, Res.err_bind]

theorem findBetween_errType_iff (last : Bool) (s p : Bytes) (st fin : Val) :
    findBetween last (.str s) (.str p) st fin = .err [Cat.invalidType] ↔
      toInt st = .notNum ∨
      (toInt st = .notInt ∧ (toInt fin = .notNum ∨
        (((∃ j, toInt fin = .int j) ∨ toInt fin = .notInt) ∧ toDecimal st = none))) ∨
      ((∃ i, toInt st = .int i) ∧ intArg fin = .err [Cat.invalidType]) := by
  simp only [findBetween, strArg_str, Res.ok_bind]
  cases hst : toInt st with
  | int i =>
    simp only [Res.ok_bind, reduceCtorEq, false_and, false_or, ToInt.int.injEq, exists_eq', true_and]
    simp only [bind_eq_err_iff]
    constructor
    · rintro (h | ⟨a, _, h⟩)
      · exact h
      · exfalso
        split at h
        · cases h
        · split at h
          · cases h
          · split at h
            · cases h
            · split at h <;> cases h
    · intro h; exact Or.inl h
  | notInt =>
    cases hf : toInt fin <;> cases hd : toDecimal st <;> simp [errType, errValue]
  | notNum => simp [errType]
  | panic => simp
  | unmodelled => simp

/-- the four-argument form through `applyFn` -/
theorem findFirstBetween_errType_iff (s p : Bytes) (st fin : Val) :
    applyFn .findFirstBetween [.str s, .str p, st, fin] = .err [Cat.invalidType] ↔
      toInt st = .notNum ∨
      (toInt st = .notInt ∧ (toInt fin = .notNum ∨
        (((∃ j, toInt fin = .int j) ∨ toInt fin = .notInt) ∧ toDecimal st = none))) ∨
      ((∃ i, toInt st = .int i) ∧ intArg fin = .err [Cat.invalidType]) :=
  findBetween_errType_iff false s p st fin

theorem findLastBetween_errType_iff (s p : Bytes) (st fin : Val) :
    applyFn .findLastBetween [.str s, .str p, st, fin] = .err [Cat.invalidType] ↔
      toInt st = .notNum ∨
      (toInt st = .notInt ∧ (toInt fin = .notNum ∨
        (((∃ j, toInt fin = .int j) ∨ toInt fin = .notInt) ∧ toDecimal st = none))) ∨
      ((∃ i, toInt st = .int i) ∧ intArg fin = .err [Cat.invalidType]) :=
  findBetween_errType_iff true s p st fin

/-- regression (FX26): with `start` beyond the end of the string an ill-typed `finish` used to go unreported
    (`find_first('ab', 'a', 5, 'x')` was null) -/
example : applyFn .findFirstBetween [.str [0x61, 0x62], .str [0x61], .num (.int .i64 5), .str [0x78]]
    = .err [Cat.invalidType] := by
  rfl
/-- … whereas with `start` inside the string it is reported -/
example : applyFn .findFirstBetween [.str [0x61, 0x62], .str [0x61], .num (.int .i64 0), .str [0x78]]
    = .err [Cat.invalidType] := by rfl
/-- a non-integral `start` with an ill-typed `finish`: the type error wins over the value error -/
example : applyFn .findFirstBetween [.str [0x61, 0x62], .str [0x61], .num (.dec (.fin false 15 (-1))), .str [0x78]]
    = .err [Cat.invalidType] := by rfl
example : applyFn .findFirstBetween [.str [0x61, 0x62], .str [0x61], .num (.dec (.fin false 15 (-1))), .num (.int .i64 1)]
    = .err [Cat.invalidValue] := by rfl

/-! ### `from_items` (see section i: `fromItems_non_array`, `fromItems_errType_iff`, `fromItems_errValue_iff`) -/

theorem fromItems_applyFn (v : Val) : applyFn .fromItems [v] = fromItems v := rfl

/-! ### `merge`, `zip`: arguments are type-checked one by one, as they are evaluated -/

theorem mergeArgs_errType_iff : ∀ (vs : List Val) (acc : List (Bytes × Val)),
    mergeArgs vs acc = .err [Cat.invalidType] ↔ ∃ v ∈ vs, jsonType v ≠ .object
  | [], acc => by simp [mergeArgs]
  | v :: vs, acc => by
    cases v <;> simp [mergeArgs, errType, jsonType, mergeArgs_errType_iff vs]

theorem mergeArgs_err_cases : ∀ (vs : List Val) (acc : List (Bytes × Val)),
    (∃ kvs, mergeArgs vs acc = .ok kvs) ∨ mergeArgs vs acc = .err [Cat.invalidType]
  | [], acc => Or.inl ⟨acc, rfl⟩
  | v :: vs, acc => by
    cases v with
    | obj kvs => simp only [mergeArgs]; exact mergeArgs_err_cases vs _
    | _ => exact Or.inr rfl

theorem ievalList_cons_ok (root : Val) (n : INode) (ns : List INode) (cur : Val) (env : Env) (vs : List Val) :
    ievalList root (n :: ns) cur env = .ok vs ↔
      ∃ v vs', ieval root n cur env = .ok v ∧ ievalList root ns cur env = .ok vs' ∧ vs = v :: vs' := by
  simp only [ievalList, bind_eq_ok_iff, Res.pure_eq, Res.ok.injEq]
  constructor
  · rintro ⟨v, hv, vs', hvs, rfl⟩; exact ⟨v, vs', hv, hvs, rfl⟩
  · rintro ⟨v, vs', hv, hvs, rfl⟩; exact ⟨v, hv, vs', hvs, rfl⟩

/-- when every argument evaluates, `merge` is the fold over the argument values -/
theorem ievalMerge_of_list (root : Val) (cur : Val) (env : Env) : ∀ (ns : List INode) (vs : List Val)
    (acc : List (Bytes × Val)), ievalList root ns cur env = .ok vs →
    ievalMerge root ns cur env acc = mergeArgs vs acc
  | [], vs, acc, h => by
    simp only [ievalList, Res.ok.injEq] at h
    subst h
    simp only [ievalMerge, mergeArgs]
  | n :: ns, vs, acc, h => by
    obtain ⟨v, vs', hv, hvs, rfl⟩ := (ievalList_cons_ok root n ns cur env vs).mp h
    simp only [ievalMerge, hv, Res.ok_bind]
    cases v with
    | obj kvs => simp only [mergeArgs]; exact ievalMerge_of_list root cur env ns vs' _ hvs
    | _ => rfl

/-- **`merge`**: invalid-type iff some argument is not an object -/
theorem merge_errType_iff (root : Val) (ns : List INode) (cur : Val) (env : Env) (vs : List Val)
    (h : ievalList root ns cur env = .ok vs) :
    ieval root (.merge ns) cur env = .err [Cat.invalidType] ↔ ∃ v ∈ vs, jsonType v ≠ .object := by
  simp only [ieval, ievalMerge_of_list root cur env ns vs [] h, bind_eq_err_iff, Res.pure_eq, reduceCtorEq, and_false,
    exists_false, or_false]
  exact mergeArgs_errType_iff vs []

/-- the check comes right after the evaluation of each argument: a non-object argument is reported even when a
    later argument would fail to evaluate -/
theorem merge_errType_early (root : Val) (n : INode) (ns : List INode) (cur : Val) (env : Env) (v : Val)
    (acc : List (Bytes × Val)) (hv : ieval root n cur env = .ok v) (ht : jsonType v ≠ .object) :
    ievalMerge root (n :: ns) cur env acc = .err [Cat.invalidType] := by
  simp only [ievalMerge, hv, Res.ok_bind]
  cases v <;> first | rfl | exact absurd rfl ht

example : ieval .null (.merge [.lit (.obj []), .lit (.arr .plain [])]) .null [] = .err [Cat.invalidType] := by rfl
example : ieval .null (.merge [.lit .null, .variable [0x78]]) .null [] = .err [Cat.invalidType] := by rfl
example : ieval .null (.merge [.lit (.obj [([0x61], .null)]), .lit (.obj [([0x61], .bool true)])]) .null []
    = .ok (.obj [([0x61], .bool true)]) := by rfl

theorem zipCheck_errType_iff : ∀ (vs : List Val),
    zipCheck vs = .err [Cat.invalidType] ↔ ∃ v ∈ vs, jsonType v ≠ .array
  | [] => by simp [zipCheck]
  | v :: vs => by
    cases v <;> simp [zipCheck, errType, jsonType, zipCheck_errType_iff vs]

theorem ievalZip_of_list (root : Val) (cur : Val) (env : Env) : ∀ (ns : List INode) (vs : List Val),
    ievalList root ns cur env = .ok vs →
    ievalZip root ns cur env = (zipCheck vs >>= fun _ => .ok vs)
  | [], vs, h => by
    simp only [ievalList, Res.ok.injEq] at h
    subst h
    simp only [ievalZip, zipCheck, Res.ok_bind]
  | n :: ns, vs, h => by
    obtain ⟨v, vs', hv, hvs, rfl⟩ := (ievalList_cons_ok root n ns cur env vs).mp h
    simp only [ievalZip, hv, Res.ok_bind]
    cases v with
    | arr t xs =>
      simp only [zipCheck, ievalZip_of_list root cur env ns vs' hvs, Res.pure_eq]
      cases zipCheck vs' <;> rfl
    | _ => rfl

theorem zipArgs_not_errType_of_arrays : ∀ (vs : List Val), (∀ v ∈ vs, jsonType v = .array) →
    zipArgs vs ≠ .err [Cat.invalidType]
  | [], _ => by intro h; cases h
  | v :: vs, hall => by
    have hv := hall v (List.mem_cons_self ..)
    have ih := zipArgs_not_errType_of_arrays vs (fun y hy => hall y (List.mem_cons_of_mem _ hy))
    cases v with
    | arr t xs =>
      simp only [zipArgs]
      cases hz : zipArgs vs with
      | ok cols =>
        simp only [Res.ok_bind]
        split <;> (intro h; cases h)
      | err cs =>
        simp only [Res.err_bind]
        intro h
        rw [hz] at ih
        simp only [Res.err.injEq] at h
        subst h
        exact ih rfl
      | _ => intro h; cases h
    | _ => cases hv

/-- **`zip`**: invalid-type iff some argument is not an array -/
theorem zip_errType_iff (root : Val) (ns : List INode) (cur : Val) (env : Env) (vs : List Val)
    (h : ievalList root ns cur env = .ok vs) :
    ieval root (.zip ns) cur env = .err [Cat.invalidType] ↔ ∃ v ∈ vs, jsonType v ≠ .array := by
  simp only [ieval, ievalZip_of_list root cur env ns vs h]
  constructor
  · intro he
    by_cases hex : ∃ v ∈ vs, jsonType v ≠ .array
    · exact hex
    · exfalso
      have hall : ∀ v ∈ vs, jsonType v = .array := by
        intro v hv
        by_cases ht : jsonType v = .array
        · exact ht
        · exact absurd ⟨v, hv, ht⟩ hex
      have hzc : zipCheck vs ≠ .err [Cat.invalidType] := fun hc => hex ((zipCheck_errType_iff vs).mp hc)
      cases hz : zipCheck vs with
      | ok u =>
        rw [hz] at he
        simp only [Res.ok_bind] at he
        cases hza : zipArgs vs with
        | ok cols =>
          rw [hza] at he
          simp only [Res.ok_bind] at he
          split at he <;> cases he
        | err cs =>
          rw [hza] at he
          simp only [Res.err_bind, Res.err.injEq] at he
          subst he
          exact zipArgs_not_errType_of_arrays vs hall hza
        | _ => rw [hza] at he; cases he
      | err cs =>
        rw [hz] at he
        simp only [Res.err_bind, Res.err.injEq] at he
        subst he
        exact hzc hz
      | _ => rw [hz] at he; cases he
  · intro hex
    rw [(zipCheck_errType_iff vs).mpr hex]
    rfl

example : ieval .null (.zip [.lit (.arr .plain []), .lit (.obj [])]) .null [] = .err [Cat.invalidType] := by rfl
example : ieval .null (.zip [.lit (.arr .plain [.null]), .lit (.arr .plain [.bool true, .bool false])]) .null []
    = .ok (.arr .plain [.arr .plain [.null, .bool true]]) := by rfl


/-! ## k. arity is static -/

section Arity
open Jmes.Parser

/-- `(min, max)` of a table entry (`none`: no upper bound); the `&expr` builtins take exactly two arguments -/
def arity : ArgSpec → Nat × Option Nat
  | .fixed min max _ => (min, some max)
  | .varArg _ => (1, none)
  | .expArg _ => (2, some 2)
  | .mapArg _ => (2, some 2)

/-- position (from 0) of the argument that must be an expression reference `&expr` -/
def refArg : ArgSpec → Option Nat
  | .expArg _ => some 1
  | .mapArg _ => some 0
  | _ => none

/-- the signature table of the standard (DESIGN, C02), names as bytes -/
def arityTable : List (Bytes × (Nat × Option Nat)) := [
  -- abs
  ([0x61, 0x62, 0x73], (1, some 1)),
  -- avg
  ([0x61, 0x76, 0x67], (1, some 1)),
  -- ceil
  ([0x63, 0x65, 0x69, 0x6C], (1, some 1)),
  -- contains
  ([0x63, 0x6F, 0x6E, 0x74, 0x61, 0x69, 0x6E, 0x73], (2, some 2)),
  -- ends_with
  ([0x65, 0x6E, 0x64, 0x73, 0x5F, 0x77, 0x69, 0x74, 0x68], (2, some 2)),
  -- find_first
  ([0x66, 0x69, 0x6E, 0x64, 0x5F, 0x66, 0x69, 0x72, 0x73, 0x74], (2, some 4)),
  -- find_last
  ([0x66, 0x69, 0x6E, 0x64, 0x5F, 0x6C, 0x61, 0x73, 0x74], (2, some 4)),
  -- floor
  ([0x66, 0x6C, 0x6F, 0x6F, 0x72], (1, some 1)),
  -- from_items
  ([0x66, 0x72, 0x6F, 0x6D, 0x5F, 0x69, 0x74, 0x65, 0x6D, 0x73], (1, some 1)),
  -- group_by
  ([0x67, 0x72, 0x6F, 0x75, 0x70, 0x5F, 0x62, 0x79], (2, some 2)),
  -- items
  ([0x69, 0x74, 0x65, 0x6D, 0x73], (1, some 1)),
  -- join
  ([0x6A, 0x6F, 0x69, 0x6E], (2, some 2)),
  -- keys
  ([0x6B, 0x65, 0x79, 0x73], (1, some 1)),
  -- length
  ([0x6C, 0x65, 0x6E, 0x67, 0x74, 0x68], (1, some 1)),
  -- lower
  ([0x6C, 0x6F, 0x77, 0x65, 0x72], (1, some 1)),
  -- map
  ([0x6D, 0x61, 0x70], (2, some 2)),
  -- max
  ([0x6D, 0x61, 0x78], (1, some 1)),
  -- max_by
  ([0x6D, 0x61, 0x78, 0x5F, 0x62, 0x79], (2, some 2)),
  -- merge
  ([0x6D, 0x65, 0x72, 0x67, 0x65], (1, none)),
  -- min
  ([0x6D, 0x69, 0x6E], (1, some 1)),
  -- min_by
  ([0x6D, 0x69, 0x6E, 0x5F, 0x62, 0x79], (2, some 2)),
  -- not_null
  ([0x6E, 0x6F, 0x74, 0x5F, 0x6E, 0x75, 0x6C, 0x6C], (1, none)),
  -- pad_left
  ([0x70, 0x61, 0x64, 0x5F, 0x6C, 0x65, 0x66, 0x74], (2, some 3)),
  -- pad_right
  ([0x70, 0x61, 0x64, 0x5F, 0x72, 0x69, 0x67, 0x68, 0x74], (2, some 3)),
  -- replace
  ([0x72, 0x65, 0x70, 0x6C, 0x61, 0x63, 0x65], (3, some 4)),
  -- reverse
  ([0x72, 0x65, 0x76, 0x65, 0x72, 0x73, 0x65], (1, some 1)),
  -- sort
  ([0x73, 0x6F, 0x72, 0x74], (1, some 1)),
  -- sort_by
  ([0x73, 0x6F, 0x72, 0x74, 0x5F, 0x62, 0x79], (2, some 2)),
  -- split
  ([0x73, 0x70, 0x6C, 0x69, 0x74], (2, some 3)),
  -- starts_with
  ([0x73, 0x74, 0x61, 0x72, 0x74, 0x73, 0x5F, 0x77, 0x69, 0x74, 0x68], (2, some 2)),
  -- sum
  ([0x73, 0x75, 0x6D], (1, some 1)),
  -- to_array
  ([0x74, 0x6F, 0x5F, 0x61, 0x72, 0x72, 0x61, 0x79], (1, some 1)),
  -- to_number
  ([0x74, 0x6F, 0x5F, 0x6E, 0x75, 0x6D, 0x62, 0x65, 0x72], (1, some 1)),
  -- to_string
  ([0x74, 0x6F, 0x5F, 0x73, 0x74, 0x72, 0x69, 0x6E, 0x67], (1, some 1)),
  -- trim
  ([0x74, 0x72, 0x69, 0x6D], (1, some 2)),
  -- trim_left
  ([0x74, 0x72, 0x69, 0x6D, 0x5F, 0x6C, 0x65, 0x66, 0x74], (1, some 2)),
  -- trim_right
  ([0x74, 0x72, 0x69, 0x6D, 0x5F, 0x72, 0x69, 0x67, 0x68, 0x74], (1, some 2)),
  -- type
  ([0x74, 0x79, 0x70, 0x65], (1, some 1)),
  -- upper
  ([0x75, 0x70, 0x70, 0x65, 0x72], (1, some 1)),
  -- values
  ([0x76, 0x61, 0x6C, 0x75, 0x65, 0x73], (1, some 1)),
  -- zip
  ([0x7A, 0x69, 0x70], (1, none))]

/-- **the parser's builtin table has exactly the 41 names of the standard, each with its arity** -/
theorem arity_table : builtinTable.map (fun e => (e.1, arity e.2)) = arityTable := by decide

theorem arity_table_length : builtinTable.length = 41 := by decide

/-- looking a name up gives its entry (the names are distinct) -/
theorem lookup_arity : ∀ e ∈ arityTable, (lookupBuiltin e.1).map arity = some e.2 := by decide

/-- the builtins taking an expression reference: `group_by`, `max_by`, `min_by`, `sort_by` (second argument),
    `map` (first argument) -/
theorem refArg_table : (builtinTable.filterMap (fun e => (refArg e.2).map (fun i => (e.1, i)))) =
    [([0x67, 0x72, 0x6F, 0x75, 0x70, 0x5F, 0x62, 0x79], 1), ([0x6D, 0x61, 0x70], 0),
     ([0x6D, 0x61, 0x78, 0x5F, 0x62, 0x79], 1), ([0x6D, 0x69, 0x6E, 0x5F, 0x62, 0x79], 1),
     ([0x73, 0x6F, 0x72, 0x74, 0x5F, 0x62, 0x79], 1)] := by decide

/-- a name is unknown iff it is not one of the 41 -/
theorem lookup_none_iff (name : Bytes) : lookupBuiltin name = none ↔ name ∉ arityTable.map (·.1) := by
  have hnames : arityTable.map (·.1) = builtinTable.map (·.1) := by decide
  rw [hnames]
  simp only [lookupBuiltin, Option.map_eq_none_iff, List.find?_eq_none, List.mem_map, not_exists, not_and]
  constructor
  · intro h e he hn
    have := h e he
    simp [hn] at this
  · intro h e he hb
    have : e.1 = name := by simpa using hb
    exact h e he this

example : (lookupBuiltin [0x66, 0x69, 0x6E, 0x64, 0x5F, 0x66, 0x69, 0x72, 0x73, 0x74]).map arity = some (2, some 4) := by
  decide
example : (lookupBuiltin [0x6D, 0x65, 0x72, 0x67, 0x65]).map arity = some (1, none) := by decide
/-- `foo` is not a builtin -/
example : lookupBuiltin [0x66, 0x6F, 0x6F] = none := by decide

/-- **an unknown name is rejected before any argument is parsed**: once the name and `(` are consumed
    (`advance2`), the outcome is `unknownFunction` whatever follows -/
theorem function_unknown (fuel : Nat) (st st' : PState) (h2 : advance2 st = .ok ((), st'))
    (hl : lookupBuiltin st.curr.value = none) :
    Parser.function (fuel + 1) st = .error .unknownFunction := by
  simp only [Parser.function, currValue, bind, StateT.bind, get, getThe, MonadStateOf.get, StateT.get, pure,
    StateT.pure, Except.pure, Except.bind, h2, hl, Parser.fail]

/-- no argument at all: every builtin takes at least one -/
theorem function_no_args (fuel : Nat) (st st' : PState) (spec : ArgSpec) (h2 : advance2 st = .ok ((), st'))
    (hl : lookupBuiltin st.curr.value = some spec) (hc : st'.curr.type = .closeParen) :
    Parser.function (fuel + 1) st = .error .invalidFunctionCall := by
  simp only [Parser.function, currValue, currType, bind, StateT.bind, get, getThe, MonadStateOf.get, StateT.get, pure,
    StateT.pure, Except.pure, Except.bind, h2, hl, Parser.fail, hc, beq_self_eq_true, if_true]

/-- too few: the list ends (`)`) after fewer than `min` arguments -/
theorem fnArgs_too_few (fuel min max : Nat) (acc : List INode) (st st' : PState) (arg : INode)
    (he : expression fuel 1 st = .ok (arg, st')) (hlen : acc.length + 1 < min)
    (hc : st'.curr.type = .closeParen) :
    fnArgs (fuel + 1) min max acc st = .error .invalidFunctionCall := by
  simp only [Parser.fnArgs, currType, bind, StateT.bind, get, getThe, MonadStateOf.get, StateT.get, pure,
    StateT.pure, Except.pure, Except.bind, he, Parser.fail, hc, List.length_append, List.length_cons,
    List.length_nil, Nat.zero_add, hlen, beq_self_eq_true, if_true]

/-- too many: the list continues (`,`) after `max` arguments -/
theorem fnArgs_too_many (fuel min max : Nat) (acc : List INode) (st st' : PState) (arg : INode)
    (he : expression fuel 1 st = .ok (arg, st')) (h1 : ¬ acc.length + 1 < min) (h2 : ¬ acc.length + 1 < max)
    (hc : st'.curr.type = .comma) :
    fnArgs (fuel + 1) min max acc st = .error .invalidFunctionCall := by
  simp only [Parser.fnArgs, currType, bind, StateT.bind, get, getThe, MonadStateOf.get, StateT.get, pure,
    StateT.pure, Except.pure, Except.bind, he, Parser.fail, hc, List.length_append, List.length_cons,
    List.length_nil, Nat.zero_add, h1, h2, beq_self_eq_true, if_true, if_false]

/-- a count within the signature is accepted: `)` after at least `min` (and, by the two lemmas above, at most
    `max`) arguments -/
theorem fnArgs_accept (fuel min max : Nat) (acc : List INode) (st st' st'' : PState) (arg : INode)
    (he : expression fuel 1 st = .ok (arg, st')) (h1 : ¬ acc.length + 1 < min)
    (hc : st'.curr.type = .closeParen) (ha : advance st' = .ok ((), st'')) :
    fnArgs (fuel + 1) min max acc st = .ok (acc ++ [arg], st'') := by
  have e1 : (TokenType.closeParen == TokenType.comma) = false := by decide
  have e2 : (TokenType.closeParen != TokenType.closeParen) = false := by decide
  by_cases h2 : acc.length + 1 < max
  · simp only [Parser.fnArgs, currType, bind, StateT.bind, get, getThe, MonadStateOf.get, StateT.get, pure,
      StateT.pure, Except.pure, Except.bind, he, hc, List.length_append, List.length_cons,
      List.length_nil, Nat.zero_add, h1, h2, beq_self_eq_true, if_true, if_false, ha]
  · simp only [Parser.fnArgs, currType, bind, StateT.bind, get, getThe, MonadStateOf.get, StateT.get, pure,
      StateT.pure, Except.pure, Except.bind, he, hc, List.length_append, List.length_cons,
      List.length_nil, Nat.zero_add, h1, h2, if_false, ha, e1, e2, Bool.false_eq_true]

/-- more arguments are asked for while the count is below `max`: after a `,` the loop continues -/
theorem fnArgs_continue (fuel min max : Nat) (acc : List INode) (st st' st'' : PState) (arg : INode)
    (he : expression fuel 1 st = .ok (arg, st')) (h2 : acc.length + 1 < max)
    (hc : st'.curr.type = .comma) (ha : advance st' = .ok ((), st'')) :
    fnArgs (fuel + 1) min max acc st = fnArgs fuel min max (acc ++ [arg]) st'' := by
  have e1 : (TokenType.comma == TokenType.closeParen) = false := by decide
  have e2 : (TokenType.comma != TokenType.comma) = false := by decide
  by_cases h1 : acc.length + 1 < min
  · simp only [Parser.fnArgs, currType, bind, StateT.bind, get, getThe, MonadStateOf.get, StateT.get, pure,
      StateT.pure, Except.pure, Except.bind, he, hc, List.length_append, List.length_cons,
      List.length_nil, Nat.zero_add, h1, if_true, if_false, ha, e1, e2, Bool.false_eq_true]
  · simp only [Parser.fnArgs, currType, bind, StateT.bind, get, getThe, MonadStateOf.get, StateT.get, pure,
      StateT.pure, Except.pure, Except.bind, he, hc, List.length_append, List.length_cons,
      List.length_nil, Nat.zero_add, h1, h2, if_true, if_false, ha, e1, e2, Bool.false_eq_true]

/-- down to `compile` on texts: `abs()`, `abs(a, b)`, `find_first(a)`, `find_first(a,b,c,d,e)` are arity errors,
    `foo(a)` an unknown function — also with an ill-formed argument list, which is never looked at -/
example : (match compile [0x61, 0x62, 0x73, 0x28, 0x29] with
    | .error .invalidFunctionCall => true | _ => false) = true := by decide +kernel
example : (match compile [0x61, 0x62, 0x73, 0x28, 0x61, 0x2C, 0x62, 0x29] with
    | .error .invalidFunctionCall => true | _ => false) = true := by decide +kernel
example : (match compile [0x66, 0x69, 0x6E, 0x64, 0x5F, 0x66, 0x69, 0x72, 0x73, 0x74, 0x28, 0x61, 0x29] with
    | .error .invalidFunctionCall => true | _ => false) = true := by decide +kernel
example : (match compile [0x66, 0x69, 0x6E, 0x64, 0x5F, 0x66, 0x69, 0x72, 0x73, 0x74, 0x28, 0x61, 0x2C, 0x62, 0x2C, 0x63,
    0x2C, 0x64, 0x2C, 0x65, 0x29] with
    | .error .invalidFunctionCall => true | _ => false) = true := by decide +kernel
example : (match compile [0x66, 0x6F, 0x6F, 0x28, 0x61, 0x29] with
    | .error .unknownFunction => true | _ => false) = true := by decide +kernel
/-- `foo(]` -/
example : (match compile [0x66, 0x6F, 0x6F, 0x28, 0x5D] with
    | .error .unknownFunction => true | _ => false) = true := by decide +kernel
example : parseCat .invalidFunctionCall = .arity ∧ parseCat .unknownFunction = .unknownFunction := ⟨rfl, rfl⟩

end Arity

end Jmes.C02
