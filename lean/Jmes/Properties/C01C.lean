/-
  C01 (third wave) — **a search returns exactly the value an independent semantics of the core language assigns**.

  The reference semantics of the first wave (`seval`, `Spec/Sem.lean`) is assembled from the helpers of the evaluator
  model and takes the null rule of multi-select from a flag that `desugar` copies from the Go node type; the theorem
  `C01.search_is_reference_semantics` is therefore a refactoring statement.  Here the reference is `Sem`
  (`Proofs/C01CSem.lean`): defined by recursion on the parse trees of the declarative grammar (`Spec/Grammar.lean`), with
  `List.map` / `filter` / `filterMap` / `flatMap` / `find?` — field lookup is `List.find?` on the member list, an index is
  `xs[i]`, a slice of an array is the Python walk `pyWalk` (`Spec/Slice.lean`), each of the five projections is "evaluate
  the left side; if it is an array (an object) apply the right-hand side to the elements and drop the nulls, else null",
  `|` and `.` feed the value of the left side to the right side, `&&`, `||`, `!` use the truth test written out in
  `truthy`, ordering comparisons are defined on two numbers and null otherwise, `let` extends the scope lexically.
  Builtins, arithmetic, equality, literal decoding and string slices are the model's (they are C02, C05, C20, C18, C12B);
  `callSem` tells the builtins apart by the node constructors of the parser's builtin table (see the header of
  `Proofs/C01CSem.lean` for the exact list of what is shared).  The clauses of `Sem` that are DECISIONS taken from the Go
  program rather than from the specification text are listed, with the Go behaviour, in `Properties/C01E.lean`, which
  also relates `Sem` to `SemSpec` (the null rule of multi-select as the specification words it).

  * `search_eq_Sem` — **the theorem**: `WellPrec t`, `lexAll e = flatten t ++ [end]` ⟹ `search e d = Sem t d d []`, for
    EVERY tree of the grammar (the whole language: core, `let`, function calls with `&` arguments), every document, no
    side condition.  Map-ordered arrays (tag `.enum`) are handled, not excluded: `Sem` follows the convention of the model
    (`unordered` ⟹ `.nondet` for positional access, error categories widened by `overOrders`).
  * `search_spec` — the same, quantified the other way round: every expression that compiles IS the printing of a
    well-formed tree, and its search is `Sem` of that tree (with `C04G.parse_sound`).
  * `ieval_eq_Sem` — the general form: any position (primary / right-hand side), any current node, any bindings.
  * sanity: `Sem_field_chain` (`a.b.c` is successive lookup), `Sem_star_map` (`L[*].R` is map / drop-null),
    `Sem_pipe` (`L | R` is `R` on the value of `L`), and `Sem_ostar_map`, `Sem_flat_map`, `Sem_filter_map`,
    `Sem_wrong_type_null`, `SemL_eq_map`, `Sem_multiList_null_rule` (KF10 spelled out), `Sem_let`.
-/
import Jmes.Proofs.C01CMain
import Jmes.Properties.C04G
set_option linter.unusedSimpArgs false
namespace Jmes.C01C
open Jmes Jmes.Grammar Jmes.Spec Jmes.Pratt

/-! ## The theorem -/

/-- **General form**: on the node of a well-formed tree — in primary position (`b = false`) or as the right-hand side
    of a projection (`b = true`) — the evaluator model computes `Sem` of the tree, whatever the document, the current
    node and the variable bindings. -/
theorem ieval_eq_Sem {t : PTree} {b : Bool} (h : wp b t = true) (root cur : Val) (env : Env) :
    ieval root (erase t) cur env = Sem t root cur env :=
  ieval_erase_eq_Sem root h cur env

/-- **`search_eq_Sem`**: for every well-formed tree `t` of the grammar and every expression `e` whose tokens are the
    printing of `t`, and for every document `d` (any `Val`: any shape, any array tags), `search e d` is `Sem t d d []`:
    the independent semantics of `t` with `d` as root and as current node and no bindings.  Equality of outcomes: the
    same value, or the same error categories, or the same `.nondet` / declined case. -/
theorem search_eq_Sem {t : PTree} (h : WellPrec t) {e : Bytes} (hl : lexAll e = (Grammar.flatten t ++ [endTok], none))
    (d : Val) : search e d = Sem t d d [] := by
  unfold search
  rw [C04G.parse_complete h hl]
  exact ieval_erase_eq_Sem d h d []

/-- **`search_spec`**: every expression that compiles is the printing of a well-formed tree of the grammar, and on every
    document its search is the semantics of that tree.  (With `C04G.unambiguous`, the tree is unique up to `erase`.) -/
theorem search_spec {e : Bytes} {n : INode} (h : compile e = .ok n) :
    ∃ t : PTree, WellPrec t ∧ lexAll e = (Grammar.flatten t ++ [endTok], none) ∧ ∀ d, search e d = Sem t d d [] := by
  obtain ⟨t, hw, hl, _, _⟩ := C04G.parse_sound (e := e) (n := n) h
  exact ⟨t, hw, hl, search_eq_Sem hw hl⟩

namespace Ex
open Jmes.Grammar.Ex

def doc : Val :=
  .obj [(bs "foo", .arr .plain [.obj [(bs "bar", .obj [(bs "baz", .bool true)])], .null, .obj [(bs "bar", .null)]])]

/-- `foo[*].bar.baz` on `{"foo": [{"bar": {"baz": true}}, null, {"bar": null}]}` is `[true]` -/
example : search (bs "foo[*].bar.baz") doc = .ok (.arr .plain [.bool true]) := by
  rw [search_eq_Sem (t := e01) (by decide) (by decide)]; rfl
example : ieval doc (erase e01) doc [] = .ok (.arr .plain [.bool true]) := by
  rw [ieval_eq_Sem (b := false) (by decide)]; rfl
/-- `foo[*].bar | [0]`: the pipe ends the projection -/
example : search (bs "foo[*].bar | [0]") doc = .ok (.obj [(bs "baz", .bool true)]) := by
  rw [search_eq_Sem (t := e02) (by decide) (by decide)]; rfl
/-- `let $x = a in $x.b` -/
example : search (bs "let $x = a in $x.b") (.obj [(bs "a", .obj [(bs "b", .str (bs "v"))])]) = .ok (.str (bs "v")) := by
  rw [search_eq_Sem (t := e13) (by decide) (by decide)]; rfl
example : ∃ t, WellPrec t ∧ ∀ d, search (bs "foo[*].bar.baz") d = Sem t d d [] :=
  ⟨e01, by decide, search_eq_Sem (by decide) (by decide)⟩
end Ex

/-! ## `Sem` is what a reader of the specification expects -/

/-- an unquoted identifier -/
def ident (k : Bytes) : PTree := .atom ⟨.unquotedIdentifier, k⟩

/-- the members of a list of expressions are evaluated pointwise: `SemL` is `List.map` -/
theorem SemL_eq_map (root : Val) (env : Env) : ∀ es : List PTree,
    SemL es root env = es.map fun e x => Sem e root x env
  | [] => rfl
  | e :: es => by simp only [SemL, List.map_cons, SemL_eq_map root env es]

example : SemL [ident [0x61], .icur] .null [] = [fun x => Sem (ident [0x61]) .null x [], fun x => Sem .icur .null x []] :=
  SemL_eq_map .null [] _

/-- … and so are the members of a multi-select hash / the bindings of a `let` -/
theorem SemKVs_eq_map (key : Token → Bytes) (root cur : Val) (env : Env) : ∀ kvs : List (Token × PTree),
    SemKVs key kvs root cur env = kvs.map fun kv => (key kv.1, Sem kv.2 root cur env)
  | [] => rfl
  | (k, e) :: kvs => by simp only [SemKVs, List.map_cons, SemKVs_eq_map key root cur env kvs]

example : SemKVs keyOf [(⟨.unquotedIdentifier, [0x6B]⟩, .icur)] .null (.bool true) [] = [([0x6B], .ok (.bool true))] :=
  SemKVs_eq_map keyOf .null (.bool true) [] _

/-- `k` on the current node: the member `k` if the node is an object that has one, else null -/
theorem Sem_ident (k : Bytes) (root cur : Val) (env : Env) : Sem (ident k) root cur env = .ok (fieldOf k cur) := rfl

example : Sem (ident [0x61]) .null (.obj [([0x61], .bool true)]) [] = .ok (.bool true) := Sem_ident _ _ _ _
example : Sem (ident [0x61]) .null (.arr .plain []) [] = .ok .null := Sem_ident _ _ _ _

/-- the member of an object is found by `List.find?` on its member list -/
theorem fieldOf_obj (k : Bytes) (kvs : List (Bytes × Val)) :
    fieldOf k (.obj kvs) = ((kvs.find? fun kv => kv.1 == k).map Prod.snd).getD .null := rfl

example : fieldOf [0x62] (.obj [([0x61], .null), ([0x62], .bool true)]) = .bool true := rfl

/-- **`a.b.c` is successive lookup**: the member `c` of the member `b` of the member `a` of the current node, null as
    soon as one of them is missing or is not an object -/
theorem Sem_field_chain (a b c : Bytes) (root cur : Val) (env : Env) :
    Sem (.dotId (.dotId (ident a) (ident b)) (ident c)) root cur env = .ok (fieldOf c (fieldOf b (fieldOf a cur))) := rfl

/-- on nested objects that have the members: the innermost value -/
theorem Sem_field_chain_found (a b c : Bytes) (root : Val) (env : Env) (m1 m2 m3 : List (Bytes × Val)) (v : Val)
    (h1 : lookup a m1 = some (.obj m2)) (h2 : lookup b m2 = some (.obj m3)) (h3 : lookup c m3 = some v) :
    Sem (.dotId (.dotId (ident a) (ident b)) (ident c)) root (.obj m1) env = .ok v := by
  rw [Sem_field_chain]
  simp only [fieldOf, h1, h2, h3, Option.getD_some]

/-- the text `a.b.c` is that tree -/
example : lexAll (Ex.bs "a.b.c") = (Grammar.flatten (.dotId (.dotId (ident (Ex.bs "a")) (ident (Ex.bs "b"))) (ident (Ex.bs "c"))) ++
    [endTok], none) ∧ WellPrec (.dotId (.dotId (ident (Ex.bs "a")) (ident (Ex.bs "b"))) (ident (Ex.bs "c"))) := by decide
example : Sem (.dotId (.dotId (ident [0x61]) (ident [0x62])) (ident [0x63])) .null
    (.obj [([0x61], .obj [([0x62], .obj [([0x63], .bool true)])])]) [] = .ok (.bool true) :=
  Sem_field_chain_found _ _ _ _ _ _ _ _ _ rfl rfl rfl
/-- a missing member, or a non-object on the way: null -/
example : Sem (.dotId (.dotId (ident [0x61]) (ident [0x62])) (ident [0x63])) .null
    (.obj [([0x61], .arr .plain [])]) [] = .ok .null := rfl

/-- all the outcomes are values: `inOrder` returns them -/
theorem inOrder_ok {α} (vs : List α) : inOrder (vs.map Res.ok) = .ok vs := by
  induction vs with
  | nil => rfl
  | cons v vs ih => simp only [List.map_cons, inOrder_cons, ih, Res.ok_bind]

example : inOrder [Res.ok 1, .ok 2] = .ok [1, 2] := inOrder_ok [1, 2]
/-- the first failure wins -/
example : inOrder [Res.ok 1, .err [Cat.invalidType], .nondet] = .err [Cat.invalidType] := rfl

/-- (helper) a function that yields the value `g x` on every element, mapped over the list -/
theorem map_ok {f : Val → Res Val} {g : Val → Val} : ∀ {xs : List Val}, (∀ x ∈ xs, f x = .ok (g x)) →
    xs.map f = (xs.map g).map Res.ok
  | [], _ => rfl
  | x :: xs, h => by
    simp only [List.map_cons, h x List.mem_cons_self,
      map_ok (xs := xs) fun y hy => h y (List.mem_cons_of_mem _ hy)]

/-- `project` when the right-hand side yields a value on every element: map, drop the nulls -/
theorem project_ok (t : ATag) (xs : List Val) (f : Val → Res Val) (g : Val → Val) (h : ∀ x ∈ xs, f x = .ok (g x)) :
    project t xs f = .ok (.arr (elemTag t) ((xs.map g).filter fun v => !v.isNull)) := by
  simp only [project, map_ok h, inOrder_ok, Res.ok_bind, overOrders, dropNulls]

example : project .plain [.bool true, .null] Res.ok = .ok (.arr .plain [.bool true]) :=
  project_ok .plain _ _ id fun _ _ => rfl

/-- **`L[*].R` is map / drop-null**: when `L` evaluates to the array `xs` (of a JSON document: tag `.plain`) and `R`
    yields the value `g x` on every element `x`, the result is the array of the non-null `g x`, in order. -/
theorem Sem_star_map (L R : PTree) (root cur : Val) (env : Env) (xs : List Val) (g : Val → Val)
    (hL : Sem L root cur env = .ok (.arr .plain xs)) (hR : ∀ x ∈ xs, Sem R root x env = .ok (g x)) :
    Sem (.star L R) root cur env = .ok (.arr .plain ((xs.map g).filter fun v => !v.isNull)) := by
  simp only [Sem, hL, Res.ok_bind]
  split
  · -- no right-hand side and nothing to drop: the array itself
    rename_i hc
    simp only [Bool.and_eq_true, Bool.not_eq_true'] at hc
    have hg : ∀ x ∈ xs, g x = x := by
      intro x hx
      have := hR x hx
      rw [GrammarF0.isIcur_eq hc.1] at this
      simp only [Sem, Res.ok.injEq] at this
      exact this.symm
    have h1 : xs.map g = xs := by
      conv => rhs; rw [← List.map_id xs]
      exact List.map_congr_left hg
    have h2 : xs.filter (fun v => !v.isNull) = xs := by
      rw [List.filter_eq_self]
      intro x hx
      have := hc.2
      rw [List.any_eq_false] at this
      simpa using this x hx
    rw [h1, h2]
  · exact project_ok .plain xs _ g hR

/-- `foo[*].bar` on `[{"bar": 1}, {"bar": null}, 7]`: `[1]` -/
example : Sem (.star (ident (Ex.bs "foo")) (.dotId .icur (ident (Ex.bs "bar")))) .null
    (.obj [(Ex.bs "foo", .arr .plain [.obj [(Ex.bs "bar", .str [1])], .obj [(Ex.bs "bar", .null)], .bool true])]) []
    = .ok (.arr .plain [.str [1]]) :=
  Sem_star_map _ _ _ _ _ [.obj [(Ex.bs "bar", .str [1])], .obj [(Ex.bs "bar", .null)], .bool true]
    (fieldOf (Ex.bs "bar")) rfl (fun _ _ => rfl)

/-- the general form, failures included: by definition -/
theorem Sem_star (L R : PTree) (root cur : Val) (env : Env) :
    Sem (.star L R) root cur env =
      (Sem L root cur env >>= fun a =>
        match a with
        | .arr t xs =>
          if R.isIcur && !xs.any Val.isNull then .ok (.arr t xs) else project t xs fun x => Sem R root x env
        | _ => .ok .null) := by
  simp only [Sem]
  apply Res.bind_congr; intro a
  cases a <;> rfl

example : Sem (.star (ident [0x61]) .icur) .null (.obj [([0x61], .arr .plain [.null, .bool true])]) [] =
    .ok (.arr .plain [.bool true]) := by rw [Sem_star]; rfl

/-- **`L | R` is `R` evaluated on the value of `L`** (a failure of `L` is the failure of the whole) -/
theorem Sem_pipe (op : Token) (hop : op.type = .pipe) (L R : PTree) (root cur : Val) (env : Env) :
    Sem (.bin op L R) root cur env = (Sem L root cur env >>= fun a => Sem R root a env) := by
  simp only [Sem, hop]

/-- … on a value: -/
theorem Sem_pipe_ok (op : Token) (hop : op.type = .pipe) (L R : PTree) (root cur : Val) (env : Env) (a : Val)
    (hL : Sem L root cur env = .ok a) : Sem (.bin op L R) root cur env = Sem R root a env := by
  rw [Sem_pipe op hop, hL]; rfl

example : Sem (.bin ⟨.pipe, [0x7C]⟩ (ident [0x61]) .icur) .null (.obj [([0x61], .bool true)]) [] =
    Sem .icur .null (.bool true) [] := Sem_pipe_ok _ rfl _ _ _ _ _ _ rfl

/-- `L.R` with `R` an identifier (…) is the same thing: only the grammar tells `.` from `|` -/
theorem Sem_dot (L R : PTree) (root cur : Val) (env : Env) :
    Sem (.dotId L R) root cur env = (Sem L root cur env >>= fun a => Sem R root a env) := rfl

example : Sem (.dotId (ident [0x61]) (ident [0x62])) .null (.obj [([0x61], .obj [([0x62], .bool true)])]) [] =
    .ok (.bool true) := by rw [Sem_dot]; rfl
example : Sem (.bin ⟨.pipe, [0x7C]⟩ (ident [0x61]) (ident [0x62])) .null (.obj [([0x61], .obj [([0x62], .bool true)])]) [] =
    .ok (.bool true) := by rw [Sem_pipe _ rfl]; rfl
/-- `foo[*].bar | [0]`: the index is applied to the projected array, not to its elements -/
example : Sem Grammar.Ex.e02 Ex.doc Ex.doc [] =
    (Sem (.star (Grammar.Ex.idt "foo") (.dotId .icur (Grammar.Ex.idt "bar"))) Ex.doc Ex.doc [] >>= fun a =>
      indexOf a 0) := by
  rw [Grammar.Ex.e02, Sem_pipe _ rfl]; rfl

/-- **`L.* R` is map / drop-null over the member values** of an object; the order of the result is unspecified (`.enum`) -/
theorem Sem_ostar_map (L R : PTree) (root cur : Val) (env : Env) (kvs : List (Bytes × Val)) (g : Val → Val)
    (hL : Sem L root cur env = .ok (.obj kvs)) (hR : ∀ x ∈ kvs.map Prod.snd, Sem R root x env = .ok (g x)) :
    Sem (.ostar L R) root cur env = .ok (.arr .enum (((kvs.map Prod.snd).map g).filter fun v => !v.isNull)) := by
  simp only [Sem, hL, Res.ok_bind]
  exact project_ok .enum _ _ g hR

example : Sem (.ostar .icur .icur) .null (.obj [([0x61], .null), ([0x62], .bool true)]) [] = .ok (.arr .enum [.bool true]) :=
  Sem_ostar_map _ _ _ _ _ [([0x61], .null), ([0x62], .bool true)] id rfl (fun _ _ => rfl)

/-- **`L[] R` is flatten-one-level, then map / drop-null** (on arrays of a JSON document) -/
theorem Sem_flat_map (L R : PTree) (root cur : Val) (env : Env) (xs : List Val) (g : Val → Val)
    (hL : Sem L root cur env = .ok (.arr .plain xs)) (hp : ∀ x ∈ xs, ∀ t ys, x = .arr t ys → t = .plain)
    (hR : ∀ x ∈ flatOnce xs, Sem R root x env = .ok (g x)) :
    Sem (.flat L R) root cur env = .ok (.arr .plain (((flatOnce xs).map g).filter fun v => !v.isNull)) := by
  have hu : flatUnordered .plain xs = false := by
    simp only [flatUnordered, unordered, Bool.or_eq_false_iff, List.any_eq_false]
    refine ⟨rfl, fun x hx => ?_⟩
    cases x with
    | arr t ys => rw [hp _ hx t ys rfl]; simp
    | _ => simp
  simp only [Sem, hL, Res.ok_bind, flatProject, hu, map_ok hR, inOrder_ok, overOrders, dropNulls, Bool.false_eq_true,
    if_false]

example : Sem (.flat .icur .icur) .null (.arr .plain [.arr .plain [.bool true, .null], .bool false, .null]) [] =
    .ok (.arr .plain [.bool true, .bool false]) :=
  Sem_flat_map _ _ _ _ _ [.arr .plain [.bool true, .null], .bool false, .null] id rfl
    (by intro x hx t ys h; simp only [List.mem_cons, List.not_mem_nil, or_false] at hx
        rcases hx with rfl | rfl | rfl <;> cases h; rfl) (fun _ _ => rfl)

/-- **`L[?C] R` keeps the elements on which `C` is true, then map / drop-null** -/
theorem Sem_filter_map (L C R : PTree) (root cur : Val) (env : Env) (xs : List Val) (cv g : Val → Val)
    (hL : Sem L root cur env = .ok (.arr .plain xs)) (hC : ∀ x ∈ xs, Sem C root x env = .ok (cv x))
    (hR : ∀ x ∈ xs, Sem R root x env = .ok (g x)) :
    Sem (.filt L C R) root cur env =
      .ok (.arr .plain (((xs.filter fun x => truthy (cv x)).map g).filter fun v => !v.isNull)) := by
  have h : ∀ ys : List Val, (∀ x ∈ ys, Sem C root x env = .ok (cv x)) → (∀ x ∈ ys, Sem R root x env = .ok (g x)) →
      inOrder (ys.map fun x => Sem C root x env >>= fun b =>
        if truthy b then (Sem R root x env >>= fun p => Res.ok (some p)) else Res.ok none) =
      .ok (ys.map fun x => if truthy (cv x) then some (g x) else none) := by
    intro ys
    induction ys with
    | nil => intros; rfl
    | cons y ys ih =>
      intro h1 h2
      simp only [List.map_cons, inOrder_cons, h1 y List.mem_cons_self, h2 y List.mem_cons_self, Res.ok_bind,
        ih (fun x hx => h1 x (List.mem_cons_of_mem _ hx)) (fun x hx => h2 x (List.mem_cons_of_mem _ hx))]
      cases truthy (cv y) <;> rfl
  have h2 : ∀ ys : List Val, (ys.map fun x => if truthy (cv x) then some (g x) else none).filterMap id =
      (ys.filter fun x => truthy (cv x)).map g := by
    intro ys
    induction ys with
    | nil => rfl
    | cons y ys ih =>
      simp only [List.map_cons, List.filterMap_cons, List.filter_cons]
      cases truthy (cv y) <;> simp only [Bool.false_eq_true, if_false, if_true, id, ih, List.map_cons]
  simp only [Sem, hL, Res.ok_bind, filterProject, h xs hC hR, overOrders, h2, dropNulls, elemTag]

example : Sem (.filt .icur .icur .icur) .null (.arr .plain [.bool true, .bool false, .null, .str [1]]) [] =
    .ok (.arr .plain [.bool true, .str [1]]) :=
  Sem_filter_map _ _ _ _ _ _ [.bool true, .bool false, .null, .str [1]] id id rfl (fun _ _ => rfl) (fun _ _ => rfl)

/-- **null for wrongly-typed selections**: a projection `[*]`, `[]`, `[?c]` or an index whose left side is not an array,
    a projection `.*` or a member selection whose left side is not an object: null, never an error.
    (No conjunct about SLICES here — an earlier version of this comment claimed one.  A slice of a string is a string,
    not null; the slice clauses are `C01E.Sem_slice_wrong_type_null` and `C01E.Sem_slice_string`.) -/
theorem Sem_wrong_type_null (L R C : PTree) (n : Token) (k : Bytes) (root cur : Val) (env : Env) (a : Val)
    (hL : Sem L root cur env = .ok a) :
    ((∀ t xs, a ≠ .arr t xs) → Sem (.star L R) root cur env = .ok .null ∧ Sem (.flat L R) root cur env = .ok .null ∧
      Sem (.filt L C R) root cur env = .ok .null ∧ Sem (.index L n) root cur env = .ok .null) ∧
    ((∀ kvs, a ≠ .obj kvs) → Sem (.ostar L R) root cur env = .ok .null ∧
      Sem (.dotId L (ident k)) root cur env = .ok .null) := by
  refine ⟨fun h => ?_, fun h => ?_⟩
  · cases a <;> first
      | exact absurd rfl (h _ _)
      | (refine ⟨?_, ?_, ?_, ?_⟩ <;> simp only [Sem, hL, Res.ok_bind, indexOf])
  · cases a <;> first
      | exact absurd rfl (h _)
      | (refine ⟨?_, ?_⟩ <;> simp only [Sem, hL, Res.ok_bind, ident, atomSem, fieldOf])

example : Sem (.star .icur .icur) .null (.str [1]) [] = .ok .null :=
  ((Sem_wrong_type_null .icur .icur .icur ⟨.integerLiteral, [0x30]⟩ [] .null (.str [1]) [] (.str [1]) rfl).1
    (fun _ _ h => by cases h)).1

/-- **the null rule of multi-select, spelled out** (KF10): a multi-select list on `null` is `null` when it has a left
    operand or two or more members; the one-member form without left operand evaluates its member on `null`. -/
theorem Sem_multiList_null_rule (e e' : PTree) (es : List PTree) (root : Val) (env : Env) :
    Sem (.multiList (e :: e' :: es)) root .null env = .ok .null ∧
    Sem (.multiList [e]) root .null env = (Sem e root .null env >>= fun v => .ok (.arr .plain [v])) ∧
    (∀ L, L.isIcur = false → Sem L root .null env = .ok .null → Sem (.dotList L [e]) root .null env = .ok .null) := by
  refine ⟨rfl, ?_, fun L hi hL => ?_⟩
  · simp only [Sem, SemL, List.length_cons, List.length_nil, Nat.zero_add, beq_self_eq_true, Bool.not_true, Bool.and_false,
      Bool.false_eq_true, if_false, List.map_cons, List.map_nil, inOrder_cons, inOrder_nil, Res.ok_bind, Res.bind_assoc]
  · simp only [Sem, hL, Res.ok_bind, hi, Bool.false_and, Bool.not_false, Val.isNull, Bool.and_self, if_true]

/-- `[a]` on null is `[null]`, `[a, b]` on null is null, `@.[a]` on null is null -/
example : Sem (.multiList [ident [0x61]]) .null .null [] = .ok (.arr .plain [.null]) := rfl
example : Sem (.multiList [ident [0x61], ident [0x62]]) .null .null [] = .ok .null := rfl
example : Sem (.dotList (.atom ⟨.current, [0x40]⟩) [ident [0x61]]) .null .null [] = .ok .null := rfl
/-- in a right-hand side: `x[*].[a]` on `{"x": [null, {"a": true}]}` is `[[null], [true]]`, but `x[*].[a, b]` is
    `[[true, null]]` (the Go program returns exactly these) -/
example : Sem (.star (ident [0x78]) (.dotList .icur [ident [0x61]])) .null
    (.obj [([0x78], .arr .plain [.null, .obj [([0x61], .bool true)]])]) [] =
    .ok (.arr .plain [.arr .plain [.null], .arr .plain [.bool true]]) := rfl
example : Sem (.star (ident [0x78]) (.dotList .icur [ident [0x61], ident [0x62]])) .null
    (.obj [([0x78], .arr .plain [.null, .obj [([0x61], .bool true)]])]) [] =
    .ok (.arr .plain [.arr .plain [.bool true, .null]]) := rfl

/-- **`let`**: the bindings are evaluated in the enclosing scope (they do not see each other), the body in the scope
    extended by them; a variable is looked up innermost-first -/
theorem Sem_let (bs : List (Token × PTree)) (body : PTree) (root cur : Val) (env : Env) :
    Sem (.letIn bs body) root cur env =
      (anyOrder (byKey (bs.map fun kv => (kv.1.value, Sem kv.2 root cur env))) >>= fun vs =>
        Sem body root cur (vs ++ env)) := by
  simp only [Sem, SemKVs_eq_map]

example : Sem (.letIn [(⟨.variable, [0x24, 0x78]⟩, .icur)] (.atom ⟨.variable, [0x24, 0x78]⟩)) .null (.bool true) [] =
    .ok (.bool true) := by rw [Sem_let]; rfl

/-- one binding that evaluates: the body sees it -/
theorem Sem_let_one (x : Token) (e body : PTree) (root cur : Val) (env : Env) (v : Val)
    (he : Sem e root cur env = .ok v) :
    Sem (.letIn [(x, e)] body) root cur env = Sem body root cur ((x.value, v) :: env) := by
  simp only [Sem_let, List.map_cons, List.map_nil, he, byKey, List.foldl_cons, List.foldl_nil, insertLast,
    anyOrder_single, Res.ok_bind, List.cons_append, List.nil_append]

example : Sem (.letIn [(⟨.variable, [0x24, 0x78]⟩, .icur)] (.atom ⟨.variable, [0x24, 0x78]⟩)) .null (.bool true) [] =
    Sem (.atom ⟨.variable, [0x24, 0x78]⟩) .null (.bool true) [([0x24, 0x78], .bool true)] :=
  Sem_let_one _ _ _ _ _ _ _ rfl

/-- `let $x = a in let $x = b, $y = $x in $y`: the inner `$y = $x` sees the OUTER `$x` -/
example : Sem (.letIn [(⟨.variable, [0x24, 0x78]⟩, ident [0x61])]
      (.letIn [(⟨.variable, [0x24, 0x78]⟩, ident [0x62]), (⟨.variable, [0x24, 0x79]⟩, .atom ⟨.variable, [0x24, 0x78]⟩)]
        (.atom ⟨.variable, [0x24, 0x79]⟩)))
    .null (.obj [([0x61], .str [1]), ([0x62], .str [2])]) [] = .ok (.str [1]) := rfl

end Jmes.C01C
