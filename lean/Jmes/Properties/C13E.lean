/-
  C13E — fourth wave for C13 (`sort`, `sort_by`, `min`/`max`, `min_by`/`max_by` order by value, stably).

  0. `f(E)` / `f(E, &K)` for an ARBITRARY argument expression `E` (not only `@`): the text is the function of the
     model applied to the value of `E` (`sort_expr`, `sort_by_expr`, `max_expr`, …).  All statements below are made
     for `E`; `Evals E eE d v` says "the text `eE` is the printing of the well-formed tree `E` and evaluates on the
     document `d` to `v`".  `evals_cur` gives the instance `E = @`.
  1. `sort(E)` on numbers WITH TIES ACROSS SPELLINGS, set-valued (`sort_expr_set`, `sort_text_set`): the possible
     results of a correct (unstable) sort are the value-sorted permutations (`SortResult`); the model answers `.ok r`
     exactly when there is no tie (`HasTie`), and then `r` is the only possible result; it answers `.nondet` exactly
     when there is a tie, and then there are at least two possible results; in every case the merge sort is a
     possible result and any two possible results agree in value at every position.
  2. `sort_by(E, &K)` is DEFINITE under ties (`sort_by_expr_total`, `sort_by_expr_ties`): on a plain array whose key
     evaluations succeed, `search` is `.ok` of the stable sorted arrangement (keys equal in value, e.g. `1` and `1.0`,
     keep their input order), or the invalid-type error when the keys are mixed — never `.nondet`.
  3. `max(E)` / `min(E)` on text (`max_expr_numbers`, `max_expr_strings`, `max_text_fits`, …): on numbers the answer
     is the decimal VALUE of an extremal element — equal in value to an element, not necessarily an element (KF16);
     on strings it is an element.
  4. mixed arrays / mixed keys are exactly the invalid-type errors (`sort_expr_err_iff`, `max_expr_err_iff`,
     `min_expr_err_iff`, `sort_by_expr_err_iff`, `max_by_expr_err_iff`, `min_by_expr_err_iff`).
  5. `[sort(E), @]`-style: the second component is the document (`pair_text`, `sort_pair_text`).
-/
import Jmes.Proofs.C13ELemmas
namespace Jmes.C13E
open Jmes Jmes.C13 Jmes.Parser Jmes.Grammar Jmes.C17B Jmes.Grammar.Ex Jmes.C13C Jmes.C20 Jmes.C20B Jmes.C20C
set_option linter.unusedSimpArgs false

/-! ## 0. `f(E)` and `f(E, &K)` for an arbitrary argument expression -/

/-- the expression text `eE` is the printing of the well-formed tree `E`, and evaluates on the document `d` to `v` -/
structure Evals (E : PTree) (eE : Bytes) (d v : Val) : Prop where
  wp : WellPrec E
  lex : Lexes eE (Grammar.flatten E)
  val : search eE d = .ok v

theorem Evals.eval {E : PTree} {eE : Bytes} {d v : Val} (h : Evals E eE d v) : evaluate (erase E) d = .ok v := by
  rw [← (text h.wp h.lex).2 d]; exact h.val

/-- `@` evaluates to the document -/
theorem evals_cur (d : Val) : Evals (.atom tCur) (bs "@") d d :=
  ⟨by decide, by decide, ((text (t := .atom tCur) (by decide) (by decide)).2 d).trans rfl⟩

def maxTok : Token := ⟨.unquotedIdentifier, bs "max"⟩
def minTok : Token := ⟨.unquotedIdentifier, bs "min"⟩

/-- **`sort(E)`**: the node, and `search` is `sort` of the value of `E` -/
theorem sort_expr {E : PTree} (hE : WellPrec E) {e : Bytes} (hlex : Lexes e (toks1 sortTok E)) :
    Parser.parse e = .ok (.call .sort [erase E]) ∧ ∀ d, search e d = (evaluate (erase E) d >>= sortArray) := by
  obtain ⟨hp, hs⟩ := call1_text (name := sortTok) (mk := callN .sort) rfl (by rfl) hE hlex
  refine ⟨hp, fun d => ?_⟩
  rw [hs d, evaluate_callN]
  rfl

/-- **`max(E)`** -/
theorem max_expr {E : PTree} (hE : WellPrec E) {e : Bytes} (hlex : Lexes e (toks1 maxTok E)) :
    Parser.parse e = .ok (.call .max [erase E]) ∧ ∀ d, search e d = (evaluate (erase E) d >>= arrayMax) := by
  obtain ⟨hp, hs⟩ := call1_text (name := maxTok) (mk := callN .max) rfl (by rfl) hE hlex
  refine ⟨hp, fun d => ?_⟩
  rw [hs d, evaluate_callN]
  rfl

/-- **`min(E)`** -/
theorem min_expr {E : PTree} (hE : WellPrec E) {e : Bytes} (hlex : Lexes e (toks1 minTok E)) :
    Parser.parse e = .ok (.call .min [erase E]) ∧ ∀ d, search e d = (evaluate (erase E) d >>= arrayMin) := by
  obtain ⟨hp, hs⟩ := call1_text (name := minTok) (mk := callN .min) rfl (by rfl) hE hlex
  refine ⟨hp, fun d => ?_⟩
  rw [hs d, evaluate_callN]
  rfl

/-- **`sort_by(E, &K)`**: `search` is `sort_by` of the value of `E` with the key function "evaluate `K` on the
    element" (the root document stays `d`) -/
theorem sort_by_expr {E K : PTree} (hE : WellPrec E) (hK : WellPrec K) {e : Bytes}
    (hlex : Lexes e (toks2 sortByTok E K)) :
    Parser.parse e = .ok (.sortBy (erase E) (erase K)) ∧
    ∀ d, search e d = (evaluate (erase E) d >>= sortArrayBy (fun x => ieval d (erase K) x [])) := by
  obtain ⟨hp, hs⟩ := call2_text (name := sortByTok) (mk := .sortBy) rfl (by rfl) hE hK hlex
  refine ⟨hp, fun d => ?_⟩
  rw [hs d]
  simp only [evaluate_eq, ieval]

/-- **`max_by(E, &K)`** -/
theorem max_by_expr {E K : PTree} (hE : WellPrec E) (hK : WellPrec K) {e : Bytes}
    (hlex : Lexes e (toks2 maxByTok E K)) :
    Parser.parse e = .ok (.maxBy (erase E) (erase K)) ∧
    ∀ d, search e d = (evaluate (erase E) d >>= arrayMaxBy (fun x => ieval d (erase K) x [])) := by
  obtain ⟨hp, hs⟩ := call2_text (name := maxByTok) (mk := .maxBy) rfl (by rfl) hE hK hlex
  refine ⟨hp, fun d => ?_⟩
  rw [hs d]
  simp only [evaluate_eq, ieval]

/-- **`min_by(E, &K)`** -/
theorem min_by_expr {E K : PTree} (hE : WellPrec E) (hK : WellPrec K) {e : Bytes}
    (hlex : Lexes e (toks2 minByTok E K)) :
    Parser.parse e = .ok (.minBy (erase E) (erase K)) ∧
    ∀ d, search e d = (evaluate (erase E) d >>= arrayMinBy (fun x => ieval d (erase K) x [])) := by
  obtain ⟨hp, hs⟩ := call2_text (name := minByTok) (mk := .minBy) rfl (by rfl) hE hK hlex
  refine ⟨hp, fun d => ?_⟩
  rw [hs d]
  simp only [evaluate_eq, ieval]

section Vals
variable {E K : PTree} {eE e : Bytes} {d v : Val}

/-- when the text `E` evaluates to `v`, the text `sort(E)` is `sort` of `v` -/
theorem sort_expr_val (hv : Evals E eE d v) (hlex : Lexes e (toks1 sortTok E)) : search e d = sortArray v := by
  rw [(sort_expr hv.wp hlex).2 d, hv.eval]; rfl

theorem max_expr_val (hv : Evals E eE d v) (hlex : Lexes e (toks1 maxTok E)) : search e d = arrayMax v := by
  rw [(max_expr hv.wp hlex).2 d, hv.eval]; rfl

theorem min_expr_val (hv : Evals E eE d v) (hlex : Lexes e (toks1 minTok E)) : search e d = arrayMin v := by
  rw [(min_expr hv.wp hlex).2 d, hv.eval]; rfl

theorem sort_by_expr_val (hv : Evals E eE d v) (hK : WellPrec K) (hlex : Lexes e (toks2 sortByTok E K)) :
    search e d = sortArrayBy (fun x => ieval d (erase K) x []) v := by
  rw [(sort_by_expr hv.wp hK hlex).2 d, hv.eval]; rfl

theorem max_by_expr_val (hv : Evals E eE d v) (hK : WellPrec K) (hlex : Lexes e (toks2 maxByTok E K)) :
    search e d = arrayMaxBy (fun x => ieval d (erase K) x []) v := by
  rw [(max_by_expr hv.wp hK hlex).2 d, hv.eval]; rfl

theorem min_by_expr_val (hv : Evals E eE d v) (hK : WellPrec K) (hlex : Lexes e (toks2 minByTok E K)) :
    search e d = arrayMinBy (fun x => ieval d (erase K) x []) v := by
  rw [(min_by_expr hv.wp hK hlex).2 d, hv.eval]; rfl

end Vals

section Examples
/-- `{"a": [3, 1, 2]}` -/
private def docA : Val := .obj [(bs "a", .arr .plain [C13C.jn (bs "3"), C13C.jn (bs "1"), C13C.jn (bs "2")])]

private theorem evals_a : Evals (idt "a") (bs "a") docA
    (.arr .plain [C13C.jn (bs "3"), C13C.jn (bs "1"), C13C.jn (bs "2")]) :=
  ⟨by decide, by decide, ((text (t := idt "a") (by decide) (by decide)).2 docA).trans rfl⟩

/-- `sort(a)` on `{"a": [3, 1, 2]}` is `sort` of the array `[3, 1, 2]`; `max(a)` is its `max` -/
example : search (bs "sort(a)") docA = sortArray (.arr .plain [C13C.jn (bs "3"), C13C.jn (bs "1"), C13C.jn (bs "2")]) :=
  sort_expr_val evals_a (by decide)
example : search (bs "max(a)") docA = arrayMax (.arr .plain [C13C.jn (bs "3"), C13C.jn (bs "1"), C13C.jn (bs "2")]) :=
  max_expr_val evals_a (by decide)
example : search (bs "sort_by(a, &@)") docA =
    sortArrayBy (fun x => ieval docA .current x []) (.arr .plain [C13C.jn (bs "3"), C13C.jn (bs "1"), C13C.jn (bs "2")]) :=
  sort_by_expr_val (K := .atom tCur) evals_a (by decide) (by decide)
end Examples

/-! ## 1. `sort` on numbers, ties across spellings included: the set of possible results -/

/-- **the possible results of `sort` on the number array `xs`**: Go sorts with an unstable algorithm
    (`slices.SortFunc`), so what is specified is "a plain array holding a permutation of `xs` in non-decreasing order
    of value" (`C13B.SortedPerm`) — when two members are equal in value but differ in spelling there are several -/
def SortResult (xs : List Val) (r : Val) : Prop := ∃ ys, r = .arr .plain ys ∧ C13B.SortedPerm xs ys

/-- two members equal in value (`decimal128.Compare = 0`) that are different Go values, e.g. `1` and `1.0` -/
def HasTie (xs : List Val) : Prop :=
  ∃ a ∈ xs, ∃ b ∈ xs, a ≠ b ∧ Dec.compare (C13B.valOf a) (C13B.valOf b) = 0

/-- **the model declines (`.nondet`) exactly on the arrays with a tie across spellings** -/
theorem sortArray_nondet_iff {t : ATag} {xs : List Val} {ds : List Dec} (hne : xs ≠ [])
    (hd : allDecimals xs = some ds) : sortArray (.arr t xs) = .nondet ↔ HasTie xs := by
  cases xs with
  | nil => exact absurd rfl hne
  | cons x rest =>
    have hx := not_isStr_of_allDecimals hd
    rw [C13B.sortArray_numbers_eq hx hd]
    cases ht : hasAmbiguousTie (((x :: rest).zip ds).mergeSort nle) with
    | false =>
      simp only [Bool.false_eq_true, if_false]
      refine ⟨fun h => (by cases h), ?_⟩
      rintro ⟨a, ha, b, hb, hab, hc⟩
      exact absurd (C13B.tieFree_of_no_tie hd ht a ha b hb hc) hab
    | true =>
      simp only [if_true, true_iff]
      obtain ⟨pre, a, b, post, e, hc, hab⟩ := (C13B.hasAmbiguousTie_iff _).mp ht
      have ha : a.2 = C13B.valOf a.1 := C13B.sorted_snd hd a (by rw [e]; simp)
      have hb : b.2 = C13B.valOf b.1 := C13B.sorted_snd hd b (by rw [e]; simp)
      have hmem : ∀ p ∈ ((x :: rest).zip ds).mergeSort nle, p.1 ∈ x :: rest := by
        intro p hp
        rw [List.mem_mergeSort] at hp
        exact (List.of_mem_zip hp).1
      exact ⟨a.1, hmem a (by rw [e]; simp), b.1, hmem b (by rw [e]; simp), hab, by rw [← ha, ← hb]; exact hc⟩

/-- **`sort` on an array of numbers, as a set of possible results** (any tag, any length ≥ 1):
    * the merge sort by value is a possible result (the set is never empty);
    * either there is no tie, the model answers `.ok` with it, and it is the ONLY possible result;
      or there is a tie, the model answers `.nondet`, and there are at least two different possible results;
    * any two possible results have the same length and agree in value position by position (they differ only by
      swapping value-equal members). -/
theorem sortArray_set {t : ATag} {xs : List Val} {ds : List Dec} (hne : xs ≠ []) (hd : allDecimals xs = some ds) :
    SortResult xs (.arr .plain (xs.mergeSort C13B.vle)) ∧
    ((¬ HasTie xs ∧ sortArray (.arr t xs) = .ok (.arr .plain (xs.mergeSort C13B.vle)) ∧
        ∀ r, SortResult xs r → r = .arr .plain (xs.mergeSort C13B.vle)) ∨
     (HasTie xs ∧ sortArray (.arr t xs) = .nondet ∧ ∃ r1 r2, SortResult xs r1 ∧ SortResult xs r2 ∧ r1 ≠ r2)) ∧
    (∀ ys zs, C13B.SortedPerm xs ys → C13B.SortedPerm xs zs → ys.length = zs.length ∧
      ∀ (i : Nat) (h1 : i < ys.length) (h2 : i < zs.length),
        Dec.compare (C13B.valOf ys[i]) (C13B.valOf zs[i]) = 0) := by
  have hiff := sortArray_nondet_iff (t := t) hne hd
  cases xs with
  | nil => exact absurd rfl hne
  | cons x rest =>
    have hx := not_isStr_of_allDecimals hd
    obtain ⟨h1, h2, h3, h4⟩ := C13B.sortArray_tie_spec (t := t) hx hd
    refine ⟨⟨_, rfl, C13B.sortedPerm_mergeSort _⟩, ?_, h4⟩
    rcases h1 with hok | hnd
    · left
      refine ⟨fun ht => ?_, hok, ?_⟩
      · rw [hiff.mpr ht] at hok; cases hok
      · rintro r ⟨ys, rfl, hys⟩
        rw [(h2 _ hok).2 ys hys]
    · right
      obtain ⟨-, ys, zs, hy, hz, hne'⟩ := h3 hnd
      exact ⟨hiff.mp hnd, hnd, .arr .plain ys, .arr .plain zs, ⟨ys, rfl, hy⟩, ⟨zs, rfl, hz⟩,
        fun h => hne' (by cases h; rfl)⟩

/-- **the text `sort(E)` on an array of numbers, ties included** — `sortArray_set` for `search`: when `E` evaluates to
    the non-empty number array `xs`, either `xs` has no tie and `search` answers `.ok` with the only value-sorted
    permutation of `xs`, or `xs` has a tie (e.g. `1` and `1.0`), `search` answers `.nondet`, and this MEANS: the
    result Go returns is one of the (at least two) value-sorted permutations of `xs`, which all agree in value at every
    position. -/
theorem sort_expr_set {E : PTree} {eE e : Bytes} {d : Val} {t : ATag} {xs : List Val} {ds : List Dec}
    (hv : Evals E eE d (.arr t xs)) (hlex : Lexes e (toks1 sortTok E)) (hne : xs ≠ [])
    (hd : allDecimals xs = some ds) :
    SortResult xs (.arr .plain (xs.mergeSort C13B.vle)) ∧
    ((¬ HasTie xs ∧ search e d = .ok (.arr .plain (xs.mergeSort C13B.vle)) ∧
        ∀ r, SortResult xs r → r = .arr .plain (xs.mergeSort C13B.vle)) ∨
     (HasTie xs ∧ search e d = .nondet ∧ ∃ r1 r2, SortResult xs r1 ∧ SortResult xs r2 ∧ r1 ≠ r2)) ∧
    (∀ ys zs, C13B.SortedPerm xs ys → C13B.SortedPerm xs zs → ys.length = zs.length ∧
      ∀ (i : Nat) (h1 : i < ys.length) (h2 : i < zs.length),
        Dec.compare (C13B.valOf ys[i]) (C13B.valOf zs[i]) = 0) := by
  rw [sort_expr_val hv hlex]
  exact sortArray_set hne hd

/-- the tokens of `sort(@)` -/
theorem toks1_cur (name : Token) : toks1 name (.atom tCur) = [name, tLParen, tCur, tRParen] := rfl

/-- **the text `sort(@)` on a number array document, ties included** -/
theorem sort_text_set {e : Bytes} (hlex : Lexes e [sortTok, tLParen, tCur, tRParen]) (t : ATag) {xs : List Val}
    {ds : List Dec} (hne : xs ≠ []) (hd : allDecimals xs = some ds) :
    SortResult xs (.arr .plain (xs.mergeSort C13B.vle)) ∧
    ((¬ HasTie xs ∧ search e (.arr t xs) = .ok (.arr .plain (xs.mergeSort C13B.vle)) ∧
        ∀ r, SortResult xs r → r = .arr .plain (xs.mergeSort C13B.vle)) ∨
     (HasTie xs ∧ search e (.arr t xs) = .nondet ∧ ∃ r1 r2, SortResult xs r1 ∧ SortResult xs r2 ∧ r1 ≠ r2)) ∧
    (∀ ys zs, C13B.SortedPerm xs ys → C13B.SortedPerm xs zs → ys.length = zs.length ∧
      ∀ (i : Nat) (h1 : i < ys.length) (h2 : i < zs.length),
        Dec.compare (C13B.valOf ys[i]) (C13B.valOf zs[i]) = 0) :=
  sort_expr_set (evals_cur _) (hlex.congr (toks1_cur sortTok).symm) hne hd

/-- `search "sort(@)"` is `.nondet` exactly on the number arrays with a tie, `.ok` exactly on those without -/
theorem sort_text_nondet_iff {e : Bytes} (hlex : Lexes e [sortTok, tLParen, tCur, tRParen]) (t : ATag) {xs : List Val}
    {ds : List Dec} (hne : xs ≠ []) (hd : allDecimals xs = some ds) :
    (search e (.arr t xs) = .nondet ↔ HasTie xs) ∧ ((∃ r, search e (.arr t xs) = .ok r) ↔ ¬ HasTie xs) := by
  obtain ⟨-, h | h, -⟩ := sort_text_set hlex t hne hd
  · refine ⟨⟨fun h' => ?_, fun h' => absurd h' h.1⟩, ⟨fun _ => h.1, fun _ => ⟨_, h.2.1⟩⟩⟩
    rw [h.2.1] at h'; cases h'
  · refine ⟨⟨fun _ => h.1, fun _ => h.2.1⟩, ⟨?_, fun h' => absurd h.1 h'⟩⟩
    rintro ⟨r, hr⟩
    rw [h.2.1] at hr; cases hr

/-- **the text `sort(E)` on an array of strings** is always definite: the only permutation in byte (= code point)
    order -/
theorem sort_expr_strings {E : PTree} {eE e : Bytes} {d : Val} {t : ATag} {ss : List Bytes}
    (hv : Evals E eE d (.arr t (ss.map Val.str))) (hlex : Lexes e (toks1 sortTok E)) (hne : ss ≠ []) :
    ∃ us : List Bytes, search e d = .ok (.arr .plain (us.map Val.str)) ∧ us.Perm ss ∧
      us.Pairwise (fun a b => bytesLt b a = false) ∧
      ∀ zs : List Bytes, zs.Perm ss → zs.Pairwise (fun a b => bytesLt b a = false) → zs = us := by
  rw [sort_expr_val hv hlex]
  obtain ⟨h1, -, h3⟩ := sortArray_strings_spec (t := t) hne
  exact ⟨_, h1, List.mergeSort_perm _ _, h3, fun zs hp hs => C13B.sortArray_strings_unique hp hs⟩

section Examples

private abbrev J (s : String) : Val := C13C.jn (bs s)
private theorem J_ne {s u : String} (h : bs s ≠ bs u) : J s ≠ J u := by
  intro e; injection e with e; injection e with e; exact h e

private theorem d1 : toDecimal (J "1") = some (.fin false 1 0) := by decide
private theorem d1p : toDecimal (J "1.0") = some (.fin false 1 0) := by decide
private theorem c11 : Dec.compare (.fin false 1 0) (.fin false 1 0) = 0 := by decide

private theorem tie_1_1p : HasTie [J "1", J "1.0"] :=
  ⟨J "1", by simp, J "1.0", by simp, J_ne (by decide), by simp [C13B.valOf, d1, d1p, c11]⟩

/-- **`sort(@)` on `[1, 1.0]`**: the model declines, and both `[1, 1.0]` and `[1.0, 1]` are possible results -/
example : search (bs "sort(@)") (.arr .plain [J "1", J "1.0"]) = .nondet ∧
    SortResult [J "1", J "1.0"] (.arr .plain [J "1", J "1.0"]) ∧
    SortResult [J "1", J "1.0"] (.arr .plain [J "1.0", J "1"]) := by
  refine ⟨((sort_text_nondet_iff (ds := [.fin false 1 0, .fin false 1 0]) (by decide) .plain (by simp)
      (by simp [allDecimals, d1, d1p])).1).mpr tie_1_1p,
    ⟨_, rfl, List.Perm.refl _, ?_⟩, ⟨_, rfl, List.Perm.swap _ _ _, ?_⟩⟩ <;>
  simp [C13B.vle, C13B.valOf, d1, d1p, c11]

/-- **`sort(@)` on `[1e-6177, 0]`**: the first text is too small to be told from zero, so the two are tied -/
example : search (bs "sort(@)") (.arr .plain [J "1e-6177", J "0"]) = .nondet := by
  have t1 : toDecimal (J "1e-6177") = some (.fin false 0 0) := by decide
  have t2 : toDecimal (J "0") = some (.fin false 0 0) := by decide
  have c : Dec.compare (.fin false 0 0) (.fin false 0 0) = 0 := by decide
  refine ((sort_text_nondet_iff (ds := [.fin false 0 0, .fin false 0 0]) (by decide) .plain (by simp)
    (by simp [allDecimals, t1, t2])).1).mpr ?_
  exact ⟨J "1e-6177", by simp, J "0", by simp, J_ne (by decide), by simp [C13B.valOf, t1, t2, c]⟩

/-- without a tie the answer is definite and unique: `sort(@)` on `[2, 1.0]` -/
example : ∃ r, search (bs "sort(@)") (.arr .plain [J "2", J "1.0"]) = .ok r := by
  have d2 : toDecimal (J "2") = some (.fin false 2 0) := by decide
  have c21 : Dec.compare (.fin false 2 0) (.fin false 1 0) = 1 := by decide
  have c12 : Dec.compare (.fin false 1 0) (.fin false 2 0) = -1 := by decide
  refine ((sort_text_nondet_iff (ds := [.fin false 2 0, .fin false 1 0]) (by decide) .plain (by simp)
    (by simp [allDecimals, d2, d1p])).2).mpr ?_
  rintro ⟨a, ha, b, hb, hab, hc⟩
  simp only [List.mem_cons, List.mem_nil_iff, or_false] at ha hb
  rcases ha with rfl | rfl <;> rcases hb with rfl | rfl <;>
    simp [C13B.valOf, d2, d1p, c21, c12] at hab hc
end Examples

/-! ## 2. `sort_by` is definite under ties; mixed keys are exactly the errors -/

/-- the sort keys of a list of key values: all strings, or all numbers (by decimal value); `none` when they mix -/
def keyList (vs : List Val) : Option (List Key) :=
  match allStrings vs with
  | some ss => some (ss.map Key.s)
  | none => (allDecimals vs).map (fun ds => ds.map Key.n)

theorem keyList_none_iff {vs : List Val} : keyList vs = none ↔ Mixed vs := by
  unfold keyList Mixed
  cases allStrings vs <;> cases allDecimals vs <;> simp

section KeyFn
variable {f : Val → Res Val} {g : Val → Val} {xs : List Val}

/-- **`keysOf` when every key evaluation succeeds** (`g x` is the value of the key expression on `x`) -/
theorem keysOf_total (hg : ∀ x ∈ xs, f x = .ok (g x)) :
    keysOf f xs = match keyList (xs.map g) with
      | some ks => .ok ks
      | none => .err [Cat.invalidType] := by
  unfold keyList
  cases hs : allStrings (xs.map g) with
  | some ss => exact keysOf_strs hg hs
  | none =>
    cases hd : allDecimals (xs.map g) with
    | some ds => exact keysOf_nums hg hd
    | none => exact keysOf_mixed hg ⟨hs, hd⟩

/-- **`sort_by`, totally, when every key evaluation succeeds**: the stable sort by the keys, or invalid-type when
    the keys mix; `.nondet` only for a map-ordered array with keys that are not pairwise distinct — never for a
    plain array, whatever ties the keys have -/
theorem sortArrayBy_total (t : ATag) (hne : xs ≠ []) (hg : ∀ x ∈ xs, f x = .ok (g x)) :
    sortArrayBy f (.arr t xs) = match keyList (xs.map g) with
      | some ks => if enum2 t xs && !keysDistinct ks then .nondet else .ok (.arr .plain (sortByKeys xs ks))
      | none => .err [Cat.invalidType] := by
  cases xs with
  | nil => exact absurd rfl hne
  | cons x rest =>
    unfold sortArrayBy
    simp only [List.isEmpty_cons, Bool.false_eq_true, if_false]
    rw [keysOf_total hg]
    cases keyList ((x :: rest).map g) with
    | none => exact C13B.widen_invalidType_of_ok (fun y hy => ⟨_, hg y hy⟩)
    | some ks =>
      simp only [Res.ok_bind]
      split <;> rfl

theorem sortArrayBy_plain_total (hne : xs ≠ []) (hg : ∀ x ∈ xs, f x = .ok (g x)) :
    sortArrayBy f (.arr .plain xs) = match keyList (xs.map g) with
      | some ks => .ok (.arr .plain (sortByKeys xs ks))
      | none => .err [Cat.invalidType] := by
  rw [sortArrayBy_total .plain hne hg]
  cases keyList (xs.map g) <;> simp [enum2_plain]

/-- `max_by` / `min_by` when every key evaluation succeeds: invalid-type exactly when the keys mix; otherwise an
    answer (`.nondet` only for a map-ordered array) -/
theorem arrayPickBy_cases (better : Key → Key → Bool) (t : ATag) (hne : xs ≠ [])
    (hg : ∀ x ∈ xs, f x = .ok (g x)) :
    (Mixed (xs.map g) ∧ arrayPickBy better f (.arr t xs) = .err [Cat.invalidType]) ∨
    (¬ Mixed (xs.map g) ∧ ((∃ v, arrayPickBy better f (.arr t xs) = .ok v) ∨
      (enum2 t xs = true ∧ arrayPickBy better f (.arr t xs) = .nondet))) := by
  cases xs with
  | nil => exact absurd rfl hne
  | cons x rest =>
    unfold arrayPickBy
    simp only
    rw [keysOf_total hg]
    cases hk : keyList ((x :: rest).map g) with
    | none =>
      exact .inl ⟨keyList_none_iff.mp hk, C13B.widen_invalidType_of_ok (fun y hy => ⟨_, hg y hy⟩)⟩
    | some ks =>
      refine .inr ⟨fun hm => (by rw [keyList_none_iff.mpr hm] at hk; cases hk), ?_⟩
      simp only [Res.ok_bind]
      cases ks with
      | nil => exact .inl ⟨_, rfl⟩
      | cons k0 krest =>
        simp only
        by_cases hc : (enum2 t (x :: rest) && !uniqueExtremum better (k0 :: krest)) = true
        · rw [if_pos hc]
          exact .inr ⟨by simp only [Bool.and_eq_true] at hc; exact hc.1, rfl⟩
        · rw [if_neg hc]
          exact .inl ⟨_, rfl⟩

end KeyFn

section SortByText
variable {E K : PTree} {eE e : Bytes} {d : Val} {xs : List Val} {g : Val → Val}

/-- **the text `sort_by(E, &K)` on a plain array, totally**: when `E` evaluates to the non-empty plain array `xs` (a
    decoded JSON array; anything but the result of `values(…)` and its derivatives) and `K` evaluates on every element
    (`g x` is its value on `x`), `search` is `.ok` of the stable sort by the keys when they are all strings or all
    numbers, and the invalid-type error otherwise.  It is never `.nondet`: unlike `sort`, `sort_by` is definite
    whatever ties the keys have. -/
theorem sort_by_expr_total (hv : Evals E eE d (.arr .plain xs)) (hK : WellPrec K)
    (hlex : Lexes e (toks2 sortByTok E K)) (hne : xs ≠ []) (hg : ∀ x ∈ xs, ieval d (erase K) x [] = .ok (g x)) :
    search e d = match keyList (xs.map g) with
      | some ks => .ok (.arr .plain (sortByKeys xs ks))
      | none => .err [Cat.invalidType] := by
  rw [sort_by_expr_val hv hK hlex]
  exact sortArrayBy_plain_total hne hg

/-- **`sort_by(E, &K)` with ties among the keys (e.g. `1` and `1.0`): the UNIQUE answer is the stable arrangement.**
    With keys `ks` (all strings or all numbers; `ks[i]` is the key of `g xs[i]`), there is a permutation `σ` of the
    indices such that `search` is `.ok` of `xs` read in the order `σ`, the keys read in the order `σ` never decrease,
    and whenever `i < j` and `ks[j]` is not smaller than `ks[i]` — in particular when they are equal in value —
    index `i` comes before index `j`. -/
theorem sort_by_expr_ties (hv : Evals E eE d (.arr .plain xs)) (hK : WellPrec K)
    (hlex : Lexes e (toks2 sortByTok E K)) (hne : xs ≠ []) (hg : ∀ x ∈ xs, ieval d (erase K) x [] = .ok (g x))
    {ks : List Key} (hk : keyList (xs.map g) = some ks) :
    ks.length = xs.length ∧ Key.Homog ks ∧
    (∀ (i : Nat) (hi : i < xs.length) (hk : i < ks.length), keyOfVal (g xs[i]) = some ks[i]) ∧
    ∃ σ : List Nat, σ.Perm (List.range xs.length) ∧
      search e d = .ok (.arr .plain (σ.map (fun i => xs.getD i .null))) ∧
      (σ.map (fun i => ks.getD i (Key.s []))).Pairwise (fun a b => Key.lt b a = false) ∧
      ∀ (i j : Nat) (hij : i < j) (hj : j < ks.length), Key.lt ks[j] ks[i] = false → σ.idxOf i < σ.idxOf j := by
  have hko : keysOf (fun x => ieval d (erase K) x []) xs = .ok ks := by rw [keysOf_total hg, hk]
  obtain ⟨hl, hh⟩ := keysOf_ok hko
  refine ⟨hl, hh, fun i hi hk' => ?_, ?_⟩
  · obtain ⟨v, hv', hkv⟩ := keysOf_get hko i hi hk'
    rw [hg _ (List.getElem_mem hi)] at hv'
    cases hv'
    exact hkv
  · obtain ⟨σ, h1, h2, h3, h4⟩ := C13B.sortByKeys_stable_positions xs ks hl.symm hh
    refine ⟨σ, h1, ?_, h3, h4⟩
    rw [sort_by_expr_total hv hK hlex hne hg, hk]
    simp only [h2]

/-- **mixed keys are exactly the errors of `sort_by(E, &K)`** (any array tag): when every key evaluation succeeds,
    `search` is an error iff the key values are neither all strings nor all numbers, and the error is invalid-type -/
theorem sort_by_expr_err_iff {t : ATag} (hv : Evals E eE d (.arr t xs)) (hK : WellPrec K)
    (hlex : Lexes e (toks2 sortByTok E K)) (hne : xs ≠ []) (hg : ∀ x ∈ xs, ieval d (erase K) x [] = .ok (g x)) :
    ((∃ c, search e d = .err c) ↔ Mixed (xs.map g)) ∧ (Mixed (xs.map g) → search e d = .err [Cat.invalidType]) := by
  rw [sort_by_expr_val hv hK hlex, sortArrayBy_total t hne hg]
  cases hk : keyList (xs.map g) with
  | none =>
    have hm := keyList_none_iff.mp hk
    exact ⟨⟨fun _ => hm, fun _ => ⟨_, rfl⟩⟩, fun _ => rfl⟩
  | some ks =>
    have hm : ¬ Mixed (xs.map g) := fun hm => by rw [keyList_none_iff.mpr hm] at hk; cases hk
    refine ⟨⟨?_, fun h => absurd h hm⟩, fun h => absurd h hm⟩
    rintro ⟨c, hc⟩
    simp only at hc
    split at hc <;> cases hc

/-- the same for `max_by(E, &K)` -/
theorem max_by_expr_err_iff {t : ATag} (hv : Evals E eE d (.arr t xs)) (hK : WellPrec K)
    (hlex : Lexes e (toks2 maxByTok E K)) (hne : xs ≠ []) (hg : ∀ x ∈ xs, ieval d (erase K) x [] = .ok (g x)) :
    ((∃ c, search e d = .err c) ↔ Mixed (xs.map g)) ∧ (Mixed (xs.map g) → search e d = .err [Cat.invalidType]) := by
  rw [max_by_expr_val hv hK hlex]
  rcases arrayPickBy_cases Key.gtMax t hne hg with ⟨hm, h⟩ | ⟨hm, ⟨v, h⟩ | ⟨_, h⟩⟩
  · exact ⟨⟨fun _ => hm, fun _ => ⟨_, h⟩⟩, fun _ => h⟩
  · refine ⟨⟨?_, fun h' => absurd h' hm⟩, fun h' => absurd h' hm⟩
    rintro ⟨c, hc⟩
    rw [show arrayMaxBy = arrayPickBy Key.gtMax from rfl, h] at hc; cases hc
  · refine ⟨⟨?_, fun h' => absurd h' hm⟩, fun h' => absurd h' hm⟩
    rintro ⟨c, hc⟩
    rw [show arrayMaxBy = arrayPickBy Key.gtMax from rfl, h] at hc; cases hc

/-- the same for `min_by(E, &K)` -/
theorem min_by_expr_err_iff {t : ATag} (hv : Evals E eE d (.arr t xs)) (hK : WellPrec K)
    (hlex : Lexes e (toks2 minByTok E K)) (hne : xs ≠ []) (hg : ∀ x ∈ xs, ieval d (erase K) x [] = .ok (g x)) :
    ((∃ c, search e d = .err c) ↔ Mixed (xs.map g)) ∧ (Mixed (xs.map g) → search e d = .err [Cat.invalidType]) := by
  rw [min_by_expr_val hv hK hlex]
  rcases arrayPickBy_cases Key.ltMin t hne hg with ⟨hm, h⟩ | ⟨hm, ⟨v, h⟩ | ⟨_, h⟩⟩
  · exact ⟨⟨fun _ => hm, fun _ => ⟨_, h⟩⟩, fun _ => h⟩
  · refine ⟨⟨?_, fun h' => absurd h' hm⟩, fun h' => absurd h' hm⟩
    rintro ⟨c, hc⟩
    rw [show arrayMinBy = arrayPickBy Key.ltMin from rfl, h] at hc; cases hc
  · refine ⟨⟨?_, fun h' => absurd h' hm⟩, fun h' => absurd h' hm⟩
    rintro ⟨c, hc⟩
    rw [show arrayMinBy = arrayPickBy Key.ltMin from rfl, h] at hc; cases hc

/-- **`max_by(E, &K)` on a plain array whose keys do not mix ANSWERS, with the first element of maximal key** (an
    element of the array itself, not a copy or a normalised value) -/
theorem max_by_expr_total (hv : Evals E eE d (.arr .plain xs)) (hK : WellPrec K)
    (hlex : Lexes e (toks2 maxByTok E K)) (hne : xs ≠ []) (hg : ∀ x ∈ xs, ieval d (erase K) x [] = .ok (g x))
    {ks : List Key} (hk : keyList (xs.map g) = some ks) :
    ks.length = xs.length ∧
    (∀ (i : Nat) (hi : i < xs.length) (hk : i < ks.length), keyOfVal (g xs[i]) = some ks[i]) ∧
    ∃ (i : Nat) (hi : i < xs.length) (hk : i < ks.length), search e d = .ok xs[i] ∧
      (∀ (j : Nat) (hj : j < ks.length), Key.gtMax ks[j] ks[i] = false) ∧
      ((∀ k' ∈ ks, k'.notNaN) → ∀ (j : Nat) (hj : j < i), Key.gtMax ks[i] (ks[j]'(by omega)) = true) := by
  have hko : keysOf (fun x => ieval d (erase K) x []) xs = .ok ks := by rw [keysOf_total hg, hk]
  have hm : ¬ Mixed (xs.map g) := fun hm => by rw [keyList_none_iff.mpr hm] at hk; cases hk
  rw [max_by_expr_val hv hK hlex]
  rcases arrayPickBy_cases Key.gtMax .plain hne hg with ⟨hm', _⟩ | ⟨_, ⟨v, h⟩ | ⟨he, _⟩⟩
  · exact absurd hm' hm
  · obtain ⟨ks', hks', hl, i, hi, hki, hvi, h1, h2⟩ := C13B.arrayMaxBy_first hne h
    rw [hko] at hks'; cases hks'
    refine ⟨hl, fun i hi hk' => ?_, i, hi, hki, by rw [show arrayMaxBy = arrayPickBy Key.gtMax from rfl, h, hvi], h1, h2⟩
    obtain ⟨w, hw, hkw⟩ := keysOf_get hko i hi hk'
    rw [hg _ (List.getElem_mem hi)] at hw
    cases hw
    exact hkw
  · rw [enum2_plain] at he; cases he

/-- **`min_by(E, &K)`**, dually: the first element of minimal key -/
theorem min_by_expr_total (hv : Evals E eE d (.arr .plain xs)) (hK : WellPrec K)
    (hlex : Lexes e (toks2 minByTok E K)) (hne : xs ≠ []) (hg : ∀ x ∈ xs, ieval d (erase K) x [] = .ok (g x))
    {ks : List Key} (hk : keyList (xs.map g) = some ks) :
    ks.length = xs.length ∧
    (∀ (i : Nat) (hi : i < xs.length) (hk : i < ks.length), keyOfVal (g xs[i]) = some ks[i]) ∧
    ∃ (i : Nat) (hi : i < xs.length) (hk : i < ks.length), search e d = .ok xs[i] ∧
      (∀ (j : Nat) (hj : j < ks.length), Key.ltMin ks[j] ks[i] = false) ∧
      ((∀ k' ∈ ks, k'.notNaN) → ∀ (j : Nat) (hj : j < i), Key.ltMin ks[i] (ks[j]'(by omega)) = true) := by
  have hko : keysOf (fun x => ieval d (erase K) x []) xs = .ok ks := by rw [keysOf_total hg, hk]
  have hm : ¬ Mixed (xs.map g) := fun hm => by rw [keyList_none_iff.mpr hm] at hk; cases hk
  rw [min_by_expr_val hv hK hlex]
  rcases arrayPickBy_cases Key.ltMin .plain hne hg with ⟨hm', _⟩ | ⟨_, ⟨v, h⟩ | ⟨he, _⟩⟩
  · exact absurd hm' hm
  · obtain ⟨ks', hks', hl, i, hi, hki, hvi, h1, h2⟩ := C13B.arrayMinBy_first hne h
    rw [hko] at hks'; cases hks'
    refine ⟨hl, fun i hi hk' => ?_, i, hi, hki, by rw [show arrayMinBy = arrayPickBy Key.ltMin from rfl, h, hvi], h1, h2⟩
    obtain ⟨w, hw, hkw⟩ := keysOf_get hko i hi hk'
    rw [hg _ (List.getElem_mem hi)] at hw
    cases hw
    exact hkw
  · rw [enum2_plain] at he; cases he

end SortByText

section Examples

private theorem allStrings_J (s : String) (rest : List Val) : allStrings (J s :: rest) = none := rfl
private theorem mixed_1a : Mixed [J "1", .str (bs "a")] := ⟨rfl, by simp only [allDecimals, d1]; rfl⟩
private theorem kl11 : keyList ([J "1", J "1.0"].map id) = some [Key.n (.fin false 1 0), Key.n (.fin false 1 0)] := by
  simp [keyList, allStrings_J, allDecimals, d1, d1p]
private theorem kl11' : keyList ([J "1.0", J "1"].map id) = some [Key.n (.fin false 1 0), Key.n (.fin false 1 0)] := by
  simp [keyList, allStrings_J, allDecimals, d1, d1p]

/-- **`sort_by(@, &@)` on `[1, 1.0]` is `[1, 1.0]` and on `[1.0, 1]` is `[1.0, 1]`**: the tied elements keep their
    input order, definitely — where `sort(@)` on the same documents is `.nondet` -/
example : search (bs "sort_by(@, &@)") (.arr .plain [J "1", J "1.0"]) = .ok (.arr .plain [J "1", J "1.0"]) ∧
    search (bs "sort_by(@, &@)") (.arr .plain [J "1.0", J "1"]) = .ok (.arr .plain [J "1.0", J "1"]) := by
  constructor
  · rw [sort_by_expr_total (K := .atom tCur) (g := id) (evals_cur _) (by decide) (by decide) (by simp)
      (fun x _ => rfl), kl11]
    simp [sortByKeys, List.mergeSort, List.MergeSort.Internal.splitInTwo, Key.lt, c11]
  · rw [sort_by_expr_total (K := .atom tCur) (g := id) (evals_cur _) (by decide) (by decide) (by simp)
      (fun x _ => rfl), kl11']
    simp [sortByKeys, List.mergeSort, List.MergeSort.Internal.splitInTwo, Key.lt, c11]

/-- the theorem on `[1, 1.0]`: index 0 is placed before index 1 -/
example : ∃ σ : List Nat, σ.Perm (List.range 2) ∧
    search (bs "sort_by(@, &@)") (.arr .plain [J "1", J "1.0"]) =
      .ok (.arr .plain (σ.map (fun i => [J "1", J "1.0"].getD i .null))) ∧ σ.idxOf 0 < σ.idxOf 1 := by
  obtain ⟨-, -, -, σ, h1, h2, -, h4⟩ := sort_by_expr_ties (K := .atom tCur) (g := id) (evals_cur _) (by decide)
    (e := bs "sort_by(@, &@)") (by decide) (by simp) (fun x _ => rfl) kl11
  exact ⟨σ, h1, h2, h4 0 1 (by decide) (by decide) (by simp [Key.lt, c11])⟩

/-- mixed keys: `sort_by(@, &@)`, `max_by(@, &@)`, `min_by(@, &@)` on `[1, "a"]` are invalid-type errors -/
example : search (bs "sort_by(@, &@)") (.arr .plain [J "1", .str (bs "a")]) = .err [Cat.invalidType] ∧
    search (bs "max_by(@, &@)") (.arr .plain [J "1", .str (bs "a")]) = .err [Cat.invalidType] ∧
    search (bs "min_by(@, &@)") (.arr .plain [J "1", .str (bs "a")]) = .err [Cat.invalidType] := by
  have hm : Mixed ([J "1", .str (bs "a")].map id) := mixed_1a
  exact ⟨(sort_by_expr_err_iff (K := .atom tCur) (g := id) (evals_cur _) (by decide) (by decide) (by simp)
      (fun x _ => rfl)).2 hm,
    (max_by_expr_err_iff (K := .atom tCur) (g := id) (evals_cur _) (by decide) (by decide) (by simp)
      (fun x _ => rfl)).2 hm,
    (min_by_expr_err_iff (K := .atom tCur) (g := id) (evals_cur _) (by decide) (by decide) (by simp)
      (fun x _ => rfl)).2 hm⟩

/-- `max_by(@, &@)` on `[1, 1.0]` is the FIRST of the two tied elements, the `json.Number` `1` itself -/
example : search (bs "max_by(@, &@)") (.arr .plain [J "1", J "1.0"]) = .ok (J "1") := by
  obtain ⟨-, -, i, hi, hki, h, -, h2⟩ := max_by_expr_total (K := .atom tCur) (g := id) (evals_cur _) (by decide)
    (e := bs "max_by(@, &@)") (by decide) (by simp) (fun x _ => rfl) kl11
  have : i = 0 := by
    apply Classical.byContradiction
    intro hne
    have hi' : i = 1 := by simp at hi; omega
    subst hi'
    have := h2 (by simp [Key.notNaN, Dec.isNaN]) 0 (by decide)
    have hf : Dec.greater (.fin false 1 0) (.fin false 1 0) = false := by decide
    simp [Key.gtMax, hf] at this
  subst this
  exact h
end Examples

section Examples
/-- fourteen spellings of 2 and 1, interleaved: `[2, 1, 2.0, 1.0, 2.00, 1.00, 2e0, 1e0, 20e-1, 10e-1, 0.2e1, 0.1e1,
    2.000, 1.000]` — longer than the 12-element threshold under which Go's unstable sort is an insertion sort -/
private def doc14 : List Val :=
  [J "2", J "1", J "2.0", J "1.0", J "2.00", J "1.00", J "2e0", J "1e0", J "20e-1", J "10e-1", J "0.2e1", J "0.1e1",
   J "2.000", J "1.000"]

private def k1 : Key := Key.n (.fin false 1 0)
private def k2 : Key := Key.n (.fin false 2 0)

private theorem kl14 : keyList (doc14.map id) = some [k2, k1, k2, k1, k2, k1, k2, k1, k2, k1, k2, k1, k2, k1] := by
  have e1 : toDecimal (J "2") = some (.fin false 2 0) := by decide
  have e2 : toDecimal (J "2.0") = some (.fin false 2 0) := by decide
  have e3 : toDecimal (J "2.00") = some (.fin false 2 0) := by decide
  have e4 : toDecimal (J "2e0") = some (.fin false 2 0) := by decide
  have e5 : toDecimal (J "20e-1") = some (.fin false 2 0) := by decide
  have e6 : toDecimal (J "0.2e1") = some (.fin false 2 0) := by decide
  have e7 : toDecimal (J "2.000") = some (.fin false 2 0) := by decide
  have f3 : toDecimal (J "1.00") = some (.fin false 1 0) := by decide
  have f4 : toDecimal (J "1e0") = some (.fin false 1 0) := by decide
  have f5 : toDecimal (J "10e-1") = some (.fin false 1 0) := by decide
  have f6 : toDecimal (J "0.1e1") = some (.fin false 1 0) := by decide
  have f7 : toDecimal (J "1.000") = some (.fin false 1 0) := by decide
  simp [keyList, doc14, allStrings_J, allDecimals, d1, d1p, e1, e2, e3, e4, e5, e6, e7, f3, f4, f5, f6, f7, k1, k2]

/-- **`sort_by(@, &@)` on that 14-element document**: the answer is definite; the seven spellings of 2 (even
    indices) stay in input order among themselves, and so do the seven spellings of 1 (odd indices) — e.g. index 0
    (`2`) is placed before index 12 (`2.000`), index 4 before index 6, index 1 (`1`) before index 13 (`1.000`) — and a
    `1` is placed before a later `2` (index 1 before index 2) -/
example : ∃ σ : List Nat, σ.Perm (List.range 14) ∧
    search (bs "sort_by(@, &@)") (.arr .plain doc14) = .ok (.arr .plain (σ.map (fun i => doc14.getD i .null))) ∧
    σ.idxOf 0 < σ.idxOf 12 ∧ σ.idxOf 1 < σ.idxOf 13 ∧ σ.idxOf 4 < σ.idxOf 6 ∧ σ.idxOf 1 < σ.idxOf 2 := by
  obtain ⟨-, -, -, σ, h1, h2, -, h4⟩ := sort_by_expr_ties (K := .atom tCur) (g := id) (evals_cur (.arr .plain doc14))
    (by decide) (e := bs "sort_by(@, &@)") (by decide) (by simp [doc14]) (fun x _ => rfl) kl14
  have c22 : Dec.compare (.fin false 2 0) (.fin false 2 0) = 0 := by decide
  have c12 : Dec.compare (.fin false 1 0) (.fin false 2 0) = -1 := by decide
  have c21 : Dec.compare (.fin false 2 0) (.fin false 1 0) = 1 := by decide
  exact ⟨σ, h1, h2, h4 0 12 (by decide) (by decide) (by simp [Key.lt, k2, c22]),
    h4 1 13 (by decide) (by decide) (by simp [Key.lt, k1, c11]),
    h4 4 6 (by decide) (by decide) (by simp [Key.lt, k2, c22]),
    h4 1 2 (by decide) (by decide) (by simp [Key.lt, k1, k2, c21])⟩

/-- … where `sort(@)` on the same document declines: `2` and `2.0` are tied -/
example : HasTie doc14 := by
  have e1 : toDecimal (J "2") = some (.fin false 2 0) := by decide
  have e2 : toDecimal (J "2.0") = some (.fin false 2 0) := by decide
  have c22 : Dec.compare (.fin false 2 0) (.fin false 2 0) = 0 := by decide
  exact ⟨J "2", by simp [doc14], J "2.0", by simp [doc14], J_ne (by decide), by simp [C13B.valOf, e1, e2, c22]⟩
end Examples

/-! ### `sort_by(E, &K)`, `max_by(E, &K)`, `min_by(E, &K)` whenever they answer (no assumption on the keys) -/

section ByAnswers
variable {E K : PTree} {eE e : Bytes} {d : Val} {t : ATag} {xs : List Val}

/-- **`sort_by(E, &K)` sorts stably, for arrays of any length and any tag**: `C13C.sort_by_text_stable` with an
    arbitrary array expression `E` in place of `@` -/
theorem sort_by_expr_stable (hv : Evals E eE d (.arr t xs)) (hK : WellPrec K) (hlex : Lexes e (toks2 sortByTok E K))
    (hne : xs ≠ []) {r : Val} (h : search e d = .ok r) :
    ∃ (ks : List Key) (σ : List Nat), ks.length = xs.length ∧ Key.Homog ks ∧
      (∀ (i : Nat) (hi : i < xs.length) (hk : i < ks.length),
        ∃ v, ieval d (erase K) xs[i] [] = .ok v ∧ keyOfVal v = some ks[i]) ∧
      σ.Perm (List.range xs.length) ∧
      r = .arr .plain (σ.map (fun i => xs.getD i .null)) ∧
      (σ.map (fun i => ks.getD i (Key.s []))).Pairwise (fun a b => Key.lt b a = false) ∧
      ∀ (i j : Nat) (hij : i < j) (hj : j < ks.length), Key.lt ks[j] ks[i] = false → σ.idxOf i < σ.idxOf j := by
  rw [sort_by_expr_val hv hK hlex] at h
  rcases sortArrayBy_ok_char h with ⟨h1, _⟩ | ⟨_, ks, hks, hl, hh, hr⟩
  · exact absurd h1 hne
  · obtain ⟨σ, h1, h2, h3, h4⟩ := C13B.sortByKeys_stable_positions xs ks hl.symm hh
    exact ⟨ks, σ, hl, hh, keysOf_get hks, h1, by rw [hr, h2], h3, h4⟩

/-- **`max_by(E, &K)` returns the FIRST element of the value of `E` with a maximal key** -/
theorem max_by_expr_first (hv : Evals E eE d (.arr t xs)) (hK : WellPrec K) (hlex : Lexes e (toks2 maxByTok E K))
    (hne : xs ≠ []) {v : Val} (h : search e d = .ok v) :
    ∃ ks : List Key, ks.length = xs.length ∧
      (∀ (i : Nat) (hi : i < xs.length) (hk : i < ks.length),
        ∃ w, ieval d (erase K) xs[i] [] = .ok w ∧ keyOfVal w = some ks[i]) ∧
      ∃ (i : Nat) (hi : i < xs.length) (hk : i < ks.length), v = xs[i] ∧
        (∀ (j : Nat) (hj : j < ks.length), Key.gtMax ks[j] ks[i] = false) ∧
        ((∀ k' ∈ ks, k'.notNaN) → ∀ (j : Nat) (hj : j < i), Key.gtMax ks[i] (ks[j]'(by omega)) = true) := by
  rw [max_by_expr_val hv hK hlex] at h
  obtain ⟨ks, hks, hl, i, hi, hk, hv', h1, h2⟩ := C13B.arrayMaxBy_first hne h
  exact ⟨ks, hl, keysOf_get hks, i, hi, hk, hv', h1, h2⟩

/-- **`min_by(E, &K)` returns the FIRST element of the value of `E` with a minimal key** -/
theorem min_by_expr_first (hv : Evals E eE d (.arr t xs)) (hK : WellPrec K) (hlex : Lexes e (toks2 minByTok E K))
    (hne : xs ≠ []) {v : Val} (h : search e d = .ok v) :
    ∃ ks : List Key, ks.length = xs.length ∧
      (∀ (i : Nat) (hi : i < xs.length) (hk : i < ks.length),
        ∃ w, ieval d (erase K) xs[i] [] = .ok w ∧ keyOfVal w = some ks[i]) ∧
      ∃ (i : Nat) (hi : i < xs.length) (hk : i < ks.length), v = xs[i] ∧
        (∀ (j : Nat) (hj : j < ks.length), Key.ltMin ks[j] ks[i] = false) ∧
        ((∀ k' ∈ ks, k'.notNaN) → ∀ (j : Nat) (hj : j < i), Key.ltMin ks[i] (ks[j]'(by omega)) = true) := by
  rw [min_by_expr_val hv hK hlex] at h
  obtain ⟨ks, hks, hl, i, hi, hk, hv', h1, h2⟩ := C13B.arrayMinBy_first hne h
  exact ⟨ks, hl, keysOf_get hks, i, hi, hk, hv', h1, h2⟩

/-- on the empty array `sort_by(E, &K)` returns the array itself, `max_by` / `min_by` null -/
theorem by_expr_empty {e2 e3 : Bytes} (hv : Evals E eE d (.arr t [])) (hK : WellPrec K)
    (h1 : Lexes e (toks2 sortByTok E K)) (h2 : Lexes e2 (toks2 maxByTok E K)) (h3 : Lexes e3 (toks2 minByTok E K)) :
    search e d = .ok (.arr t []) ∧ search e2 d = .ok .null ∧ search e3 d = .ok .null := by
  rw [sort_by_expr_val hv hK h1, max_by_expr_val hv hK h2, min_by_expr_val hv hK h3]
  exact ⟨rfl, rfl, rfl⟩

end ByAnswers

section Examples
/-- `{"a": [{"k": 2}, {"k": 1}, {"k": 2.0}]}` -/
private def docK : Val := .obj [(bs "a", .arr .plain [.obj [(bs "k", J "2")], .obj [(bs "k", J "1")],
  .obj [(bs "k", J "2.0")]])]

private theorem evals_ak : Evals (idt "a") (bs "a") docK
    (.arr .plain [.obj [(bs "k", J "2")], .obj [(bs "k", J "1")], .obj [(bs "k", J "2.0")]]) :=
  ⟨by decide, by decide, ((text (t := idt "a") (by decide) (by decide)).2 docK).trans rfl⟩

/-- `max_by(a, &k)` on `{"a": [{"k": 2}, {"k": 1}, {"k": 2.0}]}` is `{"k": 2}`, the first of the two elements with the
    greatest key; `sort_by(a, &k)` is `[{"k": 1}, {"k": 2}, {"k": 2.0}]` -/
example : search (bs "max_by(a, &k)") docK = .ok (.obj [(bs "k", J "2")]) ∧
    search (bs "sort_by(a, &k)") docK =
      .ok (.arr .plain [.obj [(bs "k", J "1")], .obj [(bs "k", J "2")], .obj [(bs "k", J "2.0")]]) := by
  have e1 : toDecimal (.num (.jnum (bs "2"))) = some (.fin false 2 0) := by decide
  have e2 : toDecimal (.num (.jnum (bs "2.0"))) = some (.fin false 2 0) := by decide
  have e3 : toDecimal (.num (.jnum (bs "1"))) = some (.fin false 1 0) := by decide
  have c22 : Dec.compare (.fin false 2 0) (.fin false 2 0) = 0 := by decide
  have c12 : Dec.compare (.fin false 1 0) (.fin false 2 0) = -1 := by decide
  have c21 : Dec.compare (.fin false 2 0) (.fin false 1 0) = 1 := by decide
  have g22 : Dec.greater (.fin false 2 0) (.fin false 2 0) = false := by decide
  have g12 : Dec.greater (.fin false 1 0) (.fin false 2 0) = false := by decide
  have hf : (fun x => ieval docK (erase (idt "k")) x []) = fun x => Res.ok (field (bs "k") x) := by
    funext x; rfl
  have f1 : field (bs "k") (.obj [(bs "k", .num (.jnum (bs "2")))]) = .num (.jnum (bs "2")) := rfl
  have f2 : field (bs "k") (.obj [(bs "k", .num (.jnum (bs "1")))]) = .num (.jnum (bs "1")) := rfl
  have f3 : field (bs "k") (.obj [(bs "k", .num (.jnum (bs "2.0")))]) = .num (.jnum (bs "2.0")) := rfl
  constructor
  · rw [max_by_expr_val (K := idt "k") evals_ak (by decide) (by decide), hf]
    simp [C13C.jn, arrayMaxBy, arrayPickBy, widen, enum2, keysOf, keysFrom, f1, f2, f3, e1, e2, e3, pickBy, Key.gtMax,
      g22, g12, uniqueExtremum]
  · rw [sort_by_expr_val (K := idt "k") evals_ak (by decide) (by decide), hf]
    simp [C13C.jn, sortArrayBy, widen, enum2, keysOf, keysFrom, f1, f2, f3, e1, e2, e3, sortByKeys, List.mergeSort,
      List.MergeSort.Internal.splitInTwo, Key.lt, c22, c12, c21]
end Examples

/-! ## 3. `max(E)` / `min(E)` on text -/

section MaxMin
variable {E : PTree} {eE e : Bytes} {d : Val} {t : ATag} {xs : List Val}

/-- **the text `max(E)` on an array of numbers without NaN** (in particular every decoded JSON array of numbers):
    `search` answers, with the decimal VALUE of the first greatest element `el` — the result is `≥` every element
    under the value order and EQUAL IN VALUE to `el`; it is the normalised `decimal128`, not the element itself (for
    the `json.Number` `1e2` the answer is the decimal `1E+2`): "returns an element" holds up to value equality only. -/
theorem max_expr_numbers (hv : Evals E eE d (.arr t xs)) (hlex : Lexes e (toks1 maxTok E)) (hne : xs ≠ [])
    {ds : List Dec} (hd : allDecimals xs = some ds) (hn : ∀ a ∈ xs, (C13B.valOf a).isNaN = false) :
    ∃ (pre : List Val) (el : Val) (post : List Val) (r : Val), xs = pre ++ el :: post ∧ search e d = .ok r ∧
      r = .num (.dec (C13B.valOf el)) ∧ Dec.compare (C13B.valOf r) (C13B.valOf el) = 0 ∧
      (∀ a ∈ xs, C13B.vle a r = true) ∧
      (∀ p ∈ pre, Dec.compare (C13B.valOf p) (C13B.valOf el) < 0) := by
  cases xs with
  | nil => exact absurd rfl hne
  | cons x rest =>
    obtain ⟨pre, el, post, h1, -, h3, h4, h5⟩ :=
      C13B.arrayMax_nanfree (t := t) (not_isStr_of_allDecimals hd) hd hn
    refine ⟨pre, el, post, _, h1, by rw [max_expr_val hv hlex, h3], rfl, Dec.compare_self _, ?_, h5⟩
    intro a ha
    exact decide_eq_true (h4 a ha)

/-- **the text `min(E)` on an array of numbers without NaN**, dually -/
theorem min_expr_numbers (hv : Evals E eE d (.arr t xs)) (hlex : Lexes e (toks1 minTok E)) (hne : xs ≠ [])
    {ds : List Dec} (hd : allDecimals xs = some ds) (hn : ∀ a ∈ xs, (C13B.valOf a).isNaN = false) :
    ∃ (pre : List Val) (el : Val) (post : List Val) (r : Val), xs = pre ++ el :: post ∧ search e d = .ok r ∧
      r = .num (.dec (C13B.valOf el)) ∧ Dec.compare (C13B.valOf r) (C13B.valOf el) = 0 ∧
      (∀ a ∈ xs, C13B.vle r a = true) ∧
      (∀ p ∈ pre, Dec.compare (C13B.valOf el) (C13B.valOf p) < 0) := by
  cases xs with
  | nil => exact absurd rfl hne
  | cons x rest =>
    obtain ⟨pre, el, post, h1, -, h3, h4, h5⟩ :=
      C13B.arrayMin_nanfree (t := t) (not_isStr_of_allDecimals hd) hd hn
    refine ⟨pre, el, post, _, h1, by rw [min_expr_val hv hlex, h3], rfl, Dec.compare_self _, ?_, h5⟩
    intro a ha
    exact decide_eq_true (h4 a ha)

/-- **the text `max(E)` on an array of strings**: the answer IS an element — the first one that no element exceeds in
    byte (= code point) order -/
theorem max_expr_strings {ss : List Bytes} (hv : Evals E eE d (.arr t (ss.map Val.str)))
    (hlex : Lexes e (toks1 maxTok E)) (hne : ss ≠ []) :
    ∃ pre post m, ss = pre ++ m :: post ∧ search e d = .ok (.str m) ∧ Val.str m ∈ ss.map Val.str ∧
      (∀ s ∈ ss, bytesLt m s = false) ∧ (∀ p ∈ pre, bytesLt p m = true) := by
  obtain ⟨pre, post, m, h1, h2, h3, h4⟩ := arrayMax_strings_spec (t := t) hne
  exact ⟨pre, post, m, h1, by rw [max_expr_val hv hlex, h2], List.mem_map.mpr ⟨m, by rw [h1]; simp, rfl⟩, h3, h4⟩

/-- **the text `min(E)` on an array of strings** -/
theorem min_expr_strings {ss : List Bytes} (hv : Evals E eE d (.arr t (ss.map Val.str)))
    (hlex : Lexes e (toks1 minTok E)) (hne : ss ≠ []) :
    ∃ pre post m, ss = pre ++ m :: post ∧ search e d = .ok (.str m) ∧ Val.str m ∈ ss.map Val.str ∧
      (∀ s ∈ ss, bytesLt s m = false) ∧ (∀ p ∈ pre, bytesLt m p = true) := by
  obtain ⟨pre, post, m, h1, h2, h3, h4⟩ := arrayMin_strings_spec (t := t) hne
  exact ⟨pre, post, m, h1, by rw [min_expr_val hv hlex, h2], List.mem_map.mpr ⟨m, by rw [h1]; simp, rfl⟩, h3, h4⟩

/-- **whenever `max(E)` answers** on a non-empty array (any tag, NaN allowed): over strings it is the first member
    that no member exceeds; over numbers it is the decimal value `m` of a member, and no member's value is `Greater` -/
theorem max_expr_ok (hv : Evals E eE d (.arr t xs)) (hlex : Lexes e (toks1 maxTok E)) (hne : xs ≠ []) {r : Val}
    (h : search e d = .ok r) :
    (∃ ss pre post m, xs = ss.map Val.str ∧ ss = pre ++ m :: post ∧ r = .str m ∧
      (∀ s ∈ ss, bytesLt m s = false) ∧ (∀ p ∈ pre, bytesLt p m = true)) ∨
    (∃ ds pre post m, allDecimals xs = some ds ∧ ds = pre ++ m :: post ∧ r = .num (.dec m) ∧
      (∀ d ∈ ds, Dec.greater d m = false) ∧
      ((∀ d ∈ ds, d.isNaN = false) → ∀ p ∈ pre, Dec.greater m p = true)) := by
  rw [max_expr_val hv hlex] at h
  exact arrayMax_spec hne h

theorem min_expr_ok (hv : Evals E eE d (.arr t xs)) (hlex : Lexes e (toks1 minTok E)) (hne : xs ≠ []) {r : Val}
    (h : search e d = .ok r) :
    (∃ ss pre post m, xs = ss.map Val.str ∧ ss = pre ++ m :: post ∧ r = .str m ∧
      (∀ s ∈ ss, bytesLt s m = false) ∧ (∀ p ∈ pre, bytesLt m p = true)) ∨
    (∃ ds pre post m, allDecimals xs = some ds ∧ ds = pre ++ m :: post ∧ r = .num (.dec m) ∧
      (∀ d ∈ ds, Dec.less d m = false) ∧
      ((∀ d ∈ ds, d.isNaN = false) → ∀ p ∈ pre, Dec.less m p = true)) := by
  rw [min_expr_val hv hlex] at h
  exact arrayMin_spec hne h

/-- on the empty array both return null -/
theorem max_min_expr_empty {e' : Bytes} (hv : Evals E eE d (.arr t [])) (hlex : Lexes e (toks1 maxTok E))
    (hlex' : Lexes e' (toks1 minTok E)) : search e d = .ok .null ∧ search e' d = .ok .null := by
  rw [max_expr_val hv hlex, min_expr_val hv hlex']
  exact ⟨rfl, rfl⟩

end MaxMin

/-- every member a number ⟹ `allDecimals` succeeds -/
theorem allDecimals_of_forall : ∀ {xs : List Val}, (∀ v ∈ xs, ∃ d, toDecimal v = some d) →
    ∃ ds, allDecimals xs = some ds
  | [], _ => ⟨[], rfl⟩
  | x :: rest, h => by
    obtain ⟨d, hd⟩ := h x (by simp)
    obtain ⟨ds, hds⟩ := allDecimals_of_forall (xs := rest) (fun v hv => h v (by simp [hv]))
    exact ⟨d :: ds, by simp [allDecimals, hd, hds]⟩

/-- a JSON number text that fits decimal128 is a number, and not NaN -/
theorem fits_toDecimal {u : Bytes} (h : Fits u) :
    ∃ dd, toDecimal (C13C.jn u) = some dd ∧ dd.isNaN = false := by
  obtain ⟨dd, x, h1, -, h3⟩ := numDen (numOk_regular h.regular) (.inl h.regular)
  exact ⟨dd, h1, isNaN_false h3.ne_nan⟩

/-- **`max(@)` on an array of JSON numbers that fit decimal128 is the decimal value of a mathematically greatest
    one**: there is a text `u` in the array with `ratVal a ≤ ratVal u` for every text `a`, and the answer is the
    `decimal128` value of `u` -/
theorem max_text_fits {e : Bytes} (hlex : Lexes e [maxTok, tLParen, tCur, tRParen]) (t : ATag) (ts : List Bytes)
    (hne : ts ≠ []) (hf : ∀ u ∈ ts, Fits u) :
    ∃ u ∈ ts, search e (.arr t (ts.map C13C.jn)) = .ok (.num (.dec (C13B.valOf (C13C.jn u)))) ∧
      ∀ a ∈ ts, ratLe (ratVal a) (ratVal u) := by
  obtain ⟨ds, hd⟩ := allDecimals_of_forall (xs := ts.map C13C.jn) (by
    intro v hv
    obtain ⟨u, hu, rfl⟩ := List.mem_map.mp hv
    obtain ⟨dd, h1, _⟩ := fits_toDecimal (hf u hu)
    exact ⟨dd, h1⟩)
  have hn : ∀ a ∈ ts.map C13C.jn, (C13B.valOf a).isNaN = false := by
    intro v hv
    obtain ⟨u, hu, rfl⟩ := List.mem_map.mp hv
    obtain ⟨dd, h1, h2⟩ := fits_toDecimal (hf u hu)
    simp [C13B.valOf, h1, h2]
  obtain ⟨pre, el, post, r, h1, h2, h3, -, h5, -⟩ := max_expr_numbers (evals_cur (.arr t (ts.map C13C.jn)))
    (hlex.congr (toks1_cur maxTok).symm) (by simpa using hne) hd hn
  have hel : el ∈ ts.map C13C.jn := by rw [h1]; simp
  obtain ⟨u, hu, rfl⟩ := List.mem_map.mp hel
  refine ⟨u, hu, by rw [h2, h3], fun a ha => ?_⟩
  have := h5 (C13C.jn a) (List.mem_map.mpr ⟨a, ha, rfl⟩)
  rw [h3] at this
  exact (vle_iff_ratVal (hf a ha) (hf u hu)).mp this

/-- **`min(@)` on an array of JSON numbers that fit decimal128**, dually -/
theorem min_text_fits {e : Bytes} (hlex : Lexes e [minTok, tLParen, tCur, tRParen]) (t : ATag) (ts : List Bytes)
    (hne : ts ≠ []) (hf : ∀ u ∈ ts, Fits u) :
    ∃ u ∈ ts, search e (.arr t (ts.map C13C.jn)) = .ok (.num (.dec (C13B.valOf (C13C.jn u)))) ∧
      ∀ a ∈ ts, ratLe (ratVal u) (ratVal a) := by
  obtain ⟨ds, hd⟩ := allDecimals_of_forall (xs := ts.map C13C.jn) (by
    intro v hv
    obtain ⟨u, hu, rfl⟩ := List.mem_map.mp hv
    obtain ⟨dd, h1, _⟩ := fits_toDecimal (hf u hu)
    exact ⟨dd, h1⟩)
  have hn : ∀ a ∈ ts.map C13C.jn, (C13B.valOf a).isNaN = false := by
    intro v hv
    obtain ⟨u, hu, rfl⟩ := List.mem_map.mp hv
    obtain ⟨dd, h1, h2⟩ := fits_toDecimal (hf u hu)
    simp [C13B.valOf, h1, h2]
  obtain ⟨pre, el, post, r, h1, h2, h3, -, h5, -⟩ := min_expr_numbers (evals_cur (.arr t (ts.map C13C.jn)))
    (hlex.congr (toks1_cur minTok).symm) (by simpa using hne) hd hn
  have hel : el ∈ ts.map C13C.jn := by rw [h1]; simp
  obtain ⟨u, hu, rfl⟩ := List.mem_map.mp hel
  refine ⟨u, hu, by rw [h2, h3], fun a ha => ?_⟩
  have := h5 (C13C.jn a) (List.mem_map.mpr ⟨a, ha, rfl⟩)
  rw [h3] at this
  exact (vle_iff_ratVal (hf u hu) (hf a ha)).mp this

section Examples
/-- KF16 on text: `max(@)` on `[1e2]` is the decimal `1E+2`, a different Go value from the element `1e2` (it is
    equal to it in value) -/
example : search (bs "max(@)") (.arr .plain [J "1e2"]) = .ok (.num (.dec (.fin false 1 2))) ∧
    (Val.num (.dec (.fin false 1 2))) ≠ J "1e2" ∧
    Dec.compare (C13B.valOf (.num (.dec (.fin false 1 2)))) (C13B.valOf (J "1e2")) = 0 := by
  have d : toDecimal (J "1e2") = some (.fin false 1 2) := by decide
  refine ⟨?_, (fun h => by injection h with h; cases h), ?_⟩
  · rw [max_expr_val (evals_cur _) (by decide), arrayMax_numbers_eq (by rintro ⟨s, h⟩; cases h)]
    simp [allDecimals, d, enum2, maxDec]
  · simp only [C13B.valOf, d, toDecimal, Option.getD_some]
    decide

/-- `max(@)` on `[10, 2, 1.5e1, -3]`: the theorem gives a text `u` with the greatest value (it is `1.5e1`) -/
example : ∃ u ∈ [bs "10", bs "2", bs "1.5e1", bs "-3"],
    search (bs "max(@)") (.arr .plain ([bs "10", bs "2", bs "1.5e1", bs "-3"].map C13C.jn)) =
      .ok (.num (.dec (C13B.valOf (C13C.jn u)))) ∧
    ∀ a ∈ [bs "10", bs "2", bs "1.5e1", bs "-3"], ratLe (ratVal a) (ratVal u) :=
  max_text_fits (by decide) .plain _ (by simp) (by decide)

/-- on strings the answer is an element: `max(@)` on `["b", "é", "a"]` is `"é"` (bytes `C3 A9`), `min(@)` is `"a"` -/
example : search (bs "max(@)") (.arr .plain ([[0x62], [0xC3, 0xA9], [0x61]].map Val.str)) = .ok (.str [0xC3, 0xA9]) ∧
    search (bs "min(@)") (.arr .plain ([[0x62], [0xC3, 0xA9], [0x61]].map Val.str)) = .ok (.str [0x61]) :=
  ⟨(max_expr_val (evals_cur _) (by decide)).trans (by rfl),
   (min_expr_val (evals_cur _) (by decide)).trans (by rfl)⟩
end Examples

/-! ## 4. mixed arrays are exactly the invalid-type errors of `sort(E)`, `max(E)`, `min(E)` -/

section MixedText
variable {E : PTree} {eE e : Bytes} {d : Val} {t : ATag} {xs : List Val}

/-- **`sort(E)` is an error exactly when the array mixes**: `Mixed xs` — neither all strings nor all numbers; in the
    words of C13 (`mixed_iff`): a string first and a non-string later, or a non-string first and a non-number
    somewhere — and the error is invalid-type (any tag, any length) -/
theorem sort_expr_err_iff (hv : Evals E eE d (.arr t xs)) (hlex : Lexes e (toks1 sortTok E)) :
    ((∃ c, search e d = .err c) ↔ Mixed xs) ∧ (Mixed xs → search e d = .err [Cat.invalidType]) := by
  rw [sort_expr_val hv hlex]
  refine ⟨⟨?_, fun h => ⟨_, sortArray_mixed h⟩⟩, sortArray_mixed⟩
  rintro ⟨c, hc⟩
  exact Classical.byContradiction fun h => sortArray_not_err h c hc

theorem max_expr_err_iff (hv : Evals E eE d (.arr t xs)) (hlex : Lexes e (toks1 maxTok E)) :
    ((∃ c, search e d = .err c) ↔ Mixed xs) ∧ (Mixed xs → search e d = .err [Cat.invalidType]) := by
  rw [max_expr_val hv hlex]
  refine ⟨⟨?_, fun h => ⟨_, arrayMax_mixed h⟩⟩, arrayMax_mixed⟩
  rintro ⟨c, hc⟩
  exact Classical.byContradiction fun h => arrayMax_not_err h c hc

theorem min_expr_err_iff (hv : Evals E eE d (.arr t xs)) (hlex : Lexes e (toks1 minTok E)) :
    ((∃ c, search e d = .err c) ↔ Mixed xs) ∧ (Mixed xs → search e d = .err [Cat.invalidType]) := by
  rw [min_expr_val hv hlex]
  refine ⟨⟨?_, fun h => ⟨_, arrayMin_mixed h⟩⟩, arrayMin_mixed⟩
  rintro ⟨c, hc⟩
  exact Classical.byContradiction fun h => arrayMin_not_err h c hc

/-- the `@` instances -/
theorem sort_max_min_text_mixed {e1 e2 e3 : Bytes} (h1 : Lexes e1 [sortTok, tLParen, tCur, tRParen])
    (h2 : Lexes e2 [maxTok, tLParen, tCur, tRParen]) (h3 : Lexes e3 [minTok, tLParen, tCur, tRParen])
    (t : ATag) {xs : List Val} (hm : Mixed xs) :
    search e1 (.arr t xs) = .err [Cat.invalidType] ∧ search e2 (.arr t xs) = .err [Cat.invalidType] ∧
    search e3 (.arr t xs) = .err [Cat.invalidType] :=
  ⟨(sort_expr_err_iff (evals_cur _) (h1.congr (toks1_cur _).symm)).2 hm,
   (max_expr_err_iff (evals_cur _) (h2.congr (toks1_cur _).symm)).2 hm,
   (min_expr_err_iff (evals_cur _) (h3.congr (toks1_cur _).symm)).2 hm⟩

end MixedText

section Examples
/-- `[1, "a"]`, `["a", 1]` and `[true]` are mixed; `[1, 1.0]`, `["a"]` and `[]` are not -/
example : Mixed [J "1", .str (bs "a")] ∧ Mixed [.str (bs "a"), J "1"] ∧ Mixed [.bool true] ∧
    ¬ Mixed [J "1", J "1.0"] ∧ ¬ Mixed [.str (bs "a")] ∧ ¬ Mixed [] := by
  refine ⟨mixed_1a, ⟨rfl, rfl⟩, ⟨rfl, rfl⟩, ?_, ?_, ?_⟩
  · rintro ⟨-, h⟩; simp [allDecimals, d1, d1p] at h
  · rintro ⟨h, -⟩; cases h
  · rintro ⟨h, -⟩; cases h

example : search (bs "sort(@)") (.arr .plain [J "1", .str (bs "a")]) = .err [Cat.invalidType] ∧
    search (bs "max(@)") (.arr .plain [J "1", .str (bs "a")]) = .err [Cat.invalidType] ∧
    search (bs "min(@)") (.arr .plain [J "1", .str (bs "a")]) = .err [Cat.invalidType] :=
  sort_max_min_text_mixed (by decide) (by decide) (by decide) .plain mixed_1a

/-- and a tie is not an error: `sort(@)` on `[1, 1.0]` is not an error (it is `.nondet`, see section 1) -/
example : ¬ ∃ c, search (bs "sort(@)") (.arr .plain [J "1", J "1.0"]) = .err c := by
  rw [(sort_expr_err_iff (evals_cur _) (by decide)).1]
  rintro ⟨-, h⟩; simp [allDecimals, d1, d1p] at h
end Examples

/-! ## 5. the input array is left untouched: `[f(E), @]` -/

/-- the tokens of `[F, @]` -/
def pairToks (F : PTree) : List Token := tLBracket :: (Grammar.flatten F ++ [tComma, tCur, tRBracket])

/-- **`[F, @]`** for any well-formed `F` (e.g. `sort(@)`, `sort_by(@, &K)`, `max(@)`): on a non-null document the
    answer is the pair of the value of `F` and the DOCUMENT ITSELF — evaluating `F` first does not change what `@`
    denotes.  (In the functional model this is by construction; that the Go functions write only to fresh clones is
    `Jmes.Tie.sort_helpers_fresh` and the frame theorems of C06.) -/
theorem pair_text {F : PTree} (hF : WellPrec F) {e : Bytes} (hlex : Lexes e (pairToks F)) :
    Parser.parse e = .ok (.selectArrayCurrent [erase F, .current]) ∧
    ∀ d, d.isNull = false → search e d = (evaluate (erase F) d >>= fun s => .ok (.arr .plain [s, d])) := by
  have hw : WellPrec (.multiList [F, .atom tCur]) := wp_list2 hF (by decide)
  have hfl : Grammar.flatten (.multiList [F, .atom tCur]) = pairToks F := by
    rw [flatten_list2]; simp [pairToks, Grammar.flatten, flat]
  obtain ⟨hp, hs⟩ := text hw (hlex.congr hfl.symm)
  have he : erase (.multiList [F, .atom tCur]) = .selectArrayCurrent [erase F, .current] := rfl
  rw [he] at hp hs
  refine ⟨hp, fun d hd => ?_⟩
  rw [hs d]
  simp only [evaluate_eq, ieval, hd, Bool.false_eq_true, if_false, ievalList]
  cases ieval d (erase F) d [] <;> rfl

/-- **`[sort(@), @]` on an array document**: when it answers, the answer is `[s, document]` with `s` the answer of
    `sort(@)`; an error / `.nondet` of `sort(@)` is passed on -/
theorem sort_pair_text {e e1 : Bytes} (hlex : Lexes e (pairToks (call1 sortTok (.atom tCur))))
    (h1 : Lexes e1 [sortTok, tLParen, tCur, tRParen]) (t : ATag) (xs : List Val) :
    search e (.arr t xs) = (search e1 (.arr t xs) >>= fun s => .ok (.arr .plain [s, .arr t xs])) := by
  have hw : WellPrec (call1 sortTok (.atom tCur)) := by decide
  rw [(pair_text hw hlex).2 _ rfl, ← (text hw (h1.congr (flatten_call1 sortTok (.atom tCur)).symm)).2]

/-- **`[sort_by(@, &K), @]` on an array document** -/
theorem sort_by_pair_text {K : PTree} (hK : WellPrec K) {e e1 : Bytes}
    (hlex : Lexes e (pairToks (call2 sortByTok (.atom tCur) K)))
    (h1 : Lexes e1 (toks2 sortByTok (.atom tCur) K)) (t : ATag) (xs : List Val) :
    search e (.arr t xs) = (search e1 (.arr t xs) >>= fun s => .ok (.arr .plain [s, .arr t xs])) := by
  have hw : WellPrec (call2 sortByTok (.atom tCur) K) := wp_call2 rfl (by rfl) (by decide) hK
  rw [(pair_text hw hlex).2 _ rfl, ← (text hw (h1.congr (flatten_call2 sortByTok (.atom tCur) K).symm)).2]

section Examples
/-- `[sort(@), @]` on `[2, 1.0]` is `[[1.0, 2], [2, 1.0]]`: the second component is the document, in its own order -/
example : search (bs "[sort(@), @]") (.arr .plain [J "2", J "1.0"]) =
    .ok (.arr .plain [.arr .plain [J "1.0", J "2"], .arr .plain [J "2", J "1.0"]]) := by
  have d2 : toDecimal (J "2") = some (.fin false 2 0) := by decide
  have c21 : Dec.compare (.fin false 2 0) (.fin false 1 0) = 1 := by decide
  have hs : search (bs "sort(@)") (.arr .plain [J "2", J "1.0"]) = .ok (.arr .plain [J "1.0", J "2"]) := by
    rw [sort_expr_val (evals_cur _) (by decide)]
    simp [sortArray, allDecimals, d2, d1p, List.mergeSort, List.MergeSort.Internal.splitInTwo, hasAmbiguousTie, c21]
    rfl
  rw [sort_pair_text (e1 := bs "sort(@)") (by decide) (by decide), hs]
  rfl

/-- `[sort_by(@, &@), @]` on `[1.0, 1]` -/
example : search (bs "[sort_by(@, &@), @]") (.arr .plain [J "1.0", J "1"]) =
    (search (bs "sort_by(@, &@)") (.arr .plain [J "1.0", J "1"]) >>=
      fun s => .ok (.arr .plain [s, .arr .plain [J "1.0", J "1"]])) :=
  sort_by_pair_text (K := .atom tCur) (by decide) (by decide) (by decide) .plain _
end Examples

end Jmes.C13E
