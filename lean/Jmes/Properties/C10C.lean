/-
  C10 (third part) — "Writing the implied parentheses explicitly never changes the outcome", for WHOLE expressions of
  any shape (chains of any length, operands that contain parentheses, unary operators, projections, multi-selects,
  function calls, `let`), and its converse: removing parentheses that are redundant never changes the outcome.

  Vocabulary (`Spec/Grammar.lean`): `PTree` — parse trees with explicit parentheses; `WellPrec t` — `t` is a tree of
  the grammar (every expression the parser accepts is the printing `flatten t` of exactly such a tree:
  `C04G.parse_iff`); `erase t` — the node the tree denotes; `llevel` / `rlevel` — how loose a tree is seen from the
  left / from the right.  `Lexes e ts` — the text `e` lexes to the tokens `ts`.

  1. `fullParen : PTree → PTree` (defined in `Proofs/C10CLemmas.lean`) puts every operand of every binary operator and
     of `!`, unary `-`, unary `+` in parentheses, recursively, everywhere in the tree.
     `fullParen_spec`: `WellPrec t → WellPrec (fullParen t) ∧ erase (fullParen t) = erase t`;
     `fullParen_neutral`: a text that lexes to `flatten t` and a text that lexes to `flatten (fullParen t)` compile to
     the same result and evaluate alike on every document; `fullParen_parse`, `fullParen_operands`.
  2. `strip : PTree → PTree` removes every pair of parentheses.  `erase_strip`: for a well-formed tree the node does not
     depend on the parentheses.  `paren_insensitive`: two well-formed trees that differ only in parentheses
     (`strip p = strip q`) compile to the same result and evaluate alike — in particular a tree and the same tree with
     ONE pair of parentheses removed, provided the result is still a tree of the grammar.
  3. Which pairs are redundant (`redundant_left_iff`, `redundant_right_iff`, `redundant_not_iff`, `redundant_neg_iff`,
     `redundant_pos_iff`, `redundant_outer`, `redundant_double`): the pair around the left operand `L` of an operator of
     level `l` may be removed iff `l ≤ rlevel L`; around the right operand `R` iff `l < llevel R`; around the operand of
     `!` iff `lvlNot < llevel`; of a sign iff `lvlMul < llevel`; an outermost pair and the inner of a double pair always.
     `remove_redundant_left`, `remove_redundant_right`, `remove_redundant_unary`: the parse is preserved.
     `needed_pair`: a pair that is not redundant cannot be removed: `(a + b) * c` and `a + b * c` denote different nodes.
-/
import Jmes.Proofs.C10CLemmas
import Jmes.Properties.C10B
namespace Jmes.C10C
open Jmes Jmes.Parser Jmes.Grammar
open Jmes.C10B (Lexes)

/-! ## 1. Writing all implied parentheses -/

/-- **`fullParen_spec`**: the fully parenthesised form of a tree of the grammar is a tree of the grammar, and denotes
    the same node. -/
theorem fullParen_spec {t : PTree} (h : WellPrec t) : WellPrec (fullParen t) ∧ erase (fullParen t) = erase t :=
  ⟨((fullParen_all t).1 false h (fun hb => by cases hb)).1, erase_fullParen t⟩

/-- the reference-syntax reading is unchanged, too -/
theorem fullParen_eraseT (t : PTree) : eraseT (fullParen t) = eraseT t := by
  unfold eraseT; rw [erase_fullParen]

/-- `fullParen` only adds parentheses: with all parentheses removed, the two trees are the same -/
theorem fullParen_only_parens (t : PTree) : strip (fullParen t) = strip t := strip_fullParen t

/-- every operand of a binary operator, of `!` and of a sign in `fullParen t` is in parentheses (stated at the root;
    `fullParen` recurses into every sub-tree) -/
theorem fullParen_operands :
    (∀ op l r, ∃ l' r', fullParen (.bin op l r) = .bin op (.paren l') (.paren r')) ∧
    (∀ t, ∃ t', fullParen (.not t) = .not (.paren t')) ∧
    (∀ tok t, ∃ t', fullParen (.neg tok t) = .neg tok (.paren t')) ∧
    (∀ t, ∃ t', fullParen (.pos t) = .pos (.paren t')) := by
  have hw : ∀ x, ∃ x', wrap x = .paren x' := fun x => by
    rcases wrap_cases x with ⟨u, rfl, h⟩ | h
    · exact ⟨u, h⟩
    · exact ⟨x, h⟩
  refine ⟨fun op l r => ?_, fun t => ?_, fun tok t => ?_, fun t => ?_⟩
  · obtain ⟨l', hl⟩ := hw (fullParen l)
    obtain ⟨r', hr⟩ := hw (fullParen r)
    exact ⟨l', r', by rw [fullParen, hl, hr]⟩
  · obtain ⟨t', ht⟩ := hw (fullParen t); exact ⟨t', by rw [fullParen, ht]⟩
  · obtain ⟨t', ht⟩ := hw (fullParen t); exact ⟨t', by rw [fullParen, ht]⟩
  · obtain ⟨t', ht⟩ := hw (fullParen t); exact ⟨t', by rw [fullParen, ht]⟩

/-- **`fullParen_neutral`** (C10, last sentence, in full generality): if the text `e` lexes to the tokens of a tree `t`
    of the grammar (that is, `e` is any expression the parser accepts) and `e'` lexes to the tokens of `t` with all
    implied parentheses written out, then `e` and `e'` compile to the same result and evaluate alike on every
    document. -/
theorem fullParen_neutral {t : PTree} (h : WellPrec t) {e e' : Bytes} (hl : Lexes e (Grammar.flatten t))
    (hl' : Lexes e' (Grammar.flatten (fullParen t))) :
    Parser.parse e = Parser.parse e' ∧ ∀ d, search e d = search e' d :=
  C04G.paren_neutral_general h (fullParen_spec h).1 (fullParen_spec h).2.symm hl hl'

/-- the fully parenthesised text compiles to the node of the original tree -/
theorem fullParen_parse {t : PTree} (h : WellPrec t) {e' : Bytes} (hl' : Lexes e' (Grammar.flatten (fullParen t))) :
    Parser.parse e' = .ok (erase t) := by
  rw [← (fullParen_spec h).2]
  exact C04G.parse_complete (fullParen_spec h).1 hl'

/-- starting from an accepted text instead of a tree: whatever `e` compiles to, every text whose tokens are those of
    `e` with the implied parentheses written out compiles to the same node -/
theorem fullParen_of_parse {e : Bytes} {n : INode} (h : Parser.parse e = .ok n) :
    ∃ t : PTree, WellPrec t ∧ Lexes e (Grammar.flatten t) ∧
      ∀ e', Lexes e' (Grammar.flatten (fullParen t)) → Parser.parse e' = .ok n ∧ ∀ d, search e' d = search e d := by
  obtain ⟨t, hw, hl, hn, _⟩ := C04G.parse_sound h
  refine ⟨t, hw, hl, fun e' hl' => ?_⟩
  have hp := fullParen_parse hw hl'
  rw [hn] at hp
  exact ⟨hp, fun d => by rw [Pratt.search_of_parse hp, Pratt.search_of_parse h]⟩

section Examples1
open Grammar.Ex
/-- `a + b * c - d`: a chain of three operators at two levels -/
def c1 : PTree :=
  .bin (op .subtract "-") (.bin (op .add "+") (idt "a") (.bin (op .asterisk "*") (idt "b") (idt "c"))) (idt "d")
example : WellPrec c1 ∧ lexes "a + b * c - d" c1 ∧ lexes "((a) + ((b) * (c))) - (d)" (fullParen c1) := by decide
example : Parser.parse (bs "a + b * c - d") = Parser.parse (bs "((a) + ((b) * (c))) - (d)") :=
  (fullParen_neutral (t := c1) (by decide) (by decide) (by decide)).1
example (d : Val) : search (bs "a + b * c - d") d = search (bs "((a) + ((b) * (c))) - (d)") d :=
  (fullParen_neutral (t := c1) (by decide) (by decide) (by decide)).2 d
example : Parser.parse (bs "((a) + ((b) * (c))) - (d)") =
    .ok (.binop .sub (.binop .add (.field (bs "a")) (.binop .mul (.field (bs "b")) (.field (bs "c")))) (.field (bs "d"))) :=
  fullParen_parse (t := c1) (by decide) (by decide)

/-- ``!a || -b * c < d && foo[*].bar.baz | [0]``: all six binary levels, `!`, a sign, a projection with its right-hand
    side, a leading bracket -/
def c2 : PTree :=
  .bin (op .pipe "|")
    (.bin (op .or "||") (.not (idt "a"))
      (.bin (op .and "&&")
        (.bin (op .less "<") (.bin (op .asterisk "*") (.neg (op .subtract "-") (idt "b")) (idt "c")) (idt "d"))
        (.star (idt "foo") (.dotId (.dotId .icur (idt "bar")) (idt "baz")))))
    (.index .icur (int "0"))
example : WellPrec c2 ∧ lexes "!a || -b * c < d && foo[*].bar.baz | [0]" c2 ∧
    lexes "((!(a)) || ((((-(b)) * (c)) < (d)) && (foo[*].bar.baz))) | ([0])" (fullParen c2) := by decide
example : Parser.parse (bs "!a || -b * c < d && foo[*].bar.baz | [0]") =
    Parser.parse (bs "((!(a)) || ((((-(b)) * (c)) < (d)) && (foo[*].bar.baz))) | ([0])") :=
  (fullParen_neutral (t := c2) (by decide) (by decide) (by decide)).1

/-- `(a || b) && c[?d + e > f].g`: parentheses inside an operand (kept, not doubled), an operator chain inside a filter
    condition (parenthesised too) -/
def c3 : PTree :=
  .bin (op .and "&&") (.paren (.bin (op .or "||") (idt "a") (idt "b")))
    (.filt (idt "c") (.bin (op .greater ">") (.bin (op .add "+") (idt "d") (idt "e")) (idt "f"))
      (.dotId .icur (idt "g")))
example : WellPrec c3 ∧ lexes "(a || b) && c[?d + e > f].g" c3 ∧
    lexes "((a) || (b)) && (c[?((d) + (e)) > (f)].g)" (fullParen c3) := by decide
example : Parser.parse (bs "(a || b) && c[?d + e > f].g") =
    Parser.parse (bs "((a) || (b)) && (c[?((d) + (e)) > (f)].g)") :=
  (fullParen_neutral (t := c3) (by decide) (by decide) (by decide)).1

/-- inside function arguments, multi-selects and `let`: ``let $x = a + b in [max_by(c, &d * e), {k: !f}]`` -/
def c4 : PTree :=
  .letIn [(⟨.variable, bs "$x"⟩, .bin (op .add "+") (idt "a") (idt "b"))]
    (.multiList [.call ⟨.unquotedIdentifier, bs "max_by"⟩ [idt "c", .ref (.bin (op .asterisk "*") (idt "d") (idt "e"))],
      .multiHash [(⟨.unquotedIdentifier, bs "k"⟩, .not (idt "f"))]])
example : WellPrec c4 ∧ lexes "let $x = a + b in [max_by(c, &d * e), {k: !f}]" c4 ∧
    lexes "let $x = (a) + (b) in [max_by(c, &(d) * (e)), {k: !(f)}]" (fullParen c4) := by decide +kernel
example : Parser.parse (bs "let $x = a + b in [max_by(c, &d * e), {k: !f}]") =
    Parser.parse (bs "let $x = (a) + (b) in [max_by(c, &(d) * (e)), {k: !(f)}]") :=
  (fullParen_neutral (t := c4) (by decide +kernel) (by decide +kernel) (by decide +kernel)).1
-- `fullParen_eraseT`, `fullParen_only_parens`, `fullParen_operands`, `fullParen_of_parse` on `a + b * c - d`
example : eraseT (fullParen c1) = eraseT c1 := fullParen_eraseT c1
example : strip (fullParen c2) = strip c2 := fullParen_only_parens c2
example : ∃ l' r', fullParen c1 = .bin (op .subtract "-") (.paren l') (.paren r') := fullParen_operands.1 _ _ _
example : ∃ t : PTree, WellPrec t ∧ Lexes (bs "a + b * c - d") (Grammar.flatten t) ∧
    ∀ e', Lexes e' (Grammar.flatten (fullParen t)) →
      Parser.parse e' = .ok (erase c1) ∧ ∀ d, search e' d = search (bs "a + b * c - d") d :=
  fullParen_of_parse (C04G.parse_complete (t := c1) (by decide) (by decide))
end Examples1

/-! ## 2. Parentheses never matter for the node; removing parentheses -/

/-- **`erase_strip`**: the node of a tree of the grammar does not depend on its parentheses -/
theorem erase_strip {t : PTree} (h : WellPrec t) : erase (strip t) = erase t := ((strip_all t).1 false h).1

/-- **`paren_insensitive`**: two trees of the grammar that differ only in parentheses — one is obtained from the other
    by adding and removing any number of pairs, anywhere — denote the same node; texts that lex to them compile to the
    same result and evaluate alike on every document.  (The parentheses decide WHETHER a tree is in the grammar with a
    given operator structure; they never influence the node.) -/
theorem paren_insensitive {p q : PTree} (hp : WellPrec p) (hq : WellPrec q) (h : strip p = strip q) :
    erase p = erase q ∧
    ∀ {e1 e2 : Bytes}, Lexes e1 (Grammar.flatten p) → Lexes e2 (Grammar.flatten q) →
      Parser.parse e1 = Parser.parse e2 ∧ ∀ d, search e1 d = search e2 d := by
  have he : erase p = erase q := by rw [← erase_strip hp, ← erase_strip hq, h]
  exact ⟨he, fun h1 h2 => C04G.paren_neutral_general hp hq he h1 h2⟩

/-! ## 3. Which pairs of parentheses are redundant -/

theorem wp_paren_iff (t : PTree) : WellPrec (.paren t) ↔ WellPrec t := by
  unfold WellPrec; simp only [wp, Bool.not_false, Bool.true_and]

/-- an outermost pair is always redundant -/
theorem redundant_outer {t : PTree} (h : WellPrec (.paren t)) : WellPrec t := (wp_paren_iff t).1 h

/-- the inner pair of a double pair is always redundant -/
theorem redundant_double {t : PTree} (h : WellPrec (.paren (.paren t))) : WellPrec (.paren t) := (wp_paren_iff _).1 h

/-- the pair around the LEFT operand `L` of a binary operator of level `l` is redundant iff `L` is not looser than the
    operator seen from the right: `l ≤ rlevel L` (same level allowed: operators associate to the left) -/
theorem redundant_left_iff {op : Token} {l : Nat} (ho : binLevel op.type = some l) {L R : PTree}
    (h : WellPrec (.bin op (.paren L) R)) : WellPrec (.bin op L R) ↔ l ≤ rlevel L := by
  unfold WellPrec at *
  simp only [wp, ho, Bool.and_eq_true, decide_eq_true_eq, Bool.not_eq_true', Bool.not_false, Bool.true_and,
    PTree.isIcur] at h ⊢
  have := wp_not_icur h.1.1.1
  constructor
  · intro h'; exact h'.1.1.2
  · intro h'; exact ⟨⟨⟨⟨this, h.1.1.1⟩, h'⟩, h.1.2⟩, h.2⟩

/-- the pair around the RIGHT operand `R` of a binary operator of level `l` is redundant iff `R` is strictly tighter
    than the operator seen from the left: `l < llevel R` -/
theorem redundant_right_iff {op : Token} {l : Nat} (ho : binLevel op.type = some l) {L R : PTree}
    (h : WellPrec (.bin op L (.paren R))) : WellPrec (.bin op L R) ↔ l < llevel R := by
  unfold WellPrec at *
  simp only [wp, ho, Bool.and_eq_true, decide_eq_true_eq, Bool.not_eq_true', Bool.not_false, Bool.true_and] at h ⊢
  constructor
  · intro h'; exact h'.2
  · intro h'; exact ⟨⟨h.1.1, h.1.2⟩, h'⟩

/-- the pair around the operand of `!` is redundant iff the operand is tighter than `!` (an atom, a parenthesis, a
    bracket form, a call, a multi-select …; not `a.b`, not a filter, not a binary operator) -/
theorem redundant_not_iff {t : PTree} (h : WellPrec (.not (.paren t))) : WellPrec (.not t) ↔ lvlNot < llevel t := by
  unfold WellPrec at *
  simp only [wp, Bool.and_eq_true, decide_eq_true_eq, Bool.not_false, Bool.true_and] at h ⊢
  exact ⟨fun h' => h'.2, fun h' => ⟨h.1, h'⟩⟩

/-- the pair around the operand of unary `-` is redundant iff the operand is tighter than the multiplicative operators -/
theorem redundant_neg_iff {tok : Token} {t : PTree} (h : WellPrec (.neg tok (.paren t))) :
    WellPrec (.neg tok t) ↔ lvlMul < llevel t := by
  unfold WellPrec at *
  simp only [wp, Bool.and_eq_true, decide_eq_true_eq, Bool.not_false, Bool.true_and] at h ⊢
  exact ⟨fun h' => h'.2, fun h' => ⟨⟨h.1.1, h.1.2⟩, h'⟩⟩

/-- the same for unary `+` -/
theorem redundant_pos_iff {t : PTree} (h : WellPrec (.pos (.paren t))) : WellPrec (.pos t) ↔ lvlMul < llevel t := by
  unfold WellPrec at *
  simp only [wp, Bool.and_eq_true, decide_eq_true_eq, Bool.not_false, Bool.true_and] at h ⊢
  exact ⟨fun h' => h'.2, fun h' => ⟨h.1, h'⟩⟩

/-- **removing a redundant pair around a left operand preserves the parse** (and the value on every document) -/
theorem remove_redundant_left {op : Token} {l : Nat} (ho : binLevel op.type = some l) {L R : PTree}
    (h : WellPrec (.bin op (.paren L) R)) (hlev : l ≤ rlevel L) {e1 e2 : Bytes}
    (h1 : Lexes e1 (Grammar.flatten (.bin op (.paren L) R))) (h2 : Lexes e2 (Grammar.flatten (.bin op L R))) :
    Parser.parse e1 = Parser.parse e2 ∧ ∀ d, search e1 d = search e2 d :=
  (paren_insensitive h ((redundant_left_iff ho h).2 hlev) (by simp only [strip])).2 h1 h2

/-- **removing a redundant pair around a right operand preserves the parse** -/
theorem remove_redundant_right {op : Token} {l : Nat} (ho : binLevel op.type = some l) {L R : PTree}
    (h : WellPrec (.bin op L (.paren R))) (hlev : l < llevel R) {e1 e2 : Bytes}
    (h1 : Lexes e1 (Grammar.flatten (.bin op L (.paren R)))) (h2 : Lexes e2 (Grammar.flatten (.bin op L R))) :
    Parser.parse e1 = Parser.parse e2 ∧ ∀ d, search e1 d = search e2 d :=
  (paren_insensitive h ((redundant_right_iff ho h).2 hlev) (by simp only [strip])).2 h1 h2

/-- **removing a redundant pair around the operand of `!`, `-`, `+` preserves the parse** -/
theorem remove_redundant_unary {t : PTree} :
    (WellPrec (.not (.paren t)) → lvlNot < llevel t → ∀ {e1 e2 : Bytes},
      Lexes e1 (Grammar.flatten (.not (.paren t))) → Lexes e2 (Grammar.flatten (.not t)) →
      Parser.parse e1 = Parser.parse e2 ∧ ∀ d, search e1 d = search e2 d) ∧
    (∀ tok, WellPrec (.neg tok (.paren t)) → lvlMul < llevel t → ∀ {e1 e2 : Bytes},
      Lexes e1 (Grammar.flatten (.neg tok (.paren t))) → Lexes e2 (Grammar.flatten (.neg tok t)) →
      Parser.parse e1 = Parser.parse e2 ∧ ∀ d, search e1 d = search e2 d) ∧
    (WellPrec (.pos (.paren t)) → lvlMul < llevel t → ∀ {e1 e2 : Bytes},
      Lexes e1 (Grammar.flatten (.pos (.paren t))) → Lexes e2 (Grammar.flatten (.pos t)) →
      Parser.parse e1 = Parser.parse e2 ∧ ∀ d, search e1 d = search e2 d) :=
  ⟨fun h hl _ _ h1 h2 => (paren_insensitive h ((redundant_not_iff h).2 hl) (by simp only [strip])).2 h1 h2,
   fun _ h hl _ _ h1 h2 => (paren_insensitive h ((redundant_neg_iff h).2 hl) (by simp only [strip])).2 h1 h2,
   fun h hl _ _ h1 h2 => (paren_insensitive h ((redundant_pos_iff h).2 hl) (by simp only [strip])).2 h1 h2⟩

/-- removing an outermost pair, or one of a double pair, preserves the parse -/
theorem remove_redundant_outer {t : PTree} (h : WellPrec (.paren t)) {e1 e2 : Bytes}
    (h1 : Lexes e1 (Grammar.flatten (.paren t))) (h2 : Lexes e2 (Grammar.flatten t)) :
    Parser.parse e1 = Parser.parse e2 ∧ ∀ d, search e1 d = search e2 d :=
  (paren_insensitive h (redundant_outer h) (by simp only [strip])).2 h1 h2

section Examples2
open Grammar.Ex
/-- `(a * b) + (c) - (d.e)` and `a * b + c - d.e`: three redundant pairs removed at once, deep in a chain -/
def r1 : PTree :=
  .bin (op .subtract "-")
    (.bin (op .add "+") (.paren (.bin (op .asterisk "*") (idt "a") (idt "b"))) (.paren (idt "c")))
    (.paren (.dotId (idt "d") (idt "e")))
def r1' : PTree :=
  .bin (op .subtract "-") (.bin (op .add "+") (.bin (op .asterisk "*") (idt "a") (idt "b")) (idt "c"))
    (.dotId (idt "d") (idt "e"))
example : lexes "(a * b) + (c) - (d.e)" r1 ∧ lexes "a * b + c - d.e" r1' := by decide
example : Parser.parse (bs "(a * b) + (c) - (d.e)") = Parser.parse (bs "a * b + c - d.e") :=
  ((paren_insensitive (p := r1) (q := r1') (by decide) (by decide) (by simp [strip, r1, r1'])).2
    (by decide) (by decide)).1
-- one pair, by level: `(a * b) + c`: the content has `rlevel` 7 ≥ 6
example : Parser.parse (bs "(a * b) + c") = Parser.parse (bs "a * b + c") :=
  (remove_redundant_left (op := op .add "+") (L := .bin (op .asterisk "*") (idt "a") (idt "b")) (R := idt "c") rfl
    (by decide) (by decide) (by decide) (by decide)).1
-- `a - (b * c)`: the content has `llevel` 7 > 6
example : Parser.parse (bs "a - (b * c)") = Parser.parse (bs "a - b * c") :=
  (remove_redundant_right (op := op .subtract "-") (L := idt "a") (R := .bin (op .asterisk "*") (idt "b") (idt "c")) rfl
    (by decide) (by decide) (by decide) (by decide)).1
-- `!(a[0])`: brackets are tighter than `!`
example : Parser.parse (bs "!(a[0])") = Parser.parse (bs "!a[0]") :=
  ((remove_redundant_unary (t := .index (idt "a") (int "0"))).1 (by decide) (by decide) (by decide) (by decide)).1
-- `((a))`, `(a)`, `a`
example : Parser.parse (bs "((a))") = Parser.parse (bs "(a)") ∧ Parser.parse (bs "(a)") = Parser.parse (bs "a") :=
  ⟨(remove_redundant_outer (t := .paren (idt "a")) (by decide) (by decide) (by decide)).1,
   (remove_redundant_outer (t := idt "a") (by decide) (by decide) (by decide)).1⟩

/-- **`needed_pair`**: a pair that is NOT redundant cannot be removed.  In `(a + b) * c` the content has `rlevel` 6,
    the context requires 7: the tree without the pair is not in the grammar (`redundant_left_iff`), the text without
    the pair is the printing of a different tree, and the two texts compile to different nodes. -/
theorem needed_pair :
    ¬ WellPrec (.bin (op .asterisk "*") (.bin (op .add "+") (idt "a") (idt "b")) (idt "c")) ∧
    Parser.parse (bs "(a + b) * c") =
      .ok (.binop .mul (.binop .add (.field (bs "a")) (.field (bs "b"))) (.field (bs "c"))) ∧
    Parser.parse (bs "a + b * c") =
      .ok (.binop .add (.field (bs "a")) (.binop .mul (.field (bs "b")) (.field (bs "c")))) ∧
    Parser.parse (bs "(a + b) * c") ≠ Parser.parse (bs "a + b * c") := by
  have h1 : Parser.parse (bs "(a + b) * c") =
      .ok (.binop .mul (.binop .add (.field (bs "a")) (.field (bs "b"))) (.field (bs "c"))) :=
    C04G.parse_complete
      (t := .bin (op .asterisk "*") (.paren (.bin (op .add "+") (idt "a") (idt "b"))) (idt "c")) (by decide) (by decide)
  have h2 : Parser.parse (bs "a + b * c") =
      .ok (.binop .add (.field (bs "a")) (.binop .mul (.field (bs "b")) (.field (bs "c")))) :=
    C04G.parse_complete
      (t := .bin (op .add "+") (idt "a") (.bin (op .asterisk "*") (idt "b") (idt "c"))) (by decide) (by decide)
  refine ⟨by decide, h1, h2, ?_⟩
  rw [h1, h2]
  intro h
  injection h with h
  injection h with h
  cases h
-- the criteria, on concrete operands: `a - (b * c)` (7 > 6: redundant), `a * (b - c)` (6 > 7 fails: needed),
-- `!(a.b)` (11 > 12 fails: needed; `!a.b` is `(!a).b`), `-(a.b)` (11 > 7: redundant), `((a))`
example : WellPrec (.bin (op .subtract "-") (idt "a") (.bin (op .asterisk "*") (idt "b") (idt "c"))) ↔
    lvlAdd < llevel (.bin (op .asterisk "*") (idt "b") (idt "c")) :=
  redundant_right_iff rfl (by decide)
example : ¬ WellPrec (.bin (op .asterisk "*") (idt "a") (.bin (op .subtract "-") (idt "b") (idt "c"))) :=
  fun h => absurd ((redundant_right_iff (l := lvlMul) rfl (by decide)).1 h) (by decide)
example : ¬ WellPrec (.not (.dotId (idt "a") (idt "b"))) :=
  fun h => absurd ((redundant_not_iff (by decide)).1 h) (by decide)
example : WellPrec (.neg (op .subtract "-") (.dotId (idt "a") (idt "b"))) :=
  (redundant_neg_iff (by decide)).2 (by decide)
example : WellPrec (.pos (.dotId (idt "a") (idt "b"))) := (redundant_pos_iff (by decide)).2 (by decide)
example : WellPrec (.paren (idt "a")) := redundant_double (t := idt "a") (by decide)
example : Parser.parse (bs "-(a.b)") = Parser.parse (bs "-a.b") :=
  ((remove_redundant_unary (t := .dotId (idt "a") (idt "b"))).2.1 (op .subtract "-") (by decide) (by decide)
    (by decide) (by decide)).1
-- and `redundant_left_iff` says so: 7 ≤ rlevel (a + b) = 6 fails
example : ¬ (lvlMul ≤ rlevel (.bin (op .add "+") (idt "a") (idt "b"))) := by decide
end Examples2

end Jmes.C10C
