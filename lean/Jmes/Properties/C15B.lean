/-
  Property C15, second round — "Evaluating the same expression on equal documents always yields equal outcomes … The
  only permitted variation is the order of elements in arrays obtained by enumerating an object's members and which
  fault is reported when several sub-expressions fail at once."

  `Jmes/Properties/C15.lean` proves definiteness only for `EnumFree` expressions, which excludes multi-select hashes
  and `let`s with two or more members and every `sort()`. This file closes those gaps and adds an ORACLE semantics.

  1. **Evaluation order of a member map** (`combineUnordered`). `seqFields` is Go's loop for one iteration order.
     `members_ok_any_order`, `members_err_any_order`, `members_err_every_category`: if the model answers `.ok`, every
     order builds the same object; if it answers `.err cs`, the first failure under every order has its categories
     in `cs`, and every `c ∈ cs` is reported by the first failure under some order.
  2. **Definiteness without the size restriction** (`ieval_definite`, `evaluate_definite`, `search_definite`): for
     expressions that do not enumerate object members — multi-select hashes and `let`s of ANY size allowed — the
     outcome is never `nondet` and a value contains no map-ordered array. `sort_definite_of_tieFree`,
     `sort_definite_strings`: `sort` is definite on strings and on tie-free numbers.
  3. **FIXED GAP (model)**: `widen_unsettled_nondet` (formerly the counterexample `widen_misses_category`): `widen` used
     to ignore elements whose outcome is `nondet`, so the model's error set could miss a category that a run reports;
     it now answers `nondet` there.
  4. **Oracle semantics** `ievalO π` (Jmes/Proofs/C15BOracle.lean): Go's map iteration orders are a parameter `π`.
     * `oracle_covers_every_order`: every permutation of an object's members is chosen by some oracle.
     * `oracle_strict` (whole evaluator, no object enumeration, hashes and `let`s of any size):
       `ieval = .ok r → ∀ π, ievalO π = .ok r`, and `ieval = .err cs → ∀ π, ∃ c ∈ cs, ievalO π = .err [c]`.
     * `PermEnum` and `oracle_enum` (expressions that DO enumerate objects; every node type and every builtin except
       `sum`, `avg`, `max`, `min`, see `nodeOkE`, `max_not_covered`):
       `ieval = .ok r → ∀ π, ∃ r', ievalO π = .ok r' ∧ PermEnum r r'`; `oracle_enum_definite`: if `r` contains no
       map-ordered array then `r' = r`.
     * `projectArray_err_any_order`, `projectObject_err_any_order`: the error half for projections over a map-ordered
       array (an error outcome of the model implies that every element outcome is a value or an error, see 3).
-/
import Jmes.Proofs.C15BConcMainLemmas
namespace Jmes.C15B
open Invar

/-! ## 1. evaluation order of the members of a multi-select hash / `let` -/

theorem memberOutcomes_perm {root cur : Val} {env : Env} {fs fs' : List (Bytes × INode)} (hp : fs'.Perm fs) :
    (memberOutcomes root fs' cur env).Perm (memberOutcomes root fs cur env) := hp.map _

/-- **The model's value does not depend on the evaluation order.** If the model evaluates a member map (a multi-select
    hash or the bindings of a `let`) to the object `bs` and the keys are pairwise distinct (the Go parser collects
    the members in a map), Go's loop returns `bs` for EVERY order `fs'` in which it may visit the members. -/
theorem members_ok_any_order {root cur : Val} {env : Env} {fs fs' : List (Bytes × INode)} {bs : List (Bytes × Val)}
    (h : ievalFields root fs cur env = .ok bs) (hn : (fs.map Prod.fst).Nodup) (hp : fs'.Perm fs) :
    seqFields root fs' cur env [] = .ok bs := by
  rw [seqFields_eq_firstFailure]
  rw [ievalFields_eq_combineAll] at h
  exact (firstFailure_sound (memberOutcomes_perm hp)).1 bs h (by rw [memberOutcomes_keys]; exact hn)

/-- **`combineUnordered` is sound.** If the model answers `.err cs`, then under every order Go's loop stops at a
    failing member, and all the categories that member can report are in `cs`. -/
theorem members_err_any_order {root cur : Val} {env : Env} {fs fs' : List (Bytes × INode)} {cs : List Cat}
    (h : ievalFields root fs cur env = .err cs) (hp : fs'.Perm fs) :
    ∃ cl, seqFields root fs' cur env [] = .err cl ∧ (∃ p ∈ fs, ieval root p.2 cur env = .err cl) ∧
      ∀ c ∈ cl, c ∈ cs := by
  rw [seqFields_eq_firstFailure]
  rw [ievalFields_eq_combineAll] at h
  obtain ⟨cl, h1, ⟨o, ho, ho2⟩, h3⟩ := (firstFailure_sound (memberOutcomes_perm hp)).2 cs h
  obtain ⟨p, hp', rfl⟩ := List.mem_map.mp ho
  exact ⟨cl, h1, ⟨p, hp', ho2⟩, h3⟩

/-- **… and complete**: every category in `cs` is reported by the first failure under some order. -/
theorem members_err_every_category {root cur : Val} {env : Env} {fs : List (Bytes × INode)} {cs : List Cat}
    (h : ievalFields root fs cur env = .err cs) :
    ∀ c ∈ cs, ∃ fs', fs'.Perm fs ∧ ∃ cl, seqFields root fs' cur env [] = .err cl ∧ c ∈ cl := by
  intro c hc
  rw [ievalFields_eq_combineAll] at h
  obtain ⟨-, hcs⟩ := combineAll_err _ cs h
  obtain ⟨o, ho, cl, hcl, hccl⟩ := (hcs c).mp hc
  obtain ⟨p, hp, rfl⟩ := List.mem_map.mp ho
  obtain ⟨s, t, rfl⟩ := List.append_of_mem hp
  refine ⟨p :: (s ++ t), List.perm_middle.symm, cl, ?_, hccl⟩
  obtain ⟨k, n⟩ := p
  simp only at hcl
  simp only [seqFields, hcl]
  rfl

/-- the model's error set is never `nondet`-tainted: an error outcome means every member is a value or an error -/
theorem members_err_settled {root cur : Val} {env : Env} {fs : List (Bytes × INode)} {cs : List Cat}
    (h : ievalFields root fs cur env = .err cs) : ∀ p ∈ fs, (ieval root p.2 cur env).Settled := by
  rw [ievalFields_eq_combineAll] at h
  intro p hp
  exact (combineAll_err _ cs h).1 (p.1, ieval root p.2 cur env) (List.mem_map.mpr ⟨p, hp, rfl⟩)

/-! examples: `{a: abs(''), b: $x}` (two failing members) and `{a: @, b: @}` -/
def twoFaults : List (Bytes × INode) := [([0x61], .call .abs [.lit (.str [])]), ([0x62], .variable [0x78])]

example : ievalFields .null twoFaults .null [] = .err [Cat.undefinedVariable, Cat.invalidType] := rfl
/-- in the listed order the loop reports invalid-type, in the other order undefined-variable -/
example : seqFields .null twoFaults .null [] [] = .err [Cat.invalidType] := rfl
example : seqFields .null twoFaults.reverse .null [] [] = .err [Cat.undefinedVariable] := rfl
example : ∃ cl, seqFields .null twoFaults.reverse .null [] [] = .err cl ∧
    (∃ p ∈ twoFaults, ieval .null p.2 .null [] = .err cl) ∧ ∀ c ∈ cl, c ∈ [Cat.undefinedVariable, Cat.invalidType] :=
  members_err_any_order (fs := twoFaults) rfl (List.reverse_perm _)
example : ∃ fs', fs'.Perm twoFaults ∧ ∃ cl, seqFields .null fs' .null [] [] = .err cl ∧ Cat.undefinedVariable ∈ cl :=
  members_err_every_category (fs := twoFaults) (cs := [Cat.undefinedVariable, Cat.invalidType]) rfl _ (by simp)
def twoOk : List (Bytes × INode) := [([0x62], .current), ([0x61], .lit .null)]
example : seqFields .null twoOk.reverse (.bool true) [] [] = .ok [([0x61], .null), ([0x62], .bool true)] :=
  members_ok_any_order (fs := twoOk) rfl (by decide) (List.reverse_perm _)


/-! ## 2. definiteness without the restriction to one-member hashes -/

/-- nothing in the node ranges over the members of an object, and there is no (unstable) `sort`; multi-select hashes
    and `let`s of any size are allowed -/
def OrderFree (n : INode) : Bool := n.all INode.noEnumHeadD

theorem all_nodeOkD {n : INode} (hl : n.NoEnumLits = true) (he : OrderFree n = true) : n.all nodeOkD = true := by
  have : nodeOkD = fun m => INode.litOk Val.NoEnum m && INode.noEnumHeadD m := rfl
  rw [this, INode.all_and]
  simp only [INode.NoEnumLits, INode.LitsAll, OrderFree] at hl he
  rw [hl, he]
  rfl

/-- **C15, strict part, without the size restriction.** Without map-ordered arrays in the inputs and without object
    enumeration in the expression — a multi-select hash `{a: x, b: y, …}` or a `let` may have any number of members —
    the outcome is never `nondet`, and a value again contains no map-ordered array. (Which fault is reported may
    depend on the order: see section 1 and `oracle_strict`.) -/
theorem ieval_definite {root cur : Val} {env : Env} {n : INode}
    (hroot : root.NoEnum = true) (hcur : cur.NoEnum = true) (henv : Env.NoEnum env = true)
    (hl : n.NoEnumLits = true) (he : OrderFree n = true) :
    ieval root n cur env ≠ .nondet ∧ ∀ r, ieval root n cur env = .ok r → r.NoEnum = true :=
  Def.iff.mp (ieval_def hroot n cur env (all_nodeOkD hl he) hcur henv)

theorem evaluate_definite {d : Val} {n : INode} (hd : d.NoEnum = true) (hl : n.NoEnumLits = true)
    (he : OrderFree n = true) :
    evaluate n d ≠ .nondet ∧ ∀ r, evaluate n d = .ok r → r.NoEnum = true :=
  ieval_definite hd hd rfl hl he

theorem search_definite {expr : Bytes} {d : Val} (hd : d.NoEnum = true)
    (hn : ∀ n, compile expr = .ok n → n.NoEnumLits = true ∧ OrderFree n = true) :
    search expr d ≠ .nondet ∧ ∀ r, search expr d = .ok r → r.NoEnum = true := by
  unfold search
  unfold compile at hn
  split
  · simp
  · simp
  · next n hp => exact evaluate_definite hd (hn n hp).1 (hn n hp).2

/-- the multi-select hash of definite sub-results is definite -/
theorem multiselect_definite {root cur : Val} {env : Env} {fs : List (Bytes × INode)}
    (hroot : root.NoEnum = true) (hcur : cur.NoEnum = true) (henv : Env.NoEnum env = true)
    (hm : ∀ p ∈ fs, p.2.NoEnumLits = true ∧ OrderFree p.2 = true) :
    ieval root (.selectObjectCurrent fs) cur env ≠ .nondet := by
  have hall : INode.allF nodeOkD fs = true := by
    clear hroot hcur henv
    induction fs with
    | nil => rfl
    | cons p fs ih =>
      obtain ⟨k, n⟩ := p
      simp only [INode.allF, Bool.and_eq_true]
      exact ⟨all_nodeOkD (hm (k, n) (by simp)).1 (hm (k, n) (by simp)).2, ih fun q hq => hm q (List.mem_cons_of_mem _ hq)⟩
  have : (INode.selectObjectCurrent fs).all nodeOkD = true := by
    simp only [INode.all, Bool.and_eq_true]
    exact ⟨rfl, hall⟩
  exact (Def.iff.mp (ieval_def hroot _ cur env this hcur henv)).1

/-- `{a: @, b: @.x}` has two members: not `EnumFree`, but `OrderFree` -/
def hash2 : INode := .selectObjectCurrent [([0x61], .current), ([0x62], .field [0x78])]
example : hash2.EnumFree = false := by decide
example : OrderFree hash2 = true := by decide
example : evaluate hash2 (.obj [([0x78], .bool true)]) ≠ .nondet :=
  (evaluate_definite (d := .obj [([0x78], .bool true)]) (n := hash2) (by decide) (by decide) (by decide)).1
/-- `let $a = @, $b = @.x in [$a, $b]` -/
def let2 : INode := .defineVariables [([0x61], .current), ([0x62], .field [0x78])]
  (.selectArrayCurrent [.variable [0x61], .variable [0x62]])
example : let2.EnumFree = false := by decide
example : evaluate let2 (.obj [([0x78], .bool true)]) ≠ .nondet :=
  (evaluate_definite (d := .obj [([0x78], .bool true)]) (n := let2) (by decide) (by decide) (by decide)).1

/-! `sort` -/

/-- **`sort` is definite on tie-free numbers**: if numbers of equal value in the array are the same Go value, `sort`
    (on an array without map-ordered parts) is neither `nondet` nor multi-category, and returns no map-ordered array. -/
theorem sort_definite_of_tieFree {t : ATag} {x : Val} {rest : List Val} (hx : ¬ C13.IsStr x)
    (hg : (Val.arr t (x :: rest)).NoEnum = true)
    (htf : ∀ a ∈ x :: rest, ∀ b ∈ x :: rest,
      Dec.compare (C13B.valOf a) (C13B.valOf b) = 0 → a = b) :
    sortArray (.arr t (x :: rest)) ≠ .nondet ∧
    (∀ r, sortArray (.arr t (x :: rest)) = .ok r → r.NoEnum = true) ∧
    (∀ cs, sortArray (.arr t (x :: rest)) = .err cs → cs = [Cat.invalidType]) := by
  refine ⟨C13B.sortArray_definite_of_tieFree hx htf, ?_, ?_⟩
  · intro r hr
    obtain ⟨ys, rfl, hsp, -⟩ := C13B.sortArray_ok_unique hx hr
    have hx' := (good_arr.mp (show (Val.arr t (x :: rest)).Good true = true from hg)).2
    exact (good_plainArr (goodL_sub hx' fun y hy => hsp.1.mem_iff.mp hy) : (Val.arr .plain ys).Good true = true)
  · intro cs hc
    cases hd : allDecimals (x :: rest) with
    | some ds =>
      rw [C13B.sortArray_numbers_eq hx hd] at hc
      split at hc <;> cases hc
    | none =>
      have hred : sortArray (.arr t (x :: rest)) = (match allDecimals (x :: rest) with
          | some ds =>
            let sorted := ((x :: rest).zip ds).mergeSort (fun a b => Dec.compare a.2 b.2 ≤ 0)
            if hasAmbiguousTie sorted then .nondet else .ok (.arr .plain (sorted.map Prod.fst))
          | none => errType) := by
        cases x with
        | str s => exact absurd ⟨_, rfl⟩ hx
        | _ => rfl
      rw [hred, hd] at hc
      cases hc
      rfl

/-- **`sort` on strings is always definite.** -/
theorem sort_definite_strings {t : ATag} {ss : List Bytes} (hne : ss ≠ []) :
    sortArray (.arr t (ss.map Val.str)) = .ok (.arr .plain ((ss.mergeSort C13.sle).map Val.str)) ∧
    (Val.arr .plain ((ss.mergeSort C13.sle).map Val.str)).NoEnum = true := by
  refine ⟨(C13.sortArray_strings_spec hne).1, ?_⟩
  show (Val.arr .plain ((ss.mergeSort C13.sle).map Val.str)).Good true = true
  refine good_plainArr (goodL_iff.mpr fun y hy => ?_)
  obtain ⟨b, _, rfl⟩ := List.mem_map.mp hy
  rfl

/-- the converse of the counterexample `C15.sort_nondet`: `sort([2, 1])` -/
example : sortArray (.arr .plain [C13B.two, C13B.one]) ≠ .nondet :=
  (sort_definite_of_tieFree (t := .plain) C13B.not_isStr_two (by decide) (by
    have c1 : Dec.compare (.fin false 2 0) (.fin false 1 0) = 1 := by decide
    have c2 : Dec.compare (.fin false 1 0) (.fin false 2 0) = -1 := by decide
    intro a ha b hb
    simp only [List.mem_cons, List.not_mem_nil, or_false] at ha hb
    rcases ha with rfl | rfl <;> rcases hb with rfl | rfl <;>
      simp [C13B.valOf, C13B.toDecimal_one, C13B.toDecimal_two, c1, c2])).1


/-! ## 3. FIXED GAP: `widen` used to ignore elements whose outcome is `nondet`; now it answers `nondet` -/

/-- the document `{"p": "str", "q": {"a": 1, "b": 1.5}}` -/
def wdoc : Val := .obj [([0x70], .str [0x73, 0x74, 0x72]),
  ([0x71], .obj [([0x61], .num (.jnum [0x31])), ([0x62], .num (.jnum [0x31, 0x2E, 0x35]))])]
/-- `values(@)[*].pad_left('s', values(@)[0], 'x')` -/
def wprog : INode := .projectArray (.call .values [.current])
  (.call .padLeft [.lit (.str [0x73]), .index (.call .values [.current]) 0, .lit (.str [0x78])])
/-- the run in which every map is visited in reverse key order -/
def reverseOracle : Oracle where
  mem := fun _ l => l.reverse
  mem_perm := fun _ l => List.reverse_perm l
  outs := fun _ l => l.reverse
  outs_perm := fun _ l => List.reverse_perm l

/-- **FIXED GAP (formerly the counterexample `widen_misses_category`).** The element `"str"` fails with
    invalid-type, and the outcome of the element `{"a": 1, "b": 1.5}` is `nondet` (`values(@)[0]`). The run that
    visits `q` before `p` and `b` before `a` reports invalid-VALUE (`1.5` is not an integer) — confirmed against the Go
    code (47 of 3000 runs). `widen` used to answer `.err [invalidType]` here (the `nondet` element contributed nothing
    to the widened set), which made "`ieval = .err cs → the run's category ∈ cs`" false. Now `widen` answers `nondet`
    as soon as some element of a map-ordered array has an outcome that is not a value or an error. -/
theorem widen_unsettled_nondet :
    evaluate wprog wdoc = .nondet ∧ evaluateO reverseOracle wprog wdoc = .err [Cat.invalidValue] := by
  exact ⟨rfl, rfl⟩

/-- in general: an error outcome of `widen` over a map-ordered array means every element outcome is settled -/
theorem widen_err_settled {α} {t : ATag} {xs : List Val} {f : Val → Res Val} {extra cs0 cs : List Cat}
    (he : enum2 t xs = true) (h : widen (α := α) t xs [f] extra (.err cs0) = .err cs) :
    ∀ x ∈ xs, (f x).Settled := (widen_enum_mem he h).2.2


/-! ## 4. the oracle semantics -/

/-- every order in which Go might visit the members of an object is the choice of some oracle -/
theorem oracle_covers_every_order {kvs kvs' : List (Bytes × Val)} (h : kvs'.Perm kvs) :
    ∃ π : Oracle, π.members kvs = kvs' := by
  classical
  refine ⟨{ mem := fun _ l => if l = kvs then kvs' else l
            mem_perm := fun _ l => ?_
            outs := fun _ l => l
            outs_perm := fun _ l => List.Perm.refl l }, ?_⟩
  · by_cases e : l = kvs
    · simp only [e, if_true]; exact h
    · simp only [e, if_false]; exact List.Perm.refl l
  · simp [Oracle.members]

/-- … and likewise every order of evaluation of the members of a hash / `let` -/
theorem oracle_covers_every_member_order {os os' : List (Bytes × Res Val)} (h : os'.Perm os) :
    ∃ π : Oracle, π.order os = os' := by
  classical
  refine ⟨{ mem := fun _ l => l
            mem_perm := fun _ l => List.Perm.refl l
            outs := fun _ l => if l = os then os' else l
            outs_perm := fun _ l => ?_ }, ?_⟩
  · by_cases e : l = os
    · simp only [e, if_true]; exact h
    · simp only [e, if_false]; exact List.Perm.refl l
  · simp [Oracle.order]

/-- the strict class: no map-ordered array in a literal, no object enumeration, no `sort`, distinct member keys
    (guaranteed by the parser); multi-select hashes and `let`s of any size -/
def StrictOK (n : INode) : Bool := n.all nodeOkS

/-- **Oracle theorem, strict part (whole evaluator).** For an expression that does not enumerate object members,
    on inputs without map-ordered arrays, EVERY run agrees with the model: a value of the model is the value of every
    run (strict equality), and an error set of the model contains the category every run reports. The model is never
    `nondet` here. -/
theorem oracle_strict {root cur : Val} {env : Env} {n : INode}
    (hroot : root.NoEnum = true) (hcur : cur.NoEnum = true) (henv : Env.NoEnum env = true) (hn : StrictOK n = true) :
    ieval root n cur env ≠ .nondet ∧
    (∀ r, ieval root n cur env = .ok r → ∀ π : Oracle, ievalO π root n cur env = .ok r) ∧
    (∀ cs, ieval root n cur env = .err cs → ∀ π : Oracle, ∃ c ∈ cs, ievalO π root n cur env = .err [c]) := by
  have key := fun π => SimS.iff.mp (ieval_simS hroot n cur env hn hcur henv π)
  refine ⟨(key Oracle.keyOrder).1, fun r hr π => ((key π).2.1 r hr).1, fun cs hc π => (key π).2.2 cs hc⟩

theorem evaluate_oracle_strict {d : Val} {n : INode} (hd : d.NoEnum = true) (hn : StrictOK n = true) :
    evaluate n d ≠ .nondet ∧
    (∀ r, evaluate n d = .ok r → ∀ π : Oracle, evaluateO π n d = .ok r) ∧
    (∀ cs, evaluate n d = .err cs → ∀ π : Oracle, ∃ c ∈ cs, evaluateO π n d = .err [c]) :=
  oracle_strict hd hd rfl hn

/-- `{a: abs(''), b: $x}`: the model reports two categories; each run reports one of them -/
def twoFaultsNode : INode := .selectObjectCurrent twoFaults
example : StrictOK twoFaultsNode = true := by decide
example : evaluate twoFaultsNode (.bool true) = .err [Cat.undefinedVariable, Cat.invalidType] := rfl
example : evaluateO Oracle.keyOrder twoFaultsNode (.bool true) = .err [Cat.invalidType] := rfl
example : evaluateO reverseOracle twoFaultsNode (.bool true) = .err [Cat.undefinedVariable] := rfl
example (π : Oracle) : ∃ c ∈ [Cat.undefinedVariable, Cat.invalidType],
    evaluateO π twoFaultsNode (.bool true) = .err [c] :=
  (evaluate_oracle_strict (d := .bool true) (n := twoFaultsNode) (by decide) (by decide)).2.2 _ rfl π
/-- `{a: @, b: @.x}` has the same value in every run -/
example (π : Oracle) : evaluateO π hash2 (.obj [([0x78], .bool true)]) =
    .ok (.obj [([0x61], .obj [([0x78], .bool true)]), ([0x62], .bool true)]) :=
  (evaluate_oracle_strict (d := .obj [([0x78], .bool true)]) (n := hash2) (by decide) (by decide)).2.1 _ rfl π

/-- **Equality up to the order of enumerated arrays**: `PermEnum r r'` holds when `r'` is `r` with every array that
    the model tagged `enum` (wildcard on objects, `keys`, `values`, `items`, and what is derived element-wise from
    them) replaced by a plain array holding the same elements, recursively related, in some order. -/
abbrev PermEnum (r r' : Val) : Prop := Conc r r'

/-- the covered class: literals without map-ordered arrays, distinct member keys (guaranteed by the parser), and none
    of the four builtins `sum`, `avg`, `max`, `min` (`Fn.coveredM`; see `max_not_covered` for why). Every node type
    is covered. -/
def EnumOK (n : INode) : Bool := n.all nodeOkE

/-- **Oracle theorem, enumerating part.** For every covered expression — object wildcards, `keys`, `values`, `items`,
    projections, filters, flattening, slices and indexes, pipes, multi-select lists and hashes, `let`, `sort`,
    `sort_by`, `max_by`, `min_by`, `group_by`, `map`, `merge`, `not_null`, `zip`, `from_items`, comparisons,
    arithmetic, the string builtins, `length`, `reverse`, `contains`, `join`, `to_string`, `to_array`, … (everything
    but `sum`, `avg`, `max`, `min`) — if the model's outcome is the value `r`, then EVERY run (every choice of the map
    iteration orders, independently at every enumeration) yields a value `r'` equal to `r` up to the order of the
    enumerated arrays. In particular this validates the model's side conditions: `sort_by` answers on a map-ordered
    array only for pairwise distinct keys, `max_by`/`min_by` only for a unique extremal key, `from_items` only without
    duplicate keys, `sort` only without ambiguous ties, `==`/`contains`/`to_string`/`join`/index/slice/`zip` only
    when no map-ordered array of two or more elements is involved. -/
theorem oracle_enum {root cur : Val} {env : Env} {n : INode}
    (hroot : root.NoEnum = true) (hcur : cur.NoEnum = true) (henv : Env.NoEnum env = true) (hn : EnumOK n = true)
    {r : Val} (h : ieval root n cur env = .ok r) :
    ∀ π : Oracle, ∃ r', ievalO π root n cur env = .ok r' ∧ PermEnum r r' :=
  fun π => ieval_simE (conc_refl root hroot) n cur cur env env hn (conc_refl cur hcur) (concF_refl env henv) π r h

/-- the same for inputs that already contain map-ordered arrays, against any concretisation of them -/
theorem oracle_enum_general {root root' cur cur' : Val} {env env' : Env} {n : INode}
    (hroot : PermEnum root root') (hcur : PermEnum cur cur') (henv : ConcF env env') (hn : EnumOK n = true)
    {r : Val} (h : ieval root n cur env = .ok r) :
    ∀ π : Oracle, ∃ r', ievalO π root' n cur' env' = .ok r' ∧ PermEnum r r' :=
  fun π => ieval_simE hroot n cur cur' env env' hn hcur henv π r h

theorem evaluate_oracle_enum {d : Val} {n : INode} (hd : d.NoEnum = true) (hn : EnumOK n = true) {r : Val}
    (h : evaluate n d = .ok r) : ∀ π : Oracle, ∃ r', evaluateO π n d = .ok r' ∧ PermEnum r r' :=
  oracle_enum hd hd rfl hn h

/-- **Strict equality when the result holds no enumerated array**: e.g. `length(keys(@))`, `sort(keys(@))`,
    `contains(values(@), 'x')`: all runs return exactly the model's value. -/
theorem oracle_enum_definite {d : Val} {n : INode} (hd : d.NoEnum = true) (hn : EnumOK n = true) {r : Val}
    (h : evaluate n d = .ok r) (hr : r.NoEnum = true) : ∀ π : Oracle, evaluateO π n d = .ok r := by
  intro π
  obtain ⟨r', h1, h2⟩ := evaluate_oracle_enum hd hn h π
  rw [h1, conc_eq_of_good r r' h2 hr]

/-- `PermEnum` is the identity on values without map-ordered arrays … -/
theorem permEnum_eq {r r' : Val} (h : PermEnum r r') (hr : r.NoEnum = true) : r' = r := conc_eq_of_good r r' h hr
/-- … and a run never produces one -/
theorem permEnum_noEnum {r r' : Val} (h : PermEnum r r') : r'.NoEnum = true := conc_good r r' h
/-- for a map-ordered array it says: the same elements (related in turn) in some order -/
theorem permEnum_enumArr {xs : List Val} {r' : Val} (h : PermEnum (.arr .enum xs) r') :
    ∃ xs' ys', r' = .arr .plain xs' ∧ xs'.Perm ys' ∧ All₂ PermEnum xs ys' := by
  obtain ⟨t', xs', rfl, _, ⟨ys', hl, hp⟩, _, h2⟩ := conc_arr h
  rw [h2 rfl]
  exact ⟨xs', ys', rfl, hp, concL_iff.mp hl⟩

/-! the four producers by themselves -/
theorem values_oracle (π : Oracle) (kvs : List (Bytes × Val)) :
    ∃ xs', valuesO π (.obj kvs) = .ok (.arr .plain xs') ∧ xs'.Perm (kvs.map Prod.snd) :=
  ⟨_, rfl, (π.members_perm kvs).map _⟩
theorem keys_oracle (π : Oracle) (kvs : List (Bytes × Val)) :
    ∃ xs', keysO π (.obj kvs) = .ok (.arr .plain xs') ∧ xs'.Perm (kvs.map fun kv => Val.str kv.1) :=
  ⟨_, rfl, (π.members_perm kvs).map _⟩
theorem items_oracle (π : Oracle) (kvs : List (Bytes × Val)) :
    ∃ xs', itemsO π (.obj kvs) = .ok (.arr .plain xs') ∧
      xs'.Perm (kvs.map fun kv => Val.arr .plain [Val.str kv.1, kv.2]) :=
  ⟨_, rfl, (π.members_perm kvs).map _⟩
theorem objectValues_oracle (π : Oracle) (kvs : List (Bytes × Val)) :
    ∃ xs', objectValuesO π (.obj kvs) = .arr .plain xs' ∧
      xs'.Perm ((kvs.map Prod.snd).filter fun x => !x.isNull) :=
  ⟨_, rfl, ((π.members_perm kvs).map _).filter _⟩

/-! examples -/
/-- `{"a": 1, "b": 2}` -/
def ab : Val := .obj [([0x61], .num (.jnum [0x31])), ([0x62], .num (.jnum [0x32]))]
/-- `values(@)`, `sort(keys(@))`, `length(*)` -/
def pValues : INode := .call .values [.current]
def pSortKeys : INode := .call .sort [.call .keys [.current]]
def pLenStar : INode := .call .length [.objectValuesCurrent]
example : EnumOK pValues = true := by decide
example : EnumOK pSortKeys = true := by decide
example : StrictOK pSortKeys = false := by decide
example : evaluate pValues ab = .ok (.arr .enum [.num (.jnum [0x31]), .num (.jnum [0x32])]) := rfl
example : evaluateO reverseOracle pValues ab = .ok (.arr .plain [.num (.jnum [0x32]), .num (.jnum [0x31])]) := rfl
/-- whatever the order, the run's `values(@)` is a permutation of the model's -/
example (π : Oracle) : ∃ r', evaluateO π pValues ab = .ok r' ∧
    PermEnum (.arr .enum [.num (.jnum [0x31]), .num (.jnum [0x32])]) r' :=
  evaluate_oracle_enum (d := ab) (n := pValues) (by decide) (by decide) rfl π
/-- `sort(keys(@))` is the same in every run -/
theorem sortKeys_ab : evaluate pSortKeys ab = .ok (.arr .plain [.str [0x61], .str [0x62]]) := by
  show sortArray (.arr .enum [.str [0x61], .str [0x62]]) = _
  simp [sortArray, allStrings, List.mergeSort, List.MergeSort.Internal.splitInTwo, bytesLt]
example (π : Oracle) : evaluateO π pSortKeys ab = .ok (.arr .plain [.str [0x61], .str [0x62]]) :=
  oracle_enum_definite (d := ab) (n := pSortKeys) (by decide) (by decide) sortKeys_ab (by decide) π
example (π : Oracle) : evaluateO π pLenStar ab = .ok (.num (.int .i64 2)) :=
  oracle_enum_definite (d := ab) (n := pLenStar) (by decide) (by decide) rfl (by decide) π

/-! ### the error half for the object wildcard -/

/-- **`*.c` with a body `c` that does not itself enumerate objects.** If the model reports the error set `cs`, then
    every run — the members visited in any order — reports one category, and it is in `cs`.
    (No side condition on the member outcomes is needed: `widen` answers `nondet` when some member's outcome is
    `nondet`/`panic`/`unmodelled`, see `widen_unsettled_nondet`, so `h` implies that every member outcome is a value or
    an error.) -/
theorem star_err_any_order {root : Val} {env : Env} {kvs : List (Bytes × Val)} {c : INode}
    (hroot : root.NoEnum = true) (hobj : (Val.obj kvs).NoEnum = true) (henv : Env.NoEnum env = true)
    (hc : StrictOK c = true) {cs : List Cat}
    (h : ieval root (.projectObjectCurrent c) (.obj kvs) env = .err cs) :
    ∀ π : Oracle, ∃ c' ∈ cs, ievalO π root (.projectObjectCurrent c) (.obj kvs) env = .err [c'] := by
  intro π
  simp only [ieval] at h
  simp only [ievalO]
  have hkv : Val.GoodF true kvs = true := good_obj.mp hobj
  refine projectObject_err_any_order (π.sub 1) (conc_refl _ hobj) ?_ h
  intro i x x' hm hx
  obtain ⟨kv, hkvm, rfl⟩ := List.mem_map.mp hm
  have hg : kv.2.Good true = true := goodF_iff.mp hkv kv hkvm
  have e := conc_eq_of_good _ _ hx hg
  subst e
  exact SimX.of_simS (ieval_simS hroot c kv.2 env hc hg henv _)

/-- the same for `[*]` over an array that may be map-ordered, with an arbitrary sub-expression relation -/
theorem projection_err_any_order {f : Val → Res Val} {g : Nat → Val → Res Val} {t : ATag} {xs : List Val} {v' : Val}
    (hv : PermEnum (.arr t xs) v') (hf : SimFnX xs f g) {cs : List Cat}
    (h : projectArray f (.arr t xs) = .err cs) : ∃ c ∈ cs, projectArrayO g v' = .err [c] :=
  projectArray_err_any_order hv hf h

/-- `*.abs(@)` on `{"a": "x", "b": true}`: both members fail with invalid-type; every run reports it -/
def pStarAbs : INode := .projectObjectCurrent (.call .abs [.current])
example (π : Oracle) : ∃ c' ∈ [Cat.invalidType],
    ievalO π .null pStarAbs (.obj [([0x61], .str [0x78]), ([0x62], .bool true)]) [] = .err [c'] :=
  star_err_any_order (root := .null) (env := []) (c := .call .abs [.current]) (by decide) (by decide) (by decide)
    (by decide) rfl π

/-! ### at the level of `Search` -/

/-- `Search` / `Compile` + `Expression.Search` in the run described by `π` -/
def searchO (π : Oracle) (expr : Bytes) (data : Val) : Res Val :=
  match Parser.parse expr with
  | .error .fuel => .unmodelled "parser fuel"
  | .error e => .err [parseCat e]
  | .ok n => evaluateO π n data

/-- **C15 for `Search`, strict part**: an expression whose compiled form does not enumerate object members has, on a
    JSON document, the same outcome in every run: equal values, and a reported fault among those the model lists.
    Failures of `Compile` do not depend on the document or on `π` at all. -/
theorem search_oracle_strict {expr : Bytes} {d : Val} (hd : d.NoEnum = true)
    (hn : ∀ n, compile expr = .ok n → StrictOK n = true) :
    search expr d ≠ .nondet ∧
    (∀ r, search expr d = .ok r → ∀ π : Oracle, searchO π expr d = .ok r) ∧
    (∀ cs, search expr d = .err cs → ∀ π : Oracle, ∃ c ∈ cs, searchO π expr d = .err [c]) := by
  unfold search searchO
  unfold compile at hn
  cases hp : Parser.parse expr with
  | ok n => exact evaluate_oracle_strict hd (hn n hp)
  | error e =>
    cases e <;> refine ⟨by simp, by simp, ?_⟩ <;> intro cs h π <;> cases h <;> exact ⟨_, by simp, rfl⟩

/-- **C15 for `Search`, enumerating part**: equality up to the order of the enumerated arrays. -/
theorem search_oracle_enum {expr : Bytes} {d : Val} (hd : d.NoEnum = true)
    (hn : ∀ n, compile expr = .ok n → EnumOK n = true) {r : Val} (h : search expr d = .ok r) :
    ∀ π : Oracle, ∃ r', searchO π expr d = .ok r' ∧ PermEnum r r' := by
  unfold search at h
  unfold searchO
  unfold compile at hn
  cases hp : Parser.parse expr with
  | ok n =>
    rw [hp] at h
    exact evaluate_oracle_enum hd (hn n hp) h
  | error e =>
    rw [hp] at h
    cases e <;> cases h

/-! ### why `max` / `min` (and `sum` / `avg`) are not covered -/

/-- `{"a": 1.0, "b": 1}` with the two numbers given as `decimal128` values of equal value and different
    representation (coefficient 10, exponent -1 / coefficient 1, exponent 0) -/
def decDoc : Val := .obj [([0x61], .num (.dec (.fin false 10 (-1)))), ([0x62], .num (.dec (.fin false 1 0)))]
def pMaxValues : INode := .call .max [.call .values [.current]]

/-- **Why `max`/`min` are excluded.** `max` of numbers returns the decimal of the FIRST greatest element. On a
    map-ordered array with two numbers of equal value but different representation the two runs return different
    `Val`s (both print as `1`), although the model — which only excludes NaN (`decsOrderFree`) — answers `.ok`. Such
    values cannot come from a JSON document (`Dec.parse` normalises), only from `decimal128` values passed in by a Go
    caller. `PermEnum` compares numbers structurally, so the oracle theorem does not extend to `max`/`min`;
    `sum`/`avg` would need the exactness of decimal sums (`sumOrderFree`), an arithmetic fact not proved here. -/
theorem max_not_covered :
    evaluate pMaxValues decDoc = .ok (.num (.dec (.fin false 10 (-1)))) ∧
    evaluateO reverseOracle pMaxValues decDoc = .ok (.num (.dec (.fin false 1 0))) ∧
    toStringV (.num (.dec (.fin false 10 (-1)))) = toStringV (.num (.dec (.fin false 1 0))) := by
  exact ⟨rfl, rfl, rfl⟩

/-! examples with the expression-argument functions -/
/-- `sort_by(values(@), &@)`, `max_by(values(@), &@)`, `group_by(values(@), &@)` -/
def pSortByValues : INode := .sortBy (.call .values [.current]) .current
def pMaxByValues : INode := .maxBy (.call .values [.current]) .current
def pGroupByKeys : INode := .groupBy (.call .keys [.current]) .current
example : EnumOK pSortByValues = true := by decide
example : EnumOK pMaxByValues = true := by decide
example : EnumOK pGroupByKeys = true := by decide
example : EnumOK pMaxValues = false := by decide
/-- `max_by(values({"a": 1, "b": 2}), &@)` is `2` in every run -/
example (π : Oracle) : evaluateO π pMaxByValues ab = .ok (.num (.jnum [0x32])) :=
  oracle_enum_definite (d := ab) (n := pMaxByValues) (by decide) (by decide) rfl (by decide) π

end Jmes.C15B
