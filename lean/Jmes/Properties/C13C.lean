/-
  C13C — third wave for C13 (`sort`, `sort_by`, `min`/`max`, `min_by`/`max_by` order by value, stably).

  1. "ordered by numeric value" means the MATHEMATICAL value: for JSON numbers that fit decimal128 (at most 34
     significant digits, exponent in range: `C20B.Fits`) the order of `sort` (`C13B.vle`) is `≤` on the rational values
     of the texts (`vle_iff_ratVal`); for numbers of any kinds it is `≤` on the values of `C20C.numX`
     (`C20C.vle_iff_numX`).  Beyond 34 digits the ROUNDED values are compared: a 36-digit example where the order of
     the values and the order used by `sort` differ is recorded (`vle_36_digits`).
  2. the statements of C13/C13B about `sortArrayBy`, `sortArray`, `arrayMaxBy`, `arrayMinBy` are lifted to expression
     TEXT through `Parser.parse` / `search`: for the text `sort_by(@, &K)` (any well-formed key expression `K`, in
     particular a field name), `sort(@)`, `max_by(@, &K)`, `min_by(@, &K)`, on an array document.
-/
import Jmes.Proofs.C13CLemmas
import Jmes.Properties.C20C
namespace Jmes.C13C
open Jmes Jmes.C13 Jmes.Parser Jmes.Grammar Jmes.C17B Jmes.Grammar.Ex Jmes.C20 Jmes.C20B Jmes.C20C

/-! ## 1. The order of `sort` on JSON numbers is the order of their rational values -/

/-- a JSON number as the evaluator holds it -/
def jn (t : Bytes) : Val := .num (.jnum t)

/-- **for number texts that fit, `vle` is `≤` on the rational values of the texts** (`ratVal t`: the text read as
    digits · 10^exponent, in normal form; nothing of the decimal model is involved) -/
theorem vle_iff_ratVal {t1 t2 : Bytes} (h1 : Fits t1) (h2 : Fits t2) :
    C13B.vle (jn t1) (jn t2) = true ↔ ratLe (ratVal t1) (ratVal t2) := by
  obtain ⟨p, hp, hpn⟩ := numRat_jnum_fits h1
  obtain ⟨q, hq, hqn⟩ := numRat_jnum_fits h2
  unfold jn
  rw [vle_iff_numRat (numOk_regular h1.regular) (numOk_regular h2.regular) (.inl h1.regular) (.inl h2.regular) hp hq,
    ← hpn, ← hqn, ratLe_norm]

/-- the same with the unnormalised pairs: `m1 · 10^e1 ≤ m2 · 10^e2` -/
theorem vle_iff_ratRaw {t1 t2 : Bytes} (h1 : Fits t1) (h2 : Fits t2) :
    C13B.vle (jn t1) (jn t2) = true ↔ ratLe (ratRaw t1) (ratRaw t2) := by
  rw [vle_iff_ratVal h1 h2]
  exact ratLe_norm _ _

/-- `2 ≤ 10` (by value, not by spelling), `10 ≰ 2`; `1.0` and `1` are tied; `-1 ≤ 0.5` -/
example : C13B.vle (jn (bs "2")) (jn (bs "10")) = true ∧ C13B.vle (jn (bs "10")) (jn (bs "2")) = false ∧
    C13B.vle (jn (bs "1.0")) (jn (bs "1")) = true ∧ C13B.vle (jn (bs "1")) (jn (bs "1.0")) = true ∧
    C13B.vle (jn (bs "-1")) (jn (bs "0.5")) = true := by
  refine ⟨(vle_iff_ratVal (by decide) (by decide)).mpr (by decide), ?_,
    (vle_iff_ratVal (by decide) (by decide)).mpr (by decide), (vle_iff_ratVal (by decide) (by decide)).mpr (by decide),
    (vle_iff_ratVal (by decide) (by decide)).mpr (by decide)⟩
  rw [Bool.eq_false_iff, Ne, vle_iff_ratVal (by decide) (by decide)]
  decide

/-- `100000000000000000000000000000000001` (36 digits) and `100000000000000000000000000000000000` -/
def a36 : Bytes := C20B.digits 100000000000000000000000000000000001
def b36 : Bytes := C20B.digits 100000000000000000000000000000000000

/-- **beyond 34 digits the rounded values are compared.**  `a36 > b36` as numbers, but both round to `1e35`, so `sort`
    sees a tie: `vle a36 b36` holds although the value of `a36` is not `≤` the value of `b36`.  (In general, for
    regular texts of any length, `vle` is `ratLe` of the `round34`-rounded values: `C20C.vle_iff_numRat`.) -/
theorem vle_36_digits : Regular a36 ∧ Regular b36 ∧ ¬ Fits a36 ∧
    C13B.vle (jn a36) (jn b36) = true ∧ C13B.vle (jn b36) (jn a36) = true ∧
    ¬ ratLe (ratVal a36) (ratVal b36) ∧ ratLe (ratVal b36) (ratVal a36) ∧
    numRat (.jnum a36) = some (10000000000000000000000000000000000, 1) ∧
    numRat (.jnum b36) = some (10000000000000000000000000000000000, 1) := by
  have ra : Regular a36 := by decide
  have rb : Regular b36 := by decide
  refine ⟨ra, rb, by decide, ?_, ?_, by decide, by decide, by decide, by decide⟩
  · exact (vle_iff_numRat (a := .jnum a36) (b := .jnum b36) (numOk_regular ra) (numOk_regular rb) (.inl ra) (.inl rb)
      rfl rfl).mpr (by decide)
  · exact (vle_iff_numRat (a := .jnum b36) (b := .jnum a36) (numOk_regular rb) (numOk_regular ra) (.inl rb) (.inl ra)
      rfl rfl).mpr (by decide)

/-! ## 2. On expression text -/

def sortByTok : Token := ⟨.unquotedIdentifier, bs "sort_by"⟩
def maxByTok : Token := ⟨.unquotedIdentifier, bs "max_by"⟩
def minByTok : Token := ⟨.unquotedIdentifier, bs "min_by"⟩
def sortTok : Token := ⟨.unquotedIdentifier, bs "sort"⟩

/-- the tokens of `name(@, &K)` -/
def byToks (name : Token) (K : PTree) : List Token :=
  name :: tLParen :: tCur :: tComma :: tAmp :: (Grammar.flatten K ++ [tRParen])

/-! ### `sort_by(@, &K)` -/

/-- **`sort_by(@, &K)`** for any well-formed key expression `K`: the node, and `search` is `sortArrayBy` of the
    document with the key function "evaluate `K` on the element" -/
theorem sort_by_text {K : PTree} (hK : WellPrec K) {e : Bytes} (hlex : Lexes e (byToks sortByTok K)) :
    Parser.parse e = .ok (.sortBy .current (erase K)) ∧
    ∀ d, search e d = sortArrayBy (fun x => ieval d (erase K) x []) d := by
  obtain ⟨hp, hs⟩ := by_text (name := sortByTok) (mk := .sortBy) rfl (by rfl) hK hlex
  refine ⟨hp, fun d => ?_⟩
  rw [hs d]
  simp only [evaluate_eq, ieval, Res.ok_bind]

/-- **the text `sort_by(@, &K)` on an array document sorts stably, for arrays of any length.**  When `search` answers
    `r` on the non-empty array `xs` there are keys `ks` — one per element, all strings or all numbers, `ks[i]` being
    the key of the value of `K` on `xs[i]` — and a permutation `σ` of the indices `0 … n-1` such that
      * `r` is the plain array of `xs` read in the order `σ`,
      * the keys read in the order `σ` never decrease, and
      * whenever `i < j` and `ks[j]` is not smaller than `ks[i]` (in particular: equal keys, e.g. `1` and `1.0`),
        index `i` comes before index `j` in `σ`: ties keep their original relative order. -/
theorem sort_by_text_stable {K : PTree} (hK : WellPrec K) {e : Bytes} (hlex : Lexes e (byToks sortByTok K))
    (t : ATag) (xs : List Val) (hne : xs ≠ []) {r : Val} (h : search e (.arr t xs) = .ok r) :
    ∃ (ks : List Key) (σ : List Nat), ks.length = xs.length ∧ Key.Homog ks ∧
      (∀ (i : Nat) (hi : i < xs.length) (hk : i < ks.length),
        ∃ v, ieval (.arr t xs) (erase K) xs[i] [] = .ok v ∧ keyOfVal v = some ks[i]) ∧
      σ.Perm (List.range xs.length) ∧
      r = .arr .plain (σ.map (fun i => xs.getD i .null)) ∧
      (σ.map (fun i => ks.getD i (Key.s []))).Pairwise (fun a b => Key.lt b a = false) ∧
      ∀ (i j : Nat) (hij : i < j) (hj : j < ks.length), Key.lt ks[j] ks[i] = false → σ.idxOf i < σ.idxOf j := by
  rw [(sort_by_text hK hlex).2] at h
  rcases sortArrayBy_ok_char h with ⟨h1, _⟩ | ⟨_, ks, hks, hl, hh, hr⟩
  · exact absurd h1 hne
  · obtain ⟨σ, h1, h2, h3, h4⟩ := C13B.sortByKeys_stable_positions xs ks hl.symm hh
    exact ⟨ks, σ, hl, hh, keysOf_get hks, h1, by rw [hr, h2], h3, h4⟩

/-- on the empty array `sort_by(@, &K)` returns the array itself -/
theorem sort_by_text_empty {K : PTree} (hK : WellPrec K) {e : Bytes} (hlex : Lexes e (byToks sortByTok K)) (t : ATag) :
    search e (.arr t []) = .ok (.arr t []) := by
  rw [(sort_by_text hK hlex).2]; rfl

/-- **`sort_by(@, &k)` for a field name `k`**: the keys are the `k` members of the elements -/
theorem sort_by_field_text {k : Token} (hk : k.type = .unquotedIdentifier) {e : Bytes}
    (hlex : Lexes e [sortByTok, tLParen, tCur, tComma, tAmp, k, tRParen])
    (t : ATag) (xs : List Val) (hne : xs ≠ []) {r : Val} (h : search e (.arr t xs) = .ok r) :
    ∃ (ks : List Key) (σ : List Nat), ks.length = xs.length ∧ Key.Homog ks ∧
      (∀ (i : Nat) (hi : i < xs.length) (hk : i < ks.length), keyOfVal (field k.value xs[i]) = some ks[i]) ∧
      σ.Perm (List.range xs.length) ∧
      r = .arr .plain (σ.map (fun i => xs.getD i .null)) ∧
      (σ.map (fun i => ks.getD i (Key.s []))).Pairwise (fun a b => Key.lt b a = false) ∧
      ∀ (i j : Nat) (hij : i < j) (hj : j < ks.length), Key.lt ks[j] ks[i] = false → σ.idxOf i < σ.idxOf j := by
  have hK : WellPrec (.atom k) := by
    show wp false (.atom k) = true
    simp [wp, atomNode, hk]
  have he : erase (.atom k) = .field k.value := by simp [erase, atomNode, hk]
  obtain ⟨ks, σ, h1, h2, h3, h4⟩ := sort_by_text_stable (K := .atom k) hK (hlex.congr rfl) t xs hne h
  refine ⟨ks, σ, h1, h2, fun i hi hk' => ?_, h4⟩
  obtain ⟨v, hv, hkv⟩ := h3 i hi hk'
  rw [he] at hv
  simp only [ieval] at hv
  cases hv
  exact hkv

section Examples

private def o (k : String) (v : String) : Val := .obj [(bs "k", .num (.jnum (bs k))), (bs "v", .str (bs v))]
/-- `[{"k":2,"v":"a"}, {"k":1,"v":"b"}, {"k":2.0,"v":"c"}, {"k":1.00,"v":"d"}]` -/
private def docS : Val := .arr .plain [o "2" "a", o "1" "b", o "2.0" "c", o "1.00" "d"]

/-- `sort_by(@, &k)`: `b, d` (keys `1`, `1.00`) before `a, c` (keys `2`, `2.0`), each tie in its original order -/
private theorem sort_by_docS :
    search (bs "sort_by(@, &k)") docS = .ok (.arr .plain [o "1" "b", o "1.00" "d", o "2" "a", o "2.0" "c"]) := by
  rw [(sort_by_text (K := idt "k") (by decide) (by decide)).2 docS]
  have hf : (fun x => ieval docS (erase (idt "k")) x []) = fun x => Res.ok (field (bs "k") x) := by
    funext x; rfl
  rw [hf]
  have f1 : field (bs "k") (o "2" "a") = .num (.jnum (bs "2")) := rfl
  have f2 : field (bs "k") (o "1" "b") = .num (.jnum (bs "1")) := rfl
  have f3 : field (bs "k") (o "2.0" "c") = .num (.jnum (bs "2.0")) := rfl
  have f4 : field (bs "k") (o "1.00" "d") = .num (.jnum (bs "1.00")) := rfl
  have d1 : toDecimal (.num (.jnum (bs "2"))) = some (.fin false 2 0) := by decide
  have d2 : toDecimal (.num (.jnum (bs "1"))) = some (.fin false 1 0) := by decide
  have d3 : toDecimal (.num (.jnum (bs "2.0"))) = some (.fin false 2 0) := by decide
  have d4 : toDecimal (.num (.jnum (bs "1.00"))) = some (.fin false 1 0) := by decide
  have c12 : Dec.compare (.fin false 1 0) (.fin false 2 0) = -1 := by decide
  have c11 : Dec.compare (.fin false 1 0) (.fin false 1 0) = 0 := by decide
  have c22 : Dec.compare (.fin false 2 0) (.fin false 2 0) = 0 := by decide
  simp [docS, sortArrayBy, widen, enum2, keysOf, keysFrom, f1, f2, f3, f4, d1, d2, d3, d4, sortByKeys, List.mergeSort,
    List.MergeSort.Internal.splitInTwo, Key.lt, c12, c11, c22]

example : search (bs "sort_by(@, &k)") docS = .ok (.arr .plain [o "1" "b", o "1.00" "d", o "2" "a", o "2.0" "c"]) :=
  sort_by_docS

/-- the theorem on that document: the elements at indices 0 and 2 have the equal keys `2` and `2.0`, so index 0 is
    placed before index 2 -/
example : ∃ σ : List Nat, σ.Perm (List.range 4) ∧
    search (bs "sort_by(@, &k)") docS =
      .ok (.arr .plain (σ.map (fun i => [o "2" "a", o "1" "b", o "2.0" "c", o "1.00" "d"].getD i .null))) ∧
    σ.idxOf 0 < σ.idxOf 2 := by
  obtain ⟨ks, σ, h1, _, h3, h4, h5, _, h7⟩ := sort_by_field_text (k := ⟨.unquotedIdentifier, bs "k"⟩) rfl (by decide)
    .plain [o "2" "a", o "1" "b", o "2.0" "c", o "1.00" "d"] (by simp) sort_by_docS
  have l4 : ks.length = 4 := h1
  refine ⟨σ, h4, by rw [← h5]; exact sort_by_docS, h7 0 2 (by decide) (by omega) ?_⟩
  have k0 := h3 0 (by decide) (by omega)
  have k2 := h3 2 (by decide) (by omega)
  have e0 : keyOfVal (field (bs "k") (o "2" "a")) = some (Key.n (.fin false 2 0)) := by rfl
  have e2 : keyOfVal (field (bs "k") (o "2.0" "c")) = some (Key.n (.fin false 2 0)) := by rfl
  have k0' : ks[0] = Key.n (.fin false 2 0) := (Option.some.inj (k0.symm.trans e0))
  have k2' : ks[2] = Key.n (.fin false 2 0) := (Option.some.inj (k2.symm.trans e2))
  rw [k0', k2']
  rfl

end Examples

/-! ### `max_by(@, &K)`, `min_by(@, &K)` -/

theorem max_by_text {K : PTree} (hK : WellPrec K) {e : Bytes} (hlex : Lexes e (byToks maxByTok K)) :
    Parser.parse e = .ok (.maxBy .current (erase K)) ∧
    ∀ d, search e d = arrayMaxBy (fun x => ieval d (erase K) x []) d := by
  obtain ⟨hp, hs⟩ := by_text (name := maxByTok) (mk := .maxBy) rfl (by rfl) hK hlex
  refine ⟨hp, fun d => ?_⟩
  rw [hs d]
  simp only [evaluate_eq, ieval, Res.ok_bind]

theorem min_by_text {K : PTree} (hK : WellPrec K) {e : Bytes} (hlex : Lexes e (byToks minByTok K)) :
    Parser.parse e = .ok (.minBy .current (erase K)) ∧
    ∀ d, search e d = arrayMinBy (fun x => ieval d (erase K) x []) d := by
  obtain ⟨hp, hs⟩ := by_text (name := minByTok) (mk := .minBy) rfl (by rfl) hK hlex
  refine ⟨hp, fun d => ?_⟩
  rw [hs d]
  simp only [evaluate_eq, ieval, Res.ok_bind]

/-- **the text `max_by(@, &K)` returns the FIRST element with a maximal key**: when it answers `v` on a non-empty
    array there are keys `ks` (the values of `K`, element by element) and an index `i` with `v = xs[i]` such that no
    key is greater than `ks[i]` and (no NaN key) every earlier key is strictly smaller -/
theorem max_by_text_first {K : PTree} (hK : WellPrec K) {e : Bytes} (hlex : Lexes e (byToks maxByTok K))
    (t : ATag) (xs : List Val) (hne : xs ≠ []) {v : Val} (h : search e (.arr t xs) = .ok v) :
    ∃ ks : List Key, ks.length = xs.length ∧
      (∀ (i : Nat) (hi : i < xs.length) (hk : i < ks.length),
        ∃ w, ieval (.arr t xs) (erase K) xs[i] [] = .ok w ∧ keyOfVal w = some ks[i]) ∧
      ∃ (i : Nat) (hi : i < xs.length) (hk : i < ks.length), v = xs[i] ∧
        (∀ (j : Nat) (hj : j < ks.length), Key.gtMax ks[j] ks[i] = false) ∧
        ((∀ k' ∈ ks, k'.notNaN) → ∀ (j : Nat) (hj : j < i), Key.gtMax ks[i] (ks[j]'(by omega)) = true) := by
  rw [(max_by_text hK hlex).2] at h
  obtain ⟨ks, hks, hl, i, hi, hk, hv, h1, h2⟩ := C13B.arrayMaxBy_first hne h
  exact ⟨ks, hl, keysOf_get hks, i, hi, hk, hv, h1, h2⟩

/-- **the text `min_by(@, &K)` returns the FIRST element with a minimal key** -/
theorem min_by_text_first {K : PTree} (hK : WellPrec K) {e : Bytes} (hlex : Lexes e (byToks minByTok K))
    (t : ATag) (xs : List Val) (hne : xs ≠ []) {v : Val} (h : search e (.arr t xs) = .ok v) :
    ∃ ks : List Key, ks.length = xs.length ∧
      (∀ (i : Nat) (hi : i < xs.length) (hk : i < ks.length),
        ∃ w, ieval (.arr t xs) (erase K) xs[i] [] = .ok w ∧ keyOfVal w = some ks[i]) ∧
      ∃ (i : Nat) (hi : i < xs.length) (hk : i < ks.length), v = xs[i] ∧
        (∀ (j : Nat) (hj : j < ks.length), Key.ltMin ks[j] ks[i] = false) ∧
        ((∀ k' ∈ ks, k'.notNaN) → ∀ (j : Nat) (hj : j < i), Key.ltMin ks[i] (ks[j]'(by omega)) = true) := by
  rw [(min_by_text hK hlex).2] at h
  obtain ⟨ks, hks, hl, i, hi, hk, hv, h1, h2⟩ := C13B.arrayMinBy_first hne h
  exact ⟨ks, hl, keysOf_get hks, i, hi, hk, hv, h1, h2⟩

/-- on the empty array both return null -/
theorem max_min_by_text_empty {K : PTree} (hK : WellPrec K) {e e' : Bytes} (hlex : Lexes e (byToks maxByTok K))
    (hlex' : Lexes e' (byToks minByTok K)) (t : ATag) :
    search e (.arr t []) = .ok .null ∧ search e' (.arr t []) = .ok .null := by
  rw [(max_by_text hK hlex).2, (min_by_text hK hlex').2]
  exact ⟨rfl, rfl⟩

section Examples
/-- `max_by(@, &k)` on `[{"k":2,"v":"a"}, {"k":1,"v":"b"}, {"k":2.0,"v":"c"}, {"k":1.00,"v":"d"}]` is the FIRST of the
    two elements with key 2, `min_by` the first with key 1 -/
example : search (bs "max_by(@, &k)") docS = .ok (o "2" "a") ∧ search (bs "min_by(@, &k)") docS = .ok (o "1" "b") :=
  ⟨((max_by_text (K := idt "k") (by decide) (by decide)).2 docS).trans (by rfl),
   ((min_by_text (K := idt "k") (by decide) (by decide)).2 docS).trans (by rfl)⟩
end Examples

/-! ### `sort(@)` -/

/-- **`sort(@)`**: the node, and `search` is `sortArray` of the document -/
theorem sort_text {e : Bytes} (hlex : Lexes e [sortTok, tLParen, tCur, tRParen]) :
    Parser.parse e = .ok (.call .sort [.current]) ∧ ∀ d, search e d = sortArray d := by
  have hw : WellPrec (curTree sortTok) := by decide
  obtain ⟨hp, hs⟩ := text hw (hlex.congr (flatten_curTree sortTok).symm)
  have he : erase (curTree sortTok) = .call .sort [.current] := by rfl
  rw [he] at hp hs
  refine ⟨hp, fun d => ?_⟩
  rw [hs d]
  simp only [evaluate_eq, ieval, ievalList, Res.ok_bind, Res.pure_eq, applyFn]

/-- **`sort(@)` on an array of numbers**: an answer is a plain array holding a permutation of the input in
    non-decreasing order of value, and it is the only such permutation (so it does not depend on the — unstable —
    algorithm Go uses) -/
theorem sort_text_numbers {e : Bytes} (hlex : Lexes e [sortTok, tLParen, tCur, tRParen]) (t : ATag) (x : Val)
    (rest : List Val) (hx : ¬ IsStr x) {r : Val} (h : search e (.arr t (x :: rest)) = .ok r) :
    ∃ ys, r = .arr .plain ys ∧ ys.Perm (x :: rest) ∧ ys.Pairwise (fun a b => C13B.vle a b = true) ∧
      ∀ zs, C13B.SortedPerm (x :: rest) zs → zs = ys := by
  rw [(sort_text hlex).2] at h
  obtain ⟨ys, h1, h2, h3⟩ := C13B.sortArray_ok_unique hx h
  exact ⟨ys, h1, h2.1, h2.2, h3⟩

/-- **`sort(@)` on an array of JSON numbers that fit decimal128 orders them by their mathematical value**: the answer
    is a permutation `us` of the texts with `ratVal` non-decreasing (`ratLe`: `m1·10^e1 ≤ m2·10^e2`) -/
theorem sort_text_fits {e : Bytes} (hlex : Lexes e [sortTok, tLParen, tCur, tRParen]) (t : ATag) (ts : List Bytes)
    (hne : ts ≠ []) (hf : ∀ u ∈ ts, Fits u) {r : Val} (h : search e (.arr t (ts.map jn)) = .ok r) :
    ∃ us : List Bytes, r = .arr .plain (us.map jn) ∧ us.Perm ts ∧
      us.Pairwise (fun a b => ratLe (ratVal a) (ratVal b)) := by
  cases ts with
  | nil => exact absurd rfl hne
  | cons u ts =>
    obtain ⟨ys, h1, h2, h3, -⟩ := sort_text_numbers hlex t (jn u) (ts.map jn) (by rintro ⟨s, hs⟩; cases hs)
      (by simpa using h)
    let un : Val → Bytes := fun v => match v with | .num (.jnum b) => b | _ => []
    have hun : ∀ b, un (jn b) = b := fun _ => rfl
    have hmem : ∀ y ∈ ys, ∃ b ∈ u :: ts, y = jn b := by
      intro y hy
      have := h2.mem_iff.mp hy
      rw [← List.map_cons, List.mem_map] at this
      obtain ⟨b, hb, rfl⟩ := this
      exact ⟨b, hb, rfl⟩
    have hys : ys = (ys.map un).map jn := by
      rw [List.map_map]
      conv => lhs; rw [← List.map_id ys]
      apply List.map_congr_left
      intro y hy
      obtain ⟨b, _, rfl⟩ := hmem y hy
      simp [hun]
    refine ⟨ys.map un, by rw [h1, ← hys], ?_, ?_⟩
    · have := h2.map un
      rw [← List.map_cons, List.map_map] at this
      have hid : (un ∘ jn) = id := funext hun
      rwa [hid, List.map_id] at this
    · rw [List.pairwise_map]
      refine h3.imp_of_mem ?_
      intro a b ha hb hab
      obtain ⟨a', ha', rfl⟩ := hmem a ha
      obtain ⟨b', hb', rfl⟩ := hmem b hb
      simp only [hun]
      exact (vle_iff_ratVal (hf a' ha') (hf b' hb')).mp hab

section Examples
/-- `sort(@)` on `[10, 2, 1.5e1, -3]` is `[-3, 2, 10, 1.5e1]`: by value, not by spelling -/
private theorem sort_docN :
    search (bs "sort(@)") (.arr .plain ([bs "10", bs "2", bs "1.5e1", bs "-3"].map jn)) =
      .ok (.arr .plain ([bs "-3", bs "2", bs "10", bs "1.5e1"].map jn)) := by
  rw [(sort_text (by decide)).2]
  have d1 : toDecimal (jn (bs "10")) = some (.fin false 1 1) := by decide
  have d2 : toDecimal (jn (bs "2")) = some (.fin false 2 0) := by decide
  have d3 : toDecimal (jn (bs "1.5e1")) = some (.fin false 15 0) := by decide
  have d4 : toDecimal (jn (bs "-3")) = some (.fin true 3 0) := by decide
  have c12 : Dec.compare (.fin false 1 1) (.fin false 2 0) = 1 := by decide
  have c34 : Dec.compare (.fin false 15 0) (.fin true 3 0) = 1 := by decide
  have c24 : Dec.compare (.fin false 2 0) (.fin true 3 0) = 1 := by decide
  have c23 : Dec.compare (.fin false 2 0) (.fin false 15 0) = -1 := by decide
  have c13 : Dec.compare (.fin false 1 1) (.fin false 15 0) = -1 := by decide
  have c42 : Dec.compare (.fin true 3 0) (.fin false 2 0) = -1 := by decide
  have c21 : Dec.compare (.fin false 2 0) (.fin false 1 1) = -1 := by decide
  simp [sortArray, allDecimals, d1, d2, d3, d4, List.mergeSort, List.MergeSort.Internal.splitInTwo,
    hasAmbiguousTie, c12, c34, c24, c23, c13, c42, c21]
  rfl

example : search (bs "sort(@)") (.arr .plain [jn (bs "10"), jn (bs "2"), jn (bs "1.5e1"), jn (bs "-3")]) =
    .ok (.arr .plain [jn (bs "-3"), jn (bs "2"), jn (bs "10"), jn (bs "1.5e1")]) := sort_docN

example : ∃ us : List Bytes, us.Perm [bs "10", bs "2", bs "1.5e1", bs "-3"] ∧
    search (bs "sort(@)") (.arr .plain ([bs "10", bs "2", bs "1.5e1", bs "-3"].map jn)) = .ok (.arr .plain (us.map jn)) ∧
    us.Pairwise (fun a b => ratLe (ratVal a) (ratVal b)) := by
  obtain ⟨us, h1, h2, h3⟩ := sort_text_fits (by decide) .plain _ (by simp) (by decide) sort_docN
  exact ⟨us, h2, by rw [sort_docN, h1], h3⟩
end Examples

end Jmes.C13C
