/-
  C20 — `==` is an equivalence on JSON values (member-wise on containers, objects regardless of member order,
  numbers by value, never across JSON types); `!=` is its negation and `contains()` uses the same relation.
  Exactly null, false, "", [] and {} are false-like, and `!`, `&&`, `||` and filter predicates use that one
  rule; `&&` / `||` return one of their operands unchanged.
-/
import Jmes.Proofs.Equal
namespace Jmes.C20

/-! ## JSON values -/

/-- a number that `toDecimal` understands and that is not NaN -/
def NumOk (n : Num) : Prop := ∃ d, toDecimal (.num n) = some d ∧ d ≠ .nan

/-- an object's member list has no duplicate keys -/
def ObjOk (kvs : List (Bytes × Val)) : Prop := (kvs.map Prod.fst).Nodup

mutual
/-- the values a JSON document (or the evaluator working on one) can produce: no `foreign`, numbers are real
    numbers, object keys are unique.  Arrays may carry any tag. -/
def JsonVal : Val → Prop
  | .null => True
  | .bool _ => True
  | .str _ => True
  | .num n => NumOk n
  | .arr _ xs => JsonValL xs
  | .obj kvs => ObjOk kvs ∧ JsonValF kvs
  | .foreign _ => False
def JsonValL : List Val → Prop
  | [] => True
  | x :: xs => JsonVal x ∧ JsonValL xs
def JsonValF : List (Bytes × Val) → Prop
  | [] => True
  | (_, x) :: kvs => JsonVal x ∧ JsonValF kvs
end

theorem JsonValL_iff : ∀ {xs : List Val}, JsonValL xs ↔ ∀ x ∈ xs, JsonVal x
  | [] => by simp [JsonValL]
  | x :: xs => by simp [JsonValL, JsonValL_iff (xs := xs)]

theorem JsonValF_iff : ∀ {kvs : List (Bytes × Val)}, JsonValF kvs ↔ ∀ k x, (k, x) ∈ kvs → JsonVal x
  | [] => by simp [JsonValF]
  | (k, x) :: kvs => by
    simp only [JsonValF, JsonValF_iff (kvs := kvs), List.mem_cons, Prod.mk.injEq]
    constructor
    · rintro ⟨h1, h2⟩ k' x' (⟨_, rfl⟩ | hm)
      · exact h1
      · exact h2 k' x' hm
    · intro h
      exact ⟨h k x (Or.inl ⟨rfl, rfl⟩), fun k' x' hm => h k' x' (Or.inr hm)⟩

/-- the six JSON types (and a seventh tag for non-JSON Go values) -/
def jsonType : Val → Nat
  | .null => 0
  | .bool _ => 1
  | .str _ => 2
  | .num _ => 3
  | .arr _ _ => 4
  | .obj _ => 5
  | .foreign _ => 6

/-! concrete values used by the non-vacuity examples -/

/-- `1` as a decimal, `1.0` as a decimal with another representation, `1` as a Go `int`, `2` -/
def one : Val := .num (.dec (.fin false 1 0))
def onePointZero : Val := .num (.dec (.fin false 10 (-1)))
def oneInt : Val := .num (.int .int 1)
def two : Val := .num (.dec (.fin false 2 0))
def negZero : Val := .num (.dec (.fin true 0 0))
def zero : Val := .num (.dec (.fin false 0 5))
def kA : Bytes := [0x61]
def kB : Bytes := [0x62]
/-- `{"a": 1, "b": [true, "x"]}` and the same object with its members in the other order and `1.0` for `1` -/
def objAB : Val := .obj [(kA, one), (kB, .arr .plain [.bool true, .str [0x78]])]
def objBA : Val := .obj [(kB, .arr .plain [.bool true, .str [0x78]]), (kA, onePointZero)]
def objAB' : Val := .obj [(kA, oneInt), (kB, .arr .nil [.bool true, .str [0x78]])]

theorem numOk_dec {d : Dec} (h : d ≠ .nan) : NumOk (.dec d) := ⟨d, rfl, h⟩

theorem jv_one : JsonVal one := numOk_dec (by decide)
theorem jv_onePointZero : JsonVal onePointZero := numOk_dec (by decide)
theorem jv_oneInt : JsonVal oneInt := ⟨Dec.ofInt 1, rfl, by decide⟩
theorem jv_objAB : JsonVal objAB := by
  simp only [objAB, JsonVal, JsonValF, JsonValL, ObjOk, and_true]
  exact ⟨by decide, jv_one⟩
theorem jv_objBA : JsonVal objBA := by
  simp only [objBA, JsonVal, JsonValF, JsonValL, ObjOk, and_true, true_and]
  exact ⟨by decide, jv_onePointZero⟩
theorem jv_objAB' : JsonVal objAB' := by
  simp only [objAB', JsonVal, JsonValF, JsonValL, ObjOk, and_true]
  exact ⟨by decide, jv_oneInt⟩

/-! ## `==` never equates values of different JSON types -/

theorem equal_num_left_false (n : Num) (y : Val) (h : toDecimal y = none) : equal (.num n) y = false := by
  cases he : equal (.num n) y with
  | false => rfl
  | true =>
    obtain ⟨_, _, _, hy, _⟩ := (equal_num_left_iff n y).mp he
    rw [h] at hy; cases hy

/-- values of different JSON type are never equal (this needs no well-formedness at all) -/
theorem equal_type_strict (a b : Val) (h : jsonType a ≠ jsonType b) : equal a b = false := by
  cases a with
  | num n =>
    cases b with
    | num m => simp [jsonType] at h
    | _ => exact equal_num_left_false _ _ rfl
  | _ => cases b <;> first | (simp [jsonType] at h; done) | simp [equal, Val.isNull]

/-! ## `==` is an equivalence relation on JSON values -/

/-- reflexivity -/
theorem equal_refl : ∀ v, JsonVal v → equal v v = true := by
  intro v
  induction v using Val.ind_mem with
  | null => intro _; rfl
  | bool b => intro _; simp [equal]
  | str s => intro _; simp [equal]
  | num n =>
    rintro ⟨d, hd, hn⟩
    exact (equal_num_left_iff n _).mpr ⟨d, d, hd, hd, Dec.equal_self hn⟩
  | arr t xs ih =>
    intro h
    simp only [JsonVal] at h
    simp only [equal]
    exact equalL_refl_of fun x hx => ih x hx (JsonValL_iff.mp h x hx)
  | obj kvs ih =>
    intro h
    simp only [JsonVal] at h
    simp only [equal, Bool.and_eq_true, beq_self_eq_true, true_and]
    exact equalF_refl_of h.1 fun k x hm => ih k x hm (JsonValF_iff.mp h.2 k x hm)
  | foreign t => intro h; simp [JsonVal] at h

example : equal objAB objAB = true := equal_refl _ jv_objAB

/-- without `NumOk` reflexivity fails: a NaN decimal, a NaN float and an unparsable `json.Number` are not equal
    to themselves (and a `foreign` value is equal to nothing) -/
theorem equal_nan_irrefl :
    equal (.num (.dec .nan)) (.num (.dec .nan)) = false ∧
    equal (.num (.f64 .nan)) (.num (.f64 .nan)) = false ∧
    equal (.num (.jnum [0x78])) (.num (.jnum [0x78])) = false ∧
    equal (.foreign 0) (.foreign 0) = false := by
  refine ⟨by decide, by decide, by decide, by decide⟩

/-- (known finding F28) a JSON number outside the decimal128 range, kept as `json.Number`, is a number that
    `toDecimal` rejects, so it is not equal to itself either: `1e7000 == 1e7000` is false -/
theorem equal_out_of_range_irrefl :
    equal (.num (.jnum [0x31, 0x65, 0x37, 0x30, 0x30, 0x30])) (.num (.jnum [0x31, 0x65, 0x37, 0x30, 0x30, 0x30])) = false := by
  decide

/-- symmetry -/
theorem equal_symm : ∀ a, JsonVal a → ∀ b, JsonVal b → equal a b = equal b a := by
  intro a
  induction a using Val.ind_mem with
  | null =>
    intro _ b _
    cases b with
    | null => rfl
    | _ => rw [equal_type_strict _ _ (by simp [jsonType]), equal_type_strict _ _ (by simp [jsonType])]
  | bool x =>
    intro _ b _
    cases b with
    | bool y => simp only [equal]; exact Bool.beq_comm
    | _ => rw [equal_type_strict _ _ (by simp [jsonType]), equal_type_strict _ _ (by simp [jsonType])]
  | str s =>
    intro _ b _
    cases b with
    | str s' => simp only [equal]; exact Bool.beq_comm
    | _ => rw [equal_type_strict _ _ (by simp [jsonType]), equal_type_strict _ _ (by simp [jsonType])]
  | num n =>
    intro _ b _
    cases b with
    | num m =>
      rw [Bool.eq_iff_iff, equal_num_left_iff, equal_num_left_iff]
      constructor
      · rintro ⟨x, y, hx, hy, he⟩; exact ⟨y, x, hy, hx, (Dec.equal_comm x y) ▸ he⟩
      · rintro ⟨x, y, hx, hy, he⟩; exact ⟨y, x, hy, hx, (Dec.equal_comm x y) ▸ he⟩
    | _ => rw [equal_type_strict _ _ (by simp [jsonType]), equal_type_strict _ _ (by simp [jsonType])]
  | arr t xs ih =>
    intro ha b hb
    cases b with
    | arr u ys =>
      simp only [JsonVal] at ha hb
      simp only [equal]
      exact equalL_symm_of fun x hx y hy => ih x hx (JsonValL_iff.mp ha x hx) y (JsonValL_iff.mp hb y hy)
    | _ => rw [equal_type_strict _ _ (by simp [jsonType]), equal_type_strict _ _ (by simp [jsonType])]
  | obj xs ih =>
    intro ha b hb
    cases b with
    | obj ys =>
      simp only [JsonVal] at ha hb
      have jx := JsonValF_iff.mp ha.2
      have jy := JsonValF_iff.mp hb.2
      simp only [equal]
      rw [Bool.eq_iff_iff]
      simp only [Bool.and_eq_true, beq_iff_eq]
      constructor
      · rintro ⟨hl, h⟩
        refine ⟨hl.symm, equalF_symm_of ha.1 hb.1 hl ?_ h⟩
        intro k x y hx hy he
        rw [← ih k x hx (jx k x hx) y (jy k y hy)]; exact he
      · rintro ⟨hl, h⟩
        refine ⟨hl.symm, equalF_symm_of hb.1 ha.1 hl ?_ h⟩
        intro k y x hy hx he
        rw [ih k x hx (jx k x hx) y (jy k y hy)]; exact he
    | _ => rw [equal_type_strict _ _ (by simp [jsonType]), equal_type_strict _ _ (by simp [jsonType])]
  | foreign t => intro h; simp [JsonVal] at h

example : equal objAB objBA = true ∧ equal objBA objAB = true := by
  have h : equal objAB objBA = true := by decide
  exact ⟨h, (equal_symm _ jv_objAB _ jv_objBA) ▸ h⟩

/-- transitivity -/
theorem equal_trans : ∀ a, JsonVal a → ∀ b, JsonVal b → ∀ c, JsonVal c →
    equal a b = true → equal b c = true → equal a c = true := by
  intro a
  induction a using Val.ind_mem with
  | null =>
    intro _ b _ c _ h1 h2
    cases b <;> simp [equal, Val.isNull] at h1
    exact h2
  | bool x =>
    intro _ b _ c _ h1 h2
    cases b <;> simp [equal] at h1
    subst h1; exact h2
  | str s =>
    intro _ b _ c _ h1 h2
    cases b <;> simp [equal] at h1
    subst h1; exact h2
  | num n =>
    intro _ b _ c _ h1 h2
    obtain ⟨x, y, hx, hy, hxy⟩ := (equal_num_left_iff n b).mp h1
    obtain ⟨m, rfl⟩ := toDecimal_some_num hy
    obtain ⟨y', z, hy', hz, hyz⟩ := (equal_num_left_iff m c).mp h2
    rw [hy] at hy'; cases hy'
    exact (equal_num_left_iff n c).mpr ⟨x, z, hx, hz, Dec.equal_trans hxy hyz⟩
  | arr t xs ih =>
    intro ha b hb c hc h1 h2
    cases b with
    | arr u ys =>
      cases c with
      | arr w zs =>
        simp only [JsonVal] at ha hb hc
        simp only [equal] at h1 h2 ⊢
        exact equalL_trans_of (fun x hx y hy z hz =>
          ih x hx (JsonValL_iff.mp ha x hx) y (JsonValL_iff.mp hb y hy) z (JsonValL_iff.mp hc z hz)) h1 h2
      | _ => simp [equal] at h2
    | _ => simp [equal] at h1
  | obj xs ih =>
    intro ha b hb c hc h1 h2
    cases b with
    | obj ys =>
      cases c with
      | obj zs =>
        simp only [JsonVal] at ha hb hc
        simp only [equal, Bool.and_eq_true, beq_iff_eq] at h1 h2 ⊢
        refine ⟨h1.1.trans h2.1, equalF_trans_of ?_ h1.2 h2.2⟩
        intro k x y z hx hy hz
        exact ih k x hx (JsonValF_iff.mp ha.2 k x hx) y (JsonValF_iff.mp hb.2 k y hy) z (JsonValF_iff.mp hc.2 k z hz)
      | _ => simp [equal] at h2
    | _ => simp [equal] at h1
  | foreign t => intro h; simp [JsonVal] at h

example : equal objAB objAB' = true :=
  equal_trans _ jv_objAB _ jv_objBA _ jv_objAB' (by decide) (by decide)

/-! ## numbers by value; objects regardless of member order -/

example : equal (.num (.dec (.fin false 0 0))) (.bool false) = false ∧ equal (.str []) .null = false ∧
    equal (.arr .plain []) (.obj []) = false ∧ equal (.str [0x31]) one = false :=
  ⟨equal_type_strict _ _ (by decide), equal_type_strict _ _ (by decide), equal_type_strict _ _ (by decide),
   equal_type_strict _ _ (by decide)⟩

/-- numbers are compared through their decimal values with `Decimal.Cmp` -/
theorem equal_num_by_value (x y : Num) :
    equal (.num x) (.num y) = true ↔
      ∃ dx dy, toDecimal (.num x) = some dx ∧ toDecimal (.num y) = some dy ∧ Dec.cmp dx dy = some 0 := by
  rw [equal_num_left_iff]
  simp only [Dec.equal_iff]

/-- …and `Cmp` returning 0 on finite decimals means: the same value, i.e. the same signed coefficient once both
    are written at any common exponent `m` (representation, trailing zeros and the sign of zero do not matter) -/
theorem cmp_zero_iff_same_value (n1 : Bool) (c1 : Nat) (e1 : Int) (n2 : Bool) (c2 : Nat) (e2 : Int) (m : Int)
    (h1 : m ≤ e1) (h2 : m ≤ e2) :
    Dec.cmp (.fin n1 c1 e1) (.fin n2 c2 e2) = some 0 ↔ Dec.sval n1 c1 e1 m = Dec.sval n2 c2 e2 m := by
  simp only [Dec.cmp, Option.some.injEq]
  exact Dec.cmpFin_eq_zero_iff_value n1 c1 e1 n2 c2 e2 m h1 h2

/-- the infinities are equal exactly to themselves, and to no finite value -/
theorem cmp_zero_inf (n : Bool) (d : Dec) : Dec.cmp (.inf n) d = some 0 ↔ d = .inf n := by
  cases d with
  | nan => simp [Dec.cmp]
  | inf m => cases n <;> cases m <;> simp [Dec.cmp]
  | fin m c e => cases n <;> simp [Dec.cmp]

example : equal one onePointZero = true ∧ equal one oneInt = true ∧ equal negZero zero = true ∧
    equal one two = false := by
  refine ⟨(equal_num_by_value _ _).mpr ⟨_, _, rfl, rfl, ?_⟩, by decide, by decide, by decide⟩
  exact (cmp_zero_iff_same_value false 1 0 false 10 (-1) (-1) (by decide) (by decide)).mpr (by decide)

/-! ### containers are compared member-wise -/

/-- arrays (whatever their tags): same length and equal elements at every position -/
theorem equal_arr_memberwise (t u : ATag) (xs ys : List Val) :
    equal (.arr t xs) (.arr u ys) = true ↔
      xs.length = ys.length ∧ ∀ (i : Nat) (h1 : i < xs.length) (h2 : i < ys.length), equal xs[i] ys[i] = true := by
  simp only [equal, equalL_iff]

/-- objects with unique keys: the same keys, with equal values under each key (extensional equality of maps;
    Go checks "same length and every member of the left found equal in the right") -/
theorem equal_obj_ext (xs ys : List (Bytes × Val)) (hx : ObjOk xs) (hy : ObjOk ys) :
    equal (.obj xs) (.obj ys) = true ↔
      ∀ k, (objLookup k xs = none ∧ objLookup k ys = none) ∨
        ∃ x y, objLookup k xs = some x ∧ objLookup k ys = some y ∧ equal x y = true := by
  rw [← equalF_ext hx hy]
  simp only [equal, Bool.and_eq_true, beq_iff_eq]

example : equal (.arr .plain [one, objAB]) (.arr .nil [onePointZero, objBA]) = true ∧
    equal (.arr .plain [one, objAB]) (.arr .plain [one, objAB, .null]) = false ∧
    equal (.arr .plain [one, two]) (.arr .plain [two, one]) = false ∧
    equal objAB (.obj [(kA, one)]) = false ∧ equal (.obj [(kA, one)]) objAB = false ∧
    equal objAB (.obj [(kA, one), (kB, .arr .plain [.bool true, .str [0x79]])]) = false := by
  refine ⟨(equal_arr_memberwise ..).mpr ⟨rfl, fun i h1 h2 => ?_⟩, by decide, by decide, by decide, by decide, by decide⟩
  have : i = 0 ∨ i = 1 := by simp at h1; omega
  rcases this with rfl | rfl <;> decide +revert

/-- equality of objects does not depend on the order of the members of the right operand… -/
theorem equal_obj_order_free (xs ys ys' : List (Bytes × Val)) (hy : ObjOk ys) (hp : ys.Perm ys') :
    equal (.obj xs) (.obj ys) = equal (.obj xs) (.obj ys') := by
  simp only [equal, hp.length_eq, equalF_perm_right hy hp xs]

/-- …nor of the left operand -/
theorem equal_obj_order_free_left (xs xs' ys : List (Bytes × Val)) (hp : xs.Perm xs') :
    equal (.obj xs) (.obj ys) = equal (.obj xs') (.obj ys) := by
  simp only [equal, hp.length_eq, equalF_perm_left hp ys]

example : equal objAB (.obj [(kA, onePointZero), (kB, .arr .plain [.bool true, .str [0x78]])]) = true := by
  unfold objAB
  rw [equal_obj_order_free _ _ [(kB, .arr .plain [.bool true, .str [0x78]]), (kA, onePointZero)]
    (by unfold ObjOk; decide)
    (List.Perm.swap ..)]
  decide

/-- duplicate keys (which neither a JSON document nor a Go map can have) would break the order-independence,
    which is why `ObjOk` is assumed -/
example : equal (.obj [(kA, one), (kB, two)]) (.obj [(kA, one), (kA, two)]) = false ∧
    equal (.obj [(kA, one), (kB, two)]) (.obj [(kA, two), (kA, one)]) = false := by decide

/-! ## `!=` and `contains()` -/

theorem eq_spec (l r : Val) :
    applyBinOp .eq l r = if l.hasEnum2 || r.hasEnum2 then .nondet else .ok (.bool (equal l r)) := by
  simp only [applyBinOp, equalR, bind, pure]
  split <;> rfl

theorem ne_spec (l r : Val) :
    applyBinOp .ne l r = if l.hasEnum2 || r.hasEnum2 then .nondet else .ok (.bool (!equal l r)) := by
  simp only [applyBinOp, equalR, bind, pure]
  split <;> rfl

/-- `!=` is the exact negation of `==`: the two decline together (only when a map-ordered array is involved),
    otherwise both produce a boolean and the booleans are opposite -/
theorem ne_is_negation (l r : Val) :
    (∀ b, applyBinOp .ne l r = .ok (.bool (!b)) ↔ applyBinOp .eq l r = .ok (.bool b)) ∧
    (applyBinOp .ne l r = .nondet ↔ applyBinOp .eq l r = .nondet) ∧
    (applyBinOp .eq l r = .nondet ∨ ∃ b, applyBinOp .eq l r = .ok (.bool b)) := by
  rw [eq_spec, ne_spec]
  split
  · simp
  · refine ⟨fun b => ?_, by simp, Or.inr ⟨_, rfl⟩⟩
    cases b <;> cases equal l r <;> simp

example : applyBinOp .eq objAB objBA = .ok (.bool true) ∧ applyBinOp .ne objAB objBA = .ok (.bool false) := by
  have h : applyBinOp .eq objAB objBA = .ok (.bool true) := by
    simp [eq_spec, show objAB.hasEnum2 = false by decide, show objBA.hasEnum2 = false by decide,
      show equal objAB objBA = true by decide]
  exact ⟨h, ((ne_is_negation objAB objBA).1 true).mpr h⟩

/-- `contains(array, y)` is "some element `== y`" with the very same `equal` (the model only declines when a
    map-ordered array is nested *inside* an element or inside `y`) -/
theorem contains_uses_equal' (t : ATag) (xs : List Val) (y : Val)
    (hx : Val.hasEnum2L xs = false) (hy : y.hasEnum2 = false) :
    contains (.arr t xs) y = .ok (.bool (xs.any (fun x => equal x y))) := by
  simp [contains, hx, hy]

theorem contains_uses_equal (t : ATag) (xs : List Val) (y : Val)
    (hx : (Val.arr t xs).hasEnum2 = false) (hy : y.hasEnum2 = false) :
    contains (.arr t xs) y = .ok (.bool (xs.any (fun x => equal x y))) := by
  simp only [Val.hasEnum2, Bool.or_eq_false_iff] at hx
  exact contains_uses_equal' t xs y hx.2 hy

example : contains (.arr .plain [two, objBA]) objAB = .ok (.bool true) := by
  rw [contains_uses_equal _ _ _ (by decide) (by decide), show ([two, objBA].any fun x => equal x objAB) = true by decide]

/-- values without map-ordered arrays — in particular everything decoded from a JSON document -/
inductive NoEnum : Val → Prop
  | null : NoEnum .null
  | bool (b) : NoEnum (.bool b)
  | str (s) : NoEnum (.str s)
  | num (n) : NoEnum (.num n)
  | foreign (t) : NoEnum (.foreign t)
  | arr (t xs) : t ≠ .enum → (∀ x ∈ xs, NoEnum x) → NoEnum (.arr t xs)
  | obj (kvs) : (∀ k x, (k, x) ∈ kvs → NoEnum x) → NoEnum (.obj kvs)

theorem hasEnum2_false_of_noEnum : ∀ v, NoEnum v → v.hasEnum2 = false := by
  intro v
  induction v using Val.ind_mem with
  | arr t xs ih =>
    intro h
    cases h with
    | arr _ _ ht hxs =>
      simp only [Val.hasEnum2, Bool.or_eq_false_iff]
      refine ⟨?_, hasEnum2L_false_iff.mpr fun x hx => ih x hx (hxs x hx)⟩
      cases t <;> simp at ht ⊢
  | obj kvs ih =>
    intro h
    cases h with
    | obj _ hk =>
      simp only [Val.hasEnum2]
      exact hasEnum2F_false_iff.mpr fun k x hm => ih k x hm (hk k x hm)
  | _ => intro _; simp [Val.hasEnum2]

/-- on such values `==`, `!=` and `contains` never decline: they are `equal`, its negation, and "some element
    is `equal`" -/
theorem eq_ne_contains_on_json (l r : Val) (hl : NoEnum l) (hr : NoEnum r) :
    applyBinOp .eq l r = .ok (.bool (equal l r)) ∧ applyBinOp .ne l r = .ok (.bool (!equal l r)) ∧
    (∀ t xs, l = .arr t xs → contains l r = .ok (.bool (xs.any (fun x => equal x r)))) := by
  have h1 := hasEnum2_false_of_noEnum l hl
  have h2 := hasEnum2_false_of_noEnum r hr
  refine ⟨by simp [eq_spec, h1, h2], by simp [ne_spec, h1, h2], ?_⟩
  rintro t xs rfl
  exact contains_uses_equal t xs r h1 h2

/-! ## false-like values -/

/-- the false-like values.  The last disjunct is an artefact of the Go representation: a `json.Number` whose text
    is empty (no JSON document produces one; `NumOk` excludes it, see `falsy_iff_json`). -/
theorem falsy_iff (v : Val) :
    isTrue v = false ↔ v = .null ∨ v = .bool false ∨ v = .str [] ∨ (∃ t, v = .arr t []) ∨ v = .obj [] ∨
      v = .num (.jnum []) := by
  cases v with
  | null => simp [isTrue]
  | bool b => simp [isTrue]
  | str s => cases s <;> simp [isTrue]
  | num n =>
    cases n with
    | jnum t => cases t <;> simp [isTrue]
    | _ => simp [isTrue]
  | arr t xs => cases xs <;> simp [isTrue]
  | obj kvs => cases kvs <;> simp [isTrue]
  | foreign t => simp [isTrue]

/-- on JSON values: exactly null, false, "", [] and {} -/
theorem falsy_iff_json (v : Val) (hv : JsonVal v) :
    isTrue v = false ↔ v = .null ∨ v = .bool false ∨ v = .str [] ∨ (∃ t, v = .arr t []) ∨ v = .obj [] := by
  rw [falsy_iff]
  constructor
  · rintro (h | h | h | h | h | h)
    · exact Or.inl h
    · exact Or.inr (Or.inl h)
    · exact Or.inr (Or.inr (Or.inl h))
    · exact Or.inr (Or.inr (Or.inr (Or.inl h)))
    · exact Or.inr (Or.inr (Or.inr (Or.inr h)))
    · subst h
      obtain ⟨d, hd, _⟩ := hv
      simp [toDecimal, Dec.parse] at hd
  · rintro (h | h | h | h | h)
    · exact Or.inl h
    · exact Or.inr (Or.inl h)
    · exact Or.inr (Or.inr (Or.inl h))
    · exact Or.inr (Or.inr (Or.inr (Or.inl h)))
    · exact Or.inr (Or.inr (Or.inr (Or.inr (Or.inl h))))

/-- zero is true-like, in every representation -/
theorem zero_is_true : isTrue (.num (.jnum [0x30])) = true := rfl

example : isTrue zero = true ∧ isTrue negZero = true ∧ isTrue (.num (.int .int 0)) = true ∧
    isTrue (.num (.f64 (.fin false 0 0))) = true ∧ isTrue (.str [0x30]) = true ∧
    isTrue (.arr .plain [.null]) = true ∧ isTrue (.obj [(kA, .null)]) = true :=
  ⟨rfl, rfl, rfl, rfl, rfl, rfl, rfl⟩

example : isTrue (.arr .nil []) = false ∧ isTrue (.str []) = false ∧ isTrue (.obj []) = false :=
  ⟨(falsy_iff _).mpr (by simp), (falsy_iff _).mpr (by simp), (falsy_iff _).mpr (by simp)⟩

/-! ## `!`, `&&`, `||` and filters use `isTrue` -/

/-- `l && r`: the outcome of `l` unless it is a true-like value, otherwise the outcome of `r` — always one of the
    operands, unchanged -/
theorem and_returns_operand (root : Val) (l r : INode) (cur : Val) (env : Env) :
    ieval root (.and l r) cur env =
      match ieval root l cur env with
      | .ok a => if isTrue a = false then .ok a else ieval root r cur env
      | other => other := by
  rw [ieval]
  cases h : ieval root l cur env <;> simp only [bind, Res.bind, pure]
  cases isTrue _ <;> simp

theorem and_ok (root : Val) (l r : INode) (cur : Val) (env : Env) (a : Val) (h : ieval root l cur env = .ok a) :
    ieval root (.and l r) cur env = if isTrue a = false then .ok a else ieval root r cur env := by
  rw [and_returns_operand, h]

/-- `l || r`: the outcome of `l` unless it is a false-like value, otherwise the outcome of `r` -/
theorem or_returns_operand (root : Val) (l r : INode) (cur : Val) (env : Env) :
    ieval root (.or l r) cur env =
      match ieval root l cur env with
      | .ok a => if isTrue a = true then .ok a else ieval root r cur env
      | other => other := by
  rw [ieval]
  cases h : ieval root l cur env <;> simp only [bind, Res.bind, pure]

theorem or_ok (root : Val) (l r : INode) (cur : Val) (env : Env) (a : Val) (h : ieval root l cur env = .ok a) :
    ieval root (.or l r) cur env = if isTrue a = true then .ok a else ieval root r cur env := by
  rw [or_returns_operand, h]

/-- `!c` is the boolean negation of the truth value of `c` -/
theorem not_uses_isTrue (root : Val) (c : INode) (cur : Val) (env : Env) :
    ieval root (.not c) cur env =
      match ieval root c cur env with
      | .ok a => .ok (.bool (!isTrue a))
      | other => other := by
  rw [ieval]
  cases h : ieval root c cur env <;> simp only [bind, Res.bind, pure]

example : ieval .null (.and (.lit zero) (.lit (.str []))) .null [] = .ok (.str []) ∧
    ieval .null (.and (.lit (.arr .plain [])) (.lit one)) .null [] = .ok (.arr .plain []) ∧
    ieval .null (.or (.lit (.obj [])) (.lit zero)) .null [] = .ok zero ∧
    ieval .null (.or (.lit zero) (.lit one)) .null [] = .ok zero ∧
    ieval .null (.not (.lit zero)) .null [] = .ok (.bool false) ∧
    ieval .null (.not (.lit (.str []))) .null [] = .ok (.bool true) := by
  refine ⟨?_, ?_, ?_, ?_, ?_, ?_⟩
  · rw [and_ok _ _ _ _ _ zero (by rw [ieval])]; rfl
  · rw [and_ok _ _ _ _ _ (.arr .plain []) (by rw [ieval])]; rfl
  · rw [or_ok _ _ _ _ _ (.obj []) (by rw [ieval])]; rfl
  · rw [or_ok _ _ _ _ _ zero (by rw [ieval])]; rfl
  · rw [not_uses_isTrue]; rfl
  · rw [not_uses_isTrue]; rfl

/-- the filter loop keeps exactly the non-null elements whose predicate value is true-like -/
theorem filter_uses_isTrue (c : Val → Res Val) (cv : Val → Val) :
    ∀ (xs : List Val), (∀ x ∈ xs, c x = .ok (cv x)) →
      filterLoop c xs = .ok (xs.filter (fun x => isTrue (cv x) && !x.isNull))
  | [], _ => rfl
  | x :: xs, h => by
    have ih := filter_uses_isTrue c cv xs (fun y hy => h y (List.mem_cons_of_mem _ hy))
    simp only [filterLoop, h x (List.mem_cons_self ..), ih, bind, Res.bind, pure, List.filter_cons]

/-- the loop of a filter followed by a projection: the same truth test selects the elements to project -/
theorem filterProject_uses_isTrue (c f : Val → Res Val) (cv fv : Val → Val) :
    ∀ (xs : List Val), (∀ x ∈ xs, c x = .ok (cv x)) → (∀ x ∈ xs, f x = .ok (fv x)) →
      filterMapPrune c f xs = .ok (((xs.filter (fun x => isTrue (cv x))).map fv).filter (fun p => !p.isNull))
  | [], _, _ => rfl
  | x :: xs, hc, hf => by
    have ih := filterProject_uses_isTrue c f cv fv xs (fun y hy => hc y (List.mem_cons_of_mem _ hy))
      (fun y hy => hf y (List.mem_cons_of_mem _ hy))
    simp only [filterMapPrune, hc x (List.mem_cons_self ..), hf x (List.mem_cons_self ..), ih, bind, Res.bind, pure,
      List.filter_cons]
    cases h1 : isTrue (cv x) <;> simp
    cases h2 : (fv x).isNull <;> simp [h2]

/-- a whole filter expression `[?f]` on an array, when the predicate evaluates on every element -/
theorem filterCurrent_uses_isTrue (root : Val) (f : INode) (t : ATag) (xs : List Val) (env : Env) (cv : Val → Val)
    (h : ∀ x ∈ xs, ieval root f x env = .ok (cv x)) :
    ieval root (.filterCurrent f) (.arr t xs) env =
      .ok (.arr t.derived (xs.filter (fun x => isTrue (cv x) && !x.isNull))) := by
  rw [ieval]
  simp only [filterArray, filter_uses_isTrue _ cv xs h, bind, Res.bind, pure, widen]

example : ieval .null (.filterCurrent .current) (.arr .plain [zero, .null, .str [], objAB, .arr .plain []]) [] =
    .ok (.arr .plain [zero, objAB]) := by
  rw [filterCurrent_uses_isTrue _ _ _ _ _ (fun x => x) (fun _ _ => by rw [ieval])]; rfl

example : filterLoop (fun x => .ok x) [zero, .null, .str [], .bool false, .arr .plain [], .obj [], one, .bool true] =
    .ok [zero, one, .bool true] := by
  rw [filter_uses_isTrue (fun x => .ok x) (fun x => x) _ (fun _ _ => rfl)]; rfl

end Jmes.C20
