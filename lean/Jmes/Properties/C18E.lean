/-
  Property C18, fourth pass — "For JSON input every result consists only of nil, booleans, strings, numbers and []any /
  map[string]any of such values, serialises with encoding/json, and is itself acceptable as input."

  A. **THE NUMBER INVARIANT IS PRESERVED BY THE EVALUATOR** (`ieval_gd`, `evaluate_gd`, `search_gd`).
     `C18C.json_result_roundtrip_equal` kept `NumsAll GoodNum r` as a hypothesis on the RESULT.  Here the invariant
     `Gd` (every number inside is a `json.Number` holding a valid JSON number text that `decimal128.Parse` accepts, a
     normalised decimal of the decimal128 format — `NF` —, or a Go integer inside the range of its kind; no float, no
     foreign value) is shown to be preserved by every operator and builtin — `+ - * / // %` (both operands; the
     results are rounded into the format by `Dec.reduce`: `C18E.reduce_nfs`), unary minus, `abs`, `ceil`, `floor`,
     `sum`, `avg`, `max`, `min`, `to_number`, projections, filters, slices, `sort_by`, `group_by`, `let`, … .
     The integer-valued builtins `length`, `find_first`, `find_last` need care: they return the `int64` of a LENGTH; a
     Lean list has no bound on its length, a Go slice has (`len` is an `int`), so in the MODEL `length` of a list of
     `n ≥ 2^63` elements is an out-of-range `int64` (`length_out_of_range`; not reachable in Go).  Two forms:
       * `NumExpr n` (decidable): no call of the three builtins — `ieval_gd`, `evaluate_gd`, `search_gd`;
       * any expression, `LenSafe` evaluation: wherever the integer of such a call flows into the result it is in
         range (true of every evaluation that measures only lengths below `2^63`: `intOK_length`) — `ieval_gd_len`,
         `evaluate_gd_len`, `search_gd_len`, `json_search_roundtrip_equal_len`.
     `Gd` implies `NumsAll GoodNum` (`gd_good`), so `hn` is discharged:

       `json_search_roundtrip_equal`: document decoded from JSON text whose numbers `decimal128.Parse` accepts
       (`NumsAll Num.Valued d` — exactly: not out of range like `1e99999`), expression `NumExpr`, result free of
       map-ordered arrays and at most 10000 deep  ⇒  the result marshals, the text decodes, the decoded value `==` it.

     The two hypotheses on numbers are needed (`literal_needs_valued`, `document_needs_valued`).
  B. **RESULTS WITH MAP-ORDERED ARRAYS** (`json_result_roundtrip_perm`, `json_search_roundtrip_perm_equal`): without
     `r.NoEnum`.  A run of the Go program returns a concretisation `r'` of the model's value `r`
     (`C15B.PermEnum r r'`, proved by `C15B.oracle_enum`: every `enum` array replaced by a plain array of the
     concretised elements in SOME order).  For EVERY such `r'`: `json.Marshal r'` succeeds, Go's decoder reads the text
     back as `reread r'`, and `reread r' == r'`.
-/
import Jmes.Proofs.C18EEval
import Jmes.Proofs.C18ELen
import Jmes.Proofs.C18EConc
import Jmes.Proofs.C20BDecodeLemmas
import Jmes.Properties.C15B
import Jmes.Properties.C18C
namespace Jmes.C18E
open Jmes Jmes.C18CR

/-! ## A. the number invariant -/

/-- the side condition on the expression: every literal is a JSON value whose numbers `decimal128.Parse` accepts
    (`LitB`: what the parser builds, minus out-of-range numbers like `` `1e99999` ``), and there is no call of
    `length`, `find_first`, `find_last` (decidable; `by decide` on a concrete expression) -/
def NumExpr (n : INode) : Bool := n.all nodeOkE

/-- **closure of `Gd` under the evaluator**: on a `Gd` document, current value and environment, a `NumExpr` expression
    evaluates — whatever other operators and builtins it uses — to a `Gd` value: every number of the result is a
    `json.Number` that `decimal128.Parse` accepts, a normalised decimal inside the decimal128 format, or an in-range Go
    integer. -/
theorem ieval_gd {root : Val} (hr : Gd root) {n : INode} (hn : NumExpr n = true) {cur : Val} (hc : Gd cur)
    {env : Env} (he : ∀ k x, (k, x) ∈ env → Gd x) {w : Val} (hw : ieval root n cur env = .ok w) : Gd w := by
  rw [ieval_desugar] at hw
  exact seval_gd root hr (desugar n) cur env (desugar_tok n hn) hc he w hw

/-- `abs(@) - $.a` at current value `-2.50`, root `{"a": 1e2}`, `$x = 7`: the result `-97.5` is `Gd` -/
example : ∀ w, ieval (.obj [([0x61], .num (.jnum [0x31, 0x65, 0x32]))])
    (.binop .sub (.call .abs [.current]) (.pipe .root (.field [0x61])))
    (.num (.jnum [0x2D, 0x32, 0x2E, 0x35, 0x30])) [([0x78], .num (.int .i64 7))] = .ok w → Gd w := fun w hw =>
  ieval_gd (by simp only [Gd, GdF, GNum, and_true]; exact ⟨by decide, .fin false 1 2, by decide⟩) (by decide)
    (gd_jnum.mpr ⟨by decide, .fin true 25 (-1), by decide⟩)
    (by intro k x hm; simp only [List.mem_singleton, Prod.mk.injEq] at hm; obtain ⟨_, rfl⟩ := hm
        exact gd_int.mpr (by simp [IntKind.InRange])) hw

/-- **`Evaluate` maps `Gd` documents to `Gd` results** -/
theorem evaluate_gd {n : INode} (hn : NumExpr n = true) {d : Val} (hd : Gd d) {w : Val} (hw : evaluate n d = .ok w) :
    Gd w :=
  ieval_gd hd hn hd (by intro k x hm; cases hm) hw

/-- `sum(@) / avg(@)` on `[1, 2.5]`: arithmetic on the results of `sum` and `avg` -/
example : ∀ w, evaluate (.binop .div (.call .sum [.current]) (.call .avg [.current]))
    (.arr .plain [.num (.jnum [0x31]), .num (.jnum [0x32, 0x2E, 0x35])]) = .ok w → Gd w := fun w hw =>
  evaluate_gd (by decide)
    (by simp only [Gd, GdL, GNum, and_true]
        exact ⟨⟨by decide, .fin false 1 0, by decide⟩, by decide, .fin false 25 (-1), by decide⟩) hw

/-- … and every number of the result satisfies the hypothesis `GoodNum` of the round-trip theorems of `C18C` -/
theorem evaluate_good {n : INode} (hn : NumExpr n = true) {d : Val} (hd : Gd d) {w : Val} (hw : evaluate n d = .ok w) :
    NumsAll GoodNum w := gd_good w (evaluate_gd hn hd hw)

example : NumsAll GoodNum (.num (.dec (.fin false 25 (-1)))) :=
  evaluate_good (n := .call .abs [.current]) (by decide)
    (d := .num (.jnum [0x2D, 0x32, 0x2E, 0x35])) (gd_jnum.mpr ⟨by decide, .fin true 25 (-1), by decide⟩) rfl

/-! ### documents decoded from JSON text -/

mutual
/-- what `encoding/json` decodes (with `UseNumber`) is `Gd` as soon as `decimal128.Parse` accepts each of its numbers -/
theorem decoded_gd : ∀ v : Val, C20B.Decoded v → NumsAll Num.Valued v → Gd v
  | .null, _, _ => by simp
  | .bool _, _, _ => by simp
  | .str _, _, _ => by simp
  | .num (.jnum t), hd, hn => by
    simp only [C20B.Decoded] at hd
    simp only [NumsAll] at hn
    rw [gd_jnum]
    refine ⟨(JsonGrammar.isValidNumber_iff t).mpr hd, ?_⟩
    obtain ⟨d, h1, _⟩ := hn
    simp only [toDecimal] at h1
    split at h1
    · next hp => exact ⟨_, hp⟩
    · cases h1
  | .num (.dec _), hd, _ => by simp [C20B.Decoded] at hd
  | .num (.int _ _), hd, _ => by simp [C20B.Decoded] at hd
  | .num (.f64 _), hd, _ => by simp [C20B.Decoded] at hd
  | .num (.f32 _), hd, _ => by simp [C20B.Decoded] at hd
  | .arr _ xs, hd, hn => by
    simp only [C20B.Decoded] at hd
    simp only [NumsAll] at hn
    simp only [Gd]; exact decodedL_gd xs hd.2 hn
  | .obj kvs, hd, hn => by
    simp only [C20B.Decoded] at hd
    simp only [NumsAll] at hn
    simp only [Gd]; exact decodedF_gd kvs hd.2 hn
  | .foreign _, hd, _ => by simp [C20B.Decoded] at hd
theorem decodedL_gd : ∀ xs : List Val, C20B.DecodedL xs → NumsAllL Num.Valued xs → GdL xs
  | [], _, _ => trivial
  | x :: xs, hd, hn => by
    simp only [C20B.DecodedL] at hd
    simp only [NumsAllL] at hn
    exact ⟨decoded_gd x hd.1 hn.1, decodedL_gd xs hd.2 hn.2⟩
theorem decodedF_gd : ∀ kvs : List (Bytes × Val), C20B.DecodedF kvs → NumsAllF Num.Valued kvs → GdF kvs
  | [], _, _ => trivial
  | (_, x) :: kvs, hd, hn => by
    simp only [C20B.DecodedF] at hd
    simp only [NumsAllF] at hn
    exact ⟨decoded_gd x hd.1 hn.1, decodedF_gd kvs hd.2 hn.2⟩
end

/-- **a decoded JSON document is `Gd`** provided `decimal128.Parse` accepts every number in it -/
theorem json_document_gd {s : Bytes} {d : Val} (hs : Json.decode s = some d) (hv : NumsAll Num.Valued d) : Gd d :=
  decoded_gd d (C20B.decode_decoded hs) hv

/-- `[1, 2.5]` -/
example : Gd (.arr .plain [.num (.jnum [0x31]), .num (.jnum [0x32, 0x2E, 0x35])]) :=
  json_document_gd (s := [0x5B, 0x31, 0x2C, 0x32, 0x2E, 0x35, 0x5D]) rfl
    (by simp only [NumsAll, NumsAllL, and_true]
        exact ⟨⟨.fin false 1 0, by decide, by decide⟩, .fin false 25 (-1), by decide, by decide⟩)

/-! ### through `search` -/

/-- **`Gd` in, `Gd` out, through `search`**: `expr` compiles to a `NumExpr` node -/
theorem search_gd {expr : Bytes} {n : INode} (hc : compile expr = .ok n) (hn : NumExpr n = true) {d r : Val}
    (hd : Gd d) (h : search expr d = .ok r) : Gd r := by
  unfold compile at hc
  unfold search at h
  rw [hc] at h
  exact evaluate_gd hn hd h

/-- `abs(@)` compiles to a `NumExpr` node -/
theorem absExpr_compile : compile C18B.absExpr = .ok (.call .abs [.current]) :=
  C04G.parse_complete (t := .call ⟨.unquotedIdentifier, [0x61, 0x62, 0x73]⟩ [.atom ⟨.current, [0x40]⟩])
    (by decide +kernel) (by decide +kernel)

example : Gd (.num (.dec (.fin false 25 (-1)))) :=
  search_gd absExpr_compile (by decide) (json_document_gd (s := [0x2D, 0x32, 0x2E, 0x35]) rfl
    ⟨.fin true 25 (-1), by decide, by decide⟩) C18B.abs_result

/-- **the numbers of every result of a search over JSON input are values of their Go types** (`GoodNum`): the
    document is decoded from a text whose numbers `decimal128.Parse` accepts, the expression is `NumExpr` -/
theorem json_search_good {expr s : Bytes} {n : INode} {d r : Val} (hs : Json.decode s = some d)
    (hv : NumsAll Num.Valued d) (hc : compile expr = .ok n) (hn : NumExpr n = true) (h : search expr d = .ok r) :
    NumsAll GoodNum r :=
  gd_good r (search_gd hc hn (json_document_gd hs hv) h)

example : NumsAll GoodNum (.num (.dec (.fin false 25 (-1)))) :=
  json_search_good (s := [0x2D, 0x32, 0x2E, 0x35]) rfl ⟨.fin true 25 (-1), by decide, by decide⟩ absExpr_compile
    (by decide) C18B.abs_result

/-- **C18, first sentence, end to end, with `==`, the hypothesis on the result's numbers discharged**: let `r` be the
    result of searching a `NumExpr` expression over a document decoded from a JSON text whose numbers
    `decimal128.Parse` accepts.  If `r` contains no map-ordered array and nests at most 10000 deep, then
    `json.Marshal r` succeeds, Go's decoder reads the text back, and the value read back is equal (`==`) to `r`. -/
theorem json_search_roundtrip_equal {expr s : Bytes} {n : INode} {d r : Val} (hs : Json.decode s = some d)
    (hv : NumsAll Num.Valued d) (hc : compile expr = .ok n) (hn : NumExpr n = true) (h : search expr d = .ok r)
    (hne : r.NoEnum = true) (hd : C16B.dp r ≤ 10000) :
    ∃ b r', Json.encode r = .ok b ∧ Json.decode b = some r' ∧ equal r r' = true :=
  C18C.json_result_roundtrip_equal hs h hne (json_search_good hs hv hc hn h) hd

/-- `abs(@)` over the document `-2.5` -/
example : ∃ b r', Json.encode (.num (.dec (.fin false 25 (-1)))) = .ok b ∧ Json.decode b = some r' ∧
    equal (.num (.dec (.fin false 25 (-1)))) r' = true :=
  json_search_roundtrip_equal (s := [0x2D, 0x32, 0x2E, 0x35]) rfl ⟨.fin true 25 (-1), by decide, by decide⟩
    absExpr_compile (by decide) C18B.abs_result (by decide) (by decide)

/-! ### expressions that call `length`, `find_first`, `find_last` -/

/-- the literal part of `NumExpr` alone: every literal is a JSON value whose numbers `decimal128.Parse` accepts -/
def NumLits (n : INode) : Bool := n.all (INode.litOk LitB)

/-- **closure of `Gd` under the evaluator, integer-valued builtins included**, along every evaluation that is
    `LenSafe`: wherever the `int64` returned by `length` / `find_first` / `find_last` flows into the result, it is in
    range (`C18E.LenSafe`, stated on the reference syntax `desugar n`; it follows the evaluation and asks nothing where
    the integer is consumed by a comparison, a filter condition or a sort key).  Every evaluation that measures only
    lengths below `2^63` — every evaluation a Go program can perform — is `LenSafe` (`intOK_length`). -/
theorem ieval_gd_len {root : Val} (hr : Gd root) {n : INode} (hn : NumLits n = true) {cur : Val} (hc : Gd cur)
    {env : Env} (he : ∀ k x, (k, x) ∈ env → Gd x) (hs : LenSafe root (desugar n) cur env) {w : Val}
    (hw : ieval root n cur env = .ok w) : Gd w := by
  rw [ieval_desugar] at hw
  exact seval_gd2 root hr (desugar n) cur env (desugar_tlit n hn) hs hc he w hw

/-- … for `Evaluate` -/
theorem evaluate_gd_len {n : INode} (hn : NumLits n = true) {d : Val} (hd : Gd d) (hs : LenSafe d (desugar n) d [])
    {w : Val} (hw : evaluate n d = .ok w) : Gd w :=
  ieval_gd_len hd hn hd (by intro k x hm; cases hm) hs hw

/-- a `NumExpr` expression is `NumLits` and `LenSafe` in every evaluation: `ieval_gd` is the special case -/
theorem numExpr_lenSafe {n : INode} (hn : NumExpr n = true) (root cur : Val) (env : Env) :
    LenSafe root (desugar n) cur env := lenSafe_of_tok root (desugar n) (desugar_tok n hn) cur env

/-- `abs(length(@)) - `1`` over `[null, null]`: the length flows through `abs` and `-` into the result `1`; the
    evaluation is `LenSafe` because the measured array has 2 < 2^63 elements -/
example : ∀ w, evaluate (.binop .sub (.call .abs [.call .length [.current]]) (.lit (.num (.jnum [0x31]))))
    (.arr .plain [.null, .null]) = .ok w → Gd w := fun w hw =>
  evaluate_gd_len (by decide) (by simp [Gd, GdL])
    (by
      simp only [desugar, desugarList, LenSafe, LenSafeL, sevalList, seval, Res.bind_eq_ok, Res.pure_eq, Res.ok.injEq,
        and_true, true_and]
      intro _
      refine ⟨?_, ?_⟩
      · rintro vs ⟨v, rfl, _, rfl, rfl⟩; exact intOK_length (by decide)
      · intro vs _; exact Or.inl rfl) hw

/-- `[?length(@) > `1`]`: the integer is consumed by the comparison of the filter condition; nothing is asked -/
example (root cur : Val) (env : Env) :
    LenSafe root (desugar (.filterCurrent (.binop .gt (.call .length [.current]) (.lit (.num (.jnum [0x31])))))) cur env := by
  simp [desugar, LenSafe]

/-- **through `search`**, integer-valued builtins included -/
theorem search_gd_len {expr : Bytes} {n : INode} (hc : compile expr = .ok n) (hn : NumLits n = true) {d r : Val}
    (hd : Gd d) (hs : LenSafe d (desugar n) d []) (h : search expr d = .ok r) : Gd r := by
  unfold compile at hc
  unfold search at h
  rw [hc] at h
  exact evaluate_gd_len hn hd hs h

/-- **the round trip with `==`, integer-valued builtins included** -/
theorem json_search_roundtrip_equal_len {expr s : Bytes} {n : INode} {d r : Val} (hs : Json.decode s = some d)
    (hv : NumsAll Num.Valued d) (hc : compile expr = .ok n) (hn : NumLits n = true)
    (hls : LenSafe d (desugar n) d []) (h : search expr d = .ok r)
    (hne : r.NoEnum = true) (hd : C16B.dp r ≤ 10000) :
    ∃ b r', Json.encode r = .ok b ∧ Json.decode b = some r' ∧ equal r r' = true :=
  C18C.json_result_roundtrip_equal hs h hne (gd_good r (search_gd_len hc hn (json_document_gd hs hv) hls h)) hd

/-- `length(@)` -/
def lengthExpr : Bytes := [0x6C, 0x65, 0x6E, 0x67, 0x74, 0x68, 0x28, 0x40, 0x29]

theorem lengthExpr_compile : compile lengthExpr = .ok (.call .length [.current]) :=
  C04G.parse_complete (t := .call ⟨.unquotedIdentifier, [0x6C, 0x65, 0x6E, 0x67, 0x74, 0x68]⟩ [.atom ⟨.current, [0x40]⟩])
    (by decide +kernel) (by decide +kernel)

/-- `length(@)` over the JSON document `[null,null]`: the Go integer `2` marshals as `2`, is read back as the
    `json.Number` `2`, which equals it -/
example : ∃ b r', Json.encode (.num (.int .i64 2)) = .ok b ∧ Json.decode b = some r' ∧
    equal (.num (.int .i64 2)) r' = true :=
  json_search_roundtrip_equal_len (s := [0x5B, 0x6E, 0x75, 0x6C, 0x6C, 0x2C, 0x6E, 0x75, 0x6C, 0x6C, 0x5D])
    (d := .arr .plain [.null, .null]) rfl (by simp [NumsAll, NumsAllL]) lengthExpr_compile (by decide)
    (by
      simp only [desugar, desugarList, LenSafe, LenSafeL, sevalList, seval, Res.bind_eq_ok, Res.pure_eq, Res.ok.injEq,
        and_true, true_and]
      rintro vs ⟨v, rfl, _, rfl, rfl⟩; exact intOK_length (by decide))
    (by
      have hp := lengthExpr_compile
      unfold compile at hp
      unfold search; rw [hp]; rfl)
    (by decide) (by decide)

/-! ### the side conditions are needed -/

/-- **the literal condition is needed**: the literal `` `1e99999` `` is a valid JSON number (the parser accepts it,
    `Val.Fin` holds) that `decimal128.Parse` refuses; it is returned as is, and is not even equal to itself -/
theorem literal_needs_valued :
    evaluate (.lit (.num (.jnum bigNum))) .null = .ok (.num (.jnum bigNum)) ∧
    NumExpr (.lit (.num (.jnum bigNum))) = false ∧ (INode.lit (.num (.jnum bigNum))).FinLits = true ∧
    ¬ NumsAll GoodNum (.num (.jnum bigNum)) ∧ equal (.num (.jnum bigNum)) (.num (.jnum bigNum)) = false := by
  refine ⟨rfl, by decide, by decide, ?_, by decide⟩
  simp only [NumsAll, GoodNum]
  rintro ⟨d, h, _⟩
  have : toDecimal (.num (.jnum bigNum)) = none := by decide
  rw [this] at h; cases h

/-- **the document condition is needed**: `@` over the JSON document `1e99999` -/
theorem document_needs_valued :
    Json.decode bigNum = some (.num (.jnum bigNum)) ∧ evaluate .current (.num (.jnum bigNum)) = .ok (.num (.jnum bigNum)) ∧
    NumExpr .current = true ∧ ¬ NumsAll Num.Valued (.num (.jnum bigNum)) := by
  refine ⟨equal_self_false_range.2.2.2.2.2.2.1, rfl, by decide, ?_⟩
  simp only [NumsAll]
  rintro ⟨d, h, _⟩
  have : toDecimal (.num (.jnum bigNum)) = none := by decide
  rw [this] at h; cases h

/-- **why `length`, `find_first`, `find_last` are excluded** (a limitation of the MODEL, not of the Go code): the model's
    `length` of an array of `n ≥ 2^63` elements is the `int64` `n`, outside the range of `int64`.  A Go slice cannot be
    that long (`len` returns an `int`), so no run of the Go program produces this value. -/
theorem length_out_of_range (n : Nat) (hn : 2 ^ 63 ≤ n) :
    length (.arr .plain (List.replicate n .null)) = .ok (.num (.int .i64 n)) ∧
    Gd (.arr .plain (List.replicate n .null)) ∧ ¬ GoodNum (.int .i64 n) := by
  refine ⟨?_, ?_, ?_⟩
  · simp only [length, List.length_replicate]
  · rw [gd_arr]; intro x hx; rw [List.eq_of_mem_replicate hx]; simp
  · simp only [GoodNum, IntKind.InRange]; omega

/-- … whereas on values of realistic size `length` is fine: `length(@)` on `[null, null]` -/
example : length (.arr .plain [.null, .null]) = .ok (.num (.int .i64 2)) ∧ GoodNum (.int .i64 2) :=
  ⟨rfl, by simp [GoodNum, IntKind.InRange]⟩

/-! ## B. results that contain map-ordered arrays -/

/-- **every value a run can return for the result of a search over JSON input is a well-formed result**: `r` is the
    model's result (possibly holding `enum` arrays from `keys`, `values`, `items`, `*`), `r'` any concretisation of it
    (`C15B.PermEnum r r'`: each `enum` array as a plain array of the concretised elements in some order) -/
theorem json_result_wf_perm {expr s : Bytes} {d r r' : Val} (hs : Json.decode s = some d) (h : search expr d = .ok r)
    (hp : C15B.PermEnum r r') : WF r' :=
  conc_wf r r' hp (C18.search_plain (Json.decode_plain hs) h) (C18B.search_fin (Json.decode_fin hs) h)
    (C11V.search_valid_any (C11V.Json.decode_valid hs) h) (C18CS.json_search_sorted hs h)

/-- **C18, first sentence, for results with map-ordered arrays**: whatever order a run gives to the enumerated arrays,
    `json.Marshal` of the run's value `r'` succeeds and Go's decoder (with `UseNumber`) reads the text back as
    `reread r'` (numbers as `json.Number`s) — no `NoEnum` hypothesis -/
theorem json_result_roundtrip_perm {expr s : Bytes} {d r r' : Val} (hs : Json.decode s = some d)
    (h : search expr d = .ok r) (hp : C15B.PermEnum r r') (hd : C16B.dp r ≤ 10000) :
    ∃ b, Json.encode r' = .ok b ∧ Json.decode b = some (reread r') :=
  C18C.marshal_decode (json_result_wf_perm hs h hp) (conc_dp_le 10000 r r' hp hd)

/-- … and the value read back is equal (`==`) to the run's value when the numbers of the model's result are values of
    their Go types -/
theorem json_result_roundtrip_perm_equal {expr s : Bytes} {d r r' : Val} (hs : Json.decode s = some d)
    (h : search expr d = .ok r) (hp : C15B.PermEnum r r') (hn : NumsAll GoodNum r) (hd : C16B.dp r ≤ 10000) :
    ∃ b r'', Json.encode r' = .ok b ∧ Json.decode b = some r'' ∧ equal r' r'' = true :=
  C18C.marshal_decode_equal (json_result_wf_perm hs h hp) (conc_numsAll GoodNum r r' hp hn)
    (conc_dp_le 10000 r r' hp hd)

/-- **both parts together**: `NumExpr` expression (it may use `keys`, `values`, `items`, `*`), document decoded from a
    text whose numbers `decimal128.Parse` accepts, model result `r` at most 10000 deep: EVERY concretisation `r'` of
    `r` marshals, decodes again, and the decoded value is `==` to `r'`. -/
theorem json_search_roundtrip_perm_equal {expr s : Bytes} {n : INode} {d r r' : Val} (hs : Json.decode s = some d)
    (hv : NumsAll Num.Valued d) (hc : compile expr = .ok n) (hn : NumExpr n = true) (h : search expr d = .ok r)
    (hp : C15B.PermEnum r r') (hd : C16B.dp r ≤ 10000) :
    ∃ b r'', Json.encode r' = .ok b ∧ Json.decode b = some r'' ∧ equal r' r'' = true :=
  json_result_roundtrip_perm_equal hs h hp (json_search_good hs hv hc hn h) hd

/-- … the same with the integer-valued builtins admitted (`LenSafe` evaluation) -/
theorem json_search_roundtrip_perm_equal_len {expr s : Bytes} {n : INode} {d r r' : Val} (hs : Json.decode s = some d)
    (hv : NumsAll Num.Valued d) (hc : compile expr = .ok n) (hn : NumLits n = true)
    (hls : LenSafe d (desugar n) d []) (h : search expr d = .ok r)
    (hp : C15B.PermEnum r r') (hd : C16B.dp r ≤ 10000) :
    ∃ b r'', Json.encode r' = .ok b ∧ Json.decode b = some r'' ∧ equal r' r'' = true :=
  json_result_roundtrip_perm_equal hs h hp (gd_good r (search_gd_len hc hn (json_document_gd hs hv) hls h)) hd

/-- when the result holds no map-ordered array the only concretisation is the result itself: the statements above
    specialise to those of `C18C` -/
theorem perm_of_noEnum {r r' : Val} (hp : C15B.PermEnum r r') (hne : r.NoEnum = true) : r' = r :=
  C15B.permEnum_eq hp hne

/-- the run's value never holds a map-ordered array -/
theorem perm_noEnum {r r' : Val} (hp : C15B.PermEnum r r') : r'.NoEnum = true := C15B.permEnum_noEnum hp

/-- `values(@)` -/
def valuesExpr : Bytes := [0x76, 0x61, 0x6C, 0x75, 0x65, 0x73, 0x28, 0x40, 0x29]
/-- `{"a":1,"b":2}` -/
def abText : Bytes := [0x7B, 0x22, 0x61, 0x22, 0x3A, 0x31, 0x2C, 0x22, 0x62, 0x22, 0x3A, 0x32, 0x7D]

theorem valuesExpr_compile : compile valuesExpr = .ok (.call .values [.current]) :=
  C04G.parse_complete (t := .call ⟨.unquotedIdentifier, [0x76, 0x61, 0x6C, 0x75, 0x65, 0x73]⟩ [.atom ⟨.current, [0x40]⟩])
    (by decide +kernel) (by decide +kernel)

/-- `values(@)` over `{"a":1,"b":2}`: the model's result is the map-ordered array `[1, 2]` -/
theorem values_result : Json.decode abText = some C15B.ab ∧
    search valuesExpr C15B.ab = .ok (.arr .enum [.num (.jnum [0x31]), .num (.jnum [0x32])]) := by
  refine ⟨rfl, ?_⟩
  have hp := valuesExpr_compile
  unfold compile at hp
  unfold search; rw [hp]; rfl

/-- the run that visits `b` first returns `[2, 1]`: it marshals, decodes again, and the decoded value is equal to it —
    although the model's result is not `NoEnum` -/
example : ∃ b r'', Json.encode (.arr .plain [.num (.jnum [0x32]), .num (.jnum [0x31])]) = .ok b ∧
    Json.decode b = some r'' ∧ equal (.arr .plain [.num (.jnum [0x32]), .num (.jnum [0x31])]) r'' = true :=
  json_search_roundtrip_perm_equal values_result.1
    (by simp only [C15B.ab, NumsAll, NumsAllF, and_true]
        exact ⟨⟨.fin false 1 0, by decide, by decide⟩, .fin false 2 0, by decide, by decide⟩)
    valuesExpr_compile (by decide) values_result.2
    (conc_enumArr ⟨[.num (.jnum [0x31]), .num (.jnum [0x32])], by simp [ConcL, Conc], List.Perm.swap _ _ _⟩)
    (by decide)
example : (Val.arr .enum [.num (.jnum [0x31]), .num (.jnum [0x32])]).NoEnum = false := by decide

end Jmes.C18E
