/-
  C03 (no panic), fourth wave, series E — closing the gaps the third review found in the checked mirrors of C03D.

  Reviewer's findings and what was done (files `Jmes/Proofs/C03D*.lean`, `Jmes/Properties/C03D.lean` edited in place;
  new statements here):

  (1) the model's `.nondet` marker sat BEFORE the checked operation in `SliceGo.indexG`, `sliceArrTail`,
      `sliceStepArrTail`, `ArrGo.indexC`, `zipC`, `maxBy*TailC`, `minBy*TailC`, `fromItemsLoop*`: for map-ordered
      arrays of ≥ 2 elements (`values(@)[7]`) the bound check was never evaluated.  FIXED IN THE MIRRORS: every one now
      performs the checked operation first and consults the marker afterwards; all `…_eq` theorems re-proved;
      `C03D.guard_map_ordered` shows that the guard-less mirrors panic on map-ordered arrays too.  Section 1 here adds the
      independent statement that the checked operations depend on the LENGTH only: for every permutation of the array
      they fail or succeed alike (`idx?_panic_perm`, `slice?_panic_perm`, `idx?_ok_any_order`, `indexG_panic_perm`).
  (2) `makeLimit` was 2^47; Go's limit for `make([]any, n)` is `maxAlloc / 16 = 2^44`, for the 24-byte elements of
      `[][]any` it is `2^48 / 24`.  FIXED: `makeLimit = 2^44`, `makeLimitOf elemSize = 2^48 / elemSize`, `makeOf?` takes
      the element size; section 2: the mirrors' `make` panics EXACTLY when `runtime.makeslice` does
      (`make_limit_exact`, `makeOf_limit_exact`; both limits confirmed by running Go: `make([]any, 1<<44 + 1)` and
      `make([][]any, 11728124029611)` panic with `makeslice: len out of range`, one less does not).
  (3) `Grow`: `grow?` is now a primitive of `C03DChecked`; mirrors added at functions.go:94 (`ArrGo.reverseC`) and
      parser.go:2201 / :2308 (`LitGo.parseQuotedIdentifierC`, `LitGo.parseStringLiteralC`); section 3: `grow_sites`.
  (4) `zip`: `ArrGo.zipNodeC` evaluates the argument nodes INSIDE the first loop, after the `make` and between the
      writes, as Go does; `C03D.zipNode_checked` covers every outcome of every argument.
  (5) multi-select list: `ObjGo.selectArrayC` / `selectArrayCurrentC` have the `child == nil` return before `make`
      (`C03D.selectArray_checked`, `selectArrayCurrent_checked`, `ObjGo.selectArrayC_null`).
  (6) the hypotheses `step ≠ 0 ∧ -2^63 ≤ step` are now PROVED OF EVERY COMPILED EXPRESSION:
      `compile_sliceOK` (`Jmes/Proofs/C03ELemmas.lean`): `compile e = .ok n → n.all sliceHead = true`, where `sliceHead`
      says: `start`, `stop`, `step` (and plain indices) are in the `int64` range and `step ≠ 0`.  Section 4 turns this
      into statements about every node that OCCURS in a compiled expression (`Occurs`, `all_occurs`) and removes the
      step hypotheses from the evaluation theorems (`compiled_sliceStep_checked`, `compiled_sliceStepCurrent_checked`);
      section 6 discharges the step clause of `C11C.RenOK` (`compile_renOK_iff`).
  (7) site inventory (`Jmes/Proofs/C03DSites.lean`) regenerated against the current /repo text (parser.go lines +1 / +5),
      with the seven `make([]any, 0, len(x))` sites added: 379 sites, 220 mirrored.
-/
import Jmes.Properties.C03D
import Jmes.Proofs.C03ELemmas
import Jmes.Properties.C11C
namespace Jmes.C03E
open Jmes Jmes.C03D

/-! ## 0. nodes occurring in an expression -/

/-- the direct sub-expressions of a node -/
def kids : INode → List INode
  | .lit _ | .current | .root | .field _ | .variable _ | .flattenCurrent | .indexCurrent _ | .smallIndexCurrent _
  | .objectValuesCurrent | .pruneArrayCurrent | .sliceCurrent _ _ | .sliceStepCurrent _ _ _ => []
  | .binop _ l r | .and l r | .or l r | .filter l r | .filterAndProjectCurrent l r | .flattenAndProject l r
  | .pipe l r | .projectArray l r | .projectObject l r | .selectArraySingle l r | .selectObjectSingle l _ r
  | .groupBy l r | .map l r | .maxBy l r | .minBy l r | .sortBy l r => [l, r]
  | .not c | .negate c | .assertNumber c | .filterCurrent c | .flatten c | .flattenAndProjectCurrent c | .index c _
  | .objectValues c | .projectArrayCurrent c | .projectObjectCurrent c | .pruneArray c | .selectArraySingleCurrent c
  | .selectObjectSingleCurrent _ c | .slice c _ _ | .sliceStep c _ _ _ => [c]
  | .filterAndProject l f r => [l, f, r]
  | .call _ args | .merge args | .notNull args | .zip args | .selectArrayCurrent args => args
  | .selectArray c fs => c :: fs
  | .defineVariables vars child => vars.map Prod.snd ++ [child]
  | .selectObject c fs => c :: fs.map Prod.snd
  | .selectObjectCurrent fs => fs.map Prod.snd

theorem allL_mem {p : INode → Bool} : ∀ {ns : List INode}, INode.allL p ns = true → ∀ m ∈ ns, m.all p = true
  | [], _, m, hm => by cases hm
  | n :: ns, h, m, hm => by
    simp only [INode.allL, Bool.and_eq_true] at h
    rcases List.mem_cons.mp hm with rfl | hm
    · exact h.1
    · exact allL_mem h.2 m hm

theorem allF_mem {p : INode → Bool} : ∀ {fs : List (Bytes × INode)}, INode.allF p fs = true →
    ∀ m ∈ fs.map Prod.snd, m.all p = true
  | [], _, m, hm => by cases hm
  | (k, n) :: fs, h, m, hm => by
    simp only [INode.allF, Bool.and_eq_true] at h
    simp only [List.map_cons] at hm
    rcases List.mem_cons.mp hm with rfl | hm
    · exact h.1
    · exact allF_mem h.2 m hm

/-- `all p` holds of the node itself -/
theorem all_head {p : INode → Bool} {n : INode} (h : n.all p = true) : p n = true := by
  cases n <;> simp only [INode.all, Bool.and_eq_true] at h <;> first | exact h | exact h.1 | exact h.1.1 | exact h.1.1.1

/-- `all p` passes to the direct sub-expressions -/
theorem all_kids {p : INode → Bool} {n : INode} (h : n.all p = true) : ∀ m ∈ kids n, m.all p = true := by
  intro m hm
  cases n <;> simp only [INode.all, Bool.and_eq_true] at h <;> simp only [kids] at hm <;>
    first
    | (cases hm; done)
    | exact allL_mem h.2 m hm
    | exact allF_mem h.2 m hm
    | (simp only [List.mem_cons, List.mem_append, List.not_mem_nil, or_false] at hm
       rcases hm with rfl | rfl | rfl <;> simp_all)
    | (simp only [List.mem_cons, List.mem_append, List.not_mem_nil, or_false] at hm
       rcases hm with rfl | rfl <;> simp_all)
    | (simp only [List.mem_cons, List.mem_append, List.not_mem_nil, or_false] at hm
       rcases hm with rfl <;> simp_all)
    | (rcases List.mem_cons.mp hm with rfl | hm
       · exact h.1.2
       · first | exact allL_mem h.2 m hm | exact allF_mem h.2 m hm)
    | (rcases List.mem_append.mp hm with hm | hm
       · exact allF_mem h.1.2 m hm
       · simp only [List.mem_cons, List.not_mem_nil, or_false] at hm; subst hm; exact h.2)

/-- `m` occurs in `n` (at any depth, `n` itself included) -/
inductive Occurs : INode → INode → Prop
  | self (n : INode) : Occurs n n
  | kid {m k n : INode} : Occurs m k → k ∈ kids n → Occurs m n

/-- what holds of all sub-nodes of `n` holds of all sub-nodes of every node occurring in `n` -/
theorem all_occurs_all {p : INode → Bool} {m n : INode} (ho : Occurs m n) (h : n.all p = true) : m.all p = true := by
  induction ho with
  | self => exact h
  | kid _ hk ih => exact ih (all_kids h _ hk)

/-- what holds of all sub-nodes holds of every node that occurs -/
theorem all_occurs {p : INode → Bool} {m n : INode} (ho : Occurs m n) (h : n.all p = true) : p m = true :=
  all_head (all_occurs_all ho h)

example : Occurs (.sliceStepCurrent 0 5 2) (.pipe (.field [0x61]) (.sliceStepCurrent 0 5 2)) :=
  .kid (.self _) (by simp [kids])

/-! ## 1. the checked operations do not depend on the ORDER of the elements -/

/-- **`a[i]` panics or not depending on `len(a)` only**: for every re-ordering `a'` of `a` (every permutation — for
    instance every order in which Go may enumerate a map) the checked read fails on `a'` exactly when it fails on `a` -/
theorem idx?_panic_perm {α} {a a' : List α} (h : a.Perm a') (i : Int) :
    idx? a i = .panic idxMsg ↔ idx? a' i = .panic idxMsg := by
  rw [idx?_panic_iff, idx?_panic_iff, h.length_eq]

/-- the same for `a[i:j]` -/
theorem slice?_panic_perm {α} {a a' : List α} (h : a.Perm a') (i j : Int) :
    slice? a i j = .panic sliceMsg ↔ slice? a' i j = .panic sliceMsg := by
  rw [slice?_panic_iff, slice?_panic_iff, h.length_eq]

/-- within bounds the checked read succeeds for EVERY order of the elements -/
theorem idx?_ok_any_order {α} {a a' : List α} (h : a.Perm a') (i : Int) (h0 : 0 ≤ i) (h1 : i < a.length) :
    ∃ x, idx? a' i = .ok x := by
  obtain ⟨d⟩ : Nonempty α := by
    cases a with
    | nil => simp at h1; omega
    | cons x _ => exact ⟨x⟩
  exact ⟨_, idx?_ok a' i h0 (by rw [← h.length_eq]; exact h1) d⟩

example : idx? [3, 1, 2] (5 : Int) = .panic idxMsg ↔ idx? [1, 2, 3] (5 : Int) = .panic idxMsg :=
  idx?_panic_perm (by decide) 5

/-- the read-then-marker step of the index / pick mirrors panics iff the index is out of range -/
theorem ret_panic_iff {α β} (a : List α) (i : Int) (k : α → Res β) (hk : ∀ x, k x ≠ .panic idxMsg) :
    (idx? a i >>= k) = .panic idxMsg ↔ ¬ (0 ≤ i ∧ i < a.length) := by
  constructor
  · intro h hb
    cases a with
    | nil => simp at hb; omega
    | cons d t =>
      rw [idx?_ok (d :: t) i hb.1 hb.2 d, Res.ok_bind] at h
      exact hk _ h
  · intro h
    rw [(idx?_panic_iff a i).mpr h]; rfl

/-- **`index` with any subset of its guards panics on `a` iff it panics on every re-ordering of `a`** (in particular:
    for a map-ordered array the outcome "panic" does not depend on the enumeration order, and the guard-less mirror
    panics for ALL orders or for none) -/
theorem indexG_panic_perm (gNeg gHi : Bool) (t : ATag) {a a' : List Val} (h : a.Perm a') (i : Int) :
    SliceGo.indexG gNeg gHi (.arr t a) i = .panic idxMsg ↔ SliceGo.indexG gNeg gHi (.arr t a') i = .panic idxMsg := by
  have hl := h.length_eq
  have key : ∀ (b : List Val) (j : Int),
      (idx? b j >>= fun x => if enum2 t b then Res.nondet else Res.ok x) = .panic idxMsg ↔ ¬ (0 ≤ j ∧ j < b.length) :=
    fun b j => ret_panic_iff b j _ (fun x => by split <;> intro e <;> cases e)
  simp only [SliceGo.indexG]
  rw [hl]
  by_cases h1 : i < 0
  · simp only [h1, if_true]
    split
    · exact Iff.rfl
    · rw [key, key, hl]
  · simp only [h1, if_false]
    split
    · exact Iff.rfl
    · rw [key, key, hl]

example : SliceGo.indexG true false (.arr .enum [.null, .bool true]) 7 = .panic idxMsg ↔
    SliceGo.indexG true false (.arr .enum [.bool true, .null]) 7 = .panic idxMsg :=
  indexG_panic_perm _ _ _ (List.Perm.swap _ _ _) 7

/-! ## 2. the allocation limits are Go's -/

/-- **`make([]any, n)` in the mirrors panics exactly when `runtime.makeslice` does** on a 64-bit platform:
    `n < 0` or `16 · n > maxAlloc = 2^48`, i.e. `n > 2^44` -/
theorem make_limit_exact (n : Int) : make? n = .panic makeMsg ↔ (n < 0 ∨ 16 * n > 2 ^ 48) := by
  rw [make?_panic_iff]; omega

/-- for an element type of `sz` bytes (`sz > 0`): `make([]T, n)` panics iff `n < 0` or `sz · n > maxAlloc` -/
theorem makeOf_limit_exact {α} (sz : Nat) (hsz : 0 < sz) (z : α) (n : Int) :
    makeOf? sz z n = .panic makeMsg ↔ (n < 0 ∨ (sz : Int) * n > 2 ^ 48) := by
  have hdiv : ∀ n : Int, n ≤ (2 ^ 48 : Int) / (sz : Int) ↔ (sz : Int) * n ≤ 2 ^ 48 := by
    intro n
    rw [Int.le_ediv_iff_mul_le (by omega), Int.mul_comm]
  unfold makeOf? makeLimitOf maxAlloc
  constructor
  · intro h
    by_cases hb : 0 ≤ n ∧ n ≤ (2 ^ 48 : Int) / (sz : Int)
    · rw [if_pos hb] at h; cases h
    · have := hdiv n; omega
  · intro h
    rw [if_neg (by have := hdiv n; omega)]

example : make? (2 ^ 44 + 1) = .panic makeMsg := (make_limit_exact _).mpr (by decide)
example : makeOf? 24 ([] : List Val) (2 ^ 44) = .panic makeMsg := (makeOf_limit_exact 24 (by decide) _ _).mpr (by decide)

/-! ## 3. `strings.Builder.Grow` -/

/-- **all four `Grow` sites**: `Grow(n)` panics iff `n < 0`; functions.go:94 `b.Grow(len(s))` and parser.go:2201 / :2308
    `b.Grow(len(v))` pass a length, which is never negative (trivially safe); slice.go:237 `b.Grow(n)` passes the
    computed count, shown non-negative in `SliceGo.sliceStepStrC_eq` (`clampStep_cnt_nonneg`) -/
theorem grow_sites (s : Bytes) : grow? (s.length : Int) = .ok () ∧ (∀ n : Int, grow? n = .panic growMsg ↔ n < 0) :=
  ⟨grow?_len s, grow?_panic_iff⟩

example : grow? (([] : Bytes).length : Int) = .ok () := (grow_sites []).1

/-! ## 4. every slice node of every compiled expression meets the hypotheses of `sliceStep_checked` -/

/-- what `sliceHead` says of a stepped slice with a child: `start`, `stop`, `step` are Go `int`s and `step ≠ 0` -/
theorem sliceHead_sliceStep {c : INode} {a b s : Int} (h : sliceHead (.sliceStep c a b s) = true) :
    (-2 ^ 63 ≤ a ∧ a ≤ 2 ^ 63 - 1) ∧ (-2 ^ 63 ≤ b ∧ b ≤ 2 ^ 63 - 1) ∧ (-2 ^ 63 ≤ s ∧ s ≤ 2 ^ 63 - 1) ∧ s ≠ 0 := by
  simpa [sliceHead, in64, and_assoc] using h
/-- the same for the child-less form -/
theorem sliceHead_sliceStepCurrent {a b s : Int} (h : sliceHead (.sliceStepCurrent a b s) = true) :
    (-2 ^ 63 ≤ a ∧ a ≤ 2 ^ 63 - 1) ∧ (-2 ^ 63 ≤ b ∧ b ≤ 2 ^ 63 - 1) ∧ (-2 ^ 63 ≤ s ∧ s ≤ 2 ^ 63 - 1) ∧ s ≠ 0 := by
  simpa [sliceHead, in64, and_assoc] using h

/-- **the hypotheses `step ≠ 0`, `-2^63 ≤ step` of `C03D.sliceStep_checked` hold at EVERY stepped-slice node occurring
    ANYWHERE in ANY compiled expression** (and `start`, `stop`, `step` are all in the `int64` range) -/
theorem compiled_step_ok {expr : Bytes} {n : INode} (h : compile expr = .ok n) {m : INode} (ho : Occurs m n) :
    (∀ c a b s, m = .sliceStep c a b s →
      (-2 ^ 63 ≤ a ∧ a ≤ 2 ^ 63 - 1) ∧ (-2 ^ 63 ≤ b ∧ b ≤ 2 ^ 63 - 1) ∧ (-2 ^ 63 ≤ s ∧ s ≤ 2 ^ 63 - 1) ∧ s ≠ 0) ∧
    (∀ a b s, m = .sliceStepCurrent a b s →
      (-2 ^ 63 ≤ a ∧ a ≤ 2 ^ 63 - 1) ∧ (-2 ^ 63 ≤ b ∧ b ≤ 2 ^ 63 - 1) ∧ (-2 ^ 63 ≤ s ∧ s ≤ 2 ^ 63 - 1) ∧ s ≠ 0) := by
  have hm := all_occurs ho (compile_sliceOK h)
  exact ⟨fun c a b s e => sliceHead_sliceStep (e ▸ hm), fun a b s e => sliceHead_sliceStepCurrent (e ▸ hm)⟩

/-- **a stepped slice `[a:b:s]` occurring anywhere in a compiled expression evaluates as the checked mirror of
    slice.go `sliceStep`** on every current value that fits: no division by zero, no `make` / `Grow` with a bad count,
    no index or slice out of range — with NO hypothesis on the step left -/
theorem compiled_sliceStepCurrent_checked {expr : Bytes} {n : INode} (h : compile expr = .ok n) {a b s : Int}
    (ho : Occurs (.sliceStepCurrent a b s) n) (root cur : Val) (env : Env) (hfit : Fits cur) :
    ieval root (.sliceStepCurrent a b s) cur env = SliceGo.sliceStepC cur a b s := by
  obtain ⟨_, _, hs, hz⟩ := (compiled_step_ok h ho).2 a b s rfl
  rw [ieval, sliceStep_checked cur a b s hz hs.1 hfit]

/-- the same for a stepped slice with a child expression: whenever the child evaluates (to `v`), the node evaluates as
    the checked `sliceStep` on `v` -/
theorem compiled_sliceStep_checked {expr : Bytes} {n : INode} (h : compile expr = .ok n) {c : INode} {a b s : Int}
    (ho : Occurs (.sliceStep c a b s) n) (root cur : Val) (env : Env) (v : Val)
    (hv : ieval root c cur env = .ok v) (hfit : Fits v) :
    ieval root (.sliceStep c a b s) cur env = SliceGo.sliceStepC v a b s := by
  obtain ⟨_, _, hs, hz⟩ := (compiled_step_ok h ho).1 c a b s rfl
  rw [ieval, hv, Res.ok_bind, sliceStep_checked v a b s hz hs.1 hfit]

/-- index and two-part slice nodes need no hypothesis at all: they evaluate as the checked `index` / `slice` -/
theorem index_node_checked (root cur : Val) (env : Env) (i : Int) :
    ieval root (.indexCurrent i) cur env = SliceGo.indexC cur i := by
  rw [ieval, index_checked]
/-- the two-part slice `[a:b]` on the current value -/
theorem slice_node_checked (root cur : Val) (env : Env) (a b : Int) :
    ieval root (.sliceCurrent a b) cur env = SliceGo.sliceC cur a b := by
  rw [ieval, slice_checked]

/-- `[::2]` -/
example : sliceHead (.sliceStepCurrent 0 (2 ^ 63 - 1) 2) = true := by decide
/-- a zero step, or a step outside `int64`, is refused by `sliceHead` -/
example : sliceHead (.sliceStepCurrent 0 5 0) = false := by decide
example : sliceHead (.sliceStepCurrent 0 5 (-(2 ^ 64) - 1)) = false := by decide
example : ieval .null (.sliceStepCurrent 0 (2 ^ 63 - 1) 2) (.arr .plain SliceGo.abc) []
    = SliceGo.sliceStepC (.arr .plain SliceGo.abc) 0 (2 ^ 63 - 1) 2 := by
  rw [ieval, sliceStep_checked _ _ _ _ (by decide) (by decide) (by simp [Fits, makeLimit, SliceGo.abc])]

/-! ## 5. zip, multi-select and call nodes of compiled expressions -/

/-- **every `zip` node occurring in a compiled expression evaluates as the Go-shaped checked mirror** (arguments
    evaluated inside the loop, between the writes): the parser guarantees an argument; what remains is the size of
    things that exist -/
theorem compiled_zip_checked {expr : Bytes} {n : INode} (h : compile expr = .ok n) {args : List INode}
    (ho : Occurs (.zip args) n) (root cur : Val) (env : Env) (hargs : (args.length : Int) ≤ makeLimitOf 24)
    (hfit : ∀ vs, ievalZip root args cur env = .ok vs → ∀ v ∈ vs, Fits v) :
    ArrGo.zipNodeC (fun k => ieval root k cur env) args = ieval root (.zip args) cur env :=
  zipNode_checked root args cur env (all_occurs ho (compile_zip_nonempty h)) hargs hfit

/-- **every call node occurring in a compiled expression evaluates as the checked dispatch** (`node.Arguments[k]` in
    range, every builtin through its checked mirror) -/
theorem compiled_call_checked {expr : Bytes} {n : INode} (h : compile expr = .ok n) {f : Fn} {args : List INode}
    (ho : Occurs (.call f args) n) (root cur : Val) (env : Env) (vs : List Val)
    (hvs : ievalList root args cur env = .ok vs) (hfit : ∀ a ∈ vs, Fits a) :
    ieval root (.call f args) cur env = applyFnC f vs :=
  call_checked root f args cur env (all_occurs_all ho (C08B.compile_arityOK h)) vs hvs hfit

/-! ## 6. the step clause of `C11C.RenOK` is discharged for compiled expressions -/

/-- `C11C.renHead` without its clause on the step of stepped slices -/
def renHeadNoStep (f : Nat → Nat) : INode → Bool
  | .sliceStep _ _ _ _ => true
  | .sliceStepCurrent _ _ _ => true
  | m => C11C.renHead f m

/-- `renHead` is `renHeadNoStep` together with the step clause -/
theorem renHead_split (f : Nat → Nat) (m : INode) : C11C.renHead f m = (renHeadNoStep f m && stepHead m) := by
  cases m <;> simp only [renHeadNoStep, stepHead, Bool.and_true, Bool.true_and] <;> rfl

/-- **for a compiled expression the step clause of `RenOK` is redundant**: `RenOK f n` holds iff the clauses on
    literals, keys and builtins hold — the parser never builds a stepped slice whose step is zero or below `MinInt` -/
theorem compile_renOK_iff (f : Nat → Nat) {expr : Bytes} {n : INode} (h : compile expr = .ok n) :
    C11C.RenOK f n = true ↔ n.all (renHeadNoStep f) = true := by
  have hstep : n.all stepHead = true := all_mono stepHead_of_sliceHead n (compile_sliceOK h)
  have e : C11C.renHead f = fun m => renHeadNoStep f m && stepHead m := funext (renHead_split f)
  unfold C11C.RenOK
  rw [e, INode.all_and, Bool.and_eq_true]
  exact ⟨fun hh => hh.1, fun hh => ⟨hh, hstep⟩⟩

/-- `a[::-1]` compiles, and its `RenOK` (for the running renaming `C11R.shift`) needs no step hypothesis -/
example : ∀ n, compile [0x61, 0x5B, 0x3A, 0x3A, 0x2D, 0x31, 0x5D] = .ok n →
    (C11C.RenOK C11R.shift n = true ↔ n.all (renHeadNoStep C11R.shift) = true) :=
  fun _ h => compile_renOK_iff _ h

end Jmes.C03E
