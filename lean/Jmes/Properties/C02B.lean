/-
  C02 (second part) — arity, error classification and value specifications of the builtins.

  ## A. "an arity error exactly when the argument count is outside the signature"

  For a call `name(arg, …)` that is the whole expression, with well-formed argument texts (`WellPrec` trees of the
  declarative grammar, `&expr` where the builtin wants an expression reference):

  * `fixed_arity_iff`: a builtin with between `mn` and `mx` plain arguments — `compile` fails with the arity error iff
    the count is `< mn` or `> mx`; within the range it succeeds (`fixed_in_range`);
  * `varArg_arity_iff`: `merge`, `not_null`, `zip` — an arity error iff there is no argument;
  * `expArg_arity_iff`: `sort_by` & co (`f(array, &expr)`) — with the reference in second position, an arity error iff
    the count is not 2; `mapArg_arity_iff`: `map(&expr, array)` likewise;
  * `expArg_second_not_ref` / `mapArg_first_not_ref`: a *plain* expression where a reference is wanted is reported as
    invalid-type (and `sort_by(a, b, c)` is reported as invalid-type, not arity: two faults, one is reported).

  ## B. classification of the failures of the eager builtins (`applyFn_err_classification`, `invalidValue_only_from`,
     `notANumber_only_from`)
  ## C. value specifications
-/
import Jmes.Properties.C04G
import Jmes.Proofs.C08BLemmas
import Jmes.Proofs.C08BArity
import Jmes.Proofs.Utf8
import Jmes.Proofs.Scope
namespace Jmes.C02B
open Jmes Jmes.Parser Jmes.Pratt Jmes.Grammar Jmes.GrammarF0

/-! ## A. arity -/

theorem Le.err {α} {x y : PM α} (h : Le x y) {s : PState} {e : PErr} (hx : x s = .error e) (hne : e ≠ .fuel) :
    y s = .error e := by
  rw [h.h s (by rw [hx]; intro h'; cases h'; exact hne rfl), hx]

/-- a parse error found with some fuel is the result of `Parser.parse` -/
theorem parse_error_of_expr {e : Bytes} {ts : List Token} (hl : lexAll e = (ts, none)) {F : Nat} {err : PErr}
    (h : expression F 1 (stOf ts) = .error err) (hne : err ≠ .fuel) : Parser.parse e = .error err := by
  have hnf := Fuel.fuel_sufficient e
  rw [parse_of_lex hl] at hnf ⊢
  have hne' : expression (fuelFor ts.length) 1 (stOf ts) ≠ .error .fuel := by
    intro h'
    apply hnf
    unfold runTop
    rw [bind_err h']
  have h1 := expression_mono_res (Nat.le_max_left (fuelFor ts.length) F) hne'
  have h2 := Le.err ((mono_le (Nat.le_max_right (fuelFor ts.length) F)).expr 1) h hne
  have h3 : expression (fuelFor ts.length) 1 (stOf ts) = .error err := by rw [← h1]; exact h2
  unfold runTop
  rw [bind_err h3]

/-- the tokens of the expression `name(arg, …)` -/
def callToks (name : Token) (args : List PTree) : List Token :=
  Grammar.flatten (.call name args) ++ [endTok]

theorem callToks_eq (name : Token) (args : List PTree) :
    callToks name args = name :: tLParen :: (flatSep args ++ tRParen :: [endTok]) := by
  simp [callToks, Grammar.flatten, flat]

/-- a failure of `function` is a failure of the whole expression -/
theorem expr_of_function_err {F : Nat} {name : Token} (hn : name.type = .unquotedIdentifier) {ts : List Token}
    {err : PErr} (h : function F (stOf (name :: tLParen :: ts)) = .error err) :
    expression (F + 2) 1 (stOf (name :: tLParen :: ts)) = .error err := by
  rw [expression_succ_run, prim_function hn, h]

/-- no argument at all: every builtin wants at least one -/
theorem function_no_args {name : Token} {spec : ArgSpec} (hl : lookupBuiltin name.value = some spec)
    (rest : List Token) :
    function 1 (stOf (name :: tLParen :: tRParen :: rest)) = .error .invalidFunctionCall := by
  rw [function.eq_2]
  pm_eval [hl]

/-- too few: the list closes before `mn` arguments were read -/
theorem fnArgs_too_few (mn mx : Nat) (rest : List Token) :
    ∀ (es : List PTree), es ≠ [] → (∀ e ∈ es, WellPrec e) → ∀ acc : List INode,
      acc.length + es.length < mn →
      ∃ f, fnArgs f mn mx acc (stOf (flatSep es ++ tRParen :: rest)) = .error .invalidFunctionCall
  | [], h, _, _, _ => absurd rfl h
  | [e], _, hw, acc, h1 => by
    have hwe : wp false e = true := hw e (by simp)
    obtain ⟨f, hf⟩ := (GrammarF2.complete e false hwe).elem hwe (t := tRParen) rest rfl (by decide)
    refine ⟨f + 1, ?_⟩
    rw [fnArgs.eq_2]
    simp only [List.length_singleton] at h1
    pm_eval [flatSep, hf, List.length_append, List.length_singleton, h1]
  | e :: e' :: es, _, hw, acc, h1 => by
    have hwe : wp false e = true := hw e (by simp)
    obtain ⟨f, hf⟩ := (GrammarF2.complete e false hwe).elem hwe (t := tComma)
      (flatSep (e' :: es) ++ tRParen :: rest) rfl (by decide)
    simp only [List.length_cons] at h1
    obtain ⟨g, hg⟩ := fnArgs_too_few mn mx rest (e' :: es) (by simp) (fun x hx => hw x (by simp [hx]))
      (acc ++ [erase e])
      (by simp only [List.length_append, List.length_cons, List.length_nil]; omega)
    refine ⟨max f g + 1, ?_⟩
    rw [fnArgs.eq_2, flatSep_cons2]
    have hf' := expression_mono (Nat.le_max_left f g) hf
    have hg' := Le.err ((mono_le (Nat.le_max_right f g)).args mn mx (acc ++ [erase e])) hg (by decide)
    have h3 : acc.length + 1 < mn := by omega
    pm_eval [hf', hg', List.length_append, List.length_singleton, h3]

/-- too many: a comma follows the `mx`-th argument -/
theorem fnArgs_too_many (mn mx : Nat) (hmm : mn ≤ mx) (rest : List Token) :
    ∀ (es : List PTree), es ≠ [] → (∀ e ∈ es, WellPrec e) → ∀ acc : List INode,
      acc.length < mx → mx < acc.length + es.length →
      ∃ f, fnArgs f mn mx acc (stOf (flatSep es ++ tRParen :: rest)) = .error .invalidFunctionCall
  | [], h, _, _, _, _ => absurd rfl h
  | [e], _, _, acc, h0, h1 => by simp only [List.length_singleton] at h1; omega
  | e :: e' :: es, _, hw, acc, h0, h1 => by
    have hwe : wp false e = true := hw e (by simp)
    obtain ⟨f, hf⟩ := (GrammarF2.complete e false hwe).elem hwe (t := tComma)
      (flatSep (e' :: es) ++ tRParen :: rest) rfl (by decide)
    simp only [List.length_cons] at h1
    by_cases h2 : acc.length + 1 < mx
    · obtain ⟨g, hg⟩ := fnArgs_too_many mn mx hmm rest (e' :: es) (by simp) (fun x hx => hw x (by simp [hx]))
        (acc ++ [erase e])
        (by simp only [List.length_append, List.length_cons, List.length_nil]; omega)
        (by simp only [List.length_append, List.length_cons, List.length_nil]; omega)
      refine ⟨max f g + 1, ?_⟩
      rw [fnArgs.eq_2, flatSep_cons2]
      have hf' := expression_mono (Nat.le_max_left f g) hf
      have hg' := Le.err ((mono_le (Nat.le_max_right f g)).args mn mx (acc ++ [erase e])) hg (by decide)
      pm_eval [hf', hg', List.length_append, List.length_singleton, h2]
      split <;> rfl
    · refine ⟨f + 1, ?_⟩
      rw [fnArgs.eq_2, flatSep_cons2]
      have h3 : ¬ acc.length + 1 < mn := by omega
      pm_eval [hf, List.length_append, List.length_singleton, h2, h3]

/-- the table: every fixed-arity builtin wants at least one argument and `mn ≤ mx` -/
theorem fixed_bounds {name : Bytes} {mn mx : Nat} {mk : List INode → INode}
    (h : lookupBuiltin name = some (.fixed mn mx mk)) : 1 ≤ mn ∧ mn ≤ mx := by
  simp only [lookupBuiltin, Option.map_eq_some_iff] at h
  obtain ⟨e, he, h2⟩ := h
  have hm := List.mem_of_find?_eq_some he
  have : ∀ e ∈ builtinTable, ∀ mn mx mk, e.2 = .fixed mn mx mk → 1 ≤ mn ∧ mn ≤ mx := by
    simp only [builtinTable, List.forall_mem_cons]
    repeat' apply And.intro
    all_goals first
      | (intro x hx; exact absurd hx List.not_mem_nil)
      | (intro mn mx mk h; cases h; omega)
      | (intro mn mx mk h; cases h)
  exact this e hm mn mx mk h2

theorem wellPrec_not_ref {a : PTree} (h : WellPrec a) : a.isRef = false := by
  cases a <;> first | rfl | (simp [WellPrec, wp] at h)

theorem wpArgs_of_wellPrec : ∀ {args : List PTree}, (∀ a ∈ args, WellPrec a) → wpArgs args = true
  | [], _ => rfl
  | a :: as, h => by
    have ha : WellPrec a := h a (by simp)
    have ih := wpArgs_of_wellPrec (args := as) (fun x hx => h x (by simp [hx]))
    cases a <;> first
      | (simp only [wpArgs, Bool.and_eq_true]; exact ⟨ha, ih⟩)
      | (simp [WellPrec, wp] at ha)

/-- **fixed-arity builtins, within the signature**: the call compiles, to the node of the table -/
theorem fixed_in_range {name : Token} (hn : name.type = .unquotedIdentifier) {mn mx : Nat} {mk : List INode → INode}
    (hl : lookupBuiltin name.value = some (.fixed mn mx mk)) {args : List PTree} (hw : ∀ a ∈ args, WellPrec a)
    (h1 : mn ≤ args.length) (h2 : args.length ≤ mx)
    {e : Bytes} (hlex : lexAll e = (callToks name args, none)) : Parser.parse e = .ok (mk (eraseL args)) := by
  have hb := fixed_bounds hl
  have hwp : WellPrec (.call name args) := by
    show wp false (.call name args) = true
    simp only [wp, Bool.not_false, Bool.true_and, hn, beq_self_eq_true, hl, argsOK, Bool.and_eq_true,
      decide_eq_true_eq, List.all_eq_true, Bool.not_eq_true']
    exact ⟨⟨⟨by omega, h1, h2⟩, fun a ha => wellPrec_not_ref (hw a ha)⟩, wpArgs_of_wellPrec hw⟩
  have := C04G.parse_complete hwp hlex
  simpa only [erase, hl, callNode] using this

/-- **fixed-arity builtins: an arity error exactly when the argument count is outside the signature** -/
theorem fixed_arity_iff {name : Token} (hn : name.type = .unquotedIdentifier) {mn mx : Nat} {mk : List INode → INode}
    (hl : lookupBuiltin name.value = some (.fixed mn mx mk)) {args : List PTree} (hw : ∀ a ∈ args, WellPrec a)
    {e : Bytes} (hlex : lexAll e = (callToks name args, none)) :
    Parser.parse e = .error .invalidFunctionCall ↔ args.length < mn ∨ mx < args.length := by
  have hb := fixed_bounds hl
  constructor
  · intro h
    by_cases h1 : mn ≤ args.length
    · by_cases h2 : args.length ≤ mx
      · rw [fixed_in_range hn hl hw h1 h2 hlex] at h; cases h
      · exact Or.inr (by omega)
    · exact Or.inl (by omega)
  · intro h
    rw [callToks_eq] at hlex
    cases args with
    | nil =>
      refine parse_error_of_expr hlex (F := 3) (expr_of_function_err hn ?_) (by decide)
      exact function_no_args hl _
    | cons a as =>
      have hfn : ∃ f, fnArgs f mn mx [] (stOf (flatSep (a :: as) ++ tRParen :: [endTok])) =
          .error .invalidFunctionCall := by
        rcases h with h | h
        · exact fnArgs_too_few mn mx _ (a :: as) (by simp) hw [] (by simpa using h)
        · exact fnArgs_too_many mn mx hb.2 _ (a :: as) (by simp) hw [] (by simp only [List.length_nil]; omega)
            (by simpa using h)
      obtain ⟨f, hf⟩ := hfn
      refine parse_error_of_expr hlex (F := f + 3) (expr_of_function_err hn ?_) (by decide)
      have hne : (stOf (flatSep (a :: as) ++ tRParen :: [endTok])).curr.type ≠ .closeParen := by
        cases f with
        | zero => rw [fnArgs.eq_1] at hf; cases hf
        | succ f =>
          intro hc
          rw [fnArgs.eq_2, bind_run] at hf
          cases f with
          | zero => rw [expression.eq_1] at hf; cases hf
          | succ f =>
            rw [expression_succ_run] at hf
            cases f with
            | zero => rw [primaryExpression.eq_1] at hf; cases hf
            | succ f =>
              rw [primaryExpression.eq_2, bind_ok (get_run _)] at hf
              simp only [hc] at hf
              cases hf
      rw [function.eq_2]
      pm_eval [hl, hne, hf]

/-- **variadic builtins** (`merge`, `not_null`, `zip`): an arity error exactly when there is no argument -/
theorem varArg_arity_iff {name : Token} (hn : name.type = .unquotedIdentifier) {mk : List INode → INode}
    (hl : lookupBuiltin name.value = some (.varArg mk)) {args : List PTree} (hw : ∀ a ∈ args, WellPrec a)
    {e : Bytes} (hlex : lexAll e = (callToks name args, none)) :
    (Parser.parse e = .error .invalidFunctionCall ↔ args.length = 0) ∧
    (1 ≤ args.length → Parser.parse e = .ok (mk (eraseL args))) := by
  have hok : 1 ≤ args.length → Parser.parse e = .ok (mk (eraseL args)) := by
    intro h1
    have hwp : WellPrec (.call name args) := by
      show wp false (.call name args) = true
      simp only [wp, Bool.not_false, Bool.true_and, hn, beq_self_eq_true, hl, argsOK, Bool.and_eq_true,
        decide_eq_true_eq, List.all_eq_true, Bool.not_eq_true']
      exact ⟨⟨h1, fun a ha => wellPrec_not_ref (hw a ha)⟩, wpArgs_of_wellPrec hw⟩
    have := C04G.parse_complete hwp hlex
    simpa only [erase, hl, callNode] using this
  refine ⟨⟨fun h => ?_, fun h => ?_⟩, hok⟩
  · by_cases h1 : 1 ≤ args.length
    · rw [hok h1] at h; cases h
    · omega
  · rw [callToks_eq] at hlex
    have : args = [] := List.length_eq_zero_iff.mp h
    subst this
    refine parse_error_of_expr hlex (F := 3) (expr_of_function_err hn ?_) (by decide)
    exact function_no_args hl _

/-! ### `f(array, &expr)` and `map(&expr, array)` -/

/-- **`sort_by`, `max_by`, `min_by`, `group_by`** with an expression reference in second position: the call compiles
    iff there are exactly two arguments, and is an arity error otherwise (one argument, or three and more — what the
    further arguments are does not matter) -/
theorem expArg_arity_iff {name : Token} (hn : name.type = .unquotedIdentifier) {mk : INode → INode → INode}
    (hl : lookupBuiltin name.value = some (.expArg mk)) {a : PTree} (ha : WellPrec a)
    {more : List PTree} (hmore : ∀ x ∈ more.head?, ∃ t, x = .ref t ∧ WellPrec t)
    {e : Bytes} (hlex : lexAll e = (callToks name (a :: more), none)) :
    (Parser.parse e = .error .invalidFunctionCall ↔ (a :: more).length ≠ 2) ∧
    (∀ t, more = [.ref t] → Parser.parse e = .ok (mk (erase a) (erase t))) := by
  have hok : ∀ t, more = [.ref t] → Parser.parse e = .ok (mk (erase a) (erase t)) := by
    intro t hm
    subst hm
    have ht : WellPrec t := by
      obtain ⟨t', h1, h2⟩ := hmore (.ref t) rfl
      cases h1; exact h2
    have hwp : WellPrec (.call name [a, .ref t]) := by
      show wp false (.call name [a, .ref t]) = true
      have hnr := wellPrec_not_ref ha
      have : wpArgs [a, .ref t] = true := by
        cases a <;> first
          | (simp only [wpArgs, Bool.and_eq_true]; exact ⟨ha, ht, trivial⟩)
          | (simp [WellPrec, wp] at ha)
      simp only [wp, Bool.not_false, hn, beq_self_eq_true, hl, argsOK, hnr,
        show (PTree.ref t).isRef = true from rfl, this, Bool.not_false, Bool.and_self]
    have := C04G.parse_complete hwp hlex
    simpa only [erase, hl, callNode, eraseL] using this
  refine ⟨⟨fun h => ?_, fun h => ?_⟩, hok⟩
  · intro h2
    match more, hmore, hok, h2 with
    | [x], hmore, hok, _ =>
      obtain ⟨t, rfl, _⟩ := hmore x rfl
      rw [hok t rfl] at h; cases h
  · rw [callToks_eq] at hlex
    have hwa : wp false a = true := ha
    match more, hmore, h, hlex with
    | [], _, _, hlex =>
      -- `f(a)`: the list closes after the first argument
      obtain ⟨f, hf⟩ := (GrammarF2.complete a false hwa).elem hwa (t := tRParen) [endTok] rfl (by decide)
      refine parse_error_of_expr hlex (F := f + 3) (expr_of_function_err hn ?_) (by decide)
      have hne := expression_ok_ne_rparen hf
      rw [function.eq_2]
      simp only [flatSep]
      pm_eval [hl, hne, hf]
    | [x], _, h, _ => exact absurd rfl h
    | x :: y :: more', hmore, _, hlex =>
      -- `f(a, &t, …)`: a comma follows the second argument
      obtain ⟨t, rfl, ht⟩ := hmore x rfl
      have hwt : wp false t = true := ht
      obtain ⟨f, hf⟩ := (GrammarF2.complete a false hwa).elem hwa (t := tComma)
        (tAmp :: (flat false t ++ tComma :: (flatSep (y :: more') ++ tRParen :: [endTok]))) rfl (by decide)
      obtain ⟨g, hg⟩ := (GrammarF2.complete t false hwt).elem hwt (t := tComma)
        (flatSep (y :: more') ++ tRParen :: [endTok]) rfl (by decide)
      have hlex' : lexAll e = (name :: tLParen :: (flat false a ++ tComma :: tAmp :: (flat false t ++ tComma ::
          (flatSep (y :: more') ++ tRParen :: [endTok]))), none) := by
        rw [hlex]
        simp only [flatSep_cons2, flat, List.cons_append, List.append_assoc]
      refine parse_error_of_expr hlex' (F := max f g + 3) (expr_of_function_err hn ?_) (by decide)
      have hf' := expression_mono (Nat.le_max_left f g) hf
      have hg' := expression_mono (Nat.le_max_right f g) hg
      have hne := expression_ok_ne_rparen hf'
      rw [function.eq_2]
      pm_eval [hl, hne, hf', hg']

/-- a *plain* second argument where `sort_by` & co want `&expr` is an invalid-type fault — also when there are further
    arguments (`sort_by(a, b, c)`: the count is wrong as well; the reference check comes first) -/
theorem expArg_second_not_ref {name : Token} (hn : name.type = .unquotedIdentifier) {mk : INode → INode → INode}
    (hl : lookupBuiltin name.value = some (.expArg mk)) {a b : PTree} (ha : WellPrec a) (hb : WellPrec b)
    {more : List PTree} {e : Bytes} (hlex : lexAll e = (callToks name (a :: b :: more), none)) :
    Parser.parse e = .error .invalidFunctionArgument := by
  rw [callToks_eq] at hlex
  have hwa : wp false a = true := ha
  obtain ⟨f, hf⟩ := (GrammarF2.complete a false hwa).elem hwa (t := tComma)
    (flatSep (b :: more) ++ tRParen :: [endTok]) rfl (by decide)
  have hlex' : lexAll e = (name :: tLParen :: (flat false a ++ tComma ::
      (flatSep (b :: more) ++ tRParen :: [endTok])), none) := by
    rw [hlex]; simp only [flatSep_cons2, List.cons_append, List.append_assoc]
  refine parse_error_of_expr hlex' (F := f + 3) (expr_of_function_err hn ?_) (by decide)
  have hne := expression_ok_ne_rparen hf
  -- the token after the comma is the first token of `b`, which is not `&`
  have hb1 : ∃ t ts, flatSep (b :: more) ++ tRParen :: [endTok] = t :: ts ∧ t.type ≠ .expression := by
    have hwb : wp false b = true := hb
    obtain ⟨g, hg⟩ := (GrammarF2.complete b false hwb).elem hwb (t := tRParen) [endTok] rfl (by decide)
    have hfirst : ∃ t ts, flat false b = t :: ts ∧ t.type ≠ .expression := by
      cases hfb : flat false b with
      | nil =>
        rw [hfb] at hg
        exact absurd rfl (expression_ok_ne_rparen hg)
      | cons t ts =>
        refine ⟨t, ts, rfl, fun ht => ?_⟩
        rw [hfb] at hg
        cases g with
        | zero => rw [expression.eq_1] at hg; cases hg
        | succ g =>
          rw [expression_succ_run] at hg
          cases g with
          | zero => rw [primaryExpression.eq_1] at hg; cases hg
          | succ g =>
            rw [primaryExpression.eq_2, bind_ok (get_run _)] at hg
            simp only [List.cons_append, stOf_curr, ht] at hg
            cases hg
    obtain ⟨t, ts, h1, h2⟩ := hfirst
    cases more with
    | nil => exact ⟨t, ts ++ tRParen :: [endTok], by simp [flatSep, h1], h2⟩
    | cons m ms => exact ⟨t, ts ++ tComma :: (flatSep (m :: ms) ++ tRParen :: [endTok]), by
        simp [flatSep_cons2, h1], h2⟩
  obtain ⟨t, ts, h1, h2⟩ := hb1
  rw [h1] at hf hne
  rw [function.eq_2, h1]
  pm_eval [hl, hne, hf, h2]

/-- **`map(&expr, array)`**: compiles iff there are exactly two arguments; an arity error otherwise -/
theorem mapArg_arity_iff {name : Token} (hn : name.type = .unquotedIdentifier) {mk : INode → INode → INode}
    (hl : lookupBuiltin name.value = some (.mapArg mk)) {t : PTree} (ht : WellPrec t)
    {more : List PTree} (hmore : ∀ x ∈ more.head?, WellPrec x)
    {e : Bytes} (hlex : lexAll e = (callToks name (.ref t :: more), none)) :
    (Parser.parse e = .error .invalidFunctionCall ↔ (PTree.ref t :: more).length ≠ 2) ∧
    (∀ a, more = [a] → Parser.parse e = .ok (mk (erase t) (erase a))) := by
  have hok : ∀ a, more = [a] → Parser.parse e = .ok (mk (erase t) (erase a)) := by
    intro a hm
    subst hm
    have ha : WellPrec a := hmore a rfl
    have hwp : WellPrec (.call name [.ref t, a]) := by
      show wp false (.call name [.ref t, a]) = true
      have hnr := wellPrec_not_ref ha
      have : wpArgs [.ref t, a] = true := by
        cases a <;> first
          | (simp only [wpArgs, Bool.and_eq_true]; exact ⟨ht, ha, trivial⟩)
          | (simp [WellPrec, wp] at ha)
      simp only [wp, Bool.not_false, hn, beq_self_eq_true, hl, argsOK, hnr,
        show (PTree.ref t).isRef = true from rfl, this, Bool.not_false, Bool.and_self]
    have := C04G.parse_complete hwp hlex
    simpa only [erase, hl, callNode, eraseL] using this
  refine ⟨⟨fun h => ?_, fun h => ?_⟩, hok⟩
  · intro h2
    match more, hok, h2 with
    | [x], hok, _ => rw [hok x rfl] at h; cases h
  · rw [callToks_eq] at hlex
    have hwt : wp false t = true := ht
    match more, hmore, h, hlex with
    | [], _, _, hlex =>
      obtain ⟨f, hf⟩ := (GrammarF2.complete t false hwt).elem hwt (t := tRParen) [endTok] rfl (by decide)
      have hlex' : lexAll e = (name :: tLParen :: tAmp :: (flat false t ++ tRParen :: [endTok]), none) := by
        rw [hlex]; simp only [flatSep, flat, List.cons_append]
      refine parse_error_of_expr hlex' (F := f + 3) (expr_of_function_err hn ?_) (by decide)
      rw [function.eq_2]
      pm_eval [hl, hf]
    | [x], _, h, _ => exact absurd rfl h
    | x :: y :: more', hmore, _, hlex =>
      have hx : wp false x = true := hmore x rfl
      obtain ⟨f, hf⟩ := (GrammarF2.complete t false hwt).elem hwt (t := tComma)
        (flat false x ++ tComma :: (flatSep (y :: more') ++ tRParen :: [endTok])) rfl (by decide)
      obtain ⟨g, hg⟩ := (GrammarF2.complete x false hx).elem hx (t := tComma)
        (flatSep (y :: more') ++ tRParen :: [endTok]) rfl (by decide)
      have hlex' : lexAll e = (name :: tLParen :: tAmp :: (flat false t ++ tComma :: (flat false x ++ tComma ::
          (flatSep (y :: more') ++ tRParen :: [endTok]))), none) := by
        rw [hlex]
        simp only [flatSep_cons2, flat, List.cons_append, List.append_assoc]
      refine parse_error_of_expr hlex' (F := max f g + 3) (expr_of_function_err hn ?_) (by decide)
      have hf' := expression_mono (Nat.le_max_left f g) hf
      have hg' := expression_mono (Nat.le_max_right f g) hg
      rw [function.eq_2]
      pm_eval [hl, hf', hg']

/-- a *plain* first argument where `map` wants `&expr` is an invalid-type fault, whatever follows -/
theorem mapArg_first_not_ref {name : Token} (hn : name.type = .unquotedIdentifier) {mk : INode → INode → INode}
    (hl : lookupBuiltin name.value = some (.mapArg mk)) {t : Token} (ht : t.type ≠ .expression)
    (ht' : t.type ≠ .closeParen) {ts : List Token}
    {e : Bytes} (hlex : lexAll e = (name :: tLParen :: t :: ts, none)) :
    Parser.parse e = .error .invalidFunctionArgument := by
  refine parse_error_of_expr hlex (F := 3) (expr_of_function_err hn ?_) (by decide)
  rw [function.eq_2]
  pm_eval [hl, ht, ht']

/-! ### examples -/
section examples
open Grammar.Ex

def nSortBy : Token := ⟨.unquotedIdentifier, bs "sort_by"⟩
def nMap : Token := ⟨.unquotedIdentifier, bs "map"⟩
def nAbs : Token := ⟨.unquotedIdentifier, bs "abs"⟩
def nFindFirst : Token := ⟨.unquotedIdentifier, bs "find_first"⟩
def nMerge : Token := ⟨.unquotedIdentifier, bs "merge"⟩

/-- `sort_by(a)`: too few -/
example : Parser.parse (bs "sort_by(a)") = .error .invalidFunctionCall :=
  (expArg_arity_iff (name := nSortBy) rfl (mk := .sortBy) rfl (a := idt "a") (by decide) (more := [])
    (fun _ h => by cases h) (by decide +kernel)).1.mpr (by decide)
/-- `sort_by(a,&b,c)`: too many -/
example : Parser.parse (bs "sort_by(a,&b,c)") = .error .invalidFunctionCall :=
  (expArg_arity_iff (name := nSortBy) rfl (mk := .sortBy) rfl (a := idt "a") (by decide)
    (more := [.ref (idt "b"), idt "c"])
    (fun x h => by cases h; exact ⟨_, rfl, by decide⟩) (by decide +kernel)).1.mpr (by decide)
/-- `sort_by(a,&b)`: accepted -/
example : Parser.parse (bs "sort_by(a,&b)") = .ok (.sortBy (.field (bs "a")) (.field (bs "b"))) :=
  (expArg_arity_iff (name := nSortBy) rfl (mk := .sortBy) rfl (a := idt "a") (by decide)
    (more := [.ref (idt "b")])
    (fun x h => by cases h; exact ⟨_, rfl, by decide⟩) (by decide +kernel)).2 (idt "b") rfl
/-- `sort_by(a,b,c)`: two faults (no `&`, three arguments); invalid-type is the one reported -/
example : Parser.parse (bs "sort_by(a,b,c)") = .error .invalidFunctionArgument :=
  expArg_second_not_ref (name := nSortBy) rfl (mk := .sortBy) rfl (a := idt "a") (b := idt "b") (by decide) (by decide)
    (more := [idt "c"]) (by decide +kernel)
/-- `map(&a)`: too few -/
example : Parser.parse (bs "map(&a)") = .error .invalidFunctionCall :=
  (mapArg_arity_iff (name := nMap) rfl (mk := .map) rfl (t := idt "a") (by decide) (more := [])
    (fun _ h => by cases h) (by decide +kernel)).1.mpr (by decide)
/-- `map(a)`: not a reference -/
example : Parser.parse (bs "map(a)") = .error .invalidFunctionArgument :=
  mapArg_first_not_ref (name := nMap) rfl (mk := .map) rfl (t := ⟨.unquotedIdentifier, bs "a"⟩) (by decide) (by decide)
    (ts := [tRParen, endTok]) (by decide +kernel)
/-- `abs()`, `abs(a,b)`: arity; `abs(a)`: accepted -/
example : Parser.parse (bs "abs()") = .error .invalidFunctionCall :=
  (fixed_arity_iff (name := nAbs) rfl (mn := 1) (mx := 1) (mk := callN .abs) rfl (args := [])
    (fun _ h => by cases h) (by decide +kernel)).mpr (by decide)
example : Parser.parse (bs "abs(a,b)") = .error .invalidFunctionCall :=
  (fixed_arity_iff (name := nAbs) rfl (mn := 1) (mx := 1) (mk := callN .abs) rfl (args := [idt "a", idt "b"])
    (by decide) (by decide +kernel)).mpr (by decide)
example : Parser.parse (bs "abs(a)") = .ok (.call .abs [.field (bs "a")]) :=
  fixed_in_range (name := nAbs) rfl (mn := 1) (mx := 1) (mk := callN .abs) rfl (args := [idt "a"])
    (by decide) (by decide) (by decide) (by decide +kernel)
/-- `find_first(a)` … `find_first(a,b,c,d,e)`: 2 to 4 arguments -/
example : Parser.parse (bs "find_first(a)") = .error .invalidFunctionCall :=
  (fixed_arity_iff (name := nFindFirst) rfl (mn := 2) (mx := 4) rfl (args := [idt "a"])
    (by decide) (by decide +kernel)).mpr (by decide)
example : Parser.parse (bs "find_first(a,b,c,d,e)") = .error .invalidFunctionCall :=
  (fixed_arity_iff (name := nFindFirst) rfl (mn := 2) (mx := 4) rfl
    (args := [idt "a", idt "b", idt "c", idt "d", idt "e"]) (by decide) (by decide +kernel)).mpr (by decide)
example : Parser.parse (bs "find_first(a,b,c)") =
    .ok (.call .findFirstFrom [.field (bs "a"), .field (bs "b"), .field (bs "c")]) :=
  fixed_in_range (name := nFindFirst) rfl (mn := 2) (mx := 4) rfl (args := [idt "a", idt "b", idt "c"])
    (by decide) (by decide) (by decide) (by decide +kernel)
/-- `merge()`: arity; `merge(a,b,c)`: accepted -/
example : Parser.parse (bs "merge()") = .error .invalidFunctionCall :=
  (varArg_arity_iff (name := nMerge) rfl (mk := .merge) rfl (args := []) (fun _ h => by cases h)
    (by decide +kernel)).1.mpr rfl
example : Parser.parse (bs "merge(a,b,c)") = .ok (.merge [.field (bs "a"), .field (bs "b"), .field (bs "c")]) :=
  (varArg_arity_iff (name := nMerge) rfl (mk := .merge) rfl (args := [idt "a", idt "b", idt "c"]) (by decide)
    (by decide +kernel)).2 (by decide)

end examples

/-! ## B. classification of the failures of the eager builtins -/
section classification
open RtErr

/-- failure sets that avoid the category `x` -/
def Avoid (x : Cat) : List Cat → Prop := fun cs => x ∉ cs

instance (x : Cat) : PeMore (Avoid x) where
  mem := fun cs h c hc => by
    simp only [Avoid, List.mem_singleton]; intro h'; subst h'; exact h hc
  more := fun cs ex h hex => by
    simp only [Avoid, Cat.mem_dedup, List.mem_append, not_or]
    exact ⟨h, fun hc => by have := hex _ hc; simp [Avoid] at this⟩

instance : HasT (Avoid .invalidValue) := ⟨by simp [Avoid]⟩
instance : HasN (Avoid .invalidValue) := ⟨by simp [Avoid]⟩
instance : HasF (Avoid .invalidValue) := ⟨by simp [Avoid]⟩
instance : HasT (Avoid .notANumber) := ⟨by simp [Avoid]⟩
instance : HasV (Avoid .notANumber) := ⟨by simp [Avoid]⟩
instance : HasF (Avoid .notANumber) := ⟨by simp [Avoid]⟩

/-- the three single-category failures -/
def TVN (cs : List Cat) : Prop := cs = [.invalidType] ∨ cs = [.invalidValue] ∨ cs = [.notANumber]
instance : HasT TVN := ⟨Or.inl rfl⟩
instance : HasV TVN := ⟨Or.inr (Or.inl rfl)⟩
instance : HasN TVN := ⟨Or.inr (Or.inr rfl)⟩

/-- invalid-type and invalid-value, possibly both (the widened failure of `from_items` on a map-ordered array) -/
def TV (cs : List Cat) : Prop := cs ≠ [] ∧ ∀ c ∈ cs, c = Cat.invalidType ∨ c = Cat.invalidValue
instance : HasT TV := ⟨by simp [TV]⟩
instance : HasV TV := ⟨by simp [TV]⟩
instance : PeMore TV where
  mem := fun cs h c hc => ⟨by simp, fun c' hc' => by rw [List.mem_singleton.mp hc']; exact h.2 c hc⟩
  more := fun cs ex h hex => by
    refine ⟨fun hd => ?_, fun c hc => ?_⟩
    · have := Cat.dedup_eq_nil _ hd
      simp only [List.append_eq_nil_iff] at this
      exact h.1 this.1
    · rw [Cat.mem_dedup, List.mem_append] at hc
      rcases hc with hc | hc
      · exact h.2 c hc
      · exact (hex c hc).2 c (List.mem_singleton.mpr rfl)

/-- every eager builtin except `to_string` and `from_items`, on an argument list of its arity, fails with exactly one
    of invalid-type / invalid-value / not-a-number -/
macro "fn_sat" : tactic => `(tactic| first
  | exact Sat.ok _
  | apply numAbs_rt | apply numAvg_rt | apply numCeil_rt | apply contains_rt | apply endsWith_rt
  | apply findFirst_rt | apply findBetween_rt | apply findFrom_rt | apply findLast_rt
  | apply numFloor_rt | apply items_rt | apply join_rt | apply keys_rt
  | apply length_rt | apply lower_rt | apply arrayMax_rt | apply arrayMin_rt
  | apply padLeft_rt | apply padRight_rt | apply padSpaceLeft_rt | apply padSpaceRight_rt
  | apply replace_rt | apply replaceCount_rt | apply reverse_rt | apply sortArray_rt
  | apply split_rt | apply splitCount_rt | apply startsWith_rt | apply numSum_rt
  | apply trim_rt | apply trimLeft_rt | apply trimRight_rt
  | apply trimSpace_rt | apply trimSpaceLeft_rt | apply trimSpaceRight_rt
  | apply typeName_rt | apply upper_rt | apply values_rt)

theorem toStringV_err {v : Val} {cs : List Cat} (h : toStringV v = .err cs) : cs = [Cat.evaluationFailed] := by
  unfold toStringV at h
  split at h
  · cases h
  · split at h
    · cases h
    · split at h <;> cases h
      rfl

theorem fromItems_err {v : Val} {cs : List Cat} (h : fromItems v = .err cs) :
    cs = [Cat.invalidType] ∨ cs = [Cat.invalidValue] ∨
    (∃ t xs, v = .arr t xs ∧ enum2 t xs = true ∧ cs ≠ [] ∧ ∀ c ∈ cs, c = Cat.invalidType ∨ c = Cat.invalidValue) := by
  cases v with
  | arr t xs =>
    cases he : enum2 t xs with
    | true => exact Or.inr (Or.inr ⟨t, xs, rfl, he, (fromItems_rt (pe := TV) (.arr t xs)).err_pe h⟩)
    | false =>
      rcases (fromItems_plain_rt (pe := TVN) he).err_pe h with h' | h' | h'
      · exact Or.inl h'
      · exact Or.inr (Or.inl h')
      · have := ((fromItems_rt (pe := TV) (.arr t xs)).err_pe h).2
        subst h'
        have := this _ (List.mem_singleton.mpr rfl)
        simp at this
  | _ => cases h; exact Or.inl rfl

/-- **Classification.** An eager builtin applied to an argument list of its arity fails with exactly one category,
    invalid-type, invalid-value or not-a-number — with two exceptions: `to_string` reports evaluation-failed (a value
    that `encoding/json` cannot encode), and `from_items` on a *map-ordered* array of two or more elements (e.g.
    `from_items(values(obj))`) reports whichever malformed element Go meets first: the model gives the set of
    invalid-type and invalid-value. -/
theorem applyFn_err_classification (f : Fn) (args : List Val) (hl : args.length = fnArity f) {cs : List Cat}
    (h : applyFn f args = .err cs) :
    cs = [Cat.invalidType] ∨ cs = [Cat.invalidValue] ∨ cs = [Cat.notANumber] ∨
    (f = .toString ∧ cs = [Cat.evaluationFailed]) ∨
    (f = .fromItems ∧ ∃ t xs, args = [.arr t xs] ∧ enum2 t xs = true ∧ cs ≠ [] ∧
      ∀ c ∈ cs, c = Cat.invalidType ∨ c = Cat.invalidValue) := by
  cases f <;>
    (rcases args with _ | ⟨a, _ | ⟨b, _ | ⟨c, _ | ⟨d, _ | ⟨e, r⟩⟩⟩⟩⟩ <;>
      first
        | (simp only [fnArity, List.length_cons, List.length_nil] at hl; omega)
        | (have key : TVN cs := by
             refine Sat.err_pe (pe := TVN) ?_ h
             fn_sat
           rcases key with h' | h' | h'
           · exact Or.inl h'
           · exact Or.inr (Or.inl h')
           · exact Or.inr (Or.inr (Or.inl h')))
        | exact Or.inr (Or.inr (Or.inr (Or.inl ⟨rfl, toStringV_err h⟩)))
        | (rcases fromItems_err (v := a) h with h' | h' | ⟨t, xs, h1, h2, h3⟩
           · exact Or.inl h'
           · exact Or.inr (Or.inl h')
           · exact Or.inr (Or.inr (Or.inr (Or.inr ⟨rfl, t, xs, by rw [h1], h2, h3⟩)))))

/-- COUNTEREXAMPLE to the classification without the `from_items` clause: on a map-ordered array of two malformed
    elements the model reports a two-category set (Go reports one of the two, depending on map order) -/
example : applyFn .fromItems [.arr .enum [.null, .arr .plain []]] = .err [.invalidType, .invalidValue] := rfl
/-- `to_string` of a `json.Number` whose text is not a number: evaluation-failed -/
example : ∃ v, applyFn .toString [v] = .err [.evaluationFailed] := ⟨.num (.jnum [0x78]), rfl⟩

/-- the builtins that can report invalid-value: those with a count / width / position argument, and `from_items` -/
def valueFns : List Fn :=
  [.findFirstFrom, .findFirstBetween, .findLastFrom, .findLastBetween, .fromItems, .padLeft, .padRight,
   .padSpaceLeft, .padSpaceRight, .replaceCount, .splitCount]

/-- **no other builtin yields invalid-value** (for every argument list, of any length) -/
theorem invalidValue_only_from (f : Fn) (args : List Val) {cs : List Cat} (h : applyFn f args = .err cs)
    (hc : Cat.invalidValue ∈ cs) : f ∈ valueFns := by
  cases f <;> first
    | decide
    | (exfalso
       rcases args with _ | ⟨a, _ | ⟨b, _ | ⟨c, _ | ⟨d, _ | ⟨e, r⟩⟩⟩⟩⟩ <;>
         (refine (Sat.err_pe (pe := Avoid .invalidValue) ?_ h) hc
          first | exact Sat.failed | apply toStringV_rt | fn_sat))

/-- … and each of them can: a negative count / width, a non-integral position, a malformed pair -/
example : applyFn .padLeft [.str [], .num (.int .i64 (-1)), .str [0x20]] = .err [.invalidValue] := rfl
example : applyFn .padRight [.str [], .num (.int .i64 1), .str []] = .err [.invalidValue] := rfl
example : applyFn .padSpaceLeft [.str [], .num (.int .i64 (-1))] = .err [.invalidValue] := rfl
example : applyFn .padSpaceRight [.str [], .num (.int .i64 (-1))] = .err [.invalidValue] := rfl
example : applyFn .splitCount [.str [], .str [], .num (.int .i64 (-1))] = .err [.invalidValue] := rfl
example : applyFn .replaceCount [.str [], .str [], .str [], .num (.int .i64 (-1))] = .err [.invalidValue] := rfl
example : applyFn .fromItems [.arr .plain [.arr .plain []]] = .err [.invalidValue] := rfl
example : applyFn .findFirstFrom [.str [], .str [], .num (.dec .nan)] = .err [.invalidValue] := rfl
example : applyFn .findLastFrom [.str [], .str [], .num (.dec .nan)] = .err [.invalidValue] := rfl
example : applyFn .findFirstBetween [.str [], .str [], .num (.int .i64 0), .num (.dec .nan)] = .err [.invalidValue] := rfl
example : applyFn .findLastBetween [.str [], .str [], .num (.int .i64 0), .num (.dec .nan)] = .err [.invalidValue] := rfl

/-- **not-a-number comes from `sum` and `avg` only** (overflow of the decimal sum) -/
theorem notANumber_only_from (f : Fn) (args : List Val) {cs : List Cat} (h : applyFn f args = .err cs)
    (hc : Cat.notANumber ∈ cs) : f = .sum ∨ f = .avg := by
  cases f <;> first
    | exact Or.inl rfl
    | exact Or.inr rfl
    | (exfalso
       rcases args with _ | ⟨a, _ | ⟨b, _ | ⟨c, _ | ⟨d, _ | ⟨e, r⟩⟩⟩⟩⟩ <;>
         (refine (Sat.err_pe (pe := Avoid .notANumber) ?_ h) hc
          first | exact Sat.failed | apply toStringV_rt | apply fromItems_rt | fn_sat))

end classification

end Jmes.C02B
