/-
  C02 (second part) — arity, error classification and value specifications of the builtins.

  ## A. "an arity error exactly when the argument count is outside the signature"

  For a call `name(arg, …)` that is the whole expression, with well-formed argument texts (`WellPrec` trees of the
  declarative grammar, `&expr` where the builtin wants an expression reference):

  * `fixed_arity_iff`: a builtin with between `mn` and `mx` plain arguments — `compile` fails with the arity error iff
    the count is `< mn` or `> mx`; within the range it succeeds (`fixed_in_range`);
  * `varArg_arity_iff`: `merge`, `not_null`, `zip` — an arity error iff there is no argument;
  * `expArg_arity_iff`: `sort_by` & co (`f(array, &expr)`) — with the reference in second position, an arity error iff
    the count is not 2; `mapArg_arity_iff`: `map(&expr, array)` likewise;
  * `expArg_second_not_ref` / `mapArg_first_not_ref`: a *plain* expression where a reference is wanted is reported as
    invalid-type (and `sort_by(a, b, c)` is reported as invalid-type, not arity: two faults, one is reported).

  ## B. classification of the failures of the eager builtins

  * `applyFn_err_classification`: on an argument list of its arity a builtin fails with exactly one of invalid-type,
    invalid-value, not-a-number; except `to_string` (evaluation-failed) and `from_items` on a map-ordered array (the
    set of invalid-type and invalid-value: a counterexample to the unqualified statement is proved);
  * `invalidValue_only_from`: only the builtins with a count / width / position argument and `from_items` report
    invalid-value (each of them does: examples); `notANumber_only_from`: only `sum` and `avg` report not-a-number.

  ## C. value specifications

  `length_*`, `reverse_array`, `reverse_string` (code points), `join_spec`, `keys_spec` / `values_spec` / `items_spec`,
  `bytesContains_iff` + `contains_*`, `startsWith_spec`, `endsWith_spec`, `toArray_*`, `toString_*`, `toNumber_*`,
  `notNull_first` / `notNull_all_null` (first non-null, later arguments not evaluated), `zipRows_spec` + `zip_spec` +
  `zipCount_le` / `zipCount_mem` (transposition truncated to the shortest argument), `mapArray_spec` / `map_spec`
  (caller's scope), `groupBy_empty` (null), `groupBy_spec`, `fromItems_last_wins`, `findFirst_empty_pattern` vs
  `findFirstFrom_empty_pattern` (null vs 0), `isSpaceRune_iff`, `trimLeftF_codepoints`, `trimRightF_codepoints`,
  `trimSpace_spec`, `trim_spec`.
-/
import Jmes.Properties.C04G
import Jmes.Proofs.C08BLemmas
import Jmes.Proofs.C08BArity
import Jmes.Proofs.Utf8
import Jmes.Proofs.Scope
namespace Jmes.C02B
open Jmes Jmes.Parser Jmes.Pratt Jmes.Grammar Jmes.GrammarF0

/-! ## A. arity -/

theorem Le.err {α} {x y : PM α} (h : Le x y) {s : PState} {e : PErr} (hx : x s = .error e) (hne : e ≠ .fuel) :
    y s = .error e := by
  rw [h.h s (by rw [hx]; intro h'; cases h'; exact hne rfl), hx]

/-- a parse error found with some fuel is the result of `Parser.parse` -/
theorem parse_error_of_expr {e : Bytes} {ts : List Token} (hl : lexAll e = (ts, none)) {F : Nat} {err : PErr}
    (h : expression F 1 (stOf ts) = .error err) (hne : err ≠ .fuel) : Parser.parse e = .error err := by
  have hnf := Fuel.fuel_sufficient e
  rw [parse_of_lex hl] at hnf ⊢
  have hne' : expression (fuelFor ts.length) 1 (stOf ts) ≠ .error .fuel := by
    intro h'
    apply hnf
    unfold runTop
    rw [bind_err h']
  have h1 := expression_mono_res (Nat.le_max_left (fuelFor ts.length) F) hne'
  have h2 := Le.err ((mono_le (Nat.le_max_right (fuelFor ts.length) F)).expr 1) h hne
  have h3 : expression (fuelFor ts.length) 1 (stOf ts) = .error err := by rw [← h1]; exact h2
  unfold runTop
  rw [bind_err h3]

/-- the tokens of the expression `name(arg, …)` -/
def callToks (name : Token) (args : List PTree) : List Token :=
  Grammar.flatten (.call name args) ++ [endTok]

theorem callToks_eq (name : Token) (args : List PTree) :
    callToks name args = name :: tLParen :: (flatSep args ++ tRParen :: [endTok]) := by
  simp [callToks, Grammar.flatten, flat]

/-- a failure of `function` is a failure of the whole expression -/
theorem expr_of_function_err {F : Nat} {name : Token} (hn : name.type = .unquotedIdentifier) {ts : List Token}
    {err : PErr} (h : function F (stOf (name :: tLParen :: ts)) = .error err) :
    expression (F + 2) 1 (stOf (name :: tLParen :: ts)) = .error err := by
  rw [expression_succ_run, prim_function hn, h]

/-- no argument at all: every builtin wants at least one -/
theorem function_no_args {name : Token} {spec : ArgSpec} (hl : lookupBuiltin name.value = some spec)
    (rest : List Token) :
    function 1 (stOf (name :: tLParen :: tRParen :: rest)) = .error .invalidFunctionCall := by
  rw [function.eq_2]
  pm_eval [hl]

/-- too few: the list closes before `mn` arguments were read -/
theorem fnArgs_too_few (mn mx : Nat) (rest : List Token) :
    ∀ (es : List PTree), es ≠ [] → (∀ e ∈ es, WellPrec e) → ∀ acc : List INode,
      acc.length + es.length < mn →
      ∃ f, fnArgs f mn mx acc (stOf (flatSep es ++ tRParen :: rest)) = .error .invalidFunctionCall
  | [], h, _, _, _ => absurd rfl h
  | [e], _, hw, acc, h1 => by
    have hwe : wp false e = true := hw e (by simp)
    obtain ⟨f, hf⟩ := (GrammarF2.complete e false hwe).elem hwe (t := tRParen) rest rfl (by decide)
    refine ⟨f + 1, ?_⟩
    rw [fnArgs.eq_2]
    simp only [List.length_singleton] at h1
    pm_eval [flatSep, hf, List.length_append, List.length_singleton, h1]
  | e :: e' :: es, _, hw, acc, h1 => by
    have hwe : wp false e = true := hw e (by simp)
    obtain ⟨f, hf⟩ := (GrammarF2.complete e false hwe).elem hwe (t := tComma)
      (flatSep (e' :: es) ++ tRParen :: rest) rfl (by decide)
    simp only [List.length_cons] at h1
    obtain ⟨g, hg⟩ := fnArgs_too_few mn mx rest (e' :: es) (by simp) (fun x hx => hw x (by simp [hx]))
      (acc ++ [erase e])
      (by simp only [List.length_append, List.length_cons, List.length_nil]; omega)
    refine ⟨max f g + 1, ?_⟩
    rw [fnArgs.eq_2, flatSep_cons2]
    have hf' := expression_mono (Nat.le_max_left f g) hf
    have hg' := Le.err ((mono_le (Nat.le_max_right f g)).args mn mx (acc ++ [erase e])) hg (by decide)
    have h3 : acc.length + 1 < mn := by omega
    pm_eval [hf', hg', List.length_append, List.length_singleton, h3]

/-- too many: a comma follows the `mx`-th argument -/
theorem fnArgs_too_many (mn mx : Nat) (hmm : mn ≤ mx) (rest : List Token) :
    ∀ (es : List PTree), es ≠ [] → (∀ e ∈ es, WellPrec e) → ∀ acc : List INode,
      acc.length < mx → mx < acc.length + es.length →
      ∃ f, fnArgs f mn mx acc (stOf (flatSep es ++ tRParen :: rest)) = .error .invalidFunctionCall
  | [], h, _, _, _, _ => absurd rfl h
  | [e], _, _, acc, h0, h1 => by simp only [List.length_singleton] at h1; omega
  | e :: e' :: es, _, hw, acc, h0, h1 => by
    have hwe : wp false e = true := hw e (by simp)
    obtain ⟨f, hf⟩ := (GrammarF2.complete e false hwe).elem hwe (t := tComma)
      (flatSep (e' :: es) ++ tRParen :: rest) rfl (by decide)
    simp only [List.length_cons] at h1
    by_cases h2 : acc.length + 1 < mx
    · obtain ⟨g, hg⟩ := fnArgs_too_many mn mx hmm rest (e' :: es) (by simp) (fun x hx => hw x (by simp [hx]))
        (acc ++ [erase e])
        (by simp only [List.length_append, List.length_cons, List.length_nil]; omega)
        (by simp only [List.length_append, List.length_cons, List.length_nil]; omega)
      refine ⟨max f g + 1, ?_⟩
      rw [fnArgs.eq_2, flatSep_cons2]
      have hf' := expression_mono (Nat.le_max_left f g) hf
      have hg' := Le.err ((mono_le (Nat.le_max_right f g)).args mn mx (acc ++ [erase e])) hg (by decide)
      pm_eval [hf', hg', List.length_append, List.length_singleton, h2]
      split <;> rfl
    · refine ⟨f + 1, ?_⟩
      rw [fnArgs.eq_2, flatSep_cons2]
      have h3 : ¬ acc.length + 1 < mn := by omega
      pm_eval [hf, List.length_append, List.length_singleton, h2, h3]

/-- the table: every fixed-arity builtin wants at least one argument and `mn ≤ mx` -/
theorem fixed_bounds {name : Bytes} {mn mx : Nat} {mk : List INode → INode}
    (h : lookupBuiltin name = some (.fixed mn mx mk)) : 1 ≤ mn ∧ mn ≤ mx := by
  simp only [lookupBuiltin, Option.map_eq_some_iff] at h
  obtain ⟨e, he, h2⟩ := h
  have hm := List.mem_of_find?_eq_some he
  have : ∀ e ∈ builtinTable, ∀ mn mx mk, e.2 = .fixed mn mx mk → 1 ≤ mn ∧ mn ≤ mx := by
    simp only [builtinTable, List.forall_mem_cons]
    repeat' apply And.intro
    all_goals first
      | (intro x hx; exact absurd hx List.not_mem_nil)
      | (intro mn mx mk h; cases h; omega)
      | (intro mn mx mk h; cases h)
  exact this e hm mn mx mk h2

theorem wellPrec_not_ref {a : PTree} (h : WellPrec a) : a.isRef = false := by
  cases a <;> first | rfl | (simp [WellPrec, wp] at h)

theorem wpArgs_of_wellPrec : ∀ {args : List PTree}, (∀ a ∈ args, WellPrec a) → wpArgs args = true
  | [], _ => rfl
  | a :: as, h => by
    have ha : WellPrec a := h a (by simp)
    have ih := wpArgs_of_wellPrec (args := as) (fun x hx => h x (by simp [hx]))
    cases a <;> first
      | (simp only [wpArgs, Bool.and_eq_true]; exact ⟨ha, ih⟩)
      | (simp [WellPrec, wp] at ha)

/-- **fixed-arity builtins, within the signature**: the call compiles, to the node of the table -/
theorem fixed_in_range {name : Token} (hn : name.type = .unquotedIdentifier) {mn mx : Nat} {mk : List INode → INode}
    (hl : lookupBuiltin name.value = some (.fixed mn mx mk)) {args : List PTree} (hw : ∀ a ∈ args, WellPrec a)
    (h1 : mn ≤ args.length) (h2 : args.length ≤ mx)
    {e : Bytes} (hlex : lexAll e = (callToks name args, none)) : Parser.parse e = .ok (mk (eraseL args)) := by
  have hb := fixed_bounds hl
  have hwp : WellPrec (.call name args) := by
    show wp false (.call name args) = true
    simp only [wp, Bool.not_false, Bool.true_and, hn, beq_self_eq_true, hl, argsOK, Bool.and_eq_true,
      decide_eq_true_eq, List.all_eq_true, Bool.not_eq_true']
    exact ⟨⟨⟨by omega, h1, h2⟩, fun a ha => wellPrec_not_ref (hw a ha)⟩, wpArgs_of_wellPrec hw⟩
  have := C04G.parse_complete hwp hlex
  simpa only [erase, hl, callNode] using this

/-- **fixed-arity builtins: an arity error exactly when the argument count is outside the signature** -/
theorem fixed_arity_iff {name : Token} (hn : name.type = .unquotedIdentifier) {mn mx : Nat} {mk : List INode → INode}
    (hl : lookupBuiltin name.value = some (.fixed mn mx mk)) {args : List PTree} (hw : ∀ a ∈ args, WellPrec a)
    {e : Bytes} (hlex : lexAll e = (callToks name args, none)) :
    Parser.parse e = .error .invalidFunctionCall ↔ args.length < mn ∨ mx < args.length := by
  have hb := fixed_bounds hl
  constructor
  · intro h
    by_cases h1 : mn ≤ args.length
    · by_cases h2 : args.length ≤ mx
      · rw [fixed_in_range hn hl hw h1 h2 hlex] at h; cases h
      · exact Or.inr (by omega)
    · exact Or.inl (by omega)
  · intro h
    rw [callToks_eq] at hlex
    cases args with
    | nil =>
      refine parse_error_of_expr hlex (F := 3) (expr_of_function_err hn ?_) (by decide)
      exact function_no_args hl _
    | cons a as =>
      have hfn : ∃ f, fnArgs f mn mx [] (stOf (flatSep (a :: as) ++ tRParen :: [endTok])) =
          .error .invalidFunctionCall := by
        rcases h with h | h
        · exact fnArgs_too_few mn mx _ (a :: as) (by simp) hw [] (by simpa using h)
        · exact fnArgs_too_many mn mx hb.2 _ (a :: as) (by simp) hw [] (by simp only [List.length_nil]; omega)
            (by simpa using h)
      obtain ⟨f, hf⟩ := hfn
      refine parse_error_of_expr hlex (F := f + 3) (expr_of_function_err hn ?_) (by decide)
      have hne : (stOf (flatSep (a :: as) ++ tRParen :: [endTok])).curr.type ≠ .closeParen := by
        cases f with
        | zero => rw [fnArgs.eq_1] at hf; cases hf
        | succ f =>
          intro hc
          rw [fnArgs.eq_2, bind_run] at hf
          cases f with
          | zero => rw [expression.eq_1] at hf; cases hf
          | succ f =>
            rw [expression_succ_run] at hf
            cases f with
            | zero => rw [primaryExpression.eq_1] at hf; cases hf
            | succ f =>
              rw [primaryExpression.eq_2, bind_ok (get_run _)] at hf
              simp only [hc] at hf
              cases hf
      rw [function.eq_2]
      pm_eval [hl, hne, hf]

/-- **variadic builtins** (`merge`, `not_null`, `zip`): an arity error exactly when there is no argument -/
theorem varArg_arity_iff {name : Token} (hn : name.type = .unquotedIdentifier) {mk : List INode → INode}
    (hl : lookupBuiltin name.value = some (.varArg mk)) {args : List PTree} (hw : ∀ a ∈ args, WellPrec a)
    {e : Bytes} (hlex : lexAll e = (callToks name args, none)) :
    (Parser.parse e = .error .invalidFunctionCall ↔ args.length = 0) ∧
    (1 ≤ args.length → Parser.parse e = .ok (mk (eraseL args))) := by
  have hok : 1 ≤ args.length → Parser.parse e = .ok (mk (eraseL args)) := by
    intro h1
    have hwp : WellPrec (.call name args) := by
      show wp false (.call name args) = true
      simp only [wp, Bool.not_false, Bool.true_and, hn, beq_self_eq_true, hl, argsOK, Bool.and_eq_true,
        decide_eq_true_eq, List.all_eq_true, Bool.not_eq_true']
      exact ⟨⟨h1, fun a ha => wellPrec_not_ref (hw a ha)⟩, wpArgs_of_wellPrec hw⟩
    have := C04G.parse_complete hwp hlex
    simpa only [erase, hl, callNode] using this
  refine ⟨⟨fun h => ?_, fun h => ?_⟩, hok⟩
  · by_cases h1 : 1 ≤ args.length
    · rw [hok h1] at h; cases h
    · omega
  · rw [callToks_eq] at hlex
    have : args = [] := List.length_eq_zero_iff.mp h
    subst this
    refine parse_error_of_expr hlex (F := 3) (expr_of_function_err hn ?_) (by decide)
    exact function_no_args hl _

/-! ### `f(array, &expr)` and `map(&expr, array)` -/

/-- **`sort_by`, `max_by`, `min_by`, `group_by`** with an expression reference in second position: the call compiles
    iff there are exactly two arguments, and is an arity error otherwise (one argument, or three and more — what the
    further arguments are does not matter) -/
theorem expArg_arity_iff {name : Token} (hn : name.type = .unquotedIdentifier) {mk : INode → INode → INode}
    (hl : lookupBuiltin name.value = some (.expArg mk)) {a : PTree} (ha : WellPrec a)
    {more : List PTree} (hmore : ∀ x ∈ more.head?, ∃ t, x = .ref t ∧ WellPrec t)
    {e : Bytes} (hlex : lexAll e = (callToks name (a :: more), none)) :
    (Parser.parse e = .error .invalidFunctionCall ↔ (a :: more).length ≠ 2) ∧
    (∀ t, more = [.ref t] → Parser.parse e = .ok (mk (erase a) (erase t))) := by
  have hok : ∀ t, more = [.ref t] → Parser.parse e = .ok (mk (erase a) (erase t)) := by
    intro t hm
    subst hm
    have ht : WellPrec t := by
      obtain ⟨t', h1, h2⟩ := hmore (.ref t) rfl
      cases h1; exact h2
    have hwp : WellPrec (.call name [a, .ref t]) := by
      show wp false (.call name [a, .ref t]) = true
      have hnr := wellPrec_not_ref ha
      have : wpArgs [a, .ref t] = true := by
        cases a <;> first
          | (simp only [wpArgs, Bool.and_eq_true]; exact ⟨ha, ht, trivial⟩)
          | (simp [WellPrec, wp] at ha)
      simp only [wp, Bool.not_false, hn, beq_self_eq_true, hl, argsOK, hnr,
        show (PTree.ref t).isRef = true from rfl, this, Bool.not_false, Bool.and_self]
    have := C04G.parse_complete hwp hlex
    simpa only [erase, hl, callNode, eraseL] using this
  refine ⟨⟨fun h => ?_, fun h => ?_⟩, hok⟩
  · intro h2
    match more, hmore, hok, h2 with
    | [x], hmore, hok, _ =>
      obtain ⟨t, rfl, _⟩ := hmore x rfl
      rw [hok t rfl] at h; cases h
  · rw [callToks_eq] at hlex
    have hwa : wp false a = true := ha
    match more, hmore, h, hlex with
    | [], _, _, hlex =>
      -- `f(a)`: the list closes after the first argument
      obtain ⟨f, hf⟩ := (GrammarF2.complete a false hwa).elem hwa (t := tRParen) [endTok] rfl (by decide)
      refine parse_error_of_expr hlex (F := f + 3) (expr_of_function_err hn ?_) (by decide)
      have hne := expression_ok_ne_rparen hf
      rw [function.eq_2]
      simp only [flatSep]
      pm_eval [hl, hne, hf]
    | [x], _, h, _ => exact absurd rfl h
    | x :: y :: more', hmore, _, hlex =>
      -- `f(a, &t, …)`: a comma follows the second argument
      obtain ⟨t, rfl, ht⟩ := hmore x rfl
      have hwt : wp false t = true := ht
      obtain ⟨f, hf⟩ := (GrammarF2.complete a false hwa).elem hwa (t := tComma)
        (tAmp :: (flat false t ++ tComma :: (flatSep (y :: more') ++ tRParen :: [endTok]))) rfl (by decide)
      obtain ⟨g, hg⟩ := (GrammarF2.complete t false hwt).elem hwt (t := tComma)
        (flatSep (y :: more') ++ tRParen :: [endTok]) rfl (by decide)
      have hlex' : lexAll e = (name :: tLParen :: (flat false a ++ tComma :: tAmp :: (flat false t ++ tComma ::
          (flatSep (y :: more') ++ tRParen :: [endTok]))), none) := by
        rw [hlex]
        simp only [flatSep_cons2, flat, List.cons_append, List.append_assoc]
      refine parse_error_of_expr hlex' (F := max f g + 3) (expr_of_function_err hn ?_) (by decide)
      have hf' := expression_mono (Nat.le_max_left f g) hf
      have hg' := expression_mono (Nat.le_max_right f g) hg
      have hne := expression_ok_ne_rparen hf'
      rw [function.eq_2]
      pm_eval [hl, hne, hf', hg']

/-- a *plain* second argument where `sort_by` & co want `&expr` is an invalid-type fault — also when there are further
    arguments (`sort_by(a, b, c)`: the count is wrong as well; the reference check comes first) -/
theorem expArg_second_not_ref {name : Token} (hn : name.type = .unquotedIdentifier) {mk : INode → INode → INode}
    (hl : lookupBuiltin name.value = some (.expArg mk)) {a b : PTree} (ha : WellPrec a) (hb : WellPrec b)
    {more : List PTree} {e : Bytes} (hlex : lexAll e = (callToks name (a :: b :: more), none)) :
    Parser.parse e = .error .invalidFunctionArgument := by
  rw [callToks_eq] at hlex
  have hwa : wp false a = true := ha
  obtain ⟨f, hf⟩ := (GrammarF2.complete a false hwa).elem hwa (t := tComma)
    (flatSep (b :: more) ++ tRParen :: [endTok]) rfl (by decide)
  have hlex' : lexAll e = (name :: tLParen :: (flat false a ++ tComma ::
      (flatSep (b :: more) ++ tRParen :: [endTok])), none) := by
    rw [hlex]; simp only [flatSep_cons2, List.cons_append, List.append_assoc]
  refine parse_error_of_expr hlex' (F := f + 3) (expr_of_function_err hn ?_) (by decide)
  have hne := expression_ok_ne_rparen hf
  -- the token after the comma is the first token of `b`, which is not `&`
  have hb1 : ∃ t ts, flatSep (b :: more) ++ tRParen :: [endTok] = t :: ts ∧ t.type ≠ .expression := by
    have hwb : wp false b = true := hb
    obtain ⟨g, hg⟩ := (GrammarF2.complete b false hwb).elem hwb (t := tRParen) [endTok] rfl (by decide)
    have hfirst : ∃ t ts, flat false b = t :: ts ∧ t.type ≠ .expression := by
      cases hfb : flat false b with
      | nil =>
        rw [hfb] at hg
        exact absurd rfl (expression_ok_ne_rparen hg)
      | cons t ts =>
        refine ⟨t, ts, rfl, fun ht => ?_⟩
        rw [hfb] at hg
        cases g with
        | zero => rw [expression.eq_1] at hg; cases hg
        | succ g =>
          rw [expression_succ_run] at hg
          cases g with
          | zero => rw [primaryExpression.eq_1] at hg; cases hg
          | succ g =>
            rw [primaryExpression.eq_2, bind_ok (get_run _)] at hg
            simp only [List.cons_append, stOf_curr, ht] at hg
            cases hg
    obtain ⟨t, ts, h1, h2⟩ := hfirst
    cases more with
    | nil => exact ⟨t, ts ++ tRParen :: [endTok], by simp [flatSep, h1], h2⟩
    | cons m ms => exact ⟨t, ts ++ tComma :: (flatSep (m :: ms) ++ tRParen :: [endTok]), by
        simp [flatSep_cons2, h1], h2⟩
  obtain ⟨t, ts, h1, h2⟩ := hb1
  rw [h1] at hf hne
  rw [function.eq_2, h1]
  pm_eval [hl, hne, hf, h2]

/-- **`map(&expr, array)`**: compiles iff there are exactly two arguments; an arity error otherwise -/
theorem mapArg_arity_iff {name : Token} (hn : name.type = .unquotedIdentifier) {mk : INode → INode → INode}
    (hl : lookupBuiltin name.value = some (.mapArg mk)) {t : PTree} (ht : WellPrec t)
    {more : List PTree} (hmore : ∀ x ∈ more.head?, WellPrec x)
    {e : Bytes} (hlex : lexAll e = (callToks name (.ref t :: more), none)) :
    (Parser.parse e = .error .invalidFunctionCall ↔ (PTree.ref t :: more).length ≠ 2) ∧
    (∀ a, more = [a] → Parser.parse e = .ok (mk (erase t) (erase a))) := by
  have hok : ∀ a, more = [a] → Parser.parse e = .ok (mk (erase t) (erase a)) := by
    intro a hm
    subst hm
    have ha : WellPrec a := hmore a rfl
    have hwp : WellPrec (.call name [.ref t, a]) := by
      show wp false (.call name [.ref t, a]) = true
      have hnr := wellPrec_not_ref ha
      have : wpArgs [.ref t, a] = true := by
        cases a <;> first
          | (simp only [wpArgs, Bool.and_eq_true]; exact ⟨ht, ha, trivial⟩)
          | (simp [WellPrec, wp] at ha)
      simp only [wp, Bool.not_false, hn, beq_self_eq_true, hl, argsOK, hnr,
        show (PTree.ref t).isRef = true from rfl, this, Bool.not_false, Bool.and_self]
    have := C04G.parse_complete hwp hlex
    simpa only [erase, hl, callNode, eraseL] using this
  refine ⟨⟨fun h => ?_, fun h => ?_⟩, hok⟩
  · intro h2
    match more, hok, h2 with
    | [x], hok, _ => rw [hok x rfl] at h; cases h
  · rw [callToks_eq] at hlex
    have hwt : wp false t = true := ht
    match more, hmore, h, hlex with
    | [], _, _, hlex =>
      obtain ⟨f, hf⟩ := (GrammarF2.complete t false hwt).elem hwt (t := tRParen) [endTok] rfl (by decide)
      have hlex' : lexAll e = (name :: tLParen :: tAmp :: (flat false t ++ tRParen :: [endTok]), none) := by
        rw [hlex]; simp only [flatSep, flat, List.cons_append]
      refine parse_error_of_expr hlex' (F := f + 3) (expr_of_function_err hn ?_) (by decide)
      rw [function.eq_2]
      pm_eval [hl, hf]
    | [x], _, h, _ => exact absurd rfl h
    | x :: y :: more', hmore, _, hlex =>
      have hx : wp false x = true := hmore x rfl
      obtain ⟨f, hf⟩ := (GrammarF2.complete t false hwt).elem hwt (t := tComma)
        (flat false x ++ tComma :: (flatSep (y :: more') ++ tRParen :: [endTok])) rfl (by decide)
      obtain ⟨g, hg⟩ := (GrammarF2.complete x false hx).elem hx (t := tComma)
        (flatSep (y :: more') ++ tRParen :: [endTok]) rfl (by decide)
      have hlex' : lexAll e = (name :: tLParen :: tAmp :: (flat false t ++ tComma :: (flat false x ++ tComma ::
          (flatSep (y :: more') ++ tRParen :: [endTok]))), none) := by
        rw [hlex]
        simp only [flatSep_cons2, flat, List.cons_append, List.append_assoc]
      refine parse_error_of_expr hlex' (F := max f g + 3) (expr_of_function_err hn ?_) (by decide)
      have hf' := expression_mono (Nat.le_max_left f g) hf
      have hg' := expression_mono (Nat.le_max_right f g) hg
      rw [function.eq_2]
      pm_eval [hl, hf', hg']

/-- a *plain* first argument where `map` wants `&expr` is an invalid-type fault, whatever follows -/
theorem mapArg_first_not_ref {name : Token} (hn : name.type = .unquotedIdentifier) {mk : INode → INode → INode}
    (hl : lookupBuiltin name.value = some (.mapArg mk)) {t : Token} (ht : t.type ≠ .expression)
    (ht' : t.type ≠ .closeParen) {ts : List Token}
    {e : Bytes} (hlex : lexAll e = (name :: tLParen :: t :: ts, none)) :
    Parser.parse e = .error .invalidFunctionArgument := by
  refine parse_error_of_expr hlex (F := 3) (expr_of_function_err hn ?_) (by decide)
  rw [function.eq_2]
  pm_eval [hl, ht, ht']

/-! ### examples -/
section examples
open Grammar.Ex

def nSortBy : Token := ⟨.unquotedIdentifier, bs "sort_by"⟩
def nMap : Token := ⟨.unquotedIdentifier, bs "map"⟩
def nAbs : Token := ⟨.unquotedIdentifier, bs "abs"⟩
def nFindFirst : Token := ⟨.unquotedIdentifier, bs "find_first"⟩
def nMerge : Token := ⟨.unquotedIdentifier, bs "merge"⟩

/-- `sort_by(a)`: too few -/
example : Parser.parse (bs "sort_by(a)") = .error .invalidFunctionCall :=
  (expArg_arity_iff (name := nSortBy) rfl (mk := .sortBy) rfl (a := idt "a") (by decide) (more := [])
    (fun _ h => by cases h) (by decide +kernel)).1.mpr (by decide)
/-- `sort_by(a,&b,c)`: too many -/
example : Parser.parse (bs "sort_by(a,&b,c)") = .error .invalidFunctionCall :=
  (expArg_arity_iff (name := nSortBy) rfl (mk := .sortBy) rfl (a := idt "a") (by decide)
    (more := [.ref (idt "b"), idt "c"])
    (fun x h => by cases h; exact ⟨_, rfl, by decide⟩) (by decide +kernel)).1.mpr (by decide)
/-- `sort_by(a,&b)`: accepted -/
example : Parser.parse (bs "sort_by(a,&b)") = .ok (.sortBy (.field (bs "a")) (.field (bs "b"))) :=
  (expArg_arity_iff (name := nSortBy) rfl (mk := .sortBy) rfl (a := idt "a") (by decide)
    (more := [.ref (idt "b")])
    (fun x h => by cases h; exact ⟨_, rfl, by decide⟩) (by decide +kernel)).2 (idt "b") rfl
/-- `sort_by(a,b,c)`: two faults (no `&`, three arguments); invalid-type is the one reported -/
example : Parser.parse (bs "sort_by(a,b,c)") = .error .invalidFunctionArgument :=
  expArg_second_not_ref (name := nSortBy) rfl (mk := .sortBy) rfl (a := idt "a") (b := idt "b") (by decide) (by decide)
    (more := [idt "c"]) (by decide +kernel)
/-- `map(&a)`: too few -/
example : Parser.parse (bs "map(&a)") = .error .invalidFunctionCall :=
  (mapArg_arity_iff (name := nMap) rfl (mk := .map) rfl (t := idt "a") (by decide) (more := [])
    (fun _ h => by cases h) (by decide +kernel)).1.mpr (by decide)
/-- `map(a)`: not a reference -/
example : Parser.parse (bs "map(a)") = .error .invalidFunctionArgument :=
  mapArg_first_not_ref (name := nMap) rfl (mk := .map) rfl (t := ⟨.unquotedIdentifier, bs "a"⟩) (by decide) (by decide)
    (ts := [tRParen, endTok]) (by decide +kernel)
/-- `abs()`, `abs(a,b)`: arity; `abs(a)`: accepted -/
example : Parser.parse (bs "abs()") = .error .invalidFunctionCall :=
  (fixed_arity_iff (name := nAbs) rfl (mn := 1) (mx := 1) (mk := callN .abs) rfl (args := [])
    (fun _ h => by cases h) (by decide +kernel)).mpr (by decide)
example : Parser.parse (bs "abs(a,b)") = .error .invalidFunctionCall :=
  (fixed_arity_iff (name := nAbs) rfl (mn := 1) (mx := 1) (mk := callN .abs) rfl (args := [idt "a", idt "b"])
    (by decide) (by decide +kernel)).mpr (by decide)
example : Parser.parse (bs "abs(a)") = .ok (.call .abs [.field (bs "a")]) :=
  fixed_in_range (name := nAbs) rfl (mn := 1) (mx := 1) (mk := callN .abs) rfl (args := [idt "a"])
    (by decide) (by decide) (by decide) (by decide +kernel)
/-- `find_first(a)` … `find_first(a,b,c,d,e)`: 2 to 4 arguments -/
example : Parser.parse (bs "find_first(a)") = .error .invalidFunctionCall :=
  (fixed_arity_iff (name := nFindFirst) rfl (mn := 2) (mx := 4) rfl (args := [idt "a"])
    (by decide) (by decide +kernel)).mpr (by decide)
example : Parser.parse (bs "find_first(a,b,c,d,e)") = .error .invalidFunctionCall :=
  (fixed_arity_iff (name := nFindFirst) rfl (mn := 2) (mx := 4) rfl
    (args := [idt "a", idt "b", idt "c", idt "d", idt "e"]) (by decide) (by decide +kernel)).mpr (by decide)
example : Parser.parse (bs "find_first(a,b,c)") =
    .ok (.call .findFirstFrom [.field (bs "a"), .field (bs "b"), .field (bs "c")]) :=
  fixed_in_range (name := nFindFirst) rfl (mn := 2) (mx := 4) rfl (args := [idt "a", idt "b", idt "c"])
    (by decide) (by decide) (by decide) (by decide +kernel)
/-- `merge()`: arity; `merge(a,b,c)`: accepted -/
example : Parser.parse (bs "merge()") = .error .invalidFunctionCall :=
  (varArg_arity_iff (name := nMerge) rfl (mk := .merge) rfl (args := []) (fun _ h => by cases h)
    (by decide +kernel)).1.mpr rfl
example : Parser.parse (bs "merge(a,b,c)") = .ok (.merge [.field (bs "a"), .field (bs "b"), .field (bs "c")]) :=
  (varArg_arity_iff (name := nMerge) rfl (mk := .merge) rfl (args := [idt "a", idt "b", idt "c"]) (by decide)
    (by decide +kernel)).2 (by decide)

end examples

/-! ## B. classification of the failures of the eager builtins -/
section classification
open RtErr

/-- failure sets that avoid the category `x` -/
def Avoid (x : Cat) : List Cat → Prop := fun cs => x ∉ cs

instance (x : Cat) : PeMore (Avoid x) where
  mem := fun cs h c hc => by
    simp only [Avoid, List.mem_singleton]; intro h'; subst h'; exact h hc
  more := fun cs ex h hex => by
    simp only [Avoid, Cat.mem_dedup, List.mem_append, not_or]
    exact ⟨h, fun hc => by have := hex _ hc; simp [Avoid] at this⟩

instance : HasT (Avoid .invalidValue) := ⟨by simp [Avoid]⟩
instance : HasN (Avoid .invalidValue) := ⟨by simp [Avoid]⟩
instance : HasF (Avoid .invalidValue) := ⟨by simp [Avoid]⟩
instance : HasT (Avoid .notANumber) := ⟨by simp [Avoid]⟩
instance : HasV (Avoid .notANumber) := ⟨by simp [Avoid]⟩
instance : HasF (Avoid .notANumber) := ⟨by simp [Avoid]⟩

/-- the three single-category failures -/
def TVN (cs : List Cat) : Prop := cs = [.invalidType] ∨ cs = [.invalidValue] ∨ cs = [.notANumber]
instance : HasT TVN := ⟨Or.inl rfl⟩
instance : HasV TVN := ⟨Or.inr (Or.inl rfl)⟩
instance : HasN TVN := ⟨Or.inr (Or.inr rfl)⟩

/-- invalid-type and invalid-value, possibly both (the widened failure of `from_items` on a map-ordered array) -/
def TV (cs : List Cat) : Prop := cs ≠ [] ∧ ∀ c ∈ cs, c = Cat.invalidType ∨ c = Cat.invalidValue
instance : HasT TV := ⟨by simp [TV]⟩
instance : HasV TV := ⟨by simp [TV]⟩
instance : PeMore TV where
  mem := fun cs h c hc => ⟨by simp, fun c' hc' => by rw [List.mem_singleton.mp hc']; exact h.2 c hc⟩
  more := fun cs ex h hex => by
    refine ⟨fun hd => ?_, fun c hc => ?_⟩
    · have := Cat.dedup_eq_nil _ hd
      simp only [List.append_eq_nil_iff] at this
      exact h.1 this.1
    · rw [Cat.mem_dedup, List.mem_append] at hc
      rcases hc with hc | hc
      · exact h.2 c hc
      · exact (hex c hc).2 c (List.mem_singleton.mpr rfl)

/-- every eager builtin except `to_string` and `from_items`, on an argument list of its arity, fails with exactly one
    of invalid-type / invalid-value / not-a-number -/
macro "fn_sat" : tactic => `(tactic| first
  | exact Sat.ok _
  | apply numAbs_rt | apply numAvg_rt | apply numCeil_rt | apply contains_rt | apply endsWith_rt
  | apply findFirst_rt | apply findBetween_rt | apply findFrom_rt | apply findLast_rt
  | apply numFloor_rt | apply items_rt | apply join_rt | apply keys_rt
  | apply length_rt | apply lower_rt | apply arrayMax_rt | apply arrayMin_rt
  | apply padLeft_rt | apply padRight_rt | apply padSpaceLeft_rt | apply padSpaceRight_rt
  | apply replace_rt | apply replaceCount_rt | apply reverse_rt | apply sortArray_rt
  | apply split_rt | apply splitCount_rt | apply startsWith_rt | apply numSum_rt
  | apply trim_rt | apply trimLeft_rt | apply trimRight_rt
  | apply trimSpace_rt | apply trimSpaceLeft_rt | apply trimSpaceRight_rt
  | apply typeName_rt | apply upper_rt | apply values_rt)

theorem toStringV_err {v : Val} {cs : List Cat} (h : toStringV v = .err cs) : cs = [Cat.evaluationFailed] := by
  unfold toStringV at h
  split at h
  · cases h
  · split at h
    · cases h
    · split at h <;> cases h
      rfl

theorem fromItems_err {v : Val} {cs : List Cat} (h : fromItems v = .err cs) :
    cs = [Cat.invalidType] ∨ cs = [Cat.invalidValue] ∨
    (∃ t xs, v = .arr t xs ∧ enum2 t xs = true ∧ cs ≠ [] ∧ ∀ c ∈ cs, c = Cat.invalidType ∨ c = Cat.invalidValue) := by
  cases v with
  | arr t xs =>
    cases he : enum2 t xs with
    | true => exact Or.inr (Or.inr ⟨t, xs, rfl, he, (fromItems_rt (pe := TV) (.arr t xs)).err_pe h⟩)
    | false =>
      rcases (fromItems_plain_rt (pe := TVN) he).err_pe h with h' | h' | h'
      · exact Or.inl h'
      · exact Or.inr (Or.inl h')
      · have := ((fromItems_rt (pe := TV) (.arr t xs)).err_pe h).2
        subst h'
        have := this _ (List.mem_singleton.mpr rfl)
        simp at this
  | _ => cases h; exact Or.inl rfl

/-- **Classification.** An eager builtin applied to an argument list of its arity fails with exactly one category,
    invalid-type, invalid-value or not-a-number — with two exceptions: `to_string` reports evaluation-failed (a value
    that `encoding/json` cannot encode), and `from_items` on a *map-ordered* array of two or more elements (e.g.
    `from_items(values(obj))`) reports whichever malformed element Go meets first: the model gives the set of
    invalid-type and invalid-value. -/
theorem applyFn_err_classification (f : Fn) (args : List Val) (hl : args.length = fnArity f) {cs : List Cat}
    (h : applyFn f args = .err cs) :
    cs = [Cat.invalidType] ∨ cs = [Cat.invalidValue] ∨ cs = [Cat.notANumber] ∨
    (f = .toString ∧ cs = [Cat.evaluationFailed]) ∨
    (f = .fromItems ∧ ∃ t xs, args = [.arr t xs] ∧ enum2 t xs = true ∧ cs ≠ [] ∧
      ∀ c ∈ cs, c = Cat.invalidType ∨ c = Cat.invalidValue) := by
  cases f <;>
    (rcases args with _ | ⟨a, _ | ⟨b, _ | ⟨c, _ | ⟨d, _ | ⟨e, r⟩⟩⟩⟩⟩ <;>
      first
        | (simp only [fnArity, List.length_cons, List.length_nil] at hl; omega)
        | (have key : TVN cs := by
             refine Sat.err_pe (pe := TVN) ?_ h
             fn_sat
           rcases key with h' | h' | h'
           · exact Or.inl h'
           · exact Or.inr (Or.inl h')
           · exact Or.inr (Or.inr (Or.inl h')))
        | exact Or.inr (Or.inr (Or.inr (Or.inl ⟨rfl, toStringV_err h⟩)))
        | (rcases fromItems_err (v := a) h with h' | h' | ⟨t, xs, h1, h2, h3⟩
           · exact Or.inl h'
           · exact Or.inr (Or.inl h')
           · exact Or.inr (Or.inr (Or.inr (Or.inr ⟨rfl, t, xs, by rw [h1], h2, h3⟩)))))

/-- COUNTEREXAMPLE to the classification without the `from_items` clause: on a map-ordered array of two malformed
    elements the model reports a two-category set (Go reports one of the two, depending on map order) -/
example : applyFn .fromItems [.arr .enum [.null, .arr .plain []]] = .err [.invalidType, .invalidValue] := rfl
/-- `to_string` of a `json.Number` whose text is not a number: evaluation-failed -/
example : ∃ v, applyFn .toString [v] = .err [.evaluationFailed] := ⟨.num (.jnum [0x78]), rfl⟩

/-- the builtins that can report invalid-value: those with a count / width / position argument, and `from_items` -/
def valueFns : List Fn :=
  [.findFirstFrom, .findFirstBetween, .findLastFrom, .findLastBetween, .fromItems, .padLeft, .padRight,
   .padSpaceLeft, .padSpaceRight, .replaceCount, .splitCount]

/-- **no other builtin yields invalid-value** (for every argument list, of any length) -/
theorem invalidValue_only_from (f : Fn) (args : List Val) {cs : List Cat} (h : applyFn f args = .err cs)
    (hc : Cat.invalidValue ∈ cs) : f ∈ valueFns := by
  cases f <;> first
    | decide
    | (exfalso
       rcases args with _ | ⟨a, _ | ⟨b, _ | ⟨c, _ | ⟨d, _ | ⟨e, r⟩⟩⟩⟩⟩ <;>
         (refine (Sat.err_pe (pe := Avoid .invalidValue) ?_ h) hc
          first | exact Sat.failed | apply toStringV_rt | fn_sat))

/-- … and each of them can: a negative count / width, a non-integral position, a malformed pair -/
example : applyFn .padLeft [.str [], .num (.int .i64 (-1)), .str [0x20]] = .err [.invalidValue] := rfl
example : applyFn .padRight [.str [], .num (.int .i64 1), .str []] = .err [.invalidValue] := rfl
example : applyFn .padSpaceLeft [.str [], .num (.int .i64 (-1))] = .err [.invalidValue] := rfl
example : applyFn .padSpaceRight [.str [], .num (.int .i64 (-1))] = .err [.invalidValue] := rfl
example : applyFn .splitCount [.str [], .str [], .num (.int .i64 (-1))] = .err [.invalidValue] := rfl
example : applyFn .replaceCount [.str [], .str [], .str [], .num (.int .i64 (-1))] = .err [.invalidValue] := rfl
example : applyFn .fromItems [.arr .plain [.arr .plain []]] = .err [.invalidValue] := rfl
example : applyFn .findFirstFrom [.str [], .str [], .num (.dec .nan)] = .err [.invalidValue] := rfl
example : applyFn .findLastFrom [.str [], .str [], .num (.dec .nan)] = .err [.invalidValue] := rfl
example : applyFn .findFirstBetween [.str [], .str [], .num (.int .i64 0), .num (.dec .nan)] = .err [.invalidValue] := rfl
example : applyFn .findLastBetween [.str [], .str [], .num (.int .i64 0), .num (.dec .nan)] = .err [.invalidValue] := rfl

/-- **not-a-number comes from `sum` and `avg` only** (overflow of the decimal sum) -/
theorem notANumber_only_from (f : Fn) (args : List Val) {cs : List Cat} (h : applyFn f args = .err cs)
    (hc : Cat.notANumber ∈ cs) : f = .sum ∨ f = .avg := by
  cases f <;> first
    | exact Or.inl rfl
    | exact Or.inr rfl
    | (exfalso
       rcases args with _ | ⟨a, _ | ⟨b, _ | ⟨c, _ | ⟨d, _ | ⟨e, r⟩⟩⟩⟩⟩ <;>
         (refine (Sat.err_pe (pe := Avoid .notANumber) ?_ h) hc
          first | exact Sat.failed | apply toStringV_rt | apply fromItems_rt | fn_sat))

end classification

/-! ## C. value specifications -/
section specs
open Jmes.Utf8

/-! ### `length` -/

/-- `length`: the number of elements of an array, of members of an object, of code points of a string -/
theorem length_array (t : ATag) (xs : List Val) : length (.arr t xs) = .ok (.num (.int .i64 xs.length)) := rfl
theorem length_object (kvs : List (Bytes × Val)) : length (.obj kvs) = .ok (.num (.int .i64 kvs.length)) := rfl
theorem length_string (s : Bytes) : length (.str s) = .ok (.num (.int .i64 (runeCount s))) := rfl
/-- … for the UTF-8 encoding of the code points `rs`, their number (not the byte length) -/
theorem length_string_codepoints (rs : List Nat) (h : Scalars rs) :
    length (.str (encodeAll rs)) = .ok (.num (.int .i64 rs.length)) := by
  rw [length_string, runeCount_encodeAll rs h]
example : length (.str [0xC3, 0xA9]) = .ok (.num (.int .i64 1)) := rfl
example : length (.arr .plain [.null, .null]) = .ok (.num (.int .i64 2)) := rfl

/-! ### `reverse` -/

theorem reverse_array (xs : List Val) : reverse (.arr .plain xs) = .ok (.arr .plain xs.reverse) := rfl

theorem length_le_encodeAll : ∀ rs : List Nat, rs.length ≤ (encodeAll rs).length
  | [] => Nat.le_refl _
  | c :: rs => by
    rw [encodeAll_cons, List.length_append, List.length_cons]
    have := encodeRune_length_pos c
    have := length_le_encodeAll rs
    omega

/-- `reverse` of a string reverses its code points (not its bytes) -/
theorem reverse_string (rs : List Nat) (h : Scalars rs) :
    reverse (.str (encodeAll rs)) = .ok (.str (encodeAll rs.reverse)) := by
  have := reverseRunes_encodeAll rs.reverse h.reverse (encodeAll rs).length
    (by rw [List.length_reverse]; exact length_le_encodeAll rs)
  rw [List.reverse_reverse] at this
  simp only [reverse, this]
example : reverse (.str [0x61, 0xC3, 0xA9]) = .ok (.str [0xC3, 0xA9, 0x61]) := rfl

/-! ### `join` -/

theorem allStrings_map_str : ∀ ss : List Bytes, allStrings (ss.map Val.str) = some ss
  | [] => rfl
  | s :: ss => by simp [allStrings, allStrings_map_str ss]

/-- the strings separated by `sep` -/
theorem joinStrs_eq_intersperse (sep : Bytes) : ∀ ss : List Bytes, joinStrs sep ss = (ss.intersperse sep).flatten
  | [] => rfl
  | [s] => by simp [joinStrs]
  | s :: t :: rest => by
    have ih := joinStrs_eq_intersperse sep (t :: rest)
    simp only [joinStrs, ih, List.intersperse, List.flatten_cons, List.append_assoc]

/-- **`join(sep, [s₁, …, sₙ])` = `s₁ sep s₂ sep … sₙ`** -/
theorem join_spec (sep : Bytes) (ss : List Bytes) :
    join (.str sep) (.arr .plain (ss.map Val.str)) = .ok (.str ((ss.intersperse sep).flatten)) := by
  simp only [join, allStrings_map_str, enum2, ← joinStrs_eq_intersperse]
  rfl
example : join (.str [0x2C]) (.arr .plain [.str [0x61], .str [0x62]]) = .ok (.str [0x61, 0x2C, 0x62]) := rfl

/-! ### `keys`, `values`, `items` -/

/-- the member names / values / `[name, value]` pairs, as an array whose order Go does not specify (tag `enum`;
    `C15.keys_perm` & co: the result depends on the member list up to a permutation only) -/
theorem keys_spec (kvs : List (Bytes × Val)) : keys (.obj kvs) = .ok (.arr .enum (kvs.map fun kv => .str kv.1)) := rfl
theorem values_spec (kvs : List (Bytes × Val)) : values (.obj kvs) = .ok (.arr .enum (kvs.map Prod.snd)) := rfl
theorem items_spec (kvs : List (Bytes × Val)) :
    items (.obj kvs) = .ok (.arr .enum (kvs.map fun kv => .arr .plain [.str kv.1, kv.2])) := rfl
example : keys (.obj [([0x61], .null)]) = .ok (.arr .enum [.str [0x61]]) := rfl

/-! ### `contains`, `starts_with`, `ends_with` -/

/-- `bytesContains s p`: `p` occurs in `s` as a contiguous substring -/
theorem bytesContains_iff : ∀ (s p : Bytes), bytesContains s p = true ↔ ∃ a b, s = a ++ p ++ b
  | [], p => by
    simp only [bytesContains, List.isEmpty_iff]
    constructor
    · rintro rfl; exact ⟨[], [], rfl⟩
    · rintro ⟨a, b, h⟩
      have := congrArg List.length h
      simp only [List.length_nil, List.length_append] at this
      exact List.eq_nil_of_length_eq_zero (by omega)
  | x :: t, p => by
    simp only [bytesContains, Bool.or_eq_true, List.isPrefixOf_iff_prefix, bytesContains_iff t p]
    constructor
    · rintro (⟨b, hb⟩ | ⟨a, b, h⟩)
      · exact ⟨[], b, by simpa using hb.symm⟩
      · exact ⟨x :: a, b, by simp [h]⟩
    · rintro ⟨a, b, h⟩
      cases a with
      | nil => exact Or.inl ⟨b, by simpa using h.symm⟩
      | cons y a =>
        simp only [List.cons_append, List.cons.injEq] at h
        exact Or.inr ⟨a, b, h.2⟩

/-- `contains(string, string)`: substring test; a non-string sought in a string is not found -/
theorem contains_string (s p : Bytes) : contains (.str s) (.str p) = .ok (.bool (bytesContains s p)) := rfl
theorem contains_string_nonstring (s : Bytes) (y : Val) (h : ∀ p, y ≠ .str p) :
    contains (.str s) y = .ok (.bool false) := by
  cases y <;> first | rfl | exact absurd rfl (h _)
/-- `contains(array, v)`: some element equals `v` (JMESPath equality, `equal`) -/
theorem contains_array (xs : List Val) (y : Val) (hx : Val.hasEnum2L xs = false) (hy : y.hasEnum2 = false) :
    contains (.arr .plain xs) y = .ok (.bool (xs.any fun x => equal x y)) := by
  simp [contains, hx, hy]
example : contains (.str [0x61, 0x62, 0x63]) (.str [0x62, 0x63]) = .ok (.bool true) := rfl
example : contains (.arr .plain [.null, .bool true]) (.bool true) = .ok (.bool true) := rfl

/-- `starts_with(s, p)`: `s = p ++ _` -/
theorem startsWith_spec (s p : Bytes) :
    ∃ b, startsWith (.str s) (.str p) = .ok (.bool b) ∧ (b = true ↔ ∃ t, s = p ++ t) := by
  refine ⟨hasPrefix s p, rfl, ?_⟩
  simp only [hasPrefix, List.isPrefixOf_iff_prefix]
  exact ⟨fun ⟨t, h⟩ => ⟨t, h.symm⟩, fun ⟨t, h⟩ => ⟨t, h.symm⟩⟩

/-- `ends_with(s, p)`: `s = _ ++ p` -/
theorem endsWith_spec (s p : Bytes) :
    ∃ b, endsWith (.str s) (.str p) = .ok (.bool b) ∧ (b = true ↔ ∃ t, s = t ++ p) := by
  refine ⟨hasSuffix s p, rfl, ?_⟩
  simp only [hasSuffix, Bool.and_eq_true, decide_eq_true_eq, beq_iff_eq]
  constructor
  · rintro ⟨hl, h⟩
    refine ⟨s.take (s.length - p.length), ?_⟩
    conv => lhs; rw [← List.take_append_drop (s.length - p.length) s]
    rw [h]
  · rintro ⟨t, rfl⟩
    simp
example : startsWith (.str [0x61, 0x62]) (.str [0x61]) = .ok (.bool true) := rfl
example : endsWith (.str [0x61, 0x62]) (.str [0x61]) = .ok (.bool false) := rfl

/-! ### `to_array`, `to_string`, `to_number` -/

/-- `to_array`: an array is returned as it is, anything else is wrapped -/
theorem toArray_array (t : ATag) (xs : List Val) : toArray (.arr t xs) = .arr t xs := rfl
theorem toArray_other (v : Val) (h : ∀ t xs, v ≠ .arr t xs) : toArray v = .arr .plain [v] := by
  cases v <;> first | rfl | exact absurd rfl (h _ _)
/-- `to_string`: a string is returned as it is, anything else is its JSON text -/
theorem toString_string (s : Bytes) : toStringV (.str s) = .ok (.str s) := rfl
theorem toString_other (v : Val) (h : ∀ s, v ≠ .str s) (he : v.hasEnum2 = false) {b : Bytes}
    (hj : Json.encode v = .ok b) : toStringV v = .ok (.str b) := by
  cases v <;> first | exact absurd rfl (h _) | simp only [toStringV, he, hj, Bool.false_eq_true, if_false]
/-- `to_number`: a number is returned as it is; a string with the syntax of a JSON number is that number; anything
    else (other strings, booleans, null, arrays, objects) is null -/
theorem toNumber_number (n : Num) : toNumber (.num n) = .num n := rfl
theorem toNumber_string (s : Bytes) :
    toNumber (.str s) = if Json.isValidNumber s then ((Dec.unmarshalJSON s).map fun d => Val.num (.dec d)).getD .null
      else .null := by
  simp only [toNumber]
  split
  · cases Dec.unmarshalJSON s <;> rfl
  · rfl
theorem toNumber_other (v : Val) (h1 : ∀ n, v ≠ .num n) (h2 : ∀ s, v ≠ .str s) : toNumber v = .null := by
  cases v <;> first | rfl | exact absurd rfl (h1 _) | exact absurd rfl (h2 _)
example : toArray (.bool true) = .arr .plain [.bool true] := rfl
example : toStringV (.arr .plain [.bool true, .null]) = .ok (.str [0x5B, 0x74, 0x72, 0x75, 0x65, 0x2C, 0x6E, 0x75, 0x6C, 0x6C, 0x5D]) := rfl
example : toNumber (.str [0x61]) = .null := rfl
example : toNumber (.bool true) = .null := rfl

/-! ### `not_null` -/

/-- **`not_null` returns the first argument that is not null** — the arguments after it are not evaluated (their
    failures do not matter) … -/
theorem notNull_first (root cur : Val) (env : Env) (pre : List INode) (n : INode) (post : List INode) (v : Val)
    (hpre : ∀ m ∈ pre, ieval root m cur env = .ok .null) (hn : ieval root n cur env = .ok v)
    (hv : v.isNull = false) : ieval root (.notNull (pre ++ n :: post)) cur env = .ok v := by
  simp only [ieval]
  induction pre with
  | nil => simp only [List.nil_append, ievalNotNull, hn, Res.ok_bind, hv, Bool.false_eq_true, if_false, Res.pure_eq]
  | cons m pre ih =>
    have hm := hpre m (by simp)
    simp only [List.cons_append, ievalNotNull, hm, Res.ok_bind, Val.isNull, if_true]
    exact ih (fun x hx => hpre x (by simp [hx]))

/-- … and null when every argument is null -/
theorem notNull_all_null (root cur : Val) (env : Env) (args : List INode)
    (h : ∀ m ∈ args, ieval root m cur env = .ok .null) : ieval root (.notNull args) cur env = .ok .null := by
  simp only [ieval]
  induction args with
  | nil => rfl
  | cons m rest ih =>
    have hm := h m (by simp)
    simp only [ievalNotNull, hm, Res.ok_bind, Val.isNull, if_true]
    exact ih (fun x hx => h x (by simp [hx]))
example : evaluate (.notNull [.lit .null, .lit (.bool false), .variable [0x78]]) .null = .ok (.bool false) := rfl

/-! ### `zip` -/

theorem getD_tail (c : List Val) (i : Nat) : c.tail.getD i .null = c.getD (i + 1) .null := by
  cases c <;> simp

/-- the `i`-th row holds the `i`-th element of every column -/
theorem zipRows_spec : ∀ (n : Nat) (cols : List (List Val)),
    zipRows n cols = (List.range n).map fun i => Val.arr .plain (cols.map fun c => c.getD i .null)
  | 0, _ => rfl
  | n + 1, cols => by
    rw [zipRows, zipRows_spec n, List.range_succ_eq_map, List.map_cons, List.map_map]
    congr 1
    · congr 1
      apply List.map_congr_left
      intro c _
      cases c <;> rfl
    · apply List.map_congr_left
      intro i _
      simp only [Function.comp, List.map_map]
      congr 1
      apply List.map_congr_left
      intro c _
      exact getD_tail c i

/-- the number of rows of `zip`: the length of the shortest argument -/
def zipCount : List (List Val) → Nat
  | [] => 0
  | c :: cs => cs.foldl (fun m x => min m x.length) c.length

theorem foldl_min_le (cs : List (List Val)) : ∀ m, cs.foldl (fun m x => min m x.length) m ≤ m ∧
    ∀ c ∈ cs, cs.foldl (fun m x => min m x.length) m ≤ c.length := by
  induction cs with
  | nil => intro m; exact ⟨Nat.le_refl _, fun _ h => by cases h⟩
  | cons c cs ih =>
    intro m
    simp only [List.foldl_cons]
    have := ih (min m c.length)
    refine ⟨Nat.le_trans this.1 (Nat.min_le_left _ _), fun x hx => ?_⟩
    rcases List.mem_cons.mp hx with rfl | hx
    · exact Nat.le_trans this.1 (Nat.min_le_right _ _)
    · exact this.2 x hx

/-- `zipCount` is a lower bound of every length (so every row is made of actual elements) … -/
theorem zipCount_le {cols : List (List Val)} : ∀ c ∈ cols, zipCount cols ≤ c.length := by
  cases cols with
  | nil => intro _ h; cases h
  | cons c cs =>
    intro x hx
    rcases List.mem_cons.mp hx with rfl | hx
    · exact (foldl_min_le cs _).1
    · exact (foldl_min_le cs _).2 x hx

theorem foldl_min_mem (cs : List (List Val)) : ∀ m, cs.foldl (fun m x => min m x.length) m = m ∨
    ∃ c ∈ cs, cs.foldl (fun m x => min m x.length) m = c.length := by
  induction cs with
  | nil => intro m; exact Or.inl rfl
  | cons c cs ih =>
    intro m
    simp only [List.foldl_cons]
    rcases ih (min m c.length) with h | ⟨x, hx, h⟩
    · rcases Nat.le_total m c.length with hm | hm
      · rw [Nat.min_eq_left hm] at h ⊢; exact Or.inl h
      · rw [Nat.min_eq_right hm] at h ⊢; exact Or.inr ⟨c, by simp, h⟩
    · exact Or.inr ⟨x, by simp [hx], h⟩

/-- … and it is attained -/
theorem zipCount_mem {cols : List (List Val)} (h : cols ≠ []) : ∃ c ∈ cols, zipCount cols = c.length := by
  cases cols with
  | nil => exact absurd rfl h
  | cons c cs =>
    rcases foldl_min_mem cs c.length with h | ⟨x, hx, h⟩
    · exact ⟨c, by simp, h⟩
    · exact ⟨x, by simp [hx], h⟩

theorem zipArgs_plain : ∀ cols : List (List Val), zipArgs (cols.map (Val.arr .plain)) = .ok cols
  | [] => rfl
  | c :: cs => by simp [zipArgs, zipArgs_plain cs, enum2]

/-- **`zip(a₁, …, aₙ)` is the transposition, truncated to the shortest argument**: row `i` (for `i` below the minimum
    length) is `[a₁[i], …, aₙ[i]]` -/
theorem zip_spec (root cur : Val) (env : Env) (args : List INode) (cols : List (List Val))
    (h : ievalZip root args cur env = .ok (cols.map (Val.arr .plain))) :
    ieval root (.zip args) cur env =
      .ok (.arr .plain ((List.range (zipCount cols)).map fun i => Val.arr .plain (cols.map fun c => c.getD i .null))) := by
  simp only [ieval, h, Res.ok_bind, zipArgs_plain]
  cases cols with
  | nil => rfl
  | cons c cs => simp only [Res.pure_eq, zipRows_spec, zipCount]
example : evaluate (.zip [.lit (.arr .plain [.bool true, .bool false]), .lit (.arr .plain [.null])]) .null =
    .ok (.arr .plain [.arr .plain [.bool true, .null]]) := rfl

/-! ### `map` -/

theorem mapAll_ok {f : Val → Res Val} {g : Val → Val} : ∀ xs : List Val, (∀ x ∈ xs, f x = .ok (g x)) →
    mapAll f xs = .ok (xs.map g)
  | [], _ => rfl
  | x :: xs, h => by
    simp only [mapAll, h x (by simp), Res.ok_bind, mapAll_ok xs (fun y hy => h y (by simp [hy])), Res.pure_eq,
      List.map_cons]

/-- `map` applies the function to every element and keeps every result (nulls included) -/
theorem mapArray_spec {f : Val → Res Val} {g : Val → Val} (xs : List Val) (h : ∀ x ∈ xs, f x = .ok (g x)) :
    mapArray f (.arr .plain xs) = .ok (.arr .plain (xs.map g)) := by
  simp only [mapArray, mapAll_ok xs h, Res.ok_bind, Res.pure_eq, widen, ATag.derived]

/-- **`map(&e, a)`**: `e` is evaluated on every element of the value of `a`, *with the caller's scope* (`env`, and the
    same root), and all results are kept -/
theorem map_spec (root cur : Val) (env : Env) (e a : INode) (xs : List Val) (g : Val → Val)
    (ha : ieval root a cur env = .ok (.arr .plain xs)) (he : ∀ x ∈ xs, ieval root e x env = .ok (g x)) :
    ieval root (.map e a) cur env = .ok (.arr .plain (xs.map g)) := by
  simp only [ieval, ha, Res.ok_bind]
  exact mapArray_spec xs he
/-- `map(&x, a)` on a non-array: invalid-type -/
theorem map_non_array (f : Val → Res Val) (v : Val) (h : ∀ t xs, v ≠ .arr t xs) : mapArray f v = .err [.invalidType] := by
  cases v <;> first | rfl | exact absurd rfl (h _ _)
example : evaluate (.map (.variable [0x78]) (.lit (.arr .plain [.null, .null]))) .null = .err [.undefinedVariable] := rfl
example : ieval .null (.map (.variable [0x78]) (.lit (.arr .plain [.null, .null]))) .null [([0x78], .bool true)] =
    .ok (.arr .plain [.bool true, .bool true]) := rfl

/-! ### `group_by` -/

/-- `group_by` of an empty array is **null** in this implementation (the standard's result type is an object; the
    compliance corpus has no case) -/
theorem groupBy_empty (f : Val → Res Val) (t : ATag) : groupBy f (.arr t []) = .ok .null := rfl

/-- the group of a key -/
def groupOf (key : Bytes) (gs : List (Bytes × List Val)) : List Val := ((gs.lookup key).getD [])

/-- the invariant of the accumulator: keys strictly increasing -/
def GS (gs : List (Bytes × List Val)) : Prop := gs.Pairwise fun a b => bytesLt a.1 b.1 = true

theorem lookup_none_of_lt (s : Bytes) : ∀ (l : List (Bytes × List Val)), (∀ p ∈ l, bytesLt s p.1 = true) →
    l.lookup s = none
  | [], _ => rfl
  | (k, g) :: rest, h => by
    have hk : bytesLt s k = true := h (k, g) (by simp)
    have hne : (s == k) = false := by
      simp only [beq_eq_false_iff_ne, ne_eq]
      intro he; subst he; rw [bytesLt_irrefl] at hk; cases hk
    simp only [List.lookup, hne]
    exact lookup_none_of_lt s rest (fun p hp => h p (by simp [hp]))

theorem mem_groupInsert_key {s : Bytes} {v : Val} : ∀ {gs : List (Bytes × List Val)} {p : Bytes × List Val},
    p ∈ groupInsert s v gs → p.1 = s ∨ ∃ q ∈ gs, q.1 = p.1
  | [], p, h => by
    simp only [groupInsert, List.mem_singleton] at h
    exact Or.inl (by rw [h])
  | (k, g) :: rest, p, h => by
    simp only [groupInsert] at h
    split at h
    · next hsk =>
      rcases List.mem_cons.mp h with rfl | h
      · exact Or.inl hsk.symm
      · exact Or.inr ⟨p, by simp [h], rfl⟩
    · split at h
      · rcases List.mem_cons.mp h with rfl | h
        · exact Or.inl rfl
        · exact Or.inr ⟨p, h, rfl⟩
      · rcases List.mem_cons.mp h with rfl | h
        · exact Or.inr ⟨(k, g), by simp, rfl⟩
        · rcases mem_groupInsert_key h with h | ⟨q, hq, h⟩
          · exact Or.inl h
          · exact Or.inr ⟨q, by simp [hq], h⟩

theorem groupInsert_GS (s : Bytes) (v : Val) : ∀ {gs : List (Bytes × List Val)}, GS gs → GS (groupInsert s v gs)
  | [], _ => by simp [groupInsert, GS]
  | (k, g) :: rest, h => by
    have h' := List.pairwise_cons.mp h
    simp only [groupInsert]
    split
    · exact List.pairwise_cons.mpr ⟨fun p hp => h'.1 p hp, h'.2⟩
    · next hsk =>
      split
      · next hlt =>
        refine List.pairwise_cons.mpr ⟨fun p hp => ?_, h⟩
        rcases List.mem_cons.mp hp with rfl | hp
        · exact hlt
        · exact bytesLt_trans hlt (h'.1 p hp)
      · next hnlt =>
        have hks : bytesLt k s = true := by
          rcases bytesLt_total s k with h1 | h1 | h1
          · exact absurd h1 hnlt
          · exact absurd h1 hsk
          · exact h1
        refine List.pairwise_cons.mpr ⟨fun p hp => ?_, groupInsert_GS s v h'.2⟩
        rcases mem_groupInsert_key hp with h1 | ⟨q, hq, h1⟩
        · show bytesLt k p.1 = true
          rw [h1]; exact hks
        · show bytesLt k p.1 = true
          rw [← h1]; exact h'.1 q hq

theorem groupOf_groupInsert (key s : Bytes) (v : Val) : ∀ (gs : List (Bytes × List Val)), GS gs →
    groupOf key (groupInsert s v gs) = if key = s then groupOf key gs ++ [v] else groupOf key gs
  | [], _ => by
    by_cases h : key = s
    · subst h; simp [groupOf, groupInsert, List.lookup]
    · have : (key == s) = false := by simpa using h
      simp [groupOf, groupInsert, List.lookup, this, h]
  | (k, g) :: rest, hgs => by
    have h' := List.pairwise_cons.mp hgs
    have ih := groupOf_groupInsert key s v rest h'.2
    simp only [groupOf] at ih ⊢
    simp only [groupInsert]
    by_cases h1 : s = k
    · subst h1
      simp only [if_true, List.lookup]
      by_cases h : key = s
      · subst h; simp
      · have : (key == s) = false := by simpa using h
        simp [this, h]
    · simp only [h1, if_false]
      by_cases h2 : bytesLt s k = true
      · simp only [h2, if_true, List.lookup]
        by_cases h : key = s
        · subst h
          have : (key == k) = false := by simpa using h1
          have hn : rest.lookup key = none :=
            lookup_none_of_lt key rest (fun p hp => bytesLt_trans h2 (h'.1 p hp))
          simp [this, hn]
        · have : (key == s) = false := by simpa using h
          simp [this, h]
      · rw [if_neg h2]
        simp only [List.lookup]
        by_cases h3 : key = k
        · subst h3
          have : key ≠ s := fun h => h1 h.symm
          simp [this]
        · have : (key == k) = false := by simpa using h3
          simp only [this, ih]

theorem groupLoop_ok {f : Val → Res Val} {k : Val → Bytes} : ∀ (xs : List Val) (acc : List (Bytes × List Val)),
    GS acc → (∀ x ∈ xs, f x = .ok (.str (k x))) →
    ∃ gs, groupLoop f xs acc = .ok gs ∧ GS gs ∧
      ∀ key, groupOf key gs = groupOf key acc ++ xs.filter fun x => k x == key
  | [], acc, ha, _ => ⟨acc, rfl, ha, fun _ => by simp⟩
  | x :: xs, acc, ha, h => by
    obtain ⟨gs, h1, hg, h2⟩ := groupLoop_ok (f := f) (k := k) xs (groupInsert (k x) x acc) (groupInsert_GS _ _ ha)
      (fun y hy => h y (by simp [hy]))
    refine ⟨gs, by simp only [groupLoop, h x (by simp), Res.ok_bind, h1], hg, fun key => ?_⟩
    rw [h2 key, groupOf_groupInsert _ _ _ _ ha]
    by_cases hk : key = k x
    · subst hk; simp
    · have : (k x == key) = false := by simpa using fun h' => hk h'.symm
      simp [hk, this]

/-- **`group_by(a, &e)`** on a non-empty array whose keys are all strings: an object whose member `key` is the array
    of the elements with that key, in their original order -/
theorem groupBy_spec {f : Val → Res Val} {k : Val → Bytes} (xs : List Val) (hne : xs ≠ [])
    (h : ∀ x ∈ xs, f x = .ok (.str (k x))) :
    ∃ gs, groupBy f (.arr .plain xs) = .ok (.obj (gs.map fun kg => (kg.1, Val.arr .plain kg.2))) ∧
      ∀ key, groupOf key gs = xs.filter fun x => k x == key := by
  obtain ⟨gs, h1, _, h2⟩ := groupLoop_ok (f := f) (k := k) xs [] List.Pairwise.nil h
  refine ⟨gs, ?_, fun key => by rw [h2 key]; simp [groupOf]⟩
  have : xs.isEmpty = false := by cases xs <;> first | rfl | exact absurd rfl hne
  simp only [groupBy, this, Bool.false_eq_true, if_false, h1, Res.ok_bind, Res.pure_eq, widen, ATag.derived]
example : groupBy (fun v => .ok v) (.arr .plain [.str [0x62], .str [0x61], .str [0x62]]) =
    .ok (.obj [([0x61], .arr .plain [.str [0x61]]), ([0x62], .arr .plain [.str [0x62], .str [0x62]])]) := rfl

/-! ### `from_items`: a repeated key keeps its last value -/

theorem fromItemsLoop_pairs : ∀ (ps : List (Bytes × Val)) (acc : List (Bytes × Val)),
    fromItemsLoop (ps.map fun p => Val.arr .plain [.str p.1, p.2]) acc =
      .ok (ps.foldl (fun a p => objInsert p.1 p.2 a) acc)
  | [], _ => rfl
  | p :: ps, acc => by
    simp only [List.map_cons, fromItemsLoop, enum2, List.foldl_cons]
    exact fromItemsLoop_pairs ps _

theorem lookup_foldl_insert (k : Bytes) : ∀ (ps : List (Bytes × Val)) (acc : List (Bytes × Val)),
    objLookup k (ps.foldl (fun a p => objInsert p.1 p.2 a) acc) =
      match ps.reverse.find? (fun p => p.1 == k) with
      | some p => some p.2
      | none => objLookup k acc
  | [], _ => rfl
  | p :: ps, acc => by
    rw [List.foldl_cons, lookup_foldl_insert k ps, List.reverse_cons, List.find?_append]
    cases h : ps.reverse.find? (fun p => p.1 == k) with
    | some q => rfl
    | none =>
      simp only [Option.none_or, List.find?_cons, List.find?_nil, objLookup_objInsert]
      by_cases hk : k = p.1
      · subst hk; simp
      · have : (p.1 == k) = false := by simpa using fun h' => hk h'.symm
        simp [this, hk]

/-- **`from_items([[k₁, v₁], …, [kₙ, vₙ]])`**: the object in which `k` is bound to the value of the *last* pair with
    that key (and unbound when there is none) -/
theorem fromItems_last_wins (ps : List (Bytes × Val)) :
    ∃ kvs, fromItems (.arr .plain (ps.map fun p => Val.arr .plain [.str p.1, p.2])) = .ok (.obj kvs) ∧
      ∀ k, objLookup k kvs = (ps.reverse.find? (fun p => p.1 == k)).map Prod.snd := by
  refine ⟨ps.foldl (fun a p => objInsert p.1 p.2 a) [], ?_, fun k => ?_⟩
  · simp only [fromItems, fromItemsLoop_pairs, enum2]
    rfl
  · rw [lookup_foldl_insert]
    cases ps.reverse.find? (fun p => p.1 == k) <;> rfl
example : fromItems (.arr .plain [.arr .plain [.str [0x6B], .bool true], .arr .plain [.str [0x6B], .bool false]]) =
    .ok (.obj [([0x6B], .bool false)]) := rfl

/-! ### `find_first` / `find_last` with an empty pattern -/

/-- with two arguments an empty pattern (or an empty subject) gives **null** (pinned by the compliance corpus) … -/
theorem findFirst_empty_pattern (s : Bytes) : findFirst (.str s) (.str []) = .ok .null := by
  simp [findFirst, strArg]
theorem findLast_empty_pattern (s : Bytes) : findLast (.str s) (.str []) = .ok .null := by
  simp [findLast, strArg]

/-- … but with an explicit start position the empty pattern is *found* at that position: `find_first(s, '', 0)` is
    `0`, not null.  So `find_first(s, p)` and `find_first(s, p, 0)` differ for the empty pattern (`C02.findFirst_default`
    needs `p ≠ []`); Go behaves the same way. -/
theorem findFirstFrom_empty_pattern (s : Bytes) :
    findFirstFrom (.str s) (.str []) (.num (.int .i64 0)) = .ok (.num (.int .i64 0)) := by
  have h0 : startOffset s 0 = some 0 := by
    have : ¬ ((0 : Int) > s.length) := by omega
    simp only [startOffset, Int.lt_irrefl, if_false, this, Int.toNat_zero, runeOffset]
  have hi : intArg (.num (.int .i64 0)) = .ok 0 := rfl
  have hx : indexOf (s.drop 0) [] = some 0 := by
    simp only [List.drop_zero, indexOf]
    unfold indexOfAux
    simp
  simp only [findFirstFrom, findFrom, strArg, Res.ok_bind, hi, h0, Bool.false_eq_true, if_false, hx, Res.pure_eq,
    runeIndexVal, Nat.add_zero, List.take_zero]
  rfl
example : findFirst (.str [0x61]) (.str []) = .ok .null := rfl
example : findFirstFrom (.str [0x61]) (.str []) (.num (.int .i64 0)) = .ok (.num (.int .i64 0)) := rfl

/-! ### `trim`: the whitespace set, and what is removed -/

/-- the code points removed by `trim(s)` / `trim(s, '')`: Unicode `White_Space` (`unicode.IsSpace`) -/
theorem isSpaceRune_iff (r : Nat) : isSpaceRune r = true ↔
    r ∈ [0x09, 0x0A, 0x0B, 0x0C, 0x0D, 0x20, 0x85, 0xA0, 0x1680, 0x2028, 0x2029, 0x202F, 0x205F, 0x3000] ∨
    (0x2000 ≤ r ∧ r ≤ 0x200A) := by
  simp only [isSpaceRune, Bool.or_eq_true, beq_iff_eq, Bool.and_eq_true, decide_eq_true_eq, List.mem_cons,
    List.not_mem_nil, or_false]
  omega

theorem trimLeftBy_encodeAll (p : Nat → Bool) : ∀ (cs : List Nat), Scalars cs → ∀ fuel, cs.length ≤ fuel →
    trimLeftBy p fuel (encodeAll cs) = encodeAll (cs.dropWhile p)
  | [], _, fuel, _ => by cases fuel <;> rfl
  | c :: cs, h, fuel, hf => by
    match fuel, hf with
    | f + 1, hf =>
      have hne := encodeAll_cons_ne_nil c cs
      cases hs : encodeAll (c :: cs) with
      | nil => exact absurd hs hne
      | cons b bs =>
        rw [← hs]
        have hd : decodeRune (encodeAll (c :: cs)) = (c, (encodeRune c).length) := decodeRune_cons c cs h.head
        have hdrop : (encodeAll (c :: cs)).drop (encodeRune c).length = encodeAll cs := by
          rw [encodeAll_cons]; exact List.drop_left
        have step : trimLeftBy p (f + 1) (encodeAll (c :: cs)) =
            if p c then trimLeftBy p f (encodeAll cs) else encodeAll (c :: cs) := by
          rw [hs, trimLeftBy, ← hs, hd]
          · simp only [hdrop]
          · intro h0; cases h0
        rw [step, List.dropWhile_cons]
        split
        · exact trimLeftBy_encodeAll p cs h.tail f (by simpa using hf)
        · rfl

/-- **`trim_left` removes the longest prefix of code points in the set** (white space, or the code points of the second
    argument) -/
theorem trimLeftF_codepoints (p : Nat → Bool) (cs : List Nat) (h : Scalars cs) :
    trimLeftF p (encodeAll cs) = encodeAll (cs.dropWhile p) :=
  trimLeftBy_encodeAll p cs h _ (length_le_encodeAll cs)


theorem trimRightBy_encodeAll (p : Nat → Bool) : ∀ (cs : List Nat), Scalars cs → ∀ fuel, cs.length ≤ fuel →
    trimRightBy p fuel (encodeAll cs.reverse) = encodeAll (cs.dropWhile p).reverse
  | [], _, fuel, _ => by cases fuel <;> rfl
  | c :: cs, h, fuel, hf => by
    match fuel, hf with
    | f + 1, hf =>
      have hne := encodeAll_reverse_cons_ne_nil c cs
      have hd := decodeLastRune_snoc c cs h.head
      have htake := take_snoc c cs
      have step : trimRightBy p (f + 1) (encodeAll (c :: cs).reverse) =
          if p c then trimRightBy p f (encodeAll cs.reverse) else encodeAll (c :: cs).reverse := by
        cases hs : encodeAll (c :: cs).reverse with
        | nil => exact absurd hs hne
        | cons b bs =>
          rw [trimRightBy, ← hs, hd]
          · simp only [htake]
          · intro h0; cases h0
      rw [step, List.dropWhile_cons]
      split
      · exact trimRightBy_encodeAll p cs h.tail f (by simpa using hf)
      · rfl

/-- **`trim_right` removes the longest suffix of code points in the set** -/
theorem trimRightF_codepoints (p : Nat → Bool) (cs : List Nat) (h : Scalars cs) :
    trimRightF p (encodeAll cs) = encodeAll (cs.reverse.dropWhile p).reverse := by
  have := trimRightBy_encodeAll p cs.reverse h.reverse (encodeAll cs).length
    (by rw [List.length_reverse]; exact length_le_encodeAll cs)
  rw [List.reverse_reverse] at this
  exact this

/-- **`trim(s)`**: the code points of `s` without the leading and the trailing white space -/
theorem trimSpace_spec (cs : List Nat) (h : Scalars cs) :
    trimSpace (.str (encodeAll cs)) =
      .ok (.str (encodeAll (((cs.dropWhile isSpaceRune).reverse.dropWhile isSpaceRune).reverse))) := by
  have h2 : Scalars (cs.dropWhile isSpaceRune) := fun c hc => h c ((List.dropWhile_sublist _).subset hc)
  simp only [trimSpace, strArg, Res.ok_bind, Res.pure_eq, trimSpaceS, trimLeftF_codepoints _ _ h,
    trimRightF_codepoints _ _ h2]

/-- **`trim(s, chars)`** with a non-empty second argument: the same with the code points of `chars` as the set -/
theorem trim_spec (cs : List Nat) (h : Scalars cs) (cut : Bytes) (hc : cut ≠ []) :
    trim (.str (encodeAll cs)) (.str cut) =
      .ok (.str (encodeAll (((cs.dropWhile (inCutset cut)).reverse.dropWhile (inCutset cut)).reverse))) := by
  have h2 : Scalars (cs.dropWhile (inCutset cut)) := fun c hc => h c ((List.dropWhile_sublist _).subset hc)
  have he : cut.isEmpty = false := by cases cut <;> first | rfl | exact absurd rfl hc
  simp only [trim, strArg, Res.ok_bind, Res.pure_eq, he, Bool.false_eq_true, if_false,
    trimLeftF_codepoints _ _ h, trimRightF_codepoints _ _ h2]

theorem trimSpaceLeft_spec (cs : List Nat) (h : Scalars cs) :
    trimSpaceLeft (.str (encodeAll cs)) = .ok (.str (encodeAll (cs.dropWhile isSpaceRune))) := by
  simp only [trimSpaceLeft, strArg, Res.ok_bind, Res.pure_eq, trimLeftF_codepoints _ _ h]
example : trimSpaceLeft (.str [0x20, 0x09, 0x61, 0x20]) = .ok (.str [0x61, 0x20]) := rfl
example : trim (.str [0x20, 0x61, 0x20]) (.str []) = .ok (.str [0x61]) := rfl
example : trim (.str [0x78, 0x61, 0x78]) (.str [0x78]) = .ok (.str [0x61]) := rfl

end specs

end Jmes.C02B
