/-
  C01 (second part) — what `search` returns, construct by construct.

  `Properties/C01.lean` proves `search = seval ∘ desugar` and gives the value-level content of the projections.  Here:

    1. the reference semantics `seval` of each projection form IS "map the right-hand side over the elements and drop
       the null results" (`seval_proj_spec`, `seval_flatProj_spec`, `seval_filterProj_spec`, `seval_valueProj_spec`,
       `seval_sliceProj_spec`, `seval_prune_spec`), and null on anything that is not an array / object
       (`seval_proj_null` …);
    2. boolean operators, comparisons and arithmetic, let-bindings and variables, slices: the value in terms of the
       values of the sub-expressions (`seval_and`, `seval_or`, `seval_not`, `seval_cmp`, `seval_binop`, `seval_let`,
       `seval_let1`, `seval_var_bound`, `seval_slice_array`);
    3. the same on expression TEXT through `parse` / `search` (arbitrary well-formed sub-trees of the grammar, by
       `C04G.parse_complete`): `and_text`, `or_text`, `not_text`, `cmp_text`, `let_text`, `slice_text`,
       `star_text_value`, `ostar_text_value`, `flat_text_value`, `filt_text_value`, `field_text`, `index_text`,
       `star_star_text` (a wildcard after a wildcard).
-/
import Jmes.Properties.C17B
import Jmes.Properties.C12
namespace Jmes.C01B
open Jmes Jmes.Parser Jmes.Pratt Jmes.Grammar Jmes.C17B
set_option linter.unusedSimpArgs false

/-! ## 1. A projection maps its right-hand side over the elements and drops the null results (`seval`) -/

/-- **`l[*].r`**: when `l` yields the JSON array `xs` and `r` yields `g x` on each element -/
theorem seval_proj_spec (root : Val) (l r : Tree) (cur : Val) (env : Env) (xs : List Val) (g : Val → Val)
    (hl : seval root l cur env = .ok (.arr .plain xs)) (hr : ∀ x ∈ xs, seval root r x env = .ok (g x)) :
    seval root (.proj l r) cur env = .ok (.arr .plain ((xs.map g).filter (fun y => !y.isNull))) := by
  simp only [seval, hl, Res.ok_bind]
  exact C01.projectArray_spec _ g xs hr

/-- … and null when `l` does not yield an array -/
theorem seval_proj_null (root : Val) (l r : Tree) (cur : Val) (env : Env) (a : Val)
    (hl : seval root l cur env = .ok a) (ha : ∀ t xs, a ≠ .arr t xs) :
    seval root (.proj l r) cur env = .ok .null := by
  simp only [seval, hl, Res.ok_bind]
  exact C01.projectArray_non_array _ a ha

/-- **`l[]. r`**: the visited elements are one level of concatenation of `xs` (nulls kept: they are projected) -/
theorem seval_flatProj_spec (root : Val) (l r : Tree) (cur : Val) (env : Env) (t : ATag) (xs : List Val) (g : Val → Val)
    (hl : seval root l cur env = .ok (.arr t xs))
    (hr : ∀ x ∈ xs.flatMap C01.flatOneKeep, seval root r x env = .ok (g x)) :
    seval root (.flatProj l r) cur env =
      .ok (.arr (flattenTag t xs) (((xs.flatMap C01.flatOneKeep).map g).filter (fun y => !y.isNull))) := by
  simp only [seval, hl, Res.ok_bind]
  exact C01.flattenAndProjectArray_spec _ g t xs hr

/-- … and null when `l` does not yield an array -/
theorem seval_flatProj_null (root : Val) (l r : Tree) (cur : Val) (env : Env) (a : Val)
    (hl : seval root l cur env = .ok a) (ha : ∀ t xs, a ≠ .arr t xs) :
    seval root (.flatProj l r) cur env = .ok .null := by
  simp only [seval, hl, Res.ok_bind]
  exact C01.flattenAndProjectArray_non_array _ a ha

/-- **`l[?c].r`**: keep the elements whose condition is truthy, map, drop nulls -/
theorem seval_filterProj_spec (root : Val) (l c r : Tree) (cur : Val) (env : Env) (xs : List Val) (cv g : Val → Val)
    (hl : seval root l cur env = .ok (.arr .plain xs)) (hc : ∀ x ∈ xs, seval root c x env = .ok (cv x))
    (hr : ∀ x ∈ xs, isTrue (cv x) = true → seval root r x env = .ok (g x)) :
    seval root (.filterProj l c r) cur env =
      .ok (.arr .plain (((xs.filter (fun x => isTrue (cv x))).map g).filter (fun y => !y.isNull))) := by
  simp only [seval, hl, Res.ok_bind]
  exact C01.filterAndProjectArray_spec _ _ cv g xs hc hr

/-- … and null when `l` does not yield an array -/
theorem seval_filterProj_null (root : Val) (l c r : Tree) (cur : Val) (env : Env) (a : Val)
    (hl : seval root l cur env = .ok a) (ha : ∀ t xs, a ≠ .arr t xs) :
    seval root (.filterProj l c r) cur env = .ok .null := by
  simp only [seval, hl, Res.ok_bind]
  exact C01.filterAndProjectArray_non_array _ _ a ha

/-- **`l.*.r`**: the member values (in the model: in key order; Go ranges over a map, whence the tag `.enum`) -/
theorem seval_valueProj_spec (root : Val) (l r : Tree) (cur : Val) (env : Env) (kvs : List (Bytes × Val)) (g : Val → Val)
    (hl : seval root l cur env = .ok (.obj kvs)) (hr : ∀ x ∈ kvs.map Prod.snd, seval root r x env = .ok (g x)) :
    seval root (.valueProj l r) cur env =
      .ok (.arr .enum (((kvs.map Prod.snd).map g).filter (fun y => !y.isNull))) := by
  simp only [seval, hl, Res.ok_bind]
  exact C01.projectObject_spec _ g kvs hr

/-- … and null when `l` does not yield an object -/
theorem seval_valueProj_null (root : Val) (l r : Tree) (cur : Val) (env : Env) (a : Val)
    (hl : seval root l cur env = .ok a) (ha : ∀ kvs, a ≠ .obj kvs) :
    seval root (.valueProj l r) cur env = .ok .null := by
  simp only [seval, hl, Res.ok_bind]
  exact C01.projectObject_non_object _ a ha

/-- **`l[a:b].r`** (`l` the slice): an array slice is projected like `[*]`; a string slice is handed to `r` whole -/
theorem seval_sliceProj_spec (root : Val) (l r : Tree) (cur : Val) (env : Env) (xs : List Val) (g : Val → Val)
    (hl : seval root l cur env = .ok (.arr .plain xs)) (hr : ∀ x ∈ xs, seval root r x env = .ok (g x)) :
    seval root (.sliceProj l r) cur env = .ok (.arr .plain ((xs.map g).filter (fun y => !y.isNull))) := by
  simp only [seval, hl, Res.ok_bind]
  exact C01.projectArray_spec _ g xs hr

/-- a string slice is not projected: the right-hand side is applied to the slice itself -/
theorem seval_sliceProj_str (root : Val) (l r : Tree) (cur : Val) (env : Env) (s : Bytes)
    (hl : seval root l cur env = .ok (.str s)) :
    seval root (.sliceProj l r) cur env = seval root r (.str s) env := by
  simp only [seval, hl, Res.ok_bind]

/-- **`l[*]`** with nothing after it: the array without its nulls -/
theorem seval_prune_spec (root : Val) (l : Tree) (cur : Val) (env : Env) (xs : List Val)
    (hl : seval root l cur env = .ok (.arr .plain xs)) :
    seval root (.prune l) cur env = .ok (.arr .plain (xs.filter (fun y => !y.isNull))) := by
  simp only [seval, hl, Res.ok_bind, Res.pure_eq, C01.pruneArray_spec]

/-- `[*].a` on `[{"a": 1}, {"a": null}, {}, 2]` is `[1]`; `*.a` on `{"x": {"a": 1}, "y": 2}` is `[1]` -/
example : seval .null (.proj .current (.field [97]))
    (.arr .plain [.obj [([97], .num (.int .int 1))], .obj [([97], .null)], .obj [], .num (.int .int 2)]) []
    = .ok (.arr .plain [.num (.int .int 1)]) :=
  (seval_proj_spec .null .current (.field [97]) _ [] _ (fun v => field [97] v) rfl (fun _ _ => rfl)).trans rfl
example : seval .null (.valueProj .current (.field [97]))
    (.obj [([120], .obj [([97], .num (.int .int 1))]), ([121], .num (.int .int 2))]) []
    = .ok (.arr .enum [.num (.int .int 1)]) :=
  (seval_valueProj_spec .null .current (.field [97]) _ [] _ (fun v => field [97] v) rfl (fun _ _ => rfl)).trans rfl
example : seval .null (.proj .current (.field [97])) (.obj [([97], .bool true)]) [] = .ok .null :=
  seval_proj_null .null _ _ _ [] _ rfl (fun _ _ h => by cases h)
example : seval .null (.filterProj .current (.field [97]) (.field [98]))
    (.arr .plain [.obj [([97], .bool true), ([98], .num (.int .int 1))], .obj [([98], .num (.int .int 2))]]) []
    = .ok (.arr .plain [.num (.int .int 1)]) :=
  (seval_filterProj_spec .null .current (.field [97]) (.field [98]) _ [] _ (fun v => field [97] v)
    (fun v => field [98] v) rfl (fun _ _ => rfl) (fun _ _ _ => rfl)).trans rfl
example : seval .null (.flatProj .current (.field [97]))
    (.arr .plain [.arr .plain [.obj [([97], .bool true)]], .obj [([97], .bool false)], .null]) []
    = .ok (.arr .plain [.bool true, .bool false]) :=
  (seval_flatProj_spec .null .current (.field [97]) _ [] .plain _ (fun v => field [97] v) rfl (fun _ _ => rfl)).trans rfl

/-! ## 2. Boolean operators, comparisons, let-bindings, slices (`seval`) -/

/-- **`l && r`**: the value of `l` if it is falsy (false, null, empty string / array / object), else the value of `r`;
    `r` is not evaluated in the first case -/
theorem seval_and (root : Val) (l r : Tree) (cur : Val) (env : Env) (a : Val) (hl : seval root l cur env = .ok a) :
    seval root (.and l r) cur env = if isTrue a then seval root r cur env else .ok a := by
  simp only [seval, hl, Res.ok_bind, Res.pure_eq]
  cases isTrue a <;> rfl

/-- **`l || r`**: the value of `l` if it is truthy, else the value of `r` -/
theorem seval_or (root : Val) (l r : Tree) (cur : Val) (env : Env) (a : Val) (hl : seval root l cur env = .ok a) :
    seval root (.or l r) cur env = if isTrue a then .ok a else seval root r cur env := by
  simp only [seval, hl, Res.ok_bind, Res.pure_eq]

/-- **`!c`** -/
theorem seval_not (root : Val) (c : Tree) (cur : Val) (env : Env) (a : Val) (hc : seval root c cur env = .ok a) :
    seval root (.not c) cur env = .ok (.bool (!isTrue a)) := by
  simp only [seval, hc, Res.ok_bind, Res.pure_eq]

/-- a failing left operand is the outcome of `&&`, `||`, and of every binary operator -/
theorem seval_bool_left_err (root : Val) (l r : Tree) (cur : Val) (env : Env) (cs : List Cat) (op : BinOp)
    (hl : seval root l cur env = .err cs) :
    seval root (.and l r) cur env = .err cs ∧ seval root (.or l r) cur env = .err cs ∧
    seval root (.binop op l r) cur env = .err cs := by
  simp only [seval, hl, Res.err_bind, and_self]

/-- **binary operators** (comparisons and arithmetic): both operands are evaluated, left first, then the operator is
    applied to the two values -/
theorem seval_binop (root : Val) (op : BinOp) (l r : Tree) (cur : Val) (env : Env) (a b : Val)
    (hl : seval root l cur env = .ok a) (hr : seval root r cur env = .ok b) :
    seval root (.binop op l r) cur env = applyBinOp op a b := by
  simp only [seval, hl, hr, Res.ok_bind]

/-- **comparisons**: `==` / `!=` are (the negation of) value equality; the ordering operators are defined on numbers
    and yield null otherwise (`less`, … : `Model/Compare.lean`, the subject of C20) -/
theorem seval_cmp (root : Val) (l r : Tree) (cur : Val) (env : Env) (a b : Val)
    (hl : seval root l cur env = .ok a) (hr : seval root r cur env = .ok b) :
    seval root (.binop .eq l r) cur env = (equalR a b >>= fun e => .ok (.bool e)) ∧
    seval root (.binop .ne l r) cur env = (equalR a b >>= fun e => .ok (.bool (!e))) ∧
    seval root (.binop .lt l r) cur env = .ok (less a b) ∧
    seval root (.binop .le l r) cur env = .ok (lessOrEqual a b) ∧
    seval root (.binop .gt l r) cur env = .ok (greater a b) ∧
    seval root (.binop .ge l r) cur env = .ok (greaterOrEqual a b) := by
  simp only [seval, hl, hr, Res.ok_bind, applyBinOp, Res.pure_eq, and_self]

/-- `a && b`, `a || b`, `!a`, `a < b` on `{"a": [], "b": 1}`: `[]`, `1`, `true`, null -/
example : seval .null (.and (.field [97]) (.field [98])) (.obj [([97], .arr .plain []), ([98], .num (.int .int 1))]) []
    = .ok (.arr .plain []) := (seval_and .null _ _ _ [] _ rfl).trans rfl
example : seval .null (.or (.field [97]) (.field [98])) (.obj [([97], .arr .plain []), ([98], .num (.int .int 1))]) []
    = .ok (.num (.int .int 1)) := (seval_or .null _ _ _ [] _ rfl).trans rfl
example : seval .null (.not (.field [97])) (.obj [([97], .arr .plain [])]) [] = .ok (.bool true) :=
  (seval_not .null _ _ [] _ rfl).trans rfl
example : seval .null (.binop .lt (.field [97]) (.field [98])) (.obj [([97], .arr .plain []), ([98], .num (.int .int 1))]) []
    = .ok .null := ((seval_cmp .null _ _ _ [] _ _ rfl rfl).2.2.1).trans (by rfl)

/-- **`let $x1 = e1, … in body`**: the bindings are evaluated on the current node in the OUTER scope, then the body is
    evaluated on the same current node with the new bindings in front of the outer ones (so they shadow them) -/
theorem seval_let (root : Val) (bs : List (Bytes × Tree)) (body : Tree) (cur : Val) (env : Env)
    (vs : List (Bytes × Val)) (hb : sevalFields root bs cur env = .ok vs) :
    seval root (.letIn bs body) cur env = seval root body cur (vs ++ env) := by
  simp only [seval, hb, Res.ok_bind]

/-- one binding -/
theorem seval_let1 (root : Val) (x : Bytes) (e body : Tree) (cur : Val) (env : Env) (v : Val)
    (he : seval root e cur env = .ok v) :
    seval root (.letIn [(x, e)] body) cur env = seval root body cur ((x, v) :: env) := by
  simp only [seval, sevalFields, he, combineUnordered, objInsert, Res.ok_bind, List.cons_append, List.nil_append]

/-- a failing binding is the outcome of the `let` -/
theorem seval_let1_err (root : Val) (x : Bytes) (e body : Tree) (cur : Val) (env : Env) (cs : List Cat)
    (he : seval root e cur env = .err cs) :
    seval root (.letIn [(x, e)] body) cur env = .err cs := by
  simp only [seval, sevalFields, he, combineUnordered, Res.err_bind]

/-- **`$x`**: the innermost binding of `x`; unbound: the `undefined-variable` error -/
theorem seval_var_bound (root : Val) (x : Bytes) (v : Val) (cur : Val) (env : Env) :
    seval root (.var x) cur ((x, v) :: env) = .ok v := by
  simp only [seval, Env.get, objLookup, if_true]

/-- a binding of another name is skipped -/
theorem seval_var_outer (root : Val) (x y : Bytes) (v : Val) (cur : Val) (env : Env) (h : x ≠ y) :
    seval root (.var x) cur ((y, v) :: env) = seval root (.var x) cur env := by
  simp only [seval, Env.get, objLookup, h, if_false]

/-- no binding: the undefined-variable error -/
theorem seval_var_unbound (root : Val) (x : Bytes) (cur : Val) : seval root (.var x) cur [] = .err [Cat.undefinedVariable] := by
  simp only [seval, Env.get, objLookup]

/-- the scope of a `let` extends into the right-hand side of a projection in its body: `let $x = e in l[*].r`
    evaluates `r` on each element with `$x` bound -/
theorem seval_let_proj (root : Val) (x : Bytes) (e l r : Tree) (cur : Val) (env : Env) (v : Val)
    (he : seval root e cur env = .ok v) :
    seval root (.letIn [(x, e)] (.proj l r)) cur env =
      (seval root l cur ((x, v) :: env) >>= projectArray (fun el => seval root r el ((x, v) :: env))) := by
  rw [seval_let1 root x e _ cur env v he]; simp only [seval]

/-- `let $x = a in b[*].[@, $x]`-like: `let $x = a in $x` on `{"a": 1}` is `1`; the inner binding shadows the outer -/
example : seval .null (.letIn [([36, 120], .field [97])] (.var [36, 120])) (.obj [([97], .num (.int .int 1))]) []
    = .ok (.num (.int .int 1)) :=
  (seval_let1 .null _ _ _ _ [] _ rfl).trans (seval_var_bound _ _ _ _ _)
example : seval .null (.letIn [([36, 120], .lit (.bool true))] (.letIn [([36, 120], .lit (.bool false))] (.var [36, 120])))
    .null [] = .ok (.bool false) := rfl
example : seval .null (.letIn [([36, 120], .field [97])] (.proj (.field [98]) (.var [36, 120])))
    (.obj [([97], .bool true), ([98], .arr .plain [.null, .null])]) [] = .ok (.arr .plain [.bool true, .bool true]) :=
  (seval_let_proj .null _ _ _ _ _ [] _ rfl).trans rfl

/-- **slices** `[a:b]` / `[a:b:c]` as selectors: the slice of the current node — on a JSON array the elements at the
    indices Python's `range(*slice(a, b, c).indices(n))` visits (C12), on a string the runes, null otherwise -/
theorem seval_slice (root : Val) (a b s : Int) (cur : Val) (env : Env) :
    seval root (.slice a b) cur env = slice cur a b ∧ seval root (.sliceStep a b s) cur env = sliceStep cur a b s := by
  simp only [seval, and_self]

/-- on a JSON array: the elements at the indices of the Python walk (C12) -/
theorem seval_slice_array (root : Val) (a b : Int) (xs : List Val) (env : Env) :
    seval root (.slice a b) (.arr .plain xs) env =
      .ok (.arr .plain ((Spec.pyWalk xs.length (some a) (some b) 1).map (fun i => xs.getD i.toNat .null))) := by
  simp only [seval]; exact C12.slice_array_spec_explicit xs a b

/-- on anything that is neither an array nor a string: null -/
theorem seval_slice_other (root : Val) (a b s : Int) (v : Val) (env : Env) (h1 : ∀ t xs, v ≠ .arr t xs)
    (h2 : ∀ str, v ≠ .str str) :
    seval root (.slice a b) v env = .ok .null ∧ seval root (.sliceStep a b s) v env = .ok .null := by
  simp only [seval]
  exact ⟨C01.slice_non_array_string v a b h1 h2, C01.sliceStep_non_array_string v a b s h1 h2⟩

example : seval .null (.slice 1 3) (.arr .plain [.bool true, .null, .bool false, .bool true]) []
    = .ok (.arr .plain [.null, .bool false]) := (seval_slice_array .null 1 3 _ []).trans (by rfl)


/-! ## 3. The same on expression TEXT, through `parse` / `search`

  `A`, `B`, `E`, `L`, `ρ` are arbitrary well-formed trees of the grammar; `Lexes e ts`: the text `e` lexes to `ts`. -/

/-- **`A op B`** for any binary operator: the node, and `search` evaluates it -/
theorem bin_text {A B : PTree} {op : Token} {lvl : Nat} (hop : binLevel op.type = some lvl) (hA : WellPrec A)
    (hAr : lvl ≤ rlevel A) (hB : WellPrec B) (hBl : lvl < llevel B) {e : Bytes}
    (hl : Lexes e (Grammar.flatten A ++ op :: Grammar.flatten B)) :
    Parser.parse e = .ok (binNode op.type (erase A) (erase B)) ∧
    ∀ d, search e d = evaluate (binNode op.type (erase A) (erase B)) d :=
  text (wp_bin hop hA hAr hB hBl) (hl.congr (flatten_bin op A B).symm)

/-- **`A && B`**: the value of `A` if it is falsy, else the value of `B` (not evaluated in the first case) -/
theorem and_text {A B : PTree} {op : Token} (hop : op.type = .and) (hA : WellPrec A) (hAr : lvlAnd ≤ rlevel A)
    (hB : WellPrec B) (hBl : lvlAnd < llevel B) {e : Bytes} (hl : Lexes e (Grammar.flatten A ++ op :: Grammar.flatten B)) :
    Parser.parse e = .ok (.and (erase A) (erase B)) ∧
    ∀ d, search e d = (evaluate (erase A) d >>= fun a => if isTrue a then evaluate (erase B) d else .ok a) := by
  have h := bin_text (op := op) (lvl := lvlAnd) (by rw [hop]; rfl) hA hAr hB hBl hl
  rw [hop] at h
  refine ⟨h.1, fun d => ?_⟩
  rw [h.2 d]
  show evaluate (.and _ _) d = _
  simp only [evaluate_eq, ieval, Res.pure_eq]
  apply Res.bind_congr; intro a; cases isTrue a <;> rfl

/-- **`A || B`**: the value of `A` if it is truthy, else the value of `B` -/
theorem or_text {A B : PTree} {op : Token} (hop : op.type = .or) (hA : WellPrec A) (hAr : lvlOr ≤ rlevel A)
    (hB : WellPrec B) (hBl : lvlOr < llevel B) {e : Bytes} (hl : Lexes e (Grammar.flatten A ++ op :: Grammar.flatten B)) :
    Parser.parse e = .ok (.or (erase A) (erase B)) ∧
    ∀ d, search e d = (evaluate (erase A) d >>= fun a => if isTrue a then .ok a else evaluate (erase B) d) := by
  have h := bin_text (op := op) (lvl := lvlOr) (by rw [hop]; rfl) hA hAr hB hBl hl
  rw [hop] at h
  refine ⟨h.1, fun d => ?_⟩
  rw [h.2 d]
  show evaluate (.or _ _) d = _
  simp only [evaluate_eq, ieval, Res.pure_eq]

/-- **`!A`** -/
theorem not_text {A : PTree} (hA : WellPrec A) (hAl : lvlNot < llevel A) {e : Bytes}
    (hl : Lexes e (tNot :: Grammar.flatten A)) :
    Parser.parse e = .ok (.not (erase A)) ∧
    ∀ d, search e d = (evaluate (erase A) d >>= fun a => .ok (.bool (!isTrue a))) := by
  have hA' : Grammar.wp false A = true := hA
  have hw : WellPrec (.not A) := by
    show Grammar.wp false (.not A) = true
    simp only [Grammar.wp, hA', Bool.not_false, Bool.true_and, decide_eq_true_eq]
    exact hAl
  obtain ⟨hp, hs⟩ := text hw (hl.congr rfl)
  refine ⟨hp, fun d => ?_⟩
  rw [hs d]
  show evaluate (.not _) d = _
  simp only [evaluate_eq, ieval, Res.pure_eq]

/-- the node of a comparison token -/
def cmpOpOf : TokenType → Option BinOp
  | .equal => some .eq | .notEqual => some .ne | .less => some .lt | .lessOrEqual => some .le
  | .greater => some .gt | .greaterOrEqual => some .ge | _ => none

/-- **`A cmp B`** for the six comparison operators: both sides are evaluated on the document (left first), then
    compared: `==` / `!=` by value equality, the four ordering operators on numbers only (null otherwise) -/
theorem cmp_text {A B : PTree} {op : Token} {c : BinOp} (hop : cmpOpOf op.type = some c) (hA : WellPrec A)
    (hAr : lvlCmp ≤ rlevel A) (hB : WellPrec B) (hBl : lvlCmp < llevel B) {e : Bytes}
    (hl : Lexes e (Grammar.flatten A ++ op :: Grammar.flatten B)) :
    Parser.parse e = .ok (.binop c (erase A) (erase B)) ∧
    ∀ d, search e d = (evaluate (erase A) d >>= fun a => evaluate (erase B) d >>= fun b => applyBinOp c a b) := by
  have hlv : binLevel op.type = some lvlCmp ∧ binNode op.type = .binop c := by
    cases ht : op.type <;> rw [ht] at hop <;> simp only [cmpOpOf, Option.some.injEq, reduceCtorEq] at hop <;>
      subst hop <;> exact ⟨rfl, rfl⟩
  have h := bin_text (op := op) (lvl := lvlCmp) hlv.1 hA hAr hB hBl hl
  rw [hlv.2] at h
  refine ⟨h.1, fun d => ?_⟩
  rw [h.2 d]
  simp only [evaluate_eq, ieval]

/-- what the six comparisons compute from the two values -/
theorem applyBinOp_cmp (a b : Val) :
    applyBinOp .eq a b = (equalR a b >>= fun e => .ok (.bool e)) ∧
    applyBinOp .ne a b = (equalR a b >>= fun e => .ok (.bool (!e))) ∧
    applyBinOp .lt a b = .ok (less a b) ∧ applyBinOp .le a b = .ok (lessOrEqual a b) ∧
    applyBinOp .gt a b = .ok (greater a b) ∧ applyBinOp .ge a b = .ok (greaterOrEqual a b) :=
  ⟨rfl, rfl, rfl, rfl, rfl, rfl⟩

/-- **`let $x = E in B`**: `E` is evaluated on the document, then `B` on the document with `$x` bound to that value -/
theorem let_text {E B : PTree} {x : Token} (hx : x.type = .variable) (hE : WellPrec E) (hB : WellPrec B) {e : Bytes}
    (hl : Lexes e (tLet :: x :: tAssign :: Grammar.flatten E ++ tIn :: Grammar.flatten B)) :
    Parser.parse e = .ok (.defineVariables [(x.value, erase E)] (erase B)) ∧
    ∀ d, search e d = (evaluate (erase E) d >>= fun v => ieval d (erase B) d [(x.value, v)]) := by
  have hE' : Grammar.wp false E = true := hE
  have hB' : Grammar.wp false B = true := hB
  have hw : WellPrec (.letIn [(x, E)] B) := by
    show Grammar.wp false (.letIn [(x, E)] B) = true
    simp only [Grammar.wp, wpKVs, isVarTok, hx, hE', hB', List.isEmpty_cons, Bool.not_false, beq_self_eq_true,
      Bool.and_self]
  obtain ⟨hp, hs⟩ := text hw (hl.congr (by
    simp only [Grammar.flatten, Grammar.flat, flatKVs, List.cons_append, List.append_assoc]))
  have he : erase (.letIn [(x, E)] B) = .defineVariables [(x.value, erase E)] (erase B) := by
    simp only [erase, eraseKVs, assocOf, List.foldl, Parser.assocInsert]
  rw [he] at hp hs
  refine ⟨hp, fun d => ?_⟩
  rw [hs d]
  simp only [evaluate_eq, ieval, ievalFields, combineUnordered_nil, Res.bind_assoc, Res.ok_bind, List.cons_append,
    List.nil_append]

/-- **`$x`** under a binding: its value -/
theorem var_value (root : Val) (x : Bytes) (v : Val) (cur : Val) (env : Env) :
    ieval root (.variable x) cur ((x, v) :: env) = .ok v := by
  simp only [ieval, Env.get, objLookup, if_true]

/-- **an identifier**: the member of that name of an object; null on anything else and when absent -/
theorem field_text {k : Token} (hk : k.type = .unquotedIdentifier) {e : Bytes} (hl : Lexes e [k]) :
    Parser.parse e = .ok (.field k.value) ∧ ∀ d, search e d = .ok (field k.value d) := by
  have hat : atomNode k = some (.field k.value) := by simp only [atomNode, hk]
  have hw : WellPrec (.atom k) := by
    show Grammar.wp false (.atom k) = true
    simp only [Grammar.wp, hat, Option.isSome_some, Bool.not_false, Bool.and_self]
  obtain ⟨hp, hs⟩ := text hw (hl.congr rfl)
  have he : erase (.atom k) = .field k.value := by simp only [erase, hat, Option.getD_some]
  rw [he] at hp hs
  exact ⟨hp, fun d => by rw [hs d]; rfl⟩

/-- **`A[n]`**: element `n` of the value of `A` (negative: from the end); null when out of range or not an array -/
theorem index_text {A : PTree} {n : Token} {i : Int} (hA : WellPrec A) (hAr : lvlBracket ≤ rlevel A)
    (hn : n.type = .integerLiteral) (hi : intOf n = some i) {e : Bytes}
    (hl : Lexes e (Grammar.flatten A ++ [tLBracket, n, tRBracket])) :
    Parser.parse e = .ok (.index (erase A) i) ∧ ∀ d, search e d = (evaluate (erase A) d >>= fun v => index v i) := by
  have hA' : Grammar.wp false A = true := hA
  have hw : WellPrec (.index A n) := by
    show Grammar.wp false (.index A n) = true
    simp only [Grammar.wp, not_icur hA', Bool.false_eq_true, if_false, hA', isIntTok, hn, hi, beq_self_eq_true,
      Option.isSome_some, Bool.true_and, Bool.and_true, decide_eq_true_eq]
    exact hAr
  obtain ⟨hp, hs⟩ := text hw (hl.congr rfl)
  have he : erase (.index A n) = .index (erase A) i := by
    simp only [erase, GrammarF0.optNode_of_ne (not_icur hA'), hi, Option.getD_some, indexNode]
  rw [he] at hp hs
  refine ⟨hp, fun d => ?_⟩
  rw [hs d]; simp only [evaluate_eq, ieval]

/-! ### projections on text: "map the right-hand side over the elements, drop the nulls" -/

/-- **`L[*]ρ`** on a document where `L` is the JSON array `xs` -/
theorem star_text_value {L ρ : PTree} (hL : WellPrec L) (hLr : lvlBracket ≤ rlevel L) (hρ : Rhs ρ) {e : Bytes}
    (hl : Lexes e (Grammar.flatten L ++ [tArrayStar] ++ Grammar.flat true ρ))
    (d : Val) (xs : List Val) (g : Val → Val) (hx : evaluate (erase L) d = .ok (.arr .plain xs))
    (hg : ∀ x ∈ xs, ieval d (erase ρ) x [] = .ok (g x)) :
    search e d = .ok (.arr .plain ((xs.map g).filter (fun y => !y.isNull))) := by
  rw [(proj_text .star hL hLr trivial hρ hl).2 d, hx, Res.ok_bind]
  exact C01.projectArray_spec _ g xs hg

/-- **`L.*ρ`** on a document where `L` is the object `kvs` -/
theorem ostar_text_value {L ρ : PTree} (hL : WellPrec L) (hLr : lvlDot ≤ rlevel L) (hρ : Rhs ρ) {e : Bytes}
    (hl : Lexes e (Grammar.flatten L ++ [tDotStar] ++ Grammar.flat true ρ))
    (d : Val) (kvs : List (Bytes × Val)) (g : Val → Val) (hx : evaluate (erase L) d = .ok (.obj kvs))
    (hg : ∀ x ∈ kvs.map Prod.snd, ieval d (erase ρ) x [] = .ok (g x)) :
    search e d = .ok (.arr .enum (((kvs.map Prod.snd).map g).filter (fun y => !y.isNull))) := by
  rw [(proj_text .ostar hL hLr trivial hρ hl).2 d, hx, Res.ok_bind]
  exact C01.projectObject_spec _ g kvs hg

/-- **`L[]ρ`** -/
theorem flat_text_value {L ρ : PTree} (hL : WellPrec L) (hLr : lvlFlatten ≤ rlevel L) (hρ : Rhs ρ) {e : Bytes}
    (hl : Lexes e (Grammar.flatten L ++ [tFlatten] ++ Grammar.flat true ρ))
    (d : Val) (t : ATag) (xs : List Val) (g : Val → Val) (hx : evaluate (erase L) d = .ok (.arr t xs))
    (hg : ∀ x ∈ xs.flatMap C01.flatOneKeep, ieval d (erase ρ) x [] = .ok (g x)) :
    search e d = .ok (.arr (flattenTag t xs) (((xs.flatMap C01.flatOneKeep).map g).filter (fun y => !y.isNull))) := by
  rw [(proj_text .flat hL hLr trivial hρ hl).2 d, hx, Res.ok_bind]
  exact C01.flattenAndProjectArray_spec _ g t xs hg

/-- **`L[?F]ρ`** -/
theorem filt_text_value {L F ρ : PTree} (hL : WellPrec L) (hLr : lvlFilter ≤ rlevel L) (hF : WellPrec F) (hρ : Rhs ρ)
    {e : Bytes} (hl : Lexes e (Grammar.flatten L ++ (tFilter :: Grammar.flatten F ++ [tRBracket]) ++ Grammar.flat true ρ))
    (d : Val) (xs : List Val) (cv g : Val → Val) (hx : evaluate (erase L) d = .ok (.arr .plain xs))
    (hc : ∀ x ∈ xs, ieval d (erase F) x [] = .ok (cv x))
    (hg : ∀ x ∈ xs, isTrue (cv x) = true → ieval d (erase ρ) x [] = .ok (g x)) :
    search e d = .ok (.arr .plain (((xs.filter (fun x => isTrue (cv x))).map g).filter (fun y => !y.isNull))) := by
  rw [(proj_text (.filt F) hL hLr hF hρ hl).2 d, hx, Res.ok_bind]
  exact C01.filterAndProjectArray_spec _ _ cv g xs hc hg

/-- every projection form yields null when its left operand is not an array (for `.*`: not an object) -/
theorem proj_text_null (o : Opener) {L ρ : PTree} (hL : WellPrec L) (hLr : o.lvl ≤ rlevel L) (ho : o.ok) (hρ : Rhs ρ)
    {e : Bytes} (hl : Lexes e (Grammar.flatten L ++ o.toks ++ Grammar.flat true ρ))
    (d : Val) (v : Val) (hx : evaluate (erase L) d = .ok v) (h1 : ∀ t xs, v ≠ .arr t xs) (h2 : ∀ kvs, v ≠ .obj kvs)
    (h3 : ∀ s, v ≠ .str s) : search e d = .ok .null := by
  rw [(proj_text o hL hLr ho hρ hl).2 d, hx, Res.ok_bind]
  cases o with
  | star => exact C01.projectArray_non_array _ v h1
  | ostar => exact C01.projectObject_non_object _ v h2
  | flat => exact C01.flattenAndProjectArray_non_array _ v h1
  | filt c => exact C01.filterAndProjectArray_non_array _ _ v h1
  | slice a b c =>
    have : sliceVal a b c v = .ok .null := by
      simp only [sliceVal]
      split
      · exact C01.slice_non_array_string v _ _ h1 h3
      · exact C01.sliceStep_non_array_string v _ _ _ h1 h3
    simp only [Opener.sem, this, Res.ok_bind]
    rfl

/-- **`L[i:j]`** (a slice with nothing after it) on a document where `L` is the JSON array `xs`: the elements at the
    indices Python's `range(*slice(i, j).indices(len(xs)))` visits — without the nulls: a slice is a projection -/
theorem slice_text_value {L : PTree} {ti tj : Token} {i j : Int} (hL : WellPrec L) (hLr : lvlBracket ≤ rlevel L)
    (hti : ti.type = .integerLiteral) (htj : tj.type = .integerLiteral) (hi : intOf ti = some i) (hj : intOf tj = some j)
    {e : Bytes} (hl : Lexes e (Grammar.flatten L ++ [tLBracket, ti, tColon, tj, tRBracket]))
    (d : Val) (xs : List Val) (hx : evaluate (erase L) d = .ok (.arr .plain xs)) :
    Parser.parse e = .ok (.projectArray (.slice (erase L) i j) .current) ∧
    search e d = .ok (.arr .plain
      (((Spec.pyWalk xs.length (some i) (some j) 1).map (fun k => xs.getD k.toNat .null)).filter (fun y => !y.isNull))) := by
  have hok : (Opener.slice (some ti) (some tj) none).ok := by
    show sliceOK (some ti) (some tj) none = true
    simp only [sliceOK, optIntTok, isIntTok, hti, htj, hi, hj, beq_self_eq_true, Option.isSome_some, Bool.and_self]
  have h := proj_text0 (.slice (some ti) (some tj) none) hL hLr hok (e := e) (hl.congr (by
    simp only [Opener.toks, sliceToks, Option.toList, List.cons_append, List.nil_append, List.append_assoc]))
  have hn : Opener.node0 (.slice (some ti) (some tj) none) (erase L) = .projectArray (.slice (erase L) i j) .current := by
    simp only [Opener.node0, Opener.sliceOf, sliceNode, Option.bind_some, hi, hj, Option.bind_none, Option.getD_none,
      Option.getD_some, if_true, show ¬ ((1 : Int) < 0) by decide, if_false]
  rw [hn] at h
  refine ⟨h.1, ?_⟩
  rw [h.2 d, hx, Res.ok_bind]
  have hv : sliceVal (some ti) (some tj) none (.arr .plain xs) = slice (.arr .plain xs) i j := by
    simp only [sliceVal, Option.bind_some, hi, hj, Option.bind_none, Option.getD_none, Option.getD_some, if_true]
  simp only [Opener.sem0, hv, C12.slice_array_spec_explicit, Res.ok_bind]
  exact C01.projectArray_spec _ (fun v => v) _ (fun _ _ => rfl) |>.trans (by rw [List.map_id'])

section Examples
open Grammar.Ex
private def one : Val := .num (.int .int 1)
private def two : Val := .num (.int .int 2)
/-- `{"a": [], "b": 1, "c": [{"b": 1}, {"b": null}, 2, null], "o": {"x": {"b": 1}, "y": {}}}` -/
private def doc : Val :=
  .obj [(bs "a", .arr .plain []), (bs "b", one),
        (bs "c", .arr .plain [.obj [(bs "b", one)], .obj [(bs "b", .null)], two, .null]),
        (bs "o", .obj [(bs "x", .obj [(bs "b", one)]), (bs "y", .obj [])])]

example : search (bs "a && b") doc = .ok (.arr .plain []) :=
  ((and_text (A := idt "a") (B := idt "b") (op := op .and "&&") rfl (by decide) (by decide) (by decide) (by decide)
    (by decide)).2 doc).trans (by rfl)
example : search (bs "a || b") doc = .ok one :=
  ((or_text (A := idt "a") (B := idt "b") (op := op .or "||") rfl (by decide) (by decide) (by decide) (by decide)
    (by decide)).2 doc).trans (by rfl)
example : search (bs "!a") doc = .ok (.bool true) :=
  ((not_text (A := idt "a") (by decide) (by decide) (by decide)).2 doc).trans (by rfl)
example : search (bs "a < b") doc = .ok .null :=
  ((cmp_text (A := idt "a") (B := idt "b") (op := op .less "<") (c := .lt) rfl (by decide) (by decide) (by decide)
    (by decide) (by decide)).2 doc).trans (by rfl)
example : Parser.parse (bs "a == b") = .ok (.binop .eq (.field (bs "a")) (.field (bs "b"))) :=
  (cmp_text (A := idt "a") (B := idt "b") (op := op .equal "==") (c := .eq) rfl (by decide) (by decide) (by decide)
    (by decide) (by decide)).1
example : search (bs "let $x = b in $x") doc = .ok one :=
  ((let_text (E := idt "b") (B := .atom ⟨.variable, bs "$x"⟩) (x := ⟨.variable, bs "$x"⟩) rfl (by decide) (by decide)
    (by decide)).2 doc).trans (by rfl)
example : search (bs "b") doc = .ok one ∧ search (bs "zz") doc = .ok .null ∧ search (bs "b") one = .ok .null :=
  ⟨((field_text (k := ⟨.unquotedIdentifier, bs "b"⟩) rfl (by decide)).2 doc).trans (by rfl),
   ((field_text (k := ⟨.unquotedIdentifier, bs "zz"⟩) rfl (by decide)).2 doc).trans (by rfl),
   ((field_text (k := ⟨.unquotedIdentifier, bs "b"⟩) rfl (by decide)).2 one).trans (by rfl)⟩
example : search (bs "c[2]") doc = .ok two ∧ search (bs "c[9]") doc = .ok .null :=
  ⟨((index_text (A := idt "c") (n := int "2") (i := 2) (by decide) (by decide) rfl (by decide) (by decide)).2 doc).trans
      (by rfl),
   ((index_text (A := idt "c") (n := int "9") (i := 9) (by decide) (by decide) rfl (by decide) (by decide)).2 doc).trans
      (by rfl)⟩
/-- `c[*].b` is `[1]`: the null result, the non-object and the null element are dropped -/
example : search (bs "c[*].b") doc = .ok (.arr .plain [one]) :=
  (star_text_value (L := idt "c") (ρ := .dotId .icur (idt "b")) (by decide) (by decide)
    (rhs_dot1 ⟨by decide, by decide, by decide⟩) (by decide) doc _ (fun v => field (bs "b") v) rfl (fun _ _ => rfl)).trans
    (by rfl)
example : search (bs "o.*.b") doc = .ok (.arr .enum [one]) :=
  (ostar_text_value (L := idt "o") (ρ := .dotId .icur (idt "b")) (by decide) (by decide)
    (rhs_dot1 ⟨by decide, by decide, by decide⟩) (by decide) doc _ (fun v => field (bs "b") v) rfl (fun _ _ => rfl)).trans
    (by rfl)
example : search (bs "c[?b].b") doc = .ok (.arr .plain [one]) :=
  (filt_text_value (L := idt "c") (F := idt "b") (ρ := .dotId .icur (idt "b")) (by decide) (by decide) (by decide)
    (rhs_dot1 ⟨by decide, by decide, by decide⟩) (by decide) doc _ (fun v => field (bs "b") v) (fun v => field (bs "b") v)
    rfl (fun _ _ => rfl) (fun _ _ _ => rfl)).trans (by rfl)
example : search (bs "b[*].b") doc = .ok .null :=
  proj_text_null .star (L := idt "b") (ρ := .dotId .icur (idt "b")) (by decide) (by decide) trivial
    (rhs_dot1 ⟨by decide, by decide, by decide⟩) (by decide) doc one rfl (fun _ _ h => by cases h) (fun _ h => by cases h)
    (fun _ h => by cases h)
/-- `c[1:4]` is `[{"b": null}, 2]`: the null element at index 3 is dropped -/
example : search (bs "c[1:4]") doc = .ok (.arr .plain [.obj [(bs "b", .null)], two]) :=
  ((slice_text_value (L := idt "c") (ti := int "1") (tj := int "4") (i := 1) (j := 4) (by decide) (by decide) rfl rfl
    (by decide) (by decide) (by decide) doc _ rfl).2).trans (by rfl)
end Examples


/-! ### a wildcard after a wildcard: `x[*][*]`, `x[][*]`, `*[*]`, `*.*` (the combinations the test-suite never samples) -/

section Chained
open Grammar.Ex
private def n1 : Val := .num (.int .int 1)
private def n3 : Val := .num (.int .int 3)
/-- `{"x": [[1, null], [null], 3]}` -/
private def docx : Val := .obj [(bs "x", .arr .plain [.arr .plain [n1, .null], .arr .plain [.null], n3])]

/-- in `L[*][*]` the second `[*]` is the right-hand side of the first (for every well-formed `L`) … -/
theorem star_star_text {L : PTree} (hL : WellPrec L) (hLr : lvlBracket ≤ rlevel L) {e : Bytes}
    (hl : Lexes e (Grammar.flatten L ++ [tArrayStar] ++ [tArrayStar])) :
    Parser.parse e = .ok (.projectArray (erase L) .pruneArrayCurrent) ∧
    ∀ d xs, evaluate (erase L) d = .ok (.arr .plain xs) →
      search e d = .ok (.arr .plain ((xs.map pruneArray).filter (fun y => !y.isNull))) := by
  have hρ : Rhs (.star .icur .icur) := ⟨by decide, by decide⟩
  refine ⟨(proj_text .star hL hLr trivial hρ (hl.congr rfl)).1, fun d xs hx => ?_⟩
  exact star_text_value hL hLr hρ (hl.congr rfl) d xs pruneArray hx (fun _ _ => rfl)

/-- … so each element is pruned on its own and non-arrays are dropped: `x[*][*]` on `docx` is `[[1], []]` -/
example : search (bs "x[*][*]") docx = .ok (.arr .plain [.arr .plain [n1], .arr .plain []]) :=
  ((star_star_text (L := idt "x") (by decide) (by decide) (by decide)).2 docx _ rfl).trans (by rfl)
/-- `x[][*]`: `[*]` is the right-hand side of the flatten projection — applied to each element of the flattened
    list `[1, null, null, 3]`, none of which is an array: `[]` -/
example : Parser.parse (bs "x[][*]") = .ok (.flattenAndProject (.field (bs "x")) .pruneArrayCurrent) ∧
    search (bs "x[][*]") docx = .ok (.arr .plain []) :=
  have h := proj_text .flat (L := idt "x") (ρ := .star .icur .icur) (e := bs "x[][*]") (by decide) (by decide) trivial
    ⟨by decide, by decide⟩ (by decide)
  ⟨h.1, (h.2 docx).trans (by rfl)⟩
/-- `*[*]` and `*.*` (a leading `*`): on `{"x": [1, null], "y": 2}` the member that is not an array is dropped -/
example : Parser.parse (bs "*[*]") = .ok (.projectObjectCurrent .pruneArrayCurrent) ∧
    search (bs "*[*]") (.obj [(bs "x", .arr .plain [n1, .null]), (bs "y", n3)]) = .ok (.arr .enum [.arr .plain [n1]]) :=
  have h := text (t := .ostar .icur (.star .icur .icur)) (e := bs "*[*]") (by decide) (by decide)
  ⟨h.1, (h.2 _).trans (by rfl)⟩
example : Parser.parse (bs "*.*") = .ok (.projectObjectCurrent .objectValuesCurrent) ∧
    search (bs "*.*") (.obj [(bs "x", .obj [(bs "a", n1), (bs "b", .null)]), (bs "y", n3)])
      = .ok (.arr .enum [.arr .enum [n1]]) :=
  have h := text (t := .ostar .icur (.ostar .icur .icur)) (e := bs "*.*") (by decide) (by decide)
  ⟨h.1, (h.2 _).trans (by rfl)⟩
end Chained

end Jmes.C01B
