/-
  C04 (third part) — "every legal placement of whitespace": the lexer is insensitive to the amount and kind of
  whitespace between tokens, never skips whitespace inside a token, and ignores leading and trailing whitespace.

  Vocabulary (`Proofs/C04CLemmas.lean`, `Spec/Lexical.lean`):
  * `Ws w` — `w` is a (possibly empty) run of TAB (09), LF (0A), CR (0D), SPACE (20): the lexer's set, `ws_bytes`;
  * `TokShape ty v` — `v` is a spelling of a token of type `ty` (the lexical grammar);
  * `layout w0 [(t1, w1), …, (tk, wk)]` — the text `w0 t1 w1 t2 w2 … tk wk`;
  * `Fuses a b` — the first byte of `b` continues `a` under longest match; `Sep a b` is its negation.  `fuses_table`:
    `Fuses a b = fusesBy a b`, an explicit table by token type: word·word, word·digits, digits·digits, `$`·word,
    `<`/`>`/`=`/`!`·`=`/`==`, `|`·`|`/`||`, `&`·`&`/`&&`, `/`·`/`/`//`, `.`·`*`, `[`·`]`, `-`·digits; every other pair
    of tokens may be written without whitespace.  The only fusion of three tokens is `[` `*` `]` → `[*]` (`StarFuse`);
  * `LayoutOK l` — the tokens are well shaped, the runs are whitespace, and a run is empty only between tokens that do
    not fuse; `spacingOK l` is the (decidable) spacing part.

  (a) `lex_layout`: every admissible layout of a token list lexes to exactly that list; `lex_layout_iff`: and a text
      lexes to `ts` ONLY if it is an admissible layout of `ts` (so `Sep`/`StarFuse` are exactly the "cannot merge"
      conditions); `respace`: a text that lexes may be re-spaced at will; `layouts_agree`: two admissible layouts of the
      same tokens have the same token stream, compile to the same result and evaluate alike; `lex_unspaced`;
      `fused_pair`: two tokens that fuse, written without whitespace, are not read as these two tokens.
      With the parser: `compile_layout` — every admissible layout of the tokens of a tree of the grammar compiles, to
      the node of that tree.
  (b) `token_contiguous`, `token_not_split`, `ws_not_skipped_inside`: a token is a contiguous piece of the text;
      `delimited_keeps_ws`: quoted identifiers, raw strings and JSON literals keep the whitespace they contain;
      `split_*`: each multi-character operator written with a blank inside is two (three) tokens, not the operator;
      KF11 at the level of the parser: `kf11_*`.
  (c) `leading_ws`, `trailing_ws`, `surrounding_ws`, `compile_surrounding_ws`.
-/
import Jmes.Proofs.C04CLemmas
import Jmes.Properties.C04G
import Jmes.Properties.C04
namespace Jmes.C04C
open Jmes Jmes.Lexical Jmes.Lex Jmes.C18BLex Jmes.Grammar

/-! ## The whitespace set -/

/-- the four whitespace bytes -/
theorem ws_bytes (b : Nat) : isWsB b = true ↔ b = 0x09 ∨ b = 0x0A ∨ b = 0x0D ∨ b = 0x20 := by
  simp [isWsB, or_assoc]

/-- the lexer's whitespace test is the specification's (the lexer tests code points: none but these four bytes) -/
theorem ws_lexer_set (r : Nat) : isWsR r = isWsB r := rfl

-- vertical tab, form feed and U+00A0 NO-BREAK SPACE are not whitespace: the lexer rejects them
example : lexAll [0x61, 0x0B, 0x62] = ([⟨.unquotedIdentifier, [0x61]⟩], some (.unexpectedRune 0x0B)) := by decide
example : lexAll [0x61, 0x0C, 0x62] = ([⟨.unquotedIdentifier, [0x61]⟩], some (.unexpectedRune 0x0C)) := by decide
example : lexAll [0x61, 0xC2, 0xA0, 0x62] = ([⟨.unquotedIdentifier, [0x61]⟩], some (.unexpectedRune 0xA0)) := by decide

/-! ## (a) Insensitivity to the whitespace between tokens -/

/-- **`lex_layout`**: every admissible layout of a token list — any amount and kind of whitespace between the tokens,
    none where the neighbours do not fuse, any amount before the first and after the last token — lexes to exactly that
    token list. -/
theorem lex_layout {w0 : Bytes} {l : List (Token × Bytes)} (hw0 : Ws w0) (h : LayoutOK l) :
    lexAll (layout w0 l) = (l.map (·.1) ++ [eot], none) :=
  lexAll_layout l w0 hw0 h

/-- **`lex_layout_iff`**: a text lexes to the tokens `ts` if AND ONLY IF it is an admissible layout of `ts`: the
    conditions of `LayoutOK` (`Sep`, `StarFuse`) are exactly the "cannot merge" conditions. -/
theorem lex_layout_iff (s : Bytes) (ts : List Token) :
    lexAll s = (ts ++ [eot], none) ↔
      ∃ (w0 : Bytes) (l : List (Token × Bytes)), Ws w0 ∧ LayoutOK l ∧ l.map (·.1) = ts ∧ s = layout w0 l :=
  ⟨fun h => layout_of_lexAll s.length s (Nat.le_refl _) ts h,
   fun ⟨_, _, hw0, hl, hmap, hs⟩ => by rw [hs, ← hmap]; exact lex_layout hw0 hl⟩

/-- **`fuses_table`**: which adjacent tokens fuse, by token type -/
theorem fuses_table (a : Token) {b : Token} (hb : TokShape b.type b.value) : Fuses a b = fusesBy a b := fuses_eq a hb

/-- **`respace`**: if a text lexes to `ts`, every re-spacing of it (`spacingOK`: whitespace runs, empty only between
    tokens that do not fuse) lexes to `ts` as well -/
theorem respace {s : Bytes} {ts : List Token} (h : lexAll s = (ts ++ [eot], none)) {w0 : Bytes}
    {l : List (Token × Bytes)} (hw0 : Ws w0) (hmap : l.map (·.1) = ts) (hsp : spacingOK l = true) :
    lexAll (layout w0 l) = lexAll s := by
  rw [h, ← hmap]
  exact lex_layout hw0 ((layoutOK_iff l).2 ⟨by rw [hmap]; exact shapes_of_lexAll h, hsp⟩)

/-- **`layouts_agree`** (whitespace insensitivity): two admissible layouts of the same tokens — they differ only in the
    whitespace runs — have the same token stream, compile to the same result, and evaluate alike on every document -/
theorem layouts_agree {w0 w0' : Bytes} {l l' : List (Token × Bytes)} (hw0 : Ws w0) (hw0' : Ws w0')
    (hl : LayoutOK l) (hl' : LayoutOK l') (hmap : l.map (·.1) = l'.map (·.1)) :
    lexAll (layout w0 l) = lexAll (layout w0' l') ∧
    compile (layout w0 l) = compile (layout w0' l') ∧
    ∀ d, search (layout w0 l) d = search (layout w0' l') d := by
  have e : lexAll (layout w0 l) = lexAll (layout w0' l') := by rw [lex_layout hw0 hl, lex_layout hw0' hl', hmap]
  have p := parse_congr e
  exact ⟨e, p, fun d => by unfold search; rw [p]⟩

/-- no whitespace at all, where no neighbours fuse -/
theorem lex_unspaced {ts : List Token} (hsh : ∀ t ∈ ts, TokShape t.type t.value)
    (hsp : spacingOK (ts.map fun t => (t, [])) = true) :
    lexAll (layout [] (ts.map fun t => (t, []))) = (ts ++ [eot], none) := by
  have := lex_layout (w0 := []) (l := ts.map fun t => (t, [])) Ws.nil
    ((layoutOK_iff _).2 ⟨by simpa [List.map_map, Function.comp_def] using hsh, hsp⟩)
  simpa [List.map_map, Function.comp_def] using this

/-- **`fused_pair`**: two tokens that fuse, written without whitespace, are NOT read as these two tokens
    (so the whitespace that `LayoutOK` demands is necessary) -/
theorem fused_pair {a b : Token} (h : Fuses a b = true) : lexAll (a.value ++ b.value) ≠ ([a, b] ++ [eot], none) :=
  fused_pair_not_lexed h

/-- **`compile_layout`** (C04, "every legal placement of whitespace"): every admissible layout of the tokens of a tree
    of the grammar compiles, to the node the grammar assigns to the tree -/
theorem compile_layout {t : PTree} (h : WellPrec t) {w0 : Bytes} {l : List (Token × Bytes)} (hw0 : Ws w0)
    (hl : LayoutOK l) (hmap : l.map (·.1) = Grammar.flatten t) : compile (layout w0 l) = .ok (erase t) :=
  C04G.parse_complete h (by rw [lex_layout hw0 hl, hmap]; rfl)

/-- the same starting from an accepted text: if `e` compiles to `n`, every re-spacing of `e` compiles to `n` -/
theorem compile_respace {e : Bytes} {n : INode} (h : compile e = .ok n) :
    ∃ ts : List Token, lexAll e = (ts ++ [eot], none) ∧
      ∀ (w0 : Bytes) (l : List (Token × Bytes)), Ws w0 → l.map (·.1) = ts → spacingOK l = true →
        compile (layout w0 l) = .ok n := by
  obtain ⟨t, _, hl, _, _⟩ := C04G.parse_sound h
  refine ⟨Grammar.flatten t, hl, fun w0 l hw0 hmap hsp => ?_⟩
  have := parse_congr (respace hl hw0 hmap hsp)
  unfold compile at h ⊢
  rw [this, h]

section ExamplesA
open Grammar.Ex
def tA : Token := ⟨.unquotedIdentifier, bs "a"⟩
def tB : Token := ⟨.unquotedIdentifier, bs "b"⟩
def tDotT : Token := ⟨.dot, bs "."⟩
def tOr : Token := ⟨.or, bs "||"⟩
def tPipeT : Token := ⟨.pipe, bs "|"⟩
def tLB : Token := ⟨.openSqBrace, bs "["⟩
def tRB : Token := ⟨.closeSqBrace, bs "]"⟩
def tAst : Token := ⟨.asterisk, bs "*"⟩
def tNum (s : String) : Token := ⟨.integerLiteral, bs s⟩
def tMinus : Token := ⟨.subtract, bs "-"⟩

-- `a.b`, `a . b`, TAB/LF/CR between and around
example : lexAll (bs "a.b") = ([tA, tDotT, tB] ++ [eot], none) := by decide
example : lexAll (bs " \t a\n.\r\n b \t") = lexAll (bs "a.b") :=
  respace (s := bs "a.b") (ts := [tA, tDotT, tB]) (by decide) (w0 := bs " \t ")
    (l := [(tA, bs "\n"), (tDotT, bs "\r\n "), (tB, bs " \t")]) (by decide) rfl (by decide)
-- `a||b` needs no blank; `a | | b` is two pipes
example : lexAll (bs "a||b") = lexAll (bs "a  ||\tb") :=
  (respace (s := bs "a  ||\tb") (ts := [tA, tOr, tB]) (by decide) (w0 := [])
    (l := [(tA, []), (tOr, []), (tB, [])]) (by decide) rfl (by decide))
example : Fuses tPipeT tPipeT = true ∧ lexAll (bs "||") = ([tOr] ++ [eot], none) ∧
    lexAll (bs "| |") = ([tPipeT, tPipeT] ++ [eot], none) := by decide
-- the table on examples: fusing pairs …
example : Fuses tA tB = true ∧ Fuses tA (tNum "1") = true ∧ Fuses (tNum "1") (tNum "2") = true ∧
    Fuses tMinus (tNum "1") = true ∧ Fuses tDotT tAst = true ∧ Fuses tLB tRB = true ∧
    Fuses ⟨.root, bs "$"⟩ tA = true ∧ Fuses ⟨.less, bs "<"⟩ ⟨.assign, bs "="⟩ = true ∧
    Fuses ⟨.divide, bs "/"⟩ ⟨.divide, bs "/"⟩ = true ∧ Fuses ⟨.expression, bs "&"⟩ ⟨.expression, bs "&"⟩ = true := by
  decide
-- … and pairs that do not fuse
example : Sep tA tDotT ∧ Sep tDotT tA ∧ Sep tA tLB ∧ Sep (tNum "1") tA ∧ Sep tA (tNum "-1") ∧ Sep tLB tAst ∧
    Sep tAst tRB ∧ Sep ⟨.subtract, [0xE2, 0x88, 0x92]⟩ (tNum "1") ∧ Sep ⟨.divide, [0xC3, 0xB7]⟩ ⟨.divide, bs "/"⟩ ∧
    Sep tMinus tA ∧ Sep tA tMinus ∧ Sep tOr tPipeT := by decide
-- `1a` is `1` `a`, but `a1` is one identifier; `a-1` is `a` `-1`, `a - 1` is `a` `-` `1`
example : lexAll (bs "1a") = ([tNum "1", tA] ++ [eot], none) ∧
    lexAll (bs "a1") = ([⟨.unquotedIdentifier, bs "a1"⟩] ++ [eot], none) ∧
    lexAll (bs "a-1") = ([tA, tNum "-1"] ++ [eot], none) ∧
    lexAll (bs "a - 1") = ([tA, tMinus, tNum "1"] ++ [eot], none) := by decide
-- `fused_pair`: `a` `b` without a blank is not `a` `b`
example : lexAll (bs "ab") ≠ ([tA, tB] ++ [eot], none) := fused_pair (a := tA) (b := tB) (by decide)
-- `[` `*` `]`: only all three together fuse
example : spacingOK [(tLB, []), (tAst, []), (tRB, [])] = false ∧
    spacingOK [(tLB, bs " "), (tAst, []), (tRB, [])] = true ∧ spacingOK [(tLB, []), (tAst, bs " "), (tRB, [])] = true ∧
    spacingOK [(tLB, []), (tAst, []), (tA, [])] = true := by decide
-- `compile_layout`: `foo [ 0 ] . bar` with tabs and newlines compiles like `foo[0].bar`
def tFoo : Token := ⟨.unquotedIdentifier, bs "foo"⟩
def tBar : Token := ⟨.unquotedIdentifier, bs "bar"⟩
example : compile (bs "\tfoo [\n0 ]\r\n. bar ") = .ok (.pipe (.index (.field (bs "foo")) 0) (.field (bs "bar"))) := by
  have h : lexAll (bs "foo[0].bar") = ([tFoo, tLB, tNum "0", tRB, tDotT, tBar] ++ [eot], none) := by decide
  have hl := (layoutOK_iff [(tFoo, bs " "), (tLB, bs "\n"), (tNum "0", bs " "), (tRB, bs "\r\n"), (tDotT, bs " "),
    (tBar, bs " ")]).2 ⟨shapes_of_lexAll h, by decide⟩
  exact compile_layout (t := .dotId (.index (idt "foo") (int "0")) (idt "bar")) (by decide) (w0 := bs "\t")
    (by decide) hl (by decide)
-- `lex_layout_iff`: `a . b` is an admissible layout of `a`, `.`, `b` (and nothing else lexes to them)
example : ∃ w0 l, Ws w0 ∧ LayoutOK l ∧ l.map (·.1) = [tA, tDotT, tB] ∧ bs "a . b" = layout w0 l :=
  (lex_layout_iff _ _).1 (by decide)
-- `fuses_table` on a pair
example : Fuses tA tB = fusesBy tA tB :=
  fuses_table tA (shapes_of_lexAll (s := bs "b") (ts := [tB]) (by decide) tB (by simp))
-- `lex_unspaced`: `a.b[0]` needs no whitespace at all
example : lexAll (bs "a.b[0]") = ([tA, tDotT, tB, tLB, tNum "0", tRB] ++ [eot], none) :=
  lex_unspaced (ts := [tA, tDotT, tB, tLB, tNum "0", tRB])
    (shapes_of_lexAll (s := bs "a . b [ 0 ]") (by decide)) (by decide)
-- `compile_respace`: whatever `foo[0].bar` compiles to, so does every re-spacing
example : ∃ ts, lexAll (bs "foo[0].bar") = (ts ++ [eot], none) ∧
    ∀ w0 l, Ws w0 → l.map (·.1) = ts → spacingOK l = true →
      compile (layout w0 l) = .ok (.pipe (.index (.field (bs "foo")) 0) (.field (bs "bar"))) :=
  compile_respace (C04G.parse_complete (t := .dotId (.index (idt "foo") (int "0")) (idt "bar")) (by decide) (by decide))
end ExamplesA

/-! ## (b) Whitespace inside a token is never skipped -/

/-- **`token_contiguous`**: if a text lexes to the single token `F`, the text is `F`'s spelling between two whitespace
    runs: the bytes of a token are a contiguous piece of the text.  (For a whole text: `C04.lexAll_render`.) -/
theorem token_contiguous {s : Bytes} {F : Token} (h : lexAll s = ([F] ++ [eot], none)) :
    ∃ w0 w1, Ws w0 ∧ Ws w1 ∧ TokShape F.type F.value ∧ s = w0 ++ F.value ++ w1 :=
  single_token_text h

/-- **`ws_not_skipped_inside`**: cut the spelling of ANY token `F` into two non-empty pieces and put a non-empty
    whitespace run between them: the result does not lex to `F`.  (`token_not_split`: the same for any inserted bytes.) -/
theorem ws_not_skipped_inside {F : Token} {x y w : Bytes} (hx : x ≠ []) (hy : y ≠ []) (hv : F.value = x ++ y)
    (hne : w ≠ []) : lexAll (x ++ w ++ y) ≠ ([F] ++ [eot], none) :=
  token_not_split hx hy hv hne

/-- **`delimited_keeps_ws`**: a quoted identifier, a raw string or a JSON literal is one token whose value is the
    whole delimited text, whitespace included (`TokShape` for these types allows any code points between the
    delimiters).  Stated for every token type `ty`: a spelling of a token, alone, lexes to that token. -/
theorem delimited_keeps_ws {ty : TokenType} {v : Bytes} (h : TokShape ty v) :
    lexAll v = ([⟨ty, v⟩] ++ [eot], none) := by
  have := lex_layout (w0 := []) (l := [(⟨ty, v⟩, [])]) Ws.nil (by simp [LayoutOK, h, Ws.nil])
  simpa [layout] using this

section ExamplesB
open Grammar.Ex
-- `'a  b'` is one token with both blanks; `'a b'` is a different token
example : lexAll (bs "'a  b'") = ([⟨.stringLiteral, bs "'a  b'"⟩] ++ [eot], none) ∧
    lexAll (bs "'a b'") = ([⟨.stringLiteral, bs "'a b'"⟩] ++ [eot], none) ∧
    lexAll (bs "\"a\tb\"") = ([⟨.quotedIdentifier, bs "\"a\tb\""⟩] ++ [eot], none) ∧
    lexAll (bs "`[1, 2]`") = ([⟨.jsonLiteral, bs "`[1, 2]`"⟩] ++ [eot], none) := by decide
example : lexAll (bs "<" ++ bs " " ++ bs "=") ≠ ([⟨.lessOrEqual, bs "<="⟩] ++ [eot], none) :=
  ws_not_skipped_inside (F := ⟨.lessOrEqual, bs "<="⟩) (by decide) (by decide) rfl (by decide)

-- `token_contiguous`: ` 'a b'\t` is the raw string between a blank and a tab
example : ∃ w0 w1, Ws w0 ∧ Ws w1 ∧ TokShape .stringLiteral (bs "'a b'") ∧ bs " 'a b'\t" = w0 ++ bs "'a b'" ++ w1 :=
  token_contiguous (F := ⟨.stringLiteral, bs "'a b'"⟩) (by decide)
-- `delimited_keeps_ws`, from the shape alone
example (v : Bytes) (h : TokShape .stringLiteral v) : lexAll v = ([⟨.stringLiteral, v⟩] ++ [eot], none) :=
  delimited_keeps_ws h

/-- every multi-character token, written with a blank inside, is not that token: `[ * ]`, `[* ]`, `[ *]` are `[` `*`
    `]` (KF11), `[ ?` is `[` then an error (`?` starts no token), `[ ]` is `[` `]`, `. *` is `.` `*` -/
theorem split_brackets :
    lexAll (bs "[*]") = ([⟨.arrayWildcard, bs "[*]"⟩] ++ [eot], none) ∧
    lexAll (bs "[ * ]") = ([tLB, tAst, tRB] ++ [eot], none) ∧
    lexAll (bs "[* ]") = ([tLB, tAst, tRB] ++ [eot], none) ∧
    lexAll (bs "[ *]") = ([tLB, tAst, tRB] ++ [eot], none) ∧
    lexAll (bs "[]") = ([⟨.flatten, bs "[]"⟩] ++ [eot], none) ∧
    lexAll (bs "[ ]") = ([tLB, tRB] ++ [eot], none) ∧
    lexAll (bs "[?") = ([⟨.filter, bs "[?"⟩] ++ [eot], none) ∧
    lexAll (bs "[ ?") = ([tLB], some (.unexpectedRune 0x3F)) ∧
    lexAll (bs ".*") = ([⟨.objectWildcard, bs ".*"⟩] ++ [eot], none) ∧
    lexAll (bs ". *") = ([tDotT, tAst] ++ [eot], none) := by decide

/-- `| |`, `& &`, `= =`, `! =`, `< =`, `> =`, `/ /`, `- 1`, `$ x`, `le t`, `1 2` -/
theorem split_operators :
    lexAll (bs "| |") = ([tPipeT, tPipeT] ++ [eot], none) ∧
    lexAll (bs "& &") = ([⟨.expression, bs "&"⟩, ⟨.expression, bs "&"⟩] ++ [eot], none) ∧
    lexAll (bs "= =") = ([⟨.assign, bs "="⟩, ⟨.assign, bs "="⟩] ++ [eot], none) ∧
    lexAll (bs "! =") = ([⟨.not, bs "!"⟩, ⟨.assign, bs "="⟩] ++ [eot], none) ∧
    lexAll (bs "< =") = ([⟨.less, bs "<"⟩, ⟨.assign, bs "="⟩] ++ [eot], none) ∧
    lexAll (bs "> =") = ([⟨.greater, bs ">"⟩, ⟨.assign, bs "="⟩] ++ [eot], none) ∧
    lexAll (bs "/ /") = ([⟨.divide, bs "/"⟩, ⟨.divide, bs "/"⟩] ++ [eot], none) ∧
    lexAll (bs "- 1") = ([tMinus, tNum "1"] ++ [eot], none) ∧
    lexAll (bs "$ x") = ([⟨.root, bs "$"⟩, ⟨.unquotedIdentifier, bs "x"⟩] ++ [eot], none) ∧
    lexAll (bs "le t") = ([⟨.unquotedIdentifier, bs "le"⟩, ⟨.unquotedIdentifier, bs "t"⟩] ++ [eot], none) ∧
    lexAll (bs "1 2") = ([tNum "1", tNum "2"] ++ [eot], none) := by decide

/-- KF11 at the level of `compile`: `foo[*]` compiles, `foo[ * ]`, `foo[* ]`, `foo[ *]` and `foo. *` are syntax errors
    (whitespace inside `[*]` / `.*` is not skipped, and `[` `*` `]` is not a bracket specifier), while whitespace
    AROUND the fused tokens is fine: `foo [*]`, `foo .*` -/
theorem kf11_errors :
    compile (bs "foo[ * ]") = .error .unexpectedToken ∧ compile (bs "foo[* ]") = .error .unexpectedToken ∧
    compile (bs "foo[ *]") = .error .unexpectedToken ∧ compile (bs "foo. *") = .error .unexpectedToken :=
  ⟨C04.errorOf_eq (by decide +kernel), C04.errorOf_eq (by decide +kernel), C04.errorOf_eq (by decide +kernel),
   C04.errorOf_eq (by decide +kernel)⟩
theorem kf11_ok :
    compile (bs "foo[*]") = .ok (.pruneArray (.field (bs "foo"))) ∧
    compile (bs "foo [*]") = .ok (.pruneArray (.field (bs "foo"))) ∧
    compile (bs "foo .*") = .ok (.objectValues (.field (bs "foo"))) :=
  ⟨C04G.parse_complete (t := .star (idt "foo") .icur) (by decide) (by decide),
   C04G.parse_complete (t := .star (idt "foo") .icur) (by decide) (by decide),
   C04G.parse_complete (t := .ostar (idt "foo") .icur) (by decide) (by decide)⟩
/-- a leading `[ * ]` compiles — as the multi-select list of the object wildcard `*`, not as the array wildcard -/
theorem kf11_leading :
    compile (bs "[ * ]") = .ok (.selectArraySingleCurrent .objectValuesCurrent) ∧
    compile (bs "[*]") = .ok .pruneArrayCurrent :=
  ⟨C04G.parse_complete (t := .multiList [.ostar .icur .icur]) (by decide) (by decide),
   C04G.parse_complete (t := .star .icur .icur) (by decide) (by decide)⟩
end ExamplesB

/-! ## (c) Leading and trailing whitespace -/

/-- leading whitespace is ignored, whatever follows (even when the rest does not lex) -/
theorem leading_ws {w : Bytes} (hw : Ws w) (s : Bytes) :
    lexAll (w ++ s) = lexAll s ∧ compile (w ++ s) = compile s ∧ ∀ d, search (w ++ s) d = search s d := by
  have e := lexAll_ws hw s
  have p := parse_congr e
  exact ⟨e, p, fun d => by unfold search; rw [p]⟩

/-- trailing whitespace after a text that lexes is ignored -/
theorem trailing_ws {s : Bytes} {ts : List Token} (h : lexAll s = (ts ++ [eot], none)) {w : Bytes} (hw : Ws w) :
    lexAll (s ++ w) = lexAll s := by
  rw [lexAll_trailing_ws h hw, h]

/-- **`surrounding_ws`**: whitespace before and after a text that lexes changes neither the tokens, nor the result of
    compiling, nor the value on any document -/
theorem surrounding_ws {s : Bytes} {ts : List Token} (h : lexAll s = (ts ++ [eot], none)) {w w' : Bytes}
    (hw : Ws w) (hw' : Ws w') :
    lexAll (w ++ s ++ w') = lexAll s ∧ compile (w ++ s ++ w') = compile s ∧
      ∀ d, search (w ++ s ++ w') d = search s d := by
  have e : lexAll (w ++ s ++ w') = lexAll s := by
    rw [List.append_assoc, lexAll_ws hw, trailing_ws h hw']
  have p := parse_congr e
  exact ⟨e, p, fun d => by unfold search; rw [p]⟩

/-- whatever compiles, compiles to the same node with whitespace around it -/
theorem compile_surrounding_ws {s : Bytes} {n : INode} (h : compile s = .ok n) {w w' : Bytes} (hw : Ws w)
    (hw' : Ws w') : compile (w ++ s ++ w') = .ok n := by
  obtain ⟨t, _, hl, _, _⟩ := C04G.parse_sound h
  rw [(surrounding_ws hl hw hw').2.1, h]

section ExamplesC
open Grammar.Ex
example : lexAll (bs " \t\r\n" ++ bs "a.b" ++ bs "\n\n ") = lexAll (bs "a.b") :=
  (surrounding_ws (s := bs "a.b") (ts := [tA, tDotT, tB]) (by decide) (by decide) (by decide)).1
example (d : Val) : search (bs "  " ++ bs "a.b" ++ bs "\t") d = search (bs "a.b") d :=
  (surrounding_ws (s := bs "a.b") (ts := [tA, tDotT, tB]) (by decide) (by decide) (by decide)).2.2 d
-- leading whitespace before something that does not lex: still the same (failing) result
example : lexAll (bs "  " ++ bs "#") = lexAll (bs "#") := (leading_ws (by decide) _).1
-- whitespace only: the empty token stream (which does not compile)
example : lexAll (bs " \t ") = ([eot], none) := lexAll_ws_only (by decide)
example : lexAll (bs "a.b" ++ bs "\r\n") = lexAll (bs "a.b") :=
  trailing_ws (ts := [tA, tDotT, tB]) (by decide) (by decide)
example : compile (bs "\n" ++ bs "a.b" ++ bs "  ") = .ok (.pipe (.field (bs "a")) (.field (bs "b"))) :=
  compile_surrounding_ws (C04G.parse_complete (t := .dotId (idt "a") (idt "b")) (by decide) (by decide)) (by decide)
    (by decide)
end ExamplesC

end Jmes.C04C
