/-
  C01 (fourth wave) — the reference semantics `Sem` of the third wave (`Proofs/C01CSem.lean`, `C01C.search_eq_Sem`)
  against the specification, clause by clause where the two could be read differently.

  1. **`SemSpec`** — `Sem` with the null rule of multi-select as the specification words it ("a multi-select evaluated on
     null is null", whatever the member count) — and **`search_eq_SemSpec`**:
         `WellPrec t ∧ lexAll e = flatten t ++ [end] ∧ NoMultiSelectOnNull t d  ⟹  search e d = SemSpec t d d []`
     where `NoMultiSelectOnNull t d` is a RUN-TIME predicate (in the run of `t` on `d`, no one-member multi-select
     without an explicit left operand is evaluated on a null current node).  `search_eq_SemSpec_syntactic`: the
     syntactic sufficient condition `noForm bareSingle t` (no such multi-select occurs in `t`).  The same against
     `SemPipe`, the reading suggested by the compliance corpus (`search_eq_SemPipe`).  Where the semantics differ:
     `Sem_ne_SemSpec_*`, `multiList_differs_iff`.
  2. the slice clauses missing from `C01C.Sem_wrong_type_null`: `Sem_slice_wrong_type_null`, `Sem_slice_string`.
  3. **Decisions**: the clauses of `Sem` that follow the Go program where a reader of the JMESPath specification might
     expect something else, each as a theorem with an example on expression text and the observed behaviour of the Go
     program (`decision_*`).
  4. **Leading bracket forms** (`[*]ρ`, `[]ρ`, `[?c]ρ`, `[a:b:c]ρ`, `*ρ` with NO left operand) on text: at the start of
     an expression, after a pipe, in parentheses (`lead_text`, `lead_after_pipe_text`, `lead_paren_text`), with the
     value on arrays (`lead_*_value`): nulls are dropped by every one of them, a leading bare slice included.
-/
import Jmes.Proofs.C01ELemmas
import Jmes.Properties.C01C
import Jmes.Properties.C12B
set_option linter.unusedSimpArgs false
namespace Jmes.C01E
open Jmes Jmes.Grammar Jmes.Spec Jmes.Pratt Jmes.C01C

/-! ## 1. `SemSpec`: the null rule of the specification -/

/-- **`SemSpec t root cur env`**: the semantics of `Proofs/C01CSem.lean` with ONE change — a multi-select (list, hash,
    `.[*]`) evaluated on `null` is `null`, whatever the number of its members and whether or not it has a left operand.
    (`SemP`, `Proofs/C01ELemmas.lean`, is `Sem` with the null rule as a parameter; `Sem = SemP goRule`.)  Note that the
    compliance corpus (pipe.json) pins `` `null` | [@] `` to `[null]`: `SemSpec` follows the sentence of the
    specification, not that corpus entry; `SemPipe` below follows the corpus entry. -/
def SemSpec (t : PTree) (root cur : Val) (env : Env) : Res Val := SemP specRule t root cur env

/-- **`SemPipe`**: the other candidate reading — a multi-select is null only through a LEFT OPERAND that is null
    (`l.[…]`, and `.[…]` applied to a null element in a right-hand side); written without a left operand (`[…]`, `{…}`)
    it evaluates its members on the current node even when that is null.  This is what pipe.json suggests
    (`` `null` | [@] `` = `[null]`, `` `null` | {foo: @} `` = `{"foo": null}`) when extended to every member count. -/
def SemPipe (t : PTree) (root cur : Val) (env : Env) : Res Val := SemP pipeRule t root cur env

theorem SemPL_eq_map (rule : NullRule) (root : Val) (env : Env) : ∀ es : List PTree,
    SemPL rule es root env = es.map fun e x => SemP rule e root x env
  | [] => rfl
  | e :: es => by simp only [SemPL, List.map_cons, SemPL_eq_map rule root env es]

theorem SemPKVs_eq_map (rule : NullRule) (key : Token → Bytes) (root cur : Val) (env : Env) : ∀ kvs : List (Token × PTree),
    SemPKVs rule key kvs root cur env = kvs.map fun kv => (key kv.1, SemP rule kv.2 root cur env)
  | [] => rfl
  | (k, e) :: kvs => by simp only [SemPKVs, List.map_cons, SemPKVs_eq_map rule key root cur env kvs]

/-- the multi-select arms of `SemSpec`, spelled out: **null on null**, else the members in order -/
theorem SemSpec_multiList (es : List PTree) (root cur : Val) (env : Env) :
    SemSpec (.multiList es) root cur env =
      if cur.isNull then .ok .null
      else inOrder (es.map fun e => SemSpec e root cur env) >>= fun vs => .ok (.arr .plain vs) := by
  simp only [SemSpec, SemP, specRule, Bool.and_true, SemPL_eq_map, List.map_map, Function.comp_def]

theorem SemSpec_dotList (l : PTree) (es : List PTree) (root cur : Val) (env : Env) :
    SemSpec (.dotList l es) root cur env =
      (SemSpec l root cur env >>= fun a =>
        if a.isNull then .ok .null
        else inOrder (es.map fun e => SemSpec e root a env) >>= fun vs => .ok (.arr .plain vs)) := by
  simp only [SemSpec, SemP, specRule, Bool.and_true, SemPL_eq_map, List.map_map, Function.comp_def]

theorem SemSpec_multiHash (kvs : List (Token × PTree)) (root cur : Val) (env : Env) :
    SemSpec (.multiHash kvs) root cur env =
      if cur.isNull then .ok .null
      else anyOrder (byKey (kvs.map fun kv => (keyOf kv.1, SemSpec kv.2 root cur env))) >>= fun ms => .ok (.obj ms) := by
  simp only [SemSpec, SemP, specRule, Bool.and_true, SemPKVs_eq_map]

theorem SemSpec_dotHash (l : PTree) (kvs : List (Token × PTree)) (root cur : Val) (env : Env) :
    SemSpec (.dotHash l kvs) root cur env =
      (SemSpec l root cur env >>= fun a =>
        if a.isNull then .ok .null
        else anyOrder (byKey (kvs.map fun kv => (keyOf kv.1, SemSpec kv.2 root a env))) >>= fun ms => .ok (.obj ms)) := by
  simp only [SemSpec, SemP, specRule, Bool.and_true, SemPKVs_eq_map]

theorem SemSpec_dotStarList (l : PTree) (root cur : Val) (env : Env) :
    SemSpec (.dotStarList l) root cur env =
      (SemSpec l root cur env >>= fun a => if a.isNull then .ok .null else .ok (.arr .plain [valuesOf a])) := by
  simp only [SemSpec, SemP, specRule, Bool.and_true]

/-- `[a]`, `[a, b]`, `{k: a}` on null: null, all three -/
example : SemSpec (.multiList [ident [0x61]]) .null .null [] = .ok .null := rfl
example : SemSpec (.multiList [ident [0x61], ident [0x62]]) .null .null [] = .ok .null := rfl
example : SemSpec (.multiHash [(⟨.unquotedIdentifier, [0x6B]⟩, ident [0x61])]) .null .null [] = .ok .null := rfl
/-- on a non-null node: the members -/
example : SemSpec (.multiList [ident [0x61]]) .null (.obj [([0x61], .bool true)]) [] = .ok (.arr .plain [.bool true]) := rfl
/-- `SemPipe`: `[a]` and `[a, b]` on null are `[null]` and `[null, null]`; `@.[a]` on null is null -/
example : SemPipe (.multiList [ident [0x61]]) .null .null [] = .ok (.arr .plain [.null]) := rfl
example : SemPipe (.multiList [ident [0x61], ident [0x62]]) .null .null [] = .ok (.arr .plain [.null, .null]) := rfl
example : SemPipe (.dotList (.atom ⟨.current, [0x40]⟩) [ident [0x61]]) .null .null [] = .ok .null := rfl

/-- **`Sem` is `SemP` at the rule of the Go program** -/
theorem Sem_eq_SemP_go (t : PTree) (root cur : Val) (env : Env) : Sem t root cur env = SemP goRule t root cur env :=
  Sem_eq_SemP_goRule root t cur env

/-- the (form, member count) pairs on which the Go rule and the rule of the specification disagree: ONE member, NO
    explicit left operand — `[e]`, `{k: e}`; `.[e]`, `.{k: e}`, `.[*]` at the start of a right-hand side -/
def bareSingle : MSForm → Nat → Bool
  | .dot, _ => false
  | _, n => n == 1

/-- … and on which the Go rule and the corpus reading disagree: `[e, e', …]` / `{k: e, k': e', …}` with two or more
    members (Go: null; reading: the members on null), and the one-member `.[e]`, `.{k: e}`, `.[*]` at the start of a
    right-hand side (Go: the member on null; reading: null, the element being the left operand) -/
def pipeDiff : MSForm → Nat → Bool
  | .bare, n => !(n == 1)
  | .rhsDot, n => n == 1
  | .dot, _ => false

theorem goRule_specRule (f : MSForm) (n : Nat) (h : bareSingle f n = false) : goRule f n = specRule f n := by
  cases f <;> simp only [bareSingle, goRule, specRule] at h ⊢ <;> simp only [h, Bool.not_false]

theorem goRule_pipeRule (f : MSForm) (n : Nat) (h : pipeDiff f n = false) : goRule f n = pipeRule f n := by
  cases f <;> simp only [pipeDiff, goRule, pipeRule, Bool.not_eq_false'] at h ⊢ <;> simp only [h, Bool.not_false, Bool.not_true]

/-- **`NoMS t root cur env`**: in the run of `t` on the current node `cur`, no ONE-MEMBER multi-select WITHOUT an
    explicit left operand is evaluated on a `null` current node (`NoMSP`, `Proofs/C01ELemmas.lean`, follows the run:
    right side of `|` / `.` on the value of the left side, right side of `||` / `&&` only when it is evaluated,
    right-hand sides on the projected elements, members of a multi-select only when they are evaluated, `&e` on the
    elements of the array it is applied to). -/
def NoMS (t : PTree) (root cur : Val) (env : Env) : Prop := NoMSP goRule specRule t root cur env

/-- **`NoMultiSelectOnNull t d`**: the run of the expression `t` on the document `d` meets no one-member multi-select
    without left operand on `null` -/
def NoMultiSelectOnNull (t : PTree) (d : Val) : Prop := NoMS t d d []

/-- the predicate at a multi-select list, spelled out: on `null`, it must not be the one-member form; otherwise its
    members are looked at -/
theorem NoMS_multiList (es : List PTree) (root cur : Val) (env : Env) :
    NoMS (.multiList es) root cur env ↔
      (if cur.isNull then es.length ≠ 1 else ∀ e ∈ es, NoMS e root cur env) := by
  have hL : ∀ es : List PTree, (∀ p ∈ NoMSPL goRule specRule es root env, p cur) ↔ ∀ e ∈ es, NoMS e root cur env := by
    intro es
    induction es with
    | nil => simp only [NoMSPL, List.not_mem_nil, false_imp_iff, implies_true]
    | cons e es ih => simp only [NoMSPL, List.mem_cons, forall_eq_or_imp, ih, NoMS]
  simp only [NoMS, NoMSP, msOK, goRule, specRule, Bool.and_true, hL]
  cases hn : cur.isNull
  · simp only [Bool.false_eq_true, false_imp_iff, true_and, true_imp_iff, if_false, NoMS]
  · simp only [true_imp_iff, Bool.true_eq_false, false_imp_iff, and_true, if_true, Bool.not_eq_true', beq_eq_false_iff_ne]

example : NoMS (.multiList [ident [0x61]]) .null (.bool true) [] := (NoMS_multiList _ _ _ _).2 (by
  simp only [Val.isNull, Bool.false_eq_true, if_false, List.mem_cons, List.not_mem_nil, or_false, forall_eq]; trivial)
example : ¬ NoMS (.multiList [ident [0x61]]) .null .null [] := fun h => ((NoMS_multiList _ _ _ _).1 h) rfl

/-- **General form**: on every run that meets no one-member multi-select without left operand on `null`, `Sem` and
    `SemSpec` give the same outcome — any tree, any current node, any bindings -/
theorem Sem_eq_SemSpec (t : PTree) (root cur : Val) (env : Env) (h : NoMS t root cur env) :
    Sem t root cur env = SemSpec t root cur env := by
  rw [Sem_eq_SemP_go]
  exact SemP_congr goRule specRule root t cur env h

/-- **`search_eq_SemSpec`**: for every well-formed tree `t` of the grammar, every expression `e` whose tokens are the
    printing of `t`, and every document `d` such that the run of `t` on `d` evaluates no one-member multi-select without
    left operand on `null`: `search e d` is `SemSpec t d d []`, the semantics with the null rule of the specification
    (equality of outcomes: value, error categories, `.nondet`). -/
theorem search_eq_SemSpec {t : PTree} (h : WellPrec t) {e : Bytes}
    (hl : lexAll e = (Grammar.flatten t ++ [endTok], none)) (d : Val) (hn : NoMultiSelectOnNull t d) :
    search e d = SemSpec t d d [] := by
  rw [search_eq_Sem h hl d]
  exact Sem_eq_SemSpec t d d [] hn

/-- the syntactic condition is sufficient, on every document -/
theorem NoMS_of_syntactic {t : PTree} (hs : noForm bareSingle t = true) (root cur : Val) (env : Env) :
    NoMS t root cur env :=
  noForm_NoMSP goRule specRule bareSingle goRule_specRule root t hs cur env

/-- **`search_eq_SemSpec_syntactic`**: an expression in which no one-member multi-select without left operand OCCURS
    (a decidable condition on the tree) has the search result `SemSpec` assigns, on EVERY document. -/
theorem search_eq_SemSpec_syntactic {t : PTree} (h : WellPrec t) {e : Bytes}
    (hl : lexAll e = (Grammar.flatten t ++ [endTok], none)) (hs : noForm bareSingle t = true) (d : Val) :
    search e d = SemSpec t d d [] :=
  search_eq_SemSpec h hl d (NoMS_of_syntactic hs d d [])

/-- the same, starting from an expression that compiles -/
theorem search_spec_SemSpec {e : Bytes} {n : INode} (h : compile e = .ok n) :
    ∃ t : PTree, WellPrec t ∧ lexAll e = (Grammar.flatten t ++ [endTok], none) ∧
      ∀ d, NoMultiSelectOnNull t d → search e d = SemSpec t d d [] := by
  obtain ⟨t, hw, hl, _, _⟩ := C04G.parse_sound (e := e) (n := n) h
  exact ⟨t, hw, hl, fun d hn => search_eq_SemSpec hw hl d hn⟩

/-- **against the corpus reading**: on every run that evaluates on `null` neither a multi-select `[…]` / `{…}` with two
    or more members nor a one-member `.[…]` / `.{…}` / `.[*]` at the start of a right-hand side, `search` is `SemPipe` -/
theorem search_eq_SemPipe {t : PTree} (h : WellPrec t) {e : Bytes}
    (hl : lexAll e = (Grammar.flatten t ++ [endTok], none)) (d : Val) (hn : NoMSP goRule pipeRule t d d []) :
    search e d = SemPipe t d d [] := by
  rw [search_eq_Sem h hl d, Sem_eq_SemP_go]
  exact SemP_congr goRule pipeRule d t d [] hn

theorem search_eq_SemPipe_syntactic {t : PTree} (h : WellPrec t) {e : Bytes}
    (hl : lexAll e = (Grammar.flatten t ++ [endTok], none)) (hs : noForm pipeDiff t = true) (d : Val) :
    search e d = SemPipe t d d [] :=
  search_eq_SemPipe h hl d (noForm_NoMSP goRule pipeRule pipeDiff goRule_pipeRule d t hs d [])

namespace Ex
open Jmes.Grammar.Ex

/-- `foo[*].[a, b]` contains no one-member multi-select: `SemSpec` on every document -/
def t1 : PTree := .star (idt "foo") (.dotList .icur [idt "a", idt "b"])
example : ∀ d, search (bs "foo[*].[a, b]") d = SemSpec t1 d d [] :=
  search_eq_SemSpec_syntactic (t := t1) (by decide) (by decide) (by decide)
/-- `foo.[a]` has a left operand: no condition either -/
def t2 : PTree := .dotList (idt "foo") [idt "a"]
example : ∀ d, search (bs "foo.[a]") d = SemSpec t2 d d [] :=
  search_eq_SemSpec_syntactic (t := t2) (by decide) (by decide) (by decide)
/-- `foo | [a]` contains one: the run-time condition.  On `{"foo": {"a": 1}}` the multi-select meets a non-null node -/
def t3 : PTree := .bin (op .pipe "|") (idt "foo") (.multiList [idt "a"])
example : search (bs "foo | [a]") (.obj [(bs "foo", .obj [(bs "a", .bool true)])]) =
    SemSpec t3 (.obj [(bs "foo", .obj [(bs "a", .bool true)])]) (.obj [(bs "foo", .obj [(bs "a", .bool true)])]) [] :=
  search_eq_SemSpec (t := t3) (by decide) (by decide) _ (by
    refine ⟨trivial, fun a ha => ?_⟩
    cases ha
    show NoMS (.multiList [idt "a"]) _ _ []
    rw [NoMS_multiList]
    intro e _
    simp only [List.mem_cons, List.not_mem_nil, or_false] at *
    subst_vars; trivial)
/-- … on `{}` it meets `null`: the condition fails, and indeed `search` gives `[null]` where `SemSpec` gives `null` -/
example : search (bs "foo | [a]") (.obj []) = .ok (.arr .plain [.null]) := by
  rw [search_eq_Sem (t := t3) (by decide) (by decide)]; rfl
example : SemSpec t3 (.obj []) (.obj []) [] = .ok .null := rfl
example : ¬ NoMultiSelectOnNull t3 (.obj []) := fun h => by
  have := (h.2 .null rfl).1 rfl
  exact absurd this (by decide)
/-- `[a, b]` contains no one-member form, but a two-member bare one: `SemSpec` everywhere, `SemPipe` not on null -/
def t4 : PTree := .multiList [idt "a", idt "b"]
example : ∀ d, search (bs "[a, b]") d = SemSpec t4 d d [] :=
  search_eq_SemSpec_syntactic (t := t4) (by decide) (by decide) (by decide)
example : search (bs "[a, b]") .null = .ok .null ∧ SemPipe t4 .null .null [] = .ok (.arr .plain [.null, .null]) :=
  ⟨by rw [search_eq_Sem (t := t4) (by decide) (by decide)]; rfl, rfl⟩
/-- `[a]`: `SemPipe` on every document -/
example : ∀ d, search (bs "[a]") d = SemPipe (.multiList [idt "a"]) d d [] :=
  search_eq_SemPipe_syntactic (t := .multiList [idt "a"]) (by decide) (by decide) (by decide)
end Ex

/-! ### Where `Sem` and `SemSpec` differ -/

/-- a multi-select list evaluated by the one-member rule of `Sem` never yields `null`: a one-element array or a failure -/
theorem wrap_ne_null (r : Res Val) : (r >>= fun v => Res.ok (Val.arr .plain [v])) ≠ .ok .null := by
  cases r <;> intro h <;> cases h

/-- **at every one-member multi-select list without left operand evaluated on `null`, the two semantics differ**:
    `Sem` gives `[v]` (or the failure of the member), `SemSpec` gives `null` -/
theorem Sem_ne_SemSpec_multiList (e : PTree) (root : Val) (env : Env) :
    Sem (.multiList [e]) root .null env ≠ SemSpec (.multiList [e]) root .null env := by
  rw [(Sem_multiList_null_rule e e [] root env).2.1]
  exact wrap_ne_null _

/-- … the same for the one-member hash `{k: e}` -/
theorem Sem_ne_SemSpec_multiHash (k : Token) (e : PTree) (root : Val) (env : Env) :
    Sem (.multiHash [(k, e)]) root .null env ≠ SemSpec (.multiHash [(k, e)]) root .null env := by
  have : Sem (.multiHash [(k, e)]) root .null env =
      (Sem e root .null env >>= fun v => .ok (.obj [(keyOf k, v)])) := by
    simp only [Sem, SemKVs, List.length_cons, List.length_nil, Nat.zero_add, beq_self_eq_true, Bool.not_true,
      Bool.and_false, Bool.false_eq_true, if_false, byKey, List.foldl_cons, List.foldl_nil, insertLast, anyOrder_single,
      Res.bind_assoc, Res.ok_bind]
  rw [this]
  cases Sem e root .null env <;> intro h <;> cases h

/-- … and in a right-hand side, on a null element: `.[e]` and `.[*]` -/
theorem Sem_ne_SemSpec_rhs (e : PTree) (root : Val) (env : Env) :
    Sem (.dotList .icur [e]) root .null env ≠ SemSpec (.dotList .icur [e]) root .null env ∧
    Sem (.dotStarList .icur) root .null env ≠ SemSpec (.dotStarList .icur) root .null env := by
  refine ⟨?_, fun h => by cases h⟩
  have : Sem (.dotList .icur [e]) root .null env = (Sem e root .null env >>= fun v => .ok (.arr .plain [v])) := by
    simp only [Sem, SemL, Res.ok_bind, PTree.isIcur, List.length_cons, List.length_nil, Nat.zero_add, beq_self_eq_true,
      Bool.and_self, Bool.not_true, Bool.and_false, Bool.false_eq_true, if_false, List.map_cons, List.map_nil,
      inOrder_cons, inOrder_nil, Res.bind_assoc]
  rw [this]
  exact wrap_ne_null _

/-- **the exact set, at one node**: a multi-select list whose members mean the same in both semantics has different
    outcomes in the two exactly when it is evaluated on `null` and has exactly one member -/
theorem multiList_differs_iff (es : List PTree) (root cur : Val) (env : Env)
    (hm : ∀ e ∈ es, Sem e root cur env = SemSpec e root cur env) :
    Sem (.multiList es) root cur env ≠ SemSpec (.multiList es) root cur env ↔ (cur.isNull = true ∧ es.length = 1) := by
  have hmap : (SemL es root env).map (· cur) = (SemPL specRule es root env).map (· cur) := by
    induction es with
    | nil => rfl
    | cons e es ih =>
      simp only [SemL, SemPL, List.map_cons, ih fun e he => hm e (List.mem_cons_of_mem _ he)]
      congr 1
      exact hm e List.mem_cons_self
  constructor
  · intro h
    cases hn : cur.isNull
    · exact absurd (by simp only [Sem, SemSpec, SemP, hn, Bool.false_and, Bool.false_eq_true, if_false, hmap]) h
    · refine ⟨rfl, ?_⟩
      cases h1 : es.length == 1
      · exact absurd (by simp only [Sem, SemSpec, SemP, hn, h1, specRule, Bool.not_false, Bool.and_self, if_true]) h
      · simpa using h1
  · rintro ⟨hn, h1⟩
    obtain ⟨e, rfl⟩ : ∃ e, es = [e] := by
      match es, h1 with
      | [e], _ => exact ⟨e, rfl⟩
    cases cur <;> first | exact Sem_ne_SemSpec_multiList e root env | cases hn

example : Sem (.multiList [ident [0x61]]) .null .null [] = .ok (.arr .plain [.null]) ∧
    SemSpec (.multiList [ident [0x61]]) .null .null [] = .ok .null := ⟨rfl, rfl⟩
example : Sem (.multiHash [(⟨.unquotedIdentifier, [0x6B]⟩, ident [0x61])]) .null .null [] = .ok (.obj [([0x6B], .null)]) := rfl

/-! ## 2. Slices of wrongly-typed values (the conjunct missing from `C01C.Sem_wrong_type_null`) -/

/-- **a slice of anything that is neither an array nor a string is null** (whatever follows it) -/
theorem Sem_slice_wrong_type_null (L R : PTree) (a b : Option Token) (c : Option (Option Token)) (root cur : Val)
    (env : Env) (v : Val) (hL : Sem L root cur env = .ok v) (h1 : ∀ t xs, v ≠ .arr t xs) (h2 : ∀ s, v ≠ .str s) :
    Sem (.slice L a b c R) root cur env = .ok .null := by
  cases v <;> first
    | exact absurd rfl (h1 _ _)
    | exact absurd rfl (h2 _)
    | simp only [Sem, hL, Res.ok_bind, sliceOf]

example : Sem (.slice .icur (some (Ex.int "1")) none none .icur) .null (.obj [([0x61], .null)]) [] = .ok .null :=
  Sem_slice_wrong_type_null .icur .icur _ _ _ _ _ _ _ rfl (fun _ _ h => by cases h) (fun _ h => by cases h)
example : Sem (.slice .icur (some (Ex.int "1")) none none .icur) .null (.bool true) [] = .ok .null := rfl

/-- the model's slice of a string is a string -/
theorem modelSlice_str (s : Bytes) (a b : Option Int) (step : Int) : ∃ s', modelSlice (.str s) a b step = .ok (.str s') := by
  unfold modelSlice
  split
  · simp only [slice]; split <;> exact ⟨_, rfl⟩
  · simp only [sliceStep]; split
    · exact ⟨_, rfl⟩
    · split <;> exact ⟨_, rfl⟩

/-- **a slice of a string is a string, and it is NOT projected**: what follows the slice is applied to the string slice
    itself (any byte string) -/
theorem Sem_slice_string_general (L R : PTree) (a b : Option Token) (c : Option (Option Token)) (root cur : Val)
    (env : Env) (s : Bytes) (hL : Sem L root cur env = .ok (.str s)) :
    ∃ s', modelSlice (.str s) (a.bind intOf) (b.bind intOf) ((c.bind fun x => x.bind intOf).getD 1) = .ok (.str s') ∧
      Sem (.slice L a b c R) root cur env = Sem R root (.str s') env := by
  obtain ⟨s', hs⟩ := modelSlice_str s (a.bind intOf) (b.bind intOf) ((c.bind fun x => x.bind intOf).getD 1)
  exact ⟨s', hs, by simp only [Sem, hL, Res.ok_bind, sliceOf, hs]⟩

/-- **… namely the string slice**: on the string whose code points are `cs` (valid UTF-8), a well-formed slice
    `[a:b:c]` (integer literals, step not 0) yields the string of the code points at the indices of the Python walk
    `range(*slice(a, b, c).indices(len))` (C12B), handed to what follows the slice -/
theorem Sem_slice_string (L R : PTree) (a b : Option Token) (c : Option (Option Token)) (hok : sliceOK a b c = true)
    (root cur : Val) (env : Env) (cs : List Nat) (hcs : Utf8.Scalars cs) (hM : (cs.length : Int) ≤ MaxInt)
    (hL : Sem L root cur env = .ok (.str (encodeAll cs))) :
    Sem (.slice L a b c R) root cur env =
      Sem R root (.str (encodeAll (C12B.atWalk cs
        (pyWalk cs.length (a.bind intOf) (b.bind intOf) ((c.bind fun x => x.bind intOf).getD 1))))) env := by
  obtain ⟨h0, hmin⟩ := sliceOK_step hok
  have hs : modelSlice (.str (encodeAll cs)) (a.bind intOf) (b.bind intOf) ((c.bind fun x => x.bind intOf).getD 1) =
      .ok (.str (encodeAll (C12B.atWalk cs
        (pyWalk cs.length (a.bind intOf) (b.bind intOf) ((c.bind fun x => x.bind intOf).getD 1))))) := by
    unfold modelSlice
    split
    · rename_i h1; rw [h1]; exact C12B.slice_string_spec cs hcs _ _ hM
    · exact C12B.sliceStep_string_spec cs hcs _ _ _ h0 hmin hM
  simp only [Sem, hL, Res.ok_bind, sliceOf, hs]

/-- `"héllo"[1:3]` is `"él"`, and `[1:3][0]` on it is null (an index of a string), not a projection -/
example : Sem (.slice .icur (some (Ex.int "1")) (some (Ex.int "3")) none .icur) .null
    (.str [0x68, 0xC3, 0xA9, 0x6C, 0x6C, 0x6F]) [] = .ok (.str [0xC3, 0xA9, 0x6C]) := rfl
example : Sem (.slice .icur (some (Ex.int "1")) (some (Ex.int "3")) none (.index .icur (Ex.int "0"))) .null
    (.str [0x68, 0xC3, 0xA9, 0x6C, 0x6C, 0x6F]) [] = .ok .null := rfl
example : Sem (.slice .icur (some (Ex.int "1")) (some (Ex.int "3")) none .icur) .null (.str (encodeAll C11.hello)) [] =
    Sem .icur .null (.str (encodeAll (C12B.atWalk C11.hello (pyWalk C11.hello.length (some 1) (some 3) 1)))) [] :=
  Sem_slice_string .icur .icur _ _ _ (by decide) _ _ _ C11.hello C11.hello_scalars (by decide) rfl

/-! ## 3. Decisions

  Clauses of `Sem` that are taken from the Go program and that a reader of the JMESPath specification might not expect.
  Each is a theorem about `Sem` (so, by `C01C.search_eq_Sem`, about `search`), with an example on expression text; the
  comment gives what the Go program at `/repo` returned on that input (run through the public `jmespath.Search`). -/

namespace Ex
open Jmes.Grammar.Ex
def cur : PTree := .atom ⟨.current, bs "@"⟩
def kA : Token := ⟨.unquotedIdentifier, bs "a"⟩
def kB : Token := ⟨.unquotedIdentifier, bs "b"⟩
def strLit (s : String) : PTree := .atom ⟨.stringLiteral, bs s⟩
def jsonLit (s : String) : PTree := .atom ⟨.jsonLiteral, bs s⟩
def var (s : String) : PTree := .atom ⟨.variable, bs s⟩
def fn (name : String) (args : List PTree) : PTree := .call ⟨.unquotedIdentifier, bs name⟩ args
def one : Val := .num (.jnum (bs "1"))
end Ex

/-! ### D1 (KF10) the null rule of a multi-select depends on its member count -/

/-- **D1** on `null`: `[e]` is `[v]` and `{k: e}` is `{k: v}` (`v` the value of `e` on `null`), but `[e, e', …]` and
    `{k: e, k': e', …}` are `null`.  (`SemSpec`: all four `null`; `SemPipe`: none of them.)
    Go: `[@]` on `null` → `[null]`; `[@, @]` → `null`; `{a: @}` → `{"a":null}`; `{a: @, b: @}` → `null`;
    `@.[@]` → `null`; `x[*].[a]` on `{"x":[null,{"a":true}]}` → `[[null],[true]]`, `x[*].[a,b]` → `[[true,null]]`. -/
theorem decision_multiselect_null_member_count (e e' : PTree) (es : List PTree) (k k' : Token)
    (kvs : List (Token × PTree)) (root : Val) (env : Env) :
    Sem (.multiList [e]) root .null env = (Sem e root .null env >>= fun v => .ok (.arr .plain [v])) ∧
    Sem (.multiList (e :: e' :: es)) root .null env = .ok .null ∧
    Sem (.multiHash [(k, e)]) root .null env = (Sem e root .null env >>= fun v => .ok (.obj [(keyOf k, v)])) ∧
    Sem (.multiHash ((k, e) :: (k', e') :: kvs)) root .null env = .ok .null := by
  refine ⟨(Sem_multiList_null_rule e e [] root env).2.1, rfl, ?_, rfl⟩
  simp only [Sem, SemKVs, List.length_cons, List.length_nil, Nat.zero_add, beq_self_eq_true, Bool.not_true,
    Bool.and_false, Bool.false_eq_true, if_false, byKey, List.foldl_cons, List.foldl_nil, insertLast, anyOrder_single,
    Res.bind_assoc, Res.ok_bind]

example : search (Ex.bs "[@]") .null = .ok (.arr .plain [.null]) := by
  rw [search_eq_Sem (t := .multiList [Ex.cur]) (by decide) (by decide)]; rfl
example : search (Ex.bs "[@, @]") .null = .ok .null := by
  rw [search_eq_Sem (t := .multiList [Ex.cur, Ex.cur]) (by decide) (by decide)]; rfl
example : search (Ex.bs "{a: @}") .null = .ok (.obj [(Ex.bs "a", .null)]) := by
  rw [search_eq_Sem (t := .multiHash [(Ex.kA, Ex.cur)]) (by decide) (by decide)]; rfl
example : search (Ex.bs "{a: @, b: @}") .null = .ok .null := by
  rw [search_eq_Sem (t := .multiHash [(Ex.kA, Ex.cur), (Ex.kB, Ex.cur)]) (by decide) (by decide)]; rfl

/-! ### D2 unary `+` / `-` answer null on a non-number, binary arithmetic answers invalid-type -/

theorem non_number (a : Val) (h : isNumber a = false) : toFloat a = none ∧ toDecimal a = none := by
  cases a <;> first | exact ⟨rfl, rfl⟩ | cases h

/-- **D2a** unary `+e` and `-e` on a value that is not a number: `null`, not an error.
    Go: `+a`, `-a` on `{"a":"x"}` → `null`, `null`. -/
theorem decision_unary_non_number (t : PTree) (tok : Token) (root cur : Val) (env : Env) (a : Val)
    (h : Sem t root cur env = .ok a) (hn : isNumber a = false) :
    Sem (.pos t) root cur env = .ok .null ∧ Sem (.neg tok t) root cur env = .ok .null := by
  obtain ⟨h1, h2⟩ := non_number a hn
  simp only [Sem, h, Res.ok_bind, hn, Bool.false_eq_true, if_false, negateVal, h1, h2, and_self]

/-- the binary arithmetic operators -/
def isArithTok : TokenType → Bool
  | .add | .subtract | .asterisk | .multiply | .divide | .integerDivide | .modulo => true
  | _ => false

theorem arith_non_number (fop : F64 → F64 → F64) (dop : Dec → Dec → Dec) (a b : Val)
    (h : isNumber a = false ∨ isNumber b = false) : arith fop dop a b = errType := by
  unfold arith
  rcases h with h | h
  · obtain ⟨h1, h2⟩ := non_number a h
    simp only [toFloatPair, h1, h2]
  · obtain ⟨h1, h2⟩ := non_number b h
    have : toFloatPair a b = none := by
      simp only [toFloatPair, h1]; cases toFloat a <;> rfl
    simp only [this, h2]
    cases toDecimal a <;> rfl

/-- **D2b** … whereas a binary arithmetic operator with an operand that is not a number is the error invalid-type.
    Go: ``a + `1` `` and `` `1` - a `` on `{"a":"x"}` → `invalid type string when expecting number`. -/
theorem decision_binary_non_number (op : Token) (hop : isArithTok op.type = true) (l r : PTree) (root cur : Val)
    (env : Env) (a b : Val) (hl : Sem l root cur env = .ok a) (hr : Sem r root cur env = .ok b)
    (hn : isNumber a = false ∨ isNumber b = false) :
    Sem (.bin op l r) root cur env = .err [Cat.invalidType] := by
  obtain ⟨ty, v⟩ := op
  cases ty <;> first
    | (simp only [Sem, hl, hr, Res.ok_bind, orderTok, arithOp, applyBinOp, add, subtract, multiply, divide,
        integerDivide, modulo, arith_non_number _ _ a b hn]; rfl)
    | cases hop

/-- **D2c** a number whose text the decimal parser rejects (out of range: `1e7000`) is a number for unary `+` (which
    returns it unchanged) but not for unary `-` (null).
    Go: `+a` on `{"a":1e7000}` → `1e7000`; `-a` → `null`; `` +`1e7000` `` → `1e7000`; `` -`1e7000` `` → `null`. -/
theorem decision_unary_unparsable_number (t : PTree) (tok : Token) (root cur : Val) (env : Env) (txt : Bytes)
    (h : Sem t root cur env = .ok (.num (.jnum txt))) (hp : ∀ d, Dec.parse txt ≠ .ok d) :
    Sem (.pos t) root cur env = .ok (.num (.jnum txt)) ∧ Sem (.neg tok t) root cur env = .ok .null := by
  have h2 : toDecimal (.num (.jnum txt)) = none := by
    cases hd : Dec.parse txt with
    | ok d => exact absurd hd (hp d)
    | _ => simp only [toDecimal, hd]
  simp only [Sem, h, Res.ok_bind, isNumber, if_true, negateVal, toFloat, h2, and_self]

example : search (Ex.bs "+a") (.obj [(Ex.bs "a", .str (Ex.bs "x"))]) = .ok .null := by
  rw [search_eq_Sem (t := .pos (Ex.idt "a")) (by decide) (by decide)]; rfl
example : search (Ex.bs "-a") (.obj [(Ex.bs "a", .str (Ex.bs "x"))]) = .ok .null := by
  rw [search_eq_Sem (t := .neg (Ex.op .subtract "-") (Ex.idt "a")) (by decide) (by decide)]; rfl
example : search (Ex.bs "a + b") (.obj [(Ex.bs "a", .str (Ex.bs "x")), (Ex.bs "b", Ex.one)]) = .err [Cat.invalidType] := by
  rw [search_eq_Sem (t := .bin (Ex.op .add "+") (Ex.idt "a") (Ex.idt "b")) (by decide) (by decide)]
  exact decision_binary_non_number _ rfl _ _ _ _ _ (.str (Ex.bs "x")) Ex.one rfl rfl (Or.inl rfl)
example : search (Ex.bs "+a") (.obj [(Ex.bs "a", .num (.jnum (Ex.bs "1e7000")))]) = .ok (.num (.jnum (Ex.bs "1e7000"))) := by
  rw [search_eq_Sem (t := .pos (Ex.idt "a")) (by decide) (by decide)]; rfl
example : search (Ex.bs "-a") (.obj [(Ex.bs "a", .num (.jnum (Ex.bs "1e7000")))]) = .ok .null := by
  rw [search_eq_Sem (t := .neg (Ex.op .subtract "-") (Ex.idt "a")) (by decide) (by decide)]; rfl

/-! ### D3 a key written twice keeps the last expression; the earlier one is never evaluated -/

/-- a later member with the same key replaces the earlier one in the map the parser builds -/
theorem insertLast_twice {α} (k : Bytes) (a b : α) : ∀ acc : List (Bytes × α),
    insertLast k a (insertLast k b acc) = insertLast k a acc
  | [] => by simp only [insertLast, if_true]
  | (k', c) :: rest => by
    by_cases h1 : k = k'
    · simp only [insertLast, h1, if_true]
    · by_cases h2 : bytesLt k k' = true
      · simp only [insertLast, h1, if_false, h2, if_true]
      · simp only [insertLast, h1, if_false, h2, Bool.false_eq_true, insertLast_twice k a b rest]

/-- **adjacent duplicates**: `…, k: e1, k: e2, …` is `…, k: e2, …` — `e1` is dropped before anything is evaluated -/
theorem byKey_adjacent_dup {α} (ms ms' : List (Bytes × α)) (k : Bytes) (a b : α) :
    byKey (ms ++ (k, b) :: (k, a) :: ms') = byKey (ms ++ (k, a) :: ms') := by
  simp only [byKey, List.foldl_append, List.foldl_cons, insertLast_twice]

/-- **D3a** `{k: e1, k: e2}` (same key, however spelt) is `{k: e2}`: `e1` is not evaluated — its failure is not seen.
    Go: `{a: abs('x'), a: b}` on `{"b":1}` → `{"a":1}`;  `{a: b, a: abs('x')}` → `invalid type`;
    `` {a: $x, a: `1`} `` on `{}` → `{"a":1}` (no undefined-variable error). -/
theorem decision_duplicate_key_hash (k1 k2 : Token) (hk : keyOf k1 = keyOf k2) (e1 e2 : PTree) (root cur : Val)
    (env : Env) (hc : cur.isNull = false) :
    Sem (.multiHash [(k1, e1), (k2, e2)]) root cur env =
      (Sem e2 root cur env >>= fun v => .ok (.obj [(keyOf k2, v)])) := by
  simp only [Sem, hc, Bool.false_and, Bool.false_eq_true, if_false, SemKVs, hk]
  rw [show [(keyOf k2, Sem e1 root cur env), (keyOf k2, Sem e2 root cur env)] =
    [] ++ (keyOf k2, Sem e1 root cur env) :: (keyOf k2, Sem e2 root cur env) :: [] from rfl, byKey_adjacent_dup]
  simp only [List.nil_append, byKey, List.foldl_cons, List.foldl_nil, insertLast, anyOrder_single, Res.bind_assoc,
    Res.ok_bind]

/-- **D3b** the same for `let $x = e1, $x = e2 in body`: the body sees `e2`, `e1` is not evaluated.
    Go: `let $x = abs('x'), $x = b in $x` on `{"b":1}` → `1`;  `` let $y = $x, $y = `1` in $y `` → `1`. -/
theorem decision_duplicate_binding_let (x1 x2 : Token) (hx : x1.value = x2.value) (e1 e2 body : PTree) (root cur : Val)
    (env : Env) :
    Sem (.letIn [(x1, e1), (x2, e2)] body) root cur env =
      (Sem e2 root cur env >>= fun v => Sem body root cur ((x2.value, v) :: env)) := by
  simp only [Sem, SemKVs, hx]
  rw [show [(x2.value, Sem e1 root cur env), (x2.value, Sem e2 root cur env)] =
    [] ++ (x2.value, Sem e1 root cur env) :: (x2.value, Sem e2 root cur env) :: [] from rfl, byKey_adjacent_dup]
  simp only [List.nil_append, byKey, List.foldl_cons, List.foldl_nil, insertLast, anyOrder_single, Res.bind_assoc,
    Res.ok_bind, List.cons_append, List.nil_append]

example : search (Ex.bs "{a: abs('x'), a: b}") (.obj [(Ex.bs "b", Ex.one)]) = .ok (.obj [(Ex.bs "a", Ex.one)]) := by
  rw [search_eq_Sem (t := .multiHash [(Ex.kA, Ex.fn "abs" [Ex.strLit "'x'"]), (Ex.kA, Ex.idt "b")]) (by decide) (by decide)]
  rfl
/-- the other way round the failing member is the one that counts -/
example : search (Ex.bs "{a: b, a: abs('x')}") (.obj [(Ex.bs "b", Ex.one)]) = .err [Cat.invalidType] := by
  rw [search_eq_Sem (t := .multiHash [(Ex.kA, Ex.idt "b"), (Ex.kA, Ex.fn "abs" [Ex.strLit "'x'"])]) (by decide) (by decide)]
  rfl
example : search (Ex.bs "let $x = abs('x'), $x = b in $x") (.obj [(Ex.bs "b", Ex.one)]) = .ok Ex.one := by
  rw [search_eq_Sem (t := .letIn [(⟨.variable, Ex.bs "$x"⟩, Ex.fn "abs" [Ex.strLit "'x'"]),
    (⟨.variable, Ex.bs "$x"⟩, Ex.idt "b")] (Ex.var "$x")) (by decide) (by decide)]
  rfl

/-! ### D4 `not_null` is lazy -/

/-- `not_null` looks at its arguments one after the other and stops at the first that is not null or fails -/
theorem notNullSem_cons (r : Res Val) (rs : List (Res Val)) :
    notNullSem (r :: rs) = (match r with
      | .ok v => if v.isNull then notNullSem rs else .ok v
      | f => f) := by
  cases r with
  | ok v => cases hv : v.isNull <;> simp only [notNullSem, List.find?_cons, hv, Bool.not_true, Bool.not_false, if_true,
      Bool.false_eq_true, if_false]
  | _ => rfl

/-- **D4** `not_null(e, …)` where `e` has a non-null value: that value; the other arguments are NOT evaluated (every
    other builtin evaluates all its arguments first).
    Go: `not_null(a, abs('x'))` on `{"a":1}` → `1`;  `` not_null(`1`, $x) `` → `1`;  `` not_null(`null`, $x) `` →
    `undefined variable "$x"`;  `not_null(abs('x'), a)` → `invalid type`. -/
theorem decision_not_null_lazy (name : Token) (hname : name.value = Ex.bs "not_null") (e : PTree) (es : List PTree)
    (root cur : Val) (env : Env) (v : Val) (h : Sem e root cur env = .ok v) (hv : v.isNull = false) :
    Sem (.call name (e :: es)) root cur env = .ok v := by
  have hb : Parser.lookupBuiltin (Ex.bs "not_null") = some (.varArg .notNull) := rfl
  simp only [Sem, hname, hb, callSem, SemL, List.map_cons, notNullSem_cons, h, hv, Bool.false_eq_true, if_false]

example : search (Ex.bs "not_null(a, abs('x'))") (.obj [(Ex.bs "a", Ex.one)]) = .ok Ex.one := by
  rw [search_eq_Sem (t := Ex.fn "not_null" [Ex.idt "a", Ex.fn "abs" [Ex.strLit "'x'"]]) (by decide) (by decide)]
  exact decision_not_null_lazy _ rfl _ _ _ _ _ _ rfl rfl
example : search (Ex.bs "not_null(abs('x'), a)") (.obj [(Ex.bs "a", Ex.one)]) = .err [Cat.invalidType] := by
  rw [search_eq_Sem (t := Ex.fn "not_null" [Ex.fn "abs" [Ex.strLit "'x'"], Ex.idt "a"]) (by decide) (by decide)]; rfl

/-! ### D5 `merge` and `zip` check the type of each argument before evaluating the next -/

/-- `merge`: a first argument that is not an object is invalid-type, whatever the outcomes of the others -/
theorem mergeSem_first_not_object (v : Val) (rs : List (Res Val)) (hv : ∀ kvs, v ≠ .obj kvs) :
    mergeSem (.ok v :: rs) = .err [Cat.invalidType] := by
  cases v <;> first | exact absurd rfl (hv _) | rfl

/-- `zip`: a first argument that is not an array is invalid-type, whatever the outcomes of the others -/
theorem zipSem_first_not_array (v : Val) (rs : List (Res Val)) (hv : ∀ t xs, v ≠ .arr t xs) :
    zipSem (.ok v :: rs) = .err [Cat.invalidType] := by
  cases v <;> first | exact absurd rfl (hv _ _) | rfl

/-- **D5** `merge(e, …)` / `zip(e, …)` where the value of `e` has the wrong type: invalid-type, and the arguments after
    `e` are NOT evaluated — a failure of another category among them is not seen.  (A builtin of the ordinary kind,
    `join` say, evaluates all its arguments before it looks at their types.)
    Go: `` merge(`1`, $x) `` → `invalid type json.Number when expecting object`; `` zip(`1`, $x) `` → `invalid type
    json.Number when expecting array`; `` join(`1`, $x) `` → `undefined variable "$x"`. -/
theorem decision_merge_zip_check_in_turn (name : Token) (e : PTree) (es : List PTree) (root cur : Val) (env : Env)
    (v : Val) (h : Sem e root cur env = .ok v) :
    (name.value = Ex.bs "merge" → (∀ kvs, v ≠ .obj kvs) → Sem (.call name (e :: es)) root cur env = .err [Cat.invalidType]) ∧
    (name.value = Ex.bs "zip" → (∀ t xs, v ≠ .arr t xs) → Sem (.call name (e :: es)) root cur env = .err [Cat.invalidType]) := by
  have hm : Parser.lookupBuiltin (Ex.bs "merge") = some (.varArg .merge) := rfl
  have hz : Parser.lookupBuiltin (Ex.bs "zip") = some (.varArg .zip) := rfl
  refine ⟨fun hn hv => ?_, fun hn hv => ?_⟩
  · simp only [Sem, hn, hm, callSem, SemL, List.map_cons, h, mergeSem_first_not_object v _ hv]
  · simp only [Sem, hn, hz, callSem, SemL, List.map_cons, h, zipSem_first_not_array v _ hv]

example : search (Ex.bs "merge(`1`, $x)") .null = .err [Cat.invalidType] := by
  rw [search_eq_Sem (t := Ex.fn "merge" [Ex.jsonLit "`1`", Ex.var "$x"]) (by decide) (by decide)]; rfl
example : search (Ex.bs "zip(`1`, $x)") .null = .err [Cat.invalidType] := by
  rw [search_eq_Sem (t := Ex.fn "zip" [Ex.jsonLit "`1`", Ex.var "$x"]) (by decide) (by decide)]; rfl
example : search (Ex.bs "join(`1`, $x)") .null = .err [Cat.undefinedVariable] := by
  rw [search_eq_Sem (t := Ex.fn "join" [Ex.jsonLit "`1`", Ex.var "$x"]) (by decide) (by decide)]; rfl

/-! ### D6 a filter projection interleaves condition and right-hand side, element by element -/

theorem failAs_bind {α β γ} (r : Res α) (f : α → Res β) (h : isOk r = false) : (failAs (r >>= f) : Res γ) = failAs r := by
  cases r <;> first | rfl | cases h

/-- **D6** `l[?c] r` evaluates, for each element in turn, `c` and then (if `c` is true) `r`, BEFORE it looks at the next
    element: when `r` fails on the first element that passes, that failure is the outcome — whatever `c` would have
    done on later elements.  (Filtering first and projecting afterwards, `l[?c] | [*] r`, meets the failures of `c`
    first.)
    Go: `[?a || $x].abs(b)` on `[{"a":true,"b":"s"},{"a":false}]` → `invalid type string when expecting number`;
    `[?a || $x] | [*].abs(b)` on the same → `undefined variable "$x"`. -/
theorem decision_filter_interleaves (x : Val) (xs : List Val) (c f : Val → Res Val) (b : Val) (hc : c x = .ok b)
    (hb : truthy b = true) (hf : isOk (f x) = false) :
    filterProject .plain (x :: xs) c f = failAs (f x) := by
  have hne : isOk (f x >>= fun p => Res.ok (some p)) = false := by
    cases hfx : f x <;> first | rfl | (rw [hfx] at hf; cases hf)
  have : inOrder ((x :: xs).map fun x => c x >>= fun b => if truthy b then (f x >>= fun p => Res.ok (some p)) else Res.ok none)
      = failAs (f x) := by
    simp only [List.map_cons, hc, Res.ok_bind, hb, if_true, inOrder, List.find?_cons, hne, Bool.not_false]
    exact failAs_bind _ _ hf
  simp only [filterProject, this, unordered]
  cases hfx : f x <;> first | rfl | (rw [hfx] at hf; cases hf)

/-- ``[?a || $x].abs(b)`` on `[{"a": true, "b": "s"}, {"a": false}]`: the failure of `abs` on the first element, not
    the undefined variable the condition meets on the second -/
example : search (Ex.bs "[?a || $x].abs(b)")
    (.arr .plain [.obj [(Ex.bs "a", .bool true), (Ex.bs "b", .str (Ex.bs "s"))], .obj [(Ex.bs "a", .bool false)]]) =
    .err [Cat.invalidType] := by
  rw [search_eq_Sem (t := .filt .icur (.bin (Ex.op .or "||") (Ex.idt "a") (Ex.var "$x"))
    (.dotId .icur (Ex.fn "abs" [Ex.idt "b"]))) (by decide) (by decide)]; rfl
example : search (Ex.bs "[?a || $x] | [*].abs(b)")
    (.arr .plain [.obj [(Ex.bs "a", .bool true), (Ex.bs "b", .str (Ex.bs "s"))], .obj [(Ex.bs "a", .bool false)]]) =
    .err [Cat.undefinedVariable] := by
  rw [search_eq_Sem (t := .bin (Ex.op .pipe "|") (.filt .icur (.bin (Ex.op .or "||") (Ex.idt "a") (Ex.var "$x")) .icur)
    (.star .icur (.dotId .icur (Ex.fn "abs" [Ex.idt "b"])))) (by decide) (by decide)]; rfl

/-! ### D7 truth of numbers -/

/-- **D7** every number is true — zero included — except a `json.Number` with EMPTY text (not JSON: the zero value of
    the Go type, which only a caller's own data can hold), which is false.
    Go: `!a`, ``a && `1` ``, ``a || `1` `` with `a = json.Number("")` → `true`, `json.Number("")`, `1`;
    with `json.Number("0")` → `false`, `1`, `0`; `` !`0` `` → `false`. -/
theorem decision_truthy_number : truthy (.num (.jnum [])) = false ∧
    (∀ t : Bytes, t ≠ [] → truthy (.num (.jnum t)) = true) ∧
    (∀ k v, truthy (.num (.int k v)) = true) ∧ (∀ d, truthy (.num (.dec d)) = true) ∧
    (∀ f, truthy (.num (.f64 f)) = true) := by
  refine ⟨rfl, fun t ht => ?_, fun _ _ => rfl, fun _ => rfl, fun _ => rfl⟩
  cases t with
  | nil => exact absurd rfl ht
  | cons _ _ => rfl

example : search (Ex.bs "!a") (.obj [(Ex.bs "a", .num (.jnum []))]) = .ok (.bool true) := by
  rw [search_eq_Sem (t := .not (Ex.idt "a")) (by decide) (by decide)]; rfl
example : search (Ex.bs "!a") (.obj [(Ex.bs "a", .num (.jnum (Ex.bs "0")))]) = .ok (.bool false) := by
  rw [search_eq_Sem (t := .not (Ex.idt "a")) (by decide) (by decide)]; rfl

/-! ### D8 `[*]` with nothing after it hands back its input array when there is no null to drop -/

/-- **D8** `l[*]` (no right-hand side) on an array without nulls is THAT array, tag included — not a copy: a nil slice
    stays a nil slice (which Go marshals as `null`), a map-ordered array stays map-ordered.  With a right-hand side, or
    with a null to drop, a new array is built.
    Go: `[*]` on `[]any(nil)` → `[]any(nil)` (marshals `null`); on `[]any{}` → `[]`; on `[1,2]` → `[1,2]`;
    on `[1,null,2]` → `[1,2]`. -/
theorem decision_bare_star_same_array (L : PTree) (root cur : Val) (env : Env) (t : ATag) (xs : List Val)
    (hL : Sem L root cur env = .ok (.arr t xs)) (hn : xs.any Val.isNull = false) :
    Sem (.star L .icur) root cur env = .ok (.arr t xs) := by
  simp only [Sem, hL, Res.ok_bind, PTree.isIcur, hn, Bool.not_false, Bool.and_self, if_true]

/-- … with a null to drop: a new plain array -/
theorem decision_bare_star_drops (L : PTree) (root cur : Val) (env : Env) (xs : List Val)
    (hL : Sem L root cur env = .ok (.arr .plain xs)) (hn : xs.any Val.isNull = true) :
    Sem (.star L .icur) root cur env = .ok (.arr .plain (xs.filter fun v => !v.isNull)) := by
  simp only [Sem, hL, Res.ok_bind, PTree.isIcur, hn, Bool.not_true, Bool.and_false, Bool.false_eq_true, if_false]
  exact (project_ok .plain xs _ id fun _ _ => rfl).trans (by rw [List.map_id]; rfl)

example : search (Ex.bs "[*]") (.arr .nil []) = .ok (.arr .nil []) := by
  rw [search_eq_Sem (t := .star .icur .icur) (by decide) (by decide)]; rfl
example : search (Ex.bs "[*]") (.arr .plain [Ex.one, .null]) = .ok (.arr .plain [Ex.one]) := by
  rw [search_eq_Sem (t := .star .icur .icur) (by decide) (by decide)]; rfl

/-! ### D9 ordering comparisons are defined on numbers only -/

/-- **D9** `l < r`, `l <= r`, `l > r`, `l >= r` where one side is not a number — two strings, say — is `null` (neither an
    error nor a comparison of the strings).
    Go: `a < b` on `{"a":"x","b":"y"}` → `null`; `a >= b` on `{"a":"x","b":"x"}` → `null`; `'a' < 'b'` → `null`;
    `a < b` on `{"a":1,"b":2}` → `true`. -/
theorem decision_order_non_number (op : Token) (f : Dec → Dec → Bool) (hf : orderTok op.type = some f) (l r : PTree)
    (root cur : Val) (env : Env) (a b : Val) (hl : Sem l root cur env = .ok a) (hr : Sem r root cur env = .ok b)
    (hn : toDecimal a = none ∨ toDecimal b = none) :
    Sem (.bin op l r) root cur env = .ok .null := by
  have ho : orderOp f a b = .null := by
    unfold orderOp
    rcases hn with h | h
    · rw [h]
    · rw [h]; cases toDecimal a <;> rfl
  obtain ⟨ty, v⟩ := op
  cases ty <;> simp only [orderTok] at hf <;> cases hf <;> simp only [Sem, hl, hr, Res.ok_bind, orderTok, ho]

example : search (Ex.bs "a < b") (.obj [(Ex.bs "a", .str (Ex.bs "x")), (Ex.bs "b", .str (Ex.bs "y"))]) = .ok .null := by
  rw [search_eq_Sem (t := .bin (Ex.op .less "<") (Ex.idt "a") (Ex.idt "b")) (by decide) (by decide)]
  exact decision_order_non_number _ Dec.less rfl _ _ _ _ _ (.str (Ex.bs "x")) (.str (Ex.bs "y")) rfl rfl (Or.inl rfl)
example : search (Ex.bs "a < b") (.obj [(Ex.bs "a", Ex.one), (Ex.bs "b", .num (.jnum (Ex.bs "2")))]) = .ok (.bool true) := by
  rw [search_eq_Sem (t := .bin (Ex.op .less "<") (Ex.idt "a") (Ex.idt "b")) (by decide) (by decide)]; rfl

/-! ## 4. Bracket forms with NO left operand: `[*]ρ`, `[]ρ`, `[?c]ρ`, `[a:b:c]ρ`, `*ρ`

  at the start of an expression, after a pipe, in parentheses.  (The text-level theorems of `C01B` / `C17B` are about
  `L[*]ρ` … with a left operand `L`.)  Every one of these forms is a projection over the CURRENT node: null results are
  dropped — by a leading bare slice `[1:]` too. -/

/-- a projection opener written without a left operand -/
inductive Lead where
  | star
  | flat
  | filt (c : PTree)
  | slice (a b : Option Token) (c : Option (Option Token))
  | ostar

namespace Lead
/-- the tree: the opener applied to the implicit current node, followed by the right-hand side `ρ` (`icur`: none) -/
def mk : Lead → PTree → PTree
  | .star, ρ => .star .icur ρ
  | .flat, ρ => .flat .icur ρ
  | .filt c, ρ => .filt .icur c ρ
  | .slice a b c, ρ => .slice .icur a b c ρ
  | .ostar, ρ => .ostar .icur ρ
/-- its tokens: `[*]`, `[]`, `[?` c `]`, `[` a `:` b `:` c `]`, `*` -/
def toks : Lead → List Token
  | .star => [tArrayStar]
  | .flat => [tFlatten]
  | .filt c => tFilter :: Grammar.flatten c ++ [tRBracket]
  | .slice a b c => tLBracket :: sliceToks a b c ++ [tRBracket]
  | .ostar => [tStar]
/-- side conditions: the filter condition is an expression; the slice parts are integer literals, step not 0 -/
def ok : Lead → Prop
  | .filt c => WellPrec c
  | .slice a b c => sliceOK a b c = true
  | _ => True
/-- what the form computes from the current node `cur`, `f` being the right-hand side as a function of the element
    (`bare`: there is no right-hand side) -/
def val (o : Lead) (root : Val) (env : Env) (f : Val → Res Val) (bare : Bool) (cur : Val) : Res Val :=
  match o with
  | .star =>
    (match cur with
     | .arr t xs => if bare && !xs.any Val.isNull then .ok (.arr t xs) else project t xs f
     | _ => .ok .null)
  | .flat =>
    (match cur with
     | .arr t xs => flatProject t xs f
     | _ => .ok .null)
  | .filt c =>
    (match cur with
     | .arr t xs => filterProject t xs (fun x => Sem c root x env) f
     | _ => .ok .null)
  | .slice a b c =>
    sliceOf cur (a.bind intOf) (b.bind intOf) ((c.bind fun s => s.bind intOf).getD 1) >>= fun s =>
      (match s with
       | .arr t xs => project t xs f
       | .str _ => f s
       | _ => .ok .null)
  | .ostar =>
    (match cur with
     | .obj kvs => project .enum (kvs.map Prod.snd) f
     | _ => .ok .null)
end Lead

/-- a right-hand side, or none -/
def RhsOpt (ρ : PTree) : Prop := ρ.isIcur = true ∨ C17B.Rhs ρ

theorem Lead.wp_mk (o : Lead) (ho : o.ok) {ρ : PTree} (hρ : RhsOpt ρ) : WellPrec (o.mk ρ) := by
  have hr : (ρ.isIcur || (Grammar.wp true ρ && decide (lvlProj < llevel ρ))) = true := by
    rcases hρ with h | h
    · simp only [h, Bool.true_or]
    · simp only [h.wp, h.lvl, decide_true, Bool.and_self, Bool.or_true]
  cases o with
  | star => simp only [WellPrec, Lead.mk, Grammar.wp, C17B.icur_isIcur, if_true, Bool.true_and, hr]
  | flat => simp only [WellPrec, Lead.mk, Grammar.wp, C17B.icur_isIcur, if_true, Bool.not_false, Bool.true_and, hr]
  | filt c =>
    have hc : Grammar.wp false c = true := ho
    simp only [WellPrec, Lead.mk, Grammar.wp, C17B.icur_isIcur, if_true, Bool.true_and, hr, hc]
  | slice a b c =>
    have hs : sliceOK a b c = true := ho
    simp only [WellPrec, Lead.mk, Grammar.wp, C17B.icur_isIcur, if_true, Bool.true_and, hr, hs]
  | ostar => simp only [WellPrec, Lead.mk, Grammar.wp, C17B.icur_isIcur, if_true, Bool.true_and, hr]

theorem Lead.flatten_mk (o : Lead) (ρ : PTree) : Grammar.flatten (o.mk ρ) = o.toks ++ Grammar.flat true ρ := by
  cases o <;> simp only [Grammar.flatten, Lead.mk, Lead.toks, Grammar.flat, PTree.isIcur, if_true, Bool.false_eq_true,
    if_false, List.nil_append, List.cons_append, List.append_assoc]

theorem Lead.llevel_mk (o : Lead) (ρ : PTree) : llevel (o.mk ρ) = top := by
  cases o <;> rfl

/-- **the value of a leading form** on any current node: what `Lead.val` says -/
theorem lead_Sem (o : Lead) (ρ : PTree) (root cur : Val) (env : Env) :
    Sem (o.mk ρ) root cur env = o.val root env (fun x => Sem ρ root x env) ρ.isIcur cur := by
  cases o <;> simp only [Lead.mk, Lead.val, Sem, Res.ok_bind] <;> first | rfl | (cases cur <;> rfl)

/-- the pipe token -/
def tPipe : Token := ⟨.pipe, [0x7C]⟩

/-- **at the start of an expression**: the text `[*]ρ` (`[]ρ`, `[?c]ρ`, `[a:b:c]ρ`, `*ρ`) evaluates the leading form on
    the document -/
theorem lead_text (o : Lead) (ho : o.ok) {ρ : PTree} (hρ : RhsOpt ρ) {e : Bytes}
    (hl : C17B.Lexes e (o.toks ++ Grammar.flat true ρ)) (d : Val) :
    search e d = o.val d [] (fun x => Sem ρ d x []) ρ.isIcur d := by
  rw [search_eq_Sem (o.wp_mk ho hρ) (by rw [Lead.flatten_mk]; exact hl) d, lead_Sem]

/-- **after a pipe**: `A | [*]ρ` … evaluates the leading form on the VALUE of `A` -/
theorem lead_after_pipe_text (o : Lead) (ho : o.ok) {A ρ : PTree} (hA : WellPrec A) (hAr : lvlPipe ≤ rlevel A)
    (hρ : RhsOpt ρ) {e : Bytes} (hl : C17B.Lexes e (Grammar.flatten A ++ tPipe :: (o.toks ++ Grammar.flat true ρ))) (d : Val) :
    search e d = (Sem A d d [] >>= fun a => o.val d [] (fun x => Sem ρ d x []) ρ.isIcur a) := by
  have hw : WellPrec (.bin tPipe A (o.mk ρ)) :=
    C17B.wp_bin (lvl := lvlPipe) rfl hA hAr (o.wp_mk ho hρ) (by rw [Lead.llevel_mk]; decide)
  rw [search_eq_Sem hw (by rw [C17B.flatten_bin, Lead.flatten_mk]; exact hl) d, Sem_pipe tPipe rfl]
  apply Res.bind_congr; intro a
  exact lead_Sem o ρ d a []

/-- **in parentheses**: `([*]ρ)` … is the leading form on the document (and what follows the parenthesis is not part
    of the right-hand side) -/
theorem lead_paren_text (o : Lead) (ho : o.ok) {ρ : PTree} (hρ : RhsOpt ρ) {e : Bytes}
    (hl : C17B.Lexes e (tLParen :: (o.toks ++ Grammar.flat true ρ) ++ [tRParen])) (d : Val) :
    search e d = o.val d [] (fun x => Sem ρ d x []) ρ.isIcur d := by
  have hw : WellPrec (.paren (o.mk ρ)) := by
    have := o.wp_mk ho hρ
    simp only [WellPrec, Grammar.wp, Bool.not_false, Bool.true_and] at this ⊢
    exact this
  rw [search_eq_Sem hw (by rw [C17B.flatten_paren, Lead.flatten_mk]; exact hl) d]
  exact lead_Sem o ρ d d []

/-! ### values on arrays: every leading form drops the null results -/

theorem dropNulls_no_null (vs : List Val) : ∀ v ∈ vs.filter (fun v => !v.isNull), v.isNull = false := by
  intro v hv
  have := (List.mem_filter.1 hv).2
  simpa using this

/-- **`[*]ρ`** on the array `xs`: `ρ` on every element, nulls dropped (`g`: the value of `ρ` on each element) -/
theorem lead_star_value (ρ : PTree) (root : Val) (env : Env) (xs : List Val) (g : Val → Val)
    (hg : ∀ x ∈ xs, Sem ρ root x env = .ok (g x)) :
    Lead.star.val root env (fun x => Sem ρ root x env) ρ.isIcur (.arr .plain xs) =
      .ok (.arr .plain ((xs.map g).filter fun v => !v.isNull)) := by
  rw [← lead_Sem .star ρ root (.arr .plain xs) env]
  exact Sem_star_map .icur ρ root (.arr .plain xs) env xs g rfl hg

/-- **`[]ρ`**: flatten one level, then `ρ` on every element, nulls dropped -/
theorem lead_flat_value (ρ : PTree) (root : Val) (env : Env) (xs : List Val) (g : Val → Val)
    (hp : ∀ x ∈ xs, ∀ t ys, x = .arr t ys → t = .plain) (hg : ∀ x ∈ flatOnce xs, Sem ρ root x env = .ok (g x)) :
    Lead.flat.val root env (fun x => Sem ρ root x env) ρ.isIcur (.arr .plain xs) =
      .ok (.arr .plain (((flatOnce xs).map g).filter fun v => !v.isNull)) := by
  rw [← lead_Sem .flat ρ root (.arr .plain xs) env]
  exact Sem_flat_map .icur ρ root (.arr .plain xs) env xs g rfl hp hg

/-- **`[?c]ρ`**: the elements on which `c` is true, then `ρ`, nulls dropped -/
theorem lead_filt_value (c ρ : PTree) (root : Val) (env : Env) (xs : List Val) (cv g : Val → Val)
    (hc : ∀ x ∈ xs, Sem c root x env = .ok (cv x)) (hg : ∀ x ∈ xs, Sem ρ root x env = .ok (g x)) :
    (Lead.filt c).val root env (fun x => Sem ρ root x env) ρ.isIcur (.arr .plain xs) =
      .ok (.arr .plain (((xs.filter fun x => truthy (cv x)).map g).filter fun v => !v.isNull)) := by
  rw [← lead_Sem (.filt c) ρ root (.arr .plain xs) env]
  exact Sem_filter_map .icur c ρ root (.arr .plain xs) env xs cv g rfl hc hg

/-- **`[a:b:c]ρ`**: the elements at the indices of the Python walk, then `ρ`, NULLS DROPPED — also when there is no `ρ`
    (`g = id`): a leading bare slice is a projection -/
theorem lead_slice_value (a b : Option Token) (c : Option (Option Token)) (ρ : PTree) (root : Val) (env : Env)
    (xs : List Val) (hM : (xs.length : Int) ≤ MaxInt) (g : Val → Val)
    (hg : ∀ x, Sem ρ root x env = .ok (g x)) :
    (Lead.slice a b c).val root env (fun x => Sem ρ root x env) ρ.isIcur (.arr .plain xs) =
      .ok (.arr .plain ((((pyWalk xs.length (a.bind intOf) (b.bind intOf) ((c.bind fun s => s.bind intOf).getD 1)).map
        fun i => xs.getD i.toNat .null).map g).filter fun v => !v.isNull)) := by
  have hs : sliceOf (.arr .plain xs) (a.bind intOf) (b.bind intOf) ((c.bind fun s => s.bind intOf).getD 1) =
      .ok (.arr .plain ((pyWalk xs.length (a.bind intOf) (b.bind intOf) ((c.bind fun s => s.bind intOf).getD 1)).map
        fun i => xs.getD i.toNat .null)) := by
    simp only [sliceOf, hM, if_true, unordered]
    split
    · rename_i he
      rw [List.isEmpty_iff.1 he]; rfl
    · rfl
  simp only [Lead.val, hs, Res.ok_bind]
  exact project_ok .plain _ _ g fun x _ => hg x

/-- the result of any of them holds no null -/
theorem lead_slice_no_null (a b : Option Token) (c : Option (Option Token)) (root : Val) (env : Env)
    (xs : List Val) (hM : (xs.length : Int) ≤ MaxInt) :
    ∃ ys, (Lead.slice a b c).val root env (fun x => Sem .icur root x env) true (.arr .plain xs) = .ok (.arr .plain ys) ∧
      ∀ y ∈ ys, y.isNull = false :=
  ⟨_, lead_slice_value a b c .icur root env xs hM id (fun _ => rfl), dropNulls_no_null _⟩

/-- **`[a:b:c]` at the start of an expression, on a JSON array**: the walk, without the nulls -/
theorem lead_slice_text_value (a b : Option Token) (c : Option (Option Token)) (hok : sliceOK a b c = true) {e : Bytes}
    (hl : C17B.Lexes e (tLBracket :: sliceToks a b c ++ [tRBracket])) (xs : List Val) (hM : (xs.length : Int) ≤ MaxInt) :
    search e (.arr .plain xs) =
      .ok (.arr .plain (((pyWalk xs.length (a.bind intOf) (b.bind intOf) ((c.bind fun s => s.bind intOf).getD 1)).map
        fun i => xs.getD i.toNat .null).filter fun v => !v.isNull)) := by
  rw [lead_text (.slice a b c) hok (ρ := .icur) (Or.inl rfl) (by simpa [Lead.toks, Grammar.flat] using hl),
    lead_slice_value a b c .icur _ _ xs hM id (fun _ => rfl), List.map_id]

/-- **… after a pipe**: `A | [a:b:c]` where `A` yields the JSON array `xs` -/
theorem lead_slice_after_pipe_value (a b : Option Token) (c : Option (Option Token)) (hok : sliceOK a b c = true)
    {A : PTree} (hA : WellPrec A) (hAr : lvlPipe ≤ rlevel A) {e : Bytes}
    (hl : C17B.Lexes e (Grammar.flatten A ++ tPipe :: (tLBracket :: sliceToks a b c ++ [tRBracket]))) (d : Val)
    (xs : List Val) (hM : (xs.length : Int) ≤ MaxInt) (hx : Sem A d d [] = .ok (.arr .plain xs)) :
    search e d =
      .ok (.arr .plain (((pyWalk xs.length (a.bind intOf) (b.bind intOf) ((c.bind fun s => s.bind intOf).getD 1)).map
        fun i => xs.getD i.toNat .null).filter fun v => !v.isNull)) := by
  rw [lead_after_pipe_text (.slice a b c) hok hA hAr (ρ := .icur) (Or.inl rfl)
    (by simpa [Lead.toks, Grammar.flat] using hl), hx, Res.ok_bind,
    lead_slice_value a b c .icur _ _ xs hM id (fun _ => rfl), List.map_id]

/-- **`[*]` / `[*]ρ` at the start of an expression, on a JSON array** -/
theorem lead_star_text_value {ρ : PTree} (hρ : RhsOpt ρ) {e : Bytes} (hl : C17B.Lexes e (tArrayStar :: Grammar.flat true ρ))
    (xs : List Val) (g : Val → Val) (hg : ∀ x ∈ xs, Sem ρ (.arr .plain xs) x [] = .ok (g x)) :
    search e (.arr .plain xs) = .ok (.arr .plain ((xs.map g).filter fun v => !v.isNull)) := by
  rw [lead_text .star trivial hρ hl, lead_star_value ρ _ _ xs g hg]

/-- **`[]` / `[]ρ` at the start of an expression, on a JSON array** -/
theorem lead_flat_text_value {ρ : PTree} (hρ : RhsOpt ρ) {e : Bytes} (hl : C17B.Lexes e (tFlatten :: Grammar.flat true ρ))
    (xs : List Val) (g : Val → Val) (hp : ∀ x ∈ xs, ∀ t ys, x = .arr t ys → t = .plain)
    (hg : ∀ x ∈ flatOnce xs, Sem ρ (.arr .plain xs) x [] = .ok (g x)) :
    search e (.arr .plain xs) = .ok (.arr .plain (((flatOnce xs).map g).filter fun v => !v.isNull)) := by
  rw [lead_text .flat trivial hρ hl, lead_flat_value ρ _ _ xs g hp hg]

/-- **`[?c]` / `[?c]ρ` at the start of an expression, on a JSON array** -/
theorem lead_filt_text_value {c ρ : PTree} (hc : WellPrec c) (hρ : RhsOpt ρ) {e : Bytes}
    (hl : C17B.Lexes e (tFilter :: Grammar.flatten c ++ [tRBracket] ++ Grammar.flat true ρ))
    (xs : List Val) (cv g : Val → Val) (hcv : ∀ x ∈ xs, Sem c (.arr .plain xs) x [] = .ok (cv x))
    (hg : ∀ x ∈ xs, Sem ρ (.arr .plain xs) x [] = .ok (g x)) :
    search e (.arr .plain xs) =
      .ok (.arr .plain (((xs.filter fun x => truthy (cv x)).map g).filter fun v => !v.isNull)) := by
  rw [lead_text (.filt c) hc hρ hl, lead_filt_value c ρ _ _ xs cv g hcv hg]

/-- every leading form on something that is not an array (`*`: not an object; a slice: nor a string) is null -/
theorem lead_wrong_type_null (o : Lead) (root : Val) (env : Env) (f : Val → Res Val) (bare : Bool) (cur : Val)
    (h1 : ∀ t xs, cur ≠ .arr t xs) (h2 : ∀ kvs, cur ≠ .obj kvs) (h3 : ∀ s, cur ≠ .str s) :
    o.val root env f bare cur = .ok .null := by
  cases cur <;> first
    | exact absurd rfl (h1 _ _)
    | exact absurd rfl (h2 _)
    | exact absurd rfl (h3 _)
    | (cases o <;> rfl)

namespace Ex
open Jmes.Grammar.Ex
/-- `[null, 1, null, 2]` -/
def arr4 : Val := .arr .plain [.null, one, .null, .num (.jnum (bs "2"))]
def two : Val := .num (.jnum (bs "2"))

/-- **`[1:]` on `[null, 1, null, 2]` is `[1, 2]`** (Go: `[1,2]`), and so are `@ | [1:]`, `([1:])`, `@ | [1:] | [*]` -/
example : search (bs "[1:]") arr4 = .ok (.arr .plain [one, two]) :=
  (lead_slice_text_value (some (int "1")) none none (by decide) (e := bs "[1:]") (by decide)
    [.null, one, .null, two] (by decide)).trans rfl
example : search (bs "@ | [1:]") arr4 = .ok (.arr .plain [one, two]) :=
  (lead_slice_after_pipe_value (some (int "1")) none none (by decide) (A := cur) (by decide) (by decide)
    (e := bs "@ | [1:]") (by decide) arr4 [.null, one, .null, two] (by decide) rfl).trans rfl
example : search (bs "([1:])") arr4 = .ok (.arr .plain [one, two]) :=
  (lead_paren_text (.slice (some (int "1")) none none) (show sliceOK _ _ _ = true by decide) (ρ := .icur) (Or.inl rfl) (e := bs "([1:])")
    (by decide) arr4).trans rfl
example : search (bs "@ | [1:] | [*]") arr4 = .ok (.arr .plain [one, two]) := by
  rw [search_eq_Sem (t := .bin (op .pipe "|") (.bin (op .pipe "|") cur (.slice .icur (some (int "1")) none none .icur))
    (.star .icur .icur)) (by decide) (by decide)]; rfl
/-- `[*]`, `[]`, `[?@]` at the start: nulls dropped (Go: `[1,2]`; `[1,2]` on `[null,[1,null],2]`; `[1,0]` on
    `[null,1,0,false]`) -/
example : search (bs "[*]") arr4 = .ok (.arr .plain [one, two]) :=
  (lead_star_text_value (ρ := .icur) (Or.inl rfl) (e := bs "[*]") (by decide) [.null, one, .null, two] id
    (fun _ _ => rfl)).trans rfl
example : search (bs "[]") (.arr .plain [.null, .arr .plain [one, .null], two]) = .ok (.arr .plain [one, two]) :=
  (lead_flat_text_value (ρ := .icur) (Or.inl rfl) (e := bs "[]") (by decide) [.null, .arr .plain [one, .null], two] id
    (by intro x hx t ys h; simp only [List.mem_cons, List.not_mem_nil, or_false] at hx
        rcases hx with rfl | rfl | rfl <;> cases h; rfl) (fun _ _ => rfl)).trans rfl
example : search (bs "[?@]") (.arr .plain [.null, one, .num (.jnum (bs "0")), .bool false]) =
    .ok (.arr .plain [one, .num (.jnum (bs "0"))]) :=
  (lead_filt_text_value (c := cur) (ρ := .icur) (by decide) (Or.inl rfl) (e := bs "[?@]") (by decide)
    [.null, one, .num (.jnum (bs "0")), .bool false] id id (fun _ _ => rfl) (fun _ _ => rfl)).trans rfl
/-- with a right-hand side, after a pipe, in parentheses -/
example : search (bs "a | [*].b") (.obj [(bs "a", .arr .plain [.obj [(bs "b", one)], .obj [], .null])]) =
    .ok (.arr .plain [one]) :=
  (lead_after_pipe_text .star trivial (A := idt "a") (ρ := .dotId .icur (idt "b")) (by decide) (by decide)
    (Or.inr ⟨by decide, by decide⟩) (e := bs "a | [*].b") (by decide) _).trans rfl
example : search (bs "([1:].b)") (.arr .plain [.null, .obj [(bs "b", one)], .obj [(bs "b", .null)]]) =
    .ok (.arr .plain [one]) :=
  (lead_paren_text (.slice (some (int "1")) none none) (show sliceOK _ _ _ = true by decide) (ρ := .dotId .icur (idt "b"))
    (Or.inr ⟨by decide, by decide⟩) (e := bs "([1:].b)") (by decide) _).trans rfl
/-- on a string: `[1:]` is the string slice (Go: `"tr"` on `"str"`), `[*]` is null; on an object or a number: null -/
example : search (bs "[1:]") (.str (bs "str")) = .ok (.str (bs "tr")) :=
  (lead_text (.slice (some (int "1")) none none) (show sliceOK _ _ _ = true by decide) (ρ := .icur) (Or.inl rfl) (e := bs "[1:]") (by decide) _).trans rfl
example : search (bs "[*]") (.str (bs "str")) = .ok .null :=
  (lead_text .star trivial (ρ := .icur) (Or.inl rfl) (e := bs "[*]") (by decide) _).trans rfl
example : search (bs "[1:]") (.obj [(bs "a", one)]) = .ok .null :=
  (lead_text (.slice (some (int "1")) none none) (show sliceOK _ _ _ = true by decide) (ρ := .icur) (Or.inl rfl) (e := bs "[1:]") (by decide) _).trans
    rfl
example : search (bs "[*]") one = .ok .null :=
  (lead_text .star trivial (ρ := .icur) (Or.inl rfl) (e := bs "[*]") (by decide) _).trans
    (lead_wrong_type_null _ _ _ _ _ _ (fun _ _ h => by cases h) (fun _ h => by cases h) (fun _ h => by cases h))
end Ex

end Jmes.C01E
