/-
  C20E — fourth pass on "`==` is a deep, type-strict equivalence; numbers are compared by value".

  1. **Closure of `Covered`** (`evaluate_covered`, `search_covered`, `json_search_covered`).  C20C characterises `==`,
     `<`, … on numbers under two hypotheses per number: `NumOk` and `Covered`.  Here both are shown of EVERY number inside
     EVERY result: the evaluator never manufactures a `json.Number` (number provenance, `Jmes/Proofs/C20ELemmas.lean`:
     each `json.Number` text of a result occurs in the document or in a literal), arithmetic and the numeric builtins
     return `decimal128.Decimal`s, `length` / `find_*` return Go integers — both always `Covered` — and no binary float
     appears unless one is put in.  So the side condition is on the INPUT only: every `json.Number` text of the document
     and of the literals is `Band` (= `Regular` or `Tiny`).  `results_equal_iff_numX`, `eq_text_numbers_closed`,
     `le_text_numbers_closed`: the theorems of C20C with the per-use witnesses discharged.
     The variant asked for with C20B's `InRange` is FALSE (`inRange_not_enough`): `InRange` admits the subnormal band
     (`1e-6180`), which is not `Covered` and where `==` is NOT equality of the text values (`1e-6180 == 0`, `1e-6177 ==
     2e-6177`: silent underflow, KF07).  `InRange` plus "no subnormal text" is enough (`json_search_covered_inRange`).
  2. **`==` on numbers, totally** (`equal_num_iff_valX`): `valX a`, defined for every `Num`, is the value `==` sees;
     `a == b` iff both have a value and the values agree.  No value ⟺ not `NumOk` ⟺ equal to nothing, itself included
     (`equal_not_numOk`).  For `json.Number` texts of the JSON grammar the value is COMPUTED FROM THE TEXT
     (`jsonNumVal`, `valX_json`, `equal_json_iff`), class by class (`json_number_cases`): tiny — zero; regular, low
     (the subnormal band: last digit below `10^-6176`) and long-low — the text's rational value rounded ONCE, half-even,
     into the format: coefficient `≤ MAXSIG`, exponent `≥ EMIN` (`roundFmt`; `valX_regular`, `valX_low`, `valX_long`);
     huge / overflowing — none (`valX_huge`).  Texts outside the JSON grammar (only a Go caller can supply them):
     whatever `decimal128.Parse` makes of them (`equal_jnum_iff_parse`: `NaN` is not equal to itself, `Inf == Infinity`,
     `+1 == 1`, `1_000 == 1000`, `abc` equals nothing).
     Consequently the closure needs NO range hypothesis (`search_gram`, `json_results_equal_iff`,
     `eq_text_numbers_total`): for any JSON documents and any expressions that compile, two number results are `==` iff
     both have a value (`numVal`) and the values are the same rational.
  3. **Rounding** (`equal_jnum_iff_rounded`, `equal_jnum_dec_iff_window`): two texts with different rational values
     compare equal iff they round to the same decimal128: the `k = ndrop V` low digits of the digit string `V` — the
     fewest such that `V / 10^k ≤ MAXSIG` — are rounded away half-even; `t == ±q·10^(e+k)` iff `|V − q·10^k| ≤ 10^k / 2`,
     a tie only for even `q` (`rhe_window`).  Boundary (`rounding_boundary`): `12980742146337069071326240823050239`
     (= `MAXSIG`, 35 digits) is exact and differs from `…240`; `…241` to `…245` are `== …240`; `…246` is `== …250`.
  4. **Laws over all of `Val`**: transitivity needs nothing (`equal_trans_total`); symmetry needs unique object keys
     only (`equal_symm_total`, counterexample with a repeated key); `v == v` iff `JsonVal v` — every number inside has a
     value, no foreign value (`equal_self_iff_jsonVal`); hence `a == b` implies `a == a` and `b == b` (`equal_true_self`).

  The Go program agrees on every example of this file (checked from a scratch module against /repo).
-/
import Jmes.Proofs.C20ELitLemmas
import Jmes.Proofs.C20ESubLemmas
import Jmes.Properties.C20C
namespace Jmes.C20E
open Jmes Jmes.Dec Jmes.C05 Jmes.C20 Jmes.C20B Jmes.C20C

/-! ## 1. Every number of every result is `NumOk` and `Covered` -/

/-- the side condition on the expression: every literal is a JSON value whose number texts are `Band` — regular or
    tiny; not huge like `` `1e7000` ``, not subnormal like `` `1e-6180` `` (decidable: `by decide`) -/
def CovLits (n : INode) : Bool := n.all (INode.litOk CovLit)

example : CovLits (.binop .eq (.call .sum [.field [0x61]]) (.lit (.num (.jnum [0x33, 0x2E, 0x30])))) = true ∧
    CovLits (.lit (.num (.jnum [0x31, 0x65, 0x37, 0x30, 0x30, 0x30]))) = false := by decide

/-- **closure, general form**: on a JSON document, current value and environment (C20B's `JV`) whose `json.Number`
    texts are all `Band`, an expression whose literals are such evaluates — whatever operators and builtins it uses —
    to a value of the same kind; in particular EVERY number inside the result is `NumOk` and `Covered`. -/
theorem ieval_covered {root : Val} (hr : JV root) (hrb : Jn Band root) {n : INode} (hn : CovLits n = true)
    {cur : Val} (hc : JV cur) (hcb : Jn Band cur) {env : Env} (he : EnvJV env) (heb : JnEnv Band env) {w : Val}
    (hw : ieval root n cur env = .ok w) : JV w ∧ Jn Band w ∧ AllCovered w := by
  have h1 := ieval_jv hr (litsJV_of_all covLit_jv n hn) hc he hw
  have h2 := ieval_jn covLit_jn hrb hn hcb heb hw
  exact ⟨h1, h2, allCovered_of w h1 h2⟩

/-- **closure for `Evaluate(node, data)`**: every number of the result is `NumOk` and `Covered` -/
theorem evaluate_covered {n : INode} (hn : CovLits n = true) {d : Val} (hd : JV d) (hb : Jn Band d) {w : Val}
    (hw : evaluate n d = .ok w) : AllCovered w :=
  (ieval_covered hd hb hn hd hb (fun _ _ hm => by cases hm) (fun _ _ hm => by cases hm) hw).2.2

/-- `sum(a) / `2.50`` on `{"a": [1, 2]}`: the result — the decimal `1.2` — is `NumOk` and `Covered` -/
example : ∀ w, evaluate (.binop .div (.call .sum [.field [0x61]]) (.lit (.num (.jnum [0x32, 0x2E, 0x35, 0x30]))))
    (.obj [([0x61], .arr .plain [.num (.jnum [0x31]), .num (.jnum [0x32])])]) = .ok w → AllCovered w := fun w hw =>
  evaluate_covered (by decide) (covLit_jv _ (by decide)) (covLit_jn _ (by decide)) hw

/-- **closure for `Search(expr, data)`** -/
theorem search_covered {expr : Bytes} {n : INode} (hp : Parser.parse expr = .ok n) (hn : CovLits n = true) {d : Val}
    (hd : JV d) (hb : Jn Band d) {w : Val} (hw : search expr d = .ok w) : AllCovered w := by
  unfold search at hw
  rw [hp] at hw
  exact evaluate_covered hn hd hb hw

/-- **closure for decoded JSON documents**: if every number text of the decoded document is `Band` (a decidable check
    on the document), then every number inside every result of a search is `NumOk` and `Covered`, and the result is a
    `JsonVal` -/
theorem json_search_covered {s expr : Bytes} {n : INode} {d r : Val} (hs : Json.decode s = some d) (hb : Jn Band d)
    (hp : Parser.parse expr = .ok n) (hn : CovLits n = true) (h : search expr d = .ok r) :
    AllCovered r ∧ JsonVal r := by
  have hd := decoded_band_jv (decode_decoded hs) hb
  unfold search at h
  rw [hp] at h
  have := ieval_covered hd hb hn hd hb (fun _ _ hm => by cases hm) (fun _ _ hm => by cases hm) h
  exact ⟨this.2.2, this.1.1⟩

/-- `a` over the document `{"a":[1,2.50,-0,1E2],"b":null}` of C20B -/
example : AllCovered (.arr .plain [.num (.jnum [0x31]), .num (.jnum [0x32, 0x2E, 0x35, 0x30]), .num (.jnum [0x2D, 0x30]),
    .num (.jnum [0x31, 0x45, 0x32])]) :=
  (json_search_covered decode_docText (covLit_jn _ (by decide)) parse_a (by decide)
    (by unfold search; rw [parse_a]; rfl)).1

/-! ### the hypothesis in terms of C20B's `InRange` -/

mutual
/-- a decoded value whose numbers are of moderate size (`InRange`) and none of whose number texts is subnormal has
    only `Band` number texts -/
theorem inRange_band : ∀ v : Val, Decoded v → InRange v → Jn (fun t => ¬ Subnormal t) v → Jn Band v
  | .null, _, _, _ => by simp
  | .bool _, _, _, _ => by simp
  | .str _, _, _, _ => by simp
  | .num (.jnum t), hd, hr, hs => by
    simp only [Decoded] at hd
    simp only [InRange] at hr
    rw [jn_jnum] at hs ⊢
    rcases moderate_classes hd hr with h | h | h
    · exact .inl h
    · exact .inr h
    · exact absurd h hs
  | .num (.dec _), _, _, _ => by simp
  | .num (.int _ _), _, _, _ => by simp
  | .num (.f64 _), hd, _, _ => by simp [Decoded] at hd
  | .num (.f32 _), hd, _, _ => by simp [Decoded] at hd
  | .arr _ xs, hd, hr, hs => by
    simp only [Decoded] at hd
    simp only [InRange] at hr
    simp only [Jn] at hs ⊢
    exact inRangeL_band xs hd.2 hr hs
  | .obj kvs, hd, hr, hs => by
    simp only [Decoded] at hd
    simp only [InRange] at hr
    simp only [Jn] at hs ⊢
    exact inRangeF_band kvs hd.2 hr hs
  | .foreign _, _, _, _ => by simp
theorem inRangeL_band : ∀ xs : List Val, DecodedL xs → InRangeL xs → JnL (fun t => ¬ Subnormal t) xs → JnL Band xs
  | [], _, _, _ => trivial
  | x :: xs, hd, hr, hs => by
    simp only [DecodedL] at hd
    simp only [InRangeL] at hr
    simp only [JnL] at hs ⊢
    exact ⟨inRange_band x hd.1 hr.1 hs.1, inRangeL_band xs hd.2 hr.2 hs.2⟩
theorem inRangeF_band : ∀ kvs : List (Bytes × Val), DecodedF kvs → InRangeF kvs → JnF (fun t => ¬ Subnormal t) kvs →
    JnF Band kvs
  | [], _, _, _ => trivial
  | (_, x) :: kvs, hd, hr, hs => by
    simp only [DecodedF] at hd
    simp only [InRangeF] at hr
    simp only [JnF] at hs ⊢
    exact ⟨inRange_band x hd.1 hr.1 hs.1, inRangeF_band kvs hd.2 hr.2 hs.2⟩
end

/-- **the closure under C20B's `InRange`, with the one exclusion it needs**: document decoded from JSON text, numbers
    of moderate size, no number text in the subnormal band (last digit below `10^-6176` while the first digit is at
    most 39 places below it) -/
theorem json_search_covered_inRange {s expr : Bytes} {n : INode} {d r : Val} (hs : Json.decode s = some d)
    (hr : InRange d) (hsub : Jn (fun t => ¬ Subnormal t) d) (hp : Parser.parse expr = .ok n) (hn : CovLits n = true)
    (h : search expr d = .ok r) : AllCovered r ∧ JsonVal r :=
  json_search_covered hs (inRange_band d (decode_decoded hs) hr hsub) hp hn h

example : AllCovered (.arr .plain [.num (.jnum [0x31]), .num (.jnum [0x32, 0x2E, 0x35, 0x30]), .num (.jnum [0x2D, 0x30]),
    .num (.jnum [0x31, 0x45, 0x32])]) :=
  (json_search_covered_inRange decode_docText inRange_docVal (by simp [docVal, Jn, JnF, JnL, JNum]; decide) parse_a
    (by decide) (by unfold search; rw [parse_a]; rfl)).1

/-- `1e-6180`, `1e-6177`, `2e-6177`, `6e-6177`, `1e-6176` -/
def sub6180 : Bytes := [0x31, 0x65, 0x2D, 0x36, 0x31, 0x38, 0x30]
def sub1e6177 : Bytes := [0x31, 0x65, 0x2D, 0x36, 0x31, 0x37, 0x37]
def sub2e6177 : Bytes := [0x32, 0x65, 0x2D, 0x36, 0x31, 0x37, 0x37]
def sub6e6177 : Bytes := [0x36, 0x65, 0x2D, 0x36, 0x31, 0x37, 0x37]
def min6176 : Bytes := [0x31, 0x65, 0x2D, 0x36, 0x31, 0x37, 0x36]

/-- **`InRange` alone is not enough (counterexample to the closure as first worded)**: the JSON document `1e-6180`
    decodes, is `Decoded` and `InRange`, the expression `@` returns it, and it is NOT `Covered` — rightly so, because in
    the subnormal band `==` is not equality of the values: `1e-6180 == 0` and `1e-6177 == 2e-6177` are true although the
    rational values differ (silent underflow, known finding KF07), while `6e-6177 == 1e-6176` (rounded up to the
    smallest subnormal) and `6e-6177 != 1e-6177`. -/
theorem inRange_not_enough :
    Json.decode sub6180 = some (.num (.jnum sub6180)) ∧ Decoded (.num (.jnum sub6180)) ∧ InRange (.num (.jnum sub6180)) ∧
    evaluate .current (.num (.jnum sub6180)) = .ok (.num (.jnum sub6180)) ∧
    ¬ Covered (.jnum sub6180) ∧ Subnormal sub6180 ∧
    equal (.num (.jnum sub6180)) (.num (.jnum [0x30])) = true ∧ ratVal sub6180 ≠ ratVal [0x30] ∧
    equal (.num (.jnum sub1e6177)) (.num (.jnum sub2e6177)) = true ∧ ratVal sub1e6177 ≠ ratVal sub2e6177 ∧
    equal (.num (.jnum sub6e6177)) (.num (.jnum min6176)) = true ∧
    equal (.num (.jnum sub6e6177)) (.num (.jnum sub1e6177)) = false := by
  refine ⟨by rfl, ?_, ?_, rfl, ?_, by decide, by decide, by decide, by decide, by decide, by decide +kernel, by decide +kernel⟩
  · simp only [Decoded]; exact (JsonGrammar.isValidNumber_iff _).mp (by decide)
  · simp only [InRange]; decide
  · show ¬ (Regular sub6180 ∨ Tiny sub6180); decide

/-! ### C20C's theorems with the witnesses discharged -/

/-- **numbers computed by any two searches are `==` iff their values are the same** — `C20C.equal_iff_numX` without
    `NumOk` / `Covered` hypotheses: they hold of everything evaluated from documents and literals with `Band` texts -/
theorem results_equal_iff_numX {n1 n2 : INode} (h1 : CovLits n1 = true) (h2 : CovLits n2 = true) {d1 d2 : Val}
    (hd1 : JV d1) (hb1 : Jn Band d1) (hd2 : JV d2) (hb2 : Jn Band d2) {a b : Num}
    (ha : evaluate n1 d1 = .ok (.num a)) (hb : evaluate n2 d2 = .ok (.num b)) :
    equal (.num a) (.num b) = true ↔ (numX a).map XRat.norm = (numX b).map XRat.norm := by
  obtain ⟨oa, ca⟩ := allCovered_num.mp (evaluate_covered h1 hd1 hb1 ha)
  obtain ⟨ob, cb⟩ := allCovered_num.mp (evaluate_covered h2 hd2 hb2 hb)
  exact equal_iff_numX oa ob ca cb

/-- … and every such number has a value, finite except for the infinities a `Decimal` can hold -/
theorem results_numX_some {n : INode} (h : CovLits n = true) {d : Val} (hd : JV d) (hb : Jn Band d) {a : Num}
    (ha : evaluate n d = .ok (.num a)) : ∃ x, numX a = some x := by
  obtain ⟨oa, ca⟩ := allCovered_num.mp (evaluate_covered h hd hb ha)
  exact numX_some oa ca

example : ∃ x, numX (.dec (.fin false 3 0)) = some x :=
  results_numX_some (n := .call .sum [.field [0x61]]) (by decide) (d := C20C.docA) (covLit_jv _ (by decide))
    (covLit_jn _ (by decide)) (by rfl)

open Jmes.C17B Jmes.Grammar Jmes.Grammar.Ex in
/-- **`A == B` on expression text, both sides numbers, no witness needed**: `C20C.eq_text_numbers` with `NumOk` and
    `Covered` of the two operand values discharged by the closure theorem -/
theorem eq_text_numbers_closed {A B : PTree} {op : Token} (hop : op.type = .equal) (hA : WellPrec A)
    (hAr : lvlCmp ≤ rlevel A) (hB : WellPrec B) (hBl : lvlCmp < llevel B) {e : Bytes}
    (hl : Lexes e (Grammar.flatten A ++ op :: Grammar.flatten B))
    (hlA : CovLits (erase A) = true) (hlB : CovLits (erase B) = true) {d : Val} (hd : JV d) (hb : Jn Band d) {a b : Num}
    (hea : evaluate (erase A) d = .ok (.num a)) (heb : evaluate (erase B) d = .ok (.num b)) :
    search e d = .ok (.bool (decide ((numX a).map XRat.norm = (numX b).map XRat.norm))) := by
  obtain ⟨oa, ca⟩ := allCovered_num.mp (evaluate_covered hlA hd hb hea)
  obtain ⟨ob, cb⟩ := allCovered_num.mp (evaluate_covered hlB hd hb heb)
  exact eq_text_numbers hop hA hAr hB hBl hl d hea heb oa ob ca cb

open Jmes.C17B Jmes.Grammar Jmes.Grammar.Ex in
/-- **`A <= B` on expression text, both sides numbers, no witness needed** -/
theorem le_text_numbers_closed {A B : PTree} {op : Token} (hop : op.type = .lessOrEqual) (hA : WellPrec A)
    (hAr : lvlCmp ≤ rlevel A) (hB : WellPrec B) (hBl : lvlCmp < llevel B) {e : Bytes}
    (hl : Lexes e (Grammar.flatten A ++ op :: Grammar.flatten B))
    (hlA : CovLits (erase A) = true) (hlB : CovLits (erase B) = true) {d : Val} (hd : JV d) (hb : Jn Band d) {a b : Num}
    (hea : evaluate (erase A) d = .ok (.num a)) (heb : evaluate (erase B) d = .ok (.num b)) {xa xb : XRat}
    (hxa : numX a = some xa) (hxb : numX b = some xb) :
    search e d = .ok (.bool (decide (XRat.le xa xb))) := by
  obtain ⟨oa, ca⟩ := allCovered_num.mp (evaluate_covered hlA hd hb hea)
  obtain ⟨ob, cb⟩ := allCovered_num.mp (evaluate_covered hlB hd hb heb)
  exact le_text_numbers hop hA hAr hB hBl hl d hea heb oa ob ca cb hxa hxb

section Examples
open Jmes.C17B Jmes.Grammar Jmes.Grammar.Ex

/-- ``sum(a) == `3.0` `` on `{"a": [1, 2]}`: no `NumOk` / `Covered` argument is supplied for the operands -/
example : search (bs "sum(a) == `3.0`") docA = .ok (.bool true) :=
  (eq_text_numbers_closed (A := tSumA) (B := tLit "`3.0`") (op := op .equal "==") rfl (by decide) (by decide) (by decide)
    (by decide) (by decide) (by decide) (by decide) (d := docA) (covLit_jv _ (by decide)) (covLit_jn _ (by decide))
    (a := .dec (.fin false 3 0)) (b := .jnum (bs "3.0")) (by rfl) (by rfl)).trans
    (congrArg (fun b => Res.ok (Val.bool b)) (by decide))

/-- ``length(@) <= `2.0` `` on `[true, null]` -/
example : search (bs "length(@) <= `2.0`") docL = .ok (.bool true) :=
  (le_text_numbers_closed (A := tLenCur) (B := tLit "`2.0`") (op := op .lessOrEqual "<=") rfl (by decide) (by decide)
    (by decide) (by decide) (by decide) (by decide) (by decide) (d := docL) (covLit_jv _ (by decide))
    (covLit_jn _ (by decide)) (a := .int .i64 2) (b := .jnum (bs "2.0")) (by rfl) (by rfl) rfl rfl).trans
    (congrArg (fun b => Res.ok (Val.bool b)) (by decide))

end Examples

/-! ## 2. `==` on numbers, for every `Num` whatsoever -/

/-- **the total characterisation of `==` on numbers**: `valX a` (defined for every number of every kind: the decimal
    `toDecimal` produces, as an extended rational; `none` when there is none or it is NaN) is the value `==` sees:
    two numbers are equal iff both have a value and the values are the same.  No `NumOk`, no `Covered`. -/
theorem equal_num_iff_valX (a b : Num) :
    equal (.num a) (.num b) = true ↔ ∃ x y, valX a = some x ∧ valX b = some y ∧ x.norm = y.norm := by
  rw [equal_num_by_value]
  constructor
  · rintro ⟨dx, dy, hx, hy, hc⟩
    obtain ⟨x, y, h1, h2, h3⟩ := (cmp_zero_iff_decX dx dy).mp hc
    exact ⟨x, y, valX_eq_some_iff.mpr ⟨dx, hx, h1⟩, valX_eq_some_iff.mpr ⟨dy, hy, h2⟩, h3⟩
  · rintro ⟨x, y, hx, hy, h⟩
    obtain ⟨dx, h1, h2⟩ := valX_eq_some_iff.mp hx
    obtain ⟨dy, h3, h4⟩ := valX_eq_some_iff.mp hy
    exact ⟨dx, dy, h1, h3, (cmp_zero_iff_decX dx dy).mpr ⟨x, y, h2, h4, h⟩⟩

/-- the same as one equation: `a` has a value, and `b` has the same -/
theorem equal_num_iff_valX' (a b : Num) :
    equal (.num a) (.num b) = true ↔ (valX a).isSome = true ∧ (valX a).map XRat.norm = (valX b).map XRat.norm := by
  rw [equal_num_iff_valX]
  cases valX a <;> cases valX b <;> simp

/-- the `Decimal` 3, the `int64` 3, the `float64` 3, the texts `3.0` and `+3` (not JSON) all have the value 3; NaN in any
    form, `1e7000` and `abc` have none; `Inf` has the value `+∞` -/
example : valX (.dec (.fin false 3 0)) = some (.fin (3, 0)) ∧ valX (.int .i64 3) = some (.fin (3, 0)) ∧
    valX (.f64 (.fin false 3 0)) = some (.fin (3, 0)) ∧ valX (.jnum [0x33, 0x2E, 0x30]) = some (.fin (3, 0)) ∧
    valX (.jnum [0x2B, 0x33]) = some (.fin (3, 0)) ∧
    valX (.dec .nan) = none ∧ valX (.f64 .nan) = none ∧ valX (.jnum [0x4E, 0x61, 0x4E]) = none ∧
    valX (.jnum [0x31, 0x65, 0x37, 0x30, 0x30, 0x30]) = none ∧ valX (.jnum [0x61, 0x62, 0x63]) = none ∧
    valX (.jnum [0x49, 0x6E, 0x66]) = some (.inf false) := by decide

/-- **on the numbers C20C covers `valX` is C20C's `numX`** (up to the representative), so `equal_num_iff_valX` extends
    `C20C.equal_iff_numX` to all of `Num` -/
theorem valX_eq_numX {a : Num} (hok : NumOk a) (hc : Covered a) : (valX a).map XRat.norm = (numX a).map XRat.norm :=
  valX_numX hok hc

example : (valX (.jnum [0x33, 0x2E, 0x30])).map XRat.norm = (numX (.jnum [0x33, 0x2E, 0x30])).map XRat.norm :=
  valX_eq_numX (numOk_regular (by decide)) (.inl (by decide))

/-- a number has a value iff it is `NumOk` -/
theorem valX_some_iff_numOk (a : Num) : (∃ x, valX a = some x) ↔ NumOk a := valX_isSome_iff a

example : ∃ x, valX (.int .u8 7) = some x := (valX_some_iff_numOk _).mpr ⟨_, rfl, by decide⟩

/-- **a number without a value is equal to nothing, itself included** — the excluded classes: NaN decimals and floats,
    `json.Number` texts that `decimal128.Parse` refuses (huge ones like `1e7000`; non-numbers like `abc`) or reads as NaN -/
theorem equal_not_numOk {a : Num} (h : ¬ NumOk a) (v : Val) :
    equal (.num a) v = false ∧ equal v (.num a) = false := by
  have key : ∀ b : Num, equal (.num a) (.num b) = false ∧ equal (.num b) (.num a) = false := by
    intro b
    constructor
    · rw [Bool.eq_false_iff, Ne, equal_num_iff_valX]
      rintro ⟨x, _, hx, _⟩
      exact h ((valX_some_iff_numOk a).mp ⟨x, hx⟩)
    · rw [Bool.eq_false_iff, Ne, equal_num_iff_valX]
      rintro ⟨_, y, _, hy, _⟩
      exact h ((valX_some_iff_numOk a).mp ⟨y, hy⟩)
  cases v with
  | num b => exact key b
  | _ => exact ⟨equal_type_strict _ _ (by simp [jsonType]), equal_type_strict _ _ (by simp [jsonType])⟩

example : equal (.num (.jnum [0x61, 0x62, 0x63])) (.num (.jnum [0x61, 0x62, 0x63])) = false :=
  (equal_not_numOk (a := .jnum [0x61, 0x62, 0x63]) ((valX_none_iff _).mp (by decide)) _).1

/-- **`a == a` iff `a` has a value** -/
theorem equal_self_num_iff (a : Num) : equal (.num a) (.num a) = true ↔ NumOk a :=
  equal_self_iff (.num a) trivial

example : equal (.num (.f64 (.inf true))) (.num (.f64 (.inf true))) = true :=
  (equal_self_num_iff _).mpr ⟨_, rfl, by decide⟩

/-! ### `json.Number` texts, class by class -/

/-- **for `json.Number`s `==` is decided by `decimal128.Parse` alone**, whatever the texts are — in or outside the JSON
    grammar: both must parse, neither to NaN, and the decimals must compare equal -/
theorem equal_jnum_iff_parse (s t : Bytes) :
    equal (.num (.jnum s)) (.num (.jnum t)) = true ↔
      ∃ d e, Dec.parse s = .ok d ∧ Dec.parse t = .ok e ∧ Dec.cmp d e = some 0 := by
  rw [equal_num_by_value]
  simp only [toDecimal]
  cases hs : Dec.parse s <;> cases ht : Dec.parse t <;> simp

/-- texts OUTSIDE the JSON grammar (a `json.Number` built by a Go caller; `Json.decode` never produces one):
    `NaN` is not equal to itself; `Inf == Infinity`; `+1 == 1`, `.5 == 0.5`, `1. == 1`, `01 == 1` and even
    `1_000 == 1000` (decimal128.Parse accepts digit separators); `abc`, the empty text, `0x10` and ` 1` are equal to
    nothing, themselves included -/
example :
    equal (.num (.jnum [0x4E, 0x61, 0x4E])) (.num (.jnum [0x4E, 0x61, 0x4E])) = false ∧
    equal (.num (.jnum [0x49, 0x6E, 0x66])) (.num (.jnum [0x49, 0x6E, 0x66, 0x69, 0x6E, 0x69, 0x74, 0x79])) = true ∧
    equal (.num (.jnum [0x2B, 0x31])) (.num (.jnum [0x31])) = true ∧
    equal (.num (.jnum [0x2E, 0x35])) (.num (.jnum [0x30, 0x2E, 0x35])) = true ∧
    equal (.num (.jnum [0x31, 0x2E])) (.num (.jnum [0x31])) = true ∧
    equal (.num (.jnum [0x30, 0x31])) (.num (.jnum [0x31])) = true ∧
    equal (.num (.jnum [0x31, 0x5F, 0x30, 0x30, 0x30])) (.num (.jnum [0x31, 0x30, 0x30, 0x30])) = true ∧
    equal (.num (.jnum [0x61, 0x62, 0x63])) (.num (.jnum [0x61, 0x62, 0x63])) = false ∧
    equal (.num (.jnum [])) (.num (.jnum [])) = false ∧
    equal (.num (.jnum [0x30, 0x78, 0x31, 0x30])) (.num (.jnum [0x30, 0x78, 0x31, 0x30])) = false ∧
    equal (.num (.jnum [0x20, 0x31])) (.num (.jnum [0x20, 0x31])) = false := by decide

/-- the normal form of the value of a regular text, also when the text is a zero (which is tiny as well) -/
theorem numX_regular {t : Bytes} (h : Regular t) :
    (numX (.jnum t)).map XRat.norm = some (.fin (ratNorm (round34 (ratRaw t)))) := by
  by_cases ht : Tiny t
  · have hm : (numParts t).mant = 0 := jnum_classes_disjoint.2.2.2.2.2 ⟨h, ht⟩
    have h0 : (ratRaw t).1 = 0 := by simp only [ratRaw, hm]; split <;> rfl
    have : ratNorm (round34 (ratRaw t)) = (0, 0) := by
      rw [ratNorm_eq_zero_iff, round34_fst_eq_zero_iff]; exact h0
    rw [this]
    simp only [numX, ht, if_true, Option.map_some, XRat.norm]
    rfl
  · simp only [numX, ht, if_false, Option.map_some, XRat.norm]

/-- **regular texts** (grammatical, no overflow, no underflow): the value is the text's rational value rounded
    half-even to the longest coefficient `≤ MAXSIG` -/
theorem valX_regular {t : Bytes} (h : Regular t) :
    (valX (.jnum t)).map XRat.norm = some (.fin (ratNorm (round34 (ratRaw t)))) := by
  rw [valX_numX (numOk_regular h) (.inl h), numX_regular h]

example : (valX (.jnum [0x32, 0x2E, 0x35, 0x30])).map XRat.norm = some (.fin (25, -1)) :=
  (valX_regular (t := [0x32, 0x2E, 0x35, 0x30]) (by decide)).trans (by decide)

/-- **tiny texts** (zero digits, or more than 39 places below the smallest subnormal): the value is zero -/
theorem valX_tiny {t : Bytes} (h : Tiny t) : valX (.jnum t) = some (.fin (0, 0)) := by
  simp only [valX, toDecimal_tiny h, Option.bind_some, decX, decRat]
  cases (numParts t).neg <;> rfl

example : valX (.jnum [0x31, 0x65, 0x2D, 0x37, 0x30, 0x30, 0x30]) = some (.fin (0, 0)) := valX_tiny (by decide)

/-- **huge texts** (overflow; KF02 / KF09): no value — equal to nothing, not even to themselves -/
theorem valX_huge {t : Bytes} (h : Huge t) : valX (.jnum t) = none := by
  simp only [valX, toDecimal_huge h, Option.bind_none]

example : valX (.jnum [0x31, 0x65, 0x37, 0x30, 0x30, 0x30]) = none :=
  valX_huge ⟨(JsonGrammar.isValidNumber_iff _).mp (by decide), by decide, by decide⟩

/-- **every text of the JSON grammar — the subnormal ones included — has a FINITE value or none** (never NaN, never an
    infinity); none only by a range error of `decimal128.Parse` -/
theorem valX_grammatical {t : Bytes} (hg : Lexical.JNumber t) :
    (∃ p, valX (.jnum t) = some (.fin p)) ∨ (valX (.jnum t) = none ∧ Dec.parse t = .range (.inf (numParts t).neg)) := by
  obtain ⟨neg, b, ip, fp, ex, rfl, hwf⟩ := jnumber_numText hg
  have hb : isDigit b = true := hwf.1 b (List.mem_cons_self ..)
  rw [numParts_numText neg b ip fp ex hwf]
  simp only [valX, toDecimal]
  rw [parse_numText neg b ip fp ex hb]
  rcases parseNumber_total neg true b ip fp ex hwf with ⟨c, e, hp⟩ | hp
  · left; rw [hp]; exact ⟨_, rfl⟩
  · right; rw [hp]; exact ⟨rfl, rfl⟩

example : (∃ p, valX (.jnum sub6180) = some (.fin p)) ∨
    (valX (.jnum sub6180) = none ∧ Dec.parse sub6180 = .range (.inf (numParts sub6180).neg)) :=
  valX_grammatical ((JsonGrammar.isValidNumber_iff _).mp (by decide))

/-- **texts of moderate size — the subnormal ones included — have a finite value** (which one: `valX_low`, `valX_long`
    below), so they are equal to themselves and all laws of C20 apply to them -/
theorem valX_moderate {t : Bytes} (hg : Lexical.JNumber t) (hm : Moderate t) : ∃ p, valX (.jnum t) = some (.fin p) := by
  rcases valX_grammatical hg with h | ⟨h, _⟩
  · exact h
  · exact absurd (numOk_moderate hg hm) ((valX_none_iff _).mp h)

example : valX (.jnum sub6e6177) = some (.fin (1, -6176)) ∧ valX (.jnum sub1e6177) = some (.fin (0, 0)) := by
  decide

/-- a text of the JSON grammar is equal to itself iff `decimal128.Parse` does not report a range error -/
theorem equal_self_jnum_iff {t : Bytes} (hg : Lexical.JNumber t) :
    equal (.num (.jnum t)) (.num (.jnum t)) = true ↔ Dec.parse t ≠ .range (.inf (numParts t).neg) := by
  rw [equal_self_num_iff, ← valX_some_iff_numOk]
  rcases valX_grammatical hg with ⟨p, hp⟩ | ⟨hn, hr⟩
  · constructor
    · intro _ hr
      simp only [valX, toDecimal, hr] at hp
      cases hp
    · intro _; exact ⟨_, hp⟩
  · constructor
    · rintro ⟨x, hx⟩; rw [hn] at hx; cases hx
    · intro h; exact absurd hr h

example : equal (.num (.jnum sub6180)) (.num (.jnum sub6180)) = true :=
  (equal_self_jnum_iff ((JsonGrammar.isValidNumber_iff _).mp (by decide))).mpr (by decide)

/-! ### below `10^EMIN`: the subnormal band, exactly -/

/-- the overflow test of a text with a long digit string: after the `ndrop V` low digits have been rounded away the
    exponent (one more when the rounding carries to `MAXSIG + 1`) exceeds `EMAX` -/
def Over (t : Bytes) : Prop :=
  (ratRaw t).2 + (ndrop (numParts t).mant : Nat) +
    (if rhe (numParts t).mant (ndrop (numParts t).mant) ≤ MAXSIG then 0 else 1) > EMAX

instance (t : Bytes) : Decidable (Over t) := by unfold Over; exact inferInstance

theorem ratRaw_eq (t : Bytes) :
    ratRaw t = (if (numParts t).neg then -((numParts t).mant : Int) else ((numParts t).mant : Int), (ratRaw t).2) := rfl

theorem roundFmt_ratRaw (t : Bytes) :
    roundFmt (ratRaw t) = decRat (.fin (numParts t).neg
      (rhe (numParts t).mant (max (ndrop (numParts t).mant) (EMIN - (ratRaw t).2).toNat))
      ((ratRaw t).2 + (max (ndrop (numParts t).mant) (EMIN - (ratRaw t).2).toNat : Nat))) := by
  conv => lhs; rw [ratRaw_eq t]
  exact roundFmt_signed _ _ _

/-- **the value of a `Low` text** (last digit below `10^EMIN`, also after the digit string has been cut to `MAXSIG`: every
    text of the subnormal band with at most 34 digits): the digit string `V` with its `EMIN − E` digits below `10^EMIN`
    rounded away, half-even, in one step — `roundFmt`; never an error -/
theorem valX_low {t : Bytes} (h : Low t) :
    (valX (.jnum t)).map XRat.norm = some (.fin (ratNorm (roundFmt (ratRaw t)))) := by
  rw [valX_of_normalize (toDecimal_low h), roundFmt_ratRaw]
  have hlow := h.low
  have hK : max (ndrop (numParts t).mant) (EMIN - (ratRaw t).2).toNat = (EMIN - (ratRaw t).2).toNat := by omega
  have hE : (ratRaw t).2 + ((EMIN - (ratRaw t).2).toNat : Nat) = EMIN := by omega
  rw [hK, hE]

/-- `1e-6177` and `5e-6177` (a tie: to the even 0) are zero; `6e-6177` is `1e-6176`; `15e-6177` and `25e-6177` are both
    `2e-6176` (ties to even); `123456e-6180` is `12e-6176` -/
example : (valX (.jnum sub1e6177)).map XRat.norm = some (.fin (0, 0)) ∧
    (valX (.jnum sub6e6177)).map XRat.norm = some (.fin (1, -6176)) ∧
    (valX (.jnum [0x31, 0x35, 0x65, 0x2D, 0x36, 0x31, 0x37, 0x37])).map XRat.norm = some (.fin (2, -6176)) ∧
    (valX (.jnum [0x32, 0x35, 0x65, 0x2D, 0x36, 0x31, 0x37, 0x37])).map XRat.norm = some (.fin (2, -6176)) ∧
    (valX (.jnum [0x31, 0x32, 0x33, 0x34, 0x35, 0x36, 0x65, 0x2D, 0x36, 0x31, 0x38, 0x30])).map XRat.norm =
      some (.fin (12, -6176)) :=
  ⟨(valX_low (by decide)).trans (by decide), (valX_low (by decide)).trans (by decide),
   (valX_low (by decide)).trans (by decide), (valX_low (by decide)).trans (by decide),
   (valX_low (by decide)).trans (by decide)⟩

/-- **the value of a `LongLow` text** (last digit below `10^EMIN`, but a digit string so long that cut to `MAXSIG` it
    ends at or above `10^EMIN`): rounded like a regular text — again `roundFmt`; no value when that overflows (which
    takes more than 12000 digits) -/
theorem valX_long {t : Bytes} (h : LongLow t) :
    (valX (.jnum t)).map XRat.norm = if Over t then none else some (.fin (ratNorm (roundFmt (ratRaw t)))) := by
  have hd := toDecimal_long h
  by_cases c : Over t
  · have c' := c
    unfold Over at c'
    simp only [c', if_true] at hd
    simp only [c, if_true, valX, hd, Option.bind_none, Option.map_none]
  · have c' := c
    unfold Over at c'
    simp only [c', if_false] at hd
    simp only [c, if_false]
    rw [valX_of_normalize hd, roundFmt_ratRaw]
    have hre := h.reach
    have hK : max (ndrop (numParts t).mant) (EMIN - (ratRaw t).2).toNat = ndrop (numParts t).mant := by omega
    rw [hK]

/-- `1` followed by 39 zeros and `e-6180`: 40 digits, last digit at `10^-6180`, value `10^-6141` exactly -/
example : LongLow ([0x31] ++ List.replicate 39 0x30 ++ [0x65, 0x2D, 0x36, 0x31, 0x38, 0x30]) ∧
    (valX (.jnum ([0x31] ++ List.replicate 39 0x30 ++ [0x65, 0x2D, 0x36, 0x31, 0x38, 0x30]))).map XRat.norm =
      some (.fin (1, -6141)) := by
  refine ⟨by decide, ?_⟩
  rw [valX_long (by decide), if_neg (by decide)]
  decide

/-- **every text of the JSON number grammar belongs to one of five classes** — tiny, regular, huge, low, long-low — on
    each of which the value is given above: `valX_tiny`, `valX_regular`, `valX_huge`, `valX_low`, `valX_long` -/
theorem json_number_cases {t : Bytes} (hg : Lexical.JNumber t) : Tiny t ∨ Regular t ∨ Huge t ∨ Low t ∨ LongLow t := by
  rcases jnum_classes hg with h | h | h | h
  · exact .inr (.inl h)
  · exact .inl h
  · exact .inr (.inr (.inl h))
  · rcases low_or_longLow hg h.efield h.nz h.below with h' | h'
    · exact .inr (.inr (.inr (.inl h')))
    · exact .inr (.inr (.inr (.inr h')))

example : Low sub6180 ∧ ¬ Tiny sub6180 ∧ ¬ Regular sub6180 := by decide

/-- **the value of a JSON number text, computed from the text alone** (digit string, exponent, `ndrop`, `rhe`; nothing of
    the decimal128 model): zero for tiny texts; the text's rational value rounded into the format — coefficient at most
    `MAXSIG`, exponent at least `EMIN`, ONE half-even rounding (`round34` / `roundFmt`) — for regular, low and long-low
    texts; none on overflow -/
def jsonNumVal (t : Bytes) : Option (Int × Int) :=
  if Tiny t then some (0, 0)
  else if Regular t then some (round34 (ratRaw t))
  else if Low t then some (roundFmt (ratRaw t))
  else if LongLow t ∧ ¬ Over t then some (roundFmt (ratRaw t))
  else none

/-- for regular texts `round34` is `roundFmt`: one formula for everything that is rounded -/
theorem round34_eq_roundFmt {t : Bytes} (h : Regular t) : round34 (ratRaw t) = roundFmt (ratRaw t) := by
  refine (roundFmt_eq_round34 ?_).symm
  have := h.lo
  omega

example : roundFmt (ratRaw [0x32, 0x2E, 0x35, 0x30]) = (250, -2) :=
  (round34_eq_roundFmt (t := [0x32, 0x2E, 0x35, 0x30]) (by decide)).symm.trans (by decide)

/-- **`valX` of a `json.Number` of the JSON grammar is `jsonNumVal`** — the characterisation of what `==` sees in a JSON
    number is total: no `Covered`, no `InRange`, no exception for the subnormal band -/
theorem valX_json {t : Bytes} (hg : Lexical.JNumber t) :
    (valX (.jnum t)).map XRat.norm = (jsonNumVal t).map (fun p => XRat.fin (ratNorm p)) := by
  unfold jsonNumVal
  by_cases h1 : Tiny t
  · simp only [h1, if_true, valX_tiny h1, Option.map_some, XRat.norm]
  by_cases h2 : Regular t
  · simp only [h1, h2, if_true, if_false, valX_regular h2, Option.map_some]
  by_cases h3 : Low t
  · simp only [h1, h2, h3, if_true, if_false, valX_low h3, Option.map_some]
  simp only [h1, h2, h3, if_false]
  rcases json_number_cases hg with h | h | h | h | h
  · exact absurd h h1
  · exact absurd h h2
  · have hn : ¬ (LongLow t ∧ ¬ Over t) := by
      rintro ⟨hl, _⟩
      have := hl.below
      rcases h.big with ⟨g, _⟩ | ⟨_, g⟩ | ⟨_, g, _⟩ | ⟨_, _, g, _⟩
      · have := hl.efield; omega
      · have : EMIN < EMAX := by decide
        omega
      · omega
      · have : EMIN < EMAX := by decide
        omega
    simp only [hn, if_false, valX_huge h, Option.map_none]
  · exact absurd h h3
  · rw [valX_long h]
    by_cases c : Over t
    · simp only [c, if_true, not_true_eq_false, and_false, if_false, Option.map_none]
    · simp only [c, if_false, h, not_false_eq_true, and_self, if_true, Option.map_some]

/-- **`==` on JSON number texts, totally**: two texts of the JSON grammar are equal iff both have a value (`jsonNumVal`)
    and the two values are the same rational -/
theorem equal_json_iff {t1 t2 : Bytes} (h1 : Lexical.JNumber t1) (h2 : Lexical.JNumber t2) :
    equal (.num (.jnum t1)) (.num (.jnum t2)) = true ↔
      ∃ p q, jsonNumVal t1 = some p ∧ jsonNumVal t2 = some q ∧ ratNorm p = ratNorm q := by
  rw [equal_num_iff_valX']
  have e1 := valX_json h1
  have e2 := valX_json h2
  rw [e1, e2]
  cases hv1 : valX (.jnum t1) <;> cases hj1 : jsonNumVal t1 <;> cases hj2 : jsonNumVal t2 <;>
    simp_all [Option.map]

/-- `1e-6177 == 0`, `6e-6177 == 1e-6176`, `6e-6177 != 1e-6177`, `1e7000 != 1e7000`, `2.50 == 2.5`, by the value function -/
example : jsonNumVal sub1e6177 = some (0, -6176) ∧ jsonNumVal [0x30] = some (0, 0) ∧ jsonNumVal sub6e6177 = some (1, -6176) ∧
    jsonNumVal min6176 = some (1, -6176) ∧ jsonNumVal [0x31, 0x65, 0x37, 0x30, 0x30, 0x30] = none ∧
    jsonNumVal [0x32, 0x2E, 0x35, 0x30] = some (250, -2) ∧ jsonNumVal [0x32, 0x2E, 0x35] = some (25, -1) := by decide

/-- **one rounding, not two**: `5.0000000000000000000000000000000000000001e-6177` (41 digits) is just above the midpoint
    between 0 and `1e-6176` and is read as `1e-6176`; rounding first to 34 digits (`5.000…e-6177`, a tie) and then to the
    exponent would give the even neighbour 0 -/
example : jsonNumVal ([0x35, 0x2E] ++ List.replicate 39 0x30 ++ [0x31, 0x65, 0x2D, 0x36, 0x31, 0x37, 0x37]) = some (1, -6176) ∧
    jsonNumVal [0x35, 0x65, 0x2D, 0x36, 0x31, 0x37, 0x37] = some (0, -6176) := by decide

example : equal (.num (.jnum sub1e6177)) (.num (.jnum [0x30])) = true :=
  (equal_json_iff ((JsonGrammar.isValidNumber_iff _).mp (by decide)) ((JsonGrammar.isValidNumber_iff _).mp (by decide))).mpr
    ⟨(0, -6176), (0, 0), by decide, by decide, by decide⟩

/-! ### the closure without any range hypothesis: every JSON document, every compiled expression -/

/-- **the value of a number as it occurs in results of searches over JSON input**: a `json.Number` has the value of its
    text (`jsonNumVal`: none when out of range), a `Decimal` / Go integer the value C20C gives it -/
def numVal : Num → Option XRat
  | .jnum t => (jsonNumVal t).map XRat.fin
  | a => numX a

/-- on `json.Number`s of the JSON grammar, decimals and Go integers — the only numbers a search over JSON input can
    return — `numVal` is the value `==` sees -/
theorem valX_numVal {a : Num} (h : JNum Lexical.JNumber a) : (valX a).map XRat.norm = (numVal a).map XRat.norm := by
  cases a with
  | jnum t =>
    rw [valX_json h]
    simp only [numVal]
    cases jsonNumVal t <;> simp [XRat.norm]
  | dec d => cases d <;> rfl
  | int k v => exact valX_numX ⟨_, rfl, Dec.ofInt_ne_nan v⟩ trivial
  | f64 f => exact absurd h (by simp [JNum])
  | f32 f => exact absurd h (by simp [JNum])

example : (valX (.int .i64 3)).map XRat.norm = (numVal (.int .i64 3)).map XRat.norm := valX_numVal (by simp [JNum])

theorem map_norm_some {o o' : Option XRat} (h : o.map XRat.norm = o'.map XRat.norm) {x : XRat} (hx : o = some x) :
    ∃ x', o' = some x' ∧ x'.norm = x.norm := by
  subst hx
  cases o' with
  | none => simp at h
  | some x' => exact ⟨x', rfl, by simpa using h.symm⟩

/-- **number provenance for searches over JSON input, no hypothesis on the expression**: the literals of every compiled
    expression are `Fin` (`C18BLits.parse_finLits_all`), so every `json.Number` inside a result is a text of the JSON
    grammar (it comes from the document or from a literal), and no binary float occurs -/
theorem search_gram {expr : Bytes} {d r : Val} (hd : d.Fin = true) (h : search expr d = .ok r) :
    Jn Lexical.JNumber r := by
  unfold search at h
  cases hp : Parser.parse expr with
  | error e => rw [hp] at h; cases e <;> cases h
  | ok n =>
    rw [hp] at h
    exact evaluate_jn fin_jn (C18BLits.parse_finLits_all hp) (fin_jn d hd) h

example : Jn Lexical.JNumber (.arr .plain [.num (.jnum [0x31]), .num (.jnum [0x32, 0x2E, 0x35, 0x30]), .num (.jnum [0x2D, 0x30]),
    .num (.jnum [0x31, 0x45, 0x32])]) :=
  search_gram (expr := [0x61]) (Json.decode_fin decode_docText) (by unfold search; rw [parse_a]; rfl)

/-- **`==` on numbers computed from JSON input is equality of values — unconditionally.**  Whatever the two JSON
    documents and the two expressions are (numbers of any size, in or out of range, subnormal or not; any literals the
    parser accepts): if the searches return numbers `a` and `b`, then `a == b` iff both have a value (`numVal`: the
    text's rational value rounded into decimal128 / the decimal / the integer) and the values are the same rational.
    A number without a value (a text that overflows decimal128, e.g. `1e7000`) is equal to nothing, itself included. -/
theorem json_results_equal_iff {s1 s2 e1 e2 : Bytes} {d1 d2 : Val} {a b : Num} (hs1 : Json.decode s1 = some d1)
    (hs2 : Json.decode s2 = some d2) (h1 : search e1 d1 = .ok (.num a)) (h2 : search e2 d2 = .ok (.num b)) :
    equal (.num a) (.num b) = true ↔ ∃ x y, numVal a = some x ∧ numVal b = some y ∧ x.norm = y.norm := by
  have ga : JNum Lexical.JNumber a := by simpa [Jn] using search_gram (Json.decode_fin hs1) h1
  have gb : JNum Lexical.JNumber b := by simpa [Jn] using search_gram (Json.decode_fin hs2) h2
  have ea := valX_numVal ga
  have eb := valX_numVal gb
  rw [equal_num_iff_valX]
  constructor
  · rintro ⟨x, y, hx, hy, hxy⟩
    obtain ⟨x', hx', ex⟩ := map_norm_some ea hx
    obtain ⟨y', hy', ey⟩ := map_norm_some eb hy
    exact ⟨x', y', hx', hy', by rw [ex, ey]; exact hxy⟩
  · rintro ⟨x, y, hx, hy, hxy⟩
    obtain ⟨x', hx', ex⟩ := map_norm_some ea.symm hx
    obtain ⟨y', hy', ey⟩ := map_norm_some eb.symm hy
    exact ⟨x', y', hx', hy', by rw [ex, ey]; exact hxy⟩

/-- `a` over the JSON documents `{"a":1e-6177}` and `{"a":0}`: equal, because both have the value zero -/
example : equal (.num (.jnum sub1e6177)) (.num (.jnum [0x30])) = true :=
  (json_results_equal_iff (s1 := [0x7B, 0x22, 0x61, 0x22, 0x3A] ++ sub1e6177 ++ [0x7D])
    (s2 := [0x7B, 0x22, 0x61, 0x22, 0x3A, 0x30, 0x7D]) (e1 := [0x61]) (e2 := [0x61])
    (d1 := .obj [([0x61], .num (.jnum sub1e6177))]) (d2 := .obj [([0x61], .num (.jnum [0x30]))]) (by rfl) (by rfl)
    (by unfold search; rw [parse_a]; rfl) (by unfold search; rw [parse_a]; rfl)).mpr
    ⟨.fin (0, -6176), .fin (0, 0), by decide, by decide, by decide⟩

/-- the Boolean form of "both have a value and the values are the same" -/
def numValEq (a b : Num) : Bool :=
  match numVal a, numVal b with
  | some x, some y => decide (x.norm = y.norm)
  | _, _ => false

theorem numValEq_iff (a b : Num) :
    numValEq a b = true ↔ ∃ x y, numVal a = some x ∧ numVal b = some y ∧ x.norm = y.norm := by
  unfold numValEq
  cases numVal a <;> cases numVal b <;> simp

open Jmes.C17B Jmes.Grammar Jmes.Grammar.Ex in
/-- **`A == B` on expression text, both sides numbers, over ANY JSON document, with no side condition at all**: the
    operands' literals are `Fin` because the text compiles, the document is `Fin` because it was decoded, so the
    operand values are numbers with a `numVal` or without one, and `search` answers whether both have one and they
    agree -/
theorem eq_text_numbers_total {A B : PTree} {op : Token} (hop : op.type = .equal) (hA : WellPrec A)
    (hAr : lvlCmp ≤ rlevel A) (hB : WellPrec B) (hBl : lvlCmp < llevel B) {e : Bytes}
    (hl : Lexes e (Grammar.flatten A ++ op :: Grammar.flatten B)) {s : Bytes} {d : Val} (hs : Json.decode s = some d)
    {a b : Num} (hea : evaluate (erase A) d = .ok (.num a)) (heb : evaluate (erase B) d = .ok (.num b)) :
    search e d = .ok (.bool (numValEq a b)) := by
  have hc := C01B.cmp_text (op := op) (c := .eq) (by rw [hop]; rfl) hA hAr hB hBl hl
  have hfin := C18BLits.parse_finLits_all hc.1
  simp only [INode.all, Bool.and_eq_true] at hfin
  have hd := fin_jn d (Json.decode_fin hs)
  have ga : JNum Lexical.JNumber a := by simpa [Jn] using evaluate_jn fin_jn hfin.1.2 hd hea
  have gb : JNum Lexical.JNumber b := by simpa [Jn] using evaluate_jn fin_jn hfin.2 hd heb
  rw [hc.2 d, hea, heb]
  show (equalR (.num a) (.num b) >>= fun e => Res.ok (Val.bool e)) = _
  have : equalR (.num a) (.num b) = .ok (equal (.num a) (.num b)) := rfl
  rw [this]
  show Res.ok (Val.bool (equal (.num a) (.num b))) = _
  congr 2
  rw [Bool.eq_iff_iff, numValEq_iff, equal_num_iff_valX]
  have ea := valX_numVal ga
  have eb := valX_numVal gb
  constructor
  · rintro ⟨x, y, hx, hy, hxy⟩
    obtain ⟨x', hx', ex⟩ := map_norm_some ea hx
    obtain ⟨y', hy', ey⟩ := map_norm_some eb hy
    exact ⟨x', y', hx', hy', by rw [ex, ey]; exact hxy⟩
  · rintro ⟨x, y, hx, hy, hxy⟩
    obtain ⟨x', hx', ex⟩ := map_norm_some ea.symm hx
    obtain ⟨y', hy', ey⟩ := map_norm_some eb.symm hy
    exact ⟨x', y', hx', hy', by rw [ex, ey]; exact hxy⟩


section ExamplesTotal
open Jmes.C17B Jmes.Grammar Jmes.Grammar.Ex

/-- ``sum(a) == `3.0` `` on `{"a":[1,2]}` again, now with nothing to check but the lexing and the two operand values -/
example : search (bs "sum(a) == `3.0`") docA = .ok (.bool true) :=
  (eq_text_numbers_total (A := tSumA) (B := tLit "`3.0`") (op := op .equal "==") rfl (by decide) (by decide) (by decide)
    (by decide) (by decide) (s := [0x7B, 0x22, 0x61, 0x22, 0x3A, 0x5B, 0x31, 0x2C, 0x32, 0x5D, 0x7D]) (d := docA) (by rfl)
    (a := .dec (.fin false 3 0)) (b := .jnum (bs "3.0")) (by rfl) (by rfl)).trans
    (congrArg (fun b => Res.ok (Val.bool b)) (by decide))

end ExamplesTotal

/-! ## 3. Rounding: when two different rational texts compare equal -/

/-- `round34` spelled out: with `k = ndrop |m|` (`C20B.ndrop_spec`, `ndrop_unique`: the least `k` with
    `|m| / 10^k ≤ MAXSIG`), the coefficient becomes `rhe |m| k` (`|m| / 10^k` rounded to nearest, ties to even:
    `rhe_window`) and the exponent `e + k` -/
theorem round34_eq (m e : Int) :
    round34 (m, e) = (if m < 0 then -(rhe m.natAbs (ndrop m.natAbs) : Int) else (rhe m.natAbs (ndrop m.natAbs) : Int),
      e + (ndrop m.natAbs : Nat)) := rfl

example : round34 (-12980742146337069071326240823050241, -3) = (-1298074214633706907132624082305024, -2) :=
  (round34_eq _ _).trans (by decide)

/-- the window of a rounded coefficient: `rhe V k = q` iff `V` is within half a unit `10^k / 2` of `q · 10^k`, the
    boundary included only when `q` is even -/
theorem rhe_window (V k q : Nat) :
    rhe V k = q ↔ (2 * q * 10 ^ k < 2 * V + 10 ^ k ∧ 2 * V < 2 * q * 10 ^ k + 10 ^ k) ∨
      (2 * V = 2 * q * 10 ^ k + 10 ^ k ∧ q % 2 = 0) ∨ (2 * V + 10 ^ k = 2 * q * 10 ^ k ∧ q % 2 = 0) :=
  rhe_eq_iff V k q

example : rhe 12345 2 = 123 ∧ rhe 12350 2 = 124 ∧ rhe 12250 2 = 122 ∧ rhe 12251 2 = 123 := by decide

theorem ratNorm_same_exp {n : Bool} {a b : Nat} {E : Int} :
    ratNorm (decRat (.fin n a E)) = ratNorm (decRat (.fin n b E)) ↔ a = b := by
  rw [ratNorm_eq_iff]
  simp only [RatEq, decRat, Int.min_self, Int.sub_self, Int.toNat_zero, Int.pow_zero, Int.mul_one]
  cases n <;> simp <;> omega

/-- **which decimal a regular text is equal to**: let `V` be the digit string of `t`, `e` the exponent of its last
    digit, `k = ndrop V`.  Then `t == ±q · 10^(e+k)` (same sign) iff `q = rhe V k`, i.e. (`rhe_window`) iff
    `|V − q·10^k| ≤ 10^k / 2`, a tie counting only for even `q`. -/
theorem equal_jnum_dec_iff_window {t : Bytes} (h : Regular t) (q : Nat) :
    equal (.num (.jnum t)) (.num (.dec (.fin (numParts t).neg q ((ratRaw t).2 + (ndrop (numParts t).mant : Nat))))) = true ↔
      rhe (numParts t).mant (ndrop (numParts t).mant) = q := by
  rw [equal_iff_numX (a := .jnum t) (b := .dec (.fin (numParts t).neg q ((ratRaw t).2 + (ndrop (numParts t).mant : Nat))))
    (numOk_regular h) ⟨_, rfl, by simp⟩ (.inl h) trivial, numX_regular h]
  simp only [numX, Option.map_some, XRat.norm, Option.some.injEq, XRat.fin.injEq]
  rw [ratRaw_eq t, round34_signed]
  exact ratNorm_same_exp

/-- `12980742146337069071326240823050245` (35 digits, above `MAXSIG`): one digit is dropped, the tie goes to the even
    neighbour `…24`, so the text is `== 1298074214633706907132624082305024 · 10^1` -/
example : equal (.num (.jnum (digits 12980742146337069071326240823050245)))
    (.num (.dec (.fin false 1298074214633706907132624082305024 1))) = true :=
  (equal_jnum_dec_iff_window (t := digits 12980742146337069071326240823050245) (by decide)
    1298074214633706907132624082305024).mpr (by decide)

/-- **when two texts compare equal**: regular texts `t1`, `t2` with digit strings `V1`, `V2`, last-digit exponents `e1`,
    `e2` and signs `s1`, `s2` are `==` iff the ROUNDED values `s_i · rhe V_i k_i · 10^(e_i + k_i)` (`k_i = ndrop V_i`) are
    the same rational (`RatEq`: equal once written at a common exponent).  With `V_i ≤ MAXSIG` nothing is rounded
    (`k_i = 0`, `rhe V 0 = V`: `C20B.equal_jnum_iff_ratVal`); beyond, texts with DIFFERENT rational values are equal
    exactly when they round to the same decimal128. -/
theorem equal_jnum_iff_rounded {t1 t2 : Bytes} (h1 : Regular t1) (h2 : Regular t2) :
    equal (.num (.jnum t1)) (.num (.jnum t2)) = true ↔
      RatEq
        (if (numParts t1).neg then -(rhe (numParts t1).mant (ndrop (numParts t1).mant) : Int)
          else (rhe (numParts t1).mant (ndrop (numParts t1).mant) : Int), (ratRaw t1).2 + (ndrop (numParts t1).mant : Nat))
        (if (numParts t2).neg then -(rhe (numParts t2).mant (ndrop (numParts t2).mant) : Int)
          else (rhe (numParts t2).mant (ndrop (numParts t2).mant) : Int), (ratRaw t2).2 + (ndrop (numParts t2).mant : Nat)) := by
  rw [equal_jnum_iff h1 h2, ratNorm_eq_iff, ratRaw_eq t1, ratRaw_eq t2, round34_signed, round34_signed]
  simp only [decRat]

example : equal (.num (.jnum (digits 12980742146337069071326240823050241)))
    (.num (.jnum ([0x2D] ++ digits 12980742146337069071326240823050241))) = false := by
  rw [Bool.eq_false_iff, Ne, equal_jnum_iff_rounded (by decide) (by decide)]; decide

/-- the special case "same sign, kept digits at the same exponent": equal iff the rounded coefficients agree -/
theorem equal_jnum_iff_same_rounding {t1 t2 : Bytes} (h1 : Regular t1) (h2 : Regular t2)
    (hs : (numParts t1).neg = (numParts t2).neg)
    (he : (ratRaw t1).2 + (ndrop (numParts t1).mant : Nat) = (ratRaw t2).2 + (ndrop (numParts t2).mant : Nat)) :
    equal (.num (.jnum t1)) (.num (.jnum t2)) = true ↔
      rhe (numParts t1).mant (ndrop (numParts t1).mant) = rhe (numParts t2).mant (ndrop (numParts t2).mant) := by
  rw [equal_jnum_iff h1 h2, ratRaw_eq t1, ratRaw_eq t2, round34_signed, round34_signed, hs, he]
  exact ratNorm_same_exp

/-- **the boundary**: `MAXSIG = 12980742146337069071326240823050239` is kept exactly (35 digits!) and differs from
    `…240`, which is exact too (it ends in `0`); `…241` … `…245` are all `== …240` (five different rationals, one
    decimal128; `…245` is a tie and goes to the even `…24`), `…246` is `== …250`; and with 34 digits nothing is ever
    rounded: `9999999999999999999999999999999999 != 10^34`, while the 35-digit `99999999999999999999999999999999999`
    is `== 10^35` -/
theorem rounding_boundary :
    equal (.num (.jnum (digits 12980742146337069071326240823050239))) (.num (.jnum (digits 12980742146337069071326240823050240))) = false ∧
    equal (.num (.jnum (digits 12980742146337069071326240823050241))) (.num (.jnum (digits 12980742146337069071326240823050240))) = true ∧
    equal (.num (.jnum (digits 12980742146337069071326240823050245))) (.num (.jnum (digits 12980742146337069071326240823050240))) = true ∧
    equal (.num (.jnum (digits 12980742146337069071326240823050241))) (.num (.jnum (digits 12980742146337069071326240823050245))) = true ∧
    ratVal (digits 12980742146337069071326240823050241) ≠ ratVal (digits 12980742146337069071326240823050245) ∧
    equal (.num (.jnum (digits 12980742146337069071326240823050246))) (.num (.jnum (digits 12980742146337069071326240823050250))) = true ∧
    equal (.num (.jnum (digits 12980742146337069071326240823050246))) (.num (.jnum (digits 12980742146337069071326240823050240))) = false ∧
    equal (.num (.jnum (digits 9999999999999999999999999999999999))) (.num (.jnum (digits 10000000000000000000000000000000000))) = false ∧
    equal (.num (.jnum (digits 99999999999999999999999999999999999))) (.num (.jnum (digits 100000000000000000000000000000000000))) = true := by
  refine ⟨?_, ?_, ?_, ?_, by decide, ?_, ?_, ?_, ?_⟩
  · rw [Bool.eq_false_iff, Ne, equal_jnum_iff (by decide) (by decide)]; decide
  · exact (equal_jnum_iff_same_rounding (by decide) (by decide) (by decide) (by decide)).mpr (by decide)
  · exact (equal_jnum_iff_same_rounding (by decide) (by decide) (by decide) (by decide)).mpr (by decide)
  · exact (equal_jnum_iff_same_rounding (by decide) (by decide) (by decide) (by decide)).mpr (by decide)
  · exact (equal_jnum_iff_same_rounding (by decide) (by decide) (by decide) (by decide)).mpr (by decide)
  · rw [Bool.eq_false_iff, Ne, equal_jnum_iff_same_rounding (by decide) (by decide) (by decide) (by decide)]; decide
  · rw [Bool.eq_false_iff, Ne, equal_jnum_iff_ratVal (by decide) (by decide)]; decide
  · exact (equal_jnum_iff (by decide) (by decide)).mpr (by decide)

/-! ## 4. Reflexivity, symmetry, transitivity over all of `Val` -/

/-- **transitivity holds on ALL of `Val`** — NaN, out-of-range and unparsable numbers, foreign values and objects with
    repeated keys included: a number without a value is equal to nothing, so it never occurs in a true premise -/
theorem equal_trans_total (a b c : Val) (h1 : equal a b = true) (h2 : equal b c = true) : equal a c = true :=
  equal_trans_all a b c h1 h2

example : equal (.num (.jnum [0x2B, 0x31])) (.num (.f64 (.fin false 1 0))) = true :=
  equal_trans_total _ (.num (.int .i8 1)) _ (by decide) (by decide)

/-- **symmetry holds whenever object keys are unique at every level** (`UKeys`: every decoded document, every result
    computed from one, every value built from Go maps) — again whatever the numbers are -/
theorem equal_symm_total (a b : Val) (ha : UKeys a) (hb : UKeys b) : equal a b = equal b a :=
  equal_symm_ukeys a ha b hb

example : equal (.arr .plain [.num (.dec .nan), .foreign 3]) (.arr .plain [.num (.jnum [0x78]), .null]) =
    equal (.arr .plain [.num (.jnum [0x78]), .null]) (.arr .plain [.num (.dec .nan), .foreign 3]) :=
  equal_symm_total _ _ (by simp [UKeys, UKeysL]) (by simp [UKeys, UKeysL])

/-- with a repeated key symmetry fails: `{"a":1,"a":1} == {"a":1,"b":2}` is true (every member of the left is found
    in the right, the lengths agree), the converse is false -/
theorem symm_needs_unique_keys :
    equal (.obj [(kA, one), (kA, one)]) (.obj [(kA, one), (kB, two)]) = true ∧
    equal (.obj [(kA, one), (kB, two)]) (.obj [(kA, one), (kA, one)]) = false ∧
    ¬ UKeys (.obj [(kA, one), (kA, one)]) := by
  refine ⟨by decide, by decide, ?_⟩
  simp only [UKeys, ObjOk]
  rintro ⟨h, _⟩
  exact absurd h (by decide)

/-- **the exact condition for `v == v`** (values with unique keys): `v` is a `JsonVal` — every number inside has a
    value (`NumOk`: `toDecimal` understands it and it is not NaN) and there is no foreign Go value inside.  So
    reflexivity fails exactly for: NaN (`Decimal` or float), `json.Number`s that `decimal128.Parse` refuses or reads as
    NaN (`equal_self_jnum_iff` for JSON texts: exactly the range errors, e.g. `1e7000`), foreign values — and every
    container holding one of them. -/
theorem equal_self_iff_jsonVal (v : Val) (hu : UKeys v) : equal v v = true ↔ JsonVal v := equal_self_iff v hu

example : equal (.arr .plain [.num (.jnum [0x31, 0x65, 0x37, 0x30, 0x30, 0x30])])
    (.arr .plain [.num (.jnum [0x31, 0x65, 0x37, 0x30, 0x30, 0x30])]) = false := by
  rw [Bool.eq_false_iff, Ne, equal_self_iff_jsonVal _ (by simp [UKeys, UKeysL])]
  simp only [JsonVal, JsonValL, and_true]
  exact not_numOk_huge ⟨(JsonGrammar.isValidNumber_iff _).mp (by decide), by decide, by decide⟩

/-- one level of the condition without `UKeys`: an object is equal to itself iff every member's value is equal to
    the FIRST value stored under the same key -/
theorem equal_obj_self_iff (kvs : List (Bytes × Val)) :
    equal (.obj kvs) (.obj kvs) = true ↔ ∀ k x, (k, x) ∈ kvs → ∃ y, objLookup k kvs = some y ∧ equal x y = true := by
  simp only [equal, beq_self_eq_true, Bool.true_and]
  exact equalF_iff kvs kvs

/-- … so without `UKeys` the two sides of `equal_self_iff_jsonVal` come apart: `{"a":1,"a":1}` is equal to itself but
    is not a `JsonVal`; `{"a":1,"a":2}` is not even equal to itself although all its numbers are fine -/
example : equal (.obj [(kA, one), (kA, one)]) (.obj [(kA, one), (kA, one)]) = true ∧
    ¬ JsonVal (.obj [(kA, one), (kA, one)]) ∧
    equal (.obj [(kA, one), (kA, two)]) (.obj [(kA, one), (kA, two)]) = false := by
  refine ⟨by decide, ?_, by decide⟩
  simp only [JsonVal, ObjOk]
  rintro ⟨h, _⟩
  exact absurd h (by decide)

/-- **`==` is a partial equivalence on values with unique keys, with the `JsonVal`s as its domain**: whatever is equal
    to something is a `JsonVal` (equal to itself), and so is its partner -/
theorem equal_true_self {a b : Val} (ha : UKeys a) (hb : UKeys b) (h : equal a b = true) :
    equal a a = true ∧ equal b b = true ∧ JsonVal a ∧ JsonVal b := by
  have h' : equal b a = true := (equal_symm_total a b ha hb) ▸ h
  have haa := equal_trans_total a b a h h'
  have hbb := equal_trans_total b a b h' h
  exact ⟨haa, hbb, (equal_self_iff_jsonVal a ha).mp haa, (equal_self_iff_jsonVal b hb).mp hbb⟩

example : JsonVal (.num (.jnum [0x2B, 0x31])) :=
  (equal_true_self (a := .num (.jnum [0x2B, 0x31])) (b := .num (.int .i8 1)) trivial trivial (by decide)).2.2.1

end Jmes.C20E
