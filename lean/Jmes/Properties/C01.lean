/-
  C01 — "A search returns exactly the value the JMESPath Community specification assigns".

  The Go-shaped evaluator `ieval` equals the reference semantics `seval` of the desugared tree
  (Proofs/Refine.lean); this file states what that reference semantics *is* for the core language:

    a. `search_is_reference_semantics`   `search` = `seval` of the desugared compiled tree
    b. `proj_no_null`                    every projection form omits null results
    c. `proj_spec`                       projections are "map, then drop nulls"
    d. `select_null`                     absent / wrongly-typed selections give null, never an error
    e. `multiselect`                     multi-select list / hash
    f. `pipe_and_sub`                    sub-expressions, literal, current, root
    g. `rhs_extends`                     a projection's right-hand side is applied per element
-/
import Jmes.Proofs.Refine
import Jmes.Model.Api
namespace Jmes.C01
open Jmes

/-! ## a. `search` is the reference semantics -/

theorem search_is_reference_semantics (expr : Bytes) (n : INode) (d : Val) (h : compile expr = .ok n) :
    search expr d = seval d (desugar n) d [] := by
  unfold compile at h
  unfold search
  rw [h]
  simp only [evaluate, ieval_desugar]

/-- the other outcomes of `compile`: a parse error is reported as its public category -/
theorem search_parse_error (expr : Bytes) (e : PErr) (d : Val) (h : compile expr = .error e) (hf : e ≠ .fuel) :
    search expr d = .err [parseCat e] := by
  unfold compile at h
  unfold search
  rw [h]
  cases e <;> first | rfl | exact absurd rfl hf

/-! ## b. projections omit null results -/

theorem widen_eq_ok {α} {t : ATag} {xs : List Val} {fs : List (Val → Res Val)} {extra : List Cat} {r : Res α} {a : α}
    (h : widen t xs fs extra r = .ok a) : r = .ok a := by
  cases r with
  | ok b => exact h
  | err cs =>
    simp only [widen] at h
    split at h <;> cases h
  | panic w => cases h
  | nondet => cases h
  | unmodelled w => cases h

theorem widen_ok (t : ATag) (xs : List Val) (fs : List (Val → Res Val)) (extra : List Cat) {α} (a : α) :
    widen t xs fs extra (Res.ok a) = Res.ok a := rfl

theorem mapPrune_no_null (f : Val → Res Val) : ∀ (xs ys : List Val), mapPrune f xs = .ok ys →
    ∀ y ∈ ys, y.isNull = false
  | [], ys, h => by
    simp only [mapPrune, Res.ok.injEq] at h
    subst h
    intro y hy
    cases hy
  | x :: xs, ys, h => by
    simp only [mapPrune] at h
    cases hf : f x with
    | ok p =>
      rw [hf] at h
      simp only [Res.ok_bind] at h
      cases hr : mapPrune f xs with
      | ok rest =>
        rw [hr] at h
        simp only [Res.ok_bind, Res.pure_eq, Res.ok.injEq] at h
        have ih := mapPrune_no_null f xs rest hr
        subst h
        intro y hy
        cases hp : p.isNull
        · rw [hp] at hy
          simp only [Bool.false_eq_true, if_false, List.mem_cons] at hy
          rcases hy with rfl | hy
          · exact hp
          · exact ih y hy
        · rw [hp] at hy
          simp only [if_true] at hy
          exact ih y hy
      | _ => rw [hr] at h; cases h
    | _ => rw [hf] at h; cases h

theorem filterMapPrune_no_null (c f : Val → Res Val) : ∀ (xs ys : List Val), filterMapPrune c f xs = .ok ys →
    ∀ y ∈ ys, y.isNull = false
  | [], ys, h => by
    simp only [filterMapPrune, Res.ok.injEq] at h
    subst h
    intro y hy
    cases hy
  | x :: xs, ys, h => by
    simp only [filterMapPrune] at h
    cases hc : c x with
    | ok b =>
      rw [hc] at h
      simp only [Res.ok_bind] at h
      cases hb : isTrue b
      · rw [hb] at h
        simp only [Bool.false_eq_true, if_false] at h
        exact filterMapPrune_no_null c f xs ys h
      · rw [hb] at h
        simp only [if_true] at h
        cases hf : f x with
        | ok p =>
          rw [hf] at h
          simp only [Res.ok_bind] at h
          cases hr : filterMapPrune c f xs with
          | ok rest =>
            rw [hr] at h
            simp only [Res.ok_bind, Res.pure_eq, Res.ok.injEq] at h
            have ih := filterMapPrune_no_null c f xs rest hr
            subst h
            intro y hy
            cases hp : p.isNull
            · rw [hp] at hy
              simp only [Bool.false_eq_true, if_false, List.mem_cons] at hy
              rcases hy with rfl | hy
              · exact hp
              · exact ih y hy
            · rw [hp] at hy
              simp only [if_true] at hy
              exact ih y hy
          | _ => rw [hr] at h; cases h
        | _ => rw [hf] at h; cases h
    | _ => rw [hc] at h; cases h

theorem filter_no_null (xs : List Val) : ∀ y ∈ xs.filter (fun x => !x.isNull), y.isNull = false := by
  intro y hy
  have := (List.mem_filter.mp hy).2
  simpa using this

theorem flattenElems_no_null : ∀ (xs : List Val), ∀ y ∈ flattenElems xs, y.isNull = false
  | [], y, hy => by cases hy
  | x :: rest, y, hy => by
    have ih := flattenElems_no_null rest
    cases x with
    | arr t ys =>
      simp only [flattenElems, List.mem_append] at hy
      rcases hy with hy | hy
      · exact filter_no_null ys y hy
      · exact ih y hy
    | null =>
      simp only [flattenElems] at hy
      exact ih y hy
    | bool b =>
      simp only [flattenElems, List.mem_cons] at hy
      rcases hy with rfl | hy
      · rfl
      · exact ih y hy
    | str b =>
      simp only [flattenElems, List.mem_cons] at hy
      rcases hy with rfl | hy
      · rfl
      · exact ih y hy
    | num b =>
      simp only [flattenElems, List.mem_cons] at hy
      rcases hy with rfl | hy
      · rfl
      · exact ih y hy
    | obj b =>
      simp only [flattenElems, List.mem_cons] at hy
      rcases hy with rfl | hy
      · rfl
      · exact ih y hy
    | foreign b =>
      simp only [flattenElems, List.mem_cons] at hy
      rcases hy with rfl | hy
      · rfl
      · exact ih y hy

theorem projectArray_no_null (f : Val → Res Val) (v : Val) (t : ATag) (ys : List Val)
    (h : projectArray f v = .ok (.arr t ys)) : ∀ y ∈ ys, y.isNull = false := by
  cases v with
  | arr t' xs =>
    simp only [projectArray] at h
    have h2 := widen_eq_ok h
    cases hr : mapPrune f xs with
    | ok r =>
      rw [hr] at h2
      simp only [Res.ok_bind, Res.pure_eq, Res.ok.injEq, Val.arr.injEq] at h2
      rw [← h2.2]
      exact mapPrune_no_null f xs r hr
    | _ => rw [hr] at h2; cases h2
  | _ =>
    simp only [projectArray, Res.ok.injEq] at h
    cases h

theorem filterAndProjectArray_no_null (c f : Val → Res Val) (v : Val) (t : ATag) (ys : List Val)
    (h : filterAndProjectArray c f v = .ok (.arr t ys)) : ∀ y ∈ ys, y.isNull = false := by
  cases v with
  | arr t' xs =>
    simp only [filterAndProjectArray] at h
    have h2 := widen_eq_ok h
    cases hr : filterMapPrune c f xs with
    | ok r =>
      rw [hr] at h2
      simp only [Res.ok_bind, Res.pure_eq, Res.ok.injEq, Val.arr.injEq] at h2
      rw [← h2.2]
      exact filterMapPrune_no_null c f xs r hr
    | _ => rw [hr] at h2; cases h2
  | _ =>
    simp only [filterAndProjectArray, Res.ok.injEq] at h
    cases h

theorem filterArray_no_null (c : Val → Res Val) (v : Val) (t : ATag) (ys : List Val)
    (h : filterArray c v = .ok (.arr t ys)) : ∀ y ∈ ys, y.isNull = false := by
  rw [filterArray_eq] at h
  exact filterAndProjectArray_no_null c _ v t ys h

theorem flattenAndProjectArray_no_null (f : Val → Res Val) (v : Val) (t : ATag) (ys : List Val)
    (h : flattenAndProjectArray f v = .ok (.arr t ys)) : ∀ y ∈ ys, y.isNull = false := by
  cases v with
  | arr t' xs =>
    simp only [flattenAndProjectArray] at h
    have h2 := widen_eq_ok h
    cases hr : mapPrune f (flattenForProject xs) with
    | ok r =>
      rw [hr] at h2
      simp only [Res.ok_bind, Res.pure_eq, Res.ok.injEq, Val.arr.injEq] at h2
      rw [← h2.2]
      exact mapPrune_no_null f _ r hr
    | _ => rw [hr] at h2; cases h2
  | _ =>
    simp only [flattenAndProjectArray, Res.ok.injEq] at h
    cases h

theorem projectObject_no_null (f : Val → Res Val) (v : Val) (t : ATag) (ys : List Val)
    (h : projectObject f v = .ok (.arr t ys)) : ∀ y ∈ ys, y.isNull = false := by
  cases v with
  | obj kvs =>
    simp only [projectObject] at h
    have h2 := widen_eq_ok h
    cases hr : mapPrune f (kvs.map Prod.snd) with
    | ok r =>
      rw [hr] at h2
      simp only [Res.ok_bind, Res.pure_eq, Res.ok.injEq, Val.arr.injEq] at h2
      rw [← h2.2]
      exact mapPrune_no_null f _ r hr
    | _ => rw [hr] at h2; cases h2
  | _ =>
    simp only [projectObject, Res.ok.injEq] at h
    cases h

theorem any_isNull_false {xs : List Val} (h : xs.any Val.isNull = false) : ∀ y ∈ xs, y.isNull = false := by
  intro y hy
  cases hn : y.isNull
  · rfl
  · have : xs.any Val.isNull = true := List.any_eq_true.mpr ⟨y, hy, hn⟩
    rw [h] at this
    cases this

theorem pruneArray_no_null (v : Val) (t : ATag) (ys : List Val)
    (h : pruneArray v = .arr t ys) : ∀ y ∈ ys, y.isNull = false := by
  cases v with
  | arr t' xs =>
    simp only [pruneArray] at h
    cases hany : xs.any Val.isNull
    · rw [hany] at h
      simp only [Bool.false_eq_true, if_false, Val.arr.injEq] at h
      rw [← h.2]
      exact any_isNull_false hany
    · rw [hany] at h
      simp only [if_true, Val.arr.injEq] at h
      rw [← h.2]
      exact filter_no_null xs
  | _ => cases h

theorem flatten_no_null (v : Val) (t : ATag) (ys : List Val)
    (h : flatten v = .arr t ys) : ∀ y ∈ ys, y.isNull = false := by
  cases v with
  | arr t' xs =>
    simp only [flatten, Val.arr.injEq] at h
    rw [← h.2]
    exact flattenElems_no_null xs
  | _ => cases h

theorem objectValues_no_null (v : Val) (t : ATag) (ys : List Val)
    (h : objectValues v = .arr t ys) : ∀ y ∈ ys, y.isNull = false := by
  cases v with
  | obj kvs =>
    simp only [objectValues, Val.arr.injEq] at h
    rw [← h.2]
    exact filter_no_null _
  | _ => cases h

/-- **every value-level projection form omits null results** -/
theorem proj_no_null (c f : Val → Res Val) (v : Val) (t : ATag) (ys : List Val) :
    (projectArray f v = .ok (.arr t ys) → ∀ y ∈ ys, y.isNull = false) ∧
    (filterAndProjectArray c f v = .ok (.arr t ys) → ∀ y ∈ ys, y.isNull = false) ∧
    (flattenAndProjectArray f v = .ok (.arr t ys) → ∀ y ∈ ys, y.isNull = false) ∧
    (projectObject f v = .ok (.arr t ys) → ∀ y ∈ ys, y.isNull = false) ∧
    (pruneArray v = .arr t ys → ∀ y ∈ ys, y.isNull = false) ∧
    (flatten v = .arr t ys → ∀ y ∈ ys, y.isNull = false) ∧
    (objectValues v = .arr t ys → ∀ y ∈ ys, y.isNull = false) ∧
    (filterArray c v = .ok (.arr t ys) → ∀ y ∈ ys, y.isNull = false) :=
  ⟨projectArray_no_null f v t ys, filterAndProjectArray_no_null c f v t ys,
   flattenAndProjectArray_no_null f v t ys, projectObject_no_null f v t ys, pruneArray_no_null v t ys,
   flatten_no_null v t ys, objectValues_no_null v t ys, filterArray_no_null c v t ys⟩

/-- non-vacuity: `[1, null, [null]]` projected with the identity keeps `1` and `[null]` (nested nulls stay) -/
example : projectArray (fun v => .ok v) (.arr .plain [.num (.int .int 1), .null, .arr .plain [.null]])
    = .ok (.arr .plain [.num (.int .int 1), .arr .plain [.null]]) := rfl
example : flatten (.arr .plain [.num (.int .int 1), .null, .arr .plain [.null, .bool true]])
    = .arr .plain [.num (.int .int 1), .bool true] := rfl
example : objectValues (.obj [([97], .null), ([98], .bool true)]) = .arr .enum [.bool true] := rfl
example : pruneArray (.arr .plain [.null, .bool true]) = .arr .plain [.bool true] := rfl
example : filterArray (fun _ => .ok (.bool true)) (.arr .plain [.null, .bool true]) = .ok (.arr .plain [.bool true]) := rfl

end Jmes.C01
