/-
  C01 — "A search returns exactly the value the JMESPath Community specification assigns".

  The Go-shaped evaluator `ieval` equals the reference semantics `seval` of the desugared tree
  (Proofs/Refine.lean); this file states what that reference semantics *is* for the core language:

    a. `search_is_reference_semantics`   `search` = `seval` of the desugared compiled tree
    b. `proj_no_null`                    every projection form omits null results
    c. `proj_spec`                       projections are "map, then drop nulls"
    d. `select_null`                     absent / wrongly-typed selections give null, never an error
    e. `multiselect`                     multi-select list / hash
    f. `pipe_and_sub`                    sub-expressions, literal, current, root
    g. `rhs_extends`                     a projection's right-hand side is applied per element
-/
import Jmes.Proofs.Refine
import Jmes.Model.Api
namespace Jmes.C01
open Jmes

/-! ## a. `search` is the reference semantics -/

theorem search_is_reference_semantics (expr : Bytes) (n : INode) (d : Val) (h : compile expr = .ok n) :
    search expr d = seval d (desugar n) d [] := by
  unfold compile at h
  unfold search
  rw [h]
  simp only [evaluate, ieval_desugar]

/-- the other outcomes of `compile`: a parse error is reported as its public category -/
theorem search_parse_error (expr : Bytes) (e : PErr) (d : Val) (h : compile expr = .error e) (hf : e ≠ .fuel) :
    search expr d = .err [parseCat e] := by
  unfold compile at h
  unfold search
  rw [h]
  cases e <;> first | rfl | exact absurd rfl hf

/-! ## b. projections omit null results -/

theorem widen_eq_ok {α} {t : ATag} {xs : List Val} {fs : List (Val → Res Val)} {extra : List Cat} {r : Res α} {a : α}
    (h : widen t xs fs extra r = .ok a) : r = .ok a := by
  cases r with
  | ok b => exact h
  | err cs =>
    simp only [widen] at h
    split at h <;> (try split at h) <;> cases h
  | panic w => cases h
  | nondet => cases h
  | unmodelled w => cases h

theorem widen_ok (t : ATag) (xs : List Val) (fs : List (Val → Res Val)) (extra : List Cat) {α} (a : α) :
    widen t xs fs extra (Res.ok a) = Res.ok a := rfl

theorem mapPrune_no_null (f : Val → Res Val) : ∀ (xs ys : List Val), mapPrune f xs = .ok ys →
    ∀ y ∈ ys, y.isNull = false
  | [], ys, h => by
    simp only [mapPrune, Res.ok.injEq] at h
    subst h
    intro y hy
    cases hy
  | x :: xs, ys, h => by
    simp only [mapPrune] at h
    cases hf : f x with
    | ok p =>
      rw [hf] at h
      simp only [Res.ok_bind] at h
      cases hr : mapPrune f xs with
      | ok rest =>
        rw [hr] at h
        simp only [Res.ok_bind, Res.pure_eq, Res.ok.injEq] at h
        have ih := mapPrune_no_null f xs rest hr
        subst h
        intro y hy
        cases hp : p.isNull
        · rw [hp] at hy
          simp only [Bool.false_eq_true, if_false, List.mem_cons] at hy
          rcases hy with rfl | hy
          · exact hp
          · exact ih y hy
        · rw [hp] at hy
          simp only [if_true] at hy
          exact ih y hy
      | _ => rw [hr] at h; cases h
    | _ => rw [hf] at h; cases h

theorem filterMapPrune_no_null (c f : Val → Res Val) : ∀ (xs ys : List Val), filterMapPrune c f xs = .ok ys →
    ∀ y ∈ ys, y.isNull = false
  | [], ys, h => by
    simp only [filterMapPrune, Res.ok.injEq] at h
    subst h
    intro y hy
    cases hy
  | x :: xs, ys, h => by
    simp only [filterMapPrune] at h
    cases hc : c x with
    | ok b =>
      rw [hc] at h
      simp only [Res.ok_bind] at h
      cases hb : isTrue b
      · rw [hb] at h
        simp only [Bool.false_eq_true, if_false] at h
        exact filterMapPrune_no_null c f xs ys h
      · rw [hb] at h
        simp only [if_true] at h
        cases hf : f x with
        | ok p =>
          rw [hf] at h
          simp only [Res.ok_bind] at h
          cases hr : filterMapPrune c f xs with
          | ok rest =>
            rw [hr] at h
            simp only [Res.ok_bind, Res.pure_eq, Res.ok.injEq] at h
            have ih := filterMapPrune_no_null c f xs rest hr
            subst h
            intro y hy
            cases hp : p.isNull
            · rw [hp] at hy
              simp only [Bool.false_eq_true, if_false, List.mem_cons] at hy
              rcases hy with rfl | hy
              · exact hp
              · exact ih y hy
            · rw [hp] at hy
              simp only [if_true] at hy
              exact ih y hy
          | _ => rw [hr] at h; cases h
        | _ => rw [hf] at h; cases h
    | _ => rw [hc] at h; cases h

theorem filter_no_null (xs : List Val) : ∀ y ∈ xs.filter (fun x => !x.isNull), y.isNull = false := by
  intro y hy
  have := (List.mem_filter.mp hy).2
  simpa using this

theorem flattenElems_no_null : ∀ (xs : List Val), ∀ y ∈ flattenElems xs, y.isNull = false
  | [], y, hy => by cases hy
  | x :: rest, y, hy => by
    have ih := flattenElems_no_null rest
    cases x with
    | arr t ys =>
      simp only [flattenElems, List.mem_append] at hy
      rcases hy with hy | hy
      · exact filter_no_null ys y hy
      · exact ih y hy
    | null =>
      simp only [flattenElems] at hy
      exact ih y hy
    | bool b =>
      simp only [flattenElems, List.mem_cons] at hy
      rcases hy with rfl | hy
      · rfl
      · exact ih y hy
    | str b =>
      simp only [flattenElems, List.mem_cons] at hy
      rcases hy with rfl | hy
      · rfl
      · exact ih y hy
    | num b =>
      simp only [flattenElems, List.mem_cons] at hy
      rcases hy with rfl | hy
      · rfl
      · exact ih y hy
    | obj b =>
      simp only [flattenElems, List.mem_cons] at hy
      rcases hy with rfl | hy
      · rfl
      · exact ih y hy
    | foreign b =>
      simp only [flattenElems, List.mem_cons] at hy
      rcases hy with rfl | hy
      · rfl
      · exact ih y hy

theorem projectArray_no_null (f : Val → Res Val) (v : Val) (t : ATag) (ys : List Val)
    (h : projectArray f v = .ok (.arr t ys)) : ∀ y ∈ ys, y.isNull = false := by
  cases v with
  | arr t' xs =>
    simp only [projectArray] at h
    have h2 := widen_eq_ok h
    cases hr : mapPrune f xs with
    | ok r =>
      rw [hr] at h2
      simp only [Res.ok_bind, Res.pure_eq, Res.ok.injEq, Val.arr.injEq] at h2
      rw [← h2.2]
      exact mapPrune_no_null f xs r hr
    | _ => rw [hr] at h2; cases h2
  | _ =>
    simp only [projectArray, Res.ok.injEq] at h
    cases h

theorem filterAndProjectArray_no_null (c f : Val → Res Val) (v : Val) (t : ATag) (ys : List Val)
    (h : filterAndProjectArray c f v = .ok (.arr t ys)) : ∀ y ∈ ys, y.isNull = false := by
  cases v with
  | arr t' xs =>
    simp only [filterAndProjectArray] at h
    have h2 := widen_eq_ok h
    cases hr : filterMapPrune c f xs with
    | ok r =>
      rw [hr] at h2
      simp only [Res.ok_bind, Res.pure_eq, Res.ok.injEq, Val.arr.injEq] at h2
      rw [← h2.2]
      exact filterMapPrune_no_null c f xs r hr
    | _ => rw [hr] at h2; cases h2
  | _ =>
    simp only [filterAndProjectArray, Res.ok.injEq] at h
    cases h

theorem filterArray_no_null (c : Val → Res Val) (v : Val) (t : ATag) (ys : List Val)
    (h : filterArray c v = .ok (.arr t ys)) : ∀ y ∈ ys, y.isNull = false := by
  rw [filterArray_eq] at h
  exact filterAndProjectArray_no_null c _ v t ys h

theorem flattenAndProjectArray_no_null (f : Val → Res Val) (v : Val) (t : ATag) (ys : List Val)
    (h : flattenAndProjectArray f v = .ok (.arr t ys)) : ∀ y ∈ ys, y.isNull = false := by
  cases v with
  | arr t' xs =>
    simp only [flattenAndProjectArray] at h
    have h2 := widen_eq_ok h
    cases hr : mapPrune f (flattenForProject xs) with
    | ok r =>
      rw [hr] at h2
      simp only [Res.ok_bind, Res.pure_eq, Res.ok.injEq, Val.arr.injEq] at h2
      rw [← h2.2]
      exact mapPrune_no_null f _ r hr
    | _ => rw [hr] at h2; cases h2
  | _ =>
    simp only [flattenAndProjectArray, Res.ok.injEq] at h
    cases h

theorem projectObject_no_null (f : Val → Res Val) (v : Val) (t : ATag) (ys : List Val)
    (h : projectObject f v = .ok (.arr t ys)) : ∀ y ∈ ys, y.isNull = false := by
  cases v with
  | obj kvs =>
    simp only [projectObject] at h
    have h2 := widen_eq_ok h
    cases hr : mapPrune f (kvs.map Prod.snd) with
    | ok r =>
      rw [hr] at h2
      simp only [Res.ok_bind, Res.pure_eq, Res.ok.injEq, Val.arr.injEq] at h2
      rw [← h2.2]
      exact mapPrune_no_null f _ r hr
    | _ => rw [hr] at h2; cases h2
  | _ =>
    simp only [projectObject, Res.ok.injEq] at h
    cases h

theorem any_isNull_false {xs : List Val} (h : xs.any Val.isNull = false) : ∀ y ∈ xs, y.isNull = false := by
  intro y hy
  cases hn : y.isNull
  · rfl
  · have : xs.any Val.isNull = true := List.any_eq_true.mpr ⟨y, hy, hn⟩
    rw [h] at this
    cases this

theorem pruneArray_no_null (v : Val) (t : ATag) (ys : List Val)
    (h : pruneArray v = .arr t ys) : ∀ y ∈ ys, y.isNull = false := by
  cases v with
  | arr t' xs =>
    simp only [pruneArray] at h
    cases hany : xs.any Val.isNull
    · rw [hany] at h
      simp only [Bool.false_eq_true, if_false, Val.arr.injEq] at h
      rw [← h.2]
      exact any_isNull_false hany
    · rw [hany] at h
      simp only [if_true, Val.arr.injEq] at h
      rw [← h.2]
      exact filter_no_null xs
  | _ => cases h

theorem flatten_no_null (v : Val) (t : ATag) (ys : List Val)
    (h : flatten v = .arr t ys) : ∀ y ∈ ys, y.isNull = false := by
  cases v with
  | arr t' xs =>
    simp only [flatten, Val.arr.injEq] at h
    rw [← h.2]
    exact flattenElems_no_null xs
  | _ => cases h

theorem objectValues_no_null (v : Val) (t : ATag) (ys : List Val)
    (h : objectValues v = .arr t ys) : ∀ y ∈ ys, y.isNull = false := by
  cases v with
  | obj kvs =>
    simp only [objectValues, Val.arr.injEq] at h
    rw [← h.2]
    exact filter_no_null _
  | _ => cases h

/-- **every value-level projection form omits null results** -/
theorem proj_no_null (c f : Val → Res Val) (v : Val) (t : ATag) (ys : List Val) :
    (projectArray f v = .ok (.arr t ys) → ∀ y ∈ ys, y.isNull = false) ∧
    (filterAndProjectArray c f v = .ok (.arr t ys) → ∀ y ∈ ys, y.isNull = false) ∧
    (flattenAndProjectArray f v = .ok (.arr t ys) → ∀ y ∈ ys, y.isNull = false) ∧
    (projectObject f v = .ok (.arr t ys) → ∀ y ∈ ys, y.isNull = false) ∧
    (pruneArray v = .arr t ys → ∀ y ∈ ys, y.isNull = false) ∧
    (flatten v = .arr t ys → ∀ y ∈ ys, y.isNull = false) ∧
    (objectValues v = .arr t ys → ∀ y ∈ ys, y.isNull = false) ∧
    (filterArray c v = .ok (.arr t ys) → ∀ y ∈ ys, y.isNull = false) :=
  ⟨projectArray_no_null f v t ys, filterAndProjectArray_no_null c f v t ys,
   flattenAndProjectArray_no_null f v t ys, projectObject_no_null f v t ys, pruneArray_no_null v t ys,
   flatten_no_null v t ys, objectValues_no_null v t ys, filterArray_no_null c v t ys⟩

/-- non-vacuity: `[1, null, [null]]` projected with the identity keeps `1` and `[null]` (nested nulls stay) -/
example : projectArray (fun v => .ok v) (.arr .plain [.num (.int .int 1), .null, .arr .plain [.null]])
    = .ok (.arr .plain [.num (.int .int 1), .arr .plain [.null]]) := rfl
example : flatten (.arr .plain [.num (.int .int 1), .null, .arr .plain [.null, .bool true]])
    = .arr .plain [.num (.int .int 1), .bool true] := rfl
example : objectValues (.obj [([97], .null), ([98], .bool true)]) = .arr .enum [.bool true] := rfl
example : pruneArray (.arr .plain [.null, .bool true]) = .arr .plain [.bool true] := rfl
example : filterArray (fun _ => .ok (.bool true)) (.arr .plain [.null, .bool true]) = .ok (.arr .plain [.bool true]) := rfl

/-! ### … lifted to the reference semantics `seval` -/

/-- an outcome that, when it is an array, holds no null -/
def NoNullResult (r : Res Val) : Prop := ∀ tag ys, r = .ok (.arr tag ys) → ∀ y ∈ ys, y.isNull = false

theorem bind_eq_ok {α β} {x : Res α} {f : α → Res β} {b : β} (h : (x >>= f) = .ok b) :
    ∃ a, x = .ok a ∧ f a = .ok b := by
  cases x with
  | ok a => exact ⟨a, rfl, h⟩
  | _ => cases h

theorem seval_proj_no_null (root : Val) (l r : Tree) (cur : Val) (env : Env) :
    NoNullResult (seval root (.proj l r) cur env) := by
  intro tag ys h
  simp only [seval] at h
  obtain ⟨a, _, h2⟩ := bind_eq_ok h
  exact projectArray_no_null _ a tag ys h2

/-- a slice projection: a string slice is handed to the right-hand side as it is, so the statement is for the
    case where the value of `l` is not a string -/
theorem seval_sliceProj_no_null (root : Val) (l r : Tree) (cur : Val) (env : Env)
    (hs : ∀ s, seval root l cur env ≠ .ok (.str s)) :
    NoNullResult (seval root (.sliceProj l r) cur env) := by
  intro tag ys h
  simp only [seval] at h
  obtain ⟨a, ha, h2⟩ := bind_eq_ok h
  cases a with
  | str s => exact absurd ha (hs s)
  | _ => exact projectArray_no_null _ _ tag ys h2

theorem seval_flatProj_no_null (root : Val) (l r : Tree) (cur : Val) (env : Env) :
    NoNullResult (seval root (.flatProj l r) cur env) := by
  intro tag ys h
  simp only [seval] at h
  obtain ⟨a, _, h2⟩ := bind_eq_ok h
  exact flattenAndProjectArray_no_null _ a tag ys h2

theorem seval_filterProj_no_null (root : Val) (l c r : Tree) (cur : Val) (env : Env) :
    NoNullResult (seval root (.filterProj l c r) cur env) := by
  intro tag ys h
  simp only [seval] at h
  obtain ⟨a, _, h2⟩ := bind_eq_ok h
  exact filterAndProjectArray_no_null _ _ a tag ys h2

theorem seval_valueProj_no_null (root : Val) (l r : Tree) (cur : Val) (env : Env) :
    NoNullResult (seval root (.valueProj l r) cur env) := by
  intro tag ys h
  simp only [seval] at h
  obtain ⟨a, _, h2⟩ := bind_eq_ok h
  exact projectObject_no_null _ a tag ys h2

theorem seval_prune_no_null (root : Val) (l : Tree) (cur : Val) (env : Env) :
    NoNullResult (seval root (.prune l) cur env) := by
  intro tag ys h
  simp only [seval] at h
  obtain ⟨a, _, h2⟩ := bind_eq_ok h
  simp only [Res.pure_eq, Res.ok.injEq] at h2
  exact pruneArray_no_null a tag ys h2

/-- **the six projection forms of the reference syntax omit null results** -/
theorem seval_proj_forms_no_null (root : Val) (l c r : Tree) (cur : Val) (env : Env) :
    NoNullResult (seval root (.proj l r) cur env) ∧
    ((∀ s, seval root l cur env ≠ .ok (.str s)) → NoNullResult (seval root (.sliceProj l r) cur env)) ∧
    NoNullResult (seval root (.flatProj l r) cur env) ∧
    NoNullResult (seval root (.filterProj l c r) cur env) ∧
    NoNullResult (seval root (.valueProj l r) cur env) ∧
    NoNullResult (seval root (.prune l) cur env) :=
  ⟨seval_proj_no_null root l r cur env, seval_sliceProj_no_null root l r cur env,
   seval_flatProj_no_null root l r cur env, seval_filterProj_no_null root l c r cur env,
   seval_valueProj_no_null root l r cur env, seval_prune_no_null root l cur env⟩

/-- non-vacuity: `@[*].a` on `[{"a":1},{"b":2},{"a":null}]` is `[1]` -/
example : seval .null (.proj .current (.field [97]))
    (.arr .plain [.obj [([97], .num (.int .int 1))], .obj [([98], .num (.int .int 2))], .obj [([97], .null)]]) []
    = .ok (.arr .plain [.num (.int .int 1)]) := rfl
/-- the string case of a slice projection is not an array at all: `"abc"[0:2]` followed by `@` -/
example : seval .null (.sliceProj (.slice 0 2) .current) (.str [97, 98, 99]) [] = .ok (.str [97, 98]) := rfl

/-! ### … and to the Go-shaped evaluator, for the sixteen projection node types -/

theorem ieval_projectArray_no_null (root : Val) (l r : INode) (cur : Val) (env : Env)
    (hs : l.isSlice = true → ∀ s, ieval root l cur env ≠ .ok (.str s)) :
    NoNullResult (ieval root (.projectArray l r) cur env) := by
  rw [ieval_desugar]
  simp only [desugar]
  cases hsl : l.isSlice
  · simp only [Bool.false_eq_true, if_false]
    exact seval_proj_no_null _ _ _ _ _
  · simp only [if_true]
    apply seval_sliceProj_no_null
    intro s
    rw [← ieval_desugar]
    exact hs hsl s

theorem ieval_proj_forms_no_null (root : Val) (l c r : INode) (cur : Val) (env : Env) :
    ((l.isSlice = true → ∀ s, ieval root l cur env ≠ .ok (.str s)) →
      NoNullResult (ieval root (.projectArray l r) cur env)) ∧
    NoNullResult (ieval root (.projectArrayCurrent r) cur env) ∧
    NoNullResult (ieval root (.filter l c) cur env) ∧
    NoNullResult (ieval root (.filterCurrent c) cur env) ∧
    NoNullResult (ieval root (.filterAndProject l c r) cur env) ∧
    NoNullResult (ieval root (.filterAndProjectCurrent c r) cur env) ∧
    NoNullResult (ieval root (.flatten l) cur env) ∧
    NoNullResult (ieval root .flattenCurrent cur env) ∧
    NoNullResult (ieval root (.flattenAndProject l r) cur env) ∧
    NoNullResult (ieval root (.flattenAndProjectCurrent r) cur env) ∧
    NoNullResult (ieval root (.objectValues l) cur env) ∧
    NoNullResult (ieval root .objectValuesCurrent cur env) ∧
    NoNullResult (ieval root (.projectObject l r) cur env) ∧
    NoNullResult (ieval root (.projectObjectCurrent r) cur env) ∧
    NoNullResult (ieval root (.pruneArray l) cur env) ∧
    NoNullResult (ieval root .pruneArrayCurrent cur env) := by
  refine ⟨ieval_projectArray_no_null root l r cur env, ?_, ?_, ?_, ?_, ?_, ?_, ?_, ?_, ?_, ?_, ?_, ?_, ?_, ?_, ?_⟩ <;>
    rw [ieval_desugar] <;> simp only [desugar]
  · exact seval_proj_no_null _ _ _ _ _
  · exact seval_filterProj_no_null _ _ _ _ _ _
  · exact seval_filterProj_no_null _ _ _ _ _ _
  · exact seval_filterProj_no_null _ _ _ _ _ _
  · exact seval_filterProj_no_null _ _ _ _ _ _
  · exact seval_flatProj_no_null _ _ _ _ _
  · exact seval_flatProj_no_null _ _ _ _ _
  · exact seval_flatProj_no_null _ _ _ _ _
  · exact seval_flatProj_no_null _ _ _ _ _
  · exact seval_valueProj_no_null _ _ _ _ _
  · exact seval_valueProj_no_null _ _ _ _ _
  · exact seval_valueProj_no_null _ _ _ _ _
  · exact seval_valueProj_no_null _ _ _ _ _
  · exact seval_prune_no_null _ _ _ _
  · exact seval_prune_no_null _ _ _ _

example : ieval .null (.flattenAndProjectCurrent (.field [97]))
    (.arr .plain [.arr .plain [.obj [([97], .bool true)], .obj []], .obj [([97], .null)]]) []
    = .ok (.arr .plain [.bool true]) := rfl

/-! ## c. the projections are "map, then drop nulls" -/

theorem mapPrune_spec (f : Val → Res Val) (g : Val → Val) : ∀ (xs : List Val), (∀ x ∈ xs, f x = .ok (g x)) →
    mapPrune f xs = .ok ((xs.map g).filter (fun y => !y.isNull))
  | [], _ => rfl
  | x :: xs, h => by
    have hx := h x (List.mem_cons_self ..)
    have ih := mapPrune_spec f g xs (fun y hy => h y (List.mem_cons_of_mem _ hy))
    simp only [mapPrune, hx, ih, Res.ok_bind, Res.pure_eq, List.map_cons, List.filter_cons]
    cases (g x).isNull <;> simp

theorem filterMapPrune_spec (c f : Val → Res Val) (cv g : Val → Val) : ∀ (xs : List Val),
    (∀ x ∈ xs, c x = .ok (cv x)) → (∀ x ∈ xs, isTrue (cv x) = true → f x = .ok (g x)) →
    filterMapPrune c f xs = .ok (((xs.filter (fun x => isTrue (cv x))).map g).filter (fun y => !y.isNull))
  | [], _, _ => rfl
  | x :: xs, hc, hf => by
    have hcx := hc x (List.mem_cons_self ..)
    have ih := filterMapPrune_spec c f cv g xs (fun y hy => hc y (List.mem_cons_of_mem _ hy))
      (fun y hy => hf y (List.mem_cons_of_mem _ hy))
    simp only [filterMapPrune, hcx, Res.ok_bind, List.filter_cons]
    cases ht : isTrue (cv x)
    · simp only [Bool.false_eq_true, if_false, ih]
    · have hfx := hf x (List.mem_cons_self ..) ht
      simp only [if_true, hfx, ih, Res.ok_bind, Res.pure_eq, List.map_cons, List.filter_cons]
      cases (g x).isNull <;> simp

/-- array projection `xs[*].f` on a JSON array: apply `f` to every element, drop the null results -/
theorem projectArray_spec (f : Val → Res Val) (g : Val → Val) (xs : List Val) (h : ∀ x ∈ xs, f x = .ok (g x)) :
    projectArray f (.arr .plain xs) = .ok (.arr .plain ((xs.map g).filter (fun y => !y.isNull))) := by
  simp only [projectArray, mapPrune_spec f g xs h, Res.ok_bind, Res.pure_eq, widen_ok]
  rfl

/-- filter projection `xs[?c].f`: keep the elements whose condition is truthy, apply `f`, drop the null results -/
theorem filterAndProjectArray_spec (c f : Val → Res Val) (cv g : Val → Val) (xs : List Val)
    (hc : ∀ x ∈ xs, c x = .ok (cv x)) (hf : ∀ x ∈ xs, isTrue (cv x) = true → f x = .ok (g x)) :
    filterAndProjectArray c f (.arr .plain xs)
      = .ok (.arr .plain (((xs.filter (fun x => isTrue (cv x))).map g).filter (fun y => !y.isNull))) := by
  simp only [filterAndProjectArray, filterMapPrune_spec c f cv g xs hc hf, Res.ok_bind, Res.pure_eq, widen_ok]
  rfl

/-- one level of flattening of one element: an array contributes its non-null elements, null nothing,
    anything else itself -/
def flatOne : Val → List Val
  | .arr _ ys => ys.filter (fun y => !y.isNull)
  | .null => []
  | x => [x]

theorem flattenElems_eq_flatMap : ∀ (xs : List Val), flattenElems xs = xs.flatMap flatOne
  | [] => rfl
  | x :: rest => by
    have ih := flattenElems_eq_flatMap rest
    cases x <;> simp only [flattenElems, List.flatMap_cons, flatOne, ih, List.cons_append, List.nil_append]

/-- the elements of `flatten` -/
theorem flatten_spec (t : ATag) (xs : List Val) :
    flatten (.arr t xs) = .arr (flattenTag t xs) (xs.flatMap flatOne) := by
  simp only [flatten, flattenElems_eq_flatMap]

theorem enum2_plain (xs : List Val) : enum2 .plain xs = false := rfl

/-- for JSON data (every array `.plain`) the result is `.plain` -/
theorem flattenTag_plain (xs : List Val) (h : ∀ x ∈ xs, ∀ t ys, x = .arr t ys → t = .plain) :
    flattenTag .plain xs = .plain := by
  simp only [flattenTag, enum2_plain, Bool.false_or]
  rw [if_neg]
  intro hany
  obtain ⟨x, hx, hp⟩ := List.any_eq_true.mp hany
  cases x with
  | arr t ys =>
    have := h _ hx t ys rfl
    subst this
    simp [enum2] at hp
  | _ => cases hp

theorem flatten_plain_spec (xs : List Val) (h : ∀ x ∈ xs, ∀ t ys, x = .arr t ys → t = .plain) :
    flatten (.arr .plain xs) = .arr .plain (xs.flatMap flatOne) := by
  rw [flatten_spec, flattenTag_plain xs h]

/-- flatten projection `xs[].f`: the visited elements are one level of concatenation (nulls kept: they are
    projected, and `f` may map null to a non-null value), then "map, drop nulls" -/
def flatOneKeep : Val → List Val
  | .arr _ ys => ys
  | x => [x]

theorem flattenForProject_eq_flatMap : ∀ (xs : List Val), flattenForProject xs = xs.flatMap flatOneKeep
  | [] => rfl
  | x :: rest => by
    have ih := flattenForProject_eq_flatMap rest
    cases x <;> simp only [flattenForProject, List.flatMap_cons, flatOneKeep, ih, List.cons_append, List.nil_append]

theorem flattenAndProjectArray_spec (f : Val → Res Val) (g : Val → Val) (t : ATag) (xs : List Val)
    (h : ∀ x ∈ xs.flatMap flatOneKeep, f x = .ok (g x)) :
    flattenAndProjectArray f (.arr t xs)
      = .ok (.arr (flattenTag t xs) (((xs.flatMap flatOneKeep).map g).filter (fun y => !y.isNull))) := by
  simp only [flattenAndProjectArray, flattenForProject_eq_flatMap, mapPrune_spec f g _ h, Res.ok_bind, Res.pure_eq,
    widen_ok]

/-- object projection `obj.*.f`: the member values in key order, "map, drop nulls", tagged `.enum` (Go ranges over
    a map: the order of the result is unspecified) -/
theorem projectObject_spec (f : Val → Res Val) (g : Val → Val) (kvs : List (Bytes × Val))
    (h : ∀ x ∈ kvs.map Prod.snd, f x = .ok (g x)) :
    projectObject f (.obj kvs) = .ok (.arr .enum (((kvs.map Prod.snd).map g).filter (fun y => !y.isNull))) := by
  simp only [projectObject, mapPrune_spec f g _ h, Res.ok_bind, Res.pure_eq, widen_ok]

/-- `l[*]` without a right-hand side: the array without its nulls -/
theorem pruneArray_spec (xs : List Val) :
    pruneArray (.arr .plain xs) = .arr .plain (xs.filter (fun y => !y.isNull)) := by
  simp only [pruneArray]
  cases hany : xs.any Val.isNull
  · simp only [Bool.false_eq_true, if_false, Val.arr.injEq, true_and]
    symm
    apply List.filter_eq_self.mpr
    intro y hy
    simp [any_isNull_false hany y hy]
  · rfl

/-- **proj_spec** -/
theorem proj_spec (c f : Val → Res Val) (cv g : Val → Val) (xs : List Val) (kvs : List (Bytes × Val))
    (hc : ∀ x, c x = .ok (cv x)) (hf : ∀ x, f x = .ok (g x)) :
    projectArray f (.arr .plain xs) = .ok (.arr .plain ((xs.map g).filter (fun y => !y.isNull))) ∧
    filterAndProjectArray c f (.arr .plain xs)
      = .ok (.arr .plain (((xs.filter (fun x => isTrue (cv x))).map g).filter (fun y => !y.isNull))) ∧
    flatten (.arr .plain xs) = .arr (flattenTag .plain xs) (xs.flatMap flatOne) ∧
    flattenAndProjectArray f (.arr .plain xs)
      = .ok (.arr (flattenTag .plain xs) (((xs.flatMap flatOneKeep).map g).filter (fun y => !y.isNull))) ∧
    projectObject f (.obj kvs) = .ok (.arr .enum (((kvs.map Prod.snd).map g).filter (fun y => !y.isNull))) ∧
    objectValues (.obj kvs) = .arr .enum ((kvs.map Prod.snd).filter (fun y => !y.isNull)) ∧
    pruneArray (.arr .plain xs) = .arr .plain (xs.filter (fun y => !y.isNull)) :=
  ⟨projectArray_spec f g xs (fun x _ => hf x),
   filterAndProjectArray_spec c f cv g xs (fun x _ => hc x) (fun x _ _ => hf x),
   flatten_spec .plain xs,
   flattenAndProjectArray_spec f g .plain xs (fun x _ => hf x),
   projectObject_spec f g kvs (fun x _ => hf x), rfl, pruneArray_spec xs⟩

/-- non-vacuity: `[?@].a` with `g = field "a"`, on `[{"a":1}, {}, null, {"a":null}]` -/
example : filterAndProjectArray (fun v => .ok v) (fun v => .ok (field [97] v))
    (.arr .plain [.obj [([97], .num (.int .int 1))], .obj [], .null, .obj [([97], .null)]])
    = .ok (.arr .plain [.num (.int .int 1)]) := rfl
example : [Val.arr .plain [.bool true, .null], .null, .bool false].flatMap flatOne = [.bool true, .bool false] := rfl
example : flatten (.arr .plain [.arr .plain [.bool true, .null, .arr .plain [.null]], .null, .bool false])
    = .arr .plain [.bool true, .arr .plain [.null], .bool false] := rfl
example : projectObject (fun v => .ok (field [120] v))
    (.obj [([97], .obj [([120], .bool true)]), ([98], .obj []), ([99], .obj [([120], .bool false)])])
    = .ok (.arr .enum [.bool true, .bool false]) := rfl

/-! ## d. absent or wrongly-typed selections give null, never an error -/

theorem field_obj (k : Bytes) (kvs : List (Bytes × Val)) : field k (.obj kvs) = (objLookup k kvs).getD .null := rfl

theorem field_non_object (k : Bytes) (v : Val) (h : ∀ kvs, v ≠ .obj kvs) : field k v = .null := by
  cases v with
  | obj kvs => exact absurd rfl (h kvs)
  | _ => rfl

theorem field_absent (k : Bytes) (kvs : List (Bytes × Val)) (h : objLookup k kvs = none) :
    field k (.obj kvs) = .null := by
  simp only [field, h, Option.getD_none]

theorem field_present (k : Bytes) (kvs : List (Bytes × Val)) (x : Val) (h : objLookup k kvs = some x) :
    field k (.obj kvs) = x := by
  simp only [field, h, Option.getD_some]

/-- `field k v` is non-null only for an object that has `k` -/
theorem field_ne_null (k : Bytes) (v : Val) (h : field k v ≠ .null) :
    ∃ kvs x, v = .obj kvs ∧ objLookup k kvs = some x ∧ field k v = x := by
  cases v with
  | obj kvs =>
    cases hl : objLookup k kvs with
    | none => exact absurd (field_absent k kvs hl) h
    | some x => exact ⟨kvs, x, rfl, hl, field_present k kvs x hl⟩
  | _ => exact absurd rfl h

theorem index_non_array (v : Val) (i : Int) (h : ∀ t xs, v ≠ .arr t xs) : index v i = .ok .null := by
  cases v with
  | arr t xs => exact absurd rfl (h t xs)
  | _ => rfl

theorem index_out_of_range (t : ATag) (xs : List Val) (i : Int)
    (h : i ≥ (xs.length : Int) ∨ i < -(xs.length : Int)) : index (.arr t xs) i = .ok .null := by
  simp only [index]
  have : (if i < 0 then i + (xs.length : Int) else i) < 0 ∨ (if i < 0 then i + (xs.length : Int) else i) ≥ xs.length := by
    split <;> omega
  simp only [this, if_true]

theorem index_nonneg (xs : List Val) (i : Int) (h0 : 0 ≤ i) (h1 : i < xs.length) :
    index (.arr .plain xs) i = .ok (xs[i.toNat]'(by omega)) := by
  have hi : ¬ i < 0 := by omega
  have h2 : ¬ (i ≥ xs.length) := by omega
  have hlt : i.toNat < xs.length := by omega
  simp only [index, enum2_plain, Bool.false_eq_true, if_false, hi, h2, false_or, List.getD_eq_getElem?_getD,
    List.getElem?_eq_getElem hlt, Option.getD_some]

theorem index_neg (xs : List Val) (i : Int) (h0 : i < 0) (h1 : -(xs.length : Int) ≤ i) :
    index (.arr .plain xs) i = .ok (xs[((xs.length : Int) + i).toNat]'(by omega)) := by
  have h2 : ¬ (i + (xs.length : Int) < 0 ∨ i + (xs.length : Int) ≥ xs.length) := by omega
  have hlt : (i + (xs.length : Int)).toNat < xs.length := by omega
  have he : (xs.length : Int) + i = i + xs.length := by omega
  simp only [index, enum2_plain, Bool.false_eq_true, if_false, h0, if_true, h2, List.getD_eq_getElem?_getD,
    List.getElem?_eq_getElem hlt, Option.getD_some, he]

theorem index_never_errors (v : Val) (i : Int) (cs : List Cat) : index v i ≠ .err cs := by
  cases v with
  | arr t xs =>
    simp only [index]
    by_cases h1 : ((if i < 0 then i + (xs.length : Int) else i) < 0 ∨
        (if i < 0 then i + (xs.length : Int) else i) ≥ (xs.length : Int))
    · rw [if_pos h1]; intro h; cases h
    · rw [if_neg h1]
      cases enum2 t xs
      · simp only [Bool.false_eq_true, if_false]; intro h; cases h
      · simp only [if_true]; intro h; cases h
  | _ => intro h; cases h

theorem slice_non_array_string (v : Val) (a b : Int) (h1 : ∀ t xs, v ≠ .arr t xs) (h2 : ∀ s, v ≠ .str s) :
    slice v a b = .ok .null := by
  cases v with
  | arr t xs => exact absurd rfl (h1 t xs)
  | str s => exact absurd rfl (h2 s)
  | _ => rfl

theorem sliceStep_non_array_string (v : Val) (a b s : Int) (h1 : ∀ t xs, v ≠ .arr t xs) (h2 : ∀ s, v ≠ .str s) :
    sliceStep v a b s = .ok .null := by
  cases v with
  | arr t xs => exact absurd rfl (h1 t xs)
  | str s => exact absurd rfl (h2 s)
  | _ => rfl

theorem slice_never_errors (v : Val) (a b : Int) (cs : List Cat) : slice v a b ≠ .err cs := by
  cases v with
  | arr t xs =>
    simp only [slice]
    split
    · intro h; cases h
    · split
      · intro h; cases h
      · split <;> (intro h; cases h)
  | str s =>
    simp only [slice]
    split <;> (intro h; cases h)
  | _ => intro h; cases h

theorem sliceStep_never_errors (v : Val) (a b s : Int) (cs : List Cat) : sliceStep v a b s ≠ .err cs := by
  cases v with
  | arr t xs =>
    simp only [sliceStep]
    split
    · intro h; cases h
    · split <;> (intro h; cases h)
  | str s =>
    simp only [sliceStep]
    split
    · intro h; cases h
    · split <;> (intro h; cases h)
  | _ => intro h; cases h

theorem projectArray_non_array (f : Val → Res Val) (v : Val) (h : ∀ t xs, v ≠ .arr t xs) :
    projectArray f v = .ok .null := by
  cases v with
  | arr t xs => exact absurd rfl (h t xs)
  | _ => rfl

theorem filterAndProjectArray_non_array (c f : Val → Res Val) (v : Val) (h : ∀ t xs, v ≠ .arr t xs) :
    filterAndProjectArray c f v = .ok .null := by
  cases v with
  | arr t xs => exact absurd rfl (h t xs)
  | _ => rfl

theorem filterArray_non_array (c : Val → Res Val) (v : Val) (h : ∀ t xs, v ≠ .arr t xs) :
    filterArray c v = .ok .null := by
  cases v with
  | arr t xs => exact absurd rfl (h t xs)
  | _ => rfl

theorem flattenAndProjectArray_non_array (f : Val → Res Val) (v : Val) (h : ∀ t xs, v ≠ .arr t xs) :
    flattenAndProjectArray f v = .ok .null := by
  cases v with
  | arr t xs => exact absurd rfl (h t xs)
  | _ => rfl

theorem projectObject_non_object (f : Val → Res Val) (v : Val) (h : ∀ kvs, v ≠ .obj kvs) :
    projectObject f v = .ok .null := by
  cases v with
  | obj kvs => exact absurd rfl (h kvs)
  | _ => rfl

theorem pruneArray_non_array (v : Val) (h : ∀ t xs, v ≠ .arr t xs) : pruneArray v = .null := by
  cases v with
  | arr t xs => exact absurd rfl (h t xs)
  | _ => rfl

theorem flatten_non_array (v : Val) (h : ∀ t xs, v ≠ .arr t xs) : flatten v = .null := by
  cases v with
  | arr t xs => exact absurd rfl (h t xs)
  | _ => rfl

theorem objectValues_non_object (v : Val) (h : ∀ kvs, v ≠ .obj kvs) : objectValues v = .null := by
  cases v with
  | obj kvs => exact absurd rfl (h kvs)
  | _ => rfl

/-! the projections raise no error of their own: an error outcome comes from the projected expression -/

theorem widen_eq_err {α} {t : ATag} {xs : List Val} {fs : List (Val → Res Val)} {extra : List Cat} {r : Res α}
    {cs : List Cat} (h : widen t xs fs extra r = .err cs) : ∃ cs', r = .err cs' := by
  cases r with
  | err cs' => exact ⟨cs', rfl⟩
  | _ => cases h

theorem mapPrune_err (f : Val → Res Val) : ∀ (xs : List Val) (cs : List Cat), mapPrune f xs = .err cs →
    ∃ x ∈ xs, f x = .err cs
  | [], cs, h => by cases h
  | x :: xs, cs, h => by
    simp only [mapPrune] at h
    cases hf : f x with
    | ok p =>
      rw [hf] at h
      simp only [Res.ok_bind] at h
      cases hr : mapPrune f xs with
      | err cs' =>
        rw [hr] at h
        simp only [Res.err_bind, Res.err.injEq] at h
        subst h
        obtain ⟨y, hy, hfy⟩ := mapPrune_err f xs _ hr
        exact ⟨y, List.mem_cons_of_mem _ hy, hfy⟩
      | _ => rw [hr] at h; cases h
    | err cs' =>
      rw [hf] at h
      simp only [Res.err_bind, Res.err.injEq] at h
      subst h
      exact ⟨x, List.mem_cons_self .., hf⟩
    | _ => rw [hf] at h; cases h

theorem filterMapPrune_err (c f : Val → Res Val) : ∀ (xs : List Val) (cs : List Cat),
    filterMapPrune c f xs = .err cs → ∃ x ∈ xs, c x = .err cs ∨ f x = .err cs
  | [], cs, h => by cases h
  | x :: xs, cs, h => by
    simp only [filterMapPrune] at h
    cases hc : c x with
    | ok b =>
      rw [hc] at h
      simp only [Res.ok_bind] at h
      cases hb : isTrue b
      · rw [hb] at h
        simp only [Bool.false_eq_true, if_false] at h
        obtain ⟨y, hy, hfy⟩ := filterMapPrune_err c f xs _ h
        exact ⟨y, List.mem_cons_of_mem _ hy, hfy⟩
      · rw [hb] at h
        simp only [if_true] at h
        cases hf : f x with
        | ok p =>
          rw [hf] at h
          simp only [Res.ok_bind] at h
          cases hr : filterMapPrune c f xs with
          | err cs' =>
            rw [hr] at h
            simp only [Res.err_bind, Res.err.injEq] at h
            subst h
            obtain ⟨y, hy, hfy⟩ := filterMapPrune_err c f xs _ hr
            exact ⟨y, List.mem_cons_of_mem _ hy, hfy⟩
          | _ => rw [hr] at h; cases h
        | err cs' =>
          rw [hf] at h
          simp only [Res.err_bind, Res.err.injEq] at h
          subst h
          exact ⟨x, List.mem_cons_self .., Or.inr hf⟩
        | _ => rw [hf] at h; cases h
    | err cs' =>
      rw [hc] at h
      simp only [Res.err_bind, Res.err.injEq] at h
      subst h
      exact ⟨x, List.mem_cons_self .., Or.inl hc⟩
    | _ => rw [hc] at h; cases h

/-- an error of `projectArray` is an error of `f` on some element -/
theorem projectArray_err_from_f (f : Val → Res Val) (v : Val) (cs : List Cat) (h : projectArray f v = .err cs) :
    ∃ t xs, v = .arr t xs ∧ ∃ x ∈ xs, ∃ cs', f x = .err cs' := by
  cases v with
  | arr t xs =>
    simp only [projectArray] at h
    obtain ⟨cs', h2⟩ := widen_eq_err h
    cases hr : mapPrune f xs with
    | err c2 =>
      obtain ⟨x, hx, hfx⟩ := mapPrune_err f xs c2 hr
      exact ⟨t, xs, rfl, x, hx, c2, hfx⟩
    | _ => rw [hr] at h2; cases h2
  | _ => cases h

theorem filterAndProjectArray_err_from_f (c f : Val → Res Val) (v : Val) (cs : List Cat)
    (h : filterAndProjectArray c f v = .err cs) :
    ∃ t xs, v = .arr t xs ∧ ∃ x ∈ xs, ∃ cs', c x = .err cs' ∨ f x = .err cs' := by
  cases v with
  | arr t xs =>
    simp only [filterAndProjectArray] at h
    obtain ⟨cs', h2⟩ := widen_eq_err h
    cases hr : filterMapPrune c f xs with
    | err c2 =>
      obtain ⟨x, hx, hfx⟩ := filterMapPrune_err c f xs c2 hr
      exact ⟨t, xs, rfl, x, hx, c2, hfx⟩
    | _ => rw [hr] at h2; cases h2
  | _ => cases h

theorem flattenAndProjectArray_err_from_f (f : Val → Res Val) (v : Val) (cs : List Cat)
    (h : flattenAndProjectArray f v = .err cs) :
    ∃ t xs, v = .arr t xs ∧ ∃ x ∈ xs.flatMap flatOneKeep, ∃ cs', f x = .err cs' := by
  cases v with
  | arr t xs =>
    simp only [flattenAndProjectArray] at h
    obtain ⟨cs', h2⟩ := widen_eq_err h
    cases hr : mapPrune f (flattenForProject xs) with
    | err c2 =>
      obtain ⟨x, hx, hfx⟩ := mapPrune_err f _ c2 hr
      rw [flattenForProject_eq_flatMap] at hx
      exact ⟨t, xs, rfl, x, hx, c2, hfx⟩
    | _ => rw [hr] at h2; cases h2
  | _ => cases h

theorem projectObject_err_from_f (f : Val → Res Val) (v : Val) (cs : List Cat) (h : projectObject f v = .err cs) :
    ∃ kvs, v = .obj kvs ∧ ∃ x ∈ kvs.map Prod.snd, ∃ cs', f x = .err cs' := by
  cases v with
  | obj kvs =>
    simp only [projectObject] at h
    obtain ⟨cs', h2⟩ := widen_eq_err h
    cases hr : mapPrune f (kvs.map Prod.snd) with
    | err c2 =>
      obtain ⟨x, hx, hfx⟩ := mapPrune_err f _ c2 hr
      exact ⟨kvs, rfl, x, hx, c2, hfx⟩
    | _ => rw [hr] at h2; cases h2
  | _ => cases h

/-- **select_null**: a selection on a value of the wrong type, or of an absent member/element, is null -/
theorem select_null (k : Bytes) (v : Val) (i a b s : Int) (c f : Val → Res Val) :
    ((∀ kvs, v ≠ .obj kvs) → field k v = .null) ∧
    (∀ kvs, objLookup k kvs = none → field k (.obj kvs) = .null) ∧
    ((∀ t xs, v ≠ .arr t xs) → index v i = .ok .null) ∧
    (∀ t xs, (i ≥ (List.length xs : Int) ∨ i < -(List.length xs : Int)) → index (.arr t xs) i = .ok .null) ∧
    ((∀ t xs, v ≠ .arr t xs) → (∀ s, v ≠ .str s) → slice v a b = .ok .null ∧ sliceStep v a b s = .ok .null) ∧
    ((∀ t xs, v ≠ .arr t xs) → projectArray f v = .ok .null ∧ filterAndProjectArray c f v = .ok .null ∧
      flattenAndProjectArray f v = .ok .null ∧ filterArray c v = .ok .null ∧ pruneArray v = .null ∧
      flatten v = .null) ∧
    ((∀ kvs, v ≠ .obj kvs) → projectObject f v = .ok .null ∧ objectValues v = .null) ∧
    (∀ cs, index v i ≠ .err cs ∧ slice v a b ≠ .err cs ∧ sliceStep v a b s ≠ .err cs) :=
  ⟨field_non_object k v, field_absent k, index_non_array v i, fun t xs => index_out_of_range t xs i,
   fun h1 h2 => ⟨slice_non_array_string v a b h1 h2, sliceStep_non_array_string v a b s h1 h2⟩,
   fun h => ⟨projectArray_non_array f v h, filterAndProjectArray_non_array c f v h,
     flattenAndProjectArray_non_array f v h, filterArray_non_array c v h, pruneArray_non_array v h,
     flatten_non_array v h⟩,
   fun h => ⟨projectObject_non_object f v h, objectValues_non_object v h⟩,
   fun cs => ⟨index_never_errors v i cs, slice_never_errors v a b cs, sliceStep_never_errors v a b s cs⟩⟩

example : field [97] (.obj [([98], .bool true)]) = .null := rfl
example : field [97] (.arr .plain [.obj [([97], .bool true)]]) = .null := rfl
example : field [98] (.obj [([98], .bool true)]) = .bool true := rfl
example : index (.arr .plain [.bool true, .bool false]) 2 = .ok .null := rfl
example : index (.arr .plain [.bool true, .bool false]) (-3) = .ok .null := rfl
example : index (.arr .plain [.bool true, .bool false]) (-2) = .ok (.bool true) := rfl
example : index (.arr .plain [.bool true, .bool false]) 1 = .ok (.bool false) := rfl
example : index (.str [97]) 0 = .ok .null := rfl
example : slice (.obj []) 0 1 = .ok .null := rfl
example : sliceStep (.num (.int .int 3)) 0 1 2 = .ok .null := rfl
example : projectArray (fun _ => .err [Cat.invalidType]) (.obj []) = .ok .null := rfl
example : projectObject (fun _ => .err [Cat.invalidType]) (.arr .plain [.null]) = .ok .null := rfl
/-- the error of the projected expression is the error of the projection -/
example : projectArray (fun _ => .err [Cat.invalidType]) (.arr .plain [.null]) = .err [Cat.invalidType] := rfl

/-! ## e. multi-select -/

theorem multiList_nonnull (root : Val) (chk : Bool) (es : List Tree) (cur : Val) (env : Env) (h : cur.isNull = false) :
    seval root (.multiList chk es) cur env = (sevalList root es cur env >>= fun vs => .ok (.arr .plain vs)) := by
  simp only [seval, h, Bool.and_false, Bool.false_eq_true, if_false, Res.pure_eq]

theorem multiHash_nonnull (root : Val) (chk : Bool) (kvs : List (Bytes × Tree)) (cur : Val) (env : Env)
    (h : cur.isNull = false) :
    seval root (.multiHash chk kvs) cur env = (sevalFields root kvs cur env >>= fun fs => .ok (.obj fs)) := by
  simp only [seval, h, Bool.and_false, Bool.false_eq_true, if_false, Res.pure_eq]

theorem multiList_null (root : Val) (es : List Tree) (env : Env) :
    seval root (.multiList true es) .null env = .ok .null := by
  simp only [seval, Val.isNull, Bool.and_self, if_true]

theorem multiHash_null (root : Val) (kvs : List (Bytes × Tree)) (env : Env) :
    seval root (.multiHash true kvs) .null env = .ok .null := by
  simp only [seval, Val.isNull, Bool.and_self, if_true]

theorem sub_multiList_null (root : Val) (l : Tree) (es : List Tree) (cur : Val) (env : Env)
    (h : seval root l cur env = .ok .null) : seval root (.sub l (.multiList true es)) cur env = .ok .null := by
  simp only [seval, h, Res.ok_bind, Val.isNull, Bool.and_self, if_true]

theorem sub_multiHash_null (root : Val) (l : Tree) (kvs : List (Bytes × Tree)) (cur : Val) (env : Env)
    (h : seval root l cur env = .ok .null) : seval root (.sub l (.multiHash true kvs)) cur env = .ok .null := by
  simp only [seval, h, Res.ok_bind, Val.isNull, Bool.and_self, if_true]

/-- when every member evaluates, the list of the members' values, in order (nulls are kept) -/
theorem sevalList_ok (root : Val) (g : Tree → Val) (cur : Val) (env : Env) : ∀ (es : List Tree),
    (∀ e ∈ es, seval root e cur env = .ok (g e)) → sevalList root es cur env = .ok (es.map g)
  | [], _ => by simp only [sevalList, List.map_nil]
  | e :: es, h => by
    have he := h e (List.mem_cons_self ..)
    have ih := sevalList_ok root g cur env es (fun y hy => h y (List.mem_cons_of_mem _ hy))
    simp only [sevalList, he, ih, Res.ok_bind, Res.pure_eq, List.map_cons]

/-- when every member evaluates, the object of the members' values -/
theorem sevalFields_ok (root : Val) (g : Tree → Val) (cur : Val) (env : Env) : ∀ (kvs : List (Bytes × Tree)),
    (∀ kv ∈ kvs, seval root kv.2 cur env = .ok (g kv.2)) →
    sevalFields root kvs cur env = .ok (kvs.foldr (fun kv acc => objInsert kv.1 (g kv.2) acc) [])
  | [], _ => by simp only [sevalFields, List.foldr_nil]
  | (k, t) :: rest, h => by
    have he := h (k, t) (List.mem_cons_self ..)
    have ih := sevalFields_ok root g cur env rest (fun y hy => h y (List.mem_cons_of_mem _ hy))
    simp only [sevalFields, he, ih, combineUnordered, List.foldr_cons]

/-- the first failing member of a multi-select list is its outcome -/
theorem sevalList_cons (root : Val) (e : Tree) (es : List Tree) (cur : Val) (env : Env) :
    sevalList root (e :: es) cur env
      = (seval root e cur env >>= fun v => sevalList root es cur env >>= fun vs => .ok (v :: vs)) := by
  simp only [sevalList, Res.pure_eq]

/-- **multiselect** -/
theorem multiselect (root : Val) (chk : Bool) (l : Tree) (es : List Tree) (kvs : List (Bytes × Tree)) (cur : Val)
    (env : Env) :
    (cur.isNull = false →
      seval root (.multiList chk es) cur env = (sevalList root es cur env >>= fun vs => .ok (.arr .plain vs))) ∧
    (cur.isNull = false →
      seval root (.multiHash chk kvs) cur env = (sevalFields root kvs cur env >>= fun fs => .ok (.obj fs))) ∧
    seval root (.multiList true es) .null env = .ok .null ∧
    seval root (.multiHash true kvs) .null env = .ok .null ∧
    (seval root l cur env = .ok .null → seval root (.sub l (.multiList true es)) cur env = .ok .null) ∧
    (seval root l cur env = .ok .null → seval root (.sub l (.multiHash true kvs)) cur env = .ok .null) :=
  ⟨multiList_nonnull root chk es cur env, multiHash_nonnull root chk kvs cur env, multiList_null root es env,
   multiHash_null root kvs env, sub_multiList_null root l es cur env, sub_multiHash_null root l kvs cur env⟩

/-- `[a, b]` on `{"a":1}` is `[1, null]`: nulls are kept in a multi-select list -/
example : seval .null (.multiList true [.field [97], .field [98]]) (.obj [([97], .num (.int .int 1))]) []
    = .ok (.arr .plain [.num (.int .int 1), .null]) := rfl
example : seval .null (.multiHash true [([120], .field [97]), ([121], .field [98])]) (.obj [([97], .num (.int .int 1))]) []
    = .ok (.obj [([120], .num (.int .int 1)), ([121], .null)]) := rfl
/-- `foo.[a]` on `{}` is null, not `[null]` -/
example : seval .null (.sub (.field [102]) (.multiList true [.field [97]])) (.obj []) [] = .ok .null := rfl
example : seval .null (.sub (.field [102]) (.multiHash true [([120], .field [97])])) (.obj []) [] = .ok .null := rfl

/-! ## f. sub-expressions, literal, current node, root node -/

theorem sub_eq (root : Val) (l r : Tree) (cur : Val) (env : Env) :
    seval root (.sub l r) cur env = (seval root l cur env >>= fun a => seval root r a env) := by
  simp only [seval]

theorem literal (root : Val) (v : Val) (cur : Val) (env : Env) : seval root (.lit v) cur env = .ok v := by
  simp only [seval]

theorem current (root : Val) (cur : Val) (env : Env) : seval root .current cur env = .ok cur := by
  simp only [seval]

theorem root_node (root : Val) (cur : Val) (env : Env) : seval root .root cur env = .ok root := by
  simp only [seval]

/-- inside any sub-expression `$` is still the document -/
theorem root_stable (root : Val) (l : Tree) (cur : Val) (env : Env) :
    seval root (.sub l .root) cur env = (seval root l cur env >>= fun _ => .ok root) := by
  simp only [seval]

/-- … and inside a projection: every element is mapped to the document -/
theorem root_stable_proj (root : Val) (l : Tree) (cur : Val) (env : Env) (xs : List Val)
    (h : seval root l cur env = .ok (.arr .plain xs)) :
    seval root (.proj l .root) cur env
      = .ok (.arr .plain ((xs.map (fun _ => root)).filter (fun y => !y.isNull))) := by
  simp only [seval, h, Res.ok_bind]
  exact projectArray_spec _ (fun _ => root) xs (fun _ _ => rfl)

/-- a failing left side is the outcome of the sub-expression; the right side is not evaluated -/
theorem sub_left_err (root : Val) (l r : Tree) (cur : Val) (env : Env) (cs : List Cat)
    (h : seval root l cur env = .err cs) : seval root (.sub l r) cur env = .err cs := by
  simp only [seval, h, Res.err_bind]

theorem pipe_and_sub (root : Val) (l r : Tree) (v cur : Val) (env : Env) :
    seval root (.sub l r) cur env = (seval root l cur env >>= fun a => seval root r a env) ∧
    seval root (.lit v) cur env = .ok v ∧
    seval root .current cur env = .ok cur ∧
    seval root .root cur env = .ok root ∧
    seval root (.sub l .root) cur env = (seval root l cur env >>= fun _ => .ok root) :=
  ⟨sub_eq root l r cur env, literal root v cur env, current root cur env, root_node root cur env,
   root_stable root l cur env⟩

/-- the same through the compiled node types: `l | r` and `l.r` both are `.pipe l r` -/
theorem ieval_pipe (root : Val) (l r : INode) (cur : Val) (env : Env) :
    ieval root (.pipe l r) cur env
      = (seval root (desugar l) cur env >>= fun a => seval root (desugar r) a env) := by
  rw [ieval_desugar]
  simp only [desugar, seval]

example : seval (.obj [([97], .obj [([98], .bool true)])]) (.sub (.field [97]) .root)
    (.obj [([97], .obj [([98], .bool true)])]) [] = .ok (.obj [([97], .obj [([98], .bool true)])]) := rfl
example : seval (.bool true) (.sub (.field [97]) (.field [98])) (.obj [([97], .obj [([98], .bool false)])]) []
    = .ok (.bool false) := rfl
example : seval (.bool true) (.proj .current .root) (.arr .plain [.null, .null]) []
    = .ok (.arr .plain [.bool true, .bool true]) := rfl

/-! ## g. a projection's right-hand side extends over the following selectors -/

/-- `l[*].r1.r2`: both selectors are applied to each element (not `r2` to the projected array) -/
theorem rhs_extends (root : Val) (l r1 r2 : Tree) (cur : Val) (env : Env) (xs : List Val)
    (h : seval root l cur env = .ok (.arr .plain xs)) :
    seval root (.proj l (.sub r1 r2)) cur env
      = projectArray (fun v => seval root r1 v env >>= fun a => seval root r2 a env) (.arr .plain xs) := by
  simp only [seval, h, Res.ok_bind]

/-- the same for the other projection forms -/
theorem rhs_extends_flat (root : Val) (l r1 r2 : Tree) (cur : Val) (env : Env) (a : Val)
    (h : seval root l cur env = .ok a) :
    seval root (.flatProj l (.sub r1 r2)) cur env
      = flattenAndProjectArray (fun v => seval root r1 v env >>= fun a => seval root r2 a env) a := by
  simp only [seval, h, Res.ok_bind]

theorem rhs_extends_filter (root : Val) (l c r1 r2 : Tree) (cur : Val) (env : Env) (a : Val)
    (h : seval root l cur env = .ok a) :
    seval root (.filterProj l c (.sub r1 r2)) cur env
      = filterAndProjectArray (fun v => seval root c v env)
          (fun v => seval root r1 v env >>= fun a => seval root r2 a env) a := by
  simp only [seval, h, Res.ok_bind]

theorem rhs_extends_value (root : Val) (l r1 r2 : Tree) (cur : Val) (env : Env) (a : Val)
    (h : seval root l cur env = .ok a) :
    seval root (.valueProj l (.sub r1 r2)) cur env
      = projectObject (fun v => seval root r1 v env >>= fun a => seval root r2 a env) a := by
  simp only [seval, h, Res.ok_bind]

/-- a pipe closes the projection: the right side sees the projected array -/
theorem pipe_closes (root : Val) (l r1 r2 : Tree) (cur : Val) (env : Env) :
    seval root (.sub (.proj l r1) r2) cur env
      = (seval root (.proj l r1) cur env >>= fun arr => seval root r2 arr env) := by
  simp only [seval]

private def one : Val := .num (.int .int 1)
private def two : Val := .num (.int .int 2)
private def three : Val := .num (.int .int 3)
private def four : Val := .num (.int .int 4)
/-- `{"foo": [[1,2],[3,4]]}` -/
private def doc : Val := .obj [([102, 111, 111], .arr .plain [.arr .plain [one, two], .arr .plain [three, four]])]

/-- `foo[*][0]`: the index is applied to each element: `[1, 3]` -/
example : seval doc (.proj (.field [102, 111, 111]) (.index 0)) doc [] = .ok (.arr .plain [one, three]) := rfl
/-- `foo[*] | [0]`: the index is applied to the projected array: `[1, 2]` -/
example : seval doc (.sub (.prune (.field [102, 111, 111])) (.index 0)) doc [] = .ok (.arr .plain [one, two]) := rfl
example : seval doc (.sub (.proj (.field [102, 111, 111]) .current) (.index 0)) doc []
    = .ok (.arr .plain [one, two]) := rfl

/-- these two trees are what the parser builds for the two texts -/
example : (match compile [102, 111, 111, 91, 42, 93, 91, 48, 93] with
    | .ok n => (match desugar n with
      | .proj (.field [102, 111, 111]) (.index 0) => true
      | _ => false)
    | _ => false) = true := by decide +kernel
example : (match compile [102, 111, 111, 91, 42, 93, 32, 124, 32, 91, 48, 93] with
    | .ok n => (match desugar n with
      | .sub (.prune (.field [102, 111, 111])) (.index 0) => true
      | _ => false)
    | _ => false) = true := by decide +kernel

end Jmes.C01
