/-
  C19 (fourth wave) — "A reference with no enclosing binding is an undefined-variable error", PER RUN, and the scoping
  rules of `let`, on the run semantics.

  The third wave (`C19C`) characterised the category LIST of the model (`ieval`), which over-approximates Go wherever a
  map is ranged over (`C19C.phantom_flatten`, `C19C.phantom_filter`: undefined-variable is listed although no Go run can
  report it).  Here everything is stated on `ievalO π` / `evaluateO π` / `searchO π` (Proofs/C15BOracle.lean): ONE run
  of the evaluator, with the iteration orders of every map range given by the oracle `π`, no `widen`, no `enum` tag,
  and the first failure met is the outcome — what a Go run does.

  1. `Evaluated root c c'` (Proofs/C19ELemmas.lean): "the run of the evaluation `c` starts the evaluation `c'`" — an
     evaluation-context relation over configurations (oracle, node, current value, scope), the closure of the one-step
     relation `Sub` (18 constructors; their only evaluator-shaped premises say that a sub-evaluation started EARLIER IN
     THE SAME RUN returned a value).  `ReachesO π d n x`: the run of `n` on `d` evaluates a reference `$x` in a scope
     without a binding for `x`.
  2. `run_undefined_iff` / `evaluateO_undefined_iff` / `searchO_undefined_iff`:
        the run answers `.err [undefined-variable]`  ↔  ∃ x, ReachesO …
     EXACT per run (no "or the model does not settle it", no phantom case), and `run_undefined_exact`: in a run
     undefined-variable is never reported together with another category.  `first_failure`: the error of ANY started
     sub-evaluation is the error of the run.
  3. The two phantom examples of C19C, per run: every run answers `[invalid-type]`, none reaches a reference.
  4. Scoping: the scope is handed down unchanged through every construct except into a `let` body (`scope_handed_down`,
     `binding_stays_visible`); the names a `let` binds are never undefined in its body (`let_body_never_undefined`,
     `let_undefined_cases`); a binding is not visible after its `let` (`after_let_outer_scope`); `&e` arguments see the
     scope of the call (`expref_scope`).
  5. The same at text level (through the parser, `C04G.parse_complete`), with concrete expressions.
-/
import Jmes.Proofs.C19ELemmas
import Jmes.Properties.C19C
import Jmes.Properties.C15B
import Jmes.Proofs.C17BLemmas
import Jmes.Properties.C15C
import Jmes.Properties.C01C
namespace Jmes.C19E
open Jmes Jmes.Grammar Jmes.Pratt Jmes.C04G Jmes.Lexical
open Jmes.C15B (searchO)

/-! ## 1. reached references, per run -/

/-- **`ReachesAt root c x`: the run of the evaluation `c` evaluates a reference `$x` in a scope that has no binding
    for `x`** -/
def ReachesAt (root : Val) (c : Cfg) (x : Bytes) : Prop := ∃ c', Evaluated root c c' ∧ Unbound c' x

/-- **`ReachesO π d n x`**: the same for `Evaluate(n, d)` in the run `π` (it starts on the document, with no binding) -/
def ReachesO (π : Oracle) (d : Val) (n : INode) (x : Bytes) : Prop := ReachesAt d ⟨π, n, d, []⟩ x

/-- a bare reference at top level is reached, in every run -/
example (π : Oracle) (d : Val) : ReachesO π d (.variable C19.dx) C19.dx := ⟨_, .refl _, rfl, rfl⟩

/-- `a && $x` on `{"a": 1}`: reached through `Sub.andR` (the left operand is true) -/
example (π : Oracle) : ReachesO π (C19C.docA C19.n1) (.and (.field C19C.ka) C19C.vX) C19.dx :=
  ⟨_, .single (.andR (a := C19.n1) rfl rfl), rfl, rfl⟩

/-! ## 2. the iff, per run -/

/-- **The first failure is the outcome of the run.**  If the run of `c` starts the evaluation `c'` (at any depth) and
    `c'` fails with the error `cs`, then the run of `c` fails with exactly `cs`: nothing is evaluated after a failure
    and nothing is added to it (the model, by contrast, widens the list over every order). -/
theorem first_failure {root : Val} {c c' : Cfg} (h : Evaluated root c c') {cs : List Cat}
    (hc : c'.out root = .err cs) : c.out root = .err cs := h.fails hc

example (π : Oracle) :
    evaluateO π (.and (.field C19C.ka) (.call .abs [.lit (.str C19C.ka)])) (C19C.docA C19.n1) = .err [Cat.invalidType] :=
  first_failure (c := ⟨π, _, _, []⟩) (.single (.andR (a := C19.n1) rfl rfl)) rfl

/-- **Forward**: a run that evaluates a reference without a binding answers `[undefined-variable]` — a value, another
    error, a list of several categories, `nondet` are all excluded -/
theorem reached_undefined {root : Val} {c : Cfg} {x : Bytes} (h : ReachesAt root c x) :
    c.out root = .err [Cat.undefinedVariable] := by
  obtain ⟨c', he, hn, hx⟩ := h
  refine he.fails ?_
  cases c' with
  | mk π n cur env =>
    simp only at hn hx
    subst hn
    simp only [Cfg.out, ievalO, hx]

example (π : Oracle) (d : Val) : evaluateO π (.pipe .current C19C.vX) d = .err [Cat.undefinedVariable] :=
  reached_undefined (c := ⟨π, _, d, []⟩) ⟨_, .single (.pipeR (a := d) rfl), rfl, rfl⟩

/-- **Backward**: if a run fails and undefined-variable is among the categories of its error, it evaluated a reference
    without a binding -/
theorem undefined_reached {root : Val} {c : Cfg} {cs : List Cat} (h : c.out root = .err cs)
    (hu : Cat.undefinedVariable ∈ cs) : ∃ x, ReachesAt root c x := by
  obtain ⟨c', x, he, hx⟩ := (blame root c.n).at c rfl h hu
  exact ⟨x, c', he, hx⟩

example (π : Oracle) (d : Val) : ∃ x, ReachesAt d ⟨π, .not C19C.vX, d, []⟩ x :=
  undefined_reached (c := ⟨π, .not C19C.vX, d, []⟩) (cs := [Cat.undefinedVariable]) rfl (by simp)

/-- **One category per run, for undefined-variable**: a run never reports undefined-variable together with anything
    else.  (In general a run on a JSON document returns exactly one category — `C15C.run_definite` — under its side
    conditions; for undefined-variable no side condition is needed.) -/
theorem run_undefined_exact {π : Oracle} {root : Val} {n : INode} {cur : Val} {env : Env} {cs : List Cat}
    (h : ievalO π root n cur env = .err cs) (hu : Cat.undefinedVariable ∈ cs) : cs = [Cat.undefinedVariable] := by
  obtain ⟨x, hr⟩ := undefined_reached (c := ⟨π, n, cur, env⟩) h hu
  have := reached_undefined hr
  simp only [Cfg.out] at this
  rw [h] at this
  exact Res.err.inj this

/-- **it depends on the run which category that is**: `{p: values(@)[*].abs(@), q: $x}` on `{"a": "x", "b": true}` — the
    model lists both categories; the run that evaluates `p` first answers `[invalid-type]` and reaches no reference,
    the run that evaluates `q` first answers `[undefined-variable]` and reaches `$x` -/
example : evaluate C15C.pTwoFaults C15C.docXT = .err [Cat.undefinedVariable, Cat.invalidType] := rfl
example : evaluateO Oracle.keyOrder C15C.pTwoFaults C15C.docXT = .err [Cat.invalidType] := rfl
example : evaluateO C15B.reverseOracle C15C.pTwoFaults C15C.docXT = .err [Cat.undefinedVariable] := rfl
example (cs : List Cat) (π : Oracle) (h : evaluateO π C15C.pTwoFaults C15C.docXT = .err cs)
    (hu : Cat.undefinedVariable ∈ cs) : cs = [Cat.undefinedVariable] := run_undefined_exact h hu

/-- **The last sentence of the property, exact per run.**  The run of `n` on `cur` in the scope `env` answers
    `[undefined-variable]` iff it evaluates a reference `$x` in a scope without a binding for `x`. -/
theorem run_undefined_iff (π : Oracle) (root : Val) (n : INode) (cur : Val) (env : Env) :
    ievalO π root n cur env = .err [Cat.undefinedVariable] ↔ ∃ x, ReachesAt root ⟨π, n, cur, env⟩ x :=
  ⟨fun h => undefined_reached (c := ⟨π, n, cur, env⟩) h (List.mem_singleton.mpr rfl),
   fun ⟨_, h⟩ => reached_undefined h⟩

/-- the same with "undefined-variable is among the categories" on the left: it makes no difference in a run -/
theorem run_undefined_mem_iff (π : Oracle) (root : Val) (n : INode) (cur : Val) (env : Env) :
    (∃ cs, ievalO π root n cur env = .err cs ∧ Cat.undefinedVariable ∈ cs) ↔ ∃ x, ReachesAt root ⟨π, n, cur, env⟩ x :=
  ⟨fun ⟨_, h, hu⟩ => undefined_reached (c := ⟨π, n, cur, env⟩) h hu,
   fun ⟨_, h⟩ => ⟨_, reached_undefined h, List.mem_singleton.mpr rfl⟩⟩

example : ∃ x, ReachesAt C15C.docXT ⟨C15B.reverseOracle, C15C.pTwoFaults, C15C.docXT, []⟩ x :=
  (run_undefined_mem_iff _ _ _ _ _).mp ⟨_, rfl, by simp⟩

/-- **`Evaluate`, per run** -/
theorem evaluateO_undefined_iff (π : Oracle) (n : INode) (d : Val) :
    evaluateO π n d = .err [Cat.undefinedVariable] ↔ ∃ x, ReachesO π d n x :=
  run_undefined_iff π d n d []

example : ∃ x, ReachesO C15B.reverseOracle C15C.docXT C15C.pTwoFaults x := (evaluateO_undefined_iff _ _ _).mp rfl
example : ¬ ∃ x, ReachesO Oracle.keyOrder C15C.docXT C15C.pTwoFaults x := fun h => by
  have := (evaluateO_undefined_iff _ _ _).mpr h
  cases this

/-- **`Search`, per run**, for an expression that compiles -/
theorem searchO_undefined_iff {e : Bytes} {n : INode} (hc : compile e = .ok n) (π : Oracle) (d : Val) :
    searchO π e d = .err [Cat.undefinedVariable] ↔ ∃ x, ReachesO π d n x := by
  simp only [compile] at hc
  simp only [searchO, hc]
  exact evaluateO_undefined_iff π n d

example (π : Oracle) : ¬ ∃ x, ReachesO π (C19C.docA .null) (.filter (.field C19C.ka) C19C.vX) x := fun h => by
  have := (searchO_undefined_iff C19C.filter_parse π (C19C.docA .null)).mpr h
  simp only [searchO, show Parser.parse (Ex.bs "a[?$x]") = _ from C19C.filter_parse] at this
  cases this

/-- a compile error is never undefined-variable, so the iff covers every way `Search` can answer it -/
theorem compile_error_not_undefined {e : Bytes} {err : PErr} (hc : compile e = .error err) (π : Oracle) (d : Val) :
    ∀ cs, searchO π e d = .err cs → Cat.undefinedVariable ∉ cs := by
  intro cs hs
  simp only [compile] at hc
  simp only [searchO, hc] at hs
  cases err <;> simp only [parseCat] at hs <;> cases hs <;> decide

example (π : Oracle) (d : Val) : ∀ cs, searchO π (Ex.bs "$1") d = .err cs → Cat.undefinedVariable ∉ cs :=
  compile_error_not_undefined C19B.dollar_digit_rejected π d

/-- no reached reference, no undefined-variable error -/
theorem not_reached_not_undefined {π : Oracle} {n : INode} {d : Val} (h : ∀ x, ¬ ReachesO π d n x) :
    ∀ cs, evaluateO π n d = .err cs → Cat.undefinedVariable ∉ cs := fun _ hs hu =>
  let ⟨x, hx⟩ := undefined_reached (c := ⟨π, n, d, []⟩) hs hu
  h x hx

example : ∀ cs, evaluateO Oracle.keyOrder C15C.pTwoFaults C15C.docXT = .err cs → Cat.undefinedVariable ∉ cs :=
  not_reached_not_undefined fun x h => by
    have := (evaluateO_undefined_iff _ _ _).mpr ⟨x, h⟩
    cases this

example (π : Oracle) : evaluateO π (.and (.field C19C.ka) C19C.vX) (C19C.docA C19.n1) = .err [Cat.undefinedVariable] :=
  (evaluateO_undefined_iff _ _ _).mpr ⟨_, _, .single (.andR (a := C19.n1) rfl rfl), rfl, rfl⟩
/-- on `{"a": null}` the right operand is not evaluated, in any run -/
example (π : Oracle) : ∀ x, ¬ ReachesO π (C19C.docA .null) (.and (.field C19C.ka) C19C.vX) x := by
  intro x h
  have := (evaluateO_undefined_iff π _ _).mpr ⟨x, h⟩
  cases this

/-! ## 3. no phantom cases: the two examples of `C19C`, per run -/

theorem perm_pair {α} {a b : α} {l : List α} (h : l.Perm [a, b]) : l = [a, b] ∨ l = [b, a] := by
  match l, h.length_eq with
  | [x, y], _ =>
    have hx : x ∈ [a, b] := h.mem_iff.mp (by simp)
    simp only [List.mem_cons, List.not_mem_nil, or_false] at hx
    rcases hx with rfl | rfl
    · have := List.perm_singleton.mp h.cons_inv
      left; rw [this]
    · have h' : [x, y].Perm [x, a] := h.trans (List.Perm.swap _ _ _)
      have := List.perm_singleton.mp h'.cons_inv
      right; rw [this]

/-- `values(@)[].not_null((@ && abs('a')) || $x)` -/
def nPh1 : INode := .flattenAndProject (.call .values [.current]) C19C.rPh

/-- **(a) per run.**  On `{"a": [], "b": [1]}` EVERY run of `values(@)[].not_null((@ && abs('a')) || $x)` answers
    `[invalid-type]` (the model lists undefined-variable too: `C19C.phantom_flatten`; Go answers `invalid type`) … -/
theorem phantom_flatten_run (π : Oracle) : evaluateO π nPh1 C19C.docPh = .err [Cat.invalidType] := by
  have hm := perm_pair (Oracle.members_perm ((π.sub 0).sub 1) [([0x61], C19C.arr0), ([0x62], C19C.arr1)])
  have key : ∀ l : List (Bytes × Val), (l = [([0x61], C19C.arr0), ([0x62], C19C.arr1)] ∨
      l = [([0x62], C19C.arr1), ([0x61], C19C.arr0)]) →
      flattenAndProjectArrayO (fun i v => ievalO (π.sub (i + 1)) C19C.docPh C19C.rPh v []) (.arr .plain (l.map Prod.snd)) =
        .err [Cat.invalidType] := by
    rintro l (rfl | rfl) <;> rfl
  exact key _ hm

/-- … and no run reaches a reference -/
theorem phantom_flatten_not_reached (π : Oracle) : ∀ x, ¬ ReachesO π C19C.docPh nPh1 x := by
  intro x h
  have h1 := (evaluateO_undefined_iff π _ _).mpr ⟨x, h⟩
  rw [phantom_flatten_run] at h1
  cases h1

/-- through `Search` -/
theorem phantom_flatten_search (π : Oracle) :
    searchO π (Ex.bs "values(@)[].not_null((@ && abs('a')) || $x)") C19C.docPh = .err [Cat.invalidType] := by
  have h := C19C.phantom_flatten_parse
  simp only [compile] at h
  simp only [searchO, h]
  exact phantom_flatten_run π

/-- ``values(@)[?abs(@) == `1`].not_null($x)`` -/
def nPh2 : INode := .filterAndProject (.call .values [.current]) C19C.cPh (.notNull [C19C.vX])

/-- **(b) per run.**  On `{"a": "s", "b": 2}` every run of ``values(@)[?abs(@) == `1`].not_null($x)`` answers
    `[invalid-type]`: whichever member comes first, the predicate fails on `"s"` and is false on `2`, so the right-hand
    side is never evaluated (the model lists undefined-variable too: `C19C.phantom_filter`) -/
theorem phantom_filter_run (π : Oracle) : evaluateO π nPh2 C19C.docPh2 = .err [Cat.invalidType] := by
  have hm := perm_pair (Oracle.members_perm ((π.sub 0).sub 1) [([0x61], .str [0x73]), ([0x62], C19.n2)])
  have key : ∀ l : List (Bytes × Val), (l = [([0x61], .str [0x73]), ([0x62], C19.n2)] ∨
      l = [([0x62], C19.n2), ([0x61], .str [0x73])]) →
      filterAndProjectArrayO (fun i v => ievalO ((π.sub 1).sub i) C19C.docPh2 C19C.cPh v [])
        (fun i v => ievalO ((π.sub 2).sub i) C19C.docPh2 (.notNull [C19C.vX]) v []) (.arr .plain (l.map Prod.snd)) =
        .err [Cat.invalidType] := by
    rintro l (rfl | rfl) <;> rfl
  exact key _ hm

theorem phantom_filter_not_reached (π : Oracle) : ∀ x, ¬ ReachesO π C19C.docPh2 nPh2 x := by
  intro x h
  have h1 := (evaluateO_undefined_iff π _ _).mpr ⟨x, h⟩
  rw [phantom_filter_run] at h1
  cases h1

theorem phantom_filter_search (π : Oracle) :
    searchO π (Ex.bs "values(@)[?abs(@) == `1`].not_null($x)") C19C.docPh2 = .err [Cat.invalidType] := by
  have h := C19C.phantom_filter_parse
  simp only [compile] at h
  simp only [searchO, h]
  exact phantom_filter_run π

/-! ## 4. scoping, per run -/

/-- the oracle cannot reorder one member -/
theorem order_single (π : Oracle) (o : Bytes × Res Val) : π.order [o] = [o] :=
  List.perm_singleton.mp (π.order_perm [o])

/-- **The scope is handed down unchanged** through every construct that is not a `let`: operators, `&&`/`||`, pipes,
    projections and filters (to the right-hand side / the predicate on every element), multi-selects, function
    arguments and the `&e` arguments of `map`, `sort_by`, `max_by`, `min_by`, `group_by`. -/
theorem scope_handed_down {root : Val} {c c' : Cfg} (h : Sub root c c')
    (hn : ∀ vars child, c.n ≠ .defineVariables vars child) : c'.env = c.env := by
  rcases h.scope with e | ⟨vars, child, _, e, _⟩
  · exact e
  · exact absurd e (hn vars child)

/-- the right-hand side of `a[*].$x`, on the element `1` of `{"a": [1]}`, runs in the scope of the projection -/
example (π : Oracle) (env : Env) :
    Sub (C19C.docA C19C.arr1) ⟨π, .projectArray (.field C19C.ka) C19C.vX, C19C.docA C19C.arr1, env⟩
      ⟨π.sub 1, C19C.vX, C19.n1, env⟩ :=
  .elem (kind := .proj) (a := C19C.arr1) (pre := []) (post := []) rfl rfl rfl trivial
example (π : Oracle) (env : Env) (c' : Cfg)
    (h : Sub (C19C.docA C19C.arr1) ⟨π, .projectArray (.field C19C.ka) C19C.vX, C19C.docA C19C.arr1, env⟩ c') :
    c'.env = env := scope_handed_down h (fun _ _ e => by cases e)

/-- the steps out of `let vars in child`: a binding expression — on the let's own current value, in the let's OWN
    scope (the bindings do not see each other) — or the body, on the same value, with the bindings put in front of the
    scope; these bind every name written in the `let` -/
theorem let_steps {root : Val} {π : Oracle} {vars : List (Bytes × INode)} {child : INode} {cur : Val} {env : Env}
    {c' : Cfg} (h : Sub root ⟨π, .defineVariables vars child, cur, env⟩ c') :
    (c'.env = env ∧ c'.cur = cur ∧ ∃ k, (k, c'.n) ∈ vars) ∨
    (∃ bs, c' = ⟨π.sub 2, child, cur, bs ++ env⟩ ∧
      firstFailure ((π.sub 0).order (ievalMembersO (π.sub 1) root vars cur env)) [] = .ok bs ∧
      ∀ x ∈ vars.map Prod.fst, objLookup x bs ≠ none) := by
  rcases h.let_inv with ⟨k, hm, _⟩ | ⟨bs, hb, rfl⟩
  · exact .inl ⟨hm.shape.2.2, hm.shape.2.1, k, hm.shape.1⟩
  · exact .inr ⟨bs, rfl, hb, fun x hx => let_binds hb hx⟩

example (π : Oracle) (d : Val) (c' : Cfg)
    (h : Sub d ⟨π, .defineVariables [(C19.dx, .lit C19.n1)] C19C.vX, d, []⟩ c') :
    (c'.env = [] ∧ c'.cur = d ∧ ∃ k, (k, c'.n) ∈ [(C19.dx, INode.lit C19.n1)]) ∨
    (∃ bs, c' = ⟨π.sub 2, C19C.vX, d, bs ++ []⟩ ∧
      firstFailure ((π.sub 0).order (ievalMembersO (π.sub 1) d [(C19.dx, .lit C19.n1)] d [])) [] = .ok bs ∧
      ∀ x ∈ [C19.dx], objLookup x bs ≠ none) := let_steps h

/-- **a binding stays visible**: a name bound where `c` is evaluated is bound in every evaluation the run starts below
    `c` — inside projections, filters, pipes, multi-selects and expression references (to the same value, or to that of
    an inner `let` that rebinds it) -/
theorem binding_stays_visible {root : Val} {c c' : Cfg} (h : Evaluated root c c') {x : Bytes}
    (hx : c.env.get x ≠ none) : c'.env.get x ≠ none := h.stays_bound hx

/-- `$x` bound outside `a[*].$x`: still bound where the right-hand side runs -/
example (π : Oracle) (v : Val) :
    Env.get (⟨π.sub 1, C19C.vX, C19.n1, [(C19.dx, v)]⟩ : Cfg).env C19.dx ≠ none :=
  binding_stays_visible (root := C19C.docA C19C.arr1)
    (c := ⟨π, .projectArray (.field C19C.ka) C19C.vX, C19C.docA C19C.arr1, [(C19.dx, v)]⟩)
    (.single (.elem (kind := .proj) (a := C19C.arr1) (pre := []) (post := []) rfl rfl rfl trivial))
    (by simp [Env.get, objLookup])

/-- the scope only grows, at the front -/
theorem scope_grows {root : Val} {c c' : Cfg} (h : Evaluated root c c') : ∃ bs, c'.env = bs ++ c.env :=
  h.scope_prefix

/-- **The names a `let` binds are never undefined in its body**: whatever the run evaluates from the body of
    `let vars in child` — at any depth, under any projection, filter, pipe or expression reference — a reference to one
    of the names in `vars` finds a binding. -/
theorem let_body_never_undefined {root : Val} {π : Oracle} {vars : List (Bytes × INode)} {child : INode} {cur : Val}
    {env : Env} {bs : List (Bytes × Val)}
    (hb : firstFailure ((π.sub 0).order (ievalMembersO (π.sub 1) root vars cur env)) [] = .ok bs) {c' : Cfg}
    (he : Evaluated root ⟨π.sub 2, child, cur, bs ++ env⟩ c') {x : Bytes} (hx : x ∈ vars.map Prod.fst) :
    ¬ Unbound c' x := by
  intro hu
  refine he.stays_bound (x := x) ?_ hu.2
  show Env.get (bs ++ env) x ≠ none
  rw [Env.get_append]
  have := let_binds hb hx
  cases h : objLookup x bs with
  | none => exact absurd h this
  | some v => simp

/-- `let $x = `1` in a[*].$x`: whatever the body evaluates, `$x` is never unbound there -/
example (π : Oracle) (d : Val) (c' : Cfg)
    (he : Evaluated d ⟨π.sub 2, .projectArray (.field C19C.ka) C19C.vX, d, [(C19.dx, C19.n1)] ++ []⟩ c') :
    ¬ Unbound c' C19.dx :=
  let_body_never_undefined (vars := [(C19.dx, .lit C19.n1)]) (env := [])
    (by simp only [ievalMembersO, order_single, firstFailure, ievalO]; rfl) he (by simp)

/-- **Where the undefined-variable error of a `let` comes from**: if the run of `let vars in child` reaches an
    unbound reference `$x`, then either the run of one of the binding expressions does — evaluated in the scope `env` of
    the `let` itself — or the run of the body does and `x` is not one of the names the `let` binds. -/
theorem let_undefined_cases {root : Val} {π : Oracle} {vars : List (Bytes × INode)} {child : INode} {cur : Val}
    {env : Env} {x : Bytes} (h : ReachesAt root ⟨π, .defineVariables vars child, cur, env⟩ x) :
    (∃ k c, MemAt (π.sub 1) vars cur env k c ∧ c.env = env ∧ ReachesAt root c x) ∨
    (∃ bs, firstFailure ((π.sub 0).order (ievalMembersO (π.sub 1) root vars cur env)) [] = .ok bs ∧
      ReachesAt root ⟨π.sub 2, child, cur, bs ++ env⟩ x ∧ x ∉ vars.map Prod.fst) := by
  obtain ⟨c', he, hu⟩ := h
  cases he with
  | refl => cases hu.1
  | step s he' =>
    rcases s.let_inv with ⟨k, hm, _⟩ | ⟨bs, hb, rfl⟩
    · exact .inl ⟨k, _, hm, hm.shape.2.2, c', he', hu⟩
    · exact .inr ⟨bs, hb, ⟨c', he', hu⟩, fun hx => let_body_never_undefined hb he' hx hu⟩

/-- `let $x = $y in $x` at top level: the culprit is the binding expression `$y`, in the empty scope -/
example (π : Oracle) (d : Val) :
    ReachesAt d ⟨π, .defineVariables [(C19.dx, .variable [0x24, 0x79])] C19C.vX, d, []⟩ [0x24, 0x79] :=
  ⟨⟨(π.sub 1).sub 0, .variable [0x24, 0x79], d, []⟩,
    .single (.letBind (k := C19.dx) .here ⟨[], [], by simp [ievalMembersO, order_single, Cfg.out], fun _ h => by cases h⟩),
    rfl, rfl⟩

/-- **β-reduction, per run**: a one-binding `let` evaluates the binding expression ONCE — where the `let` stands: on
    its current value, in its scope — then the body with `x ↦ v` in front of the scope -/
theorem let_once_run (π : Oracle) (root : Val) (x : Bytes) (e1 body : INode) (cur : Val) (env : Env) :
    ievalO π root (.defineVariables [(x, e1)] body) cur env =
      (ievalO ((π.sub 1).sub 0) root e1 cur env >>= fun v => ievalO (π.sub 2) root body cur ((x, v) :: env)) := by
  simp only [ievalO, ievalMembersO, order_single, firstFailure]
  cases ievalO ((π.sub 1).sub 0) root e1 cur env <;> rfl

/-- `let $x = `1` in $x` is `1`, in every run -/
example (π : Oracle) (d : Val) : evaluateO π (.defineVariables [(C19.dx, .lit C19.n1)] C19C.vX) d = .ok C19.n1 := by
  simp only [evaluateO, let_once_run]; rfl

theorem ievalO_and (π : Oracle) (root : Val) (l r : INode) (cur : Val) (env : Env) :
    ievalO π root (.and l r) cur env =
      (ievalO (π.sub 0) root l cur env >>= fun a => if !isTrue a then pure a else ievalO (π.sub 1) root r cur env) := by
  simp only [ievalO]

/-- **A binding is not visible after its `let`**: in `(let vars in child) && $x` the reference is evaluated in the scope
    of the `&&` — if `x` has no binding THERE the run answers undefined-variable whenever it gets to the right operand
    (the `let` has a true value), even when `vars` binds `x`. -/
theorem after_let_outer_scope {π : Oracle} {root : Val} {vars : List (Bytes × INode)} {child : INode} {cur a : Val}
    {env : Env} {x : Bytes} (hl : ievalO (π.sub 0) root (.defineVariables vars child) cur env = .ok a)
    (hx : env.get x = none) :
    ievalO π root (.and (.defineVariables vars child) (.variable x)) cur env =
      if isTrue a then .err [Cat.undefinedVariable] else .ok a := by
  cases ht : isTrue a with
  | true =>
    exact reached_undefined (c := ⟨π, _, cur, env⟩) ⟨_, .single (.andR hl ht), rfl, hx⟩
  | false => rw [ievalO_and, hl, Res.ok_bind]; simp only [ht]; rfl

/-- the same after a pipe: `(let vars in child) | $x` -/
theorem after_let_outer_scope_pipe {π : Oracle} {root : Val} {vars : List (Bytes × INode)} {child : INode} {cur a : Val}
    {env : Env} {x : Bytes} (hl : ievalO (π.sub 0) root (.defineVariables vars child) cur env = .ok a)
    (hx : env.get x = none) :
    ievalO π root (.pipe (.defineVariables vars child) (.variable x)) cur env = .err [Cat.undefinedVariable] :=
  reached_undefined (c := ⟨π, _, cur, env⟩) ⟨_, .single (.pipeR hl), rfl, hx⟩

example (π : Oracle) (d : Val) :
    evaluateO π (.pipe (.defineVariables [(C19.dx, .lit C19.n1)] C19C.vX) C19C.vX) d = .err [Cat.undefinedVariable] :=
  after_let_outer_scope_pipe (π := π) (a := C19.n1) (by simp only [let_once_run]; rfl) rfl

/-- `(let $x = `1` in $x) && $x` at top level: undefined-variable in every run -/
example (π : Oracle) (d : Val) :
    evaluateO π (.and (.defineVariables [(C19.dx, .lit C19.n1)] C19C.vX) C19C.vX) d = .err [Cat.undefinedVariable] := by
  have h : ievalO (π.sub 0) d (.defineVariables [(C19.dx, .lit C19.n1)] C19C.vX) d [] = .ok C19.n1 := by
    simp only [let_once_run]; rfl
  have := after_let_outer_scope (π := π) (x := C19.dx) h rfl
  exact this.trans rfl

/-- **Expression references see the scope of the call.**  The `&e` argument of `map`, `sort_by`, `max_by`, `min_by`,
    `group_by` is not a value that travels: the evaluator evaluates `e` on every element in the scope `env` in which the
    call itself is evaluated — every evaluation these nodes start has that scope. -/
theorem expref_scope {root : Val} {π : Oracle} {n : INode} {cur : Val} {env : Env} {c' : Cfg}
    (hn : (∃ e a, n = .map e a) ∨ (∃ a e, n = .sortBy a e) ∨ (∃ a e, n = .maxBy a e) ∨ (∃ a e, n = .minBy a e) ∨
      (∃ a e, n = .groupBy a e)) (h : Sub root ⟨π, n, cur, env⟩ c') : c'.env = env := by
  refine scope_handed_down h fun vars child e => ?_
  simp only at e
  rcases hn with ⟨_, _, rfl⟩ | ⟨_, _, rfl⟩ | ⟨_, _, rfl⟩ | ⟨_, _, rfl⟩ | ⟨_, _, rfl⟩ <;> cases e

example (π : Oracle) (d : Val) (env : Env) (c' : Cfg) (h : Sub d ⟨π, .sortBy .current C19C.vX, d, env⟩ c') :
    c'.env = env := expref_scope (.inr (.inl ⟨_, _, rfl⟩)) h

/-- … and it is evaluated on the element: the step from `map(&e, a)` to `e` on the element `y` of the value of `a`, in
    the scope `env` of the call, once `e` has returned a value on the elements before `y` -/
theorem expref_elem {root : Val} {π : Oracle} {e a : INode} {cur : Val} {env : Env} {t : ATag} {pre post : List Val}
    {y : Val} (ha : ievalO (π.sub 0) root a cur env = .ok (.arr t (pre ++ y :: post)))
    (hp : ∀ (j : Nat) (h : j < pre.length), ∃ v, ievalO (π.sub (j + 1)) root e pre[j] env = .ok v) :
    Sub root ⟨π, .map e a, cur, env⟩ ⟨π.sub (pre.length + 1), e, y, env⟩ :=
  .elem (kind := .mapE) (a := .arr t (pre ++ y :: post)) rfl ha rfl
    ((allOkO_iff _ 0 pre).mpr fun j h => by simpa [LoopKind.off] using hp j h)

example (π : Oracle) (env : Env) :
    Sub C19C.arr1 ⟨π, .map C19C.vX .current, C19C.arr1, env⟩ ⟨π.sub 1, C19C.vX, C19.n1, env⟩ :=
  expref_elem (t := .plain) (pre := []) (post := []) rfl (fun _ h => by cases h)

theorem mapAllO_const (v : Val) : ∀ (i : Nat) (xs : List Val),
    mapAllO (fun _ _ => Res.ok v) i xs = .ok (xs.map fun _ => v)
  | _, [] => rfl
  | i, x :: xs => by simp only [mapAllO, Res.ok_bind, mapAllO_const v (i + 1) xs]; rfl

/-- **`let $x = e1 in map(&$x, a)`**: every element is mapped to the value `e1` had where the `let` stands — the
    expression reference is evaluated with the binding in scope (in every run) -/
theorem let_map_expref {π : Oracle} {root : Val} {x : Bytes} {e1 a : INode} {cur v : Val} {env : Env} {t : ATag}
    {xs : List Val} (h1 : ievalO ((π.sub 1).sub 0) root e1 cur env = .ok v)
    (ha : ievalO ((π.sub 2).sub 0) root a cur ((x, v) :: env) = .ok (.arr t xs)) :
    ievalO π root (.defineVariables [(x, e1)] (.map (.variable x) a)) cur env =
      .ok (.arr t.derived (xs.map fun _ => v)) := by
  rw [let_once_run, h1, Res.ok_bind]
  simp only [ievalO, ha, Res.ok_bind, Env.get_cons_self, mapArrayO, mapAllO_const]
  rfl

/-- `let $x = `1` in map(&$x, @)` on `[0, 0]` is `[1, 1]` -/
example (π : Oracle) : evaluateO π (.defineVariables [(C19.dx, .lit C19.n1)] (.map C19C.vX .current))
    (.arr .plain [C19.n2, C19.n2]) = .ok (.arr .plain [C19.n1, C19.n1]) :=
  let_map_expref (π := π) (root := .arr .plain [C19.n2, C19.n2]) (cur := .arr .plain [C19.n2, C19.n2]) (env := [])
    (t := .plain) (xs := [C19.n2, C19.n2]) (v := C19.n1) rfl rfl

/-! ## 5. at text level (through the lexer and the parser) -/

/-- **text ⟶ node ⟶ run**: when the tokens of `e` are the printing of a well-formed tree, every run of `Search` on `e`
    is the run of the tree's node -/
theorem searchO_text {t : PTree} (h : WellPrec t) {e : Bytes} (hl : C17B.Lexes e (Grammar.flatten t)) (π : Oracle)
    (d : Val) : searchO π e d = evaluateO π (erase t) d := by
  have hp := (C17B.text h hl).1
  simp only [searchO, hp]

example (π : Oracle) (d : Val) : searchO π (Ex.bs "let $x = a in $x.b") d = evaluateO π (erase Ex.e13) d :=
  searchO_text (by decide) (by decide) π d

theorem assocLookup_ne_none (x : Bytes) : ∀ l : List (Bytes × INode), assocLookup x l ≠ none ↔ x ∈ l.map Prod.fst
  | [] => by simp [assocLookup]
  | (k, v) :: rest => by
    simp only [assocLookup, List.map_cons, List.mem_cons]
    by_cases h : x = k
    · simp [h]
    · simp only [h, if_false, false_or]
      exact assocLookup_ne_none x rest

/-- the names of the compiled member list are the names written -/
theorem mem_keys_assocOf (x : Bytes) (ps : List (Bytes × INode)) :
    x ∈ (assocOf ps).map Prod.fst ↔ x ∈ ps.map Prod.fst := by
  rw [← assocLookup_ne_none, assocLookup_assocOf, assocLookup_ne_none]
  simp

/-- its members are members written -/
theorem mem_assocOf {p : Bytes × INode} (ps : List (Bytes × INode)) (h : p ∈ assocOf ps) : p ∈ ps := by
  induction ps using list_snoc_ind with
  | nil => cases h
  | snoc ps q ih =>
    obtain ⟨k, v⟩ := q
    rw [GrammarF0.assocOf_snoc] at h
    rcases mem_assocInsert h with h | h
    · rw [h]; simp
    · exact List.mem_append_left _ (ih h)

theorem keys_eraseKVs (key : Token → Bytes) : ∀ bs : List (Token × PTree),
    (eraseKVs key bs).map Prod.fst = bs.map fun p => key p.1
  | [] => rfl
  | (k, e) :: rest => by simp only [eraseKVs, List.map_cons, keys_eraseKVs key rest]

theorem mem_eraseKVs (key : Token → Bytes) {k : Bytes} {n : INode} : ∀ bs : List (Token × PTree),
    (k, n) ∈ eraseKVs key bs → ∃ p ∈ bs, erase p.2 = n
  | [], h => by cases h
  | (tk, t) :: rest, h => by
    simp only [eraseKVs, List.mem_cons, Prod.mk.injEq] at h
    rcases h with ⟨_, h⟩ | h
    · exact ⟨(tk, t), List.mem_cons_self, h.symm⟩
    · obtain ⟨p, hp, e⟩ := mem_eraseKVs key rest h
      exact ⟨p, List.mem_cons_of_mem _ hp, e⟩

/-- the names a `let` binds, as written: the texts of its variable tokens (`$name`) -/
def letNames (bs : List (Token × PTree)) : List Bytes := bs.map fun p => p.1.value

/-- the member list of the compiled `let` (one expression per name, by name) -/
def letVars (bs : List (Token × PTree)) : List (Bytes × INode) := assocOf (eraseKVs Token.value bs)

/-- it binds exactly the names written -/
theorem letVars_names (bs : List (Token × PTree)) (x : Bytes) : x ∈ (letVars bs).map Prod.fst ↔ x ∈ letNames bs := by
  unfold letVars; rw [mem_keys_assocOf, keys_eraseKVs]; rfl

example : Ex.bs "$x" ∈ (letVars [(⟨.variable, Ex.bs "$x"⟩, Ex.idt "a")]).map Prod.fst :=
  (letVars_names _ _).mpr (by simp [letNames])

/-- **`let … in …` in the text**: every run of `Search` is the run of the `let` node -/
theorem let_text {bs : List (Token × PTree)} {body : PTree} (hw : WellPrec (.letIn bs body)) {e : Bytes}
    (hl : C17B.Lexes e (Grammar.flatten (.letIn bs body))) (π : Oracle) (d : Val) :
    searchO π e d = evaluateO π (.defineVariables (letVars bs) (erase body)) d :=
  searchO_text hw hl π d

example (π : Oracle) (d : Val) : searchO π (Ex.bs "let $x = a in $x.b") d =
    evaluateO π (.defineVariables (letVars [(⟨.variable, Ex.bs "$x"⟩, Ex.idt "a")])
      (erase (.dotId (.atom ⟨.variable, Ex.bs "$x"⟩) (Ex.idt "b")))) d :=
  let_text (by decide) (by decide) π d

/-- **Text level: in `let $x = e1, … in e2` the occurrences of `$x`, … in `e2` never raise undefined-variable** — in
    any run, on any document, under any projection, filter, pipe, multi-select or expression reference inside `e2`.
    If the run of the whole expression answers undefined-variable, the reference `$x` it met is
    * either in one of the binding expressions, which is evaluated on the document in the scope OUTSIDE the `let` (at
      top level: the empty scope — the bindings do not see each other),
    * or a reference of `e2`, evaluated in a scope that binds every name of the `let`, to a name the `let` does NOT
      bind. -/
theorem let_text_undefined {bs : List (Token × PTree)} {body : PTree} (hw : WellPrec (.letIn bs body)) {e : Bytes}
    (hl : C17B.Lexes e (Grammar.flatten (.letIn bs body))) (π : Oracle) (d : Val)
    (h : searchO π e d = .err [Cat.undefinedVariable]) :
    ∃ x,
      (∃ p ∈ bs, ∃ π', ReachesAt d ⟨π', erase p.2, d, []⟩ x) ∨
      (x ∉ letNames bs ∧ ∃ π' env, (∀ y ∈ letNames bs, env.get y ≠ none) ∧ ReachesAt d ⟨π', erase body, d, env⟩ x) := by
  rw [let_text hw hl] at h
  obtain ⟨x, hr⟩ := (evaluateO_undefined_iff π _ d).mp h
  refine ⟨x, ?_⟩
  rcases let_undefined_cases hr with ⟨k, c, hm, he, hc⟩ | ⟨bsv, hb, hc, hx⟩
  · left
    obtain ⟨p, hp, ep⟩ := mem_eraseKVs Token.value bs (mem_assocOf _ hm.shape.1)
    refine ⟨p, hp, c.π, ?_⟩
    have hcur : c.cur = d := hm.shape.2.1
    cases c with
    | mk cπ cn ccur cenv =>
      simp only at ep he hcur
      subst ep he hcur
      exact hc
  · right
    refine ⟨fun hx' => hx ((letVars_names bs x).mpr hx'), π.sub 2, bsv ++ [], fun y hy => ?_, hc⟩
    rw [Env.get_append]
    have := let_binds hb ((letVars_names bs y).mpr hy)
    cases hq : objLookup y bsv with
    | none => exact absurd hq this
    | some v => simp

/-- **Text level, one binding: β-reduction per run.**  `let $x = e1 in e2`: `e1` is evaluated once, on the document, in
    the empty scope; then `e2` with `$x ↦ v`. -/
theorem let1_text {x : Token} {e1 body : PTree} (hw : WellPrec (.letIn [(x, e1)] body)) {e : Bytes}
    (hl : C17B.Lexes e (Grammar.flatten (.letIn [(x, e1)] body))) (π : Oracle) (d : Val) :
    searchO π e d =
      (ievalO ((π.sub 1).sub 0) d (erase e1) d [] >>= fun v => ievalO (π.sub 2) d (erase body) d [(x.value, v)]) := by
  rw [let_text hw hl, evaluateO]
  exact let_once_run π d x.value (erase e1) (erase body) d []

/-! ### concrete expressions (the Go library gives the same answers) -/

/-- `(let $x = a in $x) && $x` -/
def tAfter : PTree :=
  .bin (Ex.op .and "&&")
    (.paren (.letIn [(⟨.variable, Ex.bs "$x"⟩, Ex.idt "a")] (.atom ⟨.variable, Ex.bs "$x"⟩)))
    (.atom ⟨.variable, Ex.bs "$x"⟩)

/-- **A variable bound in an inner `let` is not visible after it.**  `(let $x = a in $x) && $x`: in every run, on every
    document — if the member `a` is true the right operand is reached and the answer is undefined-variable (Go:
    `undefined variable "$x"` on `{"a": 1}`); otherwise the answer is the (false) value of `a` (Go: `null` on
    `{"a": null}`). -/
theorem after_let_text (π : Oracle) (d : Val) :
    searchO π (Ex.bs "(let $x = a in $x) && $x") d =
      if isTrue (field (Ex.bs "a") d) then .err [Cat.undefinedVariable] else .ok (field (Ex.bs "a") d) := by
  rw [searchO_text (t := tAfter) (by decide) (by decide)]
  refine after_let_outer_scope (π := π) (root := d) (vars := [(Ex.bs "$x", .field (Ex.bs "a"))])
    (child := .variable (Ex.bs "$x")) (cur := d) (env := []) (x := Ex.bs "$x") ?_ rfl
  rw [let_once_run]
  simp only [ievalO, Res.ok_bind, Env.get_cons_self]

example (π : Oracle) :
    searchO π (Ex.bs "(let $x = a in $x) && $x") (C19C.docA C19.n1) = .err [Cat.undefinedVariable] := by
  rw [after_let_text]; rfl
example (π : Oracle) : searchO π (Ex.bs "(let $x = a in $x) && $x") (C19C.docA .null) = .ok .null := by
  rw [after_let_text]; rfl

/-- ``let $x = `1` in map(&$x, @)`` -/
def tLetMap : PTree :=
  .letIn [(⟨.variable, Ex.bs "$x"⟩, .atom ⟨.jsonLiteral, Ex.bs "`1`"⟩)]
    (.call ⟨.unquotedIdentifier, Ex.bs "map"⟩ [.ref (.atom ⟨.variable, Ex.bs "$x"⟩), .atom ⟨.current, Ex.bs "@"⟩])

/-- **An expression reference sees the binding of the enclosing `let`**: ``let $x = `1` in map(&$x, @)`` maps every
    element of any array to `1`, in every run (Go: `[1,1]` on `[0,0]`) -/
theorem let_map_text (π : Oracle) (t : ATag) (xs : List Val) :
    searchO π (Ex.bs "let $x = `1` in map(&$x, @)") (.arr t xs) = .ok (.arr t.derived (xs.map fun _ => C19.n1)) := by
  rw [searchO_text (t := tLetMap) (by decide +kernel) (by decide +kernel)]
  exact let_map_expref (π := π) (root := .arr t xs) (x := Ex.bs "$x") (e1 := .lit C19.n1) (a := .current)
    (cur := .arr t xs) (env := []) (v := C19.n1) rfl rfl

example (π : Oracle) : searchO π (Ex.bs "let $x = `1` in map(&$x, @)") (.arr .plain [C19.n2, C19.n2]) =
    .ok (.arr .plain [C19.n1, C19.n1]) := let_map_text π .plain _

/-- `let $x = a in b[*].[$x, @]` -/
def tLetProj : PTree :=
  .letIn [(⟨.variable, Ex.bs "$x"⟩, Ex.idt "a")]
    (.star (Ex.idt "b") (.dotList .icur [.atom ⟨.variable, Ex.bs "$x"⟩, .atom ⟨.current, Ex.bs "@"⟩]))

/-- **the binding is visible unchanged inside a projection and a multi-select**: `let $x = a in b[*].[$x, @]` on
    `{"a": 1, "b": [2, 2]}` is `[[1, 2], [1, 2]]` in every run — `$x` is the value `a` had where the `let` stands, not
    `a` of the projected element -/
theorem let_proj_text (π : Oracle) :
    searchO π (Ex.bs "let $x = a in b[*].[$x, @]")
      (.obj [(Ex.bs "a", C19.n1), (Ex.bs "b", .arr .plain [C19.n2, C19.n2])]) =
      .ok (.arr .plain [.arr .plain [C19.n1, C19.n2], .arr .plain [C19.n1, C19.n2]]) := by
  rw [let1_text (x := ⟨.variable, Ex.bs "$x"⟩) (e1 := Ex.idt "a")
    (body := .star (Ex.idt "b") (.dotList .icur [.atom ⟨.variable, Ex.bs "$x"⟩, .atom ⟨.current, Ex.bs "@"⟩]))
    (by decide +kernel) (by decide +kernel)]
  rfl

/-- `let $x = $y, $y = a in $x` -/
def tSeq2 : PTree :=
  .letIn [(⟨.variable, Ex.bs "$x"⟩, .atom ⟨.variable, Ex.bs "$y"⟩), (⟨.variable, Ex.bs "$y"⟩, Ex.idt "a")]
    (.atom ⟨.variable, Ex.bs "$x"⟩)

/-- **the bindings of one `let` do not see each other, whatever the order of the run**: `let $x = $y, $y = a in $x`
    answers undefined-variable on every document in every run — Go keeps the bindings in a map, and whether it evaluates
    `$y = a` before or after `$x = $y`, the latter is evaluated in the scope outside the `let` (Go:
    `undefined variable "$y"`) -/
theorem bindings_blind_text (π : Oracle) (d : Val) :
    searchO π (Ex.bs "let $x = $y, $y = a in $x") d = .err [Cat.undefinedVariable] := by
  rw [searchO_text (t := tSeq2) (by decide +kernel) (by decide +kernel)]
  have hm := perm_pair (Oracle.order_perm (π.sub 0)
    [(Ex.bs "$x", (Res.err [Cat.undefinedVariable] : Res Val)), (Ex.bs "$y", .ok (field (Ex.bs "a") d))])
  have key : ∀ l : List (Bytes × Res Val),
      (l = [(Ex.bs "$x", .err [Cat.undefinedVariable]), (Ex.bs "$y", .ok (field (Ex.bs "a") d))] ∨
       l = [(Ex.bs "$y", .ok (field (Ex.bs "a") d)), (Ex.bs "$x", .err [Cat.undefinedVariable])]) →
      (firstFailure l [] >>= fun bs => ievalO (π.sub 2) d (.variable (Ex.bs "$x")) d (bs ++ [])) =
        .err [Cat.undefinedVariable] := by
    rintro l (rfl | rfl) <;> rfl
  exact key _ hm

/-- … and `let_text_undefined` says where it comes from: not from `$x` or `$y` in the body -/
example (π : Oracle) (d : Val) : ∃ x,
    (∃ p ∈ [((⟨.variable, Ex.bs "$x"⟩ : Token), PTree.atom ⟨.variable, Ex.bs "$y"⟩),
        (⟨.variable, Ex.bs "$y"⟩, Ex.idt "a")], ∃ π', ReachesAt d ⟨π', erase p.2, d, []⟩ x) ∨
    (x ∉ [Ex.bs "$x", Ex.bs "$y"] ∧ ∃ π' env, (∀ y ∈ [Ex.bs "$x", Ex.bs "$y"], Env.get env y ≠ none) ∧
      ReachesAt d ⟨π', .variable (Ex.bs "$x"), d, env⟩ x) :=
  let_text_undefined (bs := [(⟨.variable, Ex.bs "$x"⟩, .atom ⟨.variable, Ex.bs "$y"⟩), (⟨.variable, Ex.bs "$y"⟩, Ex.idt "a")])
    (body := .atom ⟨.variable, Ex.bs "$x"⟩) (by decide +kernel) (by decide +kernel) π d (bindings_blind_text π d)

/-- the reference that is met is `$y`, evaluated in the empty scope as a binding expression of the `let` -/
example (π : Oracle) (d : Val) : ∃ π', ReachesAt d ⟨π', .variable (Ex.bs "$y"), d, []⟩ (Ex.bs "$y") :=
  ⟨π, _, .refl _, rfl, rfl⟩

/-! ## 6. against the independent reference semantics `C01C.Sem`

  `C01C.Sem` is a function on parse trees written without the evaluator's helpers, but it follows the model's
  convention for map ranges (`enum` tags, `.nondet`, widened category lists) and has no oracle: an exact per-run
  statement cannot be made ON it.  What can be said is how `ReachesO` sits between its answers (for every expression
  without `max`/`min`, on JSON documents — the domain of `C15C.search_oracle_full`). -/

/-- **`Sem` and the runs.**  Let `e` be the text of the well-formed tree `t`, without a call of `max` / `min`, and `d` a
    JSON document.
    (a) If the reference semantics answers exactly `[undefined-variable]`, EVERY run reaches a reference without a
        binding.
    (b) If SOME run reaches one, the reference semantics does not answer a value, and when it answers an error
        undefined-variable is in the list.
    (c) If the reference semantics answers an error without undefined-variable, NO run reaches one.
    The converse of (b) fails — `C19C.phantom_flatten`, `phantom_flatten_not_reached` above: `Sem` lists
    undefined-variable and no run reaches a reference. -/
theorem sem_vs_runs {t : PTree} (hw : WellPrec t) {e : Bytes} (hl : C17B.Lexes e (Grammar.flatten t))
    (hc : (erase t).all C15C.coveredFN = true) {d : Val} (hd : d.NoEnum = true) :
    (C01C.Sem t d d [] = .err [Cat.undefinedVariable] → ∀ π, ∃ x, ReachesO π d (erase t) x) ∧
    ((∃ π x, ReachesO π d (erase t) x) →
      (∀ r, C01C.Sem t d d [] ≠ .ok r) ∧ ∀ cs, C01C.Sem t d d [] = .err cs → Cat.undefinedVariable ∈ cs) ∧
    (∀ cs, C01C.Sem t d d [] = .err cs → Cat.undefinedVariable ∉ cs → ∀ π x, ¬ ReachesO π d (erase t) x) := by
  have hs : search e d = C01C.Sem t d d [] := C01C.search_eq_Sem hw hl d
  have hp : compile e = .ok (erase t) := C04G.parse_complete hw hl
  have hfull := C15C.search_oracle_full (expr := e) hd (fun n hn => by
    rw [hp] at hn; cases hn; exact hc)
  have hrun : ∀ π, searchO π e d = evaluateO π (erase t) d := fun π => searchO_text hw hl π d
  have hb : (∃ π x, ReachesO π d (erase t) x) →
      (∀ r, C01C.Sem t d d [] ≠ .ok r) ∧ ∀ cs, C01C.Sem t d d [] = .err cs → Cat.undefinedVariable ∈ cs := by
    rintro ⟨π, x, hx⟩
    have h1 : searchO π e d = .err [Cat.undefinedVariable] := by
      rw [hrun]; exact (evaluateO_undefined_iff π _ d).mpr ⟨x, hx⟩
    refine ⟨fun r hr => ?_, fun cs hcs => ?_⟩
    · obtain ⟨r', h2, _⟩ := hfull.1 r (hs.trans hr) π
      rw [h1] at h2; cases h2
    · obtain ⟨c, hcm, h2⟩ := hfull.2 cs (hs.trans hcs) π
      rw [h1] at h2
      cases h2
      exact hcm
  refine ⟨fun h π => ?_, hb, fun cs hcs hu π x hx => hu ((hb ⟨π, x, hx⟩).2 cs hcs)⟩
  obtain ⟨c, hcm, h2⟩ := hfull.2 _ (hs.trans h) π
  rw [List.mem_singleton.mp hcm, hrun] at h2
  exact (evaluateO_undefined_iff π _ d).mp h2

/-- `(let $x = a in $x) && $x` on `{"a": 1}`: `Sem` answers `[undefined-variable]`, so every run reaches a reference -/
example (π : Oracle) : ∃ x, ReachesO π (C19C.docA C19.n1) (erase tAfter) x :=
  (sem_vs_runs (t := tAfter) (e := Ex.bs "(let $x = a in $x) && $x") (by decide) (by decide) (by decide)
    (d := C19C.docA C19.n1) (by decide)).1 rfl π

end Jmes.C19E
