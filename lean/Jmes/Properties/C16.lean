/-
  C16 — literals round-trip.

  For every (valid UTF-8) string `s`: the raw-string literal, the JSON literal and the quoted identifier obtained
  by escaping `s` as the grammar prescribes compile, and evaluate to `s`, to `s`, and to the member named `s`.
  A JSON number between backticks keeps its spelling.  A backslash before any other character in a raw string is
  preserved verbatim.
-/
import Jmes.Proofs.Literals
namespace Jmes.C16
open Jmes Jmes.Utf8 Jmes.Literals

/-! ## 1. raw strings: specification-side escaping -/

/-- escape one byte of a raw string: `'` ↦ `\'`, `\` ↦ `\\` -/
def rawEscByte (b : Nat) : Bytes := if b = 0x27 then [0x5C, 0x27] else if b = 0x5C then [0x5C, 0x5C] else [b]

def escRaw (s : Bytes) : Bytes := s.flatMap rawEscByte

def rawLiteral (s : Bytes) : Bytes := [0x27] ++ escRaw s ++ [0x27]

theorem escRaw_cons (b : Nat) (t : Bytes) : escRaw (b :: t) = rawEscByte b ++ escRaw t := by
  simp [escRaw]

theorem escRaw_append (a b : Bytes) : escRaw (a ++ b) = escRaw a ++ escRaw b := by
  simp [escRaw]

/-! ## 2. `parseStringLiteral` inverts `escRaw`; untouched escapes are verbatim -/

theorem unescRaw_plain (b : Nat) (hb : b ≠ 0x5C) (w : Bytes) : unescRaw (b :: w) = b :: unescRaw w := by
  cases w with
  | nil => simp [unescRaw]
  | cons c t => simp [unescRaw, hb]

theorem unescRaw_pair (c : Nat) (w : Bytes) : unescRaw (0x5C :: c :: w) = rawEsc c ++ unescRaw w := by
  simp [unescRaw]

theorem unescRaw_escRaw (s : Bytes) : unescRaw (escRaw s) = s := by
  induction s with
  | nil => simp [escRaw, unescRaw]
  | cons b t ih =>
    rw [escRaw_cons]
    unfold rawEscByte
    by_cases h1 : b = 0x27
    · subst h1; simp only [if_true, List.cons_append, List.nil_append, unescRaw_pair, ih]; simp [rawEsc]
    · by_cases h2 : b = 0x5C
      · subst h2; simp only [h1, if_false, if_true, List.cons_append, List.nil_append, unescRaw_pair, ih]
        simp [rawEsc]
      · simp only [h1, h2, if_false, List.cons_append, List.nil_append, unescRaw_plain b h2, ih]

/-- C16 (raw string, parser level): un-escaping the escaped text gives back `s`, for every byte string -/
theorem parseStringLiteral_escRaw (s : Bytes) : parseStringLiteral (rawLiteral s) = s := by
  rw [parseStringLiteral_unesc, rawLiteral, stripDelims_wrap, unescRaw_escRaw]

example : parseStringLiteral (rawLiteral [0x61, 0x27, 0x5C, 0x5C, 0x27, 0xC3, 0xA9]) = [0x61, 0x27, 0x5C, 0x5C, 0x27, 0xC3, 0xA9] := by
  decide

/-- a raw-string body in which no quote occurs and every backslash is followed by a byte other than `'` and `\`
    (in particular is not the last byte) -/
def Verbatim : Bytes → Prop
  | [] => True
  | b :: t => b ≠ 0x27 ∧ (b = 0x5C → ∃ c t', t = c :: t' ∧ c ≠ 0x27 ∧ c ≠ 0x5C) ∧ Verbatim t

theorem Verbatim.tail {b : Nat} {t : Bytes} (h : Verbatim (b :: t)) : Verbatim t := h.2.2

theorem unescRaw_verbatim : ∀ (n : Nat) (b : Bytes), b.length ≤ n → Verbatim b → unescRaw b = b := by
  intro n
  induction n with
  | zero =>
    intro b hb _
    have : b = [] := List.eq_nil_of_length_eq_zero (by omega)
    subst this; simp [unescRaw]
  | succ n ih =>
    intro b hb hv
    match b, hb, hv with
    | [], _, _ => simp [unescRaw]
    | x :: t, hb, hv =>
      by_cases hx : x = 0x5C
      · obtain ⟨c, t', rfl, hc1, hc2⟩ := hv.2.1 hx
        subst hx
        have hv' : Verbatim t' := hv.tail.tail
        simp only [List.length_cons] at hb
        rw [unescRaw_pair, ih t' (by omega) hv']
        simp [rawEsc, hc1, hc2]
      · rw [unescRaw_plain x hx, ih t (by simpa using hb) hv.tail]

/-- C16 (escapes the grammar leaves untouched): a backslash before any character other than `'` and `\` stays in
    the value together with that character -/
theorem raw_verbatim (b : Bytes) (h : Verbatim b) : parseStringLiteral ([0x27] ++ b ++ [0x27]) = b := by
  rw [parseStringLiteral_unesc, stripDelims_wrap, unescRaw_verbatim _ b (Nat.le_refl _) h]

/-- `'a\nb\'` without the last escape: the body `a\nb` is kept as is -/
example : Verbatim [0x61, 0x5C, 0x6E, 0x62] := by
  refine ⟨by decide, fun h => absurd h (by decide), ?_⟩
  refine ⟨by decide, fun _ => ⟨0x6E, [0x62], rfl, by decide, by decide⟩, ?_⟩
  refine ⟨by decide, fun h => absurd h (by decide), ?_⟩
  exact ⟨by decide, fun h => absurd h (by decide), trivial⟩
example : parseStringLiteral [0x27, 0x61, 0x5C, 0x6E, 0x62, 0x27] = [0x61, 0x5C, 0x6E, 0x62] := by decide

/-! ## 3. the lexer reads `rawLiteral s` as one string-literal token -/

theorem rawEscByte_hi (b : Nat) (h : 0x80 ≤ b) : rawEscByte b = [b] := by
  unfold rawEscByte
  have h1 : b ≠ 0x27 := by omega
  have h2 : b ≠ 0x5C := by omega
  simp [h1, h2]

theorem body_raw : ∀ cs : List Nat, Scalars cs → Body 0x27 (escRaw (encodeAll cs))
  | [], _ => Body.nil
  | c :: cs, h => by
    have ih := body_raw cs h.tail
    rw [encodeAll_cons, escRaw_append]
    by_cases hc : c < 0x80
    · rw [encodeRune_ascii c hc]
      have e : escRaw [c] = rawEscByte c := by simp [escRaw]
      rw [e]; unfold rawEscByte
      by_cases h1 : c = 0x27
      · subst h1; exact Body.esc1 0x27 (by omega) ih
      · by_cases h2 : c = 0x5C
        · subst h2; exact Body.esc1 0x5C (by omega) ih
        · simp only [h1, h2, if_false]; exact Body.plain1 c hc h1 h2 ih
    · have e : escRaw (encodeRune c) = encodeRune c :=
        flatMap_id_of _ (fun b hb => rawEscByte_hi b (encodeRune_bytes_ge c (by omega) b hb))
      rw [e]
      exact Body.plain c _ h.head (by omega) (by omega) ih

theorem body_raw_valid (s : Bytes) (h : validUTF8 s = true) : Body 0x27 (escRaw s) := by
  obtain ⟨cs, hs, rfl⟩ := (validUTF8_iff s).1 h
  exact body_raw cs hs

/-- C16 (raw string, lexer level): the escaped text is exactly one `stringLiteral` token -/
theorem lex_raw (s : Bytes) (h : validUTF8 s = true) :
    lexAll (rawLiteral s) = ([⟨.stringLiteral, rawLiteral s⟩, ⟨.end, []⟩], none) :=
  lexAll_single 0x27 _ (by omega) (by decide) _ (lexToken_raw (body_raw_valid s h))

example : lexAll (rawLiteral [0x27, 0x5C, 0xC3, 0xA9]) =
    ([⟨.stringLiteral, [0x27, 0x5C, 0x27, 0x5C, 0x5C, 0xC3, 0xA9, 0x27]⟩, ⟨.end, []⟩], none) := by decide

/-! ## 4. end to end -/

theorem compile_raw (s : Bytes) (h : validUTF8 s = true) : compile (rawLiteral s) = .ok (.lit (.str s)) := by
  have := parse_single (rawLiteral s) _ _ (lex_raw s h) (fun f => prim_string f (rawLiteral s))
  rw [parseStringLiteral_escRaw] at this
  exact this

example : compile (rawLiteral [0x27]) = .ok (.lit (.str [0x27])) := compile_raw _ (by decide)

/-- C16 (raw string): `'…'` with `'` and `\` escaped evaluates to `s`, whatever the document -/
theorem raw_roundtrip (s : Bytes) (d : Val) (h : validUTF8 s = true) : search (rawLiteral s) d = .ok (.str s) := by
  rw [search_single (rawLiteral s) _ _ d (lex_raw s h) (fun f => prim_string f (rawLiteral s)),
    parseStringLiteral_escRaw]
  rfl

example : search (rawLiteral [0x27, 0x5C, 0xC3, 0xA9]) .null = .ok (.str [0x27, 0x5C, 0xC3, 0xA9]) :=
  raw_roundtrip _ _ (by decide)

/-! ### untouched escapes, end to end -/

theorem Verbatim.suffix : ∀ (a : Bytes) {b : Bytes}, Verbatim (a ++ b) → Verbatim b
  | [], _, h => h
  | _ :: a, _, h => Verbatim.suffix a h.tail

theorem body_verbatim : ∀ (n : Nat) (cs : List Nat), cs.length ≤ n → Scalars cs → Verbatim (encodeAll cs) →
    Body 0x27 (encodeAll cs) := by
  intro n
  induction n with
  | zero =>
    intro cs hn _ _
    have : cs = [] := List.eq_nil_of_length_eq_zero (by omega)
    subst this; exact Body.nil
  | succ n ih =>
    intro cs hn hs hv
    match cs, hn, hs, hv with
    | [], _, _, _ => exact Body.nil
    | c :: cs, hn, hs, hv =>
      rw [encodeAll_cons] at hv ⊢
      have hsuf : Verbatim (encodeAll cs) := Verbatim.suffix _ hv
      simp only [List.length_cons] at hn
      by_cases h1 : c = 0x5C
      · subst h1
        rw [encodeRune_ascii 0x5C (by omega)] at hv ⊢
        obtain ⟨x, t', hx, _, _⟩ := hv.2.1 rfl
        match cs, hn, hs, hsuf, hx with
        | [], _, _, _, hx => simp [encodeAll] at hx
        | c' :: cs', hn, hs, hsuf, _ =>
          rw [encodeAll_cons] at hsuf ⊢
          simp only [List.length_cons] at hn
          exact Body.esc c' _ hs.tail.head (ih cs' (by omega) hs.tail.tail (Verbatim.suffix _ hsuf))
      · by_cases h2 : c = 0x27
        · subst h2
          rw [encodeRune_ascii 0x27 (by omega)] at hv
          exact absurd rfl hv.1
        · exact Body.plain c _ hs.head h2 h1 (ih cs (by omega) hs.tail hsuf)

/-- C16 (escapes the grammar leaves untouched, end to end): a raw string whose body has no quote and only
    backslashes followed by characters other than `'` and `\` evaluates to that body, backslashes included -/
theorem raw_verbatim_search (b : Bytes) (d : Val) (hu : validUTF8 b = true) (h : Verbatim b) :
    search ([0x27] ++ b ++ [0x27]) d = .ok (.str b) := by
  obtain ⟨cs, hs, rfl⟩ := (validUTF8_iff b).1 hu
  have hl : lexAll ([0x27] ++ encodeAll cs ++ [0x27])
      = ([⟨.stringLiteral, [0x27] ++ encodeAll cs ++ [0x27]⟩, ⟨.end, []⟩], none) :=
    lexAll_single 0x27 _ (by omega) (by decide) _ (lexToken_raw (body_verbatim _ cs (Nat.le_refl _) hs h))
  rw [search_single _ _ _ d hl (fun f => prim_string f _), raw_verbatim _ h]
  rfl

/-- `'a\nb'` is the four bytes `a`, `\`, `n`, `b` -/
example : search [0x27, 0x61, 0x5C, 0x6E, 0x62, 0x27] .null = .ok (.str [0x61, 0x5C, 0x6E, 0x62]) := by
  refine raw_verbatim_search [0x61, 0x5C, 0x6E, 0x62] .null (by decide) ?_
  refine ⟨by decide, fun h => absurd h (by decide), ?_⟩
  refine ⟨by decide, fun _ => ⟨0x6E, [0x62], rfl, by decide, by decide⟩, ?_⟩
  refine ⟨by decide, fun h => absurd h (by decide), ?_⟩
  exact ⟨by decide, fun h => absurd h (by decide), trivial⟩

/-! ## 5. quoted identifiers -/

/-- lower-case hexadecimal digit -/
def hexLower (n : Nat) : Nat := if n < 10 then 0x30 + n else 0x61 + (n - 10)

/-- escape one byte of a JSON string / quoted identifier: `"` ↦ `\"`, `\` ↦ `\\`, control characters ↦ `\u00XX` -/
def qEscByte (b : Nat) : Bytes :=
  if b = 0x22 then [0x5C, 0x22]
  else if b = 0x5C then [0x5C, 0x5C]
  else if b < 0x20 then [0x5C, 0x75, 0x30, 0x30, hexLower (b / 16), hexLower (b % 16)]
  else [b]

def escQ (s : Bytes) : Bytes := s.flatMap qEscByte

def quoted (s : Bytes) : Bytes := [0x22] ++ escQ s ++ [0x22]

theorem escQ_cons (b : Nat) (t : Bytes) : escQ (b :: t) = qEscByte b ++ escQ t := by simp [escQ]
theorem escQ_append (a b : Bytes) : escQ (a ++ b) = escQ a ++ escQ b := by simp [escQ]

theorem hexLower_eq (n : Nat) : hexLower n = Json.hexDigit n := rfl

theorem hexLower_lt (n : Nat) (h : n < 16) :
    0x30 ≤ hexLower n ∧ hexLower n < 0x67 ∧ hexLower n ≠ 0x5C ∧ hexLower n ≠ 0x60 := by
  unfold hexLower; split <;> omega

theorem qEscByte_ge (b : Nat) : ∀ x ∈ qEscByte b, 0x20 ≤ x := by
  intro x hx
  unfold qEscByte at hx
  split at hx
  · simp at hx; omega
  · split at hx
    · simp at hx; omega
    · split at hx
      · have h1 := hexLower_lt (b / 16) (by omega)
        have h2 := hexLower_lt (b % 16) (by omega)
        simp at hx; omega
      · simp at hx; omega

theorem escQ_ge (s : Bytes) : ∀ x ∈ escQ s, 0x20 ≤ x := by
  intro x hx
  obtain ⟨b, _, hb⟩ := List.mem_flatMap.1 hx
  exact qEscByte_ge b x hb

theorem contQ_escQ : ∀ (s : Bytes) (fuel : Nat) (acc : Bytes), (escQ s).length ≤ fuel →
    contQ fuel (escQ s) acc = some (acc ++ s)
  | [], fuel, acc, _ => by simp [escQ, contQ_nil]
  | b :: t, fuel, acc, hf => by
    rw [escQ_cons] at hf ⊢
    unfold qEscByte at hf ⊢
    by_cases h1 : b = 0x22
    · subst h1
      simp only [if_true, List.cons_append, List.nil_append, List.length_cons] at hf ⊢
      match fuel, hf with
      | f + 1, hf => rw [contQ_esc_quote, contQ_escQ t f _ (by omega)]; simp
    · by_cases h2 : b = 0x5C
      · subst h2
        simp only [h1, if_false, if_true, List.cons_append, List.nil_append, List.length_cons] at hf ⊢
        match fuel, hf with
        | f + 1, hf => rw [contQ_esc_bs, contQ_escQ t f _ (by omega)]; simp
      · by_cases h3 : b < 0x20
        · simp only [h1, h2, h3, if_false, if_true, List.cons_append, List.nil_append, List.length_cons] at hf ⊢
          match fuel, hf with
          | f + 1, hf =>
            simp only [hexLower_eq]
            rw [contQ_esc_u f _ _ acc b (hex4_u00 b (by omega) _) (by simp [Json.isSurrogate]; omega),
              contQ_escQ t f _ (by omega), encodeRune_ascii b (by omega)]
            simp
        · simp only [h1, h2, h3, if_false, List.cons_append, List.nil_append, List.length_cons] at hf ⊢
          rw [contQ_plain fuel b h2, contQ_escQ t fuel _ (by omega)]; simp

/-- C16 (quoted identifier, parser level): for every byte string -/
theorem parseQuotedIdentifier_escQ (s : Bytes) : parseQuotedIdentifier (quoted s) = some s := by
  rw [parseQuotedIdentifier_eq, quoted, stripDelims_wrap]
  have : (escQ s).any (· < 0x20) = false := by
    rw [List.any_eq_false]
    intro x hx; have := escQ_ge s x hx; simp; omega
  rw [this]
  simp [contQ_escQ s _ [] (Nat.le_succ _)]

example : parseQuotedIdentifier (quoted [0x61, 0x22, 0x5C, 0x0A, 0x1F, 0xC3, 0xA9]) = some [0x61, 0x22, 0x5C, 0x0A, 0x1F, 0xC3, 0xA9] := by
  decide

theorem qEscByte_hi (b : Nat) (h : 0x80 ≤ b) : qEscByte b = [b] := by
  unfold qEscByte
  have h1 : b ≠ 0x22 := by omega
  have h2 : b ≠ 0x5C := by omega
  have h3 : ¬ b < 0x20 := by omega
  simp [h1, h2, h3]

theorem body_quoted : ∀ cs : List Nat, Scalars cs → Body 0x22 (escQ (encodeAll cs))
  | [], _ => Body.nil
  | c :: cs, h => by
    have ih := body_quoted cs h.tail
    rw [encodeAll_cons, escQ_append]
    by_cases hc : c < 0x80
    · rw [encodeRune_ascii c hc]
      have e : escQ [c] = qEscByte c := by simp [escQ]
      rw [e]; unfold qEscByte
      by_cases h1 : c = 0x22
      · subst h1; exact Body.esc1 0x22 (by omega) ih
      · by_cases h2 : c = 0x5C
        · subst h2; exact Body.esc1 0x5C (by omega) ih
        · by_cases h3 : c < 0x20
          · simp only [h1, h2, h3, if_false, if_true]
            have a1 := hexLower_lt (c / 16) (by omega)
            have a2 := hexLower_lt (c % 16) (by omega)
            refine Body.esc1 0x75 (by omega) ?_
            refine Body.plain1 0x30 (by omega) (by omega) (by omega) ?_
            refine Body.plain1 0x30 (by omega) (by omega) (by omega) ?_
            refine Body.plain1 _ (by omega) (by omega) (by omega) ?_
            exact Body.plain1 _ (by omega) (by omega) (by omega) ih
          · simp only [h1, h2, h3, if_false]; exact Body.plain1 c hc h1 h2 ih
    · have e : escQ (encodeRune c) = encodeRune c :=
        flatMap_id_of _ (fun b hb => qEscByte_hi b (encodeRune_bytes_ge c (by omega) b hb))
      rw [e]
      exact Body.plain c _ h.head (by omega) (by omega) ih

theorem body_quoted_valid (s : Bytes) (h : validUTF8 s = true) : Body 0x22 (escQ s) := by
  obtain ⟨cs, hs, rfl⟩ := (validUTF8_iff s).1 h
  exact body_quoted cs hs

/-- C16 (quoted identifier, lexer level) -/
theorem lex_quoted (s : Bytes) (h : validUTF8 s = true) :
    lexAll (quoted s) = ([⟨.quotedIdentifier, quoted s⟩, ⟨.end, []⟩], none) :=
  lexAll_single 0x22 _ (by omega) (by decide) _ (lexToken_quoted (body_quoted_valid s h))

example : lexAll (quoted [0x22, 0x0A, 0xC3, 0xA9]) =
    ([⟨.quotedIdentifier, [0x22, 0x5C, 0x22, 0x5C, 0x75, 0x30, 0x30, 0x30, 0x61, 0xC3, 0xA9, 0x22]⟩, ⟨.end, []⟩], none) :=
  lex_quoted _ (by decide)

theorem compile_quoted (s : Bytes) (h : validUTF8 s = true) : compile (quoted s) = .ok (.field s) :=
  parse_single (quoted s) _ _ (lex_quoted s h) (fun f => prim_quoted f _ _ (parseQuotedIdentifier_escQ s))

/-- C16 (quoted identifier): `"…"` with `"`, `\` and control characters escaped selects the member named `s` -/
theorem qid_roundtrip (s : Bytes) (kvs : List (Bytes × Val)) (h : validUTF8 s = true) :
    search (quoted s) (.obj kvs) = .ok ((objLookup s kvs).getD .null) := by
  rw [search_single (quoted s) _ _ _ (lex_quoted s h)
    (fun f => prim_quoted f _ _ (parseQuotedIdentifier_escQ s))]
  rfl

example : search (quoted [0x61, 0x22, 0x0A]) (.obj [([0x61, 0x22, 0x0A], .bool true)]) = .ok (.bool true) :=
  qid_roundtrip _ _ (by decide)

/-! ## 6. JSON string literals between backticks -/

/-- the JSON text of the string `s` -/
def jsonText (s : Bytes) : Bytes := [0x22] ++ escQ s ++ [0x22]

def btEscByte (b : Nat) : Bytes := if b = 0x60 then [0x5C, 0x60] else [b]

/-- write a JSON text between backticks: every backtick gets a backslash -/
def btEscape (t : Bytes) : Bytes := t.flatMap btEscByte

def jsonLiteral (s : Bytes) : Bytes := [0x60] ++ btEscape (jsonText s) ++ [0x60]

theorem btEscape_cons (b : Nat) (t : Bytes) : btEscape (b :: t) = btEscByte b ++ btEscape t := by simp [btEscape]
theorem btEscape_append (a b : Bytes) : btEscape (a ++ b) = btEscape a ++ btEscape b := by simp [btEscape]
theorem btEscape_nil : btEscape [] = [] := rfl

theorem btEscape_head (t t' : Bytes) : btEscape t ≠ 0x60 :: t' := by
  cases t with
  | nil => simp [btEscape]
  | cons b t =>
    rw [btEscape_cons]; unfold btEscByte
    by_cases h : b = 0x60
    · simp [h]
    · simp [h]

/-- Backtick escaping is undone by `unescapeBackticks` for EVERY text — including a text in which a backslash
    already stands before a backtick (`\\` followed by a backtick becomes `\\\` + backtick, and the replacement,
    scanning from the left, removes exactly the backslash that was added). -/
theorem unescapeBackticks_btEscape (t : Bytes) : unescapeBackticks (btEscape t) = t := by
  induction t with
  | nil => simp [btEscape, unescapeBackticks_nil]
  | cons b t ih =>
    rw [btEscape_cons]; unfold btEscByte
    by_cases h : b = 0x60
    · subst h; simp only [if_true, List.cons_append, List.nil_append, unescapeBackticks_pair, ih]
    · simp only [h, if_false, List.cons_append, List.nil_append]
      rw [unescapeBackticks_plain b _ (fun _ t' => btEscape_head t t'), ih]

/-- the interesting interaction: `s` = backslash, backtick -/
example : btEscape (jsonText [0x5C, 0x60]) = [0x22, 0x5C, 0x5C, 0x5C, 0x60, 0x22] := by decide
example : unescapeBackticks [0x22, 0x5C, 0x5C, 0x5C, 0x60, 0x22] = jsonText [0x5C, 0x60] := by decide

theorem psb_escQ : ∀ cs : List Nat, Scalars cs → ∀ (fuel : Nat) (acc rest : Bytes),
    (escQ (encodeAll cs)).length < fuel →
    Json.parseStringBody fuel (escQ (encodeAll cs) ++ 0x22 :: rest) acc = some (acc ++ encodeAll cs, rest)
  | [], _, fuel, acc, rest, hf => by
    match fuel, hf with
    | f + 1, _ => simp [encodeAll, escQ, psb_quote]
  | c :: cs, h, fuel, acc, rest, hf => by
    have ih := psb_escQ cs h.tail
    rw [encodeAll_cons, escQ_append] at hf ⊢
    rw [List.append_assoc]
    by_cases hc : c < 0x80
    · rw [encodeRune_ascii c hc] at hf ⊢
      have e : escQ [c] = qEscByte c := by simp [escQ]
      rw [e] at hf ⊢; unfold qEscByte at hf ⊢
      by_cases h1 : c = 0x22
      · subst h1
        simp only [if_true, List.cons_append, List.nil_append, List.length_cons] at hf ⊢
        match fuel, hf with
        | f + 1, hf => rw [psb_esc_quote, ih f _ _ (by omega)]; simp
      · by_cases h2 : c = 0x5C
        · subst h2
          simp only [h1, if_false, if_true, List.cons_append, List.nil_append, List.length_cons] at hf ⊢
          match fuel, hf with
          | f + 1, hf => rw [psb_esc_bs, ih f _ _ (by omega)]; simp
        · by_cases h3 : c < 0x20
          · simp only [h1, h2, h3, if_false, if_true, List.cons_append, List.nil_append, List.length_cons,
              hexLower_eq] at hf ⊢
            match fuel, hf with
            | f + 1, hf =>
              rw [psb_esc_u f _ _ acc c (hex4_u00 c (by omega) _) (by simp [Json.isSurrogate]; omega),
                ih f _ _ (by omega), encodeRune_ascii c (by omega)]
              simp
          · simp only [h1, h2, h3, if_false, List.cons_append, List.nil_append, List.length_cons] at hf ⊢
            match fuel, hf with
            | f + 1, hf => rw [psb_ascii f c (by omega) hc h1 h2, ih f _ _ (by omega)]; simp
    · have e : escQ (encodeRune c) = encodeRune c :=
        flatMap_id_of _ (fun b hb => qEscByte_hi b (encodeRune_bytes_ge c (by omega) b hb))
      rw [e] at hf ⊢
      have hp := encodeRune_length_pos c
      simp only [List.length_append] at hf
      match fuel, hf with
      | f + 1, hf => rw [psb_rune f c h.head (by omega), ih f _ _ (by omega)]; simp

/-- Go's JSON decoder reads the JSON text of a valid UTF-8 string back as that string -/
theorem decode_jsonText (s : Bytes) (h : validUTF8 s = true) : Json.decode (jsonText s) = some (.str s) := by
  obtain ⟨cs, hs, rfl⟩ := (validUTF8_iff s).1 h
  have := psb_escQ cs hs ((escQ (encodeAll cs) ++ [0x22]).length + 1) [] [] (by simp; omega)
  exact decode_string (escQ (encodeAll cs)) (encodeAll cs) (by simpa using this)

/-- invalid UTF-8 does NOT round-trip (the decoder substitutes U+FFFD): the hypothesis is needed -/
example : Json.decode (jsonText [0xFF]) = some (.str [0xEF, 0xBF, 0xBD]) := by rfl

/-- C16 (JSON string literal, parser level) -/
theorem parseJSONLiteral_jsonLiteral (s : Bytes) (h : validUTF8 s = true) :
    parseJSONLiteral (jsonLiteral s) = some (.str s) := by
  unfold parseJSONLiteral
  rw [jsonLiteral, stripDelims_wrap, unescapeBackticks_btEscape]
  have : (jsonText s).isEmpty = false := by simp [jsonText]
  simp only [this, Bool.false_eq_true, if_false]
  exact decode_jsonText s h

theorem btEscByte_id (b : Nat) (h : b ≠ 0x60) : btEscByte b = [b] := by simp [btEscByte, h]

theorem body_json : ∀ cs : List Nat, Scalars cs → Body 0x60 (btEscape (escQ (encodeAll cs)))
  | [], _ => Body.nil
  | c :: cs, h => by
    have ih := body_json cs h.tail
    rw [encodeAll_cons, escQ_append, btEscape_append]
    by_cases hc : c < 0x80
    · rw [encodeRune_ascii c hc]
      have e : escQ [c] = qEscByte c := by simp [escQ]
      rw [e]; unfold qEscByte
      by_cases h1 : c = 0x22
      · subst h1
        have : btEscape [0x5C, 0x22] = [0x5C, 0x22] := by decide
        simp only [if_true, this]; exact Body.esc1 0x22 (by omega) ih
      · by_cases h2 : c = 0x5C
        · subst h2
          have : btEscape [0x5C, 0x5C] = [0x5C, 0x5C] := by decide
          simp only [h1, if_false, if_true, this]; exact Body.esc1 0x5C (by omega) ih
        · by_cases h3 : c < 0x20
          · simp only [h1, h2, h3, if_false, if_true]
            have a1 := hexLower_lt (c / 16) (by omega)
            have a2 := hexLower_lt (c % 16) (by omega)
            have : btEscape [0x5C, 0x75, 0x30, 0x30, hexLower (c / 16), hexLower (c % 16)]
                = [0x5C, 0x75, 0x30, 0x30, hexLower (c / 16), hexLower (c % 16)] :=
              flatMap_id_of _ (fun b hb => btEscByte_id b (by simp at hb; omega))
            rw [this]
            refine Body.esc1 0x75 (by omega) ?_
            refine Body.plain1 0x30 (by omega) (by omega) (by omega) ?_
            refine Body.plain1 0x30 (by omega) (by omega) (by omega) ?_
            refine Body.plain1 _ (by omega) (by omega) (by omega) ?_
            exact Body.plain1 _ (by omega) (by omega) (by omega) ih
          · simp only [h1, h2, h3, if_false]
            by_cases h4 : c = 0x60
            · subst h4
              have : btEscape [0x60] = [0x5C, 0x60] := by decide
              rw [this]; exact Body.esc1 0x60 (by omega) ih
            · have : btEscape [c] = [c] := by simp [btEscape, btEscByte, h4]
              rw [this]; exact Body.plain1 c hc h4 h2 ih
    · have e : escQ (encodeRune c) = encodeRune c :=
        flatMap_id_of _ (fun b hb => qEscByte_hi b (encodeRune_bytes_ge c (by omega) b hb))
      have e2 : btEscape (encodeRune c) = encodeRune c :=
        flatMap_id_of _ (fun b hb => btEscByte_id b (by have := encodeRune_bytes_ge c (by omega) b hb; omega))
      rw [e, e2]
      exact Body.plain c _ h.head (by omega) (by omega) ih

theorem body_jsonText (s : Bytes) (h : validUTF8 s = true) : Body 0x60 (btEscape (jsonText s)) := by
  obtain ⟨cs, hs, rfl⟩ := (validUTF8_iff s).1 h
  have hq : btEscape [0x22] = [0x22] := by decide
  unfold jsonText
  rw [btEscape_append, btEscape_append, hq]
  exact Body.append (Body.append (Body.plain1 0x22 (by omega) (by omega) (by omega) Body.nil) (body_json cs hs))
    (Body.plain1 0x22 (by omega) (by omega) (by omega) Body.nil)

/-- C16 (JSON string literal, lexer level) -/
theorem lex_json (s : Bytes) (h : validUTF8 s = true) :
    lexAll (jsonLiteral s) = ([⟨.jsonLiteral, jsonLiteral s⟩, ⟨.end, []⟩], none) :=
  lexAll_single 0x60 _ (by omega) (by decide) _ (lexToken_json (body_jsonText s h))

example : lexAll (jsonLiteral [0x5C, 0x60]) =
    ([⟨.jsonLiteral, [0x60, 0x22, 0x5C, 0x5C, 0x5C, 0x60, 0x22, 0x60]⟩, ⟨.end, []⟩], none) :=
  lex_json _ (by decide)

theorem compile_json_str (s : Bytes) (h : validUTF8 s = true) : compile (jsonLiteral s) = .ok (.lit (.str s)) :=
  parse_single (jsonLiteral s) _ _ (lex_json s h) (fun f => prim_json f _ _ (parseJSONLiteral_jsonLiteral s h))

/-- C16 (JSON string literal): holds at full strength, for every valid UTF-8 `s` — backslashes and backticks in
    any arrangement included -/
theorem json_str_roundtrip (s : Bytes) (d : Val) (h : validUTF8 s = true) :
    search (jsonLiteral s) d = .ok (.str s) := by
  rw [search_single (jsonLiteral s) _ _ d (lex_json s h)
    (fun f => prim_json f _ _ (parseJSONLiteral_jsonLiteral s h))]
  rfl

/-- backslash-backtick, backtick-backslash, quote, newline, é -/
example : search (jsonLiteral [0x5C, 0x60, 0x60, 0x5C, 0x22, 0x0A, 0xC3, 0xA9]) .null
    = .ok (.str [0x5C, 0x60, 0x60, 0x5C, 0x22, 0x0A, 0xC3, 0xA9]) :=
  json_str_roundtrip _ _ (by decide)

/-! ## 7. arbitrary JSON values between backticks; numbers keep their spelling -/

/-- texts that can be written between backticks: valid UTF-8 in which a backslash always has a partner rune, and
    that partner is not a backtick (always the case for a JSON text: backslashes occur only in string escapes, and
    `\` followed by a backtick is not one) -/
inductive JBody : Bytes → Prop
  | nil : JBody []
  | plain (c : Nat) (w : Bytes) : isScalar c = true → c ≠ 0x5C → JBody w → JBody (encodeRune c ++ w)
  | esc (c : Nat) (w : Bytes) : isScalar c = true → c ≠ 0x60 → JBody w → JBody (0x5C :: (encodeRune c ++ w))

theorem btEscape_rune (c : Nat) (h : c ≠ 0x60) : btEscape (encodeRune c) = encodeRune c := by
  by_cases hc : c < 0x80
  · rw [encodeRune_ascii c hc]; simp [btEscape, btEscByte, h]
  · exact flatMap_id_of _ (fun b hb => btEscByte_id b (by have := encodeRune_bytes_ge c (by omega) b hb; omega))

theorem body_btEscape {t : Bytes} (h : JBody t) : Body 0x60 (btEscape t) := by
  induction h with
  | nil => exact Body.nil
  | plain c w h1 h2 _ ih =>
    rw [btEscape_append]
    by_cases h3 : c = 0x60
    · subst h3
      have : btEscape (encodeRune 0x60) = [0x5C, 0x60] := by decide
      rw [this]; exact Body.esc1 0x60 (by omega) ih
    · rw [btEscape_rune c h3]; exact Body.plain c _ h1 h3 h2 ih
  | esc c w h1 h2 _ ih =>
    have : btEscape (0x5C :: (encodeRune c ++ w)) = 0x5C :: (encodeRune c ++ btEscape w) := by
      rw [btEscape_cons, btEscape_append, btEscape_rune c h2, btEscByte_id 0x5C (by omega)]; rfl
    rw [this]; exact Body.esc c _ h1 ih

theorem JBody.ascii : ∀ (t : Bytes), (∀ b ∈ t, b < 0x80 ∧ b ≠ 0x5C) → JBody t
  | [], _ => JBody.nil
  | b :: t, h => by
    have hb := h b (List.mem_cons_self)
    have := JBody.plain b t (isScalar_ascii b hb.1) hb.2 (JBody.ascii t (fun x hx => h x (List.mem_cons_of_mem _ hx)))
    rwa [encodeRune_ascii b hb.1] at this

/-- a JSON text `t` written between backticks, backticks escaped -/
def jsonLit (t : Bytes) : Bytes := [0x60] ++ btEscape t ++ [0x60]

theorem lex_jsonLit (t : Bytes) (h : JBody t) :
    lexAll (jsonLit t) = ([⟨.jsonLiteral, jsonLit t⟩, ⟨.end, []⟩], none) :=
  lexAll_single 0x60 _ (by omega) (by decide) _ (lexToken_json (body_btEscape h))

theorem parseJSONLiteral_jsonLit (t : Bytes) (v : Val) (hd : Json.decode t = some v) :
    parseJSONLiteral (jsonLit t) = some v := by
  unfold parseJSONLiteral
  rw [jsonLit, stripDelims_wrap, unescapeBackticks_btEscape]
  cases t with
  | nil => exact absurd hd (by rw [show Json.decode [] = none from rfl]; simp)
  | cons b t => simpa using hd

/-- C16 (JSON literal, general form): whatever Go's decoder (with `UseNumber`) makes of the JSON text `t`, the
    expression `` `t` `` (backticks in `t` escaped) evaluates to exactly that value -/
theorem json_literal_roundtrip (t : Bytes) (v d : Val) (hb : JBody t) (hd : Json.decode t = some v) :
    search (jsonLit t) d = .ok v := by
  rw [search_single (jsonLit t) _ _ d (lex_jsonLit t hb)
    (fun f => prim_json f _ _ (parseJSONLiteral_jsonLit t v hd))]
  rfl

theorem NumChar.ascii {b : Nat} (h : NumChar b) : b < 0x80 ∧ b ≠ 0x5C := by
  unfold NumChar at h; omega

theorem numChars_of_valid (t : Bytes) (h : Json.isValidNumber t = true) : ∀ b ∈ t, NumChar b := by
  unfold Json.isValidNumber at h
  split at h
  · rename_i n hn
    obtain ⟨h1, h2, _⟩ := parseNumberTok_spec _ _ _ hn
    have : t = n := by simpa using h1
    subst this; exact h2
  · cases h

/-- C16 (numbers keep full precision): a valid JSON number between backticks is the `json.Number` with that very
    spelling -/
theorem json_number_verbatim (t : Bytes) (h : Json.isValidNumber t = true) :
    parseJSONLiteral ([0x60] ++ t ++ [0x60]) = some (.num (.jnum t)) :=
  parseJSONLiteral_number t h

theorem btEscape_number (t : Bytes) (h : Json.isValidNumber t = true) : btEscape t = t :=
  flatMap_id_of _ (fun b hb => btEscByte_id b (by have := numChars_of_valid t h b hb; unfold NumChar at this; omega))

theorem json_number_roundtrip (t : Bytes) (d : Val) (h : Json.isValidNumber t = true) :
    search ([0x60] ++ t ++ [0x60]) d = .ok (.num (.jnum t)) := by
  have := json_literal_roundtrip t _ d (JBody.ascii t (fun b hb => NumChar.ascii (numChars_of_valid t h b hb)))
    (decode_number t h)
  rwa [jsonLit, btEscape_number t h] at this

example : parseJSONLiteral [0x60, 0x31, 0x2E, 0x30, 0x30, 0x60] = some (.num (.jnum [0x31, 0x2E, 0x30, 0x30])) :=
  json_number_verbatim [0x31, 0x2E, 0x30, 0x30] (by decide)

/-- `1.501234567890123456789e+300000`: nothing is rounded or normalised -/
def bigNum : Bytes := [0x31, 0x2E, 0x35, 0x30, 0x31, 0x32, 0x33, 0x34, 0x35, 0x36, 0x37, 0x38, 0x39, 0x30, 0x31,
  0x32, 0x33, 0x34, 0x35, 0x36, 0x37, 0x38, 0x39, 0x65, 0x2B, 0x33, 0x30, 0x30, 0x30, 0x30, 0x30]

example : search ([0x60] ++ bigNum ++ [0x60]) .null = .ok (.num (.jnum bigNum)) :=
  json_number_roundtrip bigNum _ (by decide)

/-- nested value: `` `{"a`":[1.0,null,{"b":true}],"c":"x"}` `` with the backtick in the key escaped -/
example : search (jsonLit [0x7B, 0x22, 0x61, 0x60, 0x22, 0x3A, 0x5B, 0x31, 0x2E, 0x30, 0x2C, 0x6E, 0x75, 0x6C, 0x6C,
      0x2C, 0x7B, 0x22, 0x62, 0x22, 0x3A, 0x74, 0x72, 0x75, 0x65, 0x7D, 0x5D, 0x2C, 0x22, 0x63, 0x22, 0x3A, 0x22,
      0x78, 0x22, 0x7D]) .null
    = .ok (.obj [([0x61, 0x60], .arr .plain [.num (.jnum [0x31, 0x2E, 0x30]), .null, .obj [([0x62], .bool true)]]),
                 ([0x63], .str [0x78])]) :=
  json_literal_roundtrip _ _ _ (JBody.ascii _ (by decide)) (by rfl)

/-! ## 8. arrays of scalar JSON values -/

/-- a scalar JSON value, specification side -/
inductive Leaf where
  | null | bool (b : Bool) | num (t : Bytes) | str (s : Bytes)

/-- numbers are valid JSON number tokens, strings valid UTF-8 -/
def Leaf.ok : Leaf → Prop
  | .num t => Json.isValidNumber t = true
  | .str s => validUTF8 s = true
  | _ => True

def Leaf.text : Leaf → Bytes
  | .null => [0x6E, 0x75, 0x6C, 0x6C]
  | .bool true => [0x74, 0x72, 0x75, 0x65]
  | .bool false => [0x66, 0x61, 0x6C, 0x73, 0x65]
  | .num t => t
  | .str s => jsonText s

def Leaf.val : Leaf → Val
  | .null => .null
  | .bool b => .bool b
  | .num t => .num (.jnum t)
  | .str s => .str s

/-- comma-separated, no white space -/
def renderElems : List Leaf → Bytes
  | [] => []
  | [l] => l.text
  | l :: l' :: ls => l.text ++ 0x2C :: renderElems (l' :: ls)

def renderArr (ls : List Leaf) : Bytes := 0x5B :: (renderElems ls ++ [0x5D])

theorem Leaf.parse (l : Leaf) (hl : l.ok) (f d sep : Nat) (rest : Bytes) (hsep : sep = 0x2C ∨ sep = 0x5D) :
    Json.parseValue (f + 1) d (l.text ++ sep :: rest) = some (l.val, sep :: rest) := by
  cases l with
  | null => exact parseValue_null f d _
  | bool b => cases b; exact parseValue_false f d _; exact parseValue_true f d _
  | num t =>
    refine parseValue_number_ext f d t _ hl (Stop.cons ?_)
    unfold NumChar; omega
  | str s =>
    obtain ⟨cs, hs, rfl⟩ := (validUTF8_iff s).1 hl
    show Json.parseValue (f + 1) d (([0x22] ++ escQ (encodeAll cs) ++ [0x22]) ++ sep :: rest) = _
    have e : ([0x22] ++ escQ (encodeAll cs) ++ [0x22]) ++ sep :: rest
        = 0x22 :: (escQ (encodeAll cs) ++ 0x22 :: (sep :: rest)) := by simp
    rw [e, parseValue_string, psb_escQ cs hs _ [] (sep :: rest) (by simp; omega)]
    rfl

theorem Leaf.head (l : Leaf) (hl : l.ok) : ∃ b t, l.text = b :: t ∧ Json.isWs b = false ∧ b ≠ 0x5D := by
  cases l with
  | null => exact ⟨_, _, rfl, by decide, by decide⟩
  | bool b => cases b <;> exact ⟨_, _, rfl, by decide, by decide⟩
  | num t =>
    have hl' : Json.isValidNumber t = true := hl
    unfold Json.isValidNumber at hl'
    split at hl'
    · rename_i n hn
      obtain ⟨_, _, b, t', rfl, hb⟩ := parseNumberTok_spec _ _ _ hn
      refine ⟨b, t', rfl, ?_, by omega⟩
      simp [Json.isWs]; omega
    · cases hl'
  | str s => exact ⟨0x22, escQ s ++ [0x22], by simp [Leaf.text, jsonText], by decide, by decide⟩

theorem renderElems_cons2 (l l' : Leaf) (ls : List Leaf) :
    renderElems (l :: l' :: ls) = l.text ++ 0x2C :: renderElems (l' :: ls) := rfl

theorem renderElems_length : ∀ ls : List Leaf, (∀ l ∈ ls, l.ok) → ls.length ≤ (renderElems ls).length
  | [], _ => by simp
  | [l], h => by
    obtain ⟨b, t, e, _⟩ := l.head (h l (List.mem_cons_self))
    simp [renderElems, e]
  | l :: l' :: ls, h => by
    have ih := renderElems_length (l' :: ls) (fun x hx => h x (List.mem_cons_of_mem _ hx))
    rw [renderElems_cons2]
    simp only [List.length_append, List.length_cons] at ih ⊢
    omega

theorem parseElems_render : ∀ (ls : List Leaf), ls ≠ [] → (∀ l ∈ ls, l.ok) →
    ∀ (f d : Nat) (accv : List Val) (rest : Bytes), ls.length + 1 ≤ f →
      Json.parseElems f d (renderElems ls ++ 0x5D :: rest) accv = some (accv ++ ls.map Leaf.val, rest)
  | [], h, _, _, _, _, _, _ => absurd rfl h
  | [l], _, hok, f, d, accv, rest, hf => by
    match f, hf with
    | f + 2, _ =>
      exact parseElems_last (f + 1) d _ accv _ rest
        (l.parse (hok l (List.mem_cons_self)) f d 0x5D rest (Or.inr rfl))
  | l :: l' :: ls, _, hok, f, d, accv, rest, hf => by
    simp only [List.length_cons] at hf
    match f, hf with
    | f + 2, hf =>
      rw [renderElems_cons2, List.append_assoc, List.cons_append,
        parseElems_more (f + 1) d _ accv _ _ (l.parse (hok l (List.mem_cons_self)) f d 0x2C _ (Or.inl rfl)),
        parseElems_render (l' :: ls) (by simp) (fun x hx => hok x (List.mem_cons_of_mem _ hx)) (f + 1) d _ rest
          (by simp only [List.length_cons]; omega)]
      simp

/-- Go's decoder reads the rendering of an array of scalars back as that array, numbers verbatim -/
theorem decode_renderArr (ls : List Leaf) (hok : ∀ l ∈ ls, l.ok) :
    Json.decode (renderArr ls) = some (.arr .plain (ls.map Leaf.val)) := by
  cases ls with
  | nil => rfl
  | cons l ls =>
    have hlen := renderElems_length (l :: ls) hok
    obtain ⟨b, t, e, hw, hb⟩ : ∃ b t, renderElems (l :: ls) = b :: t ∧ Json.isWs b = false ∧ b ≠ 0x5D := by
      obtain ⟨b, t, e, hw, hb⟩ := l.head (hok l (List.mem_cons_self))
      cases ls with
      | nil => exact ⟨b, t, e, hw, hb⟩
      | cons l' ls => exact ⟨b, t ++ 0x2C :: renderElems (l' :: ls), by rw [renderElems_cons2, e]; rfl, hw, hb⟩
    unfold Json.decode
    obtain ⟨k, hk⟩ : ∃ k, 2 * (renderArr (l :: ls)).length + 2 = k + 1 := ⟨_, rfl⟩
    have hk' : (l :: ls).length + 1 ≤ k := by
      simp only [renderArr, List.length_cons, List.length_append, List.length_nil] at hk hlen ⊢; omega
    rw [hk]
    have e2 : renderArr (l :: ls) = 0x5B :: b :: (t ++ [0x5D]) := by simp [renderArr, e]
    have e3 : b :: (t ++ [0x5D]) = renderElems (l :: ls) ++ 0x5D :: [] := by simp [e]
    rw [e2, parseValue_arr k 0 b _ (by decide) hw hb, e3,
      parseElems_render (l :: ls) (by simp) hok k 1 [] [] hk']
    simp [Json.skipWs]

theorem JBody.append {a b : Bytes} (ha : JBody a) (hb : JBody b) : JBody (a ++ b) := by
  induction ha with
  | nil => exact hb
  | plain c w h1 h2 _ ih => rw [List.append_assoc]; exact JBody.plain c _ h1 h2 ih
  | esc c w h1 h2 _ ih => rw [List.cons_append, List.append_assoc]; exact JBody.esc c _ h1 h2 ih

theorem JBody.plain1 (c : Nat) (hc : c < 0x80) (h2 : c ≠ 0x5C) {w : Bytes} (hw : JBody w) : JBody (c :: w) := by
  have := JBody.plain c w (isScalar_ascii c hc) h2 hw
  rwa [encodeRune_ascii c hc] at this

theorem JBody.esc1 (c : Nat) (hc : c < 0x80) (h2 : c ≠ 0x60) {w : Bytes} (hw : JBody w) :
    JBody (0x5C :: c :: w) := by
  have := JBody.esc c w (isScalar_ascii c hc) h2 hw
  rwa [encodeRune_ascii c hc] at this

theorem jbody_escQ : ∀ cs : List Nat, Scalars cs → JBody (escQ (encodeAll cs))
  | [], _ => JBody.nil
  | c :: cs, h => by
    have ih := jbody_escQ cs h.tail
    rw [encodeAll_cons, escQ_append]
    by_cases hc : c < 0x80
    · rw [encodeRune_ascii c hc]
      have e : escQ [c] = qEscByte c := by simp [escQ]
      rw [e]; unfold qEscByte
      by_cases h1 : c = 0x22
      · subst h1; exact JBody.esc1 0x22 (by omega) (by omega) ih
      · by_cases h2 : c = 0x5C
        · subst h2; exact JBody.esc1 0x5C (by omega) (by omega) ih
        · by_cases h3 : c < 0x20
          · simp only [h1, h2, h3, if_false, if_true]
            have a1 := hexLower_lt (c / 16) (by omega)
            have a2 := hexLower_lt (c % 16) (by omega)
            refine JBody.esc1 0x75 (by omega) (by omega) ?_
            refine JBody.plain1 0x30 (by omega) (by omega) ?_
            refine JBody.plain1 0x30 (by omega) (by omega) ?_
            refine JBody.plain1 _ (by omega) (by omega) ?_
            exact JBody.plain1 _ (by omega) (by omega) ih
          · simp only [h1, h2, h3, if_false]; exact JBody.plain1 c hc h2 ih
    · have e : escQ (encodeRune c) = encodeRune c :=
        flatMap_id_of _ (fun b hb => qEscByte_hi b (encodeRune_bytes_ge c (by omega) b hb))
      rw [e]
      exact JBody.plain c _ h.head (by omega) ih

theorem Leaf.jbody (l : Leaf) (hl : l.ok) : JBody l.text := by
  cases l with
  | null => exact JBody.ascii _ (by decide)
  | bool b => cases b <;> exact JBody.ascii _ (by decide)
  | num t => exact JBody.ascii t (fun b hb => NumChar.ascii (numChars_of_valid t hl b hb))
  | str s =>
    obtain ⟨cs, hs, rfl⟩ := (validUTF8_iff s).1 hl
    exact JBody.append (JBody.append (JBody.plain1 0x22 (by omega) (by omega) JBody.nil) (jbody_escQ cs hs))
      (JBody.plain1 0x22 (by omega) (by omega) JBody.nil)

theorem jbody_renderElems : ∀ ls : List Leaf, (∀ l ∈ ls, l.ok) → JBody (renderElems ls)
  | [], _ => JBody.nil
  | [l], h => (l.jbody (h l (List.mem_cons_self)))
  | l :: l' :: ls, h => by
    rw [renderElems_cons2]
    exact JBody.append (l.jbody (h l (List.mem_cons_self)))
      (JBody.plain1 0x2C (by omega) (by omega)
        (jbody_renderElems (l' :: ls) (fun x hx => h x (List.mem_cons_of_mem _ hx))))

/-- C16 (JSON literal, arrays): an array of scalars — strings with any content, numbers with any spelling —
    written between backticks evaluates to the array of those values, numbers kept verbatim -/
theorem json_array_roundtrip (ls : List Leaf) (d : Val) (hok : ∀ l ∈ ls, l.ok) :
    search (jsonLit (renderArr ls)) d = .ok (.arr .plain (ls.map Leaf.val)) :=
  json_literal_roundtrip _ _ d
    (JBody.plain1 0x5B (by omega) (by omega)
      (JBody.append (jbody_renderElems ls hok) (JBody.plain1 0x5D (by omega) (by omega) JBody.nil)))
    (decode_renderArr ls hok)

/-- `` `[1.10,"a\`\\",null,true]` `` -/
example : search (jsonLit (renderArr [.num [0x31, 0x2E, 0x31, 0x30], .str [0x61, 0x60, 0x5C], .null, .bool true])) .null
    = .ok (.arr .plain [.num (.jnum [0x31, 0x2E, 0x31, 0x30]), .str [0x61, 0x60, 0x5C], .null, .bool true]) :=
  json_array_roundtrip _ _ (by
    intro l hl
    simp only [List.mem_cons, List.not_mem_nil, or_false] at hl
    rcases hl with rfl | rfl | rfl | rfl
    · show Json.isValidNumber _ = true; decide
    · show validUTF8 _ = true; decide
    · trivial
    · trivial)

end Jmes.C16
