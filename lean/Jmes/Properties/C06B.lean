/-
  C06, supplementary: `MustCompile` and the compiled-expression entry point.
-/
import Jmes.Model.Must
import Jmes.Proofs.Fuel
import Jmes.Properties.C04G
namespace Jmes.C06B
open Jmes

/-- **MustCompile panics exactly when Compile fails** (for every expression text) -/
theorem mustCompile_panics_iff (e : Bytes) :
    (∃ m, mustCompile e = .panic m) ↔ (∃ x, compile e = .error x) := by
  unfold mustCompile compile
  have hf := Jmes.Fuel.fuel_sufficient e
  cases h : Parser.parse e with
  | ok n => simp
  | error x =>
    cases x <;> simp_all

/-- …and otherwise returns the node `Compile` returns -/
theorem mustCompile_ok_iff (e : Bytes) (n : INode) : mustCompile e = .ok n ↔ compile e = .ok n := by
  unfold mustCompile compile
  cases h : Parser.parse e with
  | ok m => simp
  | error x => cases x <;> simp

/-- a compiled expression applied to a document is the one-shot search of its text on that document, whatever it was
    applied to before (the model has no state to carry: this is what `Tie.effects_private`, `Tie.extcalls_safe`,
    `Tie.expression_fields` and `Tie.entry_point_calls` tie to the Go code) -/
theorem compiled_search_eq (e : Bytes) (n : INode) (h : compile e = .ok n) (d : Val) :
    exprSearch n d = search e d := by
  unfold exprSearch search
  unfold compile at h
  rw [h]

/-- any sequence of documents: the k-th answer of a compiled expression depends on the k-th document only -/
theorem history_free (e : Bytes) (n : INode) (h : compile e = .ok n) (ds : List Val) :
    ds.map (exprSearch n) = ds.map (search e) := by
  apply List.map_congr_left
  intro d _
  exact compiled_search_eq e n h d

/-- `MustCompile("a b")` panics -/
example : ∃ m, mustCompile (Grammar.Ex.bs "a b") = .panic m := by
  rw [mustCompile_panics_iff]; exact ⟨_, C04G.ab_rejected⟩

end Jmes.C06B
