/-
  C19 — lexical scoping of `let`.

  "For all expressions, a variable reference yields the value its nearest enclosing let bound to that name, evaluated
  once in the context and scope where the let stands; bindings of one let do not see each other, inner lets shadow
  outer ones only within their body, and the binding is visible unchanged inside projections, filters, pipes and
  expression references in the body. A reference with no enclosing binding is an undefined-variable error."

  a. `var_bound`, `var_unbound`, `undefined_iff`, `undefined_toplevel`
  b. `let_binds_outer`, `let_fails`, `ievalFields_ok`, `let_eval`, `bindings_sorted`
  c. `let_lookup_bound`, `let_lookup_other`, `let_lookup`
  d. `shadow_local_binop`, `shadow_local_and`, `shadow_local_pipe`  (+ the worked example)
  e. `let_subst` (substitution lemma), `let_subst_strong`, `env_ext`, and the per-construct corollaries `visible_*`
  f. `let_once`, `let_once_env`

  The mutual inductions live in Jmes/Proofs/Scope.lean.
-/
import Jmes.Proofs.Scope
namespace Jmes.C19

/-- `$x` -/
def dx : Bytes := [0x24, 0x78]
/-- `$y` -/
def dy : Bytes := [0x24, 0x79]
/-- the JSON numbers 0, 1, 2 as literals produce them -/
def n0 : Val := .num (.jnum [0x30])
def n1 : Val := .num (.jnum [0x31])
def n2 : Val := .num (.jnum [0x32])

/-! ## a. variable references -/

theorem var_bound {root cur : Val} {env : Env} {x : Bytes} {v : Val} (h : env.get x = some v) :
    ieval root (.variable x) cur env = .ok v := by
  simp only [ieval, h]

theorem var_unbound {root cur : Val} {env : Env} {x : Bytes} (h : env.get x = none) :
    ieval root (.variable x) cur env = .err [Cat.undefinedVariable] := by
  simp only [ieval, h]

/-- a reference fails — with exactly the undefined-variable category — iff no enclosing binding exists -/
theorem undefined_iff (root cur : Val) (env : Env) (x : Bytes) :
    ieval root (.variable x) cur env = .err [Cat.undefinedVariable] ↔ env.get x = none := by
  constructor
  · intro h
    cases hg : env.get x with
    | none => rfl
    | some v => rw [var_bound hg] at h; cases h
  · exact var_unbound

/-- a reference never fails in any other way, and never panics -/
theorem var_cases (root cur : Val) (env : Env) (x : Bytes) :
    (∃ v, env.get x = some v ∧ ieval root (.variable x) cur env = .ok v) ∨
    (env.get x = none ∧ ieval root (.variable x) cur env = .err [Cat.undefinedVariable]) := by
  cases hg : env.get x with
  | none => exact Or.inr ⟨rfl, var_unbound hg⟩
  | some v => exact Or.inl ⟨v, rfl, var_bound hg⟩

/-- at top level (`Evaluate` starts with no bindings) every bare reference is undefined -/
theorem undefined_toplevel (x : Bytes) (data : Val) : evaluate (.variable x) data = .err [Cat.undefinedVariable] := by
  simp only [evaluate, ieval, Env.get, objLookup]

example : ieval .null (.variable dx) .null [(dx, n1)] = .ok n1 := var_bound (by simp [Env.get, objLookup])
example : ieval .null (.variable dy) .null [(dx, n1)] = .err [Cat.undefinedVariable] :=
  var_unbound (by simp [Env.get, objLookup, dx, dy])
example : evaluate (.variable dx) (.obj [(dx, n1)]) = .err [Cat.undefinedVariable] := undefined_toplevel _ _

/-! ## b. a let evaluates its bindings where it stands -/

/-- the body runs with the new bindings prepended to the *unchanged* outer environment, on the same current value -/
theorem let_binds_outer {root cur : Val} {env : Env} {vars : List (Bytes × INode)} {bs : List (Bytes × Val)}
    (child : INode) (h : ievalFields root vars cur env = .ok bs) :
    ieval root (.defineVariables vars child) cur env = ieval root child cur (bs ++ env) := by
  simp only [ieval, h, Res.ok_bind]

/-- if some binding fails, the let fails the same way and the body is not evaluated -/
theorem let_fails {root cur : Val} {env : Env} {vars : List (Bytes × INode)} (child : INode)
    (h : ∀ bs, ievalFields root vars cur env ≠ .ok bs) :
    (∃ cs, ieval root (.defineVariables vars child) cur env = .err cs ∧ ievalFields root vars cur env = .err cs) ∨
    (∃ w, ieval root (.defineVariables vars child) cur env = .panic w) ∨
    ieval root (.defineVariables vars child) cur env = .nondet ∨
    (∃ w, ieval root (.defineVariables vars child) cur env = .unmodelled w) := by
  simp only [ieval]
  cases hb : ievalFields root vars cur env with
  | ok bs => exact absurd hb (h bs)
  | err cs => exact Or.inl ⟨cs, rfl, rfl⟩
  | panic w => exact Or.inr (Or.inl ⟨w, rfl⟩)
  | nondet => exact Or.inr (Or.inr (Or.inl rfl))
  | unmodelled w => exact Or.inr (Or.inr (Or.inr ⟨w, rfl⟩))

/-- **Characterisation of the bindings.**  `ievalFields … = .ok bs` iff every binding expression `e_i` evaluates —
    on the let's own current value `cur` and in the *outer* environment `env`, never in `bs ++ env` — to some `v_i`
    (`EvalAll`), and `bs` is the `objInsert`-fold of the pairs `(x_i, v_i)`. -/
theorem ievalFields_ok (root : Val) (vars : List (Bytes × INode)) (cur : Val) (env : Env) (bs : List (Bytes × Val)) :
    ievalFields root vars cur env = .ok bs ↔ ∃ kvs, EvalAll root cur env vars kvs ∧ bs = insertAll kvs :=
  ievalFields_ok_iff root vars cur env bs

/-- `EvalAll` spelled out (inversion lemmas): same names in the same order, member-wise evaluation in `env` at `cur` -/
theorem evalAll_nil_iff (root cur : Val) (env : Env) (kvs : List (Bytes × Val)) :
    EvalAll root cur env [] kvs ↔ kvs = [] := by
  constructor
  · intro h; cases h; rfl
  · rintro rfl; exact .nil

theorem evalAll_cons_iff (root cur : Val) (env : Env) (k : Bytes) (n : INode) (vars : List (Bytes × INode))
    (kvs : List (Bytes × Val)) :
    EvalAll root cur env ((k, n) :: vars) kvs ↔
      ∃ v kvs', ieval root n cur env = .ok v ∧ EvalAll root cur env vars kvs' ∧ kvs = (k, v) :: kvs' := by
  constructor
  · intro h
    cases h with
    | cons h1 h2 => exact ⟨_, _, h1, h2, rfl⟩
  · rintro ⟨v, kvs', h1, h2, rfl⟩
    exact .cons h1 h2

/-- every bound value is the value of one of the let's binding expressions *in the outer environment* -/
theorem evalAll_mem {root cur : Val} {env : Env} {vars : List (Bytes × INode)} {kvs : List (Bytes × Val)}
    (h : EvalAll root cur env vars kvs) {x : Bytes} {v : Val} (hm : (x, v) ∈ kvs) :
    ∃ e, (x, e) ∈ vars ∧ ieval root e cur env = .ok v := by
  induction h with
  | nil => cases hm
  | cons h1 _ ih =>
    rcases List.mem_cons.mp hm with hm | hm
    · cases hm
      exact ⟨_, List.mem_cons_self, h1⟩
    · obtain ⟨e, he, hv⟩ := ih hm
      exact ⟨e, List.mem_cons_of_mem _ he, hv⟩

/-- and conversely every binding expression contributed its value -/
theorem evalAll_mem' {root cur : Val} {env : Env} {vars : List (Bytes × INode)} {kvs : List (Bytes × Val)}
    (h : EvalAll root cur env vars kvs) {x : Bytes} {e : INode} (hm : (x, e) ∈ vars) :
    ∃ v, (x, v) ∈ kvs ∧ ieval root e cur env = .ok v := by
  induction h with
  | nil => cases hm
  | cons h1 _ ih =>
    rcases List.mem_cons.mp hm with hm | hm
    · cases hm
      exact ⟨_, List.mem_cons_self, h1⟩
    · obtain ⟨v, hv, he⟩ := ih hm
      exact ⟨v, List.mem_cons_of_mem _ hv, he⟩

/-- the let, given the values of its bindings -/
theorem let_eval {root cur : Val} {env : Env} {vars : List (Bytes × INode)} {kvs : List (Bytes × Val)}
    (child : INode) (h : EvalAll root cur env vars kvs) :
    ieval root (.defineVariables vars child) cur env = ieval root child cur (insertAll kvs ++ env) :=
  let_binds_outer child ((ievalFields_ok root vars cur env _).mpr ⟨kvs, h, rfl⟩)

/-- the new bindings form a strictly key-sorted (so duplicate-free) association list -/
theorem bindings_sorted {root cur : Val} {env : Env} {vars : List (Bytes × INode)} {bs : List (Bytes × Val)}
    (h : ievalFields root vars cur env = .ok bs) : KeySorted bs := by
  obtain ⟨kvs, _, rfl⟩ := (ievalFields_ok root vars cur env bs).mp h
  exact KeySorted_insertAll kvs

theorem objInsert_perm (k : Bytes) (v : Val) : ∀ {l : List (Bytes × Val)}, k ∉ l.map Prod.fst →
    (objInsert k v l).Perm ((k, v) :: l)
  | [], _ => List.Perm.refl _
  | (k', v') :: rest, h => by
    simp only [List.map_cons, List.mem_cons, not_or] at h
    simp only [objInsert, h.1, if_false]
    by_cases h2 : bytesLt k k' = true
    · simp only [h2, if_true]; exact List.Perm.refl _
    · rw [if_neg h2]
      exact ((objInsert_perm k v h.2).cons (k', v')).trans (List.Perm.swap _ _ _)

theorem insertAll_perm : ∀ {kvs : List (Bytes × Val)}, (kvs.map Prod.fst).Nodup → (insertAll kvs).Perm kvs
  | [], _ => List.Perm.refl _
  | (k, v) :: kvs, h => by
    simp only [List.map_cons, List.nodup_cons] at h
    have hk : k ∉ (insertAll kvs).map Prod.fst := by
      rw [← objLookup_eq_none_iff, objLookup_insertAll, objLookup_eq_none_iff]
      exact h.1
    exact (objInsert_perm k v hk).trans ((insertAll_perm h.2).cons _)

/-- with distinct names, the new bindings are exactly the pairs `(x_i, v_i)`, rearranged in key order -/
theorem bindings_perm {root cur : Val} {env : Env} {vars : List (Bytes × INode)} {kvs : List (Bytes × Val)}
    (h : EvalAll root cur env vars kvs) (hnd : (vars.map Prod.fst).Nodup) :
    ievalFields root vars cur env = .ok (insertAll kvs) ∧ (insertAll kvs).Perm kvs ∧ KeySorted (insertAll kvs) :=
  ⟨(ievalFields_ok root vars cur env _).mpr ⟨kvs, h, rfl⟩, insertAll_perm (h.names ▸ hnd), KeySorted_insertAll kvs⟩

example : insertAll [(dy, n1), (dx, n2)] = [(dx, n2), (dy, n1)] := by
  simp [insertAll, objInsert, dx, dy, bytesLt]

/-- the names bound are exactly the names written in the let -/
theorem bindings_names {root cur : Val} {env : Env} {vars : List (Bytes × INode)} {bs : List (Bytes × Val)}
    (h : ievalFields root vars cur env = .ok bs) (x : Bytes) :
    (∃ v, objLookup x bs = some v) ↔ x ∈ vars.map Prod.fst := by
  have := ievalFields_lookup_none h x
  cases hl : objLookup x bs with
  | none => rw [hl] at this; simp only [true_iff] at this; simp [this]
  | some v =>
    rw [hl] at this
    simp only [reduceCtorEq, false_iff, Classical.not_not] at this
    simp [this]

/-- bindings of one let do not see each other: `let $x = 1, $y = $x in $y` with no outer `$x` is an
    undefined-variable error … -/
example : ieval .null (.defineVariables [(dx, .lit n1), (dy, .variable dx)] (.variable dy)) .null []
    = .err [Cat.undefinedVariable] := by
  simp [ieval, ievalFields, combineUnordered, Env.get, objLookup]

/-- … and with an outer `$x = 0` the inner `$y` gets the *outer* value 0, not 1 -/
example : ieval .null (.defineVariables [(dx, .lit n1), (dy, .variable dx)] (.variable dy)) .null [(dx, n0)]
    = .ok n0 := by
  simp [ieval, ievalFields, combineUnordered, Env.get, objLookup, objInsert, dx, dy, bytesLt]

/-- the binding expression is evaluated on the let's current value, not on the element where it is later used:
    `let $x = @ in [1,2][*].$x`-style — here: `let $x = @ in (`2` | $x)` on current value 1 gives 1 -/
example : ieval .null (.defineVariables [(dx, .current)] (.pipe (.lit n2) (.variable dx))) n1 [] = .ok n1 := by
  simp [ieval, ievalFields, combineUnordered, Env.get, objLookup, objInsert]

/-! ## c. what a reference sees inside the body -/

/-- general form: the body's environment looks `x` up among this let's raw bindings first, then outside -/
theorem let_lookup (kvs : List (Bytes × Val)) (env : Env) (x : Bytes) :
    Env.get (insertAll kvs ++ env) x = (objLookup x kvs).or (env.get x) := by
  simp only [Env.get]
  rw [objLookup_append, objLookup_insertAll]
  cases objLookup x kvs <;> rfl

/-- with distinct names, `x_i` is bound to `v_i` (inner shadows outer: `env` is not consulted) -/
theorem let_lookup_bound {kvs : List (Bytes × Val)} (env : Env) {x : Bytes} {v : Val}
    (hnd : (kvs.map Prod.fst).Nodup) (hm : (x, v) ∈ kvs) :
    Env.get (insertAll kvs ++ env) x = some v := by
  rw [let_lookup, objLookup_of_mem_nodup hnd hm]; rfl

/-- every other name keeps its outer binding (or stays unbound) -/
theorem let_lookup_other (kvs : List (Bytes × Val)) (env : Env) {y : Bytes} (hy : y ∉ kvs.map Prod.fst) :
    Env.get (insertAll kvs ++ env) y = env.get y := by
  rw [let_lookup, (objLookup_eq_none_iff y kvs).mpr hy]; rfl

/-- the two together, phrased on the evaluator: inside the body, `$x_i` is `v_i` and `$y` is whatever it was outside -/
theorem let_var {root cur : Val} {env : Env} {vars : List (Bytes × INode)} {kvs : List (Bytes × Val)}
    (h : EvalAll root cur env vars kvs) (hnd : (vars.map Prod.fst).Nodup) :
    (∀ x v, (x, v) ∈ kvs → ieval root (.defineVariables vars (.variable x)) cur env = .ok v) ∧
    (∀ y, y ∉ vars.map Prod.fst →
      ieval root (.defineVariables vars (.variable y)) cur env = ieval root (.variable y) cur env) := by
  constructor
  · intro x v hm
    rw [let_eval _ h]
    exact var_bound (let_lookup_bound env (h.names ▸ hnd) hm)
  · intro y hy
    rw [let_eval _ h]
    simp only [ieval, let_lookup_other kvs env (h.names ▸ hy)]

example : ieval .null (.defineVariables [(dx, .lit n1)] (.variable dy)) .null [(dy, n2)] = .ok n2 := by
  simp [ieval, ievalFields, combineUnordered, Env.get, objLookup, objInsert, dx, dy]
example : ieval .null (.defineVariables [(dx, .lit n1)] (.variable dx)) .null [(dx, n2)] = .ok n1 := by
  simp [ieval, ievalFields, combineUnordered, Env.get, objLookup, objInsert]

/-! ## d. a let changes nothing outside its body -/

/-- the right operand of a binary operator is evaluated in the operator's own environment, whatever the left
    operand bound -/
theorem shadow_local_binop (root cur : Val) (env : Env) (op : BinOp) (vars : List (Bytes × INode)) (b c : INode) :
    ieval root (.binop op (.defineVariables vars b) c) cur env =
      (ieval root (.defineVariables vars b) cur env >>= fun a => ieval root c cur env >>= fun b' => applyBinOp op a b') := by
  simp only [ieval]

theorem shadow_local_and (root cur : Val) (env : Env) (vars : List (Bytes × INode)) (b c : INode) :
    ieval root (.and (.defineVariables vars b) c) cur env =
      (ieval root (.defineVariables vars b) cur env >>= fun a => if !isTrue a then pure a else ieval root c cur env) := by
  simp only [ieval]

theorem shadow_local_pipe (root cur : Val) (env : Env) (vars : List (Bytes × INode)) (b c : INode) :
    ieval root (.pipe (.defineVariables vars b) c) cur env =
      (ieval root (.defineVariables vars b) cur env >>= fun a => ieval root c a env) := by
  simp only [ieval]

/-- after a let, a reference to its variable sees the outer binding (or none) -/
theorem shadow_local_var (root cur : Val) (env : Env) (vars : List (Bytes × INode)) (b : INode) (x : Bytes) :
    ieval root (.and (.defineVariables vars b) (.variable x)) cur env =
      (ieval root (.defineVariables vars b) cur env >>= fun a =>
        if !isTrue a then pure a else
          (match env.get x with | some v => .ok v | none => .err [Cat.undefinedVariable])) := by
  simp only [ieval]
  rfl

/-- `let $x = `1` in (let $x = `2` in $x) && $x` is 1: the inner binding (2, truthy) is gone after its body -/
example : ieval .null
    (.defineVariables [(dx, .lit n1)]
      (.and (.defineVariables [(dx, .lit n2)] (.variable dx)) (.variable dx))) .null [] = .ok n1 := by
  simp [ieval, ievalFields, combineUnordered, Env.get, objLookup, objInsert, isTrue, n2]

/-- … while the inner body itself sees 2 -/
example : ieval .null
    (.defineVariables [(dx, .lit n1)] (.defineVariables [(dx, .lit n2)] (.variable dx))) .null [] = .ok n2 := by
  simp [ieval, ievalFields, combineUnordered, Env.get, objLookup, objInsert]

/-! ## e. the binding is visible, unchanged, everywhere in the body -/

/-- **Substitution lemma** (full-strength lexical scoping): if `x` is bound to `v`, replacing every free `$x` of `n`
    by the literal `v` — inside projections, filters, pipes, multi-selects, `&expr` arguments of `map`/`sort_by`/…,
    and the binding expressions of inner lets, stopping only at the body of a let that rebinds `x` — does not change
    the outcome. -/
theorem let_subst {root : Val} {env : Env} {x : Bytes} {v : Val} (h : env.get x = some v) (n : INode) (cur : Val) :
    ieval root n cur env = ieval root (n.subst x v) cur env :=
  (ieval_subst root x v n cur env h).symm

/-- after substitution the binding is not consulted any more -/
theorem let_subst_strong {root : Val} {env env' : Env} {x : Bytes} {v : Val} (h : env.get x = some v)
    (h' : ∀ y, y ≠ x → env'.get y = env.get y) (n : INode) (cur : Val) :
    ieval root n cur env = ieval root (n.subst x v) cur env' :=
  (ieval_subst_gen root x v n cur env env' h h').symm

/-- only what `Env.get` returns matters -/
theorem env_ext {root : Val} {env env' : Env} (h : ∀ y, env.get y = env'.get y) (n : INode) (cur : Val) :
    ieval root n cur env = ieval root n cur env' :=
  ieval_env_ext root n cur env env' h

section visible
variable {root : Val} {env : Env} {x : Bytes} {v : Val}

/-! per-construct corollaries: under each context-changing construct the reference still yields `v`,
    for every element / new current value -/

theorem visible_projectArrayCurrent (h : env.get x = some v) (cur : Val) :
    ieval root (.projectArrayCurrent (.variable x)) cur env = projectArray (fun _ => .ok v) cur := by
  simp only [ieval, h]

theorem visible_projectArray (h : env.get x = some v) (l : INode) (hl : l.isSlice = false) (cur : Val) :
    ieval root (.projectArray l (.variable x)) cur env =
      (ieval root l cur env >>= fun a => projectArray (fun _ => .ok v) a) := by
  simp only [ieval, h, hl, Bool.false_eq_true, if_false]
  apply Res.bind_congr
  intro a
  cases a <;> rfl

theorem visible_filter (h : env.get x = some v) (c : INode) (cur : Val) :
    ieval root (.filter c (.variable x)) cur env = (ieval root c cur env >>= fun a => filterArray (fun _ => .ok v) a) := by
  simp only [ieval, h]

theorem visible_filterAndProject (h : env.get x = some v) (l : INode) (cur : Val) :
    ieval root (.filterAndProject l (.variable x) (.variable x)) cur env =
      (ieval root l cur env >>= fun a => filterAndProjectArray (fun _ => .ok v) (fun _ => .ok v) a) := by
  simp only [ieval, h]

theorem visible_flattenAndProject (h : env.get x = some v) (l : INode) (cur : Val) :
    ieval root (.flattenAndProject l (.variable x)) cur env =
      (ieval root l cur env >>= fun a => flattenAndProjectArray (fun _ => .ok v) a) := by
  simp only [ieval, h]

theorem visible_projectObject (h : env.get x = some v) (l : INode) (cur : Val) :
    ieval root (.projectObject l (.variable x)) cur env =
      (ieval root l cur env >>= fun a => projectObject (fun _ => .ok v) a) := by
  simp only [ieval, h]

theorem visible_pipe (h : env.get x = some v) (l : INode) (cur : Val) :
    ieval root (.pipe l (.variable x)) cur env = (ieval root l cur env >>= fun _ => .ok v) := by
  simp only [ieval, h]

theorem visible_selectArray (h : env.get x = some v) (c : INode) (cur : Val) :
    ieval root (.selectArray c [.variable x]) cur env =
      (ieval root c cur env >>= fun a => if a.isNull then pure .null else pure (.arr .plain [v])) := by
  simp only [ieval, ievalList, h, Res.ok_bind, Res.pure_eq]

theorem visible_selectObject (h : env.get x = some v) (c : INode) (k : Bytes) (cur : Val) :
    ieval root (.selectObject c [(k, .variable x)]) cur env =
      (ieval root c cur env >>= fun a => if a.isNull then pure .null else pure (.obj [(k, v)])) := by
  simp only [ieval, ievalFields, h, combineUnordered, objInsert, Res.ok_bind, Res.pure_eq]

theorem visible_map (h : env.get x = some v) (a : INode) (cur : Val) :
    ieval root (.map (.variable x) a) cur env = (ieval root a cur env >>= fun arr => mapArray (fun _ => .ok v) arr) := by
  simp only [ieval, h]

theorem visible_sortBy (h : env.get x = some v) (a : INode) (cur : Val) :
    ieval root (.sortBy a (.variable x)) cur env = (ieval root a cur env >>= fun arr => sortArrayBy (fun _ => .ok v) arr) := by
  simp only [ieval, h]

theorem visible_groupBy (h : env.get x = some v) (a : INode) (cur : Val) :
    ieval root (.groupBy a (.variable x)) cur env = (ieval root a cur env >>= fun arr => groupBy (fun _ => .ok v) arr) := by
  simp only [ieval, h]

theorem visible_maxBy (h : env.get x = some v) (a : INode) (cur : Val) :
    ieval root (.maxBy a (.variable x)) cur env = (ieval root a cur env >>= fun arr => arrayMaxBy (fun _ => .ok v) arr) := by
  simp only [ieval, h]

theorem visible_minBy (h : env.get x = some v) (a : INode) (cur : Val) :
    ieval root (.minBy a (.variable x)) cur env = (ieval root a cur env >>= fun arr => arrayMinBy (fun _ => .ok v) arr) := by
  simp only [ieval, h]

/-- the same through the general lemma: a reference nested three constructs deep -/
example (h : env.get x = some v) (a : INode) (cur : Val) :
    ieval root (.map (.pipe (.field [0x61]) (.projectArrayCurrent (.variable x))) a) cur env =
    ieval root (.map (.pipe (.field [0x61]) (.projectArrayCurrent (.lit v))) (a.subst x v)) cur env := by
  rw [let_subst h]
  simp only [INode.subst, if_true]

end visible

/-- `let $x = `1` in [`0`, `0`] | map(&$x, @)`-style: the binding is seen for every element → [1, 1] -/
example : ieval .null (.defineVariables [(dx, .lit n1)] (.projectArrayCurrent (.variable dx)))
    (.arr .plain [n0, n0]) [] = projectArray (fun _ => .ok n1) (.arr .plain [n0, n0]) := by
  rw [let_binds_outer (bs := [(dx, n1)]) _ (by simp [ievalFields, ieval, combineUnordered, objInsert])]
  exact visible_projectArrayCurrent (by simp [Env.get, objLookup]) _

/-! ## f. the bound expression is evaluated once, where the let stands -/

/-- one-binding let, step by step: evaluate `e1` once (here, in `env`, on `cur`), then the body with `x ↦ v` prepended -/
theorem let_once_env (root cur : Val) (env : Env) (x : Bytes) (e1 b : INode) :
    ieval root (.defineVariables [(x, e1)] b) cur env =
      (ieval root e1 cur env >>= fun v => ieval root b cur ((x, v) :: env)) := by
  simp only [ieval, ievalFields, combineUnordered_nil, Res.bind_assoc, Res.ok_bind, List.cons_append, List.nil_append]

/-- **β-reduction.**  A one-binding let is: evaluate `e1` *once* where the let stands, then evaluate the body with
    the resulting value substituted for the variable — in the outer environment; the binding leaves no other trace. -/
theorem let_once (root cur : Val) (env : Env) (x : Bytes) (e1 b : INode) :
    ieval root (.defineVariables [(x, e1)] b) cur env =
      (ieval root e1 cur env >>= fun v => ieval root (b.subst x v) cur env) := by
  rw [let_once_env]
  apply Res.bind_congr
  intro v
  apply let_subst_strong
  · simp [Env.get, objLookup]
  · intro y hy
    simp [Env.get, objLookup, hy]

/-- the weaker form asked for: substitute but keep the extended environment -/
theorem let_once_keep (root cur : Val) (env : Env) (x : Bytes) (e1 b : INode) :
    ieval root (.defineVariables [(x, e1)] b) cur env =
      (ieval root e1 cur env >>= fun v => ieval root (b.subst x v) cur ((x, v) :: env)) := by
  rw [let_once_env]
  apply Res.bind_congr
  intro v
  exact let_subst (by simp [Env.get, objLookup]) b cur

/-- if the bound expression fails, the let fails with the same error, whatever the body (even if it never uses `x`) -/
theorem let_once_err (root cur : Val) (env : Env) (x : Bytes) (e1 b : INode) (cs : List Cat)
    (h : ieval root e1 cur env = .err cs) : ieval root (.defineVariables [(x, e1)] b) cur env = .err cs := by
  rw [let_once, h]; rfl

example : ieval .null (.defineVariables [(dx, .lit n1)] (.and (.variable dx) (.variable dx))) .null []
    = ieval .null (.and (.lit n1) (.lit n1)) .null [] := by
  rw [let_once]
  simp [ieval, INode.subst]

example : ieval .null (.defineVariables [(dx, .variable dy)] (.lit n0)) .null [] = .err [Cat.undefinedVariable] :=
  let_once_err _ _ _ _ _ _ _ (var_unbound (by simp [Env.get, objLookup]))

end Jmes.C19

#print axioms Jmes.C19.let_subst
#print axioms Jmes.C19.let_subst_strong
#print axioms Jmes.C19.let_once
#print axioms Jmes.C19.ievalFields_ok
#print axioms Jmes.C19.let_var
#print axioms Jmes.C19.bindings_sorted
#print axioms Jmes.C19.undefined_iff
#print axioms Jmes.C19.bindings_perm
#print axioms Jmes.C19.let_fails
#print axioms Jmes.C19.visible_projectArray
