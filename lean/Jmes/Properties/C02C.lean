/-
  C02 (third part) — the type errors of the builtins against ONE declarative signature table; arity of nested calls;
  `merge` as a statement about lookup; negative `start` of `find_first` / `find_last`; `to_string` and Go's HTML
  escaping.

  ## 1. invalid-type ⟺ an argument's type is outside the signature

  `Sig : Fn → List PT` (`Proofs/C02CLemmas.lean`) is the signature table of the function specifications; `SigOK f args`
  holds when every argument fits its parameter type, and is defined through `jsonType` of the arguments (and of the
  elements of an array argument where the specification types them) only.

  * `eager_invalidType_iff` — **for every eager builtin but `from_items`, and every argument list of its arity:
    `applyFn f args = invalid-type ⟺ ¬ SigOK f args`** — under the representation hypothesis `ArgOK` (a `json.Number`
    among the arguments / their elements carries a text `decimal128.Parse` accepts).  No hypothesis on map-ordered
    (`enum`) arrays is needed: on those the model may answer `nondet`, but never a wrong invalid-type.
  * `type_error_first` — a type error anywhere in the argument list wins over every value error (negative or
    non-integral count, bad pad): the outcome is invalid-type, for all of them (again except `from_items`).
  * `numOK_needed` — the hypothesis cannot be dropped: the JSON number `1e7000` has type `number` and is rejected as
    invalid-type by `abs` (Go agrees: KF02 family).
  * `from_items`: `fromItems_invalidType_sig` (invalid-type ⟹ ¬ SigOK, unconditionally), `fromItems_invalidType_iff`
    (the exact condition: the FIRST element that is not a well-formed pair is not an array) and the counterexample
    `fromItems_value_before_type` to the plain equivalence (`[[1,2], 5]`: invalid-value, Go agrees).
  * expression-reference builtins, at `ieval` level, when the key expression evaluates on every element (`k x`):
    `map_invalidType_iff`, `sortBy_invalidType_iff`, `maxBy_invalidType_iff`, `minBy_invalidType_iff` (keys all strings
    or all numbers), `groupBy_invalidType_iff` (keys all strings), `groupBy_null_key` (a null key is invalid-type).

  ## 2. arity of nested calls
  `wellPrec_calls_legal` — in a well-formed tree EVERY call (at any depth) names a builtin and has a legal argument
  count with `&` exactly where the builtin wants it; `parse_ok_calls_legal` — hence whatever compiles has only legal
  calls.  Conversely `nested_call_arity` (proved in `Proofs/C02CArity.lean`, `…2`, `…3` by an error version of the parser's
  completeness proof): a call whose count is outside the signature, in ANY context of the grammar and nested to any
  depth, with everything to its left well formed and anything to its right, makes `Compile` fail with the arity
  category; `arity_dichotomy` puts the two directions side by side.

  ## 3. `merge`, `find_first` / `find_last` with a negative start, `to_string`
  see the sections below.
-/
import Jmes.Proofs.C02CLemmas
import Jmes.Properties.C02B
import Jmes.Properties.C20B
import Jmes.Proofs.C02CArity3
namespace Jmes.C02C
open Jmes
open Jmes.C02 (JType jsonType)

/-! ## 1. type errors against the signature table -/

theorem len1 {α} {l : List α} (h : l.length = 1) : ∃ a, l = [a] := by
  match l, h with | [a], _ => exact ⟨a, rfl⟩
theorem len2 {α} {l : List α} (h : l.length = 2) : ∃ a b, l = [a, b] := by
  match l, h with | [a, b], _ => exact ⟨a, b, rfl⟩
theorem len3 {α} {l : List α} (h : l.length = 3) : ∃ a b c, l = [a, b, c] := by
  match l, h with | [a, b, c], _ => exact ⟨a, b, c, rfl⟩
theorem len4 {α} {l : List α} (h : l.length = 4) : ∃ a b c d, l = [a, b, c, d] := by
  match l, h with | [a, b, c, d], _ => exact ⟨a, b, c, d, rfl⟩

theorem allOK1 (p : PT) (a : Val) : allOK [p] [a] = false ↔ p.ok a = false := by simp [allOK]
theorem allOK2 (p q : PT) (a b : Val) : allOK [p, q] [a, b] = false ↔ p.ok a = false ∨ q.ok b = false := by
  cases h1 : p.ok a <;> cases h2 : q.ok b <;> simp [allOK, h1, h2]
theorem allOK3 (p q r : PT) (a b c : Val) :
    allOK [p, q, r] [a, b, c] = false ↔ p.ok a = false ∨ q.ok b = false ∨ r.ok c = false := by
  cases h1 : p.ok a <;> cases h2 : q.ok b <;> cases h3 : r.ok c <;> simp [allOK, h1, h2, h3]
theorem allOK4 (p q r s : PT) (a b c d : Val) :
    allOK [p, q, r, s] [a, b, c, d] = false ↔ p.ok a = false ∨ q.ok b = false ∨ r.ok c = false ∨ s.ok d = false := by
  cases h1 : p.ok a <;> cases h2 : q.ok b <;> cases h3 : r.ok c <;> cases h4 : s.ok d <;>
    simp [allOK, h1, h2, h3, h4]

theorem ok1_false (t : JType) (v : Val) : (PT.oneOf [t]).ok v = false ↔ jsonType v ≠ t := by
  simp [PT.ok, eq_comm]
theorem ok2_false (s t : JType) (v : Val) : (PT.oneOf [s, t]).ok v = false ↔ jsonType v ≠ s ∧ jsonType v ≠ t := by
  simp only [PT.ok, List.contains_cons, List.contains_nil, Bool.or_false, Bool.or_eq_false_iff, beq_eq_false_iff_ne]
theorem ok3_false (s t u : JType) (v : Val) :
    (PT.oneOf [s, t, u]).ok v = false ↔ jsonType v ≠ s ∧ jsonType v ≠ t ∧ jsonType v ≠ u := by
  simp only [PT.ok, List.contains_cons, List.contains_nil, Bool.or_false, Bool.or_eq_false_iff, beq_eq_false_iff_ne]
theorem okAny_false (v : Val) : PT.any.ok v = false ↔ False := by simp [PT.ok]
theorem okJson_false (v : Val) : PT.json.ok v = false ↔ jsonType v = .other := by simp [PT.ok]
theorem okArr_false (t : JType) (v : Val) :
    (PT.arrayOf t).ok v = false ↔ jsonType v ≠ .array ∨ (elems v).all (fun x => jsonType x == t) = false := by
  simp only [PT.ok, Bool.and_eq_false_iff, beq_eq_false_iff_ne]
theorem okHom_false (s t : JType) (v : Val) :
    (PT.arrayHom [s, t]).ok v = false ↔ jsonType v ≠ .array ∨
      ((elems v).all (fun x => jsonType x == s) = false ∧ (elems v).all (fun x => jsonType x == t) = false) := by
  simp only [PT.ok, Bool.and_eq_false_iff, beq_eq_false_iff_ne, List.any_cons, List.any_nil, Bool.or_false,
    Bool.or_eq_false_iff]

theorem exists_arr_iff (v : Val) (P : List Val → Prop) :
    (jsonType v ≠ .array ∨ ∃ t xs, v = .arr t xs ∧ P xs) ↔ (jsonType v ≠ .array ∨ P (elems v)) := by
  cases v with
  | arr t xs =>
    simp only [jsonType, ne_eq, not_true_eq_false, false_or, elems, Val.arr.injEq]
    exact ⟨fun ⟨_, _, ⟨_, h⟩, hp⟩ => h ▸ hp, fun h => ⟨t, xs, ⟨rfl, rfl⟩, h⟩⟩
  | _ => simp [jsonType]

/-! ### one lemma per builtin -/

theorem sig_abs (a : Val) (h : ArgOK a) : applyFn .abs [a] = .err [Cat.invalidType] ↔ SigOK .abs [a] = false := by
  rw [C02.abs_errType_iff, toDecimal_none_iff h.1, SigOK, Sig, allOK1, ok1_false]
theorem sig_ceil (a : Val) (h : ArgOK a) : applyFn .ceil [a] = .err [Cat.invalidType] ↔ SigOK .ceil [a] = false := by
  rw [C02.ceil_errType_iff, toDecimal_none_iff h.1, SigOK, Sig, allOK1, ok1_false]
theorem sig_floor (a : Val) (h : ArgOK a) : applyFn .floor [a] = .err [Cat.invalidType] ↔ SigOK .floor [a] = false := by
  rw [C02.floor_errType_iff, toDecimal_none_iff h.1, SigOK, Sig, allOK1, ok1_false]

theorem sig_sum (a : Val) (h : ArgOK a) : applyFn .sum [a] = .err [Cat.invalidType] ↔ SigOK .sum [a] = false := by
  rw [C02.sum_errType_iff, exists_arr_iff a (fun xs => ∃ x ∈ xs, toDecimal x = none), SigOK, Sig, allOK1, okArr_false,
    exists_toDecimal_none_iff _ h.2]
theorem sig_avg (a : Val) (h : ArgOK a) : applyFn .avg [a] = .err [Cat.invalidType] ↔ SigOK .avg [a] = false := by
  rw [C02.avg_errType_iff, exists_arr_iff a (fun xs => ∃ x ∈ xs, toDecimal x = none), SigOK, Sig, allOK1, okArr_false,
    exists_toDecimal_none_iff _ h.2]

theorem sig_items (a : Val) : applyFn .items [a] = .err [Cat.invalidType] ↔ SigOK .items [a] = false := by
  rw [C02.items_errType_iff, SigOK, Sig, allOK1, ok1_false]
theorem sig_keys (a : Val) : applyFn .keys [a] = .err [Cat.invalidType] ↔ SigOK .keys [a] = false := by
  rw [C02.keys_errType_iff, SigOK, Sig, allOK1, ok1_false]
theorem sig_values (a : Val) : applyFn .values [a] = .err [Cat.invalidType] ↔ SigOK .values [a] = false := by
  rw [C02.values_errType_iff, SigOK, Sig, allOK1, ok1_false]
theorem sig_length (a : Val) : applyFn .length [a] = .err [Cat.invalidType] ↔ SigOK .length [a] = false := by
  rw [C02.length_errType_iff, SigOK, Sig, allOK1, ok3_false]
theorem sig_lower (a : Val) : applyFn .lower [a] = .err [Cat.invalidType] ↔ SigOK .lower [a] = false := by
  rw [C02.lower_errType_iff, SigOK, Sig, allOK1, ok1_false]
theorem sig_upper (a : Val) : applyFn .upper [a] = .err [Cat.invalidType] ↔ SigOK .upper [a] = false := by
  rw [C02.upper_errType_iff, SigOK, Sig, allOK1, ok1_false]
theorem sig_reverse (a : Val) : applyFn .reverse [a] = .err [Cat.invalidType] ↔ SigOK .reverse [a] = false := by
  rw [C02.reverse_errType_iff, SigOK, Sig, allOK1, ok2_false]
theorem sig_trimSpace (a : Val) : applyFn .trimSpace [a] = .err [Cat.invalidType] ↔ SigOK .trimSpace [a] = false := by
  rw [C02.trimSpace_errType_iff, SigOK, Sig, allOK1, ok1_false]
theorem sig_trimSpaceLeft (a : Val) :
    applyFn .trimSpaceLeft [a] = .err [Cat.invalidType] ↔ SigOK .trimSpaceLeft [a] = false := by
  rw [C02.trimSpaceLeft_errType_iff, SigOK, Sig, allOK1, ok1_false]
theorem sig_trimSpaceRight (a : Val) :
    applyFn .trimSpaceRight [a] = .err [Cat.invalidType] ↔ SigOK .trimSpaceRight [a] = false := by
  rw [C02.trimSpaceRight_errType_iff, SigOK, Sig, allOK1, ok1_false]
theorem sig_type (a : Val) : applyFn .type [a] = .err [Cat.invalidType] ↔ SigOK .type [a] = false := by
  rw [C02.type_errType_iff, SigOK, Sig, allOK1, okJson_false]
theorem sig_toArray (a : Val) : applyFn .toArray [a] = .err [Cat.invalidType] ↔ SigOK .toArray [a] = false := by
  rw [C02.toArray_never_errors, SigOK, Sig, allOK1, okAny_false]
  exact ⟨fun h => (by cases h), False.elim⟩
theorem sig_toNumber (a : Val) : applyFn .toNumber [a] = .err [Cat.invalidType] ↔ SigOK .toNumber [a] = false := by
  rw [C02.toNumber_never_errors, SigOK, Sig, allOK1, okAny_false]
  exact ⟨fun h => (by cases h), False.elim⟩
theorem sig_toString (a : Val) : applyFn .toString [a] = .err [Cat.invalidType] ↔ SigOK .toString [a] = false := by
  rw [SigOK, Sig, allOK1, okAny_false]
  exact ⟨fun h => C02.toString_not_errType a h, False.elim⟩

/-- `max`, `min`, `sort`: the shared right-hand side of `C02.max_errType_iff` & co, read off the element types -/
theorem hom_iff (a : Val) (h : ArgOK a) :
    (jsonType a ≠ .array ∨ ∃ t xs, a = .arr t xs ∧ xs ≠ [] ∧ allStrings xs = none ∧ allDecimals xs = none) ↔
      (PT.arrayHom [.number, .string]).ok a = false := by
  rw [exists_arr_iff a (fun xs => xs ≠ [] ∧ allStrings xs = none ∧ allDecimals xs = none), okHom_false,
    allStrings_none_iff, allDecimals_none_iff' _ h.2]
  constructor
  · rintro (h1 | ⟨_, h2, h3⟩)
    · exact Or.inl h1
    · exact Or.inr ⟨h3, h2⟩
  · rintro (h1 | ⟨h2, h3⟩)
    · exact Or.inl h1
    · refine Or.inr ⟨?_, h3, h2⟩
      intro he; rw [he] at h2; simp at h2

theorem sig_max (a : Val) (h : ArgOK a) : applyFn .max [a] = .err [Cat.invalidType] ↔ SigOK .max [a] = false := by
  rw [C02.max_errType_iff, hom_iff a h, SigOK, Sig, allOK1]
theorem sig_min (a : Val) (h : ArgOK a) : applyFn .min [a] = .err [Cat.invalidType] ↔ SigOK .min [a] = false := by
  rw [C02.min_errType_iff, hom_iff a h, SigOK, Sig, allOK1]
theorem sig_sort (a : Val) (h : ArgOK a) : applyFn .sort [a] = .err [Cat.invalidType] ↔ SigOK .sort [a] = false := by
  rw [C02.sort_errType_iff, hom_iff a h, SigOK, Sig, allOK1]

theorem sig_contains (a b : Val) :
    applyFn .contains [a, b] = .err [Cat.invalidType] ↔ SigOK .contains [a, b] = false := by
  rw [C02.contains_errType_iff, SigOK, Sig, allOK2, ok2_false, okAny_false, or_false]
theorem sig_endsWith (a b : Val) :
    applyFn .endsWith [a, b] = .err [Cat.invalidType] ↔ SigOK .endsWith [a, b] = false := by
  rw [C02.endsWith_errType_iff, SigOK, Sig, allOK2, ok1_false, ok1_false]
theorem sig_startsWith (a b : Val) :
    applyFn .startsWith [a, b] = .err [Cat.invalidType] ↔ SigOK .startsWith [a, b] = false := by
  rw [C02.startsWith_errType_iff, SigOK, Sig, allOK2, ok1_false, ok1_false]
theorem sig_findFirst (a b : Val) :
    applyFn .findFirst [a, b] = .err [Cat.invalidType] ↔ SigOK .findFirst [a, b] = false := by
  rw [C02.findFirst_errType_iff, SigOK, Sig, allOK2, ok1_false, ok1_false]
theorem sig_findLast (a b : Val) :
    applyFn .findLast [a, b] = .err [Cat.invalidType] ↔ SigOK .findLast [a, b] = false := by
  rw [C02.findLast_errType_iff, SigOK, Sig, allOK2, ok1_false, ok1_false]
theorem sig_split (a b : Val) : applyFn .split [a, b] = .err [Cat.invalidType] ↔ SigOK .split [a, b] = false := by
  rw [C02.split_errType_iff, SigOK, Sig, allOK2, ok1_false, ok1_false]
theorem sig_trim (a b : Val) : applyFn .trim [a, b] = .err [Cat.invalidType] ↔ SigOK .trim [a, b] = false := by
  rw [C02.trim_errType_iff, SigOK, Sig, allOK2, ok1_false, ok1_false]
theorem sig_trimLeft (a b : Val) :
    applyFn .trimLeft [a, b] = .err [Cat.invalidType] ↔ SigOK .trimLeft [a, b] = false := by
  rw [C02.trimLeft_errType_iff, SigOK, Sig, allOK2, ok1_false, ok1_false]
theorem sig_trimRight (a b : Val) :
    applyFn .trimRight [a, b] = .err [Cat.invalidType] ↔ SigOK .trimRight [a, b] = false := by
  rw [C02.trimRight_errType_iff, SigOK, Sig, allOK2, ok1_false, ok1_false]

theorem sig_join (a b : Val) : applyFn .join [a, b] = .err [Cat.invalidType] ↔ SigOK .join [a, b] = false := by
  rw [C02.join_errType_iff, exists_arr_iff b (fun xs => allStrings xs = none), allStrings_none_iff, SigOK, Sig, allOK2,
    ok1_false, okArr_false]

theorem sig_padSpaceLeft (a b : Val) (hb : ArgOK b) :
    applyFn .padSpaceLeft [a, b] = .err [Cat.invalidType] ↔ SigOK .padSpaceLeft [a, b] = false := by
  rw [C02.padSpaceLeft_errType_iff, intArg_errType_iff' hb.1, SigOK, Sig, allOK2, ok1_false, ok1_false]
theorem sig_padSpaceRight (a b : Val) (hb : ArgOK b) :
    applyFn .padSpaceRight [a, b] = .err [Cat.invalidType] ↔ SigOK .padSpaceRight [a, b] = false := by
  rw [C02.padSpaceRight_errType_iff, intArg_errType_iff' hb.1, SigOK, Sig, allOK2, ok1_false, ok1_false]

theorem sig_findFirstFrom (a b c : Val) (hc : ArgOK c) :
    applyFn .findFirstFrom [a, b, c] = .err [Cat.invalidType] ↔ SigOK .findFirstFrom [a, b, c] = false := by
  rw [C02.findFirstFrom_errType_iff, intArg_errType_iff' hc.1, SigOK, Sig, allOK3, ok1_false, ok1_false, ok1_false]
theorem sig_findLastFrom (a b c : Val) (hc : ArgOK c) :
    applyFn .findLastFrom [a, b, c] = .err [Cat.invalidType] ↔ SigOK .findLastFrom [a, b, c] = false := by
  rw [C02.findLastFrom_errType_iff, intArg_errType_iff' hc.1, SigOK, Sig, allOK3, ok1_false, ok1_false, ok1_false]
theorem sig_splitCount (a b c : Val) (hc : ArgOK c) :
    applyFn .splitCount [a, b, c] = .err [Cat.invalidType] ↔ SigOK .splitCount [a, b, c] = false := by
  rw [C02.splitCount_errType_iff, intArg_errType_iff' hc.1, SigOK, Sig, allOK3, ok1_false, ok1_false, ok1_false]
theorem sig_replace (a b c : Val) :
    applyFn .replace [a, b, c] = .err [Cat.invalidType] ↔ SigOK .replace [a, b, c] = false := by
  rw [C02.replace_errType_iff, SigOK, Sig, allOK3, ok1_false, ok1_false, ok1_false]
theorem sig_replaceCount (a b c d : Val) (hd : ArgOK d) :
    applyFn .replaceCount [a, b, c, d] = .err [Cat.invalidType] ↔ SigOK .replaceCount [a, b, c, d] = false := by
  rw [C02.replaceCount_errType_iff, intArg_errType_iff' hd.1, SigOK, Sig, allOK4, ok1_false, ok1_false, ok1_false,
    ok1_false]

theorem sig_padLeft (a b c : Val) (hb : ArgOK b) :
    applyFn .padLeft [a, b, c] = .err [Cat.invalidType] ↔ SigOK .padLeft [a, b, c] = false := by
  rw [C02.padLeft_errType_iff, intArg_errType_iff' hb.1, SigOK, Sig, allOK3, ok1_false, ok1_false, ok1_false]
  exact ⟨fun h => h.elim Or.inl (fun h => h.elim (fun h => Or.inr (Or.inr h)) (fun h => Or.inr (Or.inl h))),
    fun h => h.elim Or.inl (fun h => h.elim (fun h => Or.inr (Or.inr h)) (fun h => Or.inr (Or.inl h)))⟩
theorem sig_padRight (a b c : Val) (hb : ArgOK b) :
    applyFn .padRight [a, b, c] = .err [Cat.invalidType] ↔ SigOK .padRight [a, b, c] = false := by
  rw [C02.padRight_errType_iff, intArg_errType_iff' hb.1, SigOK, Sig, allOK3, ok1_false, ok1_false, ok1_false]
  exact ⟨fun h => h.elim Or.inl (fun h => h.elim (fun h => Or.inr (Or.inr h)) (fun h => Or.inr (Or.inl h))),
    fun h => h.elim Or.inl (fun h => h.elim (fun h => Or.inr (Or.inr h)) (fun h => Or.inr (Or.inl h)))⟩

/-- `find_first` / `find_last` with four arguments: two strings and two numbers — also when `start` is not integral
    (a value error) and `finish` is ill-typed: the type error is the one reported -/
theorem findBetween_sig (last : Bool) (v p st fin : Val) (h1 : NumOK st) (h2 : NumOK fin) :
    findBetween last v p st fin = .err [Cat.invalidType] ↔
      jsonType v ≠ .string ∨ jsonType p ≠ .string ∨ jsonType st ≠ .number ∨ jsonType fin ≠ .number := by
  by_cases hv : jsonType v = .string
  · by_cases hp : jsonType p = .string
    · obtain ⟨s, rfl⟩ : ∃ s, v = .str s := by cases v <;> first | exact ⟨_, rfl⟩ | cases hv
      obtain ⟨q, rfl⟩ : ∃ q, p = .str q := by cases p <;> first | exact ⟨_, rfl⟩ | cases hp
      rw [C02.findBetween_errType_iff]
      simp only [jsonType, ne_eq, not_true_eq_false, false_or]
      constructor
      · rintro (h | ⟨_, h | ⟨_, h⟩⟩ | ⟨_, h⟩)
        · exact Or.inl (fun hn => toInt_ne_notNum h1 hn h)
        · exact Or.inr (fun hn => toInt_ne_notNum h2 hn h)
        · exact Or.inl ((toDecimal_none_iff h1).mp h)
        · exact Or.inr ((intArg_errType_iff' h2).mp h)
      · intro h
        by_cases hs : jsonType st = .number
        · have hf : jsonType fin ≠ .number := h.resolve_left (fun h => h hs)
          cases hi : toInt st with
          | int i => exact Or.inr (Or.inr ⟨⟨i, rfl⟩, (intArg_errType_iff' h2).mpr hf⟩)
          | notInt => exact Or.inr (Or.inl ⟨rfl, Or.inl (toInt_nonNumber hf)⟩)
          | notNum => exact Or.inl rfl
          | panic => exact absurd hi (Jmes.toInt_no_panic st)
          | unmodelled => exact absurd hi (toInt_ne_unmodelled h1)
        · exact Or.inl (toInt_nonNumber hs)
    · rw [C02.findBetween_errType_of_args last v p st fin (Or.inr hp)]
      simp [hp]
  · rw [C02.findBetween_errType_of_args last v p st fin (Or.inl hv)]
    simp [hv]

theorem sig_findFirstBetween (a b c d : Val) (hc : ArgOK c) (hd : ArgOK d) :
    applyFn .findFirstBetween [a, b, c, d] = .err [Cat.invalidType] ↔ SigOK .findFirstBetween [a, b, c, d] = false := by
  rw [SigOK, Sig, allOK4, ok1_false, ok1_false, ok1_false, ok1_false]
  exact findBetween_sig false a b c d hc.1 hd.1
theorem sig_findLastBetween (a b c d : Val) (hc : ArgOK c) (hd : ArgOK d) :
    applyFn .findLastBetween [a, b, c, d] = .err [Cat.invalidType] ↔ SigOK .findLastBetween [a, b, c, d] = false := by
  rw [SigOK, Sig, allOK4, ok1_false, ok1_false, ok1_false, ok1_false]
  exact findBetween_sig true a b c d hc.1 hd.1

/-- **Invalid-type exactly when an argument's type is outside the signature**: for every eager builtin except
    `from_items` (see `fromItems_invalidType_iff`) and every argument list of the builtin's arity, the outcome is the
    invalid-type error iff some argument does not fit its parameter type in the signature table `Sig` — whatever else
    is wrong with the arguments (a type error wins over a value error), and also for map-ordered arrays.
    Hypothesis `ArgOK`: a `json.Number` among the arguments (or their elements) has a text decimal128 accepts. -/
theorem eager_invalidType_iff (f : Fn) (args : List Val) (hlen : args.length = fnArity f)
    (hnum : ∀ a ∈ args, ArgOK a) (hf : f ≠ .fromItems) :
    applyFn f args = .err [Cat.invalidType] ↔ SigOK f args = false := by
  cases f
  case fromItems => exact absurd rfl hf
  case abs => obtain ⟨a, rfl⟩ := len1 hlen; exact sig_abs a (hnum a (by simp))
  case avg => obtain ⟨a, rfl⟩ := len1 hlen; exact sig_avg a (hnum a (by simp))
  case ceil => obtain ⟨a, rfl⟩ := len1 hlen; exact sig_ceil a (hnum a (by simp))
  case floor => obtain ⟨a, rfl⟩ := len1 hlen; exact sig_floor a (hnum a (by simp))
  case items => obtain ⟨a, rfl⟩ := len1 hlen; exact sig_items a
  case keys => obtain ⟨a, rfl⟩ := len1 hlen; exact sig_keys a
  case length => obtain ⟨a, rfl⟩ := len1 hlen; exact sig_length a
  case lower => obtain ⟨a, rfl⟩ := len1 hlen; exact sig_lower a
  case max => obtain ⟨a, rfl⟩ := len1 hlen; exact sig_max a (hnum a (by simp))
  case min => obtain ⟨a, rfl⟩ := len1 hlen; exact sig_min a (hnum a (by simp))
  case reverse => obtain ⟨a, rfl⟩ := len1 hlen; exact sig_reverse a
  case sort => obtain ⟨a, rfl⟩ := len1 hlen; exact sig_sort a (hnum a (by simp))
  case sum => obtain ⟨a, rfl⟩ := len1 hlen; exact sig_sum a (hnum a (by simp))
  case toArray => obtain ⟨a, rfl⟩ := len1 hlen; exact sig_toArray a
  case toNumber => obtain ⟨a, rfl⟩ := len1 hlen; exact sig_toNumber a
  case toString => obtain ⟨a, rfl⟩ := len1 hlen; exact sig_toString a
  case trimSpace => obtain ⟨a, rfl⟩ := len1 hlen; exact sig_trimSpace a
  case trimSpaceLeft => obtain ⟨a, rfl⟩ := len1 hlen; exact sig_trimSpaceLeft a
  case trimSpaceRight => obtain ⟨a, rfl⟩ := len1 hlen; exact sig_trimSpaceRight a
  case type => obtain ⟨a, rfl⟩ := len1 hlen; exact sig_type a
  case upper => obtain ⟨a, rfl⟩ := len1 hlen; exact sig_upper a
  case values => obtain ⟨a, rfl⟩ := len1 hlen; exact sig_values a
  case contains => obtain ⟨a, b, rfl⟩ := len2 hlen; exact sig_contains a b
  case endsWith => obtain ⟨a, b, rfl⟩ := len2 hlen; exact sig_endsWith a b
  case findFirst => obtain ⟨a, b, rfl⟩ := len2 hlen; exact sig_findFirst a b
  case findLast => obtain ⟨a, b, rfl⟩ := len2 hlen; exact sig_findLast a b
  case join => obtain ⟨a, b, rfl⟩ := len2 hlen; exact sig_join a b
  case padSpaceLeft => obtain ⟨a, b, rfl⟩ := len2 hlen; exact sig_padSpaceLeft a b (hnum b (by simp))
  case padSpaceRight => obtain ⟨a, b, rfl⟩ := len2 hlen; exact sig_padSpaceRight a b (hnum b (by simp))
  case split => obtain ⟨a, b, rfl⟩ := len2 hlen; exact sig_split a b
  case startsWith => obtain ⟨a, b, rfl⟩ := len2 hlen; exact sig_startsWith a b
  case trim => obtain ⟨a, b, rfl⟩ := len2 hlen; exact sig_trim a b
  case trimLeft => obtain ⟨a, b, rfl⟩ := len2 hlen; exact sig_trimLeft a b
  case trimRight => obtain ⟨a, b, rfl⟩ := len2 hlen; exact sig_trimRight a b
  case findFirstFrom => obtain ⟨a, b, c, rfl⟩ := len3 hlen; exact sig_findFirstFrom a b c (hnum c (by simp))
  case findLastFrom => obtain ⟨a, b, c, rfl⟩ := len3 hlen; exact sig_findLastFrom a b c (hnum c (by simp))
  case padLeft => obtain ⟨a, b, c, rfl⟩ := len3 hlen; exact sig_padLeft a b c (hnum b (by simp))
  case padRight => obtain ⟨a, b, c, rfl⟩ := len3 hlen; exact sig_padRight a b c (hnum b (by simp))
  case replace => obtain ⟨a, b, c, rfl⟩ := len3 hlen; exact sig_replace a b c
  case splitCount => obtain ⟨a, b, c, rfl⟩ := len3 hlen; exact sig_splitCount a b c (hnum c (by simp))
  case findFirstBetween =>
    obtain ⟨a, b, c, d, rfl⟩ := len4 hlen; exact sig_findFirstBetween a b c d (hnum c (by simp)) (hnum d (by simp))
  case findLastBetween =>
    obtain ⟨a, b, c, d, rfl⟩ := len4 hlen; exact sig_findLastBetween a b c d (hnum c (by simp)) (hnum d (by simp))
  case replaceCount => obtain ⟨a, b, c, d, rfl⟩ := len4 hlen; exact sig_replaceCount a b c d (hnum d (by simp))

/-- the table at work: `pad_left('a', 1.5, 5)` — a non-integral width (a value error) and a pad that is not a string —
    is an invalid-type error (Go: invalid-type) -/
example : SigOK .padLeft [.str [0x61], .num (.dec (.fin false 15 (-1))), .num (.int .i64 5)] = false := by decide
example : applyFn .padLeft [.str [0x61], .num (.dec (.fin false 15 (-1))), .num (.int .i64 5)]
    = .err [Cat.invalidType] := by rfl
example : SigOK .max [.arr .plain [.num (.int .i64 1), .str []]] = false := by decide
example : SigOK .max [.arr .plain [.str [0x61], .str []]] = true := by decide
example : SigOK .max [.arr .plain []] = true := by decide
example : SigOK .join [.str [], .arr .plain [.str [], .null]] = false := by decide
example : SigOK .type [.foreign 3] = false ∧ SigOK .toArray [.foreign 3] = true := by decide
example : SigOK .contains [.arr .plain [], .foreign 0] = true := by decide

/-- **type errors take precedence over value errors**: when some argument is ill-typed the outcome is invalid-type —
    never invalid-value, whatever the counts, widths and pads are -/
theorem type_error_first (f : Fn) (args : List Val) (hlen : args.length = fnArity f)
    (hnum : ∀ a ∈ args, ArgOK a) (hf : f ≠ .fromItems) (h : SigOK f args = false) :
    applyFn f args = .err [Cat.invalidType] ∧ applyFn f args ≠ .err [Cat.invalidValue] := by
  have := (eager_invalidType_iff f args hlen hnum hf).mpr h
  exact ⟨this, by rw [this]; intro h; cases h⟩

/-- `replace('a', 1, 'b', 1.5)`: the ill-typed second argument wins over the non-integral count (Go: invalid-type);
    with a well-typed second argument the count is reported (Go: invalid-value) -/
example : applyFn .replaceCount [.str [0x61], .num (.int .i64 1), .str [0x62], .num (.dec (.fin false 15 (-1)))]
    = .err [Cat.invalidType] :=
  (type_error_first .replaceCount _ rfl (by intro a ha; simp at ha; rcases ha with rfl | rfl | rfl | rfl <;>
    exact ⟨trivial, fun _ h => by cases h⟩) (by decide) (by decide)).1
example : applyFn .replaceCount [.str [0x61], .str [0x61], .str [0x62], .num (.dec (.fin false 15 (-1)))]
    = .err [Cat.invalidValue] := by rfl

/-- conversely a well-typed argument list never gives invalid-type -/
theorem well_typed_not_invalidType (f : Fn) (args : List Val) (hlen : args.length = fnArity f)
    (hnum : ∀ a ∈ args, ArgOK a) (hf : f ≠ .fromItems) (h : SigOK f args = true) :
    applyFn f args ≠ .err [Cat.invalidType] := by
  intro he
  have := (eager_invalidType_iff f args hlen hnum hf).mp he
  rw [h] at this; cases this

/-- **the representation hypothesis is needed** (a finding of the KF02 family): the JSON number `1e7000`, as the
    `json.Number` a decoder with `UseNumber` yields, is of JSON type number (`type` says "number") and is rejected as
    invalid-type by `abs` — and likewise by every builtin that wants a number.  Go behaves the same
    (`abs(@)` on `1e7000`: invalid-type; `type(@)`: "number"). -/
theorem numOK_needed :
    let v := Val.num (.jnum [0x31, 0x65, 0x37, 0x30, 0x30, 0x30])
    SigOK .abs [v] = true ∧ applyFn .abs [v] = .err [Cat.invalidType] ∧
      applyFn .type [v] = .ok (strVal "number") ∧ ¬ NumOK v := by
  refine ⟨by decide, by rfl, by rfl, ?_⟩
  rintro ⟨d, hd⟩
  have : Dec.parse [0x31, 0x65, 0x37, 0x30, 0x30, 0x30] = .range (.inf false) := by decide
  rw [this] at hd; cases hd

/-- **when the hypothesis holds**: a `json.Number` whose text follows the JSON number grammar (every number a
    JSON decoder yields) satisfies `NumOK` unless `decimal128.Parse` reports a RANGE error on it (magnitude or exponent
    field beyond decimal128, e.g. `1e7000`: C20B.numOk_or_range, KF02 / KF09); every other representation of a number
    (Go integer kinds, floats, decimals) satisfies it outright -/
theorem numOK_or_range {t : Bytes} (h : Lexical.JNumber t) :
    NumOK (.num (.jnum t)) ∨ Dec.parse t = .range (.inf (C20B.numParts t).neg) := by
  rcases C20B.numOk_or_range h with ⟨d, hd, _⟩ | hr
  · left
    simp only [toDecimal] at hd
    cases hp : Dec.parse t with
    | ok d' => exact ⟨d', hp⟩
    | «syntax» => rw [hp] at hd; cases hd
    | range d' => rw [hp] at hd; cases hd
  · exact Or.inr hr

theorem argOK_of_no_jnum {v : Val} (h : ∀ t, v ≠ .num (.jnum t)) (he : ∀ x ∈ elems v, ∀ t, x ≠ .num (.jnum t)) :
    ArgOK v := ⟨numOK_of_not_jnum h, fun x hx => numOK_of_not_jnum (he x hx)⟩

example : NumOK (.num (.jnum [0x31, 0x2E, 0x35, 0x65, 0x33])) := ⟨.fin false 15 2, by decide⟩

/-! ### `from_items` -/

/-- a well-formed pair of `from_items`: a two-element array (not in Go map order) whose first element is a string -/
def GoodPair (y : Val) : Prop := ∃ t s v, y = .arr t [.str s, v] ∧ t ≠ .enum

theorem goodPair_iff (y : Val) : GoodPair y ↔ ∃ s v, C02.classify y = .good s v := by
  constructor
  · rintro ⟨t, s, v, rfl, ht⟩; exact ⟨s, v, (C02.classify_good_iff _ s v).mpr ⟨t, rfl, ht⟩⟩
  · rintro ⟨s, v, h⟩; obtain ⟨t, rfl, ht⟩ := (C02.classify_good_iff _ s v).mp h; exact ⟨t, s, v, rfl, ht⟩

theorem notArray_iff (x : Val) : C02.classify x = .notArray ↔ jsonType x ≠ .array := by
  rw [C02.classify_notArray_iff]
  cases x <;> simp [jsonType]

/-- for an array whose element order is determined, `from_items` fails as its loop does -/
theorem fromItems_err_iff (t : ATag) (xs : List Val) (ht : enum2 t xs = false) (cs : List Cat) :
    fromItems (.arr t xs) = .err cs ↔ fromItemsLoop xs [] = .err cs := by
  simp only [fromItems]
  cases h : fromItemsLoop xs [] with
  | ok kvs =>
    simp only [ht, Bool.false_and, Bool.false_eq_true, if_false]
    constructor <;> (intro h; cases h)
  | err c2 => simp only [ht, Bool.false_eq_true, if_false, Res.err.injEq]
  | _ => constructor <;> (intro h; cases h)

/-- **`from_items`, exactly**: on an array whose element order is determined, invalid-type iff the FIRST element that
    is not a well-formed pair is not an array at all (a malformed pair before it is an invalid-value error instead) -/
theorem fromItems_invalidType_iff (t : ATag) (xs : List Val) (ht : enum2 t xs = false) :
    applyFn .fromItems [.arr t xs] = .err [Cat.invalidType] ↔
      ∃ pre x post, xs = pre ++ x :: post ∧ (∀ y ∈ pre, GoodPair y) ∧ jsonType x ≠ .array := by
  show fromItems (.arr t xs) = _ ↔ _
  rw [fromItems_err_iff t xs ht, C02.fromItemsLoop_err_iff]
  apply exists_congr; intro pre
  apply exists_congr; intro x
  apply exists_congr; intro post
  apply and_congr Iff.rfl
  apply and_congr
  · exact forall_congr' fun y => forall_congr' fun _ => (goodPair_iff y).symm
  · rw [← notArray_iff]
    constructor
    · rintro (⟨h, _⟩ | ⟨_, h⟩)
      · exact h
      · cases h
    · intro h; exact Or.inl ⟨h, rfl⟩

/-- **`from_items`: invalid-type only when the argument is outside the signature `array[array]`** — for every
    argument, map-ordered or not -/
theorem fromItems_invalidType_sig (v : Val) (h : applyFn .fromItems [v] = .err [Cat.invalidType]) :
    SigOK .fromItems [v] = false := by
  rw [SigOK, Sig, allOK1, okArr_false]
  cases v with
  | arr t xs =>
    right
    change fromItems (.arr t xs) = _ at h
    simp only [elems]
    have key : fromItemsLoop xs [] = .err [Cat.invalidType] := by
      simp only [fromItems] at h
      cases hl : fromItemsLoop xs [] with
      | ok kvs => rw [hl] at h; simp only at h; split at h <;> cases h
      | err cs =>
        rw [hl] at h
        simp only at h
        split at h
        · exfalso
          obtain ⟨_, _, _, _, _, hx⟩ := (C02.fromItemsLoop_err_iff xs [] cs).mp hl
          rcases hx with ⟨_, rfl⟩ | ⟨_, rfl⟩ <;> exact absurd (Res.err.inj h) (by decide)
        · rw [Res.err.inj h]
      | panic w => rw [hl] at h; cases h
      | nondet => rw [hl] at h; cases h
      | unmodelled w => rw [hl] at h; cases h
    obtain ⟨pre, x, post, rfl, _, hx⟩ := (C02.fromItemsLoop_err_iff xs [] _).mp key
    rcases hx with ⟨hx, _⟩ | ⟨_, hx⟩
    · rw [List.all_eq_false]
      exact ⟨x, by simp, by simpa using (notArray_iff x).mp hx⟩
    · cases hx
  | _ => left; simp [jsonType]

/-- **map-ordered arrays are the one place where the model does not answer with a single category**: when
    `from_items` fails on an array that came from ranging over a Go map (two elements or more), which element is met
    first is unspecified, and the model reports the set {invalid-type, invalid-value} — never the single category.
    This is why `eager_invalidType_iff` excludes `from_items`, and why `fromItems_invalidType_iff` asks for a
    determined order. -/
theorem fromItems_enum_err (t : ATag) (xs : List Val) (ht : enum2 t xs = true) (cs : List Cat)
    (h : applyFn .fromItems [.arr t xs] = .err cs) : cs = [Cat.invalidType, Cat.invalidValue] := by
  change fromItems (.arr t xs) = _ at h
  simp only [fromItems] at h
  cases hl : fromItemsLoop xs [] with
  | ok kvs => rw [hl] at h; simp only at h; split at h <;> cases h
  | err c0 =>
    rw [hl] at h
    simp only [ht, if_true, Res.err.injEq] at h
    obtain ⟨_, _, _, _, _, hx⟩ := (C02.fromItemsLoop_err_iff xs [] c0).mp hl
    rcases hx with ⟨_, rfl⟩ | ⟨_, rfl⟩ <;> exact h.symm.trans (by decide)
  | panic w => rw [hl] at h; cases h
  | nondet => rw [hl] at h; cases h
  | unmodelled w => rw [hl] at h; cases h
example : applyFn .fromItems [.arr .enum [.num (.int .i64 5), .arr .plain []]]
    = .err [Cat.invalidType, Cat.invalidValue] := by rfl

/-- an argument that is not an array is invalid-type -/
theorem fromItems_non_array (v : Val) (h : jsonType v ≠ .array) : applyFn .fromItems [v] = .err [Cat.invalidType] := by
  cases v <;> first | rfl | exact absurd rfl h

/-- **counterexample to the plain equivalence for `from_items`**: in `[[1,2], 5]` the second element is outside the
    signature (not an array) but the malformed pair before it is met first: invalid-value.  Go agrees
    (`from_items(@)` on `[[1,2], 5]`: invalid-value; on `[5, [1,2]]`: invalid-type). -/
theorem fromItems_value_before_type :
    let v := Val.arr .plain [.arr .plain [.num (.int .i64 1), .num (.int .i64 2)], .num (.int .i64 5)]
    SigOK .fromItems [v] = false ∧ applyFn .fromItems [v] = .err [Cat.invalidValue] := ⟨by decide, by rfl⟩
example : applyFn .fromItems [.arr .plain [.num (.int .i64 5), .arr .plain [.num (.int .i64 1), .num (.int .i64 2)]]]
    = .err [Cat.invalidType] := by rfl
example : applyFn .fromItems [.arr .plain [.arr .plain [.str [0x61], .null], .bool true]] = .err [Cat.invalidType] :=
  (fromItems_invalidType_iff .plain _ rfl).mpr
    ⟨[.arr .plain [.str [0x61], .null]], .bool true, [], rfl,
      fun y hy => by simp at hy; subst hy; exact ⟨.plain, _, _, rfl, by decide⟩, by decide⟩

/-! ### the builtins that take an expression reference (at `ieval` level) -/

/-- **`map(&e, a)`**: the only type condition is on `a` — when `e` evaluates on every element, invalid-type iff the
    value of `a` is not an array -/
theorem map_invalidType_iff (root cur : Val) (env : Env) (e a : INode) (v : Val) (k : Val → Val)
    (ha : ieval root a cur env = .ok v) (hk : ∀ x ∈ elems v, ieval root e x env = .ok (k x)) :
    ieval root (.map e a) cur env = .err [Cat.invalidType] ↔ jsonType v ≠ .array := by
  simp only [ieval, ha, Res.ok_bind]
  cases v with
  | arr t xs =>
    simp only [mapArray, C02B.mapAll_ok xs hk, Res.ok_bind, Res.pure_eq, widen_ok, jsonType, ne_eq, not_true_eq_false,
      iff_false]
    intro h; cases h
  | _ => simp [mapArray, errType, jsonType]

example : ieval .null (.map .current (.lit (.num (.int .i64 5)))) .null [] = .err [Cat.invalidType] := by rfl
example : ieval .null (.map .current (.lit (.obj []))) .null [] = .err [Cat.invalidType] :=
  (map_invalidType_iff .null .null [] .current (.lit (.obj [])) (.obj []) id rfl (fun _ h => by cases h)).mpr (by decide)

/-- the common shape of `sort_by`, `max_by`, `min_by` -/
theorem keyed_invalidType_iff (g : (Val → Res Val) → Val → Res Val)
    (hg_non : ∀ f v, jsonType v ≠ .array → g f v = .err [Cat.invalidType])
    (hg_nil : ∀ f t, g f (.arr t []) ≠ .err [Cat.invalidType])
    (hg_ok : ∀ f t x xs ks, keysOf f (x :: xs) = .ok ks → g f (.arr t (x :: xs)) ≠ .err [Cat.invalidType])
    (hg_err : ∀ f t x xs, keysOf f (x :: xs) = .err [Cat.invalidType] →
      g f (.arr t (x :: xs)) = widen t (x :: xs) [f] [Cat.invalidType] (.err [Cat.invalidType]))
    (f : Val → Res Val) (v : Val) (k : Val → Val) (hk : ∀ x ∈ elems v, f x = .ok (k x))
    (hn : ∀ x ∈ elems v, NumOK (k x)) :
    g f v = .err [Cat.invalidType] ↔ jsonType v ≠ .array ∨ (elems v ≠ [] ∧ KeysOK ((elems v).map k) = false) := by
  cases v with
  | arr t xs =>
    simp only [jsonType, ne_eq, not_true_eq_false, false_or, elems] at hk hn ⊢
    cases xs with
    | nil => simp [hg_nil f t]
    | cons x xs =>
      obtain ⟨h1, h2⟩ := keysOf_spec f k (x :: xs) hk hn
      cases hK : KeysOK ((x :: xs).map k) with
      | true =>
        obtain ⟨ks, hks⟩ := h1 hK
        simp [hg_ok f t x xs ks hks]
      | false =>
        rw [hg_err f t x xs (h2 hK), widen_errType t (x :: xs) f k hk]
        simp
  | _ => exact iff_of_true (hg_non f _ (by simp [jsonType])) (Or.inl (by simp [jsonType]))

theorem sortArrayBy_invalidType_iff (f : Val → Res Val) (v : Val) (k : Val → Val)
    (hk : ∀ x ∈ elems v, f x = .ok (k x)) (hn : ∀ x ∈ elems v, NumOK (k x)) :
    sortArrayBy f v = .err [Cat.invalidType] ↔
      jsonType v ≠ .array ∨ (elems v ≠ [] ∧ KeysOK ((elems v).map k) = false) := by
  refine keyed_invalidType_iff sortArrayBy ?_ ?_ ?_ ?_ f v k hk hn
  · intro f v h; cases v <;> first | rfl | exact absurd rfl h
  · intro f t h; cases h
  · intro f t x xs ks h
    simp only [sortArrayBy, List.isEmpty_cons, Bool.false_eq_true, if_false, h, Res.ok_bind]
    split <;> (intro h; cases h)
  · intro f t x xs h
    simp only [sortArrayBy, List.isEmpty_cons, Bool.false_eq_true, if_false, h, Res.err_bind]

theorem arrayPickBy_invalidType_iff (better : Key → Key → Bool) (f : Val → Res Val) (v : Val) (k : Val → Val)
    (hk : ∀ x ∈ elems v, f x = .ok (k x)) (hn : ∀ x ∈ elems v, NumOK (k x)) :
    arrayPickBy better f v = .err [Cat.invalidType] ↔
      jsonType v ≠ .array ∨ (elems v ≠ [] ∧ KeysOK ((elems v).map k) = false) := by
  refine keyed_invalidType_iff (arrayPickBy better) ?_ ?_ ?_ ?_ f v k hk hn
  · intro f v h; cases v <;> first | rfl | exact absurd rfl h
  · intro f t h; cases h
  · intro f t x xs ks h
    simp only [arrayPickBy, h, Res.ok_bind]
    cases ks with
    | nil => intro h; cases h
    | cons k0 kr => simp only []; split <;> (intro h; cases h)
  · intro f t x xs h
    simp only [arrayPickBy, h, Res.err_bind]

/-- **`sort_by(a, &e)`**: when `e` evaluates on every element (to `k x`), invalid-type iff `a` is not an array, or it is
    a non-empty array whose keys are neither all strings nor all numbers (null, boolean, array, object keys, or a
    mixture) — for map-ordered arrays too -/
theorem sortBy_invalidType_iff (root cur : Val) (env : Env) (a e : INode) (v : Val) (k : Val → Val)
    (ha : ieval root a cur env = .ok v) (hk : ∀ x ∈ elems v, ieval root e x env = .ok (k x))
    (hn : ∀ x ∈ elems v, NumOK (k x)) :
    ieval root (.sortBy a e) cur env = .err [Cat.invalidType] ↔
      jsonType v ≠ .array ∨ (elems v ≠ [] ∧ KeysOK ((elems v).map k) = false) := by
  simp only [ieval, ha, Res.ok_bind]
  exact sortArrayBy_invalidType_iff _ v k hk hn

/-- **`max_by(a, &e)`** likewise -/
theorem maxBy_invalidType_iff (root cur : Val) (env : Env) (a e : INode) (v : Val) (k : Val → Val)
    (ha : ieval root a cur env = .ok v) (hk : ∀ x ∈ elems v, ieval root e x env = .ok (k x))
    (hn : ∀ x ∈ elems v, NumOK (k x)) :
    ieval root (.maxBy a e) cur env = .err [Cat.invalidType] ↔
      jsonType v ≠ .array ∨ (elems v ≠ [] ∧ KeysOK ((elems v).map k) = false) := by
  simp only [ieval, ha, Res.ok_bind]
  exact arrayPickBy_invalidType_iff _ _ v k hk hn

/-- **`min_by(a, &e)`** likewise -/
theorem minBy_invalidType_iff (root cur : Val) (env : Env) (a e : INode) (v : Val) (k : Val → Val)
    (ha : ieval root a cur env = .ok v) (hk : ∀ x ∈ elems v, ieval root e x env = .ok (k x))
    (hn : ∀ x ∈ elems v, NumOK (k x)) :
    ieval root (.minBy a e) cur env = .err [Cat.invalidType] ↔
      jsonType v ≠ .array ∨ (elems v ≠ [] ∧ KeysOK ((elems v).map k) = false) := by
  simp only [ieval, ha, Res.ok_bind]
  exact arrayPickBy_invalidType_iff _ _ v k hk hn

/-- **`group_by(a, &e)`**: when `e` evaluates on every element, invalid-type iff `a` is not an array, or it is a
    non-empty array with a key that is not a string -/
theorem groupBy_invalidType_iff (root cur : Val) (env : Env) (a e : INode) (v : Val) (k : Val → Val)
    (ha : ieval root a cur env = .ok v) (hk : ∀ x ∈ elems v, ieval root e x env = .ok (k x)) :
    ieval root (.groupBy a e) cur env = .err [Cat.invalidType] ↔
      jsonType v ≠ .array ∨ (elems v).all (fun x => jsonType (k x) == .string) = false := by
  simp only [ieval, ha, Res.ok_bind]
  cases v with
  | arr t xs =>
    have hj : jsonType (Val.arr t xs) = .array := rfl
    simp only [hj, ne_eq, not_true_eq_false, false_or, elems] at hk ⊢
    cases xs with
    | nil => simp [groupBy]
    | cons x xs =>
      obtain ⟨h1, h2⟩ := groupLoop_spec (fun x => ieval root e x env) k (x :: xs) [] hk
      simp only [groupBy, List.isEmpty_cons, Bool.false_eq_true, if_false]
      cases hA : (x :: xs).all (fun x => jsonType (k x) == .string) with
      | true =>
        obtain ⟨gs, hgs⟩ := h1 hA
        simp only [hgs, Res.ok_bind, Res.pure_eq, widen_ok, reduceCtorEq]
      | false =>
        simp only [h2 hA, Res.err_bind, iff_true]
        exact widen_errType t (x :: xs) _ k hk
  | _ => simp [groupBy, errType, jsonType]

/-- **a null key** (the key expression selects a member some element lacks): `group_by` reports invalid-type, it does
    not skip the element nor group it under "null".  Go agrees (`group_by(@, &a)` on `[{"a":"x"},{"b":1}]`:
    invalid-type). -/
theorem groupBy_null_key (root cur : Val) (env : Env) (a e : INode) (v : Val) (k : Val → Val)
    (ha : ieval root a cur env = .ok v) (hk : ∀ x ∈ elems v, ieval root e x env = .ok (k x))
    (x : Val) (hx : x ∈ elems v) (hnull : k x = .null) :
    ieval root (.groupBy a e) cur env = .err [Cat.invalidType] := by
  rw [groupBy_invalidType_iff root cur env a e v k ha hk]
  right
  rw [List.all_eq_false]
  exact ⟨x, hx, by simp [hnull, jsonType]⟩

section lazyExamples
/-- `[{"a":"x"},{"b":1}]` -/
def exDocs : Val := .arr .plain [.obj [([0x61], .str [0x78])], .obj [([0x62], .num (.int .i64 1))]]
example : ieval exDocs (.groupBy .current (.field [0x61])) exDocs [] = .err [Cat.invalidType] :=
  groupBy_null_key exDocs exDocs [] .current (.field [0x61]) exDocs (field [0x61]) rfl (fun _ _ => rfl)
    (.obj [([0x62], .num (.int .i64 1))]) (by simp [exDocs, elems]) rfl
example : ieval exDocs (.groupBy .current (.field [0x61])) exDocs [] = .err [Cat.invalidType] := by rfl
/-- `sort_by([{"a":1},{"a":"x"}], &a)`: mixed keys; `sort_by([{"a":true}], &a)`: a boolean key (Go: invalid-type) -/
example : KeysOK [.num (.int .i64 1), .str [0x78]] = false ∧ KeysOK [.bool true] = false ∧ KeysOK [.null] = false ∧
    KeysOK [.str [], .str [0x78]] = true ∧ KeysOK [] = true := by decide
example : ieval .null (.sortBy (.lit (.arr .plain [.bool true])) .current) .null [] = .err [Cat.invalidType] :=
  (sortBy_invalidType_iff .null .null [] _ .current (.arr .plain [.bool true]) id rfl (fun _ _ => rfl)
    (fun x hx => by simp [elems] at hx; subst hx; trivial)).mpr (Or.inr ⟨by simp [elems], by decide⟩)
example : ieval .null (.maxBy (.lit (.arr .plain [])) .current) .null [] = .ok .null := by rfl
end lazyExamples

/-! ## 2. arity of nested calls: every call of a well-formed tree is legal -/

section nested
open Jmes.Grammar Jmes.Parser

mutual
/-- the calls occurring in a tree, at any depth: builtin name token and argument trees -/
def calls : PTree → List (Token × List PTree)
  | .icur => []
  | .atom _ => []
  | .paren t => calls t
  | .not t => calls t
  | .neg _ t => calls t
  | .pos t => calls t
  | .bin _ l r => calls l ++ calls r
  | .dotId l r => calls l ++ calls r
  | .dotList l es => calls l ++ callsL es
  | .dotHash l kvs => calls l ++ callsKV kvs
  | .dotStarList l => calls l
  | .index l _ => calls l
  | .call name args => (name, args) :: callsL args
  | .ref t => calls t
  | .letIn bs body => callsKV bs ++ calls body
  | .multiList es => callsL es
  | .multiHash kvs => callsKV kvs
  | .star l rhs => calls l ++ calls rhs
  | .ostar l rhs => calls l ++ calls rhs
  | .flat l rhs => calls l ++ calls rhs
  | .filt l c rhs => calls l ++ calls c ++ calls rhs
  | .slice l _ _ _ rhs => calls l ++ calls rhs
def callsL : List PTree → List (Token × List PTree)
  | [] => []
  | e :: es => calls e ++ callsL es
def callsKV : List (Token × PTree) → List (Token × List PTree)
  | [] => []
  | (_, e) :: rest => calls e ++ callsKV rest
end

/-- a call is legal: the name is a builtin and the argument list fits it (`argsOK`: count within the arity, `&`
    exactly where the builtin wants an expression reference) -/
def Legal (c : Token × List PTree) : Prop :=
  c.1.type = .unquotedIdentifier ∧ ∃ spec, lookupBuiltin c.1.value = some spec ∧ argsOK spec c.2 = true

theorem rhs_cases {rhs : PTree} {n : Nat} (h : (rhs.isIcur || (wp true rhs && decide (n < llevel rhs))) = true) :
    rhs = .icur ∨ wp true rhs = true := by
  cases hi : rhs.isIcur
  · simp only [hi, Bool.false_or, Bool.and_eq_true] at h; exact Or.inr h.1
  · exact Or.inl (GrammarF0.isIcur_eq hi)

theorem left_cases' {b : Bool} {l : PTree} {X : Bool} {lvl : Nat}
    (h : (if l.isIcur = true then X else wp b l && decide (lvl ≤ rlevel l)) = true) : l = .icur ∨ wp b l = true := by
  rcases GrammarF2.left_cases h with ⟨h, _⟩ | ⟨_, h, _⟩
  · exact Or.inl h
  · exact Or.inr h

mutual
theorem calls_legal : ∀ (b : Bool) (t : PTree), wp b t = true → ∀ c ∈ calls t, Legal c
  | _, .icur, h, _, _ => by simp [wp] at h
  | _, .atom _, _, c, hc => by simp [calls] at hc
  | b, .paren t, h, c, hc => by
    simp only [wp, Bool.and_eq_true] at h
    exact calls_legal false t h.2 c (by simpa [calls] using hc)
  | b, .not t, h, c, hc => by
    simp only [wp, Bool.and_eq_true] at h
    exact calls_legal false t h.1.2 c (by simpa [calls] using hc)
  | b, .neg _ t, h, c, hc => by
    simp only [wp, Bool.and_eq_true] at h
    exact calls_legal false t h.1.2 c (by simpa [calls] using hc)
  | b, .pos t, h, c, hc => by
    simp only [wp, Bool.and_eq_true] at h
    exact calls_legal false t h.1.2 c (by simpa [calls] using hc)
  | b, .bin op l r, h, c, hc => by
    simp only [wp] at h
    split at h
    · cases h
    · simp only [Bool.and_eq_true] at h
      simp only [calls, List.mem_append] at hc
      rcases hc with hc | hc
      · exact calls_legal b l h.1.1.1.2 c hc
      · exact calls_legal false r h.1.2 c hc
  | b, .dotId l r, h, c, hc => by
    simp only [wp, Bool.and_eq_true] at h
    simp only [calls, List.mem_append] at hc
    rcases hc with hc | hc
    · rcases left_cases' h.1.1.1 with rfl | hl
      · simp [calls] at hc
      · exact calls_legal b l hl c hc
    · exact calls_legal false r h.1.1.2 c hc
  | b, .dotList l es, h, c, hc => by
    simp only [wp, Bool.and_eq_true] at h
    simp only [calls, List.mem_append] at hc
    rcases hc with hc | hc
    · rcases left_cases' h.1.1 with rfl | hl
      · simp [calls] at hc
      · exact calls_legal b l hl c hc
    · exact callsL_legal es h.2 c hc
  | b, .dotHash l kvs, h, c, hc => by
    simp only [wp, Bool.and_eq_true] at h
    simp only [calls, List.mem_append] at hc
    rcases hc with hc | hc
    · rcases left_cases' h.1.1 with rfl | hl
      · simp [calls] at hc
      · exact calls_legal b l hl c hc
    · exact callsKV_legal keyOK kvs h.2 c hc
  | b, .dotStarList l, h, c, hc => by
    simp only [wp] at h
    simp only [calls] at hc
    rcases left_cases' (lvl := lvlDot) (X := b) h with rfl | hl
    · simp [calls] at hc
    · exact calls_legal b l hl c hc
  | b, .index l n, h, c, hc => by
    simp only [wp, Bool.and_eq_true] at h
    simp only [calls] at hc
    rcases left_cases' h.1 with rfl | hl
    · simp [calls] at hc
    · exact calls_legal b l hl c hc
  | b, .call name args, h, c, hc => by
    simp only [wp, Bool.and_eq_true, beq_iff_eq] at h
    simp only [calls, List.mem_cons] at hc
    rcases hc with rfl | hc
    · refine ⟨h.1.1.2, ?_⟩
      have h2 := h.1.2
      split at h2
      · cases h2
      · rename_i spec hs; exact ⟨spec, hs, h2⟩
    · exact callsArgs_legal args h.2 c hc
  | _, .ref _, h, _, _ => by simp [wp] at h
  | b, .letIn bs body, h, c, hc => by
    simp only [wp, Bool.and_eq_true] at h
    simp only [calls, List.mem_append] at hc
    rcases hc with hc | hc
    · exact callsKV_legal isVarTok bs h.1.2 c hc
    · exact calls_legal false body h.2 c hc
  | b, .multiList es, h, c, hc => by
    simp only [wp, Bool.and_eq_true] at h
    exact callsL_legal es h.2 c (by simpa [calls] using hc)
  | b, .multiHash kvs, h, c, hc => by
    simp only [wp, Bool.and_eq_true] at h
    exact callsKV_legal keyOK kvs h.2 c (by simpa [calls] using hc)
  | b, .star l rhs, h, c, hc => by
    simp only [wp, Bool.and_eq_true] at h
    simp only [calls, List.mem_append] at hc
    rcases hc with hc | hc
    · rcases left_cases' h.1 with rfl | hl
      · simp [calls] at hc
      · exact calls_legal b l hl c hc
    · rcases rhs_cases (by simpa [Bool.and_eq_true] using h.2) with rfl | hr
      · simp [calls] at hc
      · exact calls_legal true rhs hr c hc
  | b, .ostar l rhs, h, c, hc => by
    simp only [wp, Bool.and_eq_true] at h
    simp only [calls, List.mem_append] at hc
    rcases hc with hc | hc
    · rcases left_cases' h.1 with rfl | hl
      · simp [calls] at hc
      · exact calls_legal b l hl c hc
    · rcases rhs_cases (by simpa [Bool.and_eq_true] using h.2) with rfl | hr
      · simp [calls] at hc
      · exact calls_legal true rhs hr c hc
  | b, .flat l rhs, h, c, hc => by
    simp only [wp, Bool.and_eq_true] at h
    simp only [calls, List.mem_append] at hc
    rcases hc with hc | hc
    · rcases left_cases' h.1 with rfl | hl
      · simp [calls] at hc
      · exact calls_legal b l hl c hc
    · rcases rhs_cases (by simpa [Bool.and_eq_true] using h.2) with rfl | hr
      · simp [calls] at hc
      · exact calls_legal true rhs hr c hc
  | b, .filt l cnd rhs, h, c, hc => by
    simp only [wp, Bool.and_eq_true] at h
    simp only [calls, List.mem_append] at hc
    rcases hc with (hc | hc) | hc
    · rcases left_cases' h.1.1 with rfl | hl
      · simp [calls] at hc
      · exact calls_legal b l hl c hc
    · exact calls_legal false cnd h.1.2 c hc
    · rcases rhs_cases (by simpa [Bool.and_eq_true] using h.2) with rfl | hr
      · simp [calls] at hc
      · exact calls_legal true rhs hr c hc
  | b, .slice l _ _ _ rhs, h, c, hc => by
    simp only [wp, Bool.and_eq_true] at h
    simp only [calls, List.mem_append] at hc
    rcases hc with hc | hc
    · rcases left_cases' h.1.1 with rfl | hl
      · simp [calls] at hc
      · exact calls_legal b l hl c hc
    · rcases rhs_cases (by simpa [Bool.and_eq_true] using h.2) with rfl | hr
      · simp [calls] at hc
      · exact calls_legal true rhs hr c hc
theorem callsL_legal : ∀ (es : List PTree), wpL es = true → ∀ c ∈ callsL es, Legal c
  | [], _, c, hc => by simp [callsL] at hc
  | e :: es, h, c, hc => by
    simp only [wpL, Bool.and_eq_true] at h
    simp only [callsL, List.mem_append] at hc
    rcases hc with hc | hc
    · exact calls_legal false e h.1 c hc
    · exact callsL_legal es h.2 c hc
theorem callsArgs_legal : ∀ (es : List PTree), wpArgs es = true → ∀ c ∈ callsL es, Legal c
  | [], _, c, hc => by simp [callsL] at hc
  | e :: es, h, c, hc => by
    rw [GrammarF2.wpArgs_cons, Bool.and_eq_true] at h
    simp only [callsL, List.mem_append] at hc
    rcases hc with hc | hc
    · cases e with
      | ref t => exact calls_legal false t (by simpa [GrammarF2.unref] using h.1) c (by simpa [calls] using hc)
      | _ => exact calls_legal false _ (by simpa [GrammarF2.unref] using h.1) c hc
    · exact callsArgs_legal es h.2 c hc
theorem callsKV_legal : ∀ (ok : Token → Bool) (kvs : List (Token × PTree)), wpKVs ok kvs = true →
    ∀ c ∈ callsKV kvs, Legal c
  | _, [], _, c, hc => by simp [callsKV] at hc
  | ok, (k, e) :: rest, h, c, hc => by
    simp only [wpKVs, Bool.and_eq_true] at h
    simp only [callsKV, List.mem_append] at hc
    rcases hc with hc | hc
    · exact calls_legal false e h.1.2 c hc
    · exact callsKV_legal ok rest h.2 c hc
end

/-- **in a well-formed tree every call, at any depth, is legal**: its name is one of the builtins and its argument
    list fits that builtin (count within the signature, `&` exactly where an expression reference is wanted) — the
    grammar's well-formedness `wp (.call …)` is checked at every node -/
theorem wellPrec_calls_legal {t : PTree} (h : WellPrec t) : ∀ c ∈ calls t, Legal c := calls_legal false t h

/-- what "legal" says about the count, by the way the builtin takes its arguments -/
theorem legal_fixed {name : Token} {args : List PTree} (h : Legal (name, args)) {mn mx : Nat} {mk : List INode → INode}
    (hl : lookupBuiltin name.value = some (.fixed mn mx mk)) :
    mn ≤ args.length ∧ args.length ≤ mx ∧ ∀ a ∈ args, a.isRef = false := by
  obtain ⟨_, spec, hs, ha⟩ := h
  simp only at hs ha
  rw [hl] at hs; cases hs
  simp only [argsOK, Bool.and_eq_true, decide_eq_true_eq, List.all_eq_true, Bool.not_eq_true'] at ha
  exact ⟨ha.1.2.1, ha.1.2.2, ha.2⟩
theorem legal_varArg {name : Token} {args : List PTree} (h : Legal (name, args)) {mk : List INode → INode}
    (hl : lookupBuiltin name.value = some (.varArg mk)) : 1 ≤ args.length ∧ ∀ a ∈ args, a.isRef = false := by
  obtain ⟨_, spec, hs, ha⟩ := h
  simp only at hs ha
  rw [hl] at hs; cases hs
  simp only [argsOK, Bool.and_eq_true, decide_eq_true_eq, List.all_eq_true, Bool.not_eq_true'] at ha
  exact ha
theorem legal_expArg {name : Token} {args : List PTree} (h : Legal (name, args)) {mk : INode → INode → INode}
    (hl : lookupBuiltin name.value = some (.expArg mk)) : ∃ a e, args = [a, .ref e] ∧ a.isRef = false := by
  obtain ⟨_, spec, hs, ha⟩ := h
  simp only at hs ha
  rw [hl] at hs; cases hs
  match args, ha with
  | [a, e], ha =>
    simp only [argsOK, Bool.and_eq_true, Bool.not_eq_true'] at ha
    obtain ⟨t, rfl⟩ := GrammarF2.isRef_eq ha.2
    exact ⟨a, t, rfl, ha.1⟩
theorem legal_mapArg {name : Token} {args : List PTree} (h : Legal (name, args)) {mk : INode → INode → INode}
    (hl : lookupBuiltin name.value = some (.mapArg mk)) : ∃ e a, args = [.ref e, a] ∧ a.isRef = false := by
  obtain ⟨_, spec, hs, ha⟩ := h
  simp only at hs ha
  rw [hl] at hs; cases hs
  match args, ha with
  | [e, a], ha =>
    simp only [argsOK, Bool.and_eq_true, Bool.not_eq_true'] at ha
    obtain ⟨t, rfl⟩ := GrammarF2.isRef_eq ha.1
    exact ⟨t, a, rfl, ha.2⟩

/-- **whatever compiles has only legal calls**: the text is the printing of a well-formed tree (C04G.parse_sound), and
    every call in that tree — nested at any depth: inside arguments, brackets, projections, `let` — has a count within
    its builtin's signature.  Contrapositive: a text one of whose calls has a wrong count does not compile. -/
theorem parse_ok_calls_legal {e : Bytes} {n : INode} (h : Parser.parse e = .ok n) :
    ∃ t : PTree, WellPrec t ∧ lexAll e = (Grammar.flatten t ++ [Pratt.endTok], none) ∧ erase t = n ∧
      ∀ c ∈ calls t, Legal c := by
  obtain ⟨t, h1, h2, h3, _⟩ := C04G.parse_sound h
  exact ⟨t, h1, h2, h3, wellPrec_calls_legal h1⟩

/-- `sort_by(a, &b)[0]`: one call, legal; `length(abs(a))`: two calls, both found -/
example : calls Grammar.Ex.e12 =
    [(⟨.unquotedIdentifier, Grammar.Ex.bs "sort_by"⟩, [Grammar.Ex.idt "a", .ref (Grammar.Ex.idt "b")])] := rfl
example : ∀ c ∈ calls Grammar.Ex.e12, Legal c := wellPrec_calls_legal (by decide +kernel)
example : (calls (.call ⟨.unquotedIdentifier, Grammar.Ex.bs "length"⟩
    [.call ⟨.unquotedIdentifier, Grammar.Ex.bs "abs"⟩ [Grammar.Ex.idt "a"]])).length = 2 := rfl
/-- a tree with a nested two-argument `abs` is not well formed -/
example : ¬ WellPrec (.multiList [.call ⟨.unquotedIdentifier, Grammar.Ex.bs "abs"⟩
    [Grammar.Ex.idt "a", Grammar.Ex.idt "b"]]) := by decide +kernel

/-! ### the converse: a wrong count in ANY context is reported as an arity error

  `C02CArity.Bad .invalidFunctionCall b p t` (`Proofs/C02CArity3.lean`, purely syntactic: `WellPrec`, `llevel`, `rlevel`,
  counts) says that `t` is well formed up to and including everything to the left of ONE call whose argument count is
  outside the signature of its builtin (no argument at all; fewer than `min` / more than `max` plain arguments; `sort_by`
  & co or `map` with a count other than two) — the call sitting in any position of the grammar: operand of a prefix or
  binary operator, of `.`, element of `[…]` / `.[…]`, member of `{…}` / `.{…}`, argument of another call (plain or `&`),
  binding or body of `let`, condition of `[?…]`, right-hand side of any of the five projections, nested to any depth.
  What follows the call is arbitrary. -/

/-- **an illegal argument count, nested anywhere, is an arity error**: `Compile` fails with the arity category, and
    `Search` reports it whatever the data -/
theorem nested_call_arity {t : PTree} (h : C02CArity.Bad .invalidFunctionCall false 1 t) {e : Bytes}
    (hl : lexAll e = (Grammar.flatten t ++ [Pratt.endTok], none)) :
    compile e = .error .invalidFunctionCall ∧ ∀ d, search e d = .err [Cat.arity] := by
  have := C02CArity.nested_arity h hl
  exact ⟨this, fun d => by simp only [search, this]; rfl⟩

/-- the token-level form: tokens on which the parser fails with the arity error (`C02CArity.Fails`, e.g. by
    `C02CArity.bad_fails`) followed by ANY tokens -/
theorem nested_call_arity_tokens {toks rest : List Token} (h : C02CArity.Fails .invalidFunctionCall false 1 toks)
    {e : Bytes} (hl : lexAll e = (toks ++ rest, none)) : compile e = .error .invalidFunctionCall :=
  C02CArity.nested_arity_tokens h hl

/-- the two directions side by side, for one text: if it is the printing of a tree that is `Bad` at a call it does not
    compile (arity); if it compiles, it is the printing of a well-formed tree, all of whose calls are legal -/
theorem arity_dichotomy {e : Bytes} :
    (∀ t, C02CArity.Bad .invalidFunctionCall false 1 t → lexAll e = (Grammar.flatten t ++ [Pratt.endTok], none) →
      compile e = .error .invalidFunctionCall) ∧
    (∀ n, compile e = .ok n → ∃ t, WellPrec t ∧ lexAll e = (Grammar.flatten t ++ [Pratt.endTok], none) ∧
      erase t = n ∧ ∀ c ∈ calls t, Legal c) :=
  ⟨fun _ h hl => (nested_call_arity h hl).1, fun _ h => parse_ok_calls_legal h⟩

/-- `a.abs(b,c)` and `[abs()]` -/
example : search (Grammar.Ex.bs "a.abs(b,c)") .null = .err [Cat.arity] :=
  (nested_call_arity (t := .dotId (Grammar.Ex.idt "a")
      (.call ⟨.unquotedIdentifier, Grammar.Ex.bs "abs"⟩ [Grammar.Ex.idt "b", Grammar.Ex.idt "c"]))
    (.dotIdR (C02CArity.leftOK_top rfl (by decide) (by decide) (by decide)) (by decide)
      (.fixedCount (mn := 1) (mx := 1) (mk := callN .abs) rfl rfl
        (fun a ha => by
          simp only [List.mem_cons, List.not_mem_nil, or_false] at ha
          rcases ha with rfl | rfl <;> rfl)
        (Or.inr (Nat.lt_succ_self 1))))
    (by decide +kernel)).2 .null
example : search (Grammar.Ex.bs "[abs()]") .null = .err [Cat.arity] :=
  (nested_call_arity (t := .multiList [.call ⟨.unquotedIdentifier, Grammar.Ex.bs "abs"⟩ []])
    (.multiList (pre := []) (post := []) (fun _ h => by cases h)
      (.noArgs (spec := .fixed 1 1 (callN .abs)) rfl rfl)) (by decide +kernel)).2 .null

end nested

/-! ## 3. `merge`: the later argument wins, as a statement about lookup -/

theorem lookup_last_of_nodup (k : Bytes) : ∀ (o : List (Bytes × Val)), (o.map Prod.fst).Nodup →
    (o.reverse.find? (fun p => p.1 == k)).map Prod.snd = objLookup k o
  | [], _ => rfl
  | (k', v) :: rest, hnd => by
    simp only [List.map_cons, List.nodup_cons] at hnd
    rw [List.reverse_cons, List.find?_append]
    have ih := lookup_last_of_nodup k rest hnd.2
    by_cases hk : k = k'
    · subst hk
      have : rest.reverse.find? (fun p => p.1 == k) = none := by
        rw [List.find?_eq_none]
        intro p hp hpk
        simp only [beq_iff_eq] at hpk
        exact hnd.1 (by rw [← hpk]; exact List.mem_map_of_mem (List.mem_reverse.mp hp))
      simp [this, objLookup]
    · have hk' : ((k', v).1 == k) = false := by simp [Ne.symm hk]
      simp only [objLookup, hk, if_false, ← ih]
      cases rest.reverse.find? (fun p => p.1 == k) <;> simp [List.find?, hk']

theorem lookup_foldl_obj (k : Bytes) (o acc : List (Bytes × Val)) (hnd : (o.map Prod.fst).Nodup) :
    objLookup k (o.foldl (fun a p => objInsert p.1 p.2 a) acc) = (objLookup k o).or (objLookup k acc) := by
  rw [C02B.lookup_foldl_insert, ← lookup_last_of_nodup k o hnd]
  cases o.reverse.find? (fun p => p.1 == k) <;> rfl

/-- the objects merged left to right into `acc` -/
def mergeObjs (os : List (List (Bytes × Val))) (acc : List (Bytes × Val)) : List (Bytes × Val) :=
  os.foldl (fun a o => o.foldl (fun a p => objInsert p.1 p.2 a) a) acc

theorem mergeArgs_objs : ∀ (os : List (List (Bytes × Val))) (acc : List (Bytes × Val)),
    mergeArgs (os.map Val.obj) acc = .ok (mergeObjs os acc)
  | [], _ => rfl
  | o :: os, acc => by simp only [List.map_cons, mergeArgs, mergeObjs, List.foldl_cons]; exact mergeArgs_objs os _

theorem lookup_mergeObjs (k : Bytes) : ∀ (os : List (List (Bytes × Val))) (acc : List (Bytes × Val)),
    (∀ o ∈ os, (o.map Prod.fst).Nodup) →
    objLookup k (mergeObjs os acc) =
      ((os.reverse.find? (fun o => (objLookup k o).isSome)).bind (objLookup k)).or (objLookup k acc)
  | [], acc, _ => by simp [mergeObjs]
  | o :: os, acc, hnd => by
    have ih := lookup_mergeObjs k os (o.foldl (fun a p => objInsert p.1 p.2 a) acc) (fun x hx => hnd x (by simp [hx]))
    simp only [mergeObjs, List.foldl_cons] at ih ⊢
    rw [ih, lookup_foldl_obj k o acc (hnd o (by simp)), List.reverse_cons, List.find?_append]
    cases hf : os.reverse.find? (fun o => (objLookup k o).isSome) with
    | some o' =>
      have := List.find?_some hf
      simp only [Option.isSome_iff_exists] at this
      obtain ⟨v, hv⟩ := this
      simp [hv]
    | none =>
      cases ho : objLookup k o with
      | none => simp [List.find?, ho]
      | some v => simp [List.find?, ho]

/-- **`merge(o₁, …, oₙ)`: looking a key up in the result gives its value in the LAST argument that has it** (and
    nothing when no argument has it).  `os` are the member lists of the argument objects (keys unique, as in every
    JSON object). -/
theorem merge_lookup (root cur : Val) (env : Env) (ns : List INode) (os : List (List (Bytes × Val)))
    (h : ievalList root ns cur env = .ok (os.map Val.obj)) (hnd : ∀ o ∈ os, (o.map Prod.fst).Nodup) :
    ∃ kvs, ieval root (.merge ns) cur env = .ok (.obj kvs) ∧
      ∀ k, objLookup k kvs = (os.reverse.find? (fun o => (objLookup k o).isSome)).bind (objLookup k) := by
  refine ⟨mergeObjs os [], ?_, fun k => ?_⟩
  · simp only [ieval, C02.ievalMerge_of_list root cur env ns _ [] h, mergeArgs_objs, Res.ok_bind, Res.pure_eq]
  · rw [lookup_mergeObjs k os [] hnd]
    simp [objLookup]

/-- … in particular: a key of the last argument has that argument's value, whatever the earlier ones say -/
theorem merge_last_wins (root cur : Val) (env : Env) (ns : List INode) (os : List (List (Bytes × Val)))
    (last : List (Bytes × Val)) (h : ievalList root ns cur env = .ok ((os ++ [last]).map Val.obj))
    (hnd : ∀ o ∈ os ++ [last], (o.map Prod.fst).Nodup) (k : Bytes) (v : Val) (hk : objLookup k last = some v) :
    ∃ kvs, ieval root (.merge ns) cur env = .ok (.obj kvs) ∧ objLookup k kvs = some v := by
  obtain ⟨kvs, h1, h2⟩ := merge_lookup root cur env ns (os ++ [last]) h hnd
  refine ⟨kvs, h1, ?_⟩
  rw [h2 k, List.reverse_append]
  simp [hk]

/-- `merge({"a":1,"b":2}, {"a":2,"c":3}, {"a":5})` = `{"a":5,"b":2,"c":3}` (Go: the same) -/
example : ieval .null (.merge [.lit (.obj [([0x61], .num (.int .i64 1)), ([0x62], .num (.int .i64 2))]),
      .lit (.obj [([0x61], .num (.int .i64 2)), ([0x63], .num (.int .i64 3))]),
      .lit (.obj [([0x61], .num (.int .i64 5))])]) .null [] =
    .ok (.obj [([0x61], .num (.int .i64 5)), ([0x62], .num (.int .i64 2)), ([0x63], .num (.int .i64 3))]) := by rfl
example : ∃ kvs, ieval .null (.merge [.lit (.obj [([0x61], .num (.int .i64 1))]), .lit (.obj [([0x61], .null)])]) .null []
    = .ok (.obj kvs) ∧ objLookup [0x61] kvs = some .null :=
  merge_last_wins .null .null [] _ [[([0x61], .num (.int .i64 1))]] [([0x61], .null)] rfl
    (by intro o ho; simp at ho; rcases ho with rfl | rfl <;> simp) [0x61] .null rfl

/-! ## 3b. `find_first` / `find_last` with a negative start -/

theorem startOffset_neg (s : Bytes) (i : Int) (h : i < 0) : startOffset s i = startOffset s 0 := by
  simp [startOffset, h, runeOffset]

/-- **a negative `start` is clamped to 0**: `find_first(s, p, -k)` = `find_first(s, p, 0)`, `find_last` likewise —
    the search covers the whole string.  (The JMESPath Community python implementation is said to count a negative
    start from the END of the string, as Python slices do; that cannot be checked offline.  This records what the Go
    code does: `find_first('abcabc','b',-1)` is 1 and `find_last('abcabc','b',-1)` is 4 in Go, where counting from
    the end would give null and 4.) -/
theorem findFrom_negative_start (last : Bool) (s p : Bytes) (st : Val) (i : Int) (hi : intArg st = .ok i)
    (hneg : i < 0) :
    findFrom last (.str s) (.str p) st = findFrom last (.str s) (.str p) (.num (.int .i64 0)) := by
  simp only [findFrom, C02.strArg_str, Res.ok_bind, hi, C02.intArg_i64, startOffset_neg s i hneg]

theorem findFirst_negative_start (s p : Bytes) (i : Int) (hneg : i < 0) :
    applyFn .findFirstFrom [.str s, .str p, .num (.int .i64 i)] =
      applyFn .findFirstFrom [.str s, .str p, .num (.int .i64 0)] :=
  findFrom_negative_start false s p _ i (C02.intArg_i64 i) hneg
theorem findLast_negative_start (s p : Bytes) (i : Int) (hneg : i < 0) :
    applyFn .findLastFrom [.str s, .str p, .num (.int .i64 i)] =
      applyFn .findLastFrom [.str s, .str p, .num (.int .i64 0)] :=
  findFrom_negative_start true s p _ i (C02.intArg_i64 i) hneg

/-- the four-argument forms: a negative `start` is 0 as well; a negative `finish` gives null -/
theorem findBetween_negative_start (last : Bool) (s p : Bytes) (st fin : Val) (i : Int) (hi : toInt st = .int i)
    (hneg : i < 0) :
    findBetween last (.str s) (.str p) st fin = findBetween last (.str s) (.str p) (.num (.int .i64 0)) fin := by
  have h0 : toInt (.num (.int .i64 0)) = .int 0 := rfl
  simp only [findBetween, C02.strArg_str, Res.ok_bind, hi, h0, startOffset_neg s i hneg]

theorem findBetween_negative_finish (last : Bool) (s p : Bytes) (st fin : Val) (i j : Int) (hi : toInt st = .int i)
    (hj : intArg fin = .ok j) (hneg : j < 0) : findBetween last (.str s) (.str p) st fin = .ok .null := by
  have : finishOffset s j = none := by simp [finishOffset, hneg]
  simp only [findBetween, C02.strArg_str, Res.ok_bind, hi, hj, this]
  cases startOffset s i <;> rfl

/-- Go: `find_first('abcabc','b',-1)` = 1, `find_first('abcabc','b',-100)` = 1, `find_last('abcabc','b',-1)` = 4,
    `find_last('abcabc','b',-2)` = 4, `find_first('abcabc','b',-2,2)` = 1, `find_first('abcabc','b',0,-1)` = null -/
example : applyFn .findFirstFrom [.str [0x61,0x62,0x63,0x61,0x62,0x63], .str [0x62], .num (.int .i64 (-1))]
    = .ok (.num (.int .i64 1)) := by rfl
example : applyFn .findFirstFrom [.str [0x61,0x62,0x63,0x61,0x62,0x63], .str [0x62], .num (.int .i64 (-100))]
    = .ok (.num (.int .i64 1)) := by rfl
example : applyFn .findLastFrom [.str [0x61,0x62,0x63,0x61,0x62,0x63], .str [0x62], .num (.int .i64 (-1))]
    = .ok (.num (.int .i64 4)) := by rfl
example : applyFn .findLastFrom [.str [0x61,0x62,0x63,0x61,0x62,0x63], .str [0x62], .num (.int .i64 (-2))]
    = .ok (.num (.int .i64 4)) := by rfl
example : applyFn .findFirstBetween [.str [0x61,0x62,0x63,0x61,0x62,0x63], .str [0x62], .num (.int .i64 (-2)),
    .num (.int .i64 2)] = .ok (.num (.int .i64 1)) := by rfl
example : applyFn .findFirstBetween [.str [0x61,0x62,0x63,0x61,0x62,0x63], .str [0x62], .num (.int .i64 0),
    .num (.int .i64 (-1))] = .ok .null := by rfl

/-! ## 3c. `to_string`: the JSON text of `encoding/json`, HTML escaping included -/

/-- **`to_string` of anything but a string is its JSON text as `json.Marshal` writes it** (`Json.encode`; a string is
    returned unchanged): compact, members in key order, and with Go's default HTML escaping (below) -/
theorem toString_json_text (v : Val) (h : jsonType v ≠ .string) (he : v.hasEnum2 = false) {b : Bytes}
    (hj : Json.encode v = .ok b) : applyFn .toString [v] = .ok (.str b) :=
  C02B.toString_other v (by intro s hs; subst hs; exact h rfl) he hj

theorem u00_lt : Json.u00 0x3C = [0x5C, 0x75, 0x30, 0x30, 0x33, 0x63] := by decide
theorem u00_gt : Json.u00 0x3E = [0x5C, 0x75, 0x30, 0x30, 0x33, 0x65] := by decide
theorem u00_amp : Json.u00 0x26 = [0x5C, 0x75, 0x30, 0x30, 0x32, 0x36] := by decide

/-- **HTML escaping**: inside a string of the JSON text, `<`, `>` and `&` are written `\u003c`, `\u003e`, `\u0026`
    (six bytes each) — `json.Marshal`'s default, which the standard's `to_string` ("the JSON encoded value") does not
    ask for -/
theorem encStringAux_html (n : Nat) (b : Nat) (t : Bytes) (hb : b = 0x3C ∨ b = 0x3E ∨ b = 0x26) :
    Json.encStringAux (n + 1) (b :: t) = Json.u00 b ++ Json.encStringAux n t := by
  rcases hb with rfl | rfl | rfl <;> simp [Json.encStringAux]

theorem encodeL_strs : ∀ ss : List Bytes,
    Json.encodeL (ss.map Val.str) = .ok (Json.intersperse [0x2C] (ss.map Json.encString))
  | [] => rfl
  | [s] => rfl
  | s :: s' :: ss => by
    have ih := encodeL_strs (s' :: ss)
    simp only [List.map_cons] at ih ⊢
    simp only [Json.encodeL, Json.encode, ih, Json.intersperse]

theorem hasEnum2L_strs : ∀ ss : List Bytes, Val.hasEnum2L (ss.map Val.str) = false
  | [] => rfl
  | s :: ss => by simp [Val.hasEnum2L, Val.hasEnum2, hasEnum2L_strs ss]

/-- **`to_string` of an array of strings**: `[` the escaped strings separated by `,` `]` -/
theorem toString_array_of_strings (ss : List Bytes) :
    applyFn .toString [.arr .plain (ss.map Val.str)] =
      .ok (.str ([0x5B] ++ Json.intersperse [0x2C] (ss.map Json.encString) ++ [0x5D])) := by
  apply toString_json_text _ (by intro h; cases h)
  · simp [Val.hasEnum2, hasEnum2L_strs]
  · simp only [Json.encode, encodeL_strs]

/-- `to_string(["<a>&", "\u2028"])` is the 31-byte text `["\u003ca\u003e\u0026","\u2028"]` — exactly what Go
    returns; `to_string("<")` is `<` itself (a string is not re-encoded) -/
example : applyFn .toString [.arr .plain [.str [0x3C, 0x61, 0x3E, 0x26], .str [0xE2, 0x80, 0xA8]]] =
    .ok (.str ([0x5B, 0x22] ++ [0x5C, 0x75, 0x30, 0x30, 0x33, 0x63] ++ [0x61] ++ [0x5C, 0x75, 0x30, 0x30, 0x33, 0x65] ++
      [0x5C, 0x75, 0x30, 0x30, 0x32, 0x36] ++ [0x22, 0x2C, 0x22] ++ [0x5C, 0x75, 0x32, 0x30, 0x32, 0x38] ++ [0x22, 0x5D])) := by
  rfl
example : applyFn .toString [.str [0x3C]] = .ok (.str [0x3C]) := rfl
/-- member names are escaped too: `to_string({"<":"&>"})` = `{"\u003c":"\u0026\u003e"}` (Go: the same) -/
example : applyFn .toString [.obj [([0x3C], .str [0x26, 0x3E])]] =
    .ok (.str ([0x7B, 0x22] ++ [0x5C, 0x75, 0x30, 0x30, 0x33, 0x63] ++ [0x22, 0x3A, 0x22] ++
      [0x5C, 0x75, 0x30, 0x30, 0x32, 0x36] ++ [0x5C, 0x75, 0x30, 0x30, 0x33, 0x65] ++ [0x22, 0x7D])) := by rfl

end Jmes.C02C
