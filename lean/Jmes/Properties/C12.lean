/-
  C12 — slices select exactly the elements of the Python `start:stop:step` walk, for every length and every
  (absent or 64-bit) start, stop, step; an empty result when the walk is empty; no evaluation error at all (the only
  slice error is the parse error for step 0).

  The specification (`pyIndices`, `pyWalk`) is in `Jmes/Spec/Slice.lean`, independent of the model.
-/
import Jmes.Model.Api
import Jmes.Spec.Slice
namespace Jmes.C12
open Jmes.Spec

/-! ## How the parser hands optional bounds to the evaluator (`indexP` in `Model/Parser.lean`)

  absent start = `0` and absent stop = `MaxInt` for a positive step; absent start = `MaxInt` and absent stop = `MinInt`
  for a negative step; an explicit bound is passed as it is. -/

def encStart (step : Int) : Option Int → Int
  | some v => v
  | none => if step > 0 then 0 else MaxInt

def encStop (step : Int) : Option Int → Int
  | some v => v
  | none => if step > 0 then MaxInt else MinInt

/-- indices selected by a `clamp1` result `(a, b)`: `a, a+1, …, b-1` -/
def walk1 : Option (Int × Int) → List Int
  | none => []
  | some (a, b) => (List.range (b - a).toNat).map (fun (k : Nat) => a + (k : Int))

/-- indices selected by a `clampStep` result `(a, cnt)`: `a, a+step, …` (`cnt` of them, as `pickStep` visits them) -/
def walkStep (step : Int) : Option (Int × Int) → List Int
  | none => []
  | some (a, cnt) => (List.range cnt.toNat).map (fun (k : Nat) => a + (k : Int) * step)

/-! ## Arithmetic -/

/-- the element count computed by `clampStep` -/
def ceilDiv (c s : Int) : Int := if Int.tmod c s > 0 then Int.tdiv c s + 1 else Int.tdiv c s

theorem ceilDiv_pos (c s : Int) (hc : 0 < c) (hs : 0 < s) : ceilDiv c s = (c - 1) / s + 1 := by
  unfold ceilDiv
  rw [Int.tdiv_eq_ediv_of_nonneg (by omega), Int.tmod_eq_emod_of_nonneg (by omega)]
  have h1 := Int.emod_nonneg c (b := s) (by omega)
  have h2 := Int.emod_lt_of_pos c hs
  have h3 : c % s + c / s * s = c := by
    have := Int.emod_add_mul_ediv c s
    rw [Int.mul_comm] at this; exact this
  generalize c % s = r at *
  generalize c / s = q at *
  subst h3
  split
  · have e : r + q * s - 1 = (r - 1) + q * s := by omega
    have z : (r - 1) / s = 0 := Int.ediv_eq_zero_of_lt (by omega) (by omega)
    rw [e, Int.add_mul_ediv_right _ _ (by omega), z]
    omega
  · have h0 : r = 0 := by omega
    subst h0
    have e : 0 + q * s - 1 = (s - 1) + (q - 1) * s := by
      rw [Int.sub_mul]; omega
    have z : (s - 1) / s = 0 := Int.ediv_eq_zero_of_lt (by omega) (by omega)
    rw [e, Int.add_mul_ediv_right _ _ (by omega), z]
    omega

/-- Go's `step * -1` on a 64-bit `int`: exact except for `step = MinInt`, where it wraps to `MinInt` -/
theorem wrap64_neg (step : Int) (h1 : MinInt < step) (h2 : step < 0) : wrap64 (step * -1) = -step := by
  simp only [wrap64, MinInt] at *; omega

theorem wrap64_neg_min : wrap64 (MinInt * -1) = MinInt := by
  simp only [wrap64, MinInt]; omega

/-- the count `clampStep` computes for a negative step is Python's, *including* `step = MinInt` where the negation
    wraps: the divisor is then `MinInt` itself, the truncated quotient `0` and the remainder `c > 0`, so the count is `1`,
    which is what Python gives for a step that large. -/
theorem ceilDiv_neg (c step : Int) (hc : 0 < c) (hcM : c ≤ MaxInt) (h1 : MinInt ≤ step) (h2 : step < 0) :
    ceilDiv c (wrap64 (step * -1)) = (c - 1) / (-step) + 1 := by
  by_cases h : step = MinInt
  · subst h
    rw [wrap64_neg_min]
    unfold ceilDiv
    have hM : MinInt = -(2 ^ 63 : Int) := rfl
    have hc' : c < 2 ^ 63 := by simp only [MaxInt] at hcM; omega
    rw [hM, Int.tdiv_neg, Int.tmod_neg, Int.tdiv_eq_zero_of_lt (by omega) hc', Int.tmod_eq_of_lt (by omega) hc']
    simp only [hc, if_true, Int.neg_neg]
    omega
  · rw [wrap64_neg step (by omega) h2]
    exact ceilDiv_pos c (-step) hc (by omega)

/-! ## The clamps are Python's `slice.indices` -/

theorem clamp1_char (n s e : Int) (hn : 0 ≤ n) :
    match clamp1 n s e with
    | none => pyAdjust n 0 n e ≤ pyAdjust n 0 n s
    | some (a, b) => a = pyAdjust n 0 n s ∧ b = pyAdjust n 0 n e := by
  unfold clamp1 pyAdjust
  by_cases h1 : s < 0 <;> by_cases h2 : s < -n <;> by_cases h3 : s ≥ n <;>
  by_cases h4 : e < 0 <;> by_cases h5 : e < -n <;> by_cases h6 : e ≥ n <;>
  simp only [h1, h2, h3, h4, h5, h6, if_true, if_false] <;> (try split) <;> omega

/-- closes `a = A ∧ A < B ∧ cnt = ceilDiv (B - A) d` once `a`, `cnt` have been substituted -/
local macro "c12_fin" : tactic =>
  `(tactic| (refine ⟨by omega, by omega, ?_⟩; show ceilDiv _ _ = ceilDiv _ _; congr 1; omega))

theorem clampStep_pos_none (n s e step : Int) (hn : 0 ≤ n) (hstep : step > 0)
    (h : clampStep n s e step = none) : pyAdjust n 0 n e ≤ pyAdjust n 0 n s := by
  unfold clampStep at h
  unfold pyAdjust; dsimp only
  by_cases h1 : s < 0 <;> by_cases h2 : s < -n <;> by_cases h3 : s ≥ n <;>
  by_cases h4 : e < 0 <;> by_cases h5 : e < -n <;> by_cases h6 : e > n <;>
  simp only [hstep, h1, h2, h3, h4, h5, h6, if_true, if_false] at h <;>
  first
  | omega
  | (split at h <;> first | omega | cases h)

theorem clampStep_pos_some (n s e step a cnt : Int) (hn : 0 ≤ n) (hstep : step > 0)
    (h : clampStep n s e step = some (a, cnt)) :
    a = pyAdjust n 0 n s ∧ pyAdjust n 0 n s < pyAdjust n 0 n e ∧
      cnt = ceilDiv (pyAdjust n 0 n e - pyAdjust n 0 n s) step := by
  unfold clampStep at h
  unfold pyAdjust; dsimp only
  by_cases h1 : s < 0 <;> by_cases h2 : s < -n <;> by_cases h3 : s ≥ n <;>
  by_cases h4 : e < 0 <;> by_cases h5 : e < -n <;> by_cases h6 : e > n <;>
  simp only [hstep, h1, h2, h3, h4, h5, h6, if_true, if_false] at h <;>
  first
  | (exfalso; omega)
  | (cases h; done)
  | (cases h; c12_fin)
  | (split at h <;> first | (cases h; done) | (cases h; c12_fin))

theorem clampStep_neg_none (n s e step : Int) (hn : 0 ≤ n) (hstep : ¬ step > 0)
    (h : clampStep n s e step = none) : pyAdjust n (-1) (n - 1) s ≤ pyAdjust n (-1) (n - 1) e := by
  unfold clampStep at h
  unfold pyAdjust; dsimp only
  by_cases h1 : s < 0 <;> by_cases h2 : s < -n <;> by_cases h3 : s ≥ n <;>
  by_cases h4 : e < 0 <;> by_cases h5 : e < -n <;> by_cases h6 : e ≥ n <;>
  simp only [hstep, h1, h2, h3, h4, h5, h6, if_true, if_false] at h <;>
  first
  | omega
  | (split at h <;> first | omega | cases h)

theorem clampStep_neg_some (n s e step a cnt : Int) (hn : 0 ≤ n) (hstep : ¬ step > 0)
    (h : clampStep n s e step = some (a, cnt)) :
    a = pyAdjust n (-1) (n - 1) s ∧ pyAdjust n (-1) (n - 1) e < pyAdjust n (-1) (n - 1) s ∧
      cnt = ceilDiv (pyAdjust n (-1) (n - 1) s - pyAdjust n (-1) (n - 1) e) (wrap64 (step * -1)) := by
  unfold clampStep at h
  unfold pyAdjust; dsimp only
  by_cases h1 : s < 0 <;> by_cases h2 : s < -n <;> by_cases h3 : s ≥ n <;>
  by_cases h4 : e < 0 <;> by_cases h5 : e < -n <;> by_cases h6 : e ≥ n <;>
  simp only [hstep, h1, h2, h3, h4, h5, h6, if_true, if_false] at h <;>
  first
  | (exfalso; omega)
  | (cases h; done)
  | (cases h; c12_fin)
  | (split at h <;> first | (cases h; done) | (cases h; c12_fin))

theorem pyAdjust_bounds (n lo hi v : Int) (h : lo ≤ hi) : lo ≤ pyAdjust n lo hi v ∧ pyAdjust n lo hi v ≤ hi := by
  unfold pyAdjust; dsimp only; omega

/-- An absent bound and its sentinel encoding are clamped to the same value: Python's defaults are what the sentinels
    clamp to. (This is also why an explicit bound *equal* to a sentinel behaves as an absent one.) -/
theorem pyIndices_enc (n : Int) (s? e? : Option Int) (step : Int) (hn : 0 ≤ n) (hM : n ≤ MaxInt) :
    pyIndices n s? e? step =
      if step > 0 then (pyAdjust n 0 n (encStart step s?), pyAdjust n 0 n (encStop step e?), step)
      else (pyAdjust n (-1) (n - 1) (encStart step s?), pyAdjust n (-1) (n - 1) (encStop step e?), step) := by
  have a1 : pyAdjust n 0 n 0 = 0 := by unfold pyAdjust; dsimp only; omega
  have a2 : pyAdjust n 0 n MaxInt = n := by
    unfold pyAdjust; simp only [MaxInt] at *; omega
  have a3 : pyAdjust n (-1) (n - 1) MaxInt = n - 1 := by
    unfold pyAdjust; simp only [MaxInt] at *; omega
  have a4 : pyAdjust n (-1) (n - 1) MinInt = -1 := by
    unfold pyAdjust; simp only [MaxInt, MinInt] at *; omega
  unfold pyIndices
  split <;> rename_i hs
  · cases s? <;> cases e? <;> simp only [encStart, encStop, hs, if_true, a1, a2]
  · cases s? <;> cases e? <;> simp only [encStart, encStop, hs, if_false, a3, a4]

theorem pyCount_one (a b : Int) : (pyCount a b 1).toNat = (b - a).toNat := by
  unfold pyCount
  simp only [show (1 : Int) > 0 by omega, if_true]
  split <;> omega

/-! ## C12: the clamps select the Python walk -/

/--
  `clamp1_spec`: for every length `0 ≤ n ≤ MaxInt` and all optional bounds (any integers; in particular all 64-bit
  ones), handed over in the sentinel encoding of step 1, the indices `a, a+1, …, b-1` selected by `clamp1` (none when it
  returns `none` or `a ≥ b`) are exactly the Python walk.
-/
theorem clamp1_spec (n : Int) (s? e? : Option Int) (hn : 0 ≤ n) (hM : n ≤ MaxInt) :
    walk1 (clamp1 n (encStart 1 s?) (encStop 1 e?)) = pyWalk n s? e? 1 := by
  unfold pyWalk
  rw [pyIndices_enc n s? e? 1 hn hM]
  simp only [show (1 : Int) > 0 by omega, if_true, pyCount_one, Int.mul_one]
  have h := clamp1_char n (encStart 1 s?) (encStop 1 e?) hn
  generalize pyAdjust n 0 n (encStart 1 s?) = A at *
  generalize pyAdjust n 0 n (encStop 1 e?) = B at *
  cases hc : clamp1 n (encStart 1 s?) (encStop 1 e?) with
  | none =>
    rw [hc] at h
    simp only at h
    have : (B - A).toNat = 0 := by omega
    simp only [walk1, this, List.range_zero, List.map_nil]
  | some ab =>
    obtain ⟨a, b⟩ := ab
    rw [hc] at h
    simp only at h
    obtain ⟨rfl, rfl⟩ := h
    rfl

/-- the explicit-value instance: both bounds given (any integers), no sentinel involved, no bound on `n` needed -/
theorem clamp1_spec_explicit (n start stop : Int) (hn : 0 ≤ n) :
    walk1 (clamp1 n start stop) = pyWalk n (some start) (some stop) 1 := by
  unfold pyWalk pyIndices
  simp only [show (1 : Int) > 0 by omega, if_true, pyCount_one, Int.mul_one]
  have h := clamp1_char n start stop hn
  generalize pyAdjust n 0 n start = A at *
  generalize pyAdjust n 0 n stop = B at *
  cases hc : clamp1 n start stop with
  | none =>
    rw [hc] at h
    simp only at h
    have : (B - A).toNat = 0 := by omega
    simp only [walk1, this, List.range_zero, List.map_nil]
  | some ab =>
    obtain ⟨a, b⟩ := ab
    rw [hc] at h
    simp only at h
    obtain ⟨rfl, rfl⟩ := h
    rfl

/-- the absent/absent instance `[:]`: the sentinels `0` and `MaxInt` select `0, …, n-1` -/
theorem clamp1_spec_absent (n : Int) (hn : 0 ≤ n) (hM : n ≤ MaxInt) :
    walk1 (clamp1 n 0 MaxInt) = pyWalk n none none 1 :=
  clamp1_spec n none none hn hM

example : walk1 (clamp1 5 (-4) 4) = [1, 2, 3] ∧ pyWalk 5 (some (-4)) (some 4) 1 = [1, 2, 3] := by decide
example : walk1 (clamp1 5 0 MaxInt) = [0, 1, 2, 3, 4] ∧ pyWalk 5 none none 1 = [0, 1, 2, 3, 4] := by decide
example : walk1 (clamp1 5 3 MaxInt) = pyWalk 5 (some 3) none 1 := clamp1_spec 5 (some 3) none (by decide) (by decide)

/--
  `clampStep_spec`: for every length `0 ≤ n ≤ MaxInt`, every step `≠ 0` with `MinInt ≤ step` (so every non-zero 64-bit
  step, including `MinInt` whose negation wraps) and all optional bounds in the sentinel encoding of that step, the
  indices `a, a+step, …` (`cnt` of them) selected by `clampStep` are exactly the Python walk.
-/
theorem clampStep_spec (n : Int) (s? e? : Option Int) (step : Int) (hn : 0 ≤ n) (hM : n ≤ MaxInt)
    (h0 : step ≠ 0) (hmin : MinInt ≤ step) :
    walkStep step (clampStep n (encStart step s?) (encStop step e?) step) = pyWalk n s? e? step := by
  unfold pyWalk
  rw [pyIndices_enc n s? e? step hn hM]
  by_cases hp : step > 0
  · simp only [hp, if_true]
    have h1 := clampStep_pos_none n (encStart step s?) (encStop step e?) step hn hp
    have h2 := clampStep_pos_some n (encStart step s?) (encStop step e?) step
    generalize pyAdjust n 0 n (encStart step s?) = A at *
    generalize pyAdjust n 0 n (encStop step e?) = B at *
    cases hc : clampStep n (encStart step s?) (encStop step e?) step with
    | none =>
      have := h1 hc
      have : pyCount A B step = 0 := by
        unfold pyCount; simp only [hp, if_true]; split <;> omega
      simp only [walkStep, this, Int.toNat_zero, List.range_zero, List.map_nil]
    | some ab =>
      obtain ⟨a, cnt⟩ := ab
      obtain ⟨rfl, hlt, rfl⟩ := h2 a cnt hn hp hc
      have : pyCount a B step = ceilDiv (B - a) step := by
        rw [ceilDiv_pos _ _ (by omega) hp]
        unfold pyCount; simp only [hp, hlt, if_true]
      simp only [walkStep, this]
  · simp only [hp, if_false]
    have hneg : step < 0 := by omega
    have h1 := clampStep_neg_none n (encStart step s?) (encStop step e?) step hn hp
    have h2 := clampStep_neg_some n (encStart step s?) (encStop step e?) step
    have bA := pyAdjust_bounds n (-1) (n - 1) (encStart step s?) (by omega)
    have bB := pyAdjust_bounds n (-1) (n - 1) (encStop step e?) (by omega)
    generalize pyAdjust n (-1) (n - 1) (encStart step s?) = A at *
    generalize pyAdjust n (-1) (n - 1) (encStop step e?) = B at *
    cases hc : clampStep n (encStart step s?) (encStop step e?) step with
    | none =>
      have := h1 hc
      have : pyCount A B step = 0 := by
        unfold pyCount; simp only [hp, hneg, if_true, if_false]; split <;> omega
      simp only [walkStep, this, Int.toNat_zero, List.range_zero, List.map_nil]
    | some ab =>
      obtain ⟨a, cnt⟩ := ab
      obtain ⟨rfl, hlt, rfl⟩ := h2 a cnt hn hp hc
      have : pyCount a B step = ceilDiv (a - B) (wrap64 (step * -1)) := by
        rw [ceilDiv_neg _ _ (by omega) (by omega) hmin hneg]
        unfold pyCount; simp only [hp, hneg, hlt, if_true, if_false]
      simp only [walkStep, this]

example : walkStep 2 (clampStep 10 1 8 2) = [1, 3, 5, 7] ∧ pyWalk 10 (some 1) (some 8) 2 = [1, 3, 5, 7] := by decide
example : walkStep (-3) (clampStep 10 MaxInt MinInt (-3)) = [9, 6, 3, 0] ∧ pyWalk 10 none none (-3) = [9, 6, 3, 0] := by
  decide
example : walkStep MinInt (clampStep 10 MaxInt MinInt MinInt) = [9] ∧ pyWalk 10 none none MinInt = [9] := by decide

/-! ## Every visited index is in range -/

theorem pyIndices_pos (n : Int) (s? e? : Option Int) (step : Int) (hn : 0 ≤ n) (hp : step > 0) :
    ∃ A B, pyIndices n s? e? step = (A, B, step) ∧ 0 ≤ A ∧ B ≤ n := by
  unfold pyIndices
  simp only [hp, if_true]
  refine ⟨_, _, rfl, ?_, ?_⟩
  · cases s? <;> simp only [pyAdjust] <;> omega
  · cases e? <;> simp only [pyAdjust] <;> omega

theorem pyIndices_neg (n : Int) (s? e? : Option Int) (step : Int) (hn : 0 ≤ n) (hp : step < 0) :
    ∃ A B, pyIndices n s? e? step = (A, B, step) ∧ A ≤ n - 1 ∧ -1 ≤ B := by
  unfold pyIndices
  simp only [show ¬ step > 0 by omega, if_false]
  refine ⟨_, _, rfl, ?_, ?_⟩
  · cases s? <;> simp only [pyAdjust] <;> omega
  · cases e? <;> simp only [pyAdjust] <;> omega

/-- the `k`-th element of an ascending walk stays below `stop` -/
theorem walk_lt_stop (A B step : Int) (k : Nat) (hp : step > 0) (hk : (k : Int) < pyCount A B step) :
    A ≤ A + (k : Int) * step ∧ A + (k : Int) * step < B := by
  unfold pyCount at hk
  simp only [hp, if_true] at hk
  split at hk
  · have h1 : (k : Int) ≤ (B - A - 1) / step := by omega
    have h2 := Int.mul_le_mul_of_nonneg_right h1 (show 0 ≤ step by omega)
    have h3 := Int.ediv_mul_le (B - A - 1) (show step ≠ 0 by omega)
    have h4 : 0 ≤ (k : Int) * step := Int.mul_nonneg (by omega) (by omega)
    omega
  · omega

/-- the `k`-th element of a descending walk stays above `stop` -/
theorem walk_gt_stop (A B step : Int) (k : Nat) (hp : step < 0) (hk : (k : Int) < pyCount A B step) :
    A + (k : Int) * step ≤ A ∧ B < A + (k : Int) * step := by
  unfold pyCount at hk
  simp only [show ¬ step > 0 by omega, hp, if_true, if_false] at hk
  split at hk
  · have h1 : (k : Int) ≤ (A - B - 1) / (-step) := by omega
    have h2 := Int.mul_le_mul_of_nonneg_right h1 (show 0 ≤ -step by omega)
    have h3 := Int.ediv_mul_le (A - B - 1) (show -step ≠ 0 by omega)
    have h4 : 0 ≤ (k : Int) * (-step) := Int.mul_nonneg (by omega) (by omega)
    have h5 : (k : Int) * (-step) = -((k : Int) * step) := Int.mul_neg _ _
    omega
  · omega

/-- `pyWalk_in_range`: for every length and all bounds, every index of the walk is a valid index -/
theorem pyWalk_in_range (n : Int) (s? e? : Option Int) (step : Int) (hn : 0 ≤ n) (h0 : step ≠ 0) :
    ∀ i ∈ pyWalk n s? e? step, 0 ≤ i ∧ i < n := by
  intro i hi
  unfold pyWalk at hi
  by_cases hp : step > 0
  · obtain ⟨A, B, hAB, hA, hB⟩ := pyIndices_pos n s? e? step hn hp
    rw [hAB] at hi
    simp only [List.mem_map, List.mem_range] at hi
    obtain ⟨k, hk, rfl⟩ := hi
    have := walk_lt_stop A B step k hp (by omega)
    omega
  · have hneg : step < 0 := by omega
    obtain ⟨A, B, hAB, hA, hB⟩ := pyIndices_neg n s? e? step hn hneg
    rw [hAB] at hi
    simp only [List.mem_map, List.mem_range] at hi
    obtain ⟨k, hk, rfl⟩ := hi
    have := walk_gt_stop A B step k hneg (by omega)
    omega

example : ∀ i ∈ pyWalk 7 (some (-100)) none 3, 0 ≤ i ∧ i < 7 := pyWalk_in_range 7 _ _ 3 (by decide) (by decide)
example : pyWalk 7 (some (-100)) none 3 = [0, 3, 6] := by decide

/-! ## Arrays: `slice` / `sliceStep` return the elements at the walk's indices -/

theorem pickStep_eq (xs : List Val) (step : Int) : ∀ (k : Nat) (a : Int),
    pickStep xs a step k = (List.range k).map (fun (j : Nat) => xs.getD (a + (j : Int) * step).toNat .null)
  | 0, _ => rfl
  | k + 1, a => by
    rw [pickStep, pickStep_eq xs step k (a + step), List.range_succ_eq_map, List.map_cons, List.map_map]
    congr 1
    · simp
    · apply List.map_congr_left
      intro j _
      simp only [Function.comp, Nat.succ_eq_add_one, Int.natCast_add, Int.natCast_one, Int.add_mul, Int.one_mul]
      congr 2
      omega

theorem drop_take_eq (xs : List Val) (a m : Nat) (h : a + m ≤ xs.length) :
    (xs.drop a).take m = (List.range m).map (fun k => xs.getD (a + k) .null) := by
  apply List.ext_getElem
  · simp only [List.length_take, List.length_drop, List.length_map, List.length_range]; omega
  · intro i h1 h2
    simp only [List.length_map, List.length_range] at h2
    simp only [List.getElem_take, List.getElem_drop, List.getElem_map, List.getElem_range]
    rw [List.getD_eq_getElem?_getD, List.getElem?_eq_getElem (by omega)]
    rfl

theorem enum2_plain (xs : List Val) : enum2 .plain xs = false := by
  simp [enum2]

/--
  `slice_array_spec`: on a plain array of any length (that fits a Go `int`), for all optional bounds in the step-1
  sentinel encoding, `slice` returns exactly the elements at the indices of the Python walk, in walk order.
-/
theorem slice_array_spec (xs : List Val) (s? e? : Option Int) (hM : (xs.length : Int) ≤ MaxInt) :
    slice (.arr .plain xs) (encStart 1 s?) (encStop 1 e?) =
      .ok (.arr .plain ((pyWalk xs.length s? e? 1).map (fun i => xs.getD i.toNat .null))) := by
  have hn : (0 : Int) ≤ xs.length := by omega
  rw [← clamp1_spec _ s? e? hn hM]
  have hch := clamp1_char xs.length (encStart 1 s?) (encStop 1 e?) hn
  have bA := pyAdjust_bounds xs.length 0 xs.length (encStart 1 s?) hn
  have bB := pyAdjust_bounds xs.length 0 xs.length (encStop 1 e?) hn
  simp only [slice]
  cases hc : clamp1 xs.length (encStart 1 s?) (encStop 1 e?) with
  | none => simp only [walk1, List.map_nil]
  | some ab =>
    obtain ⟨a, b⟩ := ab
    rw [hc] at hch
    simp only at hch
    obtain ⟨ha, hb⟩ := hch
    simp only [walk1]
    by_cases hab : a ≥ b
    · have : (b - a).toNat = 0 := by omega
      simp only [hab, if_true, this, List.range_zero, List.map_nil]
    · simp only [hab, if_false, enum2_plain, Bool.false_eq_true]
      rw [drop_take_eq xs a.toNat (b - a).toNat (by omega), List.map_map]
      congr 3
      funext k
      simp only [Function.comp]
      congr 1
      omega

/-- explicit bounds, any integers (no sentinel, so no upper bound on the length is needed) -/
theorem slice_array_spec_explicit (xs : List Val) (start stop : Int) :
    slice (.arr .plain xs) start stop =
      .ok (.arr .plain ((pyWalk xs.length (some start) (some stop) 1).map (fun i => xs.getD i.toNat .null))) := by
  have hn : (0 : Int) ≤ xs.length := by omega
  rw [← clamp1_spec_explicit _ start stop hn]
  have hch := clamp1_char xs.length start stop hn
  have bA := pyAdjust_bounds xs.length 0 xs.length start hn
  have bB := pyAdjust_bounds xs.length 0 xs.length stop hn
  simp only [slice]
  cases hc : clamp1 xs.length start stop with
  | none => simp only [walk1, List.map_nil]
  | some ab =>
    obtain ⟨a, b⟩ := ab
    rw [hc] at hch
    simp only at hch
    obtain ⟨ha, hb⟩ := hch
    simp only [walk1]
    by_cases hab : a ≥ b
    · have : (b - a).toNat = 0 := by omega
      simp only [hab, if_true, this, List.range_zero, List.map_nil]
    · simp only [hab, if_false, enum2_plain, Bool.false_eq_true]
      rw [drop_take_eq xs a.toNat (b - a).toNat (by omega), List.map_map]
      congr 3
      funext k
      simp only [Function.comp]
      congr 1
      omega

example : slice (.arr .plain [.bool true, .null, .bool false, .null]) 1 MaxInt =
    .ok (.arr .plain ((pyWalk 4 (some 1) none 1).map
      (fun i => [Val.bool true, .null, .bool false, .null].getD i.toNat .null))) :=
  slice_array_spec _ (some 1) none (by decide)
example : pyWalk 4 (some 1) none 1 = [1, 2, 3] := by decide

/--
  `sliceStep_array_spec`: the same for `sliceStep` and every non-zero 64-bit step (`MinInt` included), bounds in the
  sentinel encoding of that step.
-/
theorem sliceStep_array_spec (xs : List Val) (s? e? : Option Int) (step : Int) (hM : (xs.length : Int) ≤ MaxInt)
    (h0 : step ≠ 0) (hmin : MinInt ≤ step) :
    sliceStep (.arr .plain xs) (encStart step s?) (encStop step e?) step =
      .ok (.arr .plain ((pyWalk xs.length s? e? step).map (fun i => xs.getD i.toNat .null))) := by
  have hn : (0 : Int) ≤ xs.length := by omega
  rw [← clampStep_spec _ s? e? step hn hM h0 hmin]
  simp only [sliceStep]
  cases hc : clampStep xs.length (encStart step s?) (encStop step e?) step with
  | none => simp only [walkStep, List.map_nil]
  | some ab =>
    obtain ⟨a, cnt⟩ := ab
    simp only [walkStep, enum2_plain, Bool.false_eq_true, if_false, pickStep_eq, List.map_map]
    rfl

example : sliceStep (.arr .plain [.bool true, .null, .bool false, .null]) MaxInt MinInt (-2) =
    .ok (.arr .plain ((pyWalk 4 none none (-2)).map
      (fun i => [Val.bool true, .null, .bool false, .null].getD i.toNat .null))) :=
  sliceStep_array_spec _ none none (-2) (by decide) (by decide) (by decide)
example : pyWalk 4 none none (-2) = [3, 1] := by decide

/-! ## Empty walk: the empty array, whatever the array's tag -/

/-- a `clampStep` result `some (a, cnt)` always has `cnt ≥ 1`: `none` is the only encoding of the empty walk -/
theorem clampStep_cnt_pos (n s e step a cnt : Int) (hn : 0 ≤ n) (hM : n ≤ MaxInt) (h0 : step ≠ 0)
    (hmin : MinInt ≤ step) (h : clampStep n s e step = some (a, cnt)) : 1 ≤ cnt := by
  by_cases hp : step > 0
  · obtain ⟨_, hlt, rfl⟩ := clampStep_pos_some n s e step a cnt hn hp h
    rw [ceilDiv_pos _ _ (by omega) hp]
    have := Int.ediv_nonneg (a := pyAdjust n 0 n e - pyAdjust n 0 n s - 1) (b := step) (by omega) (by omega)
    omega
  · have hneg : step < 0 := by omega
    obtain ⟨_, hlt, rfl⟩ := clampStep_neg_some n s e step a cnt hn hp h
    have bA := pyAdjust_bounds n (-1) (n - 1) s (by omega)
    have bB := pyAdjust_bounds n (-1) (n - 1) e (by omega)
    rw [ceilDiv_neg _ _ (by omega) (by omega) hmin hneg]
    have := Int.ediv_nonneg (a := pyAdjust n (-1) (n - 1) s - pyAdjust n (-1) (n - 1) e - 1) (b := -step)
      (by omega) (by omega)
    omega

/--
  `empty_walk`: when the Python walk is empty the result is the empty array — not null, not an error, and (because
  the empty result does not depend on element order) not `nondet` either, for an array of *any* tag.
-/
theorem empty_walk_slice (t : ATag) (xs : List Val) (s? e? : Option Int) (hM : (xs.length : Int) ≤ MaxInt)
    (hw : pyWalk xs.length s? e? 1 = []) :
    slice (.arr t xs) (encStart 1 s?) (encStop 1 e?) = .ok (.arr .plain []) := by
  have hn : (0 : Int) ≤ xs.length := by omega
  rw [← clamp1_spec _ s? e? hn hM] at hw
  simp only [slice]
  cases hc : clamp1 xs.length (encStart 1 s?) (encStop 1 e?) with
  | none => rfl
  | some ab =>
    obtain ⟨a, b⟩ := ab
    rw [hc] at hw
    simp only [walk1, List.map_eq_nil_iff, List.range_eq_nil] at hw
    have hab : a ≥ b := by omega
    simp only [hab, if_true]

theorem empty_walk_sliceStep (t : ATag) (xs : List Val) (s? e? : Option Int) (step : Int)
    (hM : (xs.length : Int) ≤ MaxInt) (h0 : step ≠ 0) (hmin : MinInt ≤ step)
    (hw : pyWalk xs.length s? e? step = []) :
    sliceStep (.arr t xs) (encStart step s?) (encStop step e?) step = .ok (.arr .plain []) := by
  have hn : (0 : Int) ≤ xs.length := by omega
  rw [← clampStep_spec _ s? e? step hn hM h0 hmin] at hw
  simp only [sliceStep]
  cases hc : clampStep xs.length (encStart step s?) (encStop step e?) step with
  | none => rfl
  | some ab =>
    obtain ⟨a, cnt⟩ := ab
    rw [hc] at hw
    simp only [walkStep, List.map_eq_nil_iff, List.range_eq_nil] at hw
    have := clampStep_cnt_pos _ _ _ _ a cnt hn hM h0 hmin hc
    omega

theorem empty_walk (t : ATag) (xs : List Val) (s? e? : Option Int) (step : Int)
    (hM : (xs.length : Int) ≤ MaxInt) (h0 : step ≠ 0) (hmin : MinInt ≤ step)
    (hw : pyWalk xs.length s? e? step = []) :
    (step = 1 → slice (.arr t xs) (encStart 1 s?) (encStop 1 e?) = .ok (.arr .plain [])) ∧
    sliceStep (.arr t xs) (encStart step s?) (encStop step e?) step = .ok (.arr .plain []) :=
  ⟨fun h1 => empty_walk_slice t xs s? e? hM (h1 ▸ hw), empty_walk_sliceStep t xs s? e? step hM h0 hmin hw⟩

example : pyWalk 3 (some 2) (some 1) 1 = [] := by decide
example : slice (.arr .enum [.null, .null, .null]) 2 1 = .ok (.arr .plain []) :=
  empty_walk_slice .enum _ (some 2) (some 1) (by decide) (by decide)
example : sliceStep (.arr .enum [.null, .null, .null]) 1 2 (-1) = .ok (.arr .plain []) :=
  empty_walk_sliceStep .enum _ (some 1) (some 2) (-1) (by decide) (by decide) (by decide) (by decide)
example : slice (.arr .plain []) 0 MaxInt = .ok (.arr .plain []) :=
  empty_walk_slice .plain [] none none (by decide) (by decide)

/-! ## No evaluation error: the only slice error is the parse error for step 0 -/

theorem slice_no_error (v : Val) (start stop : Int) :
    (∀ cs, slice v start stop ≠ .err cs) ∧ (∀ w, slice v start stop ≠ .panic w) := by
  unfold slice
  constructor <;> intro x <;> repeat' split
  all_goals (intro h; cases h)

theorem sliceStep_no_error (v : Val) (start stop step : Int) :
    (∀ cs, sliceStep v start stop step ≠ .err cs) ∧ (∀ w, sliceStep v start stop step ≠ .panic w) := by
  constructor <;> intro x h <;> cases v <;> simp only [sliceStep] at h <;> repeat' split at h
  all_goals cases h

/--
  `only_step_zero_errors`: evaluation of a slice never fails — for any value, any integers (even a zero step, which the
  parser has already rejected: `indexP` fails with `invalidSliceStep`, category `invalid-value`, exactly when
  `step = 0`).
-/
theorem only_step_zero_errors (v : Val) (start stop step : Int) :
    (∀ cs, slice v start stop ≠ .err cs) ∧ (∀ w, slice v start stop ≠ .panic w) ∧
    (∀ cs, sliceStep v start stop step ≠ .err cs) ∧ (∀ w, sliceStep v start stop step ≠ .panic w) :=
  ⟨(slice_no_error v start stop).1, (slice_no_error v start stop).2,
   (sliceStep_no_error v start stop step).1, (sliceStep_no_error v start stop step).2⟩

example : slice (.num default) 3 1 = .ok .null := rfl
example : sliceStep (.arr .plain [.null]) 0 MaxInt 0 = .ok (.arr .plain []) := rfl

/-! ## The closed form of the specification is the `while` loop it abbreviates

  `pyWalk` is defined through CPython's slice-length formula; this section shows it is the list produced by
  `i = start; while i < stop (resp. > stop): yield i; i += step` (`Spec.pyLoop`, with `n` iterations of fuel). -/

theorem pyCount_nonneg (A B step : Int) : 0 ≤ pyCount A B step := by
  unfold pyCount
  split
  · split
    · have := Int.ediv_nonneg (a := B - A - 1) (b := step) (by omega) (by omega); omega
    · omega
  · split
    · split
      · have := Int.ediv_nonneg (a := A - B - 1) (b := -step) (by omega) (by omega); omega
      · omega
    · omega

theorem pyCount_succ_pos (A B step : Int) (hp : step > 0) (h : A < B) :
    pyCount A B step = pyCount (A + step) B step + 1 := by
  unfold pyCount
  simp only [hp, h, if_true]
  split
  · have e : B - A - 1 = (B - (A + step) - 1) + 1 * step := by omega
    rw [e, Int.add_mul_ediv_right _ _ (by omega)]
  · rw [Int.ediv_eq_zero_of_lt (by omega) (by omega)]

theorem pyCount_succ_neg (A B step : Int) (hp : step < 0) (h : B < A) :
    pyCount A B step = pyCount (A + step) B step + 1 := by
  unfold pyCount
  simp only [show ¬ step > 0 by omega, hp, h, if_true, if_false]
  split
  · have e : A - B - 1 = (A + step - B - 1) + 1 * (-step) := by omega
    rw [e, Int.add_mul_ediv_right _ _ (by omega)]
  · rw [Int.ediv_eq_zero_of_lt (by omega) (by omega)]

theorem pyLoop_eq (B step : Int) (h0 : step ≠ 0) : ∀ (fuel : Nat) (A : Int), pyCount A B step ≤ fuel →
    pyLoop B step fuel A = (List.range (pyCount A B step).toNat).map (fun (k : Nat) => A + (k : Int) * step)
  | 0, A, h => by
    have := pyCount_nonneg A B step
    have : (pyCount A B step).toNat = 0 := by omega
    simp only [pyLoop, this, List.range_zero, List.map_nil]
  | fuel + 1, A, h => by
    have hnn := pyCount_nonneg (A + step) B step
    unfold pyLoop
    by_cases hc : (step > 0 ∧ A < B) ∨ (step < 0 ∧ A > B)
    · have hs : pyCount A B step = pyCount (A + step) B step + 1 := by
        rcases hc with ⟨h1, h2⟩ | ⟨h1, h2⟩
        · exact pyCount_succ_pos A B step h1 h2
        · exact pyCount_succ_neg A B step h1 h2
      have ht : (pyCount A B step).toNat = (pyCount (A + step) B step).toNat + 1 := by omega
      rw [if_pos hc, pyLoop_eq B step h0 fuel (A + step) (by omega), ht, List.range_succ_eq_map, List.map_cons,
        List.map_map]
      congr 1
      · simp
      · apply List.map_congr_left
        intro k _
        simp only [Function.comp, Nat.succ_eq_add_one, Int.natCast_add, Int.natCast_one, Int.add_mul, Int.one_mul]
        omega
    · have : pyCount A B step = 0 := by
        unfold pyCount
        split
        · split <;> omega
        · split
          · split <;> omega
          · rfl
      rw [if_neg hc, this]
      rfl

theorem pyCount_le (n A B step : Int) (hn : 0 ≤ n) (h0 : step ≠ 0)
    (hb : if step > 0 then 0 ≤ A ∧ B ≤ n else A ≤ n - 1 ∧ -1 ≤ B) : pyCount A B step ≤ n := by
  have hnn := pyCount_nonneg A B step
  by_cases hz : pyCount A B step = 0
  · omega
  · have hk : (((pyCount A B step - 1).toNat : Nat) : Int) = pyCount A B step - 1 := by omega
    generalize (pyCount A B step - 1).toNat = k at hk
    by_cases hp : step > 0
    · simp only [hp, if_true] at hb
      have := walk_lt_stop A B step k hp (by omega)
      have e : (k : Int) * step = (k : Int) * (step - 1) + k := by rw [Int.mul_sub, Int.mul_one]; omega
      have : 0 ≤ (k : Int) * (step - 1) := Int.mul_nonneg (by omega) (by omega)
      omega
    · simp only [hp, if_false] at hb
      have := walk_gt_stop A B step k (by omega) (by omega)
      have e : (k : Int) * step = -((k : Int) * (-step - 1) + k) := by
        rw [Int.mul_sub, Int.mul_one, Int.mul_neg]; omega
      have : 0 ≤ (k : Int) * (-step - 1) := Int.mul_nonneg (by omega) (by omega)
      omega

theorem pyWalk_eq_loop (n : Int) (s? e? : Option Int) (step : Int) (hn : 0 ≤ n) (h0 : step ≠ 0) :
    pyWalk n s? e? step = pyLoop (pyIndices n s? e? step).2.1 step n.toNat (pyIndices n s? e? step).1 := by
  unfold pyWalk
  by_cases hp : step > 0
  · obtain ⟨A, B, hAB, hA, hB⟩ := pyIndices_pos n s? e? step hn hp
    rw [hAB]
    have := pyCount_le n A B step hn h0 (by simp only [hp, if_true]; omega)
    exact (pyLoop_eq B step h0 n.toNat A (by omega)).symm
  · obtain ⟨A, B, hAB, hA, hB⟩ := pyIndices_neg n s? e? step hn (by omega)
    rw [hAB]
    have := pyCount_le n A B step hn h0 (by simp only [hp, if_false]; omega)
    exact (pyLoop_eq B step h0 n.toNat A (by omega)).symm

example : pyWalk 10 (some (-3)) none 1 = pyLoop 10 1 10 7 := pyWalk_eq_loop 10 _ _ 1 (by decide) (by decide)
example : pyLoop 10 1 10 7 = [7, 8, 9] := by decide

/-! ## The parser's encoding, on concrete expressions

  `encStart`/`encStop` restate what `indexP` does; the general link is covered by the differential tests of the
  parser model. These closed instances tie the two together for each shape of a slice expression (kernel evaluation of
  the parser model, no axioms beyond the usual ones). -/

private def parsesTo (expr : Bytes) (f : INode → Bool) : Bool :=
  match compile expr with
  | .ok n => f n
  | .error _ => false

/-- `[::0]` : the one slice error, raised by the parser, category invalid-value -/
example : (match compile [0x5B, 0x3A, 0x3A, 0x30, 0x5D] with | .error .invalidSliceStep => true | _ => false) = true := by
  decide +kernel
example : parseCat .invalidSliceStep = .invalidValue := rfl
/-- `[:]` ↦ `slice (encStart 1 none) (encStop 1 none)` -/
example : parsesTo [0x5B, 0x3A, 0x5D] (fun n => match n with
    | .projectArray (.sliceCurrent a b) .current => a == encStart 1 none && b == encStop 1 none
    | _ => false) = true := by decide +kernel
/-- `[1:]` ↦ `slice 1 (encStop 1 none)` -/
example : parsesTo [0x5B, 0x31, 0x3A, 0x5D] (fun n => match n with
    | .projectArray (.sliceCurrent a b) .current => a == encStart 1 (some 1) && b == encStop 1 none
    | _ => false) = true := by decide +kernel
/-- `[::1]` ↦ `slice`, not `sliceStep` -/
example : parsesTo [0x5B, 0x3A, 0x3A, 0x31, 0x5D] (fun n => match n with
    | .projectArray (.sliceCurrent a b) .current => a == encStart 1 none && b == encStop 1 none
    | _ => false) = true := by decide +kernel
/-- `[::-1]` ↦ `sliceStep (encStart (-1) none) (encStop (-1) none) (-1)` -/
example : parsesTo [0x5B, 0x3A, 0x3A, 0x2D, 0x31, 0x5D] (fun n => match n with
    | .projectArray (.sliceStepCurrent a b c) .current =>
      a == encStart (-1) none && b == encStop (-1) none && c == -1
    | _ => false) = true := by decide +kernel
/-- `[:1:2]` ↦ `sliceStep (encStart 2 none) 1 2` -/
example : parsesTo [0x5B, 0x3A, 0x31, 0x3A, 0x32, 0x5D] (fun n => match n with
    | .projectArray (.sliceStepCurrent a b c) .current =>
      a == encStart 2 none && b == encStop 2 (some 1) && c == 2
    | _ => false) = true := by decide +kernel

end Jmes.C12
