/-
  C12 — slices select exactly the elements of the Python `start:stop:step` walk, for every length and every
  (absent or 64-bit) start, stop, step; an empty result when the walk is empty; no evaluation error at all (the only
  slice error is the parse error for step 0).

  The specification (`pyIndices`, `pyWalk`) is in `Jmes/Spec/Slice.lean`, independent of the model.
-/
import Jmes.Model.Slice
import Jmes.Spec.Slice
namespace Jmes.C12
open Jmes.Spec

/-! ## How the parser hands optional bounds to the evaluator (`indexP` in `Model/Parser.lean`)

  absent start = `0` and absent stop = `MaxInt` for a positive step; absent start = `MaxInt` and absent stop = `MinInt`
  for a negative step; an explicit bound is passed as it is. -/

def encStart (step : Int) : Option Int → Int
  | some v => v
  | none => if step > 0 then 0 else MaxInt

def encStop (step : Int) : Option Int → Int
  | some v => v
  | none => if step > 0 then MaxInt else MinInt

/-- indices selected by a `clamp1` result `(a, b)`: `a, a+1, …, b-1` -/
def walk1 : Option (Int × Int) → List Int
  | none => []
  | some (a, b) => (List.range (b - a).toNat).map (fun (k : Nat) => a + (k : Int))

/-- indices selected by a `clampStep` result `(a, cnt)`: `a, a+step, …` (`cnt` of them, as `pickStep` visits them) -/
def walkStep (step : Int) : Option (Int × Int) → List Int
  | none => []
  | some (a, cnt) => (List.range cnt.toNat).map (fun (k : Nat) => a + (k : Int) * step)

/-! ## Arithmetic -/

/-- the element count computed by `clampStep` -/
def ceilDiv (c s : Int) : Int := if Int.tmod c s > 0 then Int.tdiv c s + 1 else Int.tdiv c s

theorem ceilDiv_pos (c s : Int) (hc : 0 < c) (hs : 0 < s) : ceilDiv c s = (c - 1) / s + 1 := by
  unfold ceilDiv
  rw [Int.tdiv_eq_ediv_of_nonneg (by omega), Int.tmod_eq_emod_of_nonneg (by omega)]
  have h1 := Int.emod_nonneg c (b := s) (by omega)
  have h2 := Int.emod_lt_of_pos c hs
  have h3 : c % s + c / s * s = c := by
    have := Int.emod_add_mul_ediv c s
    rw [Int.mul_comm] at this; exact this
  generalize c % s = r at *
  generalize c / s = q at *
  subst h3
  split
  · have e : r + q * s - 1 = (r - 1) + q * s := by omega
    have z : (r - 1) / s = 0 := Int.ediv_eq_zero_of_lt (by omega) (by omega)
    rw [e, Int.add_mul_ediv_right _ _ (by omega), z]
    omega
  · have h0 : r = 0 := by omega
    subst h0
    have e : 0 + q * s - 1 = (s - 1) + (q - 1) * s := by
      rw [Int.sub_mul]; omega
    have z : (s - 1) / s = 0 := Int.ediv_eq_zero_of_lt (by omega) (by omega)
    rw [e, Int.add_mul_ediv_right _ _ (by omega), z]
    omega

/-- Go's `step * -1` on a 64-bit `int`: exact except for `step = MinInt`, where it wraps to `MinInt` -/
theorem wrap64_neg (step : Int) (h1 : MinInt < step) (h2 : step < 0) : wrap64 (step * -1) = -step := by
  simp only [wrap64, MinInt] at *; omega

theorem wrap64_neg_min : wrap64 (MinInt * -1) = MinInt := by
  simp only [wrap64, MinInt]; omega

/-- the count `clampStep` computes for a negative step is Python's, *including* `step = MinInt` where the negation
    wraps: the divisor is then `MinInt` itself, the truncated quotient `0` and the remainder `c > 0`, so the count is `1`,
    which is what Python gives for a step that large. -/
theorem ceilDiv_neg (c step : Int) (hc : 0 < c) (hcM : c ≤ MaxInt) (h1 : MinInt ≤ step) (h2 : step < 0) :
    ceilDiv c (wrap64 (step * -1)) = (c - 1) / (-step) + 1 := by
  by_cases h : step = MinInt
  · subst h
    rw [wrap64_neg_min]
    unfold ceilDiv
    have hM : MinInt = -(2 ^ 63 : Int) := rfl
    have hc' : c < 2 ^ 63 := by simp only [MaxInt] at hcM; omega
    rw [hM, Int.tdiv_neg, Int.tmod_neg, Int.tdiv_eq_zero_of_lt (by omega) hc', Int.tmod_eq_of_lt (by omega) hc']
    simp only [hc, if_true, Int.neg_neg]
    omega
  · rw [wrap64_neg step (by omega) h2]
    exact ceilDiv_pos c (-step) hc (by omega)

/-! ## The clamps are Python's `slice.indices` -/

theorem clamp1_char (n s e : Int) (hn : 0 ≤ n) :
    match clamp1 n s e with
    | none => pyAdjust n 0 n e ≤ pyAdjust n 0 n s
    | some (a, b) => a = pyAdjust n 0 n s ∧ b = pyAdjust n 0 n e := by
  unfold clamp1 pyAdjust
  by_cases h1 : s < 0 <;> by_cases h2 : s < -n <;> by_cases h3 : s ≥ n <;>
  by_cases h4 : e < 0 <;> by_cases h5 : e < -n <;> by_cases h6 : e ≥ n <;>
  simp only [h1, h2, h3, h4, h5, h6, if_true, if_false] <;> (try split) <;> omega

theorem clampStep_pos_char (n s e step : Int) (hn : 0 ≤ n) (hstep : step > 0) :
    match clampStep n s e step with
    | none => pyAdjust n 0 n e ≤ pyAdjust n 0 n s
    | some (a, cnt) => a = pyAdjust n 0 n s ∧ pyAdjust n 0 n s < pyAdjust n 0 n e ∧
        ∃ c, c = pyAdjust n 0 n e - pyAdjust n 0 n s ∧ cnt = ceilDiv c step := by
  unfold clampStep pyAdjust
  by_cases h1 : s < 0 <;> by_cases h2 : s < -n <;> by_cases h3 : s ≥ n <;>
  by_cases h4 : e < 0 <;> by_cases h5 : e < -n <;> by_cases h6 : e > n <;>
  simp only [hstep, h1, h2, h3, h4, h5, h6, if_true, if_false] <;> (try split) <;>
  first
  | omega
  | (refine ⟨?_, ?_, _, ?_, rfl⟩ <;> omega)

theorem clampStep_neg_char (n s e step : Int) (hn : 0 ≤ n) (hstep : ¬ step > 0) :
    match clampStep n s e step with
    | none => pyAdjust n (-1) (n - 1) s ≤ pyAdjust n (-1) (n - 1) e
    | some (a, cnt) => a = pyAdjust n (-1) (n - 1) s ∧ pyAdjust n (-1) (n - 1) e < pyAdjust n (-1) (n - 1) s ∧
        ∃ c, c = pyAdjust n (-1) (n - 1) s - pyAdjust n (-1) (n - 1) e ∧ cnt = ceilDiv c (wrap64 (step * -1)) := by
  unfold clampStep pyAdjust
  by_cases h1 : s < 0 <;> by_cases h2 : s < -n <;> by_cases h3 : s ≥ n <;>
  by_cases h4 : e < 0 <;> by_cases h5 : e < -n <;> by_cases h6 : e ≥ n <;>
  simp only [hstep, h1, h2, h3, h4, h5, h6, if_true, if_false] <;> (try split) <;>
  first
  | omega
  | (refine ⟨?_, ?_, _, ?_, rfl⟩ <;> omega)

end Jmes.C12
