/-
  Property C15, fourth round — "Evaluating the same expression on equal documents always yields equal outcomes … The
  only permitted variation is the order of elements in arrays obtained by enumerating an object's members and which
  fault is reported when several sub-expressions fail at once."

  The earlier rounds prove what every run does GIVEN that the model answers `.ok` / `.err` (`C15B.oracle_enum`,
  `C15C.oracle_full`), and that the model never answers `.nondet` for expressions that do not enumerate objects
  (`C15B.ieval_definite`). Missing was a theorem saying when the model does not answer `.nondet` for expressions
  that DO enumerate (`keys`, `values`, `items`, `.*`, object projections). This file gives one.

  1. A purely SYNTACTIC classification `kind : INode → Kd` (Jmes/Proofs/C15ELemmas.lean; decidable, `by decide`):
       `plain`  — the value contains no map-ordered array and is the same in every run;
       `keys`   — `keys(e)`: the map-ordered array of an object's member names;
       `enum`   — at most ONE map-ordered array, at the top, over plain elements: `values(e)`, `items(e)`, `e.*`,
                  `e.*.body`, `src[*].body`, `src[?cond]`, `src[?cond].body`, `map(&body, src)`, `reverse(src)`,
                  `to_array(src)`, `src[]`, pruning — for bodies that always succeed (`isOkBody`);
       `sorted` — `sort(keys(e))`: plain, except that the model tags the EMPTY result map-ordered;
     `Consumed n` (`kind n = plain`): every enumeration in `n` reaches only order-insensitive consumers —
       `length(src)`, `type(src)`, `!src`, `contains(src, x)`, `sort(keys(e))[i]`, `join(sep, sort(keys(e)))`,
       `max(keys(e))`, `min(keys(e))`, and the pipelines `src | f(@)`, ``src | contains(@, `lit`)``, `src | !@` — at
       ANY depth inside an arbitrary expression built from the constructs that do not enumerate (every node kind,
       every builtin except the unstable `sort`; multi-select hashes and `let`s of any size, `max` / `min` / `sum` /
       `avg` over plain arrays included).
  2. `consumed_definite` / `consumed_evaluate` / `consumed_search`: for a consumed expression the model NEVER answers
     `.nondet`; a value of the model is the value of EVERY run (strict equality, for every oracle `π` — the result is
     a genuine function of the document, `consumed_function_of_document`), and an error set of the model contains
     the one category every run reports. No side condition on the model's outcome is left.
     `classified_evaluate`: for the other classified kinds the model is never `.nondet` either and every run returns
     the model's value up to the order of its one enumerated array.
  3. `strict_consumed`: the class contains the strict class of `C15B` (expressions without enumeration).
  4. `max` / `min` BELOW the head of an expression: over `keys(e)` they are part of the class (strings: strict
     equality); over an enumerated array of numbers (`values(e)`, `e.*`, projections) the comparison
     `max(src) op y` / `y op max(src)` (`==`, `!=`, `<`, `<=`, `>`, `>=`) has the same value in every run
     (`cmp_extremum_run`), although the two runs may pick equal-valued decimals of different representation
     (`C15B.max_not_covered`); `max_enum_definite`: the model declines only when a NaN is among the numbers.
     `aggregate_run`: `sum(src)` / `avg(src)` over a classified source, strictly (`sum_enum_definite`: the model
     declines only when its exactness condition `sumOrderFree` fails). `fromItems_items_run`: `from_items(items(e))`
     is definite and the same in every run (objects have distinct member names, `C18CS.ieval_sorted`).
  5. Two measured OVER-TAGGING cases, as `example`s (`overtag_flatten`, `overtag_let`): the model's tagging is sound
     — it never claims a determinism Go lacks — but not complete.
-/
import Jmes.Properties.C15C
import Jmes.Proofs.C15EMain
import Jmes.Proofs.C15EMaxLemmas
import Jmes.Proofs.C15EItems
set_option linter.unusedVariables false
set_option linter.constructorNameAsVariable false
namespace Jmes.C15E
open Jmes Invar Jmes.C15B Jmes.C15C Jmes.Grammar

/-! ## 1. the class -/

/-- **The syntactic class.** Every object enumeration in `n` reaches only order-insensitive consumers (and every
    multi-select hash / `let` has distinct keys, every literal is free of map-ordered arrays — both parser
    invariants). Decidable: `by decide` on a concrete node. -/
def Consumed (n : INode) : Bool := kind n == .plain

/-- the node is classified at all (its value may be one enumerated array) -/
def Classified (n : INode) : Bool := kind n != .bad

theorem consumed_iff {n : INode} : Consumed n = true ↔ kind n = .plain := by simp [Consumed]
theorem classified_iff {n : INode} : Classified n = true ↔ kind n ≠ .bad := by simp [Classified]
theorem classified_of_consumed {n : INode} (h : Consumed n = true) : Classified n = true := by
  rw [classified_iff, consumed_iff.mp h]; decide

/-! ## 2. the theorems -/

/-- **Consumed ⇒ definite, and equal to every run** (whole evaluator, any environment). On inputs without map-ordered
    arrays, for a consumed expression: the model's outcome is never `.nondet`; if it is the value `r`, then `r`
    contains no map-ordered array and EVERY run — every choice `π` of the iteration orders, independently at every
    enumeration — returns exactly `r`; if it is the error set `cs`, every run reports exactly one category, a
    member of `cs`. -/
theorem consumed_definite {root cur : Val} {env : Env} {n : INode}
    (hroot : root.NoEnum = true) (hcur : cur.NoEnum = true) (henv : Env.NoEnum env = true)
    (hn : Consumed n = true) :
    ieval root n cur env ≠ .nondet ∧
    (∀ r, ieval root n cur env = .ok r → r.NoEnum = true ∧ ∀ π : Oracle, ievalO π root n cur env = .ok r) ∧
    (∀ cs, ieval root n cur env = .err cs → ∀ π : Oracle, ∃ c ∈ cs, ievalO π root n cur env = .err [c]) := by
  have key : ∀ π : Oracle, SimR (ieval root n cur env) (ievalO π root n cur env) := fun π =>
    (kind_sim hroot n cur env hcur henv π).simR_of (consumed_iff.mp hn)
  have k0 := SimS.iff.mp (key Oracle.keyOrder)
  refine ⟨k0.1, fun r hr => ⟨(k0.2.1 r hr).2, fun π => ((SimS.iff.mp (key π)).2.1 r hr).1⟩,
    fun cs hc π => (SimS.iff.mp (key π)).2.2 cs hc⟩

/-- **… for `Evaluate`.** `Consumed n → evaluate n d ≠ .nondet` for every document `d` without map-ordered arrays
    (every decoded JSON document), and the outcome is that of every run. -/
theorem consumed_evaluate {d : Val} {n : INode} (hd : d.NoEnum = true) (hn : Consumed n = true) :
    evaluate n d ≠ .nondet ∧
    (∀ r, evaluate n d = .ok r → r.NoEnum = true ∧ ∀ π : Oracle, evaluateO π n d = .ok r) ∧
    (∀ cs, evaluate n d = .err cs → ∀ π : Oracle, ∃ c ∈ cs, evaluateO π n d = .err [c]) :=
  consumed_definite hd hd rfl hn

/-- **A genuine function of the document**: when the model returns a value, any two runs — whatever their map
    iteration orders — return the same outcome. -/
theorem consumed_function_of_document {d : Val} {n : INode} (hd : d.NoEnum = true) (hn : Consumed n = true)
    {r : Val} (h : evaluate n d = .ok r) (π π' : Oracle) : evaluateO π n d = evaluateO π' n d := by
  have := ((consumed_evaluate hd hn).2.1 r h).2
  rw [this π, this π']

/-- **The other classified kinds**: the model is never `.nondet`; a value of the model is returned by every run up to
    the order of its enumerated array (`PermEnum`), and it is one map-ordered array over plain elements or a plain
    value; an error set contains the category of every run. -/
theorem classified_evaluate {d : Val} {n : INode} (hd : d.NoEnum = true) (hn : Classified n = true) :
    evaluate n d ≠ .nondet ∧
    (∀ r, evaluate n d = .ok r → Top r ∧ ∀ π : Oracle, ∃ r', evaluateO π n d = .ok r' ∧ PermEnum r r') ∧
    (∀ cs, evaluate n d = .err cs → ∀ π : Oracle, ∃ c ∈ cs, evaluateO π n d = .err [c]) := by
  have key : ∀ π : Oracle, Tri (Shape (kind n)) (evaluate n d) (evaluateO π n d) := fun π =>
    (kind_sim hd n d [] hd rfl π).tri (classified_iff.mp hn)
  have k0 := Tri.iff.mp (key Oracle.keyOrder)
  refine ⟨k0.1, fun r hr => ⟨(k0.2.1 r hr).1.top, fun π => ((Tri.iff.mp (key π)).2.1 r hr).2⟩,
    fun cs hc π => (Tri.iff.mp (key π)).2.2 cs hc⟩

/-- **… for `Search`**: for an expression whose compiled form is consumed, on a JSON document: never `.nondet`, the
    value of every run, one of the listed faults in every run. Failures of `Compile` do not depend on the document
    or on `π`. -/
theorem consumed_search {expr : Bytes} {d : Val} (hd : d.NoEnum = true)
    (hn : ∀ n, compile expr = .ok n → Consumed n = true) :
    search expr d ≠ .nondet ∧
    (∀ r, search expr d = .ok r → r.NoEnum = true ∧ ∀ π : Oracle, searchO π expr d = .ok r) ∧
    (∀ cs, search expr d = .err cs → ∀ π : Oracle, ∃ c ∈ cs, searchO π expr d = .err [c]) := by
  unfold search searchO
  unfold compile at hn
  cases hp : Parser.parse expr with
  | ok n => exact consumed_evaluate hd (hn n hp)
  | error e =>
    cases e <;> refine ⟨by simp, by simp, ?_⟩ <;> intro cs h π <;> cases h <;> exact ⟨_, by simp, rfl⟩

/-! ### the smallest useful class, spelled out: closure rules

  Each rule is an instance of the definition of `kind`; together they say how the class is generated. `e` is any
  consumed expression (in particular any expression without enumeration, `strict_consumed`). -/

theorem kind_keys {e : INode} (h : Consumed e = true) : kind (.call .keys [e]) = .keys := by
  simp only [kind, kindL, consumed_iff.mp h]; rfl
theorem kind_values {e : INode} (h : Consumed e = true) : kind (.call .values [e]) = .enum := by
  simp only [kind, kindL, consumed_iff.mp h]; rfl
theorem kind_items {e : INode} (h : Consumed e = true) : kind (.call .items [e]) = .enum := by
  simp only [kind, kindL, consumed_iff.mp h]; rfl
theorem kind_star {e : INode} (h : Consumed e = true) : kind (.objectValues e) = .enum := by
  simp only [kind, consumed_iff.mp h]; rfl

/-- `length(src)` for every classified source: `length(keys(e))`, `length(values(e))`, `length(e.*)`, … -/
theorem consumed_length {src : INode} (h : Classified src = true) : Consumed (.call .length [src]) = true := by
  have hk := classified_iff.mp h
  rw [consumed_iff]
  simp only [kind, kindL]
  cases hs : kind src <;> first | exact absurd hs hk | rfl
/-- `contains(src, x)` for every classified source and consumed `x`: `contains(keys(e), 'a')`, … -/
theorem consumed_contains {src x : INode} (h : Classified src = true) (hx : Consumed x = true) :
    Consumed (.call .contains [src, x]) = true := by
  have hk := classified_iff.mp h
  rw [consumed_iff]
  simp only [kind, kindL, consumed_iff.mp hx]
  cases hs : kind src <;> first | exact absurd hs hk | rfl
/-- `sort(keys(e))` is classified (kind `sorted`) … -/
theorem kind_sort_keys {e : INode} (h : Consumed e = true) : kind (.call .sort [.call .keys [e]]) = .sorted := by
  simp only [kind, kindL, consumed_iff.mp h]; rfl
/-- … and `sort(keys(e))[i]`, `join(sep, sort(keys(e)))`, `max(keys(e))`, `min(keys(e))` are consumed -/
theorem consumed_index_sort_keys {e : INode} (h : Consumed e = true) (i : Int) :
    Consumed (.index (.call .sort [.call .keys [e]]) i) = true := by
  rw [consumed_iff]; simp only [kind, kindL, consumed_iff.mp h]; rfl
theorem consumed_join_sort_keys {e sep : INode} (h : Consumed e = true) (hs : Consumed sep = true) :
    Consumed (.call .join [sep, .call .sort [.call .keys [e]]]) = true := by
  rw [consumed_iff]; simp only [kind, kindL, consumed_iff.mp h, consumed_iff.mp hs]; rfl
theorem consumed_max_keys {e : INode} (h : Consumed e = true) : Consumed (.call .max [.call .keys [e]]) = true := by
  rw [consumed_iff]; simp only [kind, kindL, consumed_iff.mp h]; rfl
theorem consumed_min_keys {e : INode} (h : Consumed e = true) : Consumed (.call .min [.call .keys [e]]) = true := by
  rw [consumed_iff]; simp only [kind, kindL, consumed_iff.mp h]; rfl
/-- a projection over a classified source with an always-succeeding body is classified: `e.*.a`, `values(e)[*].a`,
    `values(e)[?a > `1`]` -/
theorem kind_projectObject {e body : INode} (h : Consumed e = true) (hb : isOkBody body = true) :
    kind (.projectObject e body) = .enum := by
  simp only [kind, consumed_iff.mp h, hb]; rfl

/-- the rules compose: for every consumed `e`, `length(keys(e))` and `contains(e.*, x)` are consumed -/
example {e : INode} (h : Consumed e = true) : Consumed (.call .length [.call .keys [e]]) = true :=
  consumed_length (by rw [classified_iff, kind_keys h]; decide)
example {e x : INode} (h : Consumed e = true) (hx : Consumed x = true) :
    Consumed (.call .contains [.objectValues e, x]) = true :=
  consumed_contains (by rw [classified_iff, kind_star h]; decide) hx
example : kind (.call .values [.field [0x61]]) = .enum := kind_values (by decide)
example : kind (.call .items [.field [0x61]]) = .enum := kind_items (by decide)
example : kind (.call .sort [.call .keys [.field [0x61]]]) = .sorted := kind_sort_keys (by decide)
example : Consumed (.index (.call .sort [.call .keys [.field [0x61]]]) (-1)) = true :=
  consumed_index_sort_keys (by decide) _
example : Consumed (.call .join [.lit (.str [0x2C]), .call .sort [.call .keys [.current]]]) = true :=
  consumed_join_sort_keys (by decide) (by decide)
example : Consumed (.call .max [.call .keys [.root]]) = true := consumed_max_keys (by decide)
example : Consumed (.call .min [.call .keys [.root]]) = true := consumed_min_keys (by decide)
example : kind (.projectObject (.field [0x61]) (.field [0x62])) = .enum := kind_projectObject (by decide) (by decide)

/-! ### examples -/

/-- `{"a": 1, "b": 2}` -/
abbrev ab : Val := C15B.ab
/-- `length(keys(@))`, `sort(keys(@))`, `length(values(@))`, `length(*)`, `contains(keys(@), 'a')` -/
def pLenKeys : INode := .call .length [.call .keys [.current]]
def pSortKeys : INode := .call .sort [.call .keys [.current]]
def pLenValues : INode := .call .length [.call .values [.current]]
def pLenStar : INode := .call .length [.objectValuesCurrent]
def pContainsKeys : INode := .call .contains [.call .keys [.current], .lit (.str [0x61])]
example : Consumed pLenKeys = true := by decide
example : Consumed pLenValues = true := by decide
example : Consumed pLenStar = true := by decide
example : Consumed pContainsKeys = true := by decide
example : kind pSortKeys = .sorted := by decide
example : Consumed (.call .sort [.call .values [.current]]) = false := by decide
/-- for EVERY document the model's `length(keys(@))` is definite … -/
example (d : Val) (hd : d.NoEnum = true) : evaluate pLenKeys d ≠ .nondet := (consumed_evaluate hd (by decide)).1
/-- … and on `{"a": 1, "b": 2}` every run returns `2` -/
example (π : Oracle) : evaluateO π pLenKeys ab = .ok (.num (.int .i64 2)) :=
  ((consumed_evaluate (d := ab) (n := pLenKeys) (by decide) (by decide)).2.1 _ rfl).2 π
example (π : Oracle) : evaluateO π pContainsKeys ab = .ok (.bool true) :=
  ((consumed_evaluate (d := ab) (n := pContainsKeys) (by decide) (by decide)).2.1 _ rfl).2 π
/-- on a document that is not an object `length(keys(@))` fails with invalid-type, in every run -/
example (π : Oracle) : ∃ c ∈ [Cat.invalidType], evaluateO π pLenKeys (.bool true) = .err [c] :=
  (consumed_evaluate (d := .bool true) (n := pLenKeys) (by decide) (by decide)).2.2 _ rfl π

/-- `{n: length(keys(@)), top: max(keys(@)), has: contains(keys(@), 'a')}` — enumerations below the head, inside a
    multi-select hash; `max` below the head -/
def pSummary : INode := .selectObjectCurrent
  [([0x68], pContainsKeys), ([0x6E], pLenKeys), ([0x74], .call .max [.call .keys [.current]])]
example : Consumed pSummary = true := by decide
example : C15C.FullOK pSummary = false := by decide
example (d : Val) (hd : d.NoEnum = true) : evaluate pSummary d ≠ .nondet := (consumed_evaluate hd (by decide)).1
example (π π' : Oracle) : evaluateO π pSummary ab = evaluateO π' pSummary ab :=
  consumed_function_of_document (d := ab) (n := pSummary) (by decide) (by decide)
    (r := .obj [([0x68], .bool true), ([0x6E], .num (.int .i64 2)), ([0x74], .str [0x62])]) rfl π π'
/-- `sort(keys(@))[0]` on `{"a": 1, "b": 2}` is `"a"` in every run -/
example : Consumed (.index pSortKeys 0) = true := by decide
example (π : Oracle) : evaluateO π (.index pSortKeys 0) ab = .ok (.str [0x61]) := by
  refine ((consumed_evaluate (d := ab) (n := .index pSortKeys 0) (by decide) (by decide)).2.1 _ ?_).2 π
  show (evaluate pSortKeys ab >>= fun a => index a 0) = _
  rw [show evaluate pSortKeys ab = _ from C15B.sortKeys_ab]
  rfl

/-- `join(', ', sort(keys(@)))` and `length(values(@)[?age > `3`].name)`, `contains(*.name, 'x')` -/
def pJoinKeys : INode := .call .join [.lit (.str [0x2C, 0x20]), pSortKeys]
def pFiltered : INode := .call .length [.filterAndProject (.call .values [.current])
  (.binop .gt (.field [0x61, 0x67, 0x65]) (.lit (.num (.jnum [0x33])))) (.field [0x6E, 0x61, 0x6D, 0x65])]
def pContainsStarName : INode :=
  .call .contains [.projectObjectCurrent (.field [0x6E, 0x61, 0x6D, 0x65]), .lit (.str [0x78])]
example : Consumed pJoinKeys = true := by decide
example : Consumed pFiltered = true := by decide
example : Consumed pContainsStarName = true := by decide
example (d : Val) (hd : d.NoEnum = true) : evaluate pFiltered d ≠ .nondet := (consumed_evaluate hd (by decide)).1

/-- pipelines: `keys(@) | sort(@)`, `* | length(@)`, `values(@) | contains(@, `1`)`, `keys(@) | max(@)` -/
def pPipeSort : INode := .pipe (.call .keys [.current]) (.call .sort [.current])
def pPipeLen : INode := .pipe .objectValuesCurrent (.call .length [.current])
def pPipeContains : INode :=
  .pipe (.call .values [.current]) (.call .contains [.current, .lit (.num (.jnum [0x31]))])
def pPipeMax : INode := .pipe (.call .keys [.current]) (.call .max [.current])
example : kind pPipeSort = .sorted := by decide
example : Consumed pPipeLen = true := by decide
example : Consumed pPipeContains = true := by decide
example : Consumed pPipeMax = true := by decide
example (π : Oracle) : evaluateO π pPipeContains ab = .ok (.bool true) :=
  ((consumed_evaluate (d := ab) (n := pPipeContains) (by decide) (by decide)).2.1 _ rfl).2 π
example (π : Oracle) : evaluateO π pPipeMax ab = .ok (.str [0x62]) :=
  ((consumed_evaluate (d := ab) (n := pPipeMax) (by decide) (by decide)).2.1 _ rfl).2 π
/-- … but not `keys(@) | [0]` -/
example : Classified (.pipe (.call .keys [.current]) (.smallIndexCurrent 0)) = false := by decide

/-- NOT consumed, and rightly so: `values(@)[0]`, `to_string(keys(@))`, `keys(@) == keys(@)` are `.nondet` in the
    model on `{"a": 1, "b": 2}` -/
example : Consumed C15C.pValues0 = false := by decide
example : evaluate C15C.pValues0 ab = .nondet := rfl

/-- `values(@)`: classified (`enum`); every run returns a permutation of the model's array -/
example : Classified C15B.pValues = true := by decide
example (π : Oracle) : ∃ r', evaluateO π C15B.pValues ab = .ok r' ∧
    PermEnum (.arr .enum [.num (.jnum [0x31]), .num (.jnum [0x32])]) r' :=
  ((classified_evaluate (d := ab) (n := C15B.pValues) (by decide) (by decide)).2.1 _ rfl).2 π

/-! ### at the level of the expression text -/

/-- the parse tree of `length(keys(@))` -/
def tLenKeys : PTree :=
  .call ⟨.unquotedIdentifier, Ex.bs "length"⟩ [.call ⟨.unquotedIdentifier, Ex.bs "keys"⟩ [.atom ⟨.current, Ex.bs "@"⟩]]

theorem lenKeys_parse : compile (Ex.bs "length(keys(@))") = .ok pLenKeys :=
  Jmes.C04G.parse_complete (t := tLenKeys) (by decide) (by decide +kernel)

/-- `Search("length(keys(@))", d)` is never `.nondet`, and is the outcome of every run -/
example (d : Val) (hd : d.NoEnum = true) : search (Ex.bs "length(keys(@))") d ≠ .nondet :=
  (consumed_search hd fun n h => by rw [lenKeys_parse] at h; cases h; decide).1

/-! ## 3. the class contains the strict class -/

/-- **Every expression of the strict class of `C15B` is consumed** (no object enumeration, no `sort`; hashes and
    `let`s of any size): `Consumed` extends that class by the enumerations that reach an order-insensitive consumer. -/
theorem strict_consumed {n : INode} (h : StrictOK n = true) : Consumed n = true :=
  consumed_iff.mpr (kind_of_strict n h)

/-- for a compiled expression "no object enumeration, no `sort`" suffices (the parser guarantees the rest) -/
theorem orderFree_consumed {e : Bytes} {n : INode} (h : compile e = .ok n) (ho : OrderFree n = true) :
    Consumed n = true := strict_consumed (strictOK_of_compile h ho)

example : Consumed C15B.hash2 = true := strict_consumed (by decide)
/-- `{a: b, a: @}` (`C15C.hashDup_parse`) -/
example : Consumed (.selectObjectCurrent [(Ex.bs "a", .current)]) = true :=
  orderFree_consumed C15C.hashDup_parse (by decide)
/-- the inclusion is proper -/
example : StrictOK pLenKeys = false ∧ Consumed pLenKeys = true := by decide

/-! ## 4. `max` / `min` below the head of an expression, over an enumerated array -/

/-- **`max(src) op y` and `min(src) op y`** for a classified source `src` (`values(e)`, `e.*`, a projection of them,
    `keys(e)`, …), a consumed `y` and a comparison `op` (`==`, `!=`, `<`, `<=`, `>`, `>=`): if the model returns the
    value `r`, EVERY run returns exactly `r`; if it returns an error set, every run reports one category of it. The
    two runs' `max(src)` may be decimals of different representation (`C15B.max_not_covered`: the first of several
    equal-valued greatest numbers); the comparison does not see the difference. (The model answers `.nondet` here
    only when `src` holds two or more numbers one of which is a NaN, `arrayMax_enum_definite`.) -/
theorem cmp_extremum_run {d : Val} (hd : d.NoEnum = true) {op : BinOp} (hop : isCmp op = true) {mx : Fn}
    (hmx : isExtremum mx = true) {src y : INode} (hs : Classified src = true) (hy : Consumed y = true) :
    (∀ r, evaluate (.binop op (.call mx [src]) y) d = .ok r →
      ∀ π : Oracle, evaluateO π (.binop op (.call mx [src]) y) d = .ok r) ∧
    (∀ cs, evaluate (.binop op (.call mx [src]) y) d = .err cs →
      ∀ π : Oracle, ∃ c ∈ cs, evaluateO π (.binop op (.call mx [src]) y) d = .err [c]) := by
  have key : ∀ π : Oracle, _ := fun π =>
    cmp_compose_left hop (op := op)
      (extremum_simN ((π.sub 0).sub 1) hmx
        ((kind_sim hd src d [] hd rfl (((π.sub 0).sub 0).sub 0)).tri (classified_iff.mp hs)))
      ((kind_sim hd y d [] hd rfl (π.sub 1)).simR_of (consumed_iff.mp hy))
  refine ⟨fun r h π => ?_, fun cs h π => ?_⟩
  · rw [evaluate, ieval_binop, ieval_call1] at h
    rw [evaluateO, ievalO_binop, ievalO_call1]
    exact (key π).1 r h
  · rw [evaluate, ieval_binop, ieval_call1] at h
    rw [evaluateO, ievalO_binop, ievalO_call1]
    exact (key π).2 cs h

/-- **`y op max(src)` and `y op min(src)`**: likewise with the extremum on the right. -/
theorem cmp_extremum_run_right {d : Val} (hd : d.NoEnum = true) {op : BinOp} (hop : isCmp op = true) {mx : Fn}
    (hmx : isExtremum mx = true) {src y : INode} (hs : Classified src = true) (hy : Consumed y = true) :
    (∀ r, evaluate (.binop op y (.call mx [src])) d = .ok r →
      ∀ π : Oracle, evaluateO π (.binop op y (.call mx [src])) d = .ok r) ∧
    (∀ cs, evaluate (.binop op y (.call mx [src])) d = .err cs →
      ∀ π : Oracle, ∃ c ∈ cs, evaluateO π (.binop op y (.call mx [src])) d = .err [c]) := by
  have key : ∀ π : Oracle, _ := fun π =>
    cmp_compose_right hop (op := op)
      (extremum_simN ((π.sub 1).sub 1) hmx
        ((kind_sim hd src d [] hd rfl (((π.sub 1).sub 0).sub 0)).tri (classified_iff.mp hs)))
      ((kind_sim hd y d [] hd rfl (π.sub 0)).simR_of (consumed_iff.mp hy))
  refine ⟨fun r h π => ?_, fun cs h π => ?_⟩
  · rw [evaluate, ieval_binop, ieval_call1] at h
    rw [evaluateO, ievalO_binop, ievalO_call1]
    exact (key π).1 r h
  · rw [evaluate, ieval_binop, ieval_call1] at h
    rw [evaluateO, ievalO_binop, ievalO_call1]
    exact (key π).2 cs h

/-- **The model declines for `max` over an enumerated array only because of a NaN**: if no element is a NaN, the
    model's `max` of a map-ordered array is definite (likewise `min`). Numbers decoded from JSON are never NaN. -/
theorem max_enum_definite {xs : List Val} (h : ∀ x ∈ xs, ∀ d, toDecimal x = some d → d.isNaN = false) :
    applyFn .max [.arr .enum xs] ≠ .nondet ∧ applyFn .min [.arr .enum xs] ≠ .nondet :=
  ⟨arrayMax_enum_definite h, arrayMin_enum_definite h⟩

/-- `max(values(@)) > `1`` on the document of `C15B.max_not_covered` (`1.0` and `1` as decimals of different
    representation): the two runs' maxima differ as values, the comparison is `false` in every run -/
def pMaxGt : INode := .binop .gt (.call .max [.call .values [.current]]) (.lit (.num (.jnum [0x31])))
example : evaluate pMaxGt C15B.decDoc = .ok (.bool false) := rfl
example (π : Oracle) : evaluateO π pMaxGt C15B.decDoc = .ok (.bool false) :=
  (cmp_extremum_run (d := C15B.decDoc) (op := .gt) (mx := .max) (src := .call .values [.current])
    (y := .lit (.num (.jnum [0x31]))) (by decide) rfl rfl (by decide) (by decide)).1 _ rfl π
/-- `max(values(@)) == `2`` on `{"a": 1, "b": 2}` is `true` in every run -/
example (π : Oracle) : evaluateO π (.binop .eq (.call .max [.call .values [.current]]) (.lit (.num (.jnum [0x32])))) ab
    = .ok (.bool true) :=
  (cmp_extremum_run (d := ab) (op := .eq) (mx := .max) (src := .call .values [.current])
    (y := .lit (.num (.jnum [0x32]))) (by decide) rfl rfl (by decide) (by decide)).1 _ rfl π
/-- `` `2` <= min(*) `` on `{"a": 1, "b": 2}` is `false` in every run -/
example (π : Oracle) : evaluateO π (.binop .le (.lit (.num (.jnum [0x32]))) (.call .min [.objectValuesCurrent])) ab
    = .ok (.bool false) :=
  (cmp_extremum_run_right (d := ab) (op := .le) (mx := .min) (src := .objectValuesCurrent)
    (y := .lit (.num (.jnum [0x32]))) (by decide) rfl rfl (by decide) (by decide)).1 _ rfl π
example : applyFn .max [.arr .enum [.str [0x61], .bool true]] ≠ .nondet :=
  (max_enum_definite (xs := [.str [0x61], .bool true]) (by
    intro x hx d hd
    simp only [List.mem_cons, List.not_mem_nil, or_false] at hx
    rcases hx with rfl | rfl <;> cases hd)).1
/-- the model does not decline on `{"a": 1, "b": 2}`: no NaN -/
example : applyFn .max [.arr .enum [.num (.jnum [0x31]), .num (.jnum [0x32])]] ≠ .nondet := by
  intro h; cases h
/-- `max(keys(@))` below the head, strictly: part of the class (`consumed_max_keys`, `pSummary` above) -/
example (d : Val) (hd : d.NoEnum = true) :
    evaluate (.selectArrayCurrent [.call .max [.call .keys [.current]], .call .min [.call .keys [.current]]]) d
      ≠ .nondet := (consumed_evaluate hd (by decide)).1

/-- **`sum(src)` / `avg(src)` over a classified source** (`values(e)`, `e.*`, projections, …): a value of the model
    is returned by EVERY run exactly (every partial sum in every order is exact under the model's side condition
    `sumOrderFree`, `C15C.oracle_full`), an error set contains the category of every run. The model declines only
    when its side condition fails (`sum_enum_definite`). -/
theorem aggregate_run {d : Val} (hd : d.NoEnum = true) {f : Fn} (hf : f = .sum ∨ f = .avg) {src : INode}
    (hs : Classified src = true) :
    (∀ r, evaluate (.call f [src]) d = .ok r → ∀ π : Oracle, evaluateO π (.call f [src]) d = .ok r) ∧
    (∀ cs, evaluate (.call f [src]) d = .err cs → ∀ π : Oracle, ∃ c ∈ cs, evaluateO π (.call f [src]) d = .err [c]) := by
  have key : ∀ π : Oracle, Tri (Shape (kind src)) (ieval d src d []) (ievalO ((π.sub 0).sub 0) d src d []) :=
    fun π => (kind_sim hd src d [] hd rfl _).tri (classified_iff.mp hs)
  have hne : Fn.enumerates f = false := by rcases hf with rfl | rfl <;> rfl
  have hrun : ∀ {a a' : Val}, Conc a a' → applyFn f [a] ≠ .nondet → applyFn f [a'] = applyFn f [a] := by
    intro a a' hc hnd
    rcases hf with rfl | rfl
    · exact numSum_run hc hnd
    · exact numAvg_run hc hnd
  have herr : ∀ {a a' : Val}, Conc a a' → ErrH (applyFn f [a]) (applyFn f [a']) := by
    intro a a' hc
    rcases hf with rfl | rfl
    · exact numSum_errH hc
    · exact numAvg_errH hc
  refine ⟨fun r h π => ?_, fun cs h π => ?_⟩
  · rw [evaluate, ieval_call1] at h
    rw [evaluateO, ievalO_call1]
    obtain ⟨hdef, hsim, herrs⟩ := key π
    cases hv : ieval d src d [] with
    | ok v =>
      rw [hv] at h hsim
      obtain ⟨v', ev', hc⟩ := hsim v rfl
      rw [ev', Res.ok_bind, applyFnO_eq _ hne, hrun hc (by rw [show applyFn f [v] = _ from h]; intro e; cases e)]
      exact h
    | _ => rw [hv] at h; cases h
  · rw [evaluate, ieval_call1] at h
    rw [evaluateO, ievalO_call1]
    obtain ⟨hdef, hsim, herrs⟩ := key π
    cases hv : ieval d src d [] with
    | ok v =>
      rw [hv] at h hsim
      obtain ⟨v', ev', hc⟩ := hsim v rfl
      rw [ev', Res.ok_bind, applyFnO_eq _ hne]
      exact herr hc cs h
    | err cs' =>
      rw [hv] at h herrs
      obtain ⟨c, hcm, e⟩ := herrs cs' rfl
      cases h
      exact ⟨c, hcm, by rw [e]; rfl⟩
    | nondet => rw [hv] at h; cases h
    | panic w => rw [hv] at h; cases h
    | unmodelled w => rw [hv] at h; cases h

/-- the model's `sum` over a map-ordered array is definite whenever its side condition holds (fewer than two
    elements, or `sumOrderFree`: every subset sum is exact) -/
theorem sum_enum_definite {xs : List Val} (h : enumSumOk .enum xs = true) :
    applyFn .sum [.arr .enum xs] ≠ .nondet := by
  show numSum (.arr .enum xs) ≠ .nondet
  simp only [numSum, h, if_true]
  cases sumDec xs Dec.zero with
  | none => intro e; cases e
  | some r => exact (Sat.strict_iff.mp (Invar.checkD_sat (s := true) r)).1

example : applyFn .sum [.arr .enum [.num (.jnum [0x31])]] ≠ .nondet := sum_enum_definite rfl
/-- `sum(values(@))` on `{"a": 1, "b": 2}` is `3` in every run -/
example (π : Oracle) : evaluateO π C15C.pSumValues ab = .ok (.num (.dec (.fin false 3 0))) :=
  (aggregate_run (d := ab) (f := .sum) (src := .call .values [.current]) (by decide) (.inl rfl) (by decide)).1 _ rfl π

/-- **`from_items(items(e))`** for a consumed `e`, on a document whose objects have increasing (hence distinct) member
    names — the model's representation of Go maps, which `encoding/json` produces (`C18CS.decode_sorted`) and the
    evaluator preserves (`C18CS.ieval_sorted`): the model never answers `.nondet`, EVERY run returns the model's
    value, and when `e` is an object that value is the object itself. (The pairs reach `from_items` in map order;
    with distinct names the object rebuilt does not depend on it.) -/
theorem fromItems_items_run {d : Val} (hd : d.NoEnum = true) (hs : C18CR.Sorted d) {e : INode}
    (he : Consumed e = true) (hl : C18CS.ILits e) :
    evaluate (.call .fromItems [.call .items [e]]) d ≠ .nondet ∧
    (∀ r, evaluate (.call .fromItems [.call .items [e]]) d = .ok r →
      ∀ π : Oracle, evaluateO π (.call .fromItems [.call .items [e]]) d = .ok r) ∧
    (∀ cs, evaluate (.call .fromItems [.call .items [e]]) d = .err cs →
      ∀ π : Oracle, ∃ c ∈ cs, evaluateO π (.call .fromItems [.call .items [e]]) d = .err [c]) ∧
    (∀ kvs, evaluate e d = .ok (.obj kvs) → evaluate (.call .fromItems [.call .items [e]]) d = .ok (.obj kvs)) := by
  have hm : evaluate (.call .fromItems [.call .items [e]]) d =
      (ieval d e d [] >>= fun v => items v >>= fun a => fromItems a) := by
    rw [evaluate, ieval_call1, ieval_call1, Res.bind_assoc]; rfl
  have hr : ∀ π : Oracle, ∃ ρ ρ' : Oracle, evaluateO π (.call .fromItems [.call .items [e]]) d =
      (ievalO ρ d e d [] >>= fun v => itemsO ρ' v >>= fun a => fromItems a) := by
    intro π
    refine ⟨(((π.sub 0).sub 0).sub 0).sub 0, ((π.sub 0).sub 0).sub 1, ?_⟩
    rw [evaluateO, ievalO_call1, ievalO_call1, Res.bind_assoc]; rfl
  have key : ∀ ρ ρ' : Oracle, SimR (ieval d e d [] >>= fun v => items v >>= fun a => fromItems a)
      (ievalO ρ d e d [] >>= fun v => itemsO ρ' v >>= fun a => fromItems a) := fun ρ ρ' => by
    have he' := (kind_sim hd e d [] hd rfl ρ).simR_of (consumed_iff.mp he)
    cases hv : ieval d e d [] with
    | ok v =>
      rw [hv] at he'
      rw [he'.1, Res.ok_bind, Res.ok_bind]
      exact (fromItems_items_simR ρ' he'.2
        (C18CS.ieval_sorted hs hl hs (fun _ _ hm => by simp at hm) hv)).1
    | err cs => rw [hv] at he'; obtain ⟨c, hc, e'⟩ := he'; rw [e']; exact ⟨c, hc, rfl⟩
    | nondet => rw [hv] at he'; exact he'.elim
    | panic w => trivial
    | unmodelled w => trivial
  rw [hm]
  have k0 := SimS.iff.mp (key Oracle.keyOrder Oracle.keyOrder)
  refine ⟨k0.1, fun r h π => ?_, fun cs h π => ?_, fun kvs hv => ?_⟩
  · obtain ⟨ρ, ρ', e'⟩ := hr π
    rw [e']
    exact ((SimS.iff.mp (key ρ ρ')).2.1 r h).1
  · obtain ⟨ρ, ρ', e'⟩ := hr π
    rw [e']
    exact (SimS.iff.mp (key ρ ρ')).2.2 cs h
  · have hv' : ieval d e d [] = .ok (.obj kvs) := hv
    have hg := ((SimS.iff.mp ((kind_sim hd e d [] hd rfl Oracle.keyOrder).simR_of (consumed_iff.mp he))).2.1 _ hv').2
    rw [hv', Res.ok_bind]
    exact (fromItems_items_simR Oracle.keyOrder hg
      (C18CS.ieval_sorted hs hl hs (fun _ _ hm => by simp at hm) hv')).2 kvs rfl

/-- `from_items(items(@))` on `{"a": 1, "b": 2}` is the document, in every run -/
example (π : Oracle) : evaluateO π (.call .fromItems [.call .items [.current]]) ab = .ok ab :=
  (fromItems_items_run (d := ab) (e := .current) (by decide)
    (C18CS.sorted_obj2 (by decide) (by simp [C18CR.Sorted]) (by simp [C18CR.Sorted])) (by decide)
    (by simp [C18CS.ILits])).2.1 _ rfl π

/-! ## 5. over-tagging: sound, not complete

  The model tags an array map-ordered whenever SOME of its order came from ranging over a Go map, and answers `.nondet`
  whenever a later step looks at the order of such an array with two or more elements. This is SOUND — whenever the
  model returns a value or an error set, every run agrees (`C15B.oracle_enum`, `C15C.oracle_full`, section 2 above):
  the check never claims a determinism Go lacks — but it is NOT COMPLETE: the two cases below (measured by the
  reviewer against the Go code) are deterministic in Go, yet the model tags / declines. Neither is `Consumed`. -/

/-- the members of `{"a": 1, "b": 2}` -/
def abKvs : List (Bytes × Val) := [([0x61], .num (.jnum [0x31])), ([0x62], .num (.jnum [0x32]))]
def nine : Val := .num (.jnum [0x39])
/-- ``[values(@), [`9`]][]`` -/
def pOverFlat : INode :=
  .flatten (.selectArrayCurrent [.call .values [.current], .selectArraySingleCurrent (.lit nine)])
/-- `let $v = values(@) in $v == $v` -/
def pOverLet : INode := .defineVariables [([0x24, 0x76], .call .values [.current])]
  (.binop .eq (.variable [0x24, 0x76]) (.variable [0x24, 0x76]))

example : ab = .obj abKvs := rfl
example : Classified pOverFlat = false ∧ Classified pOverLet = false := by decide

/-- **Over-tagging 1**: ``[values(@), [`9`]][]`` on `{"a": 1, "b": 2}`. The model tags the whole flattened array
    map-ordered (`[1, 2, 9]` with tag `enum`: a later `[2]` or `[-1]` would be `.nondet`), although in EVERY run the
    `9` is last — only the first two elements vary. Sound (every run's array is a permutation of the model's), not
    complete. -/
theorem overtag_flatten :
    evaluate pOverFlat ab = .ok (.arr .enum [.num (.jnum [0x31]), .num (.jnum [0x32]), nine]) ∧
    evaluate (.index pOverFlat 2) ab = .nondet ∧
    ∀ π : Oracle,
      evaluateO π pOverFlat ab = .ok (.arr .plain [.num (.jnum [0x31]), .num (.jnum [0x32]), nine]) ∨
      evaluateO π pOverFlat ab = .ok (.arr .plain [.num (.jnum [0x32]), .num (.jnum [0x31]), nine]) := by
  refine ⟨rfl, rfl, fun π => ?_⟩
  obtain ⟨ρ, e⟩ : ∃ ρ : Oracle, evaluateO π pOverFlat (.obj abKvs) =
    .ok (flatten (.arr .plain [.arr .plain ((ρ.members abKvs).map Prod.snd), .arr .plain [nine]])) := ⟨_, rfl⟩
  show evaluateO π pOverFlat (.obj abKvs) = _ ∨ evaluateO π pOverFlat (.obj abKvs) = _
  rcases perm_two (ρ.members_perm abKvs) with h | h <;> rw [e, h]
  · left; rfl
  · right; rfl

theorem overLet_run (π : Oracle) : evaluateO π pOverLet (.obj abKvs) =
    (let x : Val := .arr .plain (((((π.sub 1).sub 0).sub 1).members abKvs).map Prod.snd); applyBinOp .eq x x) := by
  have ho := List.perm_singleton.mp (Oracle.order_perm (π.sub 0)
    [(([0x24, 0x76] : Bytes), ievalO ((π.sub 1).sub 0) (.obj abKvs) (.call .values [.current]) (.obj abKvs) [])])
  show (firstFailure ((π.sub 0).order [(([0x24, 0x76] : Bytes),
    ievalO ((π.sub 1).sub 0) (.obj abKvs) (.call .values [.current]) (.obj abKvs) [])]) [] >>= fun bs =>
      ievalO (π.sub 2) (.obj abKvs) (.binop .eq (.variable [0x24, 0x76]) (.variable [0x24, 0x76])) (.obj abKvs)
        (bs ++ [])) = _
  rw [ho]
  rfl

/-- **Over-tagging 2**: `let $v = values(@) in $v == $v` on `{"a": 1, "b": 2}`. The model answers `.nondet` (`==` on a
    map-ordered array of two elements), although in EVERY run the comparison is `true`: both sides are the SAME
    array, enumerated once. The model does not track that two map-ordered arrays share their order. Sound, not
    complete. -/
theorem overtag_let :
    evaluate pOverLet ab = .nondet ∧ ∀ π : Oracle, evaluateO π pOverLet ab = .ok (.bool true) := by
  refine ⟨rfl, fun π => ?_⟩
  show evaluateO π pOverLet (.obj abKvs) = _
  rw [overLet_run]
  rcases perm_two ((((π.sub 1).sub 0).sub 1).members_perm abKvs) with h | h <;> rw [h] <;> rfl

end Jmes.C15E
