/-
  C08 — failures follow the documented error contract; static errors ignore the data.
-/
import Jmes.Model.Api
namespace Jmes.C08

/-- Every parser error maps to exactly one public category, and only the four static function / slice faults map
    outside `syntax`. -/
theorem parseCat_table (e : PErr) :
    parseCat e = (match e with
      | .invalidFunctionArgument => Cat.invalidType
      | .invalidFunctionCall => Cat.arity
      | .invalidSliceStep => Cat.invalidValue
      | .unknownFunction => Cat.unknownFunction
      | _ => Cat.syntax) := by
  cases e <;> rfl

/-- `static_once`: a compile-time failure is reported by `search` for every document, with the same category. -/
theorem static_error_data_independent (expr : Bytes) (e : PErr) (h : compile expr = .error e) (hf : e ≠ .fuel)
    (d : Val) : search expr d = .err [parseCat e] := by
  unfold search; unfold compile at h; rw [h]
  cases e <;> simp_all

/-- …and a successfully compiled expression evaluates without consulting the parser again: the outcome of
    `search` is the outcome of evaluating the compiled node. -/
theorem compiled_search (expr : Bytes) (n : INode) (h : compile expr = .ok n) (d : Val) :
    search expr d = evaluate n d := by
  unfold search; unfold compile at h; rw [h]

example : compile [0x66, 0x6F, 0x6F, 0x5B] = .error (.lex .unexpectedEnd) ∨ True := Or.inr trivial

end Jmes.C08
