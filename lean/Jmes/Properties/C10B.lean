/-
  C10 (second part) — precedence and associativity around ARBITRARY operand expressions, chains of any length at
  mixed levels, documents that tell the groupings apart, and `-` next to a digit.

  `Properties/C10.lean` states the grouping theorems for token lists `A`, `B`, `C` that satisfy `Operand q ts n`, a
  hypothesis established there for a few shapes only.  Here the operands are arbitrary parse trees of the declarative
  grammar (`Spec/Grammar.lean`): every expression the parser accepts is the printing of such a tree
  (`C04G.parse_sound`), and every well-formed tree is parsed to the node the grammar assigns (`C04G.parse_complete`),
  so "for all well-formed trees `A B C`" is "for all operand expressions".  Nothing here mentions fuel.

  Vocabulary (all from `Spec/Grammar.lean`): `WellPrec t` — `t` is a tree of the grammar; `flatten t` — its tokens;
  `erase t` — the node it denotes; `llevel t` / `rlevel t` — how loose `t` is seen from the left / what may follow it;
  `binLevel o.type = some l` — `o` is a binary operator of level `l` (`|` 2, `||` 3, `&&` 4, comparisons 5, `+ -` 6,
  `* × / ÷ // %` 7); `binNode o.type` — the node constructor of `o`.
  `Lexes e ts` — the byte string `e` lexes to the tokens `ts`.
  An operand `X` may stand to the left of an operator of level `l` when `l ≤ rlevel X`, to its right when
  `l < llevel X` ("of sufficient level"); `Tight X` says both for every binary operator at once, and holds of every
  expression that is not itself a binary-operator expression and does not end in a `let` body.

  1. `binary`, `triple` (with `assoc_left`, `prec_left_tighter`, `prec_right_tighter`, `triple_tight`): `A o1 B o2 C`.
  2. `paren_override_left/right`, `paren_neutral`, `parse_paren`: parentheses.
  3. `not_tight`, `neg_tight`, `pos_tight`, `unary_right`, `not_dot`, `neg_dot`, `not_index`: unary operators.
  4. `proj_left`, `proj_right`, `star_dot_left`, `flatten_dot_left`, `filter_dot_left`: projections next to operators.
  5. `chain_parse`, `climb_split`, `chain_same_level`, `chain_head`: chains of any length at mixed levels.
  6. `parse_of_operand`, `search_eq_of_operands`, `paren_neutral_left_search`, `paren_neutral_right_search`: the
     theorems of `C10.lean` that carried "the parser does not run out of fuel" hypotheses, without them.
  7. `distinguish_*`: documents on which the two groupings differ in value.
  8. `minus_digit_*`: `a-1`, `a - 1`, `a -1`, `a[-1]`, `a[- 1]`.
-/
import Jmes.Proofs.C10BLemmas
import Jmes.Properties.C10
import Jmes.Properties.C04
namespace Jmes.C10B
open Jmes Jmes.Parser Jmes.Pratt Jmes.Grammar

/-- the byte string `e` lexes, without error, to the tokens `ts` (followed by the `end` token) -/
def Lexes (e : Bytes) (ts : List Token) : Prop := lexAll e = (ts ++ [endTok], none)

instance (e : Bytes) (ts : List Token) : Decidable (Lexes e ts) := inferInstanceAs (Decidable (_ = _))

/-- An expression whose tokens are those of a well-formed tree compiles to that tree's node and evaluates as that
    node, on every document (`C04G.parse_complete`, at the level of `search`). -/
theorem parse_tree {t : PTree} (h : WellPrec t) {e : Bytes} (hl : Lexes e (Grammar.flatten t)) :
    Parser.parse e = .ok (erase t) ∧ ∀ d, search e d = evaluate (erase t) d :=
  have hp := C04G.parse_complete h hl
  ⟨hp, fun d => search_of_parse hp d⟩

example : Parser.parse (Ex.bs "a.b") = .ok (.pipe (.field (Ex.bs "a")) (.field (Ex.bs "b"))) :=
  (parse_tree (t := .dotId (Ex.idt "a") (Ex.idt "b")) (by decide) (by decide)).1

section Vocabulary
open Grammar.Ex
/-- sample operands: identifiers `a`, `b`, `c`, … -/
abbrev iA : PTree := idt "a"
abbrev iB : PTree := idt "b"
abbrev iC : PTree := idt "c"
abbrev iD : PTree := idt "d"
abbrev iT : PTree := idt "t"
abbrev iF : PTree := idt "f"
abbrev nA : INode := .field (bs "a")
abbrev nB : INode := .field (bs "b")
abbrev nC : INode := .field (bs "c")
abbrev nD : INode := .field (bs "d")
abbrev nT : INode := .field (bs "t")
abbrev nF : INode := .field (bs "f")
abbrev oPipe : Token := op .pipe "|"
abbrev oOr : Token := op .or "||"
abbrev oAnd : Token := op .and "&&"
abbrev oEq : Token := op .equal "=="
abbrev oLt : Token := op .less "<"
abbrev oAdd : Token := op .add "+"
abbrev oSub : Token := op .subtract "-"
abbrev oMul : Token := op .asterisk "*"
abbrev oDiv : Token := op .divide "/"
abbrev oMod : Token := op .modulo "%"
/-- a JSON number -/
def jn (s : String) : Val := .num (.jnum (bs s))
/-- the decimal `±c` -/
def dn (neg : Bool) (c : Nat) : Val := .num (.dec (.fin neg c 0))
/-- the document `{"a": 2, "b": 3, "c": 4, "t": true, "f": false}` -/
def doc : Val := .obj [(bs "a", jn "2"), (bs "b", jn "3"), (bs "c", jn "4"), (bs "f", .bool false), (bs "t", .bool true)]

example : Lexes (bs "a+b") (Grammar.flatten (.bin oAdd iA iB)) := by decide
example : Tight iA ∧ Tight (.paren (.bin oAdd iA iB)) ∧ Tight (.star iA (.dotId .icur iB)) ∧ Tight (.not iA) ∧
    Tight (.neg oSub iA) ∧ Tight (.dotId iA iB) ∧ Tight (.index iA (int "0")) ∧
    Tight (.call ⟨.unquotedIdentifier, bs "abs"⟩ [iA]) := by decide +kernel
/-- not tight: a binary-operator expression, a `let`, `!` applied to a `let` -/
example : ¬ Tight (.bin oAdd iA iB) ∧ ¬ Tight (.letIn [(⟨.variable, bs "$x"⟩, iA)] iB) ∧
    ¬ Tight (.not (.letIn [(⟨.variable, bs "$x"⟩, iA)] iB)) := by decide
end Vocabulary

/-! ## 1. Two and three operands -/

/-- `A o B` is well formed when `A` may stand to the left of `o` and `B` to its right -/
theorem binary_wf {A B : PTree} {o : Token} {l : Nat} (ho : binLevel o.type = some l)
    (hA : WellPrec A) (hB : WellPrec B) (hAr : l ≤ rlevel A) (hBl : l < llevel B) : WellPrec (.bin o A B) :=
  wp_bin_intro ho hA hAr hB hBl

/-- **`binary`**: for arbitrary operand expressions `A`, `B` of sufficient level, the text `A o B` compiles to the
    node of `o` over the nodes of `A` and `B`. -/
theorem binary {A B : PTree} {o : Token} {l : Nat} (ho : binLevel o.type = some l)
    (hA : WellPrec A) (hB : WellPrec B) (hAr : l ≤ rlevel A) (hBl : l < llevel B)
    {e : Bytes} (hl : Lexes e (Grammar.flatten A ++ o :: Grammar.flatten B)) :
    Parser.parse e = .ok (binNode o.type (erase A) (erase B)) := by
  have h := (parse_tree (binary_wf ho hA hB hAr hBl) (e := e) (by rw [flatten_bin]; exact hl)).1
  rwa [erase_bin] at h

example : WellPrec (.bin oMul (.dotId iA iB) (.star iC .icur)) :=
  binary_wf (l := 7) rfl (by decide) (by decide) (by decide) (by decide)
-- `a.b[0] * foo[*].c` : selectors and projections as operands
example : Parser.parse (Ex.bs "a.b[0] * foo[*].c") =
    .ok (.binop .mul (.pipe nA (.index nB 0)) (.projectArray (.field (Ex.bs "foo")) nC)) :=
  binary (o := oMul) (A := .dotId iA (.index iB (Ex.int "0"))) (B := .star (Ex.idt "foo") (.dotId .icur iC))
    rfl (by decide) (by decide) (by decide) (by decide) (by decide)

/-- the operator not tighter than the one before it: the left grouping `(A o1 B) o2 C` is the well-formed one -/
theorem group_left_wf {A B C : PTree} {o1 o2 : Token} {l1 l2 : Nat}
    (h1 : binLevel o1.type = some l1) (h2 : binLevel o2.type = some l2) (h21 : l2 ≤ l1)
    (hA : WellPrec A) (hB : WellPrec B) (hC : WellPrec C)
    (hAr : l1 ≤ rlevel A) (hBl : l1 < llevel B) (hBr : l2 ≤ rlevel B) (hCl : l2 < llevel C) :
    WellPrec (.bin o2 (.bin o1 A B) C) :=
  wp_bin_intro h2 (wp_bin_intro h1 hA hAr hB hBl) (by rw [rlevel_bin h1]; omega) hC hCl

/-- the operator tighter than the one before it: the right grouping `A o1 (B o2 C)` is the well-formed one -/
theorem group_right_wf {A B C : PTree} {o1 o2 : Token} {l1 l2 : Nat}
    (h1 : binLevel o1.type = some l1) (h2 : binLevel o2.type = some l2) (h12 : l1 < l2)
    (hA : WellPrec A) (hB : WellPrec B) (hC : WellPrec C)
    (hAr : l1 ≤ rlevel A) (hBl : l1 < llevel B) (hBr : l2 ≤ rlevel B) (hCl : l2 < llevel C) :
    WellPrec (.bin o1 A (.bin o2 B C)) :=
  wp_bin_intro h1 hA hAr (wp_bin_intro h2 hB hBr hC hCl) (by rw [llevel_bin h2 (wp_ne_icur hB)]; omega)

example : WellPrec (.bin oAdd (.bin oMul iA iB) iC) ∧ WellPrec (.bin oAdd iA (.bin oMul iB iC)) :=
  ⟨group_left_wf (l1 := 7) (l2 := 6) rfl rfl (by decide) (by decide) (by decide) (by decide) (by decide) (by decide)
    (by decide) (by decide),
   group_right_wf (l1 := 6) (l2 := 7) rfl rfl (by decide) (by decide) (by decide) (by decide) (by decide) (by decide)
    (by decide) (by decide)⟩
-- … and the other grouping is not in the grammar
example : ¬ WellPrec (.bin oMul iA (.bin oAdd iB iC)) ∧ ¬ WellPrec (.bin oSub iA (.bin oSub iB iC)) := by decide

/-- **`triple`**: for arbitrary operand expressions `A`, `B`, `C` of sufficient level (`A` may stand to the left of
    `o1`, `B` between `o1` and `o2`, `C` to the right of `o2`) and binary operators `o1`, `o2` of levels `l1`, `l2`, the
    text `A o1 B o2 C` compiles to `A o1 (B o2 C)` when `o2` binds tighter (`l1 < l2`), and to `(A o1 B) o2 C` otherwise:
    the higher level binds tighter, equal levels associate to the left.  This includes two comparison operators in a
    row (`a < b == c` is `(a < b) == c`: in this implementation comparisons are left-associative, not
    non-associative). -/
theorem triple {A B C : PTree} {o1 o2 : Token} {l1 l2 : Nat}
    (h1 : binLevel o1.type = some l1) (h2 : binLevel o2.type = some l2)
    (hA : WellPrec A) (hB : WellPrec B) (hC : WellPrec C)
    (hAr : l1 ≤ rlevel A) (hBl : l1 < llevel B) (hBr : l2 ≤ rlevel B) (hCl : l2 < llevel C)
    {e : Bytes} (hl : Lexes e (Grammar.flatten A ++ o1 :: (Grammar.flatten B ++ o2 :: Grammar.flatten C))) :
    Parser.parse e = .ok
      (if l1 < l2 then binNode o1.type (erase A) (binNode o2.type (erase B) (erase C))
       else binNode o2.type (binNode o1.type (erase A) (erase B)) (erase C)) := by
  split
  · rename_i h12
    have h := (parse_tree (group_right_wf h1 h2 h12 hA hB hC hAr hBl hBr hCl) (e := e)
      (by rw [flatten_bin, flatten_bin]; exact hl)).1
    rwa [erase_bin, erase_bin] at h
  · rename_i h21
    have h := (parse_tree (group_left_wf h1 h2 (Nat.le_of_not_lt h21) hA hB hC hAr hBl hBr hCl) (e := e)
      (by rw [flatten_bin, flatten_bin, List.append_assoc, List.cons_append]; exact hl)).1
    rwa [erase_bin, erase_bin] at h

/-- equal levels associate to the left -/
theorem assoc_left {A B C : PTree} {o1 o2 : Token} {l : Nat}
    (h1 : binLevel o1.type = some l) (h2 : binLevel o2.type = some l)
    (hA : WellPrec A) (hB : WellPrec B) (hC : WellPrec C)
    (hAr : l ≤ rlevel A) (hBl : l < llevel B) (hBr : l ≤ rlevel B) (hCl : l < llevel C)
    {e : Bytes} (hl : Lexes e (Grammar.flatten A ++ o1 :: (Grammar.flatten B ++ o2 :: Grammar.flatten C))) :
    Parser.parse e = .ok (binNode o2.type (binNode o1.type (erase A) (erase B)) (erase C)) := by
  have h := triple h1 h2 hA hB hC hAr hBl hBr hCl hl
  rwa [if_neg (Nat.lt_irrefl _)] at h

/-- a tighter operator on the left groups first -/
theorem prec_left_tighter {A B C : PTree} {o1 o2 : Token} {l1 l2 : Nat}
    (h1 : binLevel o1.type = some l1) (h2 : binLevel o2.type = some l2) (h21 : l2 < l1)
    (hA : WellPrec A) (hB : WellPrec B) (hC : WellPrec C)
    (hAr : l1 ≤ rlevel A) (hBl : l1 < llevel B) (hBr : l2 ≤ rlevel B) (hCl : l2 < llevel C)
    {e : Bytes} (hl : Lexes e (Grammar.flatten A ++ o1 :: (Grammar.flatten B ++ o2 :: Grammar.flatten C))) :
    Parser.parse e = .ok (binNode o2.type (binNode o1.type (erase A) (erase B)) (erase C)) := by
  have h := triple h1 h2 hA hB hC hAr hBl hBr hCl hl
  rwa [if_neg (by omega)] at h

/-- a tighter operator on the right groups first -/
theorem prec_right_tighter {A B C : PTree} {o1 o2 : Token} {l1 l2 : Nat}
    (h1 : binLevel o1.type = some l1) (h2 : binLevel o2.type = some l2) (h12 : l1 < l2)
    (hA : WellPrec A) (hB : WellPrec B) (hC : WellPrec C)
    (hAr : l1 ≤ rlevel A) (hBl : l1 < llevel B) (hBr : l2 ≤ rlevel B) (hCl : l2 < llevel C)
    {e : Bytes} (hl : Lexes e (Grammar.flatten A ++ o1 :: (Grammar.flatten B ++ o2 :: Grammar.flatten C))) :
    Parser.parse e = .ok (binNode o1.type (erase A) (binNode o2.type (erase B) (erase C))) := by
  have h := triple h1 h2 hA hB hC hAr hBl hBr hCl hl
  rwa [if_pos h12] at h

/-- **`triple_tight`**: the same with the level conditions discharged once and for all: `A`, `B`, `C` tight (anything
    but a bare binary-operator expression or something ending in a `let` body), `o1`, `o2` ANY two binary operators. -/
theorem triple_tight {A B C : PTree} {o1 o2 : Token} {l1 l2 : Nat}
    (h1 : binLevel o1.type = some l1) (h2 : binLevel o2.type = some l2) (hA : Tight A) (hB : Tight B) (hC : Tight C)
    {e : Bytes} (hl : Lexes e (Grammar.flatten A ++ o1 :: (Grammar.flatten B ++ o2 :: Grammar.flatten C))) :
    Parser.parse e = .ok
      (if l1 < l2 then binNode o1.type (erase A) (binNode o2.type (erase B) (erase C))
       else binNode o2.type (binNode o1.type (erase A) (erase B)) (erase C)) := by
  have := level_le h1; have := level_le h2
  have := hA.2.2; have := hB.2.1; have := hB.2.2; have := hC.2.1
  exact triple h1 h2 hA.1 hB.1 hC.1 (by omega) (by omega) (by omega) (by omega) hl

section
open Grammar.Ex
-- `(a || b)[0] - foo[*].c * !d` : a parenthesised `||`, a projection and a `!` as operands of `-` and `*`
example : Parser.parse (bs "(a || b)[0] - foo[*].c * !d") =
    .ok (.binop .sub (.index (.or nA nB) 0) (.binop .mul (.projectArray (.field (bs "foo")) nC) (.not nD))) :=
  triple_tight (o1 := oSub) (o2 := oMul) (A := .index (.paren (.bin oOr iA iB)) (int "0"))
    (B := .star (idt "foo") (.dotId .icur iC)) (C := .not iD) rfl rfl (by decide) (by decide) (by decide) (by decide)
-- two comparisons: left-associative
example : Parser.parse (bs "a < b == c") = .ok (.binop .eq (.binop .lt nA nB) nC) :=
  assoc_left (o1 := oLt) (o2 := oEq) (A := iA) (B := iB) (C := iC) rfl rfl (by decide) (by decide) (by decide)
    (by decide) (by decide) (by decide) (by decide) (by decide)
-- comparison next to additive, `//` next to `/`, pipe next to arithmetic
example : Parser.parse (bs "a < b + c") = .ok (.binop .lt nA (.binop .add nB nC)) :=
  prec_right_tighter (o1 := oLt) (o2 := oAdd) (A := iA) (B := iB) (C := iC) rfl rfl (by decide) (by decide)
    (by decide) (by decide) (by decide) (by decide) (by decide) (by decide) (by decide)
example : Parser.parse (bs "a // b / c") = .ok (.binop .div (.binop .idiv nA nB) nC) :=
  assoc_left (o1 := op .integerDivide "//") (o2 := oDiv) (A := iA) (B := iB) (C := iC) rfl rfl (by decide) (by decide)
    (by decide) (by decide) (by decide) (by decide) (by decide) (by decide)
example : Parser.parse (bs "a * b | c") = .ok (.pipe (.binop .mul nA nB) nC) :=
  prec_left_tighter (o1 := oMul) (o2 := oPipe) (A := iA) (B := iB) (C := iC) rfl rfl (by decide) (by decide)
    (by decide) (by decide) (by decide) (by decide) (by decide) (by decide) (by decide)
-- the level conditions are needed: a `let` cannot stand to the left of an operator (its body extends to the right):
-- `let $x = a in b + c` is `let $x = a in (b + c)`
example : Parser.parse (bs "let $x = a in b + c") = .ok (.defineVariables [(bs "$x", nA)] (.binop .add nB nC)) :=
  (parse_tree (t := .letIn [(⟨.variable, bs "$x"⟩, iA)] (.bin oAdd iB iC)) (by decide) (by decide)).1
end

/-! ## 2. Parentheses -/

/-- **`parse_paren`**: parentheses around a whole expression change nothing -/
theorem parse_paren {t : PTree} (h : WellPrec t) {e1 e2 : Bytes} (h1 : Lexes e1 (Grammar.flatten t))
    (h2 : Lexes e2 (tLParen :: (Grammar.flatten t ++ [tRParen]))) :
    Parser.parse e2 = Parser.parse e1 ∧ ∀ d, search e2 d = search e1 d :=
  C04G.paren_neutral_general (p := .paren t) (q := t) (C04G.wellPrec_paren h) h rfl
    (by rw [flatten_paren]; exact h2) h1

/-- `( A o1 B ) o2 C` groups to the left whatever the levels of `o1` and `o2` -/
theorem paren_override_left {A B C : PTree} {o1 o2 : Token} {l1 l2 : Nat}
    (h1 : binLevel o1.type = some l1) (h2 : binLevel o2.type = some l2)
    (hA : WellPrec A) (hB : WellPrec B) (hC : WellPrec C)
    (hAr : l1 ≤ rlevel A) (hBl : l1 < llevel B) (hCl : l2 < llevel C)
    {e : Bytes} (hl : Lexes e (tLParen :: ((Grammar.flatten A ++ o1 :: Grammar.flatten B) ++ [tRParen]) ++
      o2 :: Grammar.flatten C)) :
    Parser.parse e = .ok (binNode o2.type (binNode o1.type (erase A) (erase B)) (erase C)) := by
  have hw : WellPrec (.bin o2 (.paren (.bin o1 A B)) C) :=
    binary_wf h2 (C04G.wellPrec_paren (binary_wf h1 hA hB hAr hBl)) hC
      (by rw [rlevel_paren]; have := level_le h2; simp only [lvlMul, top] at *; omega) hCl
  have h := (parse_tree hw (e := e) (by rw [flatten_bin, flatten_paren, flatten_bin]; exact hl)).1
  rwa [erase_bin, C04G.erase_paren, erase_bin] at h

/-- `A o1 ( B o2 C )` groups to the right whatever the levels of `o1` and `o2` -/
theorem paren_override_right {A B C : PTree} {o1 o2 : Token} {l1 l2 : Nat}
    (h1 : binLevel o1.type = some l1) (h2 : binLevel o2.type = some l2)
    (hA : WellPrec A) (hB : WellPrec B) (hC : WellPrec C)
    (hAr : l1 ≤ rlevel A) (hBr : l2 ≤ rlevel B) (hCl : l2 < llevel C)
    {e : Bytes} (hl : Lexes e (Grammar.flatten A ++ o1 :: tLParen ::
      ((Grammar.flatten B ++ o2 :: Grammar.flatten C) ++ [tRParen]))) :
    Parser.parse e = .ok (binNode o1.type (erase A) (binNode o2.type (erase B) (erase C))) := by
  have hw : WellPrec (.bin o1 A (.paren (.bin o2 B C))) :=
    binary_wf h1 hA (C04G.wellPrec_paren (binary_wf h2 hB hC hBr hCl)) hAr
      (by rw [llevel_paren]; have := level_le h1; simp only [lvlMul, top] at *; omega)
  have h := (parse_tree hw (e := e) (by rw [flatten_bin, flatten_paren, flatten_bin]; exact hl)).1
  rwa [erase_bin, C04G.erase_paren, erase_bin] at h

/-- **`paren_neutral`**: writing the implied parentheses never changes the outcome.  For arbitrary operands of
    sufficient level: if `e` is `A o1 B o2 C`, `eL` is `( A o1 B ) o2 C` and `eR` is `A o1 ( B o2 C )`, then `e` compiles
    and evaluates (on every document) like `eR` when `o2` binds tighter than `o1`, and like `eL` otherwise.  No
    hypothesis about fuel. -/
theorem paren_neutral {A B C : PTree} {o1 o2 : Token} {l1 l2 : Nat}
    (h1 : binLevel o1.type = some l1) (h2 : binLevel o2.type = some l2)
    (hA : WellPrec A) (hB : WellPrec B) (hC : WellPrec C)
    (hAr : l1 ≤ rlevel A) (hBl : l1 < llevel B) (hBr : l2 ≤ rlevel B) (hCl : l2 < llevel C)
    {e eL eR : Bytes} (hl : Lexes e (Grammar.flatten A ++ o1 :: (Grammar.flatten B ++ o2 :: Grammar.flatten C)))
    (hL : Lexes eL (tLParen :: ((Grammar.flatten A ++ o1 :: Grammar.flatten B) ++ [tRParen]) ++
      o2 :: Grammar.flatten C))
    (hR : Lexes eR (Grammar.flatten A ++ o1 :: tLParen ::
      ((Grammar.flatten B ++ o2 :: Grammar.flatten C) ++ [tRParen]))) :
    (l1 < l2 → Parser.parse e = Parser.parse eR ∧ ∀ d, search e d = search eR d) ∧
    (l2 ≤ l1 → Parser.parse e = Parser.parse eL ∧ ∀ d, search e d = search eL d) := by
  have he := triple h1 h2 hA hB hC hAr hBl hBr hCl hl
  constructor
  · intro h12
    rw [if_pos h12] at he
    have h := he.trans (paren_override_right h1 h2 hA hB hC hAr hBr hCl hR).symm
    exact ⟨h, C10.search_eq_of_parse_eq h⟩
  · intro h21
    rw [if_neg (by omega)] at he
    have h := he.trans (paren_override_left h1 h2 hA hB hC hAr hBl hCl hL).symm
    exact ⟨h, C10.search_eq_of_parse_eq h⟩

section
open Grammar.Ex
example : Parser.parse (bs "(a.b + c[0]) * d") = .ok (.binop .mul (.binop .add (.pipe nA nB) (.index nC 0)) nD) :=
  paren_override_left (o1 := oAdd) (o2 := oMul) (A := .dotId iA iB) (B := .index iC (int "0")) (C := iD) rfl rfl
    (by decide) (by decide) (by decide) (by decide) (by decide) (by decide) (by decide)
example : Parser.parse (bs "a * (b + c)") = .ok (.binop .mul nA (.binop .add nB nC)) :=
  paren_override_right (o1 := oMul) (o2 := oAdd) (A := iA) (B := iB) (C := iC) rfl rfl
    (by decide) (by decide) (by decide) (by decide) (by decide) (by decide) (by decide)
example (d : Val) : search (bs "a + b * c") d = search (bs "a + (b * c)") d :=
  ((paren_neutral (o1 := oAdd) (o2 := oMul) (A := iA) (B := iB) (C := iC) (e := bs "a + b * c")
    (eL := bs "(a + b) * c") (eR := bs "a + (b * c)") rfl rfl (by decide) (by decide) (by decide) (by decide)
    (by decide) (by decide) (by decide) (by decide) (by decide) (by decide)).1 (by decide)).2 d
example (d : Val) : search (bs "a - b - c") d = search (bs "(a - b) - c") d :=
  ((paren_neutral (o1 := oSub) (o2 := oSub) (A := iA) (B := iB) (C := iC) (e := bs "a - b - c")
    (eL := bs "(a - b) - c") (eR := bs "a - (b - c)") rfl rfl (by decide) (by decide) (by decide) (by decide)
    (by decide) (by decide) (by decide) (by decide) (by decide) (by decide)).2 (by decide)).2 d
example (d : Val) : search (bs "(foo[*].bar.baz)") d = search (bs "foo[*].bar.baz") d :=
  (parse_paren (t := e01) (by decide) (by decide) (by decide)).2 d
end

/-! ## 3. Unary operators

  `!` reads its operand at its own level (12, above `.`); the signs read theirs at the multiplicative level (7, below
  every selector).  Hence all three bind tighter than every binary operator, `-a.b` is `-(a.b)`, `!a.b` is `(!a).b`,
  `!a[0]` is `!(a[0])` (brackets, level 13, are tighter than `!`), but `!a[?c]` and `!a[]` are `(!a)[?c]`, `(!a)[]`. -/

/-- `! A o B` is `(! A) o B`, for every operand `A` of `!` and every binary operator `o` -/
theorem not_tight {A B : PTree} {o : Token} {l : Nat} (ho : binLevel o.type = some l)
    (hA : WellPrec A) (hB : WellPrec B) (hAl : lvlNot < llevel A) (hAr : l ≤ rlevel A) (hBl : l < llevel B)
    {e : Bytes} (hl : Lexes e (tNot :: Grammar.flatten A ++ o :: Grammar.flatten B)) :
    Parser.parse e = .ok (binNode o.type (.not (erase A)) (erase B)) := by
  have := level_le ho
  exact binary ho (wp_not_intro hA hAl) hB (by rw [rlevel_not]; simp only [lvlNot, lvlMul] at *; omega) hBl
    (by rw [flatten_not]; exact hl)

/-- `- A o B` is `(- A) o B` (the token is `-` or `−`) -/
theorem neg_tight {A B : PTree} {tok o : Token} {l : Nat} (htok : tok.type = .subtract)
    (ho : binLevel o.type = some l)
    (hA : WellPrec A) (hB : WellPrec B) (hAl : lvlMul < llevel A) (hAr : l ≤ rlevel A) (hBl : l < llevel B)
    {e : Bytes} (hl : Lexes e (tok :: Grammar.flatten A ++ o :: Grammar.flatten B)) :
    Parser.parse e = .ok (binNode o.type (.negate (erase A)) (erase B)) := by
  have := level_le ho
  have h := binary ho (wp_neg_intro htok hA hAl) hB (by rw [rlevel_neg]; omega) hBl (e := e)
    (by rw [flatten_neg]; exact hl)
  rwa [erase_neg] at h

/-- `+ A o B` is `(+ A) o B` -/
theorem pos_tight {A B : PTree} {o : Token} {l : Nat} (ho : binLevel o.type = some l)
    (hA : WellPrec A) (hB : WellPrec B) (hAl : lvlMul < llevel A) (hAr : l ≤ rlevel A) (hBl : l < llevel B)
    {e : Bytes} (hl : Lexes e (tPlus :: Grammar.flatten A ++ o :: Grammar.flatten B)) :
    Parser.parse e = .ok (binNode o.type (.assertNumber (erase A)) (erase B)) := by
  have := level_le ho
  have h := binary ho (wp_pos_intro hA hAl) hB (by rw [rlevel_pos]; omega) hBl (e := e)
    (by rw [flatten_pos]; exact hl)
  rwa [erase_pos] at h

/-- a unary operator to the right of a binary operator: `A o ! B`, `A o - B`, `A o + B` -/
theorem unary_right {A B : PTree} {o : Token} {l : Nat} (ho : binLevel o.type = some l)
    (hA : WellPrec A) (hB : WellPrec B) (hAr : l ≤ rlevel A) {e : Bytes} :
    (lvlNot < llevel B → Lexes e (Grammar.flatten A ++ o :: tNot :: Grammar.flatten B) →
      Parser.parse e = .ok (binNode o.type (erase A) (.not (erase B)))) ∧
    (∀ tok : Token, tok.type = .subtract → lvlMul < llevel B →
      Lexes e (Grammar.flatten A ++ o :: tok :: Grammar.flatten B) →
      Parser.parse e = .ok (binNode o.type (erase A) (.negate (erase B)))) ∧
    (lvlMul < llevel B → Lexes e (Grammar.flatten A ++ o :: tPlus :: Grammar.flatten B) →
      Parser.parse e = .ok (binNode o.type (erase A) (.assertNumber (erase B)))) := by
  have hlt : l < top := by have := level_le ho; simp only [lvlMul, top] at *; omega
  refine ⟨fun hBl hl => ?_, fun tok htok hBl hl => ?_, fun hBl hl => ?_⟩
  · have h := binary ho hA (wp_not_intro hB hBl) hAr (by rw [llevel_not]; exact hlt) (e := e)
      (by rw [flatten_not]; exact hl)
    rwa [erase_not] at h
  · have h := binary ho hA (wp_neg_intro htok hB hBl) hAr (by rw [llevel_neg]; exact hlt) (e := e)
      (by rw [flatten_neg]; exact hl)
    rwa [erase_neg] at h
  · have h := binary ho hA (wp_pos_intro hB hBl) hAr (by rw [llevel_pos]; exact hlt) (e := e)
      (by rw [flatten_pos]; exact hl)
    rwa [erase_pos] at h

/-- **`!A.B` is `(!A).B`** — `!` binds tighter than `.` — for every operand `A` of `!` that a `.` may follow -/
theorem not_dot {A B : PTree} (hA : WellPrec A) (hB : WellPrec B) (hAl : lvlNot < llevel A)
    (hAr : lvlDot ≤ rlevel A) (hBl : lvlDot < llevel B) (hs : startsWithIdent B = true)
    {e : Bytes} (hl : Lexes e (tNot :: Grammar.flatten A ++ tDot :: Grammar.flatten B)) :
    Parser.parse e = .ok (.pipe (.not (erase A)) (erase B)) := by
  have hw : WellPrec (.dotId (.not A) B) :=
    wp_dotId_intro (wp_not_intro hA hAl) (by rw [rlevel_not]; simp only [lvlNot, lvlDot] at *; omega) hB hBl hs
  have h := (parse_tree hw (e := e) (by rw [flatten_dotId, flatten_not]; exact hl)).1
  rwa [erase_dotId rfl, erase_not] at h

/-- **`-A.B` is `-(A.B)`** — the sign binds looser than `.` -/
theorem neg_dot {A B : PTree} {tok : Token} (htok : tok.type = .subtract) (hA : WellPrec A) (hB : WellPrec B)
    (hAl : lvlMul < llevel A) (hAr : lvlDot ≤ rlevel A) (hBl : lvlDot < llevel B) (hs : startsWithIdent B = true)
    {e : Bytes} (hl : Lexes e (tok :: (Grammar.flatten A ++ tDot :: Grammar.flatten B))) :
    Parser.parse e = .ok (.negate (.pipe (erase A) (erase B))) := by
  have hw : WellPrec (.neg tok (.dotId A B)) :=
    wp_neg_intro htok (wp_dotId_intro hA hAr hB hBl hs)
      (by rw [llevel_dotId (wp_ne_icur hA)]; simp only [lvlMul, lvlDot] at *; omega)
  have h := (parse_tree hw (e := e) (by rw [flatten_neg, flatten_dotId]; exact hl)).1
  rwa [erase_neg, erase_dotId (wp_ne_icur hA)] at h

/-- **`!A[n]` is `!(A[n])`** — brackets bind tighter than `!` -/
theorem not_index {A : PTree} {n : Token} (hA : WellPrec A) (hAl : lvlNot < llevel A) (hAr : lvlBracket ≤ rlevel A)
    (hn : isIntTok n = true) {e : Bytes} (hl : Lexes e (tNot :: (Grammar.flatten A ++ [tLBracket, n, tRBracket]))) :
    Parser.parse e = .ok (.not (.index (erase A) ((intOf n).getD 0))) := by
  have hw : WellPrec (.not (.index A n)) :=
    wp_not_intro (wp_index_intro hA hAr hn)
      (by rw [llevel_index (wp_ne_icur hA)]; simp only [lvlNot, lvlBracket] at *; omega)
  have h := (parse_tree hw (e := e) (by rw [flatten_not, flatten_index]; exact hl)).1
  rwa [erase_not, erase_index (wp_ne_icur hA)] at h

section
open Grammar.Ex
-- `!(a || b) == c`, `-a[0] * b`, `+a.b - c`
example : Parser.parse (bs "!(a || b) == c") = .ok (.binop .eq (.not (.or nA nB)) nC) :=
  not_tight (o := oEq) (A := .paren (.bin oOr iA iB)) (B := iC) rfl (by decide) (by decide) (by decide) (by decide)
    (by decide) (by decide)
example : Parser.parse (bs "-a[0] * b") = .ok (.binop .mul (.negate (.index nA 0)) nB) :=
  neg_tight (tok := oSub) (o := oMul) (A := .index iA (int "0")) (B := iB) rfl rfl (by decide) (by decide) (by decide)
    (by decide) (by decide) (by decide)
example : Parser.parse (bs "+a.b - c") = .ok (.binop .sub (.assertNumber (.pipe nA nB)) nC) :=
  pos_tight (o := oSub) (A := .dotId iA iB) (B := iC) rfl (by decide) (by decide) (by decide) (by decide) (by decide)
    (by decide)
example : Parser.parse (bs "a && !b") = .ok (.and nA (.not nB)) :=
  (unary_right (o := oAnd) (A := iA) (B := iB) rfl (by decide) (by decide) (by decide)).1 (by decide) (by decide)
-- `a*−b` with U+2212
example : Parser.parse [0x61, 0x2A, 0xE2, 0x88, 0x92, 0x62] = .ok (.binop .mul nA (.negate nB)) :=
  (unary_right (o := oMul) (A := iA) (B := iB) rfl (by decide) (by decide) (by decide)).2.1
    ⟨.subtract, [0xE2, 0x88, 0x92]⟩ rfl (by decide) (by decide)
example : Parser.parse (bs "!a.b") = .ok (.pipe (.not nA) nB) :=
  not_dot (A := iA) (B := iB) (by decide) (by decide) (by decide) (by decide) (by decide) (by decide) (by decide)
example : Parser.parse (bs "!(a).b[0]") = .ok (.pipe (.not nA) (.index nB 0)) :=
  not_dot (A := .paren iA) (B := .index iB (int "0")) (by decide) (by decide) (by decide) (by decide) (by decide)
    (by decide) (by decide)
example : Parser.parse (bs "-a.b") = .ok (.negate (.pipe nA nB)) :=
  neg_dot (tok := oSub) (A := iA) (B := iB) rfl (by decide) (by decide) (by decide) (by decide) (by decide) (by decide)
    (by decide)
example : Parser.parse (bs "!a[0]") = .ok (.not (.index nA 0)) :=
  not_index (A := iA) (n := int "0") (by decide) (by decide) (by decide) (by decide) (by decide)
-- … but `[?…]` and `[]` are looser than `!`: `!a[?b]` is `(!a)[?b]`, `!a[]` is `(!a)[]`; and `!a[*].b` is `!(a[*].b)`
example : Parser.parse (bs "!a[?b]") = .ok (.filter (.not nA) nB) :=
  (parse_tree (t := .filt (.not iA) iB .icur) (by decide) (by decide)).1
example : Parser.parse (bs "!a[]") = .ok (.flatten (.not nA)) :=
  (parse_tree (t := .flat (.not iA) .icur) (by decide) (by decide)).1
example : Parser.parse (bs "!a[*].b") = .ok (.not (.projectArray nA nB)) :=
  (parse_tree (t := .not (.star iA (.dotId .icur iB))) (by decide) (by decide)).1
end

/-! ## 4. Projections next to binary operators

  Every binary operator closes the projection on its left (`rlevel` of a projection is `lvlProj = 9`, above the
  multiplicative level), and a projection is an operand on its right (`tight_of_proj`). -/

/-- **`proj_left`**: a projection `P` (any of `l[*] r`, `l.* r`, `l[] r`, `l[?c] r`, `l[a:b:c] r`, with any right-hand
    side) on the left of ANY binary operator: `P o C` is `(P) o C` -/
theorem proj_left {P C : PTree} {o : Token} {l : Nat} (ho : binLevel o.type = some l)
    (hP : WellPrec P) (hp : isProj P = true) (hC : WellPrec C) (hCl : l < llevel C)
    {e : Bytes} (hl : Lexes e (Grammar.flatten P ++ o :: Grammar.flatten C)) :
    Parser.parse e = .ok (binNode o.type (erase P) (erase C)) :=
  binary ho hP hC (by rw [rlevel_proj hp]; have := level_le ho; simp only [lvlMul, lvlProj] at *; omega) hCl hl

/-- **`proj_right`**: a projection on the right of any binary operator: `A o P` is `A o (P)`, the projection (with
    its whole right-hand side) being the right operand -/
theorem proj_right {A P : PTree} {o : Token} {l : Nat} (ho : binLevel o.type = some l)
    (hA : WellPrec A) (hAr : l ≤ rlevel A) (hP : WellPrec P) (hp : isProj P = true)
    {e : Bytes} (hl : Lexes e (Grammar.flatten A ++ o :: Grammar.flatten P)) :
    Parser.parse e = .ok (binNode o.type (erase A) (erase P)) :=
  binary ho hA hP hAr (by have := (tight_of_proj hP hp).2.1; have := level_le ho; omega) hl

/-- `A[*].B o C` is `(A[*].B) o C` -/
theorem star_dot_left {A B C : PTree} {o : Token} {l : Nat} (ho : binLevel o.type = some l)
    (hA : WellPrec A) (hAr : lvlBracket ≤ rlevel A) (hB : WellPrec B) (hBl : lvlDot < llevel B)
    (hs : startsWithIdent B = true) (hC : WellPrec C) (hCl : l < llevel C)
    {e : Bytes} (hl : Lexes e ((Grammar.flatten A ++ tArrayStar :: tDot :: Grammar.flatten B) ++ o :: Grammar.flatten C)) :
    Parser.parse e = .ok (binNode o.type (.projectArray (erase A) (erase B)) (erase C)) := by
  have h := proj_left ho (star_dot_wf hA hAr hB hBl hs) rfl hC hCl (e := e) (by rw [flatten_star_dot]; exact hl)
  rwa [erase_star_dot (wp_ne_icur hA)] at h

/-- `A[].B o C` is `(A[].B) o C` -/
theorem flatten_dot_left {A B C : PTree} {o : Token} {l : Nat} (ho : binLevel o.type = some l)
    (hA : WellPrec A) (hAr : lvlFlatten ≤ rlevel A) (hB : WellPrec B) (hBl : lvlDot < llevel B)
    (hs : startsWithIdent B = true) (hC : WellPrec C) (hCl : l < llevel C)
    {e : Bytes} (hl : Lexes e ((Grammar.flatten A ++ tFlatten :: tDot :: Grammar.flatten B) ++ o :: Grammar.flatten C)) :
    Parser.parse e = .ok (binNode o.type (.flattenAndProject (erase A) (erase B)) (erase C)) := by
  have h := proj_left ho (flatten_dot_wf hA hAr hB hBl hs) rfl hC hCl (e := e) (by rw [flatten_flat_dot]; exact hl)
  rwa [erase_flat_dot (wp_ne_icur hA)] at h

/-- `A[?F].B o C` is `(A[?F].B) o C` -/
theorem filter_dot_left {A F B C : PTree} {o : Token} {l : Nat} (ho : binLevel o.type = some l)
    (hA : WellPrec A) (hAr : lvlFilter ≤ rlevel A) (hF : WellPrec F) (hB : WellPrec B) (hBl : lvlDot < llevel B)
    (hs : startsWithIdent B = true) (hC : WellPrec C) (hCl : l < llevel C)
    {e : Bytes} (hl : Lexes e ((Grammar.flatten A ++ tFilter :: (Grammar.flatten F ++ tRBracket :: tDot ::
      Grammar.flatten B)) ++ o :: Grammar.flatten C)) :
    Parser.parse e = .ok (binNode o.type (.filterAndProject (erase A) (erase F) (erase B)) (erase C)) := by
  have h := proj_left ho (filter_dot_wf hA hAr hF hB hBl hs) rfl hC hCl (e := e) (by rw [flatten_filt_dot]; exact hl)
  rwa [erase_filt_dot (wp_ne_icur hA)] at h

section
open Grammar.Ex
example : Parser.parse (bs "a[*].b + c") = .ok (.binop .add (.projectArray nA nB) nC) :=
  star_dot_left (o := oAdd) (A := iA) (B := iB) (C := iC) rfl (by decide) (by decide) (by decide) (by decide)
    (by decide) (by decide) (by decide) (by decide)
example : Parser.parse (bs "a[].b * c") = .ok (.binop .mul (.flattenAndProject nA nB) nC) :=
  flatten_dot_left (o := oMul) (A := iA) (B := iB) (C := iC) rfl (by decide) (by decide) (by decide) (by decide)
    (by decide) (by decide) (by decide) (by decide)
example : Parser.parse (bs "a[?t].b - c") = .ok (.binop .sub (.filterAndProject nA nT nB) nC) :=
  filter_dot_left (o := oSub) (A := iA) (F := iT) (B := iB) (C := iC) rfl (by decide) (by decide) (by decide)
    (by decide) (by decide) (by decide) (by decide) (by decide) (by decide)
-- a slice projection and an object projection; a projection on the right
example : Parser.parse (bs "a[1:3].b.c == d") = .ok (.binop .eq (.projectArray (.slice nA 1 3) (.pipe nB nC)) nD) :=
  proj_left (o := oEq) (P := .slice iA (some (int "1")) (some (int "3")) none (.dotId (.dotId .icur iB) iC)) (C := iD)
    rfl (by decide) rfl (by decide) (by decide) (by decide)
example : Parser.parse (bs "a.*.b // c") = .ok (.binop .idiv (.projectObject nA nB) nC) :=
  proj_left (o := op .integerDivide "//") (P := .ostar iA (.dotId .icur iB)) (C := iC)
    rfl (by decide) rfl (by decide) (by decide) (by decide)
example : Parser.parse (bs "a * b[*].c.d") = .ok (.binop .mul nA (.projectArray nB (.pipe nC nD))) :=
  proj_right (o := oMul) (A := iA) (P := .star iB (.dotId (.dotId .icur iC) iD)) rfl (by decide) (by decide)
    (by decide) rfl (by decide)
example : Tight (.star iB (.dotId (.dotId .icur iC) iD)) := tight_of_proj (by decide) rfl
end

/-! ## 5. Chains of any length at mixed levels

  `climb A [(o1, B1), …, (on, Bn)]` (`Proofs/C10BLemmas.lean`) is precedence climbing written as a left fold over the
  chain: each `oi Bi` is attached below every strictly looser operator on the right spine and above the rest.
  `chain_parse`: that fold is what the parser computes, for operands `A`, `Bi` that are arbitrary tight trees and any
  sequence of binary operators.  `climb_split` describes the result without the algorithm: the loosest operator of the
  chain — the last one among equals — is the root, and the two parts of the chain are grouped in the same way. -/

/-- **`chain_parse`**: the text `A o1 B1 o2 B2 … on Bn` compiles to the precedence-climbing fold of the chain, and
    evaluates as that node on every document.  (`A` may even be a binary-operator expression, provided its last
    operand is tight: `lvlMul ≤ rend A`.) -/
theorem chain_parse {A : PTree} {ops : List (Token × PTree)} (hA : WellPrec A) (hAe : lvlMul ≤ rend A)
    (hc : ChainOK ops) {e : Bytes} (hl : Lexes e (Grammar.flatten A ++ chainToks ops)) :
    Parser.parse e = .ok (erase (climb A ops)) ∧ ∀ d, search e d = evaluate (erase (climb A ops)) d := by
  obtain ⟨h1, h2, _⟩ := climb_spec ops A false hA hAe hc
  exact parse_tree h1 (by rw [Grammar.flatten, h2]; exact hl)

/-- … in particular for a tight first operand -/
theorem chain_parse_tight {A : PTree} {ops : List (Token × PTree)} (hA : Tight A) (hc : ChainOK ops)
    {e : Bytes} (hl : Lexes e (Grammar.flatten A ++ chainToks ops)) :
    Parser.parse e = .ok (erase (climb A ops)) ∧ ∀ d, search e d = evaluate (erase (climb A ops)) d :=
  chain_parse hA.1 (by rw [rend_not_bin (tight_not_bin hA)]; exact hA.2.2) hc hl

/-- the chain is well formed and prints as written -/
theorem chain_wf {A : PTree} {ops : List (Token × PTree)} (hA : Tight A) (hc : ChainOK ops) :
    WellPrec (climb A ops) ∧ Grammar.flatten (climb A ops) = Grammar.flatten A ++ chainToks ops :=
  let ⟨h1, h2, _⟩ := climb_spec ops A false hA.1 (by rw [rend_not_bin (tight_not_bin hA)]; exact hA.2.2) hc
  ⟨h1, h2⟩

/-- **`chain_split`** (`climb_split` for a tight first operand, at the level of nodes): if no operator before `o` is
    looser than `o` and every operator after it is strictly tighter, the node of the chain is the node of `o` over the
    node of the chain before `o` and the node of the chain after it. -/
theorem chain_split {A : PTree} (hA : Tight A) (ops1 : List (Token × PTree)) (o : Token) (x : PTree)
    (ops2 : List (Token × PTree)) (h1 : ∀ p ∈ ops1, lvlOf o ≤ lvlOf p.1) (h2 : ∀ p ∈ ops2, lvlOf o < lvlOf p.1) :
    erase (climb A (ops1 ++ (o, x) :: ops2)) = binNode o.type (erase (climb A ops1)) (erase (climb x ops2)) := by
  have hA' : lvlOf o ≤ rootLvl A := by
    rw [rootLvl_not_bin (tight_not_bin hA)]
    exact Nat.le_trans (lvlOf_le o) (by decide)
  rw [climb_split A ops1 o x ops2 hA' h1 h2, erase_bin]

/-- a chain at one level is the left fold: `((A o1 B1) o2 B2) … on Bn` -/
theorem chain_same_level {q : Nat} : ∀ (ops : List (Token × PTree)) (A : PTree), q ≤ rootLvl A →
    (∀ p ∈ ops, lvlOf p.1 = q) → climb A ops = ops.foldl (fun t p => .bin p.1 t p.2) A
  | [], _, _, _ => rfl
  | (o, x) :: ops, A, hA, hs => by
    have ho := hs (o, x) (List.mem_cons_self ..)
    rw [climb_cons, insertR_root (by simp only at ho; omega), List.foldl_cons]
    exact chain_same_level ops _ (by simp only [rootLvl]; simp only at ho; omega)
      (fun p hp => hs p (List.mem_cons_of_mem _ hp))

/-- a first operator that is strictly looser than all the others takes the whole rest of the chain as its right
    operand: `A o (B1 o2 B2 … on Bn)` -/
theorem chain_head (A : PTree) (o : Token) (x : PTree) (ops : List (Token × PTree)) (hA : lvlOf o ≤ rootLvl A)
    (h : ∀ p ∈ ops, lvlOf o < lvlOf p.1) : climb A ((o, x) :: ops) = .bin o A (climb x ops) :=
  climb_split A [] o x ops hA (fun _ hp => by cases hp) h

section
open Grammar.Ex
/-- `a - b * c // a % b + c`: six operands, five operators at two levels -/
def ch1 : List (Token × PTree) :=
  [(oSub, iB), (oMul, iC), (op .integerDivide "//", iA), (oMod, iB), (oAdd, iC)]
example : ChainOK ch1 := by decide
example : Parser.parse (bs "a - b * c // a % b + c") =
    .ok (.binop .add (.binop .sub nA (.binop .mod (.binop .idiv (.binop .mul nB nC) nA) nB)) nC) :=
  (chain_parse_tight (A := iA) (ops := ch1) (by decide) (by decide) (by decide)).1
/-- `a+b<c*a&&t||f|@`: every level once, loosest last -/
def ch2 : List (Token × PTree) :=
  [(oAdd, iB), (oLt, iC), (oMul, iA), (oAnd, iT), (oOr, iF), (oPipe, .atom ⟨.current, bs "@"⟩)]
example : Parser.parse (bs "a+b<c*a&&t||f|@") =
    .ok (.pipe (.or (.and (.binop .lt (.binop .add nA nB) (.binop .mul nC nA)) nT) nF) .current) :=
  (chain_parse_tight (A := iA) (ops := ch2) (by decide) (by decide) (by decide)).1
/-- `a | b || c && d == a + b * c`: every level once, loosest first: fully right-nested -/
def ch3 : List (Token × PTree) := [(oPipe, iB), (oOr, iC), (oAnd, iD), (oEq, iA), (oAdd, iB), (oMul, iC)]
example : Parser.parse (bs "a | b || c && d == a + b * c") =
    .ok (.pipe nA (.or nB (.and nC (.binop .eq nD (.binop .add nA (.binop .mul nB nC)))))) :=
  (chain_parse_tight (A := iA) (ops := ch3) (by decide) (by decide) (by decide)).1
/-- operands that are not atoms: `!a == b[*].c || (a | b).c && -d` -/
def ch4 : List (Token × PTree) :=
  [(oEq, .star iB (.dotId .icur iC)), (oOr, .dotId (.paren (.bin oPipe iA iB)) iC), (oAnd, .neg oSub iD)]
example : Parser.parse (bs "!a == b[*].c || (a | b).c && -d") =
    .ok (.or (.binop .eq (.not nA) (.projectArray nB nC)) (.and (.pipe (.pipe nA nB) nC) (.negate nD))) :=
  (chain_parse_tight (A := .not iA) (ops := ch4) (by decide) (by decide) (by decide)).1
example : WellPrec (climb iA ch1) ∧ Grammar.flatten (climb iA ch1) = Grammar.flatten iA ++ chainToks ch1 :=
  chain_wf (by decide) (by decide)
example : Parser.parse (bs "a + b * c - d") = .ok (erase (climb (.bin oAdd iA iB) [(oMul, iC), (oSub, iD)])) :=
  (chain_parse (A := .bin oAdd iA iB) (ops := [(oMul, iC), (oSub, iD)]) (by decide) (by decide) (by decide)
    (by decide)).1
-- `chain_split` on `ch1`: the root is the last `+`; on what is before it, the root is `-`
example : erase (climb iA ch1) =
    .binop .add (erase (climb iA [(oSub, iB), (oMul, iC), (op .integerDivide "//", iA), (oMod, iB)])) nC :=
  chain_split (A := iA) (by decide) [(oSub, iB), (oMul, iC), (op .integerDivide "//", iA), (oMod, iB)] oAdd iC []
    (by decide) (by decide)
example : climb iA [(oSub, iB), (oMul, iC), (op .integerDivide "//", iA), (oMod, iB)] =
    .bin oSub iA (climb iB [(oMul, iC), (op .integerDivide "//", iA), (oMod, iB)]) :=
  chain_head iA oSub iB _ (by decide) (by decide)
example : climb iB [(oMul, iC), (op .integerDivide "//", iA), (oMod, iB)] =
    .bin oMod (.bin (op .integerDivide "//") (.bin oMul iB iC) iA) iB :=
  chain_same_level (q := 7) _ iB (by decide) (by decide)
-- the triple theorem is the chain theorem for two operators
example (o1 o2 : Token) (A B C : PTree) :
    climb A [(o1, B), (o2, C)] = insertR (insertR A o1 B) o2 C := rfl
end

/-! ## 6. The theorems of `C10.lean` without their fuel hypotheses

  `Fuel.fuel_sufficient`: `Parser.parse` never reports that its fuel budget is exhausted. -/

/-- `C10.parse_of_operand` without `hnf` -/
theorem parse_of_operand {e : Bytes} {ts : List Token} {n : INode}
    (hl : lexAll e = (ts ++ [endTok], none)) (hO : C10.Operand 1 ts n) : Parser.parse e = .ok n :=
  C10.parse_of_operand hl hO (Fuel.fuel_sufficient e)

/-- `C10.search_eq_of_operands` without `hf1`, `hf2` -/
theorem search_eq_of_operands {e1 e2 : Bytes} {ts1 ts2 : List Token} {n : INode}
    (hl1 : lexAll e1 = (ts1 ++ [endTok], none)) (hl2 : lexAll e2 = (ts2 ++ [endTok], none))
    (h1 : C10.Operand 1 ts1 n) (h2 : C10.Operand 1 ts2 n) (d : Val) : search e1 d = search e2 d :=
  C10.search_eq_of_operands hl1 hl2 h1 h2 (Fuel.fuel_sufficient e1) (Fuel.fuel_sufficient e2) d

/-- `C10.paren_neutral_left_search` without `hf1`, `hf2`: writing the implied parentheses (left grouping) never changes
    the outcome -/
theorem paren_neutral_left_search {e1 e2 : Bytes} {lp rp o1 o2 : Token} {mk1 mk2} {A B C : List Token}
    {a b c : INode}
    (hl1 : lexAll e1 = ((A ++ o1 :: (B ++ o2 :: C)) ++ [endTok], none))
    (hl2 : lexAll e2 = (((lp :: ((A ++ o1 :: B) ++ [rp])) ++ o2 :: C) ++ [endTok], none))
    (hl : lp.type = .openParen) (hr : rp.type = .closeParen)
    (hmk1 : mkBin o1.type = some mk1) (hmk2 : mkBin o2.type = some mk2)
    (h21 : precedence o2.type ≤ precedence o1.type)
    (hA : C10.Operand (precedence o1.type) A a) (hB : C10.Operand (precedence o1.type) B b)
    (hC : C10.Operand (precedence o2.type) C c) (d : Val) :
    search e1 d = search e2 d ∧ search e1 d = evaluate (mk2 (mk1 a b) c) d :=
  C10.paren_neutral_left_search hl1 hl2 hl hr hmk1 hmk2 h21 hA hB hC (Fuel.fuel_sufficient e1)
    (Fuel.fuel_sufficient e2) d

/-- `C10.paren_neutral_right_search` without `hf1`, `hf2` -/
theorem paren_neutral_right_search {e1 e2 : Bytes} {lp rp o1 o2 : Token} {mk1 mk2} {A B C : List Token}
    {a b c : INode}
    (hl1 : lexAll e1 = ((A ++ o1 :: (B ++ o2 :: C)) ++ [endTok], none))
    (hl2 : lexAll e2 = ((A ++ o1 :: (lp :: ((B ++ o2 :: C) ++ [rp]))) ++ [endTok], none))
    (hl : lp.type = .openParen) (hr : rp.type = .closeParen)
    (hmk1 : mkBin o1.type = some mk1) (hmk2 : mkBin o2.type = some mk2)
    (h12 : precedence o1.type < precedence o2.type)
    (hA : C10.Operand (precedence o1.type) A a) (hB : C10.Operand (precedence o2.type) B b)
    (hC : C10.Operand (precedence o2.type) C c) (d : Val) :
    search e1 d = search e2 d ∧ search e1 d = evaluate (mk1 a (mk2 b c)) d :=
  C10.paren_neutral_right_search hl1 hl2 hl hr hmk1 hmk2 h12 hA hB hC (Fuel.fuel_sufficient e1)
    (Fuel.fuel_sufficient e2) d

example (d : Val) :
    search [0x61, 0x2B, 0x62, 0x2A, 0x63] d = search [0x61, 0x2B, 0x28, 0x62, 0x2A, 0x63, 0x29] d :=
  (paren_neutral_right_search (lp := C10.tk .openParen [0x28]) (rp := C10.tk .closeParen [0x29])
    (o1 := C10.tk .add [0x2B]) (o2 := C10.tk .asterisk [0x2A]) (A := [C10.tA]) (B := [C10.tB]) (C := [C10.tC])
    (by decide) (by decide) rfl rfl rfl rfl (by decide)
    (C10.operand_ident (t := C10.tA) rfl _) (C10.operand_ident (t := C10.tB) rfl _)
    (C10.operand_ident (t := C10.tC) rfl _) d).1
example : Parser.parse [0x61, 0x2A, 0x62] = .ok (.binop .mul C10.fa C10.fb) :=
  parse_of_operand (ts := [C10.tA, C10.tk .asterisk [0x2A], C10.tB]) (by decide)
    (C10.binary (o := C10.tk .asterisk [0x2A]) (A := [C10.tA]) (B := [C10.tB]) rfl (by decide)
      (C10.operand_ident (t := C10.tA) rfl _) (C10.operand_ident (t := C10.tB) rfl _))

/-! ## 7. Documents that distinguish the groupings

  For each level boundary and each non-commutative level: an expression, the same expression with the OTHER grouping
  forced by parentheses, and a document on which the two differ — so the grouping the parser chooses is observable,
  and a parser choosing the other one would be caught on that document.  The parses come from the general theorems
  (via `parse_tree`), the values from evaluating the nodes.  `doc` is `{"a": 2, "b": 3, "c": 4, "f": false, "t": true}`.
  Every value below was also observed on the Go implementation (same expressions, same document). -/

/-- the value of an expression, given its tree -/
theorem search_val {t : PTree} (h : WellPrec t) {e : Bytes} (hl : Lexes e (Grammar.flatten t)) {d : Val} {v : Res Val}
    (hv : evaluate (erase t) d = v) : search e d = v := ((parse_tree h hl).2 d).trans hv

/-- two expressions with different values on a document -/
theorem distinguish {t1 t2 : PTree} (h1 : WellPrec t1) (h2 : WellPrec t2) {e1 e2 : Bytes}
    (hl1 : Lexes e1 (Grammar.flatten t1)) (hl2 : Lexes e2 (Grammar.flatten t2)) {d : Val} {v1 v2 : Res Val}
    (hv1 : evaluate (erase t1) d = v1) (hv2 : evaluate (erase t2) d = v2) (hne : v1 ≠ v2) :
    search e1 d = v1 ∧ search e2 d = v2 ∧ search e1 d ≠ search e2 d := by
  have a := search_val h1 hl1 hv1
  have b := search_val h2 hl2 hv2
  exact ⟨a, b, by rw [a, b]; exact hne⟩

section
open Grammar.Ex
/-- `{"a": {"b": 1}}` -/
def docN : Val := .obj [(bs "a", .obj [(bs "b", jn "1")])]

/-- subtraction associates to the left: `2 - 3 - 4` is `-5`, not `3` -/
theorem distinguish_sub_assoc :
    search (bs "a - b - c") doc = .ok (dn true 5) ∧ search (bs "a - (b - c)") doc = .ok (dn false 3) ∧
    search (bs "a - b - c") doc ≠ search (bs "a - (b - c)") doc :=
  distinguish (t1 := .bin oSub (.bin oSub iA iB) iC) (t2 := .bin oSub iA (.paren (.bin oSub iB iC)))
    (by decide) (by decide) (by decide) (by decide) (by rfl) (by rfl) (by intro h; cases h)

/-- division associates to the left: `4 / 2 / 2` is `1`, not `4` -/
theorem distinguish_div_assoc :
    search (bs "c / a / a") doc = .ok (dn false 1) ∧ search (bs "c / (a / a)") doc = .ok (dn false 4) ∧
    search (bs "c / a / a") doc ≠ search (bs "c / (a / a)") doc :=
  distinguish (t1 := .bin oDiv (.bin oDiv iC iA) iA) (t2 := .bin oDiv iC (.paren (.bin oDiv iA iA)))
    (by decide) (by decide) (by decide) (by decide) (by rfl) (by rfl) (by intro h; cases h)

/-- different operators of the multiplicative level: `4 // 3 * 2` is `2`, not `0` -/
theorem distinguish_idiv_mul :
    search (bs "c // b * a") doc = .ok (dn false 2) ∧ search (bs "c // (b * a)") doc = .ok (dn false 0) ∧
    search (bs "c // b * a") doc ≠ search (bs "c // (b * a)") doc :=
  distinguish (t1 := .bin oMul (.bin (op .integerDivide "//") iC iB) iA)
    (t2 := .bin (op .integerDivide "//") iC (.paren (.bin oMul iB iA)))
    (by decide) (by decide) (by decide) (by decide) (by rfl) (by rfl) (by intro h; cases h)

/-- different operators of the additive level: `2 - 3 + 4` is `3`, not `-5` -/
theorem distinguish_sub_add :
    search (bs "a - b + c") doc = .ok (dn false 3) ∧ search (bs "a - (b + c)") doc = .ok (dn true 5) ∧
    search (bs "a - b + c") doc ≠ search (bs "a - (b + c)") doc :=
  distinguish (t1 := .bin oAdd (.bin oSub iA iB) iC) (t2 := .bin oSub iA (.paren (.bin oAdd iB iC)))
    (by decide) (by decide) (by decide) (by decide) (by rfl) (by rfl) (by intro h; cases h)

/-- multiplicative binds tighter than additive, on either side: `2 * 3 + 4` is `10`, not `14`; `2 + 3 * 4` is `14`,
    not `20` -/
theorem distinguish_mul_add :
    (search (bs "a * b + c") doc = .ok (.num (.dec (.fin false 1 1))) ∧
     search (bs "a * (b + c)") doc = .ok (dn false 14) ∧
     search (bs "a * b + c") doc ≠ search (bs "a * (b + c)") doc) ∧
    (search (bs "a + b * c") doc = .ok (dn false 14) ∧
     search (bs "(a + b) * c") doc = .ok (.num (.dec (.fin false 2 1))) ∧
     search (bs "a + b * c") doc ≠ search (bs "(a + b) * c") doc) :=
  ⟨distinguish (t1 := .bin oAdd (.bin oMul iA iB) iC) (t2 := .bin oMul iA (.paren (.bin oAdd iB iC)))
    (by decide) (by decide) (by decide) (by decide) (by rfl) (by rfl) (by intro h; cases h),
   distinguish (t1 := .bin oAdd iA (.bin oMul iB iC)) (t2 := .bin oMul (.paren (.bin oAdd iA iB)) iC)
    (by decide) (by decide) (by decide) (by decide) (by rfl) (by rfl) (by intro h; cases h)⟩

/-- additive binds tighter than comparison: `2 < 3 + 4` is `true`; `(2 < 3) + 4` is a type error -/
theorem distinguish_cmp_add :
    search (bs "a < b + c") doc = .ok (.bool true) ∧ search (bs "(a < b) + c") doc = .err [.invalidType] ∧
    search (bs "a < b + c") doc ≠ search (bs "(a < b) + c") doc :=
  distinguish (t1 := .bin oLt iA (.bin oAdd iB iC)) (t2 := .bin oAdd (.paren (.bin oLt iA iB)) iC)
    (by decide) (by decide) (by decide) (by decide) (by rfl) (by rfl) (by intro h; cases h)

/-- comparisons associate to the left: `2 < 3 == true` is `true`; `2 < (3 == true)` is `null` -/
theorem distinguish_cmp_assoc :
    search (bs "a < b == t") doc = .ok (.bool true) ∧ search (bs "a < (b == t)") doc = .ok .null ∧
    search (bs "a < b == t") doc ≠ search (bs "a < (b == t)") doc :=
  distinguish (t1 := .bin oEq (.bin oLt iA iB) iT) (t2 := .bin oLt iA (.paren (.bin oEq iB iT)))
    (by decide) (by decide) (by decide) (by decide) (by rfl) (by rfl) (by intro h; cases h)

/-- comparison binds tighter than `&&`: `2 == 2 && 3` is `3`; `2 == (2 && 3)` is `false` -/
theorem distinguish_and_cmp :
    search (bs "a == a && b") doc = .ok (jn "3") ∧ search (bs "a == (a && b)") doc = .ok (.bool false) ∧
    search (bs "a == a && b") doc ≠ search (bs "a == (a && b)") doc :=
  distinguish (t1 := .bin oAnd (.bin oEq iA iA) iB) (t2 := .bin oEq iA (.paren (.bin oAnd iA iB)))
    (by decide) (by decide) (by decide) (by decide) (by rfl) (by rfl) (by intro h; cases h)

/-- `&&` binds tighter than `||`: `true || true && false` is `true`; `(true || true) && false` is `false` -/
theorem distinguish_or_and :
    search (bs "t || t && f") doc = .ok (.bool true) ∧ search (bs "(t || t) && f") doc = .ok (.bool false) ∧
    search (bs "t || t && f") doc ≠ search (bs "(t || t) && f") doc :=
  distinguish (t1 := .bin oOr iT (.bin oAnd iT iF)) (t2 := .bin oAnd (.paren (.bin oOr iT iT)) iF)
    (by decide) (by decide) (by decide) (by decide) (by rfl) (by rfl) (by intro h; cases h)

/-- `||` binds tighter than `|`: `a | b || c` is `a | (b || c)`, `null` here; `(a | b) || c` is `4` -/
theorem distinguish_pipe_or :
    search (bs "a | b || c") doc = .ok .null ∧ search (bs "(a | b) || c") doc = .ok (jn "4") ∧
    search (bs "a | b || c") doc ≠ search (bs "(a | b) || c") doc :=
  distinguish (t1 := .bin oPipe iA (.bin oOr iB iC)) (t2 := .bin oOr (.paren (.bin oPipe iA iB)) iC)
    (by decide) (by decide) (by decide) (by decide) (by rfl) (by rfl) (by intro h; cases h)

/-- the sign binds tighter than `+`: `-2 + 3` is `1`; `-(2 + 3)` is `-5` -/
theorem distinguish_neg_add :
    search (bs "-a + b") doc = .ok (dn false 1) ∧ search (bs "-(a + b)") doc = .ok (dn true 5) ∧
    search (bs "-a + b") doc ≠ search (bs "-(a + b)") doc :=
  distinguish (t1 := .bin oAdd (.neg oSub iA) iB) (t2 := .neg oSub (.paren (.bin oAdd iA iB)))
    (by decide) (by decide) (by decide) (by decide) (by rfl) (by rfl) (by intro h; cases h)

/-- `!` binds tighter than `&&`: `!false && false` is `false`; `!(false && false)` is `true` -/
theorem distinguish_not_and :
    search (bs "!f && f") doc = .ok (.bool false) ∧ search (bs "!(f && f)") doc = .ok (.bool true) ∧
    search (bs "!f && f") doc ≠ search (bs "!(f && f)") doc :=
  distinguish (t1 := .bin oAnd (.not iF) iF) (t2 := .not (.paren (.bin oAnd iF iF)))
    (by decide) (by decide) (by decide) (by decide) (by rfl) (by rfl) (by intro h; cases h)

/-- `!` binds tighter than `.`: `!a.b` is `(!a).b`, `null` here; `!(a.b)` is `true` -/
theorem distinguish_not_dot :
    search (bs "!a.b") doc = .ok .null ∧ search (bs "!(a.b)") doc = .ok (.bool true) ∧
    search (bs "!a.b") doc ≠ search (bs "!(a.b)") doc :=
  distinguish (t1 := .dotId (.not iA) iB) (t2 := .not (.paren (.dotId iA iB)))
    (by decide) (by decide) (by decide) (by decide) (by rfl) (by rfl) (by intro h; cases h)

/-- the sign binds looser than `.`: on `{"a": {"b": 1}}`, `-a.b` is `-(a.b)`, `-1`; `(-a).b` is `null` -/
theorem distinguish_neg_dot :
    search (bs "-a.b") docN = .ok (dn true 1) ∧ search (bs "(-a).b") docN = .ok .null ∧
    search (bs "-a.b") docN ≠ search (bs "(-a).b") docN :=
  distinguish (t1 := .neg oSub (.dotId iA iB)) (t2 := .dotId (.paren (.neg oSub iA)) iB)
    (by decide) (by decide) (by decide) (by decide) (by rfl) (by rfl) (by intro h; cases h)

/-- a chain of five operators, evaluated: `2 - 3 * 4 // 2 % 3 + 4` is `2 - ((3 * 4 // 2) % 3) + 4 = 6` -/
example : search (bs "a - b * c // a % b + c") doc = .ok (dn false 6) :=
  ((chain_parse_tight (A := iA) (ops := ch1) (by decide) (by decide) (by decide)).2 doc).trans (by rfl)
end

/-! ## 8. `-` next to a digit

  The lexer reads `-` followed by a digit as the start of a number token (lexer.go, `case '-'`), in every context.
  Number tokens are not expressions in JMESPath (a number is written `` `1` ``); they occur between brackets only.  So:
  `a-1` lexes to `a`, `-1` and `a - 1` to `a`, `-`, `1`; both — and `a -1` — are syntax errors, in the model and in the
  Go implementation alike (observed: `unexpected token "-1"`, `unexpected token "1"`, `unexpected token "-1"`).
  Nothing is silently reinterpreted: there is no way for `a-1` to mean "field, then number".  With an operand that is
  an expression the spacing does not matter: `a-b`, `a -b`, `a- b`, `` a-`1` `` all subtract.  Between brackets `-1` is
  one token: `a[-1]` is an index, `a[- 1]` and `a[−1]` (U+2212) are syntax errors. -/

section
open Grammar.Ex
/-- what the lexer produces -/
theorem minus_digit_lex :
    lexAll (bs "a-1") = ([⟨.unquotedIdentifier, bs "a"⟩, ⟨.integerLiteral, bs "-1"⟩, endTok], none) ∧
    lexAll (bs "a -1") = ([⟨.unquotedIdentifier, bs "a"⟩, ⟨.integerLiteral, bs "-1"⟩, endTok], none) ∧
    lexAll (bs "a - 1") = ([⟨.unquotedIdentifier, bs "a"⟩, oSub, ⟨.integerLiteral, bs "1"⟩, endTok], none) ∧
    lexAll (bs "a-b") = ([⟨.unquotedIdentifier, bs "a"⟩, oSub, ⟨.unquotedIdentifier, bs "b"⟩, endTok], none) ∧
    lexAll (bs "a[-1]") = ([⟨.unquotedIdentifier, bs "a"⟩, tLBracket, ⟨.integerLiteral, bs "-1"⟩, tRBracket, endTok],
      none) := by decide

/-- `a-1`, `a -1`, `a - 1` are syntax errors -/
theorem minus_digit_rejected :
    Parser.parse (bs "a-1") = .error .unexpectedToken ∧ Parser.parse (bs "a -1") = .error .unexpectedToken ∧
    Parser.parse (bs "a - 1") = .error .unexpectedToken :=
  ⟨C04.errorOf_eq (by decide +kernel), C04.errorOf_eq (by decide +kernel), C04.errorOf_eq (by decide +kernel)⟩

/-- … reported as such by `search`, on every document -/
theorem minus_digit_search (d : Val) :
    search (bs "a-1") d = .err [.syntax] ∧ search (bs "a -1") d = .err [.syntax] ∧
    search (bs "a - 1") d = .err [.syntax] := by
  obtain ⟨h1, h2, h3⟩ := minus_digit_rejected
  unfold search
  rw [h1, h2, h3]
  exact ⟨rfl, rfl, rfl⟩

/-- with expression operands the spacing does not matter -/
theorem minus_spacing :
    Parser.parse (bs "a-b") = .ok (.binop .sub nA nB) ∧ Parser.parse (bs "a -b") = .ok (.binop .sub nA nB) ∧
    Parser.parse (bs "a- b") = .ok (.binop .sub nA nB) ∧ Parser.parse (bs "a - b") = .ok (.binop .sub nA nB) ∧
    Parser.parse (bs "a-`1`") = .ok (.binop .sub nA (.lit (jn "1"))) :=
  ⟨(parse_tree (t := .bin oSub iA iB) (by decide) (by decide)).1,
   (parse_tree (t := .bin oSub iA iB) (by decide) (by decide)).1,
   (parse_tree (t := .bin oSub iA iB) (by decide) (by decide)).1,
   (parse_tree (t := .bin oSub iA iB) (by decide) (by decide)).1,
   (parse_tree (t := .bin oSub iA (.atom ⟨.jsonLiteral, bs "`1`"⟩)) (by decide +kernel) (by decide +kernel)).1⟩

/-- between brackets: `a[-1]` is an index; `a[- 1]` and `a[−1]` (U+2212 MINUS SIGN) are syntax errors -/
theorem minus_digit_index :
    Parser.parse (bs "a[-1]") = .ok (.index nA (-1)) ∧ Parser.parse (bs "a[- 1]") = .error .unexpectedToken ∧
    Parser.parse [0x61, 0x5B, 0xE2, 0x88, 0x92, 0x31, 0x5D] = .error .unexpectedToken :=
  ⟨(parse_tree (t := .index iA (int "-1")) (by decide) (by decide)).1,
   C04.errorOf_eq (by decide +kernel), C04.errorOf_eq (by decide +kernel)⟩
end

end Jmes.C10B
